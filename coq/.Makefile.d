Base/ListX.vo Base/ListX.glob Base/ListX.v.beautified Base/ListX.required_vo: Base/ListX.v Base/Res.vo Base/Octets.vo
Base/ListX.vio: Base/ListX.v Base/Res.vio Base/Octets.vio
Base/ListX.vos Base/ListX.vok Base/ListX.required_vos: Base/ListX.v Base/Res.vos Base/Octets.vos
Base/Octets.vo Base/Octets.glob Base/Octets.v.beautified Base/Octets.required_vo: Base/Octets.v Base/Res.vo
Base/Octets.vio: Base/Octets.v Base/Res.vio
Base/Octets.vos Base/Octets.vok Base/Octets.required_vos: Base/Octets.v Base/Res.vos
Base/Res.vo Base/Res.glob Base/Res.v.beautified Base/Res.required_vo: Base/Res.v 
Base/Res.vio: Base/Res.v 
Base/Res.vos Base/Res.vok Base/Res.required_vos: Base/Res.v 
Gen/Consts.vo Gen/Consts.glob Gen/Consts.v.beautified Gen/Consts.required_vo: Gen/Consts.v 
Gen/Consts.vio: Gen/Consts.v 
Gen/Consts.vos Gen/Consts.vok Gen/Consts.required_vos: Gen/Consts.v 
Gen/WriterTab.vo Gen/WriterTab.glob Gen/WriterTab.v.beautified Gen/WriterTab.required_vo: Gen/WriterTab.v 
Gen/WriterTab.vio: Gen/WriterTab.v 
Gen/WriterTab.vos Gen/WriterTab.vok Gen/WriterTab.required_vos: Gen/WriterTab.v 
Model/MsgWriter.vo Model/MsgWriter.glob Model/MsgWriter.v.beautified Model/MsgWriter.required_vo: Model/MsgWriter.v Base/Res.vo Base/Octets.vo Gen/Consts.vo Gen/WriterTab.vo Model/NameWire.vo
Model/MsgWriter.vio: Model/MsgWriter.v Base/Res.vio Base/Octets.vio Gen/Consts.vio Gen/WriterTab.vio Model/NameWire.vio
Model/MsgWriter.vos Model/MsgWriter.vok Model/MsgWriter.required_vos: Model/MsgWriter.v Base/Res.vos Base/Octets.vos Gen/Consts.vos Gen/WriterTab.vos Model/NameWire.vos
Model/NameWire.vo Model/NameWire.glob Model/NameWire.v.beautified Model/NameWire.required_vo: Model/NameWire.v Base/Res.vo Base/Octets.vo Gen/Consts.vo
Model/NameWire.vio: Model/NameWire.v Base/Res.vio Base/Octets.vio Gen/Consts.vio
Model/NameWire.vos Model/NameWire.vok Model/NameWire.required_vos: Model/NameWire.v Base/Res.vos Base/Octets.vos Gen/Consts.vos
Proofs/MsgWriterInvP.vo Proofs/MsgWriterInvP.glob Proofs/MsgWriterInvP.v.beautified Proofs/MsgWriterInvP.required_vo: Proofs/MsgWriterInvP.v Base/ListX.vo Model/MsgWriter.vo Proofs/NameWireP.vo Proofs/MsgWriterP.vo Proofs/MsgWriterScanP.vo Proofs/MsgWriterNameP.vo
Proofs/MsgWriterInvP.vio: Proofs/MsgWriterInvP.v Base/ListX.vio Model/MsgWriter.vio Proofs/NameWireP.vio Proofs/MsgWriterP.vio Proofs/MsgWriterScanP.vio Proofs/MsgWriterNameP.vio
Proofs/MsgWriterInvP.vos Proofs/MsgWriterInvP.vok Proofs/MsgWriterInvP.required_vos: Proofs/MsgWriterInvP.v Base/ListX.vos Model/MsgWriter.vos Proofs/NameWireP.vos Proofs/MsgWriterP.vos Proofs/MsgWriterScanP.vos Proofs/MsgWriterNameP.vos
Proofs/MsgWriterNameP.vo Proofs/MsgWriterNameP.glob Proofs/MsgWriterNameP.v.beautified Proofs/MsgWriterNameP.required_vo: Proofs/MsgWriterNameP.v Base/ListX.vo Model/MsgWriter.vo Proofs/NameWireP.vo Proofs/MsgWriterP.vo Proofs/MsgWriterScanP.vo
Proofs/MsgWriterNameP.vio: Proofs/MsgWriterNameP.v Base/ListX.vio Model/MsgWriter.vio Proofs/NameWireP.vio Proofs/MsgWriterP.vio Proofs/MsgWriterScanP.vio
Proofs/MsgWriterNameP.vos Proofs/MsgWriterNameP.vok Proofs/MsgWriterNameP.required_vos: Proofs/MsgWriterNameP.v Base/ListX.vos Model/MsgWriter.vos Proofs/NameWireP.vos Proofs/MsgWriterP.vos Proofs/MsgWriterScanP.vos
Proofs/MsgWriterP.vo Proofs/MsgWriterP.glob Proofs/MsgWriterP.v.beautified Proofs/MsgWriterP.required_vo: Proofs/MsgWriterP.v Base/ListX.vo Model/MsgWriter.vo Proofs/NameWireP.vo
Proofs/MsgWriterP.vio: Proofs/MsgWriterP.v Base/ListX.vio Model/MsgWriter.vio Proofs/NameWireP.vio
Proofs/MsgWriterP.vos Proofs/MsgWriterP.vok Proofs/MsgWriterP.required_vos: Proofs/MsgWriterP.v Base/ListX.vos Model/MsgWriter.vos Proofs/NameWireP.vos
Proofs/MsgWriterScanP.vo Proofs/MsgWriterScanP.glob Proofs/MsgWriterScanP.v.beautified Proofs/MsgWriterScanP.required_vo: Proofs/MsgWriterScanP.v Base/ListX.vo Model/MsgWriter.vo Proofs/NameWireP.vo Proofs/MsgWriterP.vo
Proofs/MsgWriterScanP.vio: Proofs/MsgWriterScanP.v Base/ListX.vio Model/MsgWriter.vio Proofs/NameWireP.vio Proofs/MsgWriterP.vio
Proofs/MsgWriterScanP.vos Proofs/MsgWriterScanP.vok Proofs/MsgWriterScanP.required_vos: Proofs/MsgWriterScanP.v Base/ListX.vos Model/MsgWriter.vos Proofs/NameWireP.vos Proofs/MsgWriterP.vos
Proofs/MsgWriterTabP.vo Proofs/MsgWriterTabP.glob Proofs/MsgWriterTabP.v.beautified Proofs/MsgWriterTabP.required_vo: Proofs/MsgWriterTabP.v Base/ListX.vo Model/MsgWriter.vo
Proofs/MsgWriterTabP.vio: Proofs/MsgWriterTabP.v Base/ListX.vio Model/MsgWriter.vio
Proofs/MsgWriterTabP.vos Proofs/MsgWriterTabP.vok Proofs/MsgWriterTabP.required_vos: Proofs/MsgWriterTabP.v Base/ListX.vos Model/MsgWriter.vos
Proofs/MsgWriterTopP.vo Proofs/MsgWriterTopP.glob Proofs/MsgWriterTopP.v.beautified Proofs/MsgWriterTopP.required_vo: Proofs/MsgWriterTopP.v Base/ListX.vo Model/MsgWriter.vo Proofs/MsgWriterP.vo Proofs/MsgWriterScanP.vo Proofs/MsgWriterNameP.vo Proofs/MsgWriterInvP.vo
Proofs/MsgWriterTopP.vio: Proofs/MsgWriterTopP.v Base/ListX.vio Model/MsgWriter.vio Proofs/MsgWriterP.vio Proofs/MsgWriterScanP.vio Proofs/MsgWriterNameP.vio Proofs/MsgWriterInvP.vio
Proofs/MsgWriterTopP.vos Proofs/MsgWriterTopP.vok Proofs/MsgWriterTopP.required_vos: Proofs/MsgWriterTopP.v Base/ListX.vos Model/MsgWriter.vos Proofs/MsgWriterP.vos Proofs/MsgWriterScanP.vos Proofs/MsgWriterNameP.vos Proofs/MsgWriterInvP.vos
Proofs/NameWireP.vo Proofs/NameWireP.glob Proofs/NameWireP.v.beautified Proofs/NameWireP.required_vo: Proofs/NameWireP.v Base/ListX.vo Model/NameWire.vo Spec/NameWireS.vo Spec/NameRepr.vo
Proofs/NameWireP.vio: Proofs/NameWireP.v Base/ListX.vio Model/NameWire.vio Spec/NameWireS.vio Spec/NameRepr.vio
Proofs/NameWireP.vos Proofs/NameWireP.vok Proofs/NameWireP.required_vos: Proofs/NameWireP.v Base/ListX.vos Model/NameWire.vos Spec/NameWireS.vos Spec/NameRepr.vos
Proofs/NameWireSP.vo Proofs/NameWireSP.glob Proofs/NameWireSP.v.beautified Proofs/NameWireSP.required_vo: Proofs/NameWireSP.v Base/ListX.vo Spec/NameWireS.vo
Proofs/NameWireSP.vio: Proofs/NameWireSP.v Base/ListX.vio Spec/NameWireS.vio
Proofs/NameWireSP.vos Proofs/NameWireSP.vok Proofs/NameWireSP.required_vos: Proofs/NameWireSP.v Base/ListX.vos Spec/NameWireS.vos
Props/C12.vo Props/C12.glob Props/C12.v.beautified Props/C12.required_vo: Props/C12.v Spec/MsgWriterS.vo Base/ListX.vo Model/MsgWriter.vo Proofs/MsgWriterP.vo Proofs/MsgWriterScanP.vo Proofs/MsgWriterNameP.vo Proofs/MsgWriterInvP.vo Proofs/MsgWriterTopP.vo
Props/C12.vio: Props/C12.v Spec/MsgWriterS.vio Base/ListX.vio Model/MsgWriter.vio Proofs/MsgWriterP.vio Proofs/MsgWriterScanP.vio Proofs/MsgWriterNameP.vio Proofs/MsgWriterInvP.vio Proofs/MsgWriterTopP.vio
Props/C12.vos Props/C12.vok Props/C12.required_vos: Props/C12.v Spec/MsgWriterS.vos Base/ListX.vos Model/MsgWriter.vos Proofs/MsgWriterP.vos Proofs/MsgWriterScanP.vos Proofs/MsgWriterNameP.vos Proofs/MsgWriterInvP.vos Proofs/MsgWriterTopP.vos
Props/C13.vo Props/C13.glob Props/C13.v.beautified Props/C13.required_vo: Props/C13.v Spec/MsgWriterS.vo Base/ListX.vo Model/MsgWriter.vo Proofs/MsgWriterP.vo Proofs/MsgWriterScanP.vo Proofs/MsgWriterNameP.vo Proofs/MsgWriterTabP.vo Proofs/MsgWriterTopP.vo
Props/C13.vio: Props/C13.v Spec/MsgWriterS.vio Base/ListX.vio Model/MsgWriter.vio Proofs/MsgWriterP.vio Proofs/MsgWriterScanP.vio Proofs/MsgWriterNameP.vio Proofs/MsgWriterTabP.vio Proofs/MsgWriterTopP.vio
Props/C13.vos Props/C13.vok Props/C13.required_vos: Props/C13.v Spec/MsgWriterS.vos Base/ListX.vos Model/MsgWriter.vos Proofs/MsgWriterP.vos Proofs/MsgWriterScanP.vos Proofs/MsgWriterNameP.vos Proofs/MsgWriterTabP.vos Proofs/MsgWriterTopP.vos
Props/C14.vo Props/C14.glob Props/C14.v.beautified Props/C14.required_vo: Props/C14.v Base/ListX.vo Model/NameWire.vo Spec/NameWireS.vo Spec/NameRepr.vo Proofs/NameWireP.vo Proofs/NameWireSP.vo
Props/C14.vio: Props/C14.v Base/ListX.vio Model/NameWire.vio Spec/NameWireS.vio Spec/NameRepr.vio Proofs/NameWireP.vio Proofs/NameWireSP.vio
Props/C14.vos Props/C14.vok Props/C14.required_vos: Props/C14.v Base/ListX.vos Model/NameWire.vos Spec/NameWireS.vos Spec/NameRepr.vos Proofs/NameWireP.vos Proofs/NameWireSP.vos
Spec/MsgWriterS.vo Spec/MsgWriterS.glob Spec/MsgWriterS.v.beautified Spec/MsgWriterS.required_vo: Spec/MsgWriterS.v Base/Res.vo Base/Octets.vo Spec/NameWireS.vo Model/MsgWriter.vo
Spec/MsgWriterS.vio: Spec/MsgWriterS.v Base/Res.vio Base/Octets.vio Spec/NameWireS.vio Model/MsgWriter.vio
Spec/MsgWriterS.vos Spec/MsgWriterS.vok Spec/MsgWriterS.required_vos: Spec/MsgWriterS.v Base/Res.vos Base/Octets.vos Spec/NameWireS.vos Model/MsgWriter.vos
Spec/NameRepr.vo Spec/NameRepr.glob Spec/NameRepr.v.beautified Spec/NameRepr.required_vo: Spec/NameRepr.v Model/NameWire.vo Spec/NameWireS.vo
Spec/NameRepr.vio: Spec/NameRepr.v Model/NameWire.vio Spec/NameWireS.vio
Spec/NameRepr.vos Spec/NameRepr.vok Spec/NameRepr.required_vos: Spec/NameRepr.v Model/NameWire.vos Spec/NameWireS.vos
Spec/NameWireS.vo Spec/NameWireS.glob Spec/NameWireS.v.beautified Spec/NameWireS.required_vo: Spec/NameWireS.v Base/Res.vo Base/Octets.vo
Spec/NameWireS.vio: Spec/NameWireS.v Base/Res.vio Base/Octets.vio
Spec/NameWireS.vos Spec/NameWireS.vok Spec/NameWireS.required_vos: Spec/NameWireS.v Base/Res.vos Base/Octets.vos
