Base/ListX.vo Base/ListX.glob Base/ListX.v.beautified Base/ListX.required_vo: Base/ListX.v Base/Res.vo Base/Octets.vo
Base/ListX.vio: Base/ListX.v Base/Res.vio Base/Octets.vio
Base/ListX.vos Base/ListX.vok Base/ListX.required_vos: Base/ListX.v Base/Res.vos Base/Octets.vos
Base/Octets.vo Base/Octets.glob Base/Octets.v.beautified Base/Octets.required_vo: Base/Octets.v Base/Res.vo
Base/Octets.vio: Base/Octets.v Base/Res.vio
Base/Octets.vos Base/Octets.vok Base/Octets.required_vos: Base/Octets.v Base/Res.vos
Base/Res.vo Base/Res.glob Base/Res.v.beautified Base/Res.required_vo: Base/Res.v 
Base/Res.vio: Base/Res.v 
Base/Res.vos Base/Res.vok Base/Res.required_vos: Base/Res.v 
Gen/Consts.vo Gen/Consts.glob Gen/Consts.v.beautified Gen/Consts.required_vo: Gen/Consts.v 
Gen/Consts.vio: Gen/Consts.v 
Gen/Consts.vos Gen/Consts.vok Gen/Consts.required_vos: Gen/Consts.v 
Gen/RdataTables.vo Gen/RdataTables.glob Gen/RdataTables.v.beautified Gen/RdataTables.required_vo: Gen/RdataTables.v 
Gen/RdataTables.vio: Gen/RdataTables.v 
Gen/RdataTables.vos Gen/RdataTables.vok Gen/RdataTables.required_vos: Gen/RdataTables.v 
Model/NameWire.vo Model/NameWire.glob Model/NameWire.v.beautified Model/NameWire.required_vo: Model/NameWire.v Base/Res.vo Base/Octets.vo Gen/Consts.vo
Model/NameWire.vio: Model/NameWire.v Base/Res.vio Base/Octets.vio Gen/Consts.vio
Model/NameWire.vos Model/NameWire.vok Model/NameWire.required_vos: Model/NameWire.v Base/Res.vos Base/Octets.vos Gen/Consts.vos
Model/RdataM.vo Model/RdataM.glob Model/RdataM.v.beautified Model/RdataM.required_vo: Model/RdataM.v Base/Res.vo Base/Octets.vo Gen/Consts.vo Gen/RdataTables.vo Model/NameWire.vo
Model/RdataM.vio: Model/RdataM.v Base/Res.vio Base/Octets.vio Gen/Consts.vio Gen/RdataTables.vio Model/NameWire.vio
Model/RdataM.vos Model/RdataM.vok Model/RdataM.required_vos: Model/RdataM.v Base/Res.vos Base/Octets.vos Gen/Consts.vos Gen/RdataTables.vos Model/NameWire.vos
Model/RdataSetM.vo Model/RdataSetM.glob Model/RdataSetM.v.beautified Model/RdataSetM.required_vo: Model/RdataSetM.v Model/RdataM.vo
Model/RdataSetM.vio: Model/RdataSetM.v Model/RdataM.vio
Model/RdataSetM.vos Model/RdataSetM.vok Model/RdataSetM.required_vos: Model/RdataSetM.v Model/RdataM.vos
Proofs/NameWireP.vo Proofs/NameWireP.glob Proofs/NameWireP.v.beautified Proofs/NameWireP.required_vo: Proofs/NameWireP.v Base/ListX.vo Model/NameWire.vo Spec/NameWireS.vo Spec/NameRepr.vo
Proofs/NameWireP.vio: Proofs/NameWireP.v Base/ListX.vio Model/NameWire.vio Spec/NameWireS.vio Spec/NameRepr.vio
Proofs/NameWireP.vos Proofs/NameWireP.vok Proofs/NameWireP.required_vos: Proofs/NameWireP.v Base/ListX.vos Model/NameWire.vos Spec/NameWireS.vos Spec/NameRepr.vos
Proofs/NameWireSP.vo Proofs/NameWireSP.glob Proofs/NameWireSP.v.beautified Proofs/NameWireSP.required_vo: Proofs/NameWireSP.v Base/ListX.vo Spec/NameWireS.vo
Proofs/NameWireSP.vio: Proofs/NameWireSP.v Base/ListX.vio Spec/NameWireS.vio
Proofs/NameWireSP.vos Proofs/NameWireSP.vok Proofs/NameWireSP.required_vos: Proofs/NameWireSP.v Base/ListX.vos Spec/NameWireS.vos
Proofs/RdNameEqP.vo Proofs/RdNameEqP.glob Proofs/RdNameEqP.v.beautified Proofs/RdNameEqP.required_vo: Proofs/RdNameEqP.v Base/ListX.vo Model/NameWire.vo Spec/NameWireS.vo Spec/NameRepr.vo Proofs/NameWireP.vo Model/RdataM.vo Spec/RdataFormatS.vo Spec/RdataEqS.vo Proofs/RdNameP.vo
Proofs/RdNameEqP.vio: Proofs/RdNameEqP.v Base/ListX.vio Model/NameWire.vio Spec/NameWireS.vio Spec/NameRepr.vio Proofs/NameWireP.vio Model/RdataM.vio Spec/RdataFormatS.vio Spec/RdataEqS.vio Proofs/RdNameP.vio
Proofs/RdNameEqP.vos Proofs/RdNameEqP.vok Proofs/RdNameEqP.required_vos: Proofs/RdNameEqP.v Base/ListX.vos Model/NameWire.vos Spec/NameWireS.vos Spec/NameRepr.vos Proofs/NameWireP.vos Model/RdataM.vos Spec/RdataFormatS.vos Spec/RdataEqS.vos Proofs/RdNameP.vos
Proofs/RdNameP.vo Proofs/RdNameP.glob Proofs/RdNameP.v.beautified Proofs/RdNameP.required_vo: Proofs/RdNameP.v Base/ListX.vo Model/NameWire.vo Spec/NameWireS.vo Spec/NameRepr.vo Proofs/NameWireP.vo Proofs/NameWireSP.vo Model/RdataM.vo Spec/RdataFormatS.vo
Proofs/RdNameP.vio: Proofs/RdNameP.v Base/ListX.vio Model/NameWire.vio Spec/NameWireS.vio Spec/NameRepr.vio Proofs/NameWireP.vio Proofs/NameWireSP.vio Model/RdataM.vio Spec/RdataFormatS.vio
Proofs/RdNameP.vos Proofs/RdNameP.vok Proofs/RdNameP.required_vos: Proofs/RdNameP.v Base/ListX.vos Model/NameWire.vos Spec/NameWireS.vos Spec/NameRepr.vos Proofs/NameWireP.vos Proofs/NameWireSP.vos Model/RdataM.vos Spec/RdataFormatS.vos
Proofs/RdataEqP.vo Proofs/RdataEqP.glob Proofs/RdataEqP.v.beautified Proofs/RdataEqP.required_vo: Proofs/RdataEqP.v Base/ListX.vo Model/NameWire.vo Spec/NameWireS.vo Spec/NameRepr.vo Proofs/NameWireP.vo Proofs/NameWireSP.vo Model/RdataM.vo Spec/RdataFormatS.vo Spec/RdataEqS.vo Proofs/RdNameP.vo Proofs/RdataFormatSP.vo Proofs/RdataVP.vo Proofs/RdataRP.vo Proofs/RdNameEqP.vo Proofs/RdataEqSP.vo Model/RdataSetM.vo Proofs/RdataSetP.vo
Proofs/RdataEqP.vio: Proofs/RdataEqP.v Base/ListX.vio Model/NameWire.vio Spec/NameWireS.vio Spec/NameRepr.vio Proofs/NameWireP.vio Proofs/NameWireSP.vio Model/RdataM.vio Spec/RdataFormatS.vio Spec/RdataEqS.vio Proofs/RdNameP.vio Proofs/RdataFormatSP.vio Proofs/RdataVP.vio Proofs/RdataRP.vio Proofs/RdNameEqP.vio Proofs/RdataEqSP.vio Model/RdataSetM.vio Proofs/RdataSetP.vio
Proofs/RdataEqP.vos Proofs/RdataEqP.vok Proofs/RdataEqP.required_vos: Proofs/RdataEqP.v Base/ListX.vos Model/NameWire.vos Spec/NameWireS.vos Spec/NameRepr.vos Proofs/NameWireP.vos Proofs/NameWireSP.vos Model/RdataM.vos Spec/RdataFormatS.vos Spec/RdataEqS.vos Proofs/RdNameP.vos Proofs/RdataFormatSP.vos Proofs/RdataVP.vos Proofs/RdataRP.vos Proofs/RdNameEqP.vos Proofs/RdataEqSP.vos Model/RdataSetM.vos Proofs/RdataSetP.vos
Proofs/RdataEqSP.vo Proofs/RdataEqSP.glob Proofs/RdataEqSP.v.beautified Proofs/RdataEqSP.required_vo: Proofs/RdataEqSP.v Base/ListX.vo Spec/NameWireS.vo Proofs/NameWireP.vo Proofs/NameWireSP.vo Model/RdataM.vo Spec/RdataFormatS.vo Spec/RdataEqS.vo Proofs/RdNameP.vo Proofs/RdataFormatSP.vo Proofs/RdataVP.vo Proofs/RdNameEqP.vo
Proofs/RdataEqSP.vio: Proofs/RdataEqSP.v Base/ListX.vio Spec/NameWireS.vio Proofs/NameWireP.vio Proofs/NameWireSP.vio Model/RdataM.vio Spec/RdataFormatS.vio Spec/RdataEqS.vio Proofs/RdNameP.vio Proofs/RdataFormatSP.vio Proofs/RdataVP.vio Proofs/RdNameEqP.vio
Proofs/RdataEqSP.vos Proofs/RdataEqSP.vok Proofs/RdataEqSP.required_vos: Proofs/RdataEqSP.v Base/ListX.vos Spec/NameWireS.vos Proofs/NameWireP.vos Proofs/NameWireSP.vos Model/RdataM.vos Spec/RdataFormatS.vos Spec/RdataEqS.vos Proofs/RdNameP.vos Proofs/RdataFormatSP.vos Proofs/RdataVP.vos Proofs/RdNameEqP.vos
Proofs/RdataFormatSP.vo Proofs/RdataFormatSP.glob Proofs/RdataFormatSP.v.beautified Proofs/RdataFormatSP.required_vo: Proofs/RdataFormatSP.v Base/ListX.vo Spec/NameWireS.vo Proofs/NameWireP.vo Proofs/NameWireSP.vo Model/RdataM.vo Spec/RdataFormatS.vo Proofs/RdNameP.vo
Proofs/RdataFormatSP.vio: Proofs/RdataFormatSP.v Base/ListX.vio Spec/NameWireS.vio Proofs/NameWireP.vio Proofs/NameWireSP.vio Model/RdataM.vio Spec/RdataFormatS.vio Proofs/RdNameP.vio
Proofs/RdataFormatSP.vos Proofs/RdataFormatSP.vok Proofs/RdataFormatSP.required_vos: Proofs/RdataFormatSP.v Base/ListX.vos Spec/NameWireS.vos Proofs/NameWireP.vos Proofs/NameWireSP.vos Model/RdataM.vos Spec/RdataFormatS.vos Proofs/RdNameP.vos
Proofs/RdataRP.vo Proofs/RdataRP.glob Proofs/RdataRP.v.beautified Proofs/RdataRP.required_vo: Proofs/RdataRP.v Base/ListX.vo Spec/NameWireS.vo Spec/NameRepr.vo Proofs/NameWireP.vo Proofs/NameWireSP.vo Model/RdataM.vo Spec/RdataFormatS.vo Proofs/RdNameP.vo Proofs/RdataFormatSP.vo Proofs/RdataVP.vo
Proofs/RdataRP.vio: Proofs/RdataRP.v Base/ListX.vio Spec/NameWireS.vio Spec/NameRepr.vio Proofs/NameWireP.vio Proofs/NameWireSP.vio Model/RdataM.vio Spec/RdataFormatS.vio Proofs/RdNameP.vio Proofs/RdataFormatSP.vio Proofs/RdataVP.vio
Proofs/RdataRP.vos Proofs/RdataRP.vok Proofs/RdataRP.required_vos: Proofs/RdataRP.v Base/ListX.vos Spec/NameWireS.vos Spec/NameRepr.vos Proofs/NameWireP.vos Proofs/NameWireSP.vos Model/RdataM.vos Spec/RdataFormatS.vos Proofs/RdNameP.vos Proofs/RdataFormatSP.vos Proofs/RdataVP.vos
Proofs/RdataSetP.vo Proofs/RdataSetP.glob Proofs/RdataSetP.v.beautified Proofs/RdataSetP.required_vo: Proofs/RdataSetP.v Base/ListX.vo Model/RdataM.vo Model/RdataSetM.vo Spec/RdataFormatS.vo Spec/RdataEqS.vo Proofs/RdNameP.vo Proofs/RdataFormatSP.vo Proofs/RdataVP.vo
Proofs/RdataSetP.vio: Proofs/RdataSetP.v Base/ListX.vio Model/RdataM.vio Model/RdataSetM.vio Spec/RdataFormatS.vio Spec/RdataEqS.vio Proofs/RdNameP.vio Proofs/RdataFormatSP.vio Proofs/RdataVP.vio
Proofs/RdataSetP.vos Proofs/RdataSetP.vok Proofs/RdataSetP.required_vos: Proofs/RdataSetP.v Base/ListX.vos Model/RdataM.vos Model/RdataSetM.vos Spec/RdataFormatS.vos Spec/RdataEqS.vos Proofs/RdNameP.vos Proofs/RdataFormatSP.vos Proofs/RdataVP.vos
Proofs/RdataVP.vo Proofs/RdataVP.glob Proofs/RdataVP.v.beautified Proofs/RdataVP.required_vo: Proofs/RdataVP.v Base/ListX.vo Spec/NameWireS.vo Proofs/NameWireP.vo Proofs/NameWireSP.vo Model/RdataM.vo Spec/RdataFormatS.vo Proofs/RdNameP.vo Proofs/RdataFormatSP.vo
Proofs/RdataVP.vio: Proofs/RdataVP.v Base/ListX.vio Spec/NameWireS.vio Proofs/NameWireP.vio Proofs/NameWireSP.vio Model/RdataM.vio Spec/RdataFormatS.vio Proofs/RdNameP.vio Proofs/RdataFormatSP.vio
Proofs/RdataVP.vos Proofs/RdataVP.vok Proofs/RdataVP.required_vos: Proofs/RdataVP.v Base/ListX.vos Spec/NameWireS.vos Proofs/NameWireP.vos Proofs/NameWireSP.vos Model/RdataM.vos Spec/RdataFormatS.vos Proofs/RdNameP.vos Proofs/RdataFormatSP.vos
Props/C14.vo Props/C14.glob Props/C14.v.beautified Props/C14.required_vo: Props/C14.v Base/ListX.vo Model/NameWire.vo Spec/NameWireS.vo Spec/NameRepr.vo Proofs/NameWireP.vo Proofs/NameWireSP.vo
Props/C14.vio: Props/C14.v Base/ListX.vio Model/NameWire.vio Spec/NameWireS.vio Spec/NameRepr.vio Proofs/NameWireP.vio Proofs/NameWireSP.vio
Props/C14.vos Props/C14.vok Props/C14.required_vos: Props/C14.v Base/ListX.vos Model/NameWire.vos Spec/NameWireS.vos Spec/NameRepr.vos Proofs/NameWireP.vos Proofs/NameWireSP.vos
Props/C18.vo Props/C18.glob Props/C18.v.beautified Props/C18.required_vo: Props/C18.v Base/ListX.vo Model/NameWire.vo Model/RdataM.vo Spec/NameWireS.vo Spec/RdataFormatS.vo Proofs/RdNameP.vo Proofs/RdataFormatSP.vo Proofs/RdataVP.vo Proofs/RdataRP.vo
Props/C18.vio: Props/C18.v Base/ListX.vio Model/NameWire.vio Model/RdataM.vio Spec/NameWireS.vio Spec/RdataFormatS.vio Proofs/RdNameP.vio Proofs/RdataFormatSP.vio Proofs/RdataVP.vio Proofs/RdataRP.vio
Props/C18.vos Props/C18.vok Props/C18.required_vos: Props/C18.v Base/ListX.vos Model/NameWire.vos Model/RdataM.vos Spec/NameWireS.vos Spec/RdataFormatS.vos Proofs/RdNameP.vos Proofs/RdataFormatSP.vos Proofs/RdataVP.vos Proofs/RdataRP.vos
Props/C19.vo Props/C19.glob Props/C19.v.beautified Props/C19.required_vo: Props/C19.v Base/ListX.vo Model/NameWire.vo Model/RdataM.vo Model/RdataSetM.vo Spec/NameRepr.vo Spec/RdataFormatS.vo Spec/RdataEqS.vo Proofs/RdNameEqP.vo Proofs/RdataEqSP.vo Proofs/RdataEqP.vo Proofs/RdataSetP.vo
Props/C19.vio: Props/C19.v Base/ListX.vio Model/NameWire.vio Model/RdataM.vio Model/RdataSetM.vio Spec/NameRepr.vio Spec/RdataFormatS.vio Spec/RdataEqS.vio Proofs/RdNameEqP.vio Proofs/RdataEqSP.vio Proofs/RdataEqP.vio Proofs/RdataSetP.vio
Props/C19.vos Props/C19.vok Props/C19.required_vos: Props/C19.v Base/ListX.vos Model/NameWire.vos Model/RdataM.vos Model/RdataSetM.vos Spec/NameRepr.vos Spec/RdataFormatS.vos Spec/RdataEqS.vos Proofs/RdNameEqP.vos Proofs/RdataEqSP.vos Proofs/RdataEqP.vos Proofs/RdataSetP.vos
Spec/NameRepr.vo Spec/NameRepr.glob Spec/NameRepr.v.beautified Spec/NameRepr.required_vo: Spec/NameRepr.v Model/NameWire.vo Spec/NameWireS.vo
Spec/NameRepr.vio: Spec/NameRepr.v Model/NameWire.vio Spec/NameWireS.vio
Spec/NameRepr.vos Spec/NameRepr.vok Spec/NameRepr.required_vos: Spec/NameRepr.v Model/NameWire.vos Spec/NameWireS.vos
Spec/NameWireS.vo Spec/NameWireS.glob Spec/NameWireS.v.beautified Spec/NameWireS.required_vo: Spec/NameWireS.v Base/Res.vo Base/Octets.vo
Spec/NameWireS.vio: Spec/NameWireS.v Base/Res.vio Base/Octets.vio
Spec/NameWireS.vos Spec/NameWireS.vok Spec/NameWireS.required_vos: Spec/NameWireS.v Base/Res.vos Base/Octets.vos
Spec/RdataEqS.vo Spec/RdataEqS.glob Spec/RdataEqS.v.beautified Spec/RdataEqS.required_vo: Spec/RdataEqS.v Base/Res.vo Base/Octets.vo Spec/NameWireS.vo Spec/RdataFormatS.vo
Spec/RdataEqS.vio: Spec/RdataEqS.v Base/Res.vio Base/Octets.vio Spec/NameWireS.vio Spec/RdataFormatS.vio
Spec/RdataEqS.vos Spec/RdataEqS.vok Spec/RdataEqS.required_vos: Spec/RdataEqS.v Base/Res.vos Base/Octets.vos Spec/NameWireS.vos Spec/RdataFormatS.vos
Spec/RdataFormatS.vo Spec/RdataFormatS.glob Spec/RdataFormatS.v.beautified Spec/RdataFormatS.required_vo: Spec/RdataFormatS.v Base/Res.vo Base/Octets.vo Spec/NameWireS.vo
Spec/RdataFormatS.vio: Spec/RdataFormatS.v Base/Res.vio Base/Octets.vio Spec/NameWireS.vio
Spec/RdataFormatS.vos Spec/RdataFormatS.vok Spec/RdataFormatS.required_vos: Spec/RdataFormatS.v Base/Res.vos Base/Octets.vos Spec/NameWireS.vos
