Base/ListX.vo Base/ListX.glob Base/ListX.v.beautified Base/ListX.required_vo: Base/ListX.v Base/Res.vo Base/Octets.vo
Base/ListX.vio: Base/ListX.v Base/Res.vio Base/Octets.vio
Base/ListX.vos Base/ListX.vok Base/ListX.required_vos: Base/ListX.v Base/Res.vos Base/Octets.vos
Base/Octets.vo Base/Octets.glob Base/Octets.v.beautified Base/Octets.required_vo: Base/Octets.v Base/Res.vo
Base/Octets.vio: Base/Octets.v Base/Res.vio
Base/Octets.vos Base/Octets.vok Base/Octets.required_vos: Base/Octets.v Base/Res.vos
Base/Res.vo Base/Res.glob Base/Res.v.beautified Base/Res.required_vo: Base/Res.v 
Base/Res.vio: Base/Res.v 
Base/Res.vos Base/Res.vok Base/Res.required_vos: Base/Res.v 
Gen/Consts.vo Gen/Consts.glob Gen/Consts.v.beautified Gen/Consts.required_vo: Gen/Consts.v 
Gen/Consts.vio: Gen/Consts.v 
Gen/Consts.vos Gen/Consts.vok Gen/Consts.required_vos: Gen/Consts.v 
Model/NameWire.vo Model/NameWire.glob Model/NameWire.v.beautified Model/NameWire.required_vo: Model/NameWire.v Base/Res.vo Base/Octets.vo Gen/Consts.vo
Model/NameWire.vio: Model/NameWire.v Base/Res.vio Base/Octets.vio Gen/Consts.vio
Model/NameWire.vos Model/NameWire.vok Model/NameWire.required_vos: Model/NameWire.v Base/Res.vos Base/Octets.vos Gen/Consts.vos
Model/RdataLite.vo Model/RdataLite.glob Model/RdataLite.v.beautified Model/RdataLite.required_vo: Model/RdataLite.v Model/Reader.vo
Model/RdataLite.vio: Model/RdataLite.v Model/Reader.vio
Model/RdataLite.vos Model/RdataLite.vok Model/RdataLite.required_vos: Model/RdataLite.v Model/Reader.vos
Model/Reader.vo Model/Reader.glob Model/Reader.v.beautified Model/Reader.required_vo: Model/Reader.v Model/NameWire.vo
Model/Reader.vio: Model/Reader.v Model/NameWire.vio
Model/Reader.vos Model/Reader.vok Model/Reader.required_vos: Model/Reader.v Model/NameWire.vos
Model/Server.vo Model/Server.glob Model/Server.v.beautified Model/Server.required_vo: Model/Server.v Model/Reader.vo Model/RdataLite.vo
Model/Server.vio: Model/Server.v Model/Reader.vio Model/RdataLite.vio
Model/Server.vos Model/Server.vok Model/Server.required_vos: Model/Server.v Model/Reader.vos Model/RdataLite.vos
Proofs/NameWireP.vo Proofs/NameWireP.glob Proofs/NameWireP.v.beautified Proofs/NameWireP.required_vo: Proofs/NameWireP.v Base/ListX.vo Model/NameWire.vo Spec/NameWireS.vo Spec/NameRepr.vo
Proofs/NameWireP.vio: Proofs/NameWireP.v Base/ListX.vio Model/NameWire.vio Spec/NameWireS.vio Spec/NameRepr.vio
Proofs/NameWireP.vos Proofs/NameWireP.vok Proofs/NameWireP.required_vos: Proofs/NameWireP.v Base/ListX.vos Model/NameWire.vos Spec/NameWireS.vos Spec/NameRepr.vos
Proofs/NameWireSP.vo Proofs/NameWireSP.glob Proofs/NameWireSP.v.beautified Proofs/NameWireSP.required_vo: Proofs/NameWireSP.v Base/ListX.vo Spec/NameWireS.vo
Proofs/NameWireSP.vio: Proofs/NameWireSP.v Base/ListX.vio Spec/NameWireS.vio
Proofs/NameWireSP.vos Proofs/NameWireSP.vok Proofs/NameWireSP.required_vos: Proofs/NameWireSP.v Base/ListX.vos Spec/NameWireS.vos
Proofs/RdataLiteP.vo Proofs/RdataLiteP.glob Proofs/RdataLiteP.v.beautified Proofs/RdataLiteP.required_vo: Proofs/RdataLiteP.v Base/ListX.vo Model/NameWire.vo Model/Reader.vo Model/RdataLite.vo Proofs/NameWireP.vo
Proofs/RdataLiteP.vio: Proofs/RdataLiteP.v Base/ListX.vio Model/NameWire.vio Model/Reader.vio Model/RdataLite.vio Proofs/NameWireP.vio
Proofs/RdataLiteP.vos Proofs/RdataLiteP.vok Proofs/RdataLiteP.required_vos: Proofs/RdataLiteP.v Base/ListX.vos Model/NameWire.vos Model/Reader.vos Model/RdataLite.vos Proofs/NameWireP.vos
Proofs/ReaderP.vo Proofs/ReaderP.glob Proofs/ReaderP.v.beautified Proofs/ReaderP.required_vo: Proofs/ReaderP.v Base/ListX.vo Model/NameWire.vo Model/Reader.vo Spec/NameWireS.vo Spec/NameRepr.vo Spec/ReaderS.vo Proofs/NameWireP.vo
Proofs/ReaderP.vio: Proofs/ReaderP.v Base/ListX.vio Model/NameWire.vio Model/Reader.vio Spec/NameWireS.vio Spec/NameRepr.vio Spec/ReaderS.vio Proofs/NameWireP.vio
Proofs/ReaderP.vos Proofs/ReaderP.vok Proofs/ReaderP.required_vos: Proofs/ReaderP.v Base/ListX.vos Model/NameWire.vos Model/Reader.vos Spec/NameWireS.vos Spec/NameRepr.vos Spec/ReaderS.vos Proofs/NameWireP.vos
Proofs/ServerP.vo Proofs/ServerP.glob Proofs/ServerP.v.beautified Proofs/ServerP.required_vo: Proofs/ServerP.v Base/ListX.vo Model/NameWire.vo Model/Reader.vo Model/RdataLite.vo Model/Server.vo Proofs/NameWireP.vo Proofs/ReaderP.vo Proofs/RdataLiteP.vo
Proofs/ServerP.vio: Proofs/ServerP.v Base/ListX.vio Model/NameWire.vio Model/Reader.vio Model/RdataLite.vio Model/Server.vio Proofs/NameWireP.vio Proofs/ReaderP.vio Proofs/RdataLiteP.vio
Proofs/ServerP.vos Proofs/ServerP.vok Proofs/ServerP.required_vos: Proofs/ServerP.v Base/ListX.vos Model/NameWire.vos Model/Reader.vos Model/RdataLite.vos Model/Server.vos Proofs/NameWireP.vos Proofs/ReaderP.vos Proofs/RdataLiteP.vos
Props/C01.vo Props/C01.glob Props/C01.v.beautified Props/C01.required_vo: Props/C01.v Base/ListX.vo Model/NameWire.vo Model/Reader.vo Model/RdataLite.vo Model/Server.vo Proofs/ReaderP.vo Proofs/ServerP.vo
Props/C01.vio: Props/C01.v Base/ListX.vio Model/NameWire.vio Model/Reader.vio Model/RdataLite.vio Model/Server.vio Proofs/ReaderP.vio Proofs/ServerP.vio
Props/C01.vos Props/C01.vok Props/C01.required_vos: Props/C01.v Base/ListX.vos Model/NameWire.vos Model/Reader.vos Model/RdataLite.vos Model/Server.vos Proofs/ReaderP.vos Proofs/ServerP.vos
Props/C03.vo Props/C03.glob Props/C03.v.beautified Props/C03.required_vo: Props/C03.v Base/ListX.vo Model/NameWire.vo Model/Reader.vo Model/RdataLite.vo Model/Server.vo Spec/NameWireS.vo Spec/NameRepr.vo Spec/ReaderS.vo Proofs/ReaderP.vo Proofs/ServerP.vo
Props/C03.vio: Props/C03.v Base/ListX.vio Model/NameWire.vio Model/Reader.vio Model/RdataLite.vio Model/Server.vio Spec/NameWireS.vio Spec/NameRepr.vio Spec/ReaderS.vio Proofs/ReaderP.vio Proofs/ServerP.vio
Props/C03.vos Props/C03.vok Props/C03.required_vos: Props/C03.v Base/ListX.vos Model/NameWire.vos Model/Reader.vos Model/RdataLite.vos Model/Server.vos Spec/NameWireS.vos Spec/NameRepr.vos Spec/ReaderS.vos Proofs/ReaderP.vos Proofs/ServerP.vos
Props/C07.vo Props/C07.glob Props/C07.v.beautified Props/C07.required_vo: Props/C07.v Base/ListX.vo Model/NameWire.vo Model/Reader.vo Model/RdataLite.vo Model/Server.vo Proofs/ServerP.vo
Props/C07.vio: Props/C07.v Base/ListX.vio Model/NameWire.vio Model/Reader.vio Model/RdataLite.vio Model/Server.vio Proofs/ServerP.vio
Props/C07.vos Props/C07.vok Props/C07.required_vos: Props/C07.v Base/ListX.vos Model/NameWire.vos Model/Reader.vos Model/RdataLite.vos Model/Server.vos Proofs/ServerP.vos
Props/C08.vo Props/C08.glob Props/C08.v.beautified Props/C08.required_vo: Props/C08.v Base/ListX.vo Model/NameWire.vo Model/Reader.vo Model/RdataLite.vo Model/Server.vo Proofs/ReaderP.vo Proofs/ServerP.vo
Props/C08.vio: Props/C08.v Base/ListX.vio Model/NameWire.vio Model/Reader.vio Model/RdataLite.vio Model/Server.vio Proofs/ReaderP.vio Proofs/ServerP.vio
Props/C08.vos Props/C08.vok Props/C08.required_vos: Props/C08.v Base/ListX.vos Model/NameWire.vos Model/Reader.vos Model/RdataLite.vos Model/Server.vos Proofs/ReaderP.vos Proofs/ServerP.vos
Props/C09.vo Props/C09.glob Props/C09.v.beautified Props/C09.required_vo: Props/C09.v Base/ListX.vo Model/NameWire.vo Model/Reader.vo Model/RdataLite.vo Model/Server.vo Proofs/ReaderP.vo Proofs/ServerP.vo
Props/C09.vio: Props/C09.v Base/ListX.vio Model/NameWire.vio Model/Reader.vio Model/RdataLite.vio Model/Server.vio Proofs/ReaderP.vio Proofs/ServerP.vio
Props/C09.vos Props/C09.vok Props/C09.required_vos: Props/C09.v Base/ListX.vos Model/NameWire.vos Model/Reader.vos Model/RdataLite.vos Model/Server.vos Proofs/ReaderP.vos Proofs/ServerP.vos
Props/C14.vo Props/C14.glob Props/C14.v.beautified Props/C14.required_vo: Props/C14.v Base/ListX.vo Model/NameWire.vo Spec/NameWireS.vo Spec/NameRepr.vo Proofs/NameWireP.vo Proofs/NameWireSP.vo
Props/C14.vio: Props/C14.v Base/ListX.vio Model/NameWire.vio Spec/NameWireS.vio Spec/NameRepr.vio Proofs/NameWireP.vio Proofs/NameWireSP.vio
Props/C14.vos Props/C14.vok Props/C14.required_vos: Props/C14.v Base/ListX.vos Model/NameWire.vos Spec/NameWireS.vos Spec/NameRepr.vos Proofs/NameWireP.vos Proofs/NameWireSP.vos
Props/C15.vo Props/C15.glob Props/C15.v.beautified Props/C15.required_vo: Props/C15.v Base/ListX.vo Model/NameWire.vo Model/Reader.vo Model/RdataLite.vo Spec/NameWireS.vo Spec/NameRepr.vo Spec/ReaderS.vo Proofs/NameWireP.vo Proofs/ReaderP.vo Proofs/RdataLiteP.vo
Props/C15.vio: Props/C15.v Base/ListX.vio Model/NameWire.vio Model/Reader.vio Model/RdataLite.vio Spec/NameWireS.vio Spec/NameRepr.vio Spec/ReaderS.vio Proofs/NameWireP.vio Proofs/ReaderP.vio Proofs/RdataLiteP.vio
Props/C15.vos Props/C15.vok Props/C15.required_vos: Props/C15.v Base/ListX.vos Model/NameWire.vos Model/Reader.vos Model/RdataLite.vos Spec/NameWireS.vos Spec/NameRepr.vos Spec/ReaderS.vos Proofs/NameWireP.vos Proofs/ReaderP.vos Proofs/RdataLiteP.vos
Spec/NameRepr.vo Spec/NameRepr.glob Spec/NameRepr.v.beautified Spec/NameRepr.required_vo: Spec/NameRepr.v Model/NameWire.vo Spec/NameWireS.vo
Spec/NameRepr.vio: Spec/NameRepr.v Model/NameWire.vio Spec/NameWireS.vio
Spec/NameRepr.vos Spec/NameRepr.vok Spec/NameRepr.required_vos: Spec/NameRepr.v Model/NameWire.vos Spec/NameWireS.vos
Spec/NameWireS.vo Spec/NameWireS.glob Spec/NameWireS.v.beautified Spec/NameWireS.required_vo: Spec/NameWireS.v Base/Res.vo Base/Octets.vo
Spec/NameWireS.vio: Spec/NameWireS.v Base/Res.vio Base/Octets.vio
Spec/NameWireS.vos Spec/NameWireS.vok Spec/NameWireS.required_vos: Spec/NameWireS.v Base/Res.vos Base/Octets.vos
Spec/ReaderS.vo Spec/ReaderS.glob Spec/ReaderS.v.beautified Spec/ReaderS.required_vo: Spec/ReaderS.v Spec/NameWireS.vo
Spec/ReaderS.vio: Spec/ReaderS.v Spec/NameWireS.vio
Spec/ReaderS.vos Spec/ReaderS.vok Spec/ReaderS.required_vos: Spec/ReaderS.v Spec/NameWireS.vos
