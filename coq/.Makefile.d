Base/ListX.vo Base/ListX.glob Base/ListX.v.beautified Base/ListX.required_vo: Base/ListX.v Base/Res.vo Base/Octets.vo
Base/ListX.vio: Base/ListX.v Base/Res.vio Base/Octets.vio
Base/ListX.vos Base/ListX.vok Base/ListX.required_vos: Base/ListX.v Base/Res.vos Base/Octets.vos
Base/Octets.vo Base/Octets.glob Base/Octets.v.beautified Base/Octets.required_vo: Base/Octets.v Base/Res.vo
Base/Octets.vio: Base/Octets.v Base/Res.vio
Base/Octets.vos Base/Octets.vok Base/Octets.required_vos: Base/Octets.v Base/Res.vos
Base/Res.vo Base/Res.glob Base/Res.v.beautified Base/Res.required_vo: Base/Res.v 
Base/Res.vio: Base/Res.v 
Base/Res.vos Base/Res.vok Base/Res.required_vos: Base/Res.v 
Gen/Consts.vo Gen/Consts.glob Gen/Consts.v.beautified Gen/Consts.required_vo: Gen/Consts.v 
Gen/Consts.vio: Gen/Consts.v 
Gen/Consts.vos Gen/Consts.vok Gen/Consts.required_vos: Gen/Consts.v 
Gen/RrlConsts.vo Gen/RrlConsts.glob Gen/RrlConsts.v.beautified Gen/RrlConsts.required_vo: Gen/RrlConsts.v 
Gen/RrlConsts.vio: Gen/RrlConsts.v 
Gen/RrlConsts.vos Gen/RrlConsts.vok Gen/RrlConsts.required_vos: Gen/RrlConsts.v 
Model/NameWire.vo Model/NameWire.glob Model/NameWire.v.beautified Model/NameWire.required_vo: Model/NameWire.v Base/Res.vo Base/Octets.vo Gen/Consts.vo
Model/NameWire.vio: Model/NameWire.v Base/Res.vio Base/Octets.vio Gen/Consts.vio
Model/NameWire.vos Model/NameWire.vok Model/NameWire.required_vos: Model/NameWire.v Base/Res.vos Base/Octets.vos Gen/Consts.vos
Model/Rrl.vo Model/Rrl.glob Model/Rrl.v.beautified Model/Rrl.required_vo: Model/Rrl.v Base/Res.vo Base/Octets.vo Gen/RrlConsts.vo
Model/Rrl.vio: Model/Rrl.v Base/Res.vio Base/Octets.vio Gen/RrlConsts.vio
Model/Rrl.vos Model/Rrl.vok Model/Rrl.required_vos: Model/Rrl.v Base/Res.vos Base/Octets.vos Gen/RrlConsts.vos
Model/RrlConc.vo Model/RrlConc.glob Model/RrlConc.v.beautified Model/RrlConc.required_vo: Model/RrlConc.v Model/Rrl.vo
Model/RrlConc.vio: Model/RrlConc.v Model/Rrl.vio
Model/RrlConc.vos Model/RrlConc.vok Model/RrlConc.required_vos: Model/RrlConc.v Model/Rrl.vos
Model/RrlConcT.vo Model/RrlConcT.glob Model/RrlConcT.v.beautified Model/RrlConcT.required_vo: Model/RrlConcT.v Model/Rrl.vo Model/RrlConc.vo
Model/RrlConcT.vio: Model/RrlConcT.v Model/Rrl.vio Model/RrlConc.vio
Model/RrlConcT.vos Model/RrlConcT.vok Model/RrlConcT.required_vos: Model/RrlConcT.v Model/Rrl.vos Model/RrlConc.vos
Proofs/NameWireP.vo Proofs/NameWireP.glob Proofs/NameWireP.v.beautified Proofs/NameWireP.required_vo: Proofs/NameWireP.v Base/ListX.vo Model/NameWire.vo Spec/NameWireS.vo Spec/NameRepr.vo
Proofs/NameWireP.vio: Proofs/NameWireP.v Base/ListX.vio Model/NameWire.vio Spec/NameWireS.vio Spec/NameRepr.vio
Proofs/NameWireP.vos Proofs/NameWireP.vok Proofs/NameWireP.required_vos: Proofs/NameWireP.v Base/ListX.vos Model/NameWire.vos Spec/NameWireS.vos Spec/NameRepr.vos
Proofs/NameWireSP.vo Proofs/NameWireSP.glob Proofs/NameWireSP.v.beautified Proofs/NameWireSP.required_vo: Proofs/NameWireSP.v Base/ListX.vo Spec/NameWireS.vo
Proofs/NameWireSP.vio: Proofs/NameWireSP.v Base/ListX.vio Spec/NameWireS.vio
Proofs/NameWireSP.vos Proofs/NameWireSP.vok Proofs/NameWireSP.required_vos: Proofs/NameWireSP.v Base/ListX.vos Spec/NameWireS.vos
Proofs/RrlConcP.vo Proofs/RrlConcP.glob Proofs/RrlConcP.v.beautified Proofs/RrlConcP.required_vo: Proofs/RrlConcP.v Base/Res.vo Base/Octets.vo Model/Rrl.vo Model/RrlConc.vo Spec/RrlBucketS.vo Proofs/RrlP.vo
Proofs/RrlConcP.vio: Proofs/RrlConcP.v Base/Res.vio Base/Octets.vio Model/Rrl.vio Model/RrlConc.vio Spec/RrlBucketS.vio Proofs/RrlP.vio
Proofs/RrlConcP.vos Proofs/RrlConcP.vok Proofs/RrlConcP.required_vos: Proofs/RrlConcP.v Base/Res.vos Base/Octets.vos Model/Rrl.vos Model/RrlConc.vos Spec/RrlBucketS.vos Proofs/RrlP.vos
Proofs/RrlConcTP.vo Proofs/RrlConcTP.glob Proofs/RrlConcTP.v.beautified Proofs/RrlConcTP.required_vo: Proofs/RrlConcTP.v Base/Res.vo Base/Octets.vo Model/Rrl.vo Model/RrlConc.vo Model/RrlConcT.vo Proofs/RrlP.vo Proofs/RrlConcP.vo
Proofs/RrlConcTP.vio: Proofs/RrlConcTP.v Base/Res.vio Base/Octets.vio Model/Rrl.vio Model/RrlConc.vio Model/RrlConcT.vio Proofs/RrlP.vio Proofs/RrlConcP.vio
Proofs/RrlConcTP.vos Proofs/RrlConcTP.vok Proofs/RrlConcTP.required_vos: Proofs/RrlConcTP.v Base/Res.vos Base/Octets.vos Model/Rrl.vos Model/RrlConc.vos Model/RrlConcT.vos Proofs/RrlP.vos Proofs/RrlConcP.vos
Proofs/RrlFreshP.vo Proofs/RrlFreshP.glob Proofs/RrlFreshP.v.beautified Proofs/RrlFreshP.required_vo: Proofs/RrlFreshP.v Base/Res.vo Base/Octets.vo Model/Rrl.vo Spec/RrlBucketS.vo Proofs/RrlP.vo Proofs/RrlKeyP.vo
Proofs/RrlFreshP.vio: Proofs/RrlFreshP.v Base/Res.vio Base/Octets.vio Model/Rrl.vio Spec/RrlBucketS.vio Proofs/RrlP.vio Proofs/RrlKeyP.vio
Proofs/RrlFreshP.vos Proofs/RrlFreshP.vok Proofs/RrlFreshP.required_vos: Proofs/RrlFreshP.v Base/Res.vos Base/Octets.vos Model/Rrl.vos Spec/RrlBucketS.vos Proofs/RrlP.vos Proofs/RrlKeyP.vos
Proofs/RrlKeyP.vo Proofs/RrlKeyP.glob Proofs/RrlKeyP.v.beautified Proofs/RrlKeyP.required_vo: Proofs/RrlKeyP.v Base/Res.vo Base/Octets.vo Model/Rrl.vo Spec/RrlBucketS.vo Spec/RrlStreamS.vo Proofs/RrlP.vo
Proofs/RrlKeyP.vio: Proofs/RrlKeyP.v Base/Res.vio Base/Octets.vio Model/Rrl.vio Spec/RrlBucketS.vio Spec/RrlStreamS.vio Proofs/RrlP.vio
Proofs/RrlKeyP.vos Proofs/RrlKeyP.vok Proofs/RrlKeyP.required_vos: Proofs/RrlKeyP.v Base/Res.vos Base/Octets.vos Model/Rrl.vos Spec/RrlBucketS.vos Spec/RrlStreamS.vos Proofs/RrlP.vos
Proofs/RrlMixP.vo Proofs/RrlMixP.glob Proofs/RrlMixP.v.beautified Proofs/RrlMixP.required_vo: Proofs/RrlMixP.v Base/Res.vo Base/Octets.vo Model/Rrl.vo Spec/RrlBucketS.vo Spec/RrlMixS.vo Proofs/RrlP.vo
Proofs/RrlMixP.vio: Proofs/RrlMixP.v Base/Res.vio Base/Octets.vio Model/Rrl.vio Spec/RrlBucketS.vio Spec/RrlMixS.vio Proofs/RrlP.vio
Proofs/RrlMixP.vos Proofs/RrlMixP.vok Proofs/RrlMixP.required_vos: Proofs/RrlMixP.v Base/Res.vos Base/Octets.vos Model/Rrl.vos Spec/RrlBucketS.vos Spec/RrlMixS.vos Proofs/RrlP.vos
Proofs/RrlP.vo Proofs/RrlP.glob Proofs/RrlP.v.beautified Proofs/RrlP.required_vo: Proofs/RrlP.v Base/Res.vo Base/Octets.vo Model/Rrl.vo Spec/RrlBucketS.vo
Proofs/RrlP.vio: Proofs/RrlP.v Base/Res.vio Base/Octets.vio Model/Rrl.vio Spec/RrlBucketS.vio
Proofs/RrlP.vos Proofs/RrlP.vok Proofs/RrlP.required_vos: Proofs/RrlP.v Base/Res.vos Base/Octets.vos Model/Rrl.vos Spec/RrlBucketS.vos
Props/C14.vo Props/C14.glob Props/C14.v.beautified Props/C14.required_vo: Props/C14.v Base/ListX.vo Model/NameWire.vo Spec/NameWireS.vo Spec/NameRepr.vo Proofs/NameWireP.vo Proofs/NameWireSP.vo
Props/C14.vio: Props/C14.v Base/ListX.vio Model/NameWire.vio Spec/NameWireS.vio Spec/NameRepr.vio Proofs/NameWireP.vio Proofs/NameWireSP.vio
Props/C14.vos Props/C14.vok Props/C14.required_vos: Props/C14.v Base/ListX.vos Model/NameWire.vos Spec/NameWireS.vos Spec/NameRepr.vos Proofs/NameWireP.vos Proofs/NameWireSP.vos
Props/C26.vo Props/C26.glob Props/C26.v.beautified Props/C26.required_vo: Props/C26.v Base/Res.vo Base/Octets.vo Model/Rrl.vo Spec/RrlBucketS.vo Spec/RrlMixS.vo Proofs/RrlP.vo Proofs/RrlMixP.vo
Props/C26.vio: Props/C26.v Base/Res.vio Base/Octets.vio Model/Rrl.vio Spec/RrlBucketS.vio Spec/RrlMixS.vio Proofs/RrlP.vio Proofs/RrlMixP.vio
Props/C26.vos Props/C26.vok Props/C26.required_vos: Props/C26.v Base/Res.vos Base/Octets.vos Model/Rrl.vos Spec/RrlBucketS.vos Spec/RrlMixS.vos Proofs/RrlP.vos Proofs/RrlMixP.vos
Props/C27.vo Props/C27.glob Props/C27.v.beautified Props/C27.required_vo: Props/C27.v Base/Res.vo Base/Octets.vo Model/Rrl.vo Spec/RrlBucketS.vo Spec/RrlStreamS.vo Proofs/RrlP.vo Proofs/RrlKeyP.vo Proofs/RrlFreshP.vo
Props/C27.vio: Props/C27.v Base/Res.vio Base/Octets.vio Model/Rrl.vio Spec/RrlBucketS.vio Spec/RrlStreamS.vio Proofs/RrlP.vio Proofs/RrlKeyP.vio Proofs/RrlFreshP.vio
Props/C27.vos Props/C27.vok Props/C27.required_vos: Props/C27.v Base/Res.vos Base/Octets.vos Model/Rrl.vos Spec/RrlBucketS.vos Spec/RrlStreamS.vos Proofs/RrlP.vos Proofs/RrlKeyP.vos Proofs/RrlFreshP.vos
Props/C28.vo Props/C28.glob Props/C28.v.beautified Props/C28.required_vo: Props/C28.v Base/Res.vo Base/Octets.vo Model/Rrl.vo Model/RrlConc.vo Model/RrlConcT.vo Proofs/RrlP.vo Proofs/RrlConcP.vo Proofs/RrlConcTP.vo
Props/C28.vio: Props/C28.v Base/Res.vio Base/Octets.vio Model/Rrl.vio Model/RrlConc.vio Model/RrlConcT.vio Proofs/RrlP.vio Proofs/RrlConcP.vio Proofs/RrlConcTP.vio
Props/C28.vos Props/C28.vok Props/C28.required_vos: Props/C28.v Base/Res.vos Base/Octets.vos Model/Rrl.vos Model/RrlConc.vos Model/RrlConcT.vos Proofs/RrlP.vos Proofs/RrlConcP.vos Proofs/RrlConcTP.vos
Spec/NameRepr.vo Spec/NameRepr.glob Spec/NameRepr.v.beautified Spec/NameRepr.required_vo: Spec/NameRepr.v Model/NameWire.vo Spec/NameWireS.vo
Spec/NameRepr.vio: Spec/NameRepr.v Model/NameWire.vio Spec/NameWireS.vio
Spec/NameRepr.vos Spec/NameRepr.vok Spec/NameRepr.required_vos: Spec/NameRepr.v Model/NameWire.vos Spec/NameWireS.vos
Spec/NameWireS.vo Spec/NameWireS.glob Spec/NameWireS.v.beautified Spec/NameWireS.required_vo: Spec/NameWireS.v Base/Res.vo Base/Octets.vo
Spec/NameWireS.vio: Spec/NameWireS.v Base/Res.vio Base/Octets.vio
Spec/NameWireS.vos Spec/NameWireS.vok Spec/NameWireS.required_vos: Spec/NameWireS.v Base/Res.vos Base/Octets.vos
Spec/RrlBucketS.vo Spec/RrlBucketS.glob Spec/RrlBucketS.v.beautified Spec/RrlBucketS.required_vo: Spec/RrlBucketS.v 
Spec/RrlBucketS.vio: Spec/RrlBucketS.v 
Spec/RrlBucketS.vos Spec/RrlBucketS.vok Spec/RrlBucketS.required_vos: Spec/RrlBucketS.v 
Spec/RrlMixS.vo Spec/RrlMixS.glob Spec/RrlMixS.v.beautified Spec/RrlMixS.required_vo: Spec/RrlMixS.v Spec/RrlBucketS.vo
Spec/RrlMixS.vio: Spec/RrlMixS.v Spec/RrlBucketS.vio
Spec/RrlMixS.vos Spec/RrlMixS.vok Spec/RrlMixS.required_vos: Spec/RrlMixS.v Spec/RrlBucketS.vos
Spec/RrlStreamS.vo Spec/RrlStreamS.glob Spec/RrlStreamS.v.beautified Spec/RrlStreamS.required_vo: Spec/RrlStreamS.v 
Spec/RrlStreamS.vio: Spec/RrlStreamS.v 
Spec/RrlStreamS.vos Spec/RrlStreamS.vok Spec/RrlStreamS.required_vos: Spec/RrlStreamS.v 
