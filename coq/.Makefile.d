Base/ListX.vo Base/ListX.glob Base/ListX.v.beautified Base/ListX.required_vo: Base/ListX.v Base/Res.vo Base/Octets.vo
Base/ListX.vio: Base/ListX.v Base/Res.vio Base/Octets.vio
Base/ListX.vos Base/ListX.vok Base/ListX.required_vos: Base/ListX.v Base/Res.vos Base/Octets.vos
Base/Octets.vo Base/Octets.glob Base/Octets.v.beautified Base/Octets.required_vo: Base/Octets.v Base/Res.vo
Base/Octets.vio: Base/Octets.v Base/Res.vio
Base/Octets.vos Base/Octets.vok Base/Octets.required_vos: Base/Octets.v Base/Res.vos
Base/Res.vo Base/Res.glob Base/Res.v.beautified Base/Res.required_vo: Base/Res.v 
Base/Res.vio: Base/Res.v 
Base/Res.vos Base/Res.vok Base/Res.required_vos: Base/Res.v 
Gen/Consts.vo Gen/Consts.glob Gen/Consts.v.beautified Gen/Consts.required_vo: Gen/Consts.v 
Gen/Consts.vio: Gen/Consts.v 
Gen/Consts.vos Gen/Consts.vok Gen/Consts.required_vos: Gen/Consts.v 
Gen/IoConsts.vo Gen/IoConsts.glob Gen/IoConsts.v.beautified Gen/IoConsts.required_vo: Gen/IoConsts.v 
Gen/IoConsts.vio: Gen/IoConsts.v 
Gen/IoConsts.vos Gen/IoConsts.vok Gen/IoConsts.required_vos: Gen/IoConsts.v 
Gen/SnapConsts.vo Gen/SnapConsts.glob Gen/SnapConsts.v.beautified Gen/SnapConsts.required_vo: Gen/SnapConsts.v 
Gen/SnapConsts.vio: Gen/SnapConsts.v 
Gen/SnapConsts.vos Gen/SnapConsts.vok Gen/SnapConsts.required_vos: Gen/SnapConsts.v 
Model/Framing.vo Model/Framing.glob Model/Framing.v.beautified Model/Framing.required_vo: Model/Framing.v Base/Res.vo Base/Octets.vo Base/ListX.vo Gen/IoConsts.vo
Model/Framing.vio: Model/Framing.v Base/Res.vio Base/Octets.vio Base/ListX.vio Gen/IoConsts.vio
Model/Framing.vos Model/Framing.vok Model/Framing.required_vos: Model/Framing.v Base/Res.vos Base/Octets.vos Base/ListX.vos Gen/IoConsts.vos
Model/NameWire.vo Model/NameWire.glob Model/NameWire.v.beautified Model/NameWire.required_vo: Model/NameWire.v Base/Res.vo Base/Octets.vo Gen/Consts.vo
Model/NameWire.vio: Model/NameWire.v Base/Res.vio Base/Octets.vio Gen/Consts.vio
Model/NameWire.vos Model/NameWire.vok Model/NameWire.required_vos: Model/NameWire.v Base/Res.vos Base/Octets.vos Gen/Consts.vos
Model/Snapshot.vo Model/Snapshot.glob Model/Snapshot.v.beautified Model/Snapshot.required_vo: Model/Snapshot.v 
Model/Snapshot.vio: Model/Snapshot.v 
Model/Snapshot.vos Model/Snapshot.vok Model/Snapshot.required_vos: Model/Snapshot.v 
Model/ZfFs.vo Model/ZfFs.glob Model/ZfFs.v.beautified Model/ZfFs.required_vo: Model/ZfFs.v Base/Res.vo Base/Octets.vo
Model/ZfFs.vio: Model/ZfFs.v Base/Res.vio Base/Octets.vio
Model/ZfFs.vos Model/ZfFs.vok Model/ZfFs.required_vos: Model/ZfFs.v Base/Res.vos Base/Octets.vos
Model/ZfMini.vo Model/ZfMini.glob Model/ZfMini.v.beautified Model/ZfMini.required_vo: Model/ZfMini.v Base/Res.vo Base/Octets.vo Model/ZfFs.vo
Model/ZfMini.vio: Model/ZfMini.v Base/Res.vio Base/Octets.vio Model/ZfFs.vio
Model/ZfMini.vos Model/ZfMini.vok Model/ZfMini.required_vos: Model/ZfMini.v Base/Res.vos Base/Octets.vos Model/ZfFs.vos
Proofs/FramingP.vo Proofs/FramingP.glob Proofs/FramingP.v.beautified Proofs/FramingP.required_vo: Proofs/FramingP.v Base/Res.vo Base/Octets.vo Base/ListX.vo Model/Framing.vo Spec/FramingS.vo Proofs/FramingSP.vo
Proofs/FramingP.vio: Proofs/FramingP.v Base/Res.vio Base/Octets.vio Base/ListX.vio Model/Framing.vio Spec/FramingS.vio Proofs/FramingSP.vio
Proofs/FramingP.vos Proofs/FramingP.vok Proofs/FramingP.required_vos: Proofs/FramingP.v Base/Res.vos Base/Octets.vos Base/ListX.vos Model/Framing.vos Spec/FramingS.vos Proofs/FramingSP.vos
Proofs/FramingSP.vo Proofs/FramingSP.glob Proofs/FramingSP.v.beautified Proofs/FramingSP.required_vo: Proofs/FramingSP.v Base/Res.vo Base/Octets.vo Base/ListX.vo Spec/FramingS.vo
Proofs/FramingSP.vio: Proofs/FramingSP.v Base/Res.vio Base/Octets.vio Base/ListX.vio Spec/FramingS.vio
Proofs/FramingSP.vos Proofs/FramingSP.vok Proofs/FramingSP.required_vos: Proofs/FramingSP.v Base/Res.vos Base/Octets.vos Base/ListX.vos Spec/FramingS.vos
Proofs/NameWireP.vo Proofs/NameWireP.glob Proofs/NameWireP.v.beautified Proofs/NameWireP.required_vo: Proofs/NameWireP.v Base/ListX.vo Model/NameWire.vo Spec/NameWireS.vo Spec/NameRepr.vo
Proofs/NameWireP.vio: Proofs/NameWireP.v Base/ListX.vio Model/NameWire.vio Spec/NameWireS.vio Spec/NameRepr.vio
Proofs/NameWireP.vos Proofs/NameWireP.vok Proofs/NameWireP.required_vos: Proofs/NameWireP.v Base/ListX.vos Model/NameWire.vos Spec/NameWireS.vos Spec/NameRepr.vos
Proofs/NameWireSP.vo Proofs/NameWireSP.glob Proofs/NameWireSP.v.beautified Proofs/NameWireSP.required_vo: Proofs/NameWireSP.v Base/ListX.vo Spec/NameWireS.vo
Proofs/NameWireSP.vio: Proofs/NameWireSP.v Base/ListX.vio Spec/NameWireS.vio
Proofs/NameWireSP.vos Proofs/NameWireSP.vok Proofs/NameWireSP.required_vos: Proofs/NameWireSP.v Base/ListX.vos Spec/NameWireS.vos
Proofs/SnapshotP.vo Proofs/SnapshotP.glob Proofs/SnapshotP.v.beautified Proofs/SnapshotP.required_vo: Proofs/SnapshotP.v Model/Snapshot.vo Spec/SnapshotS.vo
Proofs/SnapshotP.vio: Proofs/SnapshotP.v Model/Snapshot.vio Spec/SnapshotS.vio
Proofs/SnapshotP.vos Proofs/SnapshotP.vok Proofs/SnapshotP.required_vos: Proofs/SnapshotP.v Model/Snapshot.vos Spec/SnapshotS.vos
Proofs/ZfFsP.vo Proofs/ZfFsP.glob Proofs/ZfFsP.v.beautified Proofs/ZfFsP.required_vo: Proofs/ZfFsP.v Base/Res.vo Base/Octets.vo Model/ZfFs.vo Spec/ZfFsS.vo
Proofs/ZfFsP.vio: Proofs/ZfFsP.v Base/Res.vio Base/Octets.vio Model/ZfFs.vio Spec/ZfFsS.vio
Proofs/ZfFsP.vos Proofs/ZfFsP.vok Proofs/ZfFsP.required_vos: Proofs/ZfFsP.v Base/Res.vos Base/Octets.vos Model/ZfFs.vos Spec/ZfFsS.vos
Props/C14.vo Props/C14.glob Props/C14.v.beautified Props/C14.required_vo: Props/C14.v Base/ListX.vo Model/NameWire.vo Spec/NameWireS.vo Spec/NameRepr.vo Proofs/NameWireP.vo Proofs/NameWireSP.vo
Props/C14.vio: Props/C14.v Base/ListX.vio Model/NameWire.vio Spec/NameWireS.vio Spec/NameRepr.vio Proofs/NameWireP.vio Proofs/NameWireSP.vio
Props/C14.vos Props/C14.vok Props/C14.required_vos: Props/C14.v Base/ListX.vos Model/NameWire.vos Spec/NameWireS.vos Spec/NameRepr.vos Proofs/NameWireP.vos Proofs/NameWireSP.vos
Props/C25.vo Props/C25.glob Props/C25.v.beautified Props/C25.required_vo: Props/C25.v Base/Res.vo Base/Octets.vo Model/ZfFs.vo Model/ZfMini.vo Spec/ZfFsS.vo Proofs/ZfFsP.vo
Props/C25.vio: Props/C25.v Base/Res.vio Base/Octets.vio Model/ZfFs.vio Model/ZfMini.vio Spec/ZfFsS.vio Proofs/ZfFsP.vio
Props/C25.vos Props/C25.vok Props/C25.required_vos: Props/C25.v Base/Res.vos Base/Octets.vos Model/ZfFs.vos Model/ZfMini.vos Spec/ZfFsS.vos Proofs/ZfFsP.vos
Props/C30.vo Props/C30.glob Props/C30.v.beautified Props/C30.required_vo: Props/C30.v Base/Res.vo Base/Octets.vo Base/ListX.vo Gen/IoConsts.vo Model/Framing.vo Spec/FramingS.vo Proofs/FramingSP.vo Proofs/FramingP.vo
Props/C30.vio: Props/C30.v Base/Res.vio Base/Octets.vio Base/ListX.vio Gen/IoConsts.vio Model/Framing.vio Spec/FramingS.vio Proofs/FramingSP.vio Proofs/FramingP.vio
Props/C30.vos Props/C30.vok Props/C30.required_vos: Props/C30.v Base/Res.vos Base/Octets.vos Base/ListX.vos Gen/IoConsts.vos Model/Framing.vos Spec/FramingS.vos Proofs/FramingSP.vos Proofs/FramingP.vos
Props/C32.vo Props/C32.glob Props/C32.v.beautified Props/C32.required_vo: Props/C32.v Gen/SnapConsts.vo Model/Snapshot.vo Spec/SnapshotS.vo Proofs/SnapshotP.vo
Props/C32.vio: Props/C32.v Gen/SnapConsts.vio Model/Snapshot.vio Spec/SnapshotS.vio Proofs/SnapshotP.vio
Props/C32.vos Props/C32.vok Props/C32.required_vos: Props/C32.v Gen/SnapConsts.vos Model/Snapshot.vos Spec/SnapshotS.vos Proofs/SnapshotP.vos
Spec/FramingS.vo Spec/FramingS.glob Spec/FramingS.v.beautified Spec/FramingS.required_vo: Spec/FramingS.v Base/Res.vo Base/Octets.vo
Spec/FramingS.vio: Spec/FramingS.v Base/Res.vio Base/Octets.vio
Spec/FramingS.vos Spec/FramingS.vok Spec/FramingS.required_vos: Spec/FramingS.v Base/Res.vos Base/Octets.vos
Spec/NameRepr.vo Spec/NameRepr.glob Spec/NameRepr.v.beautified Spec/NameRepr.required_vo: Spec/NameRepr.v Model/NameWire.vo Spec/NameWireS.vo
Spec/NameRepr.vio: Spec/NameRepr.v Model/NameWire.vio Spec/NameWireS.vio
Spec/NameRepr.vos Spec/NameRepr.vok Spec/NameRepr.required_vos: Spec/NameRepr.v Model/NameWire.vos Spec/NameWireS.vos
Spec/NameWireS.vo Spec/NameWireS.glob Spec/NameWireS.v.beautified Spec/NameWireS.required_vo: Spec/NameWireS.v Base/Res.vo Base/Octets.vo
Spec/NameWireS.vio: Spec/NameWireS.v Base/Res.vio Base/Octets.vio
Spec/NameWireS.vos Spec/NameWireS.vok Spec/NameWireS.required_vos: Spec/NameWireS.v Base/Res.vos Base/Octets.vos
Spec/SnapshotS.vo Spec/SnapshotS.glob Spec/SnapshotS.v.beautified Spec/SnapshotS.required_vo: Spec/SnapshotS.v Model/Snapshot.vo
Spec/SnapshotS.vio: Spec/SnapshotS.v Model/Snapshot.vio
Spec/SnapshotS.vos Spec/SnapshotS.vok Spec/SnapshotS.required_vos: Spec/SnapshotS.v Model/Snapshot.vos
Spec/ZfFsS.vo Spec/ZfFsS.glob Spec/ZfFsS.v.beautified Spec/ZfFsS.required_vo: Spec/ZfFsS.v Base/Res.vo Base/Octets.vo Model/ZfFs.vo
Spec/ZfFsS.vio: Spec/ZfFsS.v Base/Res.vio Base/Octets.vio Model/ZfFs.vio
Spec/ZfFsS.vos Spec/ZfFsS.vok Spec/ZfFsS.required_vos: Spec/ZfFsS.v Base/Res.vos Base/Octets.vos Model/ZfFs.vos
