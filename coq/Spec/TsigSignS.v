(* What a SIGNED response looks like on the wire, from RFC 8945: section 5.3 (a server that could verify the
   request - also when only the time check failed, 5.2.3 - signs its response), section 4.2 (RDATA layout: algorithm
   name, 48-bit time signed, 16-bit fudge, 16-bit MAC size, MAC, 16-bit original ID, 16-bit error, 16-bit other len,
   other data; owner = key name, TYPE 250, CLASS ANY, TTL 0, the LAST record of the additional section),
   section 5.2.3 (BADTIME: error 18, other len 6, other data = the server's current time), section 5.2.2.1 / 4.3.3
   (an untruncated MAC has the size of the algorithm's output: 20 octets for hmac-sha1, 32 for hmac-sha256), and
   RFC 6891 6.1.1 (an OPT record iff the request had one; it precedes the TSIG record).
   Over the RFC 1035 decoder of Spec/MsgWriterS.v; nothing here mentions the Writer or the server. *)
From QV Require Import Base.Res Base.Octets Spec.NameWireS Spec.MsgWriterS Spec.TsigRespS.

(* RFC 8945 4.2 *)
Definition tsig_rdata_signed (alg : list label) (time : bytes) (fudge : N) (mac : bytes) (origid error : N) (other : bytes) : bytes :=
  wire_of alg ++ time ++ be16r fudge ++ be16r (N.of_nat (length mac)) ++ mac ++ be16r origid ++ be16r error ++
  be16r (N.of_nat (length other)) ++ other.

(* the message [b] is: no answer / authority records, and an additional section that is exactly
   (the OPT record iff [edns]) followed by the TSIG record with these fields, MAC included *)
Definition signed_tsig_response (b : bytes) (edns : bool) (key alg : list label) (time : bytes)
           (fudge : N) (mac : bytes) (origid error : N) (other : bytes) : Prop :=
  exists m ps ts, decode_msg b = Some m /\ m_an m = [] /\ m_ns m = [] /\ m_ar m = ps ++ [ts] /\
    (if edns then exists o, ps = [o] /\ dr_type o = 41%N else ps = []) /\
    names_eq_ci (dr_owner ts) key /\ dr_type ts = 250%N /\ dr_class ts = 255%N /\ dr_ttl ts = 0%N /\
    dr_parts ts = [PRaw (tsig_rdata_signed alg time fudge mac origid error other)].

(* output sizes: FIPS 180-4 (SHA-1: 160 bits, SHA-256: 256 bits); the algorithm by its name's first label *)
Definition mac_size_of_alg (alg : list label) : option nat :=
  match alg with
  | [[104;109;97;99;45;115;104;97;49]%N] => Some 20            (* hmac-sha1 *)
  | [[104;109;97;99;45;115;104;97;50;53;54]%N] => Some 32      (* hmac-sha256 *)
  | _ => None
  end.
