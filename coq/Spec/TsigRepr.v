(* How the structured values of Spec/Tsig8945S.v are represented by the values the model of
   src/message/tsig.rs works on (used in the statements of Props/C11.v). *)
From QV Require Export Model.TsigMsg Spec.Tsig8945S.

Definition alg_s (a : alg) : salg := match a with HmacSha1 => SSha1 | HmacSha256 => SSha256 end.
Definition alg_m (a : salg) : alg := match a with SSha1 => HmacSha1 | SSha256 => HmacSha256 end.

(* the spec's MAC function obtained from the model's [hmac] parameter *)
Definition mac_fn_of (hmac : alg -> bytes -> bytes -> bytes) : salg -> bytes -> bytes -> bytes :=
  fun sa key data => hmac (alg_m sa) key data.

Definition smode_of (d : dmode) : smode :=
  match d with DRequest => SRequest | DResponse rm => SResponse rm | DSubsequent pm => SSubsequent pm end.
Definition vmode_of (d : dmode) : vmode :=
  match d with DRequest => VRequest | DResponse rm => VResponse rm | DSubsequent pm => VSubsequent pm end.
Definition dmode_mac (d : dmode) : bytes :=
  match d with DRequest => [] | DResponse rm => rm | DSubsequent pm => pm end.

(* a PreparedTsigRr carrying the fields of [t] (the MAC is not part of it) *)
Definition prepared_repr (p : prepared) (t : stsig) : Prop :=
  p_key_name p = canon_wire (t_key t) /\ p_time_signed p = u48 (t_time t) /\
  p_fudge p = t_fudge t /\ p_original_id p = t_orig_id t /\ p_error p = t_error t /\
  p_other p = t_other t.

(* the ReadRr the Reader delivers for the TSIG RR of section 4.2 (owner in any letter case) *)
Definition tsig_read_rr (t : stsig) : read_rr :=
  mkReadRr (wire_of (t_key t)) 250 255 0 (spec_rdata t).

Definition res_of (r : sresult) : res verr unit :=
  match r with SOk => Ok tt | SFormErr => Err VFormErr | SBadSig => Err BadSig | SBadTime => Err BadTime end.

Definition with_mac (t : stsig) (mac : bytes) : stsig :=
  mkStsig (t_key t) (t_alg t) (t_time t) (t_fudge t) mac (t_orig_id t) (t_error t) (t_other t).

(* Writer's TsigMode for a signing mode of the spec *)
Definition tmode_of (d : dmode) (a : alg) (key : bytes) : tsig_mode :=
  match d with
  | DRequest => TmRequest a key
  | DResponse rm => TmResponse a rm key
  | DSubsequent pm => TmSubsequent a pm key
  end.
