(* The decision record of Model/TsigSrv.v that represents a response description of
   Spec/TsigSrvS.v (used in the statements of Props/C10.v). *)
From QV Require Export Model.TsigSrv Spec.TsigSrvS Spec.TsigRepr.

(* what the model's decision is, in terms of the spec's response description *)
Definition decision_of (t : stsig) (r : sresp) (a : option alg) (secret : bytes) (now : N) : tsig_decision :=
  mkDecision (sr_rcode r)
    (match a with
     | Some a' => if sr_signed r then TmResponse a' (t_mac t) secret else TmUnsigned (alg_name a')
     | None => TmUnsigned (canon_wire (t_alg t))
     end)
    (mkPrepared (canon_wire (t_key t)) (if (sr_error r =? 18)%N then u48 (t_time t) else u48 now) 300
                (t_orig_id t) (sr_error r) (u48 now))
    (sr_process r).

