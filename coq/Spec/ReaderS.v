(* Independent reading of questions and resource records (RFC 1035 §4.1.2, §4.1.3):
   a name (Spec/NameWireS.v), then big-endian fixed-width fields. *)
From QV Require Export Spec.NameWireS.

Definition sbe16 (b : bytes) (a : nat) : option N :=
  match nth_error b a, nth_error b (a + 1) with
  | Some h, Some l => Some (h * 256 + l)%N
  | _, _ => None
  end.

Definition sbe32 (b : bytes) (a : nat) : option N :=
  match sbe16 b a, sbe16 b (a + 2) with
  | Some h, Some l => Some (h * 65536 + l)%N
  | _, _ => None
  end.

(* question at offset c: labels, qtype, qclass, offset just after it *)
Inductive decodes_question (b : bytes) (c : nat) : list label -> N -> N -> nat -> Prop :=
| dec_q : forall ls l qt qc,
    decodes_name b c ls l -> sbe16 b (c + l) = Some qt -> sbe16 b (c + l + 2) = Some qc ->
    decodes_question b c ls qt qc (c + l + 4).

(* fixed part of a resource record at offset c: owner labels, type, class, raw 32-bit TTL,
   RDLENGTH, offset of the RDATA, offset just after the record *)
Inductive decodes_rr_fixed (b : bytes) (c : nat) : list label -> N -> N -> N -> N -> nat -> nat -> Prop :=
| dec_rr : forall ls l ty cl ttl rdlen,
    decodes_name b c ls l ->
    sbe16 b (c + l) = Some ty -> sbe16 b (c + l + 2) = Some cl ->
    sbe32 b (c + l + 4) = Some ttl -> sbe16 b (c + l + 8) = Some rdlen ->
    c + l + 10 + N.to_nat rdlen <= length b ->
    decodes_rr_fixed b c ls ty cl ttl rdlen (c + l + 10) (c + l + 10 + N.to_nat rdlen).

(* RFC 2181 §8: a TTL with the top bit set is read as zero *)
Definition spec_ttl (raw : N) : N := if (raw <? 2147483648)%N then raw else 0%N.
