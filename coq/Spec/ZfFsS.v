(* C25 — $INCLUDE as textual inclusion with origin scoping, written from the property text
   (RFC 1035 §5.1: "$INCLUDE <file-name> [<domain-name>] ... the origin of the included file
   may be specified ... the current origin of the including file is not changed").

   [expand d chain p c t]: the records of the file p (logical lines t) parsed from context c,
   with every $INCLUDE replaced, in place, by the expansion of the included file — started
   with the includer's context at that point, its origin replaced by the directive's origin if
   one is given — after which the includer continues with the context the included file ended
   with, EXCEPT the origin, which is the includer's own again.  d = how many more levels of
   nesting are allowed; chain = the include chain that led here (for the error report).
   The first error ends everything. Structural recursion: d, then the lines. *)
From QV Require Import Base.Res Base.Octets Model.ZfFs.

Section FsS.
  Variables Origin Own Ttl Cls Rec SErr L : Type.
  Notation ctx := (ctx Origin Own Ttl Cls).
  Notation lres := (lres Origin Own Ttl Cls Rec SErr).
  Notation fs_err := (fs_err SErr).
  Variable pline : ctx -> L -> lres.
  Variable fs : path -> option (list (nat * L)).

  (* written from the property text, not from the code: *)
  Definition set_origin (c : ctx) (o : option Origin) : ctx :=
    {| c_origin := o; c_owner := c_owner _ _ _ _ c; c_ttl := c_ttl _ _ _ _ c; c_class := c_class _ _ _ _ c;
       c_dttl := c_dttl _ _ _ _ c |}.
  (* "the included file starts with the includer's context (or the directive's origin)" *)
  Definition start_ctx (c : ctx) (org : option Origin) : ctx :=
    match org with Some o => set_origin c (Some o) | None => c end.
  (* "the includer's origin is restored afterwards" (everything else carries over) *)
  Definition resume_ctx (includer ended : ctx) : ctx := set_origin ended (c_origin _ _ _ _ includer).

  Inductive outcome :=
  | OCtx (c : ctx)                       (* the file was read to its end; context at the end *)
  | OBad (p : path) (e : fs_err)
  | OPanic.

  Fixpoint expand (d : nat) (chain : list (path * nat)) (p : path) {struct d}
    : ctx -> list (nat * L) -> list (path * nat * Rec) * outcome :=
    fix file (c : ctx) (t : list (nat * L)) {struct t} :=
      match t with
      | [] => ([], OCtx c)
      | (n, l) :: t' =>
          match pline c l with
          | LSkip _ _ _ _ _ _ c' => file c' t'
          | LErr _ _ _ _ _ _ e => ([], OBad p (ESyntax _ e))
          | LRec _ _ _ _ _ _ r c' => let '(it, o) := file c' t' in ((p, n, r) :: it, o)
          | LInc _ _ _ _ _ _ ip org c' =>
              match d with
              | O => ([], OBad p (ETooDeep _ n (chain ++ [(p, n)])))
              | S d' =>
                  match compute_path p ip with
                  | None => ([], OPanic)
                  | Some newp =>
                      match fs newp with
                      | None => ([], OBad p (EOpen _ n newp))
                      | Some t2 =>
                          let start := start_ctx c' org in
                          let '(it, o) := expand d' (chain ++ [(p, n)]) newp start t2 in
                          match o with
                          | OCtx cend =>
                              let '(it', o') := file (resume_ctx c' cend) t' in
                              (it ++ it', o')
                          | bad => (it, bad)
                          end
                      end
                  end
              end
          end
      end.
End FsS.
