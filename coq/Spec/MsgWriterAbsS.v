(* C12, message level: the abstract message denoted by the operations that succeeded, and what it
   means for a decoded message (Spec/MsgWriterS.v: [decode_msg], the RFC 1035 decoder) to be that
   message.  Only the operation syntax and the outcomes are looked at, never the writer's state. *)
From QV Require Export Base.Res Base.Octets Spec.NameWireS Spec.MsgWriterS.
From QV Require Import Model.MsgWriter.

(* [aq_mode] / [ar_mode]: the compression mode in force when the item was written *)
Record aq := mkAQ { aq_name : wname; aq_mode : cmode; aq_ty : N; aq_cl : N }.
Record arr := mkAR { ar_owner : wname; ar_mode : cmode; ar_ty : N; ar_cl : N; ar_ttl : N; ar_rd : bytes }.
Record amsg := mkAM { am_mode : cmode; am_qs : list aq; am_an : list arr; am_ns : list arr; am_ar : list arr }.

Definition am0 : amsg := mkAM Standard [] [] [] [].

(* names must come back exactly unless written in standard mode (then modulo ASCII case) *)
Definition exact_of (m : cmode) : bool := match m with Standard => false | _ => true end.
Definition aq_exact (a : aq) : bool := exact_of (aq_mode a).
Definition ar_exact (a : arr) : bool := exact_of (ar_mode a).
(* written with compression disabled: no pointer at all may appear in the item *)
Definition nocomp_of (m : cmode) : bool := match m with Disabled => true | _ => false end.

Definition add_rrs (A : amsg) (s : section) (l : list arr) : amsg :=
  match s with
  | SecAnswer => mkAM (am_mode A) (am_qs A) (am_an A ++ l) (am_ns A) (am_ar A)
  | SecAuthority => mkAM (am_mode A) (am_qs A) (am_an A) (am_ns A ++ l) (am_ar A)
  | SecAdditional => mkAM (am_mode A) (am_qs A) (am_an A) (am_ns A) (am_ar A ++ l)
  | SecQuestion => A
  end.

(* RFC 2181 section 8: a TTL with the top bit set is treated as zero *)
Definition ttl_rfc (raw : N) : N := if (raw <=? 2147483647)%N then raw else 0%N.

Definition astep (A : amsg) (o : wop) (r : outcome) : amsg :=
  match o, r with
  | OSetMode m, _ => mkAM m (am_qs A) (am_an A) (am_ns A) (am_ar A)
  | OAddQuestion n qt qc, RUnit =>
    mkAM (am_mode A) (am_qs A ++ [mkAQ n (am_mode A) qt qc]) (am_an A) (am_ns A) (am_ar A)
  | OAddRr s _ n ty cl ttl rd _, RUnit =>
    add_rrs A s [mkAR n (am_mode A) ty cl (ttl_rfc ttl) rd]
  | OAddRrset s _ n ty cl ttl rds _, RUnit =>
    add_rrs A s (map (mkAR n (am_mode A) ty cl (ttl_rfc ttl)) rds)
  | OClearRrs, _ => mkAM (am_mode A) (am_qs A) [] [] []
  | _, _ => A
  end.

Fixpoint areplay (A : amsg) (ops : list wop) (rs : list outcome) : amsg :=
  match ops, rs with
  | o :: ops', r :: rs' => areplay (astep A o r) ops' rs'
  | _, _ => A
  end.

(* ---------------------------------------------------------------- matching a decoded message *)

Definition name_rel (exact : bool) (a b : list label) : Prop :=
  if exact then a = b else map (map lower) a = map (map lower) b.

Inductive xpart := XName (n : wname) (compressible : bool) | XRaw (data : bytes).

Definition part_rel (exact : bool) (x : xpart) (p : rpart) : Prop :=
  match x, p with
  | XName n c, PName n' _ c' => name_rel exact n n' /\ c = c'
  | XRaw d, PRaw d' => d = d'
  | _, _ => False
  end.

Definition q_rel (a : aq) (d : dq) : Prop :=
  name_rel (aq_exact a) (aq_name a) (dq_name d) /\ dq_type d = aq_ty a /\ dq_class d = aq_cl a.

(* [xparts a]: the expected RDATA parts of the record (names and raw octets, in order) *)
Definition rr_rel (xparts : arr -> list xpart) (a : arr) (d : drr) : Prop :=
  name_rel (ar_exact a) (ar_owner a) (dr_owner d) /\ dr_type d = ar_ty a /\ dr_class d = ar_cl a /\
  dr_ttl d = ar_ttl a /\ Forall2 (part_rel (ar_exact a)) (xparts a) (dr_parts d).

(* ---------------------------------------------------------------- header, EDNS and TSIG settings *)

Record atsig := mkAT { at_alg : wname; at_key : wname; at_time : bytes; at_fudge : N; at_origid : N;
                       at_error : N; at_stime : bytes }.

Record ahdr := mkAH {
  h_id : N; h_qr : bool; h_opcode : N; h_aa : bool; h_tc : bool; h_rd : bool; h_ra : bool; h_rcode : N;
  h_edns : option (N * N);            (* requestor's UDP payload size, upper 8 bits of the extended RCODE *)
  h_tsig : option atsig }.

Definition ah0 : ahdr := mkAH 0 false 0 false false false false 0 None None.

Definition lower_name (n : wname) : wname := map (map lower) n.

Definition hstep (H : ahdr) (o : wop) (r : outcome) : ahdr :=
  match o, r with
  | OSetId v, RUnit => mkAH v (h_qr H) (h_opcode H) (h_aa H) (h_tc H) (h_rd H) (h_ra H) (h_rcode H) (h_edns H) (h_tsig H)
  | OSetQr b, RUnit => mkAH (h_id H) b (h_opcode H) (h_aa H) (h_tc H) (h_rd H) (h_ra H) (h_rcode H) (h_edns H) (h_tsig H)
  | OSetOpcode v, RUnit => mkAH (h_id H) (h_qr H) v (h_aa H) (h_tc H) (h_rd H) (h_ra H) (h_rcode H) (h_edns H) (h_tsig H)
  | OSetAa b, RUnit => mkAH (h_id H) (h_qr H) (h_opcode H) b (h_tc H) (h_rd H) (h_ra H) (h_rcode H) (h_edns H) (h_tsig H)
  | OSetTc b, RUnit => mkAH (h_id H) (h_qr H) (h_opcode H) (h_aa H) b (h_rd H) (h_ra H) (h_rcode H) (h_edns H) (h_tsig H)
  | OSetRd b, RUnit => mkAH (h_id H) (h_qr H) (h_opcode H) (h_aa H) (h_tc H) b (h_ra H) (h_rcode H) (h_edns H) (h_tsig H)
  | OSetRa b, RUnit => mkAH (h_id H) (h_qr H) (h_opcode H) (h_aa H) (h_tc H) (h_rd H) b (h_rcode H) (h_edns H) (h_tsig H)
  | OSetRcode v, RUnit =>
    mkAH (h_id H) (h_qr H) (h_opcode H) (h_aa H) (h_tc H) (h_rd H) (h_ra H) v
         (match h_edns H with Some (u, _) => Some (u, 0%N) | None => None end) (h_tsig H)
  | OSetXrcode v, RUnit =>
    mkAH (h_id H) (h_qr H) (h_opcode H) (h_aa H) (h_tc H) (h_rd H) (h_ra H) (v mod 16)%N
         (match h_edns H with Some (u, _) => Some (u, (v / 16)%N) | None => None end) (h_tsig H)
  | OSetEdns udp, RUnit =>
    mkAH (h_id H) (h_qr H) (h_opcode H) (h_aa H) (h_tc H) (h_rd H) (h_ra H) (h_rcode H) (Some (udp, 0%N)) (h_tsig H)
  | OSetTsig alg key time fudge origid error stime, RUnit =>
    mkAH (h_id H) (h_qr H) (h_opcode H) (h_aa H) (h_tc H) (h_rd H) (h_ra H) (h_rcode H) (h_edns H)
         (Some (mkAT (lower_name alg) (lower_name key) time fudge origid error stime))
  | OUpdateTime t, RUnit =>
    mkAH (h_id H) (h_qr H) (h_opcode H) (h_aa H) (h_tc H) (h_rd H) (h_ra H) (h_rcode H) (h_edns H)
         (match h_tsig H with
          | Some a => Some (mkAT (at_alg a) (at_key a) t (at_fudge a) (at_origid a) (at_error a) (at_stime a))
          | None => None end)
  | _, _ => H
  end.

Fixpoint hreplay (H : ahdr) (ops : list wop) (rs : list outcome) : ahdr :=
  match ops, rs with
  | o :: ops', r :: rs' => hreplay (hstep H o r) ops' rs'
  | _, _ => H
  end.

(* RFC 1035 s.4.1.1: the decoded id and flag octets are those of the header settings *)
Definition hdr_rel (H : ahdr) (m : dmsg) : Prop :=
  m_id m = h_id H /\ N.testbit (m_flags2 m) 7 = h_qr H /\ ((m_flags2 m / 8) mod 16 = h_opcode H)%N /\
  N.testbit (m_flags2 m) 2 = h_aa H /\ N.testbit (m_flags2 m) 1 = h_tc H /\ N.testbit (m_flags2 m) 0 = h_rd H /\
  N.testbit (m_flags3 m) 7 = h_ra H /\ ((m_flags3 m / 16) mod 8 = 0)%N /\ (m_flags3 m mod 16 = h_rcode H)%N.

(* the OPT (RFC 6891 s.6.1.3: class = UDP size, TTL = extended RCODE upper bits << 24) and TSIG
   (RFC 8945 s.4.2, empty MAC) pseudo-records of the settings *)
Definition tsig_rdata_of (a : atsig) : bytes :=
  let other := if (at_error a =? 18)%N then at_stime a else [] in
  wire_of (at_alg a) ++ at_time a ++ be16s (at_fudge a) ++ be16s 0 ++ be16s (at_origid a) ++
  be16s (at_error a) ++ be16s (N.of_nat (length other)) ++ other.

Definition pseudo_of (mode : cmode) (H : ahdr) : list arr :=
  (match h_edns H with Some (u, up) => [mkAR [] mode 41 u (up * 16777216)%N []] | None => [] end) ++
  (match h_tsig H with Some a => [mkAR (at_key a) mode 250 255 0 (tsig_rdata_of a)] | None => [] end).
