(* C12, message level: the abstract message denoted by the operations that succeeded, and what it
   means for a decoded message (Spec/MsgWriterS.v: [decode_msg], the RFC 1035 decoder) to be that
   message.  Only the operation syntax and the outcomes are looked at, never the writer's state. *)
From QV Require Export Base.Res Base.Octets Spec.NameWireS Spec.MsgWriterS.
From QV Require Import Model.MsgWriter.

Record aq := mkAQ { aq_name : wname; aq_exact : bool; aq_ty : N; aq_cl : N }.
Record arr := mkAR { ar_owner : wname; ar_exact : bool; ar_ty : N; ar_cl : N; ar_ttl : N; ar_rd : bytes }.
Record amsg := mkAM { am_mode : cmode; am_qs : list aq; am_an : list arr; am_ns : list arr; am_ar : list arr }.

Definition am0 : amsg := mkAM Standard [] [] [] [].

(* names must come back exactly unless written in standard mode (then modulo ASCII case) *)
Definition exact_of (m : cmode) : bool := match m with Standard => false | _ => true end.

Definition add_rrs (A : amsg) (s : section) (l : list arr) : amsg :=
  match s with
  | SecAnswer => mkAM (am_mode A) (am_qs A) (am_an A ++ l) (am_ns A) (am_ar A)
  | SecAuthority => mkAM (am_mode A) (am_qs A) (am_an A) (am_ns A ++ l) (am_ar A)
  | SecAdditional => mkAM (am_mode A) (am_qs A) (am_an A) (am_ns A) (am_ar A ++ l)
  | SecQuestion => A
  end.

(* RFC 2181 section 8: a TTL with the top bit set is treated as zero *)
Definition ttl_rfc (raw : N) : N := if (raw <=? 2147483647)%N then raw else 0%N.

Definition astep (A : amsg) (o : wop) (r : outcome) : amsg :=
  match o, r with
  | OSetMode m, _ => mkAM m (am_qs A) (am_an A) (am_ns A) (am_ar A)
  | OAddQuestion n qt qc, RUnit =>
    mkAM (am_mode A) (am_qs A ++ [mkAQ n (exact_of (am_mode A)) qt qc]) (am_an A) (am_ns A) (am_ar A)
  | OAddRr s _ n ty cl ttl rd _, RUnit =>
    add_rrs A s [mkAR n (exact_of (am_mode A)) ty cl (ttl_rfc ttl) rd]
  | OAddRrset s _ n ty cl ttl rds _, RUnit =>
    add_rrs A s (map (mkAR n (exact_of (am_mode A)) ty cl (ttl_rfc ttl)) rds)
  | OClearRrs, _ => mkAM (am_mode A) (am_qs A) [] [] []
  | _, _ => A
  end.

Fixpoint areplay (A : amsg) (ops : list wop) (rs : list outcome) : amsg :=
  match ops, rs with
  | o :: ops', r :: rs' => areplay (astep A o r) ops' rs'
  | _, _ => A
  end.

(* ---------------------------------------------------------------- matching a decoded message *)

Definition name_rel (exact : bool) (a b : list label) : Prop :=
  if exact then a = b else map (map lower) a = map (map lower) b.

Inductive xpart := XName (n : wname) (compressible : bool) | XRaw (data : bytes).

Definition part_rel (exact : bool) (x : xpart) (p : rpart) : Prop :=
  match x, p with
  | XName n c, PName n' _ c' => name_rel exact n n' /\ c = c'
  | XRaw d, PRaw d' => d = d'
  | _, _ => False
  end.

Definition q_rel (a : aq) (d : dq) : Prop :=
  name_rel (aq_exact a) (aq_name a) (dq_name d) /\ dq_type d = aq_ty a /\ dq_class d = aq_cl a.

(* [xparts a]: the expected RDATA parts of the record (names and raw octets, in order) *)
Definition rr_rel (xparts : arr -> list xpart) (a : arr) (d : drr) : Prop :=
  name_rel (ar_exact a) (ar_owner a) (dr_owner d) /\ dr_type d = ar_ty a /\ dr_class d = ar_cl a /\
  dr_ttl d = ar_ttl a /\ Forall2 (part_rel (ar_exact a)) (xparts a) (dr_parts d).
