(* C27 — independent specification of "the same rate-limit stream", written from the
   property text and the RrlParams documentation, NOT from the code.
   Addresses are octet strings in network order; a name is its list of labels. *)
From Coq Require Import NArith List Bool.
Import ListNotations.
Local Open Scope N_scope.

Inductive saddr := S4 (o : list N) | S6 (o : list N).

(* RFC 4291 §2.5.5.2: ::ffff:a.b.c.d is 80 zero bits, 16 one bits, then the IPv4 address *)
Definition v4_mapped_prefix : list N := [0; 0; 0; 0; 0; 0; 0; 0; 0; 0; 255; 255].
Definition list_N_eqb (a b : list N) : bool :=
  Nat.eqb (length a) (length b) && forallb (fun xy => fst xy =? snd xy) (combine a b).
(* an IPv4-mapped IPv6 source counts as the IPv4 address it embeds *)
Definition canonical (s : saddr) : saddr :=
  match s with
  | S4 o => S4 o
  | S6 o => if list_N_eqb (firstn 12 o) v4_mapped_prefix then S4 (skipn 12 o) else S6 o
  end.

(* the address as a number, most significant octet first *)
Fixpoint addr_value (o : list N) : N :=
  match o with [] => 0 | x :: r => x * 256 ^ N.of_nat (length r) + addr_value r end.

(* a and b (both [bits] wide) lie in the same /len network: their top [len] bits agree *)
Definition same_network (bits len a b : N) : bool := a / 2 ^ (bits - len) =? b / 2 ^ (bits - len).

(* same configured prefix; addresses of different families never share a stream *)
Definition same_prefix (len4 len6 : N) (s1 s2 : saddr) : bool :=
  match canonical s1, canonical s2 with
  | S4 a, S4 b => same_network 32 len4 (addr_value a) (addr_value b)
  | S6 a, S6 b => same_network 128 len6 (addr_value a) (addr_value b)
  | _, _ => false
  end.

Inductive scategory := SNoError | SNxDomain | SOther.
Definition scategory_of (rcode : N) : scategory :=
  if rcode =? 0 then SNoError else if rcode =? 3 then SNxDomain else SOther.
Definition scategory_eqb (a b : scategory) : bool :=
  match a, b with SNoError, SNoError | SNxDomain, SNxDomain | SOther, SOther => true | _, _ => false end.

(* names compared ignoring ASCII case *)
Definition ascii_lower (b : N) : N := if (65 <=? b) && (b <=? 90) then b + 32 else b.
Definition label_eq_ci (a b : list N) : bool := list_N_eqb (map ascii_lower a) (map ascii_lower b).
Definition name_eq_ci (a b : list (list N)) : bool :=
  Nat.eqb (length a) (length b) && forallb (fun xy => label_eq_ci (fst xy) (snd xy)) (combine a b).

(* A response as far as stream classification goes: where it goes, its RCODE, and the
   name it is about: the wildcard source of synthesis if there was one, else the QNAME. *)
Record sresponse := mkSResp { s_dest : saddr; s_rcode : N; s_name : list (list N) }.

Definition same_stream (len4 len6 : N) (r1 r2 : sresponse) : bool :=
  same_prefix len4 len6 (s_dest r1) (s_dest r2)
  && scategory_eqb (scategory_of (s_rcode r1)) (scategory_of (s_rcode r2))
  && match scategory_of (s_rcode r1) with
     | SNoError => name_eq_ci (s_name r1) (s_name r2)
     | _ => true      (* NXDOMAIN, and all other RCODEs together: one stream per prefix *)
     end.

(* which responses are limited at all: UDP responses to opcode QUERY *)
Definition limitable (udp : bool) (opcode : N) (has_response : bool) : bool :=
  udp && (opcode =? 0) && has_response.
