(* C23 — an independent RENDERER of RFC 1035 section 5 master files, written from the RFCs (1035 §5,
   2181 §8, 3597 §5), not from the parser.  A file is a list of abstract lines (records, $ORIGIN, $TTL,
   blank/comment lines); every line carries a `choices` value fixing its presentation completely:
   owner form (absolute / relative to the origin / @ / omitted), TTL and class presence and order,
   mnemonics in any letter case or TYPEnnn/CLASSnnn, the separators between fields (blanks, tabs,
   parentheses, and inside parentheses comments and line breaks, LF or CRLF), quoted or unquoted
   strings, the escape of every octet (raw, \c, \DDD), decimal integers with '+' or leading zeros,
   the RFC 3597 \# form with the hexadecimal data split into words, the end of the line (comment,
   LF/CRLF, end of file).  [file_ok] says when the choices are legal for the values (e.g. a raw
   octet must not be special in its context); [denote] is what the file means: the records in order
   with their line numbers (1 + number of LF octets before the line).
   Nothing here mentions the parser or its model; strings are octet lists. *)
From QV Require Export Base.Octets Spec.NameWireS.

Local Open Scope N_scope.

(* ---- small helpers ------------------------------------------------------------------------ *)

Fixpoint beq (a b : bytes) : bool :=
  match a, b with
  | [], [] => true
  | x :: a', y :: b' => (x =? y) && beq a' b'
  | _, _ => false
  end.

Fixpoint lbeq (a b : list bytes) : bool :=
  match a, b with
  | [], [] => true
  | x :: a', y :: b' => beq x y && lbeq a' b'
  | _, _ => false
  end.

Definition count_nl (s : bytes) : N := N.of_nat (count_occ N.eq_dec s 10).

Definition head_is (c : N) (s : bytes) : bool := match s with x :: _ => x =? c | [] => false end.

Definition is_blank (c : N) : bool := (c =? 32) || (c =? 9).
Definition is_dig (c : N) : bool := (48 <=? c) && (c <=? 57).
(* octets that end a field or a line, and the escape character *)
Definition special (c : N) : bool :=
  is_blank c || (c =? 10) || (c =? 13) || (c =? 40) || (c =? 41) || (c =? 59) || (c =? 92).

(* ---- one octet: raw, \c, \DDD ---------------------------------------------------------------- *)

Inductive esc := ERaw | EChar | EDec.
Inductive tokctx := KQuoted | KUnquoted | KLabel.

Definition dec3 (c : N) : bytes := [48 + c / 100; 48 + (c / 10) mod 10; 48 + c mod 10].

Definition render_octet (e : esc) (c : N) : bytes :=
  match e with
  | ERaw => [c]
  | EChar => [92; c]
  | EDec => 92 :: dec3 c
  end.

(* a raw octet must not be special where it stands: inside quotes only the quote and the backslash
   are; in an unquoted string blanks, line ends, parentheses, ';' and '\' are (a raw CR is excluded
   altogether although only CR LF is a line end); in a label also the dot *)
Definition raw_ok (k : tokctx) (c : N) : bool :=
  match k with
  | KQuoted => negb ((c =? 34) || (c =? 92))
  | KUnquoted => negb (special c)
  | KLabel => negb (special c || (c =? 46))
  end.

(* \c is not available for digits (\DDD is decimal) *)
Definition esc_ok (k : tokctx) (e : esc) (c : N) : bool :=
  (c <? 256) && match e with ERaw => raw_ok k c | EChar => negb (is_dig c) | EDec => true end.

(* the choices list may be shorter than the string: the rest is written as \DDD *)
Fixpoint render_octets (es : list esc) (s : bytes) : bytes :=
  match s with
  | [] => []
  | c :: s' => render_octet (hd EDec es) c ++ render_octets (tl es) s'
  end.

Fixpoint octets_ok (k : tokctx) (es : list esc) (s : bytes) : bool :=
  match s with
  | [] => true
  | c :: s' => esc_ok k (hd EDec es) c && octets_ok k (tl es) s'
  end.

(* ---- <character-string> ----------------------------------------------------------------------- *)

Inductive schoice := SQuoted (es : list esc) | SUnquoted (es : list esc).

Definition render_string (sc : schoice) (s : bytes) : bytes :=
  match sc with
  | SQuoted es => 34 :: render_octets es s ++ [34]
  | SUnquoted es => render_octets es s
  end.

Definition bh : bytes := [92; 35].                                   (* \# *)

(* [first]: the token is the first RDATA field, where the two octets \# announce RFC 3597 syntax *)
Definition string_ok (first : bool) (sc : schoice) (s : bytes) : bool :=
  (length s <=? 255)%nat &&
  match sc with
  | SQuoted es => octets_ok KQuoted es s
  | SUnquoted es =>
    octets_ok KUnquoted es s && negb (beq s []) && negb (head_is 34 (render_octets es s))
    && negb (first && beq (render_octets es s) bh)
  end.

Definition string_wire (s : bytes) : bytes := N.of_nat (length s) :: s.

(* ---- <domain-name> ---------------------------------------------------------------------------- *)

(* a name is the list of its labels (root label excluded), as in Spec/NameWireS.v *)
Inductive nchoice :=
| NAt                                            (* "@": the name is the origin *)
| NAbs (ess : list (list esc))                   (* all labels, trailing dot *)
| NRel (k : nat) (ess : list (list esc)).        (* the first k labels; the others are the origin *)

Fixpoint render_rel (ess : list (list esc)) (ls : list label) : bytes :=
  match ls with
  | [] => []
  | l :: ls' =>
    render_octets (hd [] ess) l ++
    match ls' with [] => [] | _ => 46 :: render_rel (tl ess) ls' end
  end.

Definition render_name (nc : nchoice) (ls : list label) : bytes :=
  match nc with
  | NAt => [64]
  | NAbs ess => render_rel ess ls ++ [46]
  | NRel k ess => render_rel ess (firstn k ls)
  end.

Fixpoint labels_ok (ess : list (list esc)) (ls : list label) : bool :=
  match ls with
  | [] => true
  | l :: ls' => octets_ok KLabel (hd [] ess) l && labels_ok (tl ess) ls'
  end.

(* RFC 1035 §2.3.4: labels of 1..63 octets, at most 255 octets on the wire *)
Definition good_labels_b (ls : list label) : bool :=
  forallb (fun l => (1 <=? length l)%nat && (length l <=? 63)%nat) ls && (wire_len ls <=? 255)%nat.

Definition opt_lbeq (o : option (list label)) (ls : list label) : bool :=
  match o with Some x => lbeq x ls | None => false end.

(* [first]: first RDATA field (\# is the RFC 3597 marker); [bol]: first token of a line ($ starts a
   directive) *)
Definition name_ok (first bol : bool) (origin : option (list label)) (nc : nchoice) (ls : list label) : bool :=
  good_labels_b ls &&
  match nc with
  | NAt => opt_lbeq origin ls
  | NAbs ess => labels_ok ess ls && negb (bol && head_is 36 (render_name nc ls))
  | NRel k ess =>
    (1 <=? k)%nat && (k <=? length ls)%nat && opt_lbeq origin (skipn k ls) && labels_ok ess (firstn k ls)
    && negb (beq (render_name nc ls) [64]) && negb (first && beq (render_name nc ls) bh)
    && negb (bol && head_is 36 (render_name nc ls))
  end.

(* ---- integers ----------------------------------------------------------------------------------- *)

Fixpoint num_f (base : N) (fuel : nat) (n : N) : bytes :=
  match fuel with
  | O => []
  | S f => (if n <? base then [] else num_f base f (n / base)) ++ [48 + n mod base]
  end.
(* enough fuel: a number has no more digits than bits *)
Definition num (base n : N) : bytes := num_f base (S (N.to_nat (N.log2 n))) n.
Definition dec : N -> bytes := num 10.
Definition oct : N -> bytes := num 8.

Record ichoice := mkI { i_plus : bool; i_zeros : nat }.
Definition i_plain : ichoice := mkI false 0.

Definition render_uint (ic : ichoice) (n : N) : bytes :=
  (if i_plus ic then [43] else []) ++ repeat 48 (i_zeros ic) ++ dec n.

Definition uint_ok (max : N) (ic : ichoice) (n : N) : bool :=
  (n <=? max) && (N.of_nat (i_zeros ic) <=? 60000).

(* the Chaosnet address of a CH A record: octal, no sign *)
Definition render_oct (ic : ichoice) (n : N) : bytes := repeat 48 (i_zeros ic) ++ oct n.
Definition oct_ok (ic : ichoice) (n : N) : bool :=
  (n <=? 65535) && negb (i_plus ic) && (N.of_nat (i_zeros ic) <=? 60000).

Definition sbe16 (v : N) : bytes := [v / 256; v mod 256].
Definition sbe32 (v : N) : bytes := [v / 16777216; (v / 65536) mod 256; (v / 256) mod 256; v mod 256].

(* ---- addresses ----------------------------------------------------------------------------------- *)

Definition render_ip4 (a b c d : N) : bytes := dec a ++ 46 :: dec b ++ 46 :: dec c ++ 46 :: dec d.
Definition ip4_ok (a b c d : N) : bool := (a <? 256) && (b <? 256) && (c <? 256) && (d <? 256).

Definition hexdig (upper : bool) (n : N) : N :=
  if n <? 10 then 48 + n else (if upper then 55 else 87) + n.

(* a 16-bit group: up to 3 leading zero digits may be dropped *)
Definition group_digits (g : N) : list N := [g / 4096; (g / 256) mod 16; (g / 16) mod 16; g mod 16].
Definition render_group (drop : nat) (upper : bool) (g : N) : bytes :=
  map (hexdig upper) (skipn drop (group_digits g)).
Definition group_ok (drop : nat) (g : N) : bool :=
  (g <? 65536) && (drop <=? 3)%nat && forallb (N.eqb 0) (firstn drop (group_digits g)).

(* RFC 4291 §2.2 forms 1 and 2: eight groups separated by colons (per group: dropped zeros, letter case);
   one run of zero groups — [g_zip] = its first index and its length — may be written as "::" *)
Record ip6choice := mkIp6 { g_drop : list nat; g_upper : list bool; g_zip : option (nat * nat) }.

Fixpoint render_groups (drops : list nat) (uppers : list bool) (gs : list N) : bytes :=
  match gs with
  | [] => []
  | g :: gs' =>
    render_group (hd O drops) (hd false uppers) g ++
    match gs' with [] => [] | _ => 58 :: render_groups (tl drops) (tl uppers) gs' end
  end.
Fixpoint groups_ok (drops : list nat) (gs : list N) : bool :=
  match gs with
  | [] => true
  | g :: gs' => group_ok (hd O drops) g && groups_ok (tl drops) gs'
  end.
Definition render_ip6 (c : ip6choice) (gs : list N) : bytes :=
  match g_zip c with
  | None => render_groups (g_drop c) (g_upper c) gs
  | Some (i, n) =>
    render_groups (g_drop c) (g_upper c) (firstn i gs) ++ [58; 58] ++
    render_groups (skipn (i + n) (g_drop c)) (skipn (i + n) (g_upper c)) (skipn (i + n) gs)
  end.
Definition ip6_ok (c : ip6choice) (gs : list N) : bool :=
  (length gs =? 8)%nat && groups_ok (g_drop c) gs &&
  match g_zip c with
  | None => true
  | Some (i, n) => (1 <=? n)%nat && (i + n <=? 8)%nat && forallb (N.eqb 0) (firstn n (skipn i gs))
  end.

(* ---- mnemonics -------------------------------------------------------------------------------------- *)

(* RFC 1035 §3.2.2-3.2.4, RFC 3596, RFC 2782, RFC 6891, RFC 8945: the mnemonics this server knows *)
Definition spec_classes : list (bytes * N) :=
  [([73; 78], 1); ([67; 72], 3); ([72; 83], 4)].                           (* IN CH HS *)
Definition spec_types : list (bytes * N) :=
  [([65], 1); ([78; 83], 2); ([77; 68], 3); ([77; 70], 4); ([67; 78; 65; 77; 69], 5); ([83; 79; 65], 6);
   ([77; 66], 7); ([77; 71], 8); ([77; 82], 9); ([78; 85; 76; 76], 10); ([87; 75; 83], 11);
   ([80; 84; 82], 12); ([72; 73; 78; 70; 79], 13); ([77; 73; 78; 70; 79], 14); ([77; 88], 15);
   ([84; 88; 84], 16); ([65; 65; 65; 65], 28); ([83; 82; 86], 33); ([79; 80; 84], 41);
   ([84; 83; 73; 71], 250)].
Definition spec_class_prefix : bytes := [67; 76; 65; 83; 83].               (* CLASS *)
Definition spec_type_prefix : bytes := [84; 89; 80; 69].                    (* TYPE *)

Fixpoint mnemonic_of (tbl : list (bytes * N)) (v : N) : option bytes :=
  match tbl with
  | [] => None
  | (m, w) :: tbl' => if w =? v then Some m else mnemonic_of tbl' v
  end.

(* mnemonics are case-insensitive: a flag per letter says "write it in lower case" *)
Fixpoint apply_case (lows : list bool) (s : bytes) : bytes :=
  match s with
  | [] => []
  | c :: s' => (if hd false lows then lower c else c) :: apply_case (tl lows) s'
  end.

Inductive symchoice :=
| SymMnemonic (lows : list bool)
| SymNumeric (lows : list bool) (ic : ichoice).       (* RFC 3597 §5: CLASSnnn / TYPEnnn *)

Definition render_sym (tbl : list (bytes * N)) (prefix : bytes) (sc : symchoice) (v : N) : bytes :=
  match sc with
  | SymMnemonic lows =>
    match mnemonic_of tbl v with
    | Some m => apply_case lows m
    | None => prefix ++ dec v
    end
  | SymNumeric lows ic => apply_case lows prefix ++ render_uint ic v
  end.

Definition sym_ok (tbl : list (bytes * N)) (sc : symchoice) (v : N) : bool :=
  match sc with
  | SymMnemonic _ => match mnemonic_of tbl v with Some _ => true | None => false end
  | SymNumeric _ ic => uint_ok 65535 ic v
  end.

(* ---- separators --------------------------------------------------------------------------------------- *)

(* between two fields: runs of blanks, and the items that are not blanks: a parenthesis, or — inside
   parentheses only — a line break or a comment up to a line break *)
Inductive sitem := SOpen | SClose | SNl (crlf : bool) | SComment (text : bytes) (crlf : bool).
Record sep := mkSep { s_groups : list (bytes * sitem); s_tail : bytes }.
Definition sep_none : sep := mkSep [] [].

Definition render_nl (crlf : bool) : bytes := if crlf then [13; 10] else [10].
Definition render_sitem (i : sitem) : bytes :=
  match i with
  | SOpen => [40]
  | SClose => [41]
  | SNl c => render_nl c
  | SComment t c => 59 :: t ++ render_nl c
  end.
Definition render_group_s (g : bytes * sitem) : bytes := fst g ++ render_sitem (snd g).
Definition render_sep (s : sep) : bytes := flat_map render_group_s (s_groups s) ++ s_tail s.

Definition blanks_ok (b : bytes) : bool := forallb is_blank b.
Definition comment_ok (t : bytes) : bool := forallb (fun c => negb ((c =? 10) || (c =? 13))) t.

(* the parenthesis state after the separator, None when it is ill-formed *)
Fixpoint groups_paren (p : bool) (gs : list (bytes * sitem)) : option bool :=
  match gs with
  | [] => Some p
  | (b, i) :: gs' =>
    if blanks_ok b then
      match i with
      | SOpen => if p then None else groups_paren true gs'
      | SClose => if p then groups_paren false gs' else None
      | SNl _ => if p then groups_paren p gs' else None
      | SComment t _ => if p && comment_ok t then groups_paren p gs' else None
      end
    else None
  end.
Definition sep_paren (p : bool) (s : sep) : option bool :=
  if blanks_ok (s_tail s) then groups_paren p (s_groups s) else None.

Definition sep_empty (s : sep) : bool :=
  match s_groups s, s_tail s with [], [] => true | _, _ => false end.
(* does the text begin with a blank? *)
Definition sep_lead_blank (s : sep) : bool :=
  match s_groups s with
  | (b, _) :: _ => negb (beq b [])
  | [] => negb (beq (s_tail s) [])
  end.

(* end of a line: a separator that leaves the parentheses closed, then a comment and/or the line end *)
Inductive term := TNl (crlf : bool) | TComment (text : bytes) (crlf : bool) | TEof | TCommentEof (text : bytes).
Record eolc := mkEol { e_sep : sep; e_term : term }.
Definition render_term (t : term) : bytes :=
  match t with
  | TNl c => render_nl c
  | TComment x c => 59 :: x ++ render_nl c
  | TEof => []
  | TCommentEof x => 59 :: x
  end.
Definition render_eol (e : eolc) : bytes := render_sep (e_sep e) ++ render_term (e_term e).
Definition term_ok (t : term) : bool :=
  match t with TComment x _ | TCommentEof x => comment_ok x | _ => true end.
Definition term_eof (t : term) : bool := match t with TEof | TCommentEof _ => true | _ => false end.
Definition eol_ok (p : bool) (e : eolc) : bool :=
  match sep_paren p (e_sep e) with Some false => term_ok (e_term e) | _ => false end.

(* ---- RDATA ------------------------------------------------------------------------------------------------ *)

Inductive fval :=
| VName (ls : list label) | VU16 (n : N) | VU32 (n : N) | VOct (n : N)
| VIp4 (a b c d : N) | VIp6 (gs : list N) | VStr (s : bytes)
| VProto (p : N)                       (* WKS: the IP protocol number *)
| VPort (p : N).                       (* WKS: one port of the list; the ports together give the bit map *)

Definition field_wire (f : fval) : bytes :=
  match f with
  | VName ls => wire_of ls
  | VU16 n | VOct n => sbe16 n
  | VU32 n => sbe32 n
  | VIp4 a b c d => [a; b; c; d]
  | VIp6 gs => flat_map sbe16 gs
  | VStr s => string_wire s
  | VProto p => [p]
  | VPort _ => []                       (* see [wks_bitmap] *)
  end.

(* the protocol of a WKS record: the mnemonics TCP / UDP in any letter case, or the number *)
Inductive pchoice := PTcp (lows : list bool) | PUdp (lows : list bool) | PNum (ic : ichoice).
Definition w_tcp : bytes := [84; 67; 80].
Definition w_udp : bytes := [85; 68; 80].
Definition render_proto (pc : pchoice) (p : N) : bytes :=
  match pc with
  | PTcp lows => apply_case lows w_tcp
  | PUdp lows => apply_case lows w_udp
  | PNum ic => render_uint ic p
  end.
Definition proto_ok (pc : pchoice) (p : N) : bool :=
  match pc with
  | PTcp _ => p =? 6
  | PUdp _ => p =? 17
  | PNum ic => uint_ok 255 ic p
  end.

Inductive fchoice := CName (nc : nchoice) | CInt (ic : ichoice) | CIp6 (c : ip6choice) | CStr (sc : schoice) | CPlain
                   | CProto (pc : pchoice).

Definition fc_name (fc : fchoice) : nchoice := match fc with CName nc => nc | _ => NAbs [] end.
Definition fc_int (fc : fchoice) : ichoice := match fc with CInt ic => ic | _ => i_plain end.
Definition fc_ip6 (fc : fchoice) : ip6choice := match fc with CIp6 c => c | _ => mkIp6 [] [] None end.
Definition fc_str (fc : fchoice) : schoice := match fc with CStr sc => sc | _ => SQuoted [] end.
Definition fc_proto (fc : fchoice) : pchoice := match fc with CProto pc => pc | _ => PNum i_plain end.

Definition render_field (fc : fchoice) (f : fval) : bytes :=
  match f with
  | VName ls => render_name (fc_name fc) ls
  | VU16 n | VU32 n => render_uint (fc_int fc) n
  | VOct n => render_oct (fc_int fc) n
  | VIp4 a b c d => render_ip4 a b c d
  | VIp6 gs => render_ip6 (fc_ip6 fc) gs
  | VStr s => render_string (fc_str fc) s
  | VProto p => render_proto (fc_proto fc) p
  | VPort p => render_uint (fc_int fc) p
  end.

Definition field_ok (first : bool) (origin : option (list label)) (fc : fchoice) (f : fval) : bool :=
  match f, fc with
  | VName ls, CName nc => name_ok first false origin nc ls
  | VU16 n, CInt ic => uint_ok 65535 ic n
  | VU32 n, CInt ic => uint_ok 4294967295 ic n
  | VOct n, CInt ic => oct_ok ic n
  | VIp4 a b c d, CPlain => ip4_ok a b c d
  | VIp6 gs, CIp6 c => ip6_ok c gs
  | VStr s, CStr sc => string_ok first sc s
  | VProto p, CProto pc => proto_ok pc p
  | VPort p, CInt ic => uint_ok 65535 ic p
  | _, _ => false
  end.

(* does the token end by itself (closing quote), so that no separator is needed after it? *)
Definition field_closed (fc : fchoice) (f : fval) : bool :=
  match f, fc with VStr _, CStr (SQuoted _) => true | _, _ => false end.

Inductive fkind := KName | KU16 | KU32 | KOct | KIp4 | KIp6 | KStr | KProto | KPort.
Definition kind_of (f : fval) : fkind :=
  match f with
  | VName _ => KName | VU16 _ => KU16 | VU32 _ => KU32 | VOct _ => KOct
  | VIp4 _ _ _ _ => KIp4 | VIp6 _ => KIp6 | VStr _ => KStr | VProto _ => KProto | VPort _ => KPort
  end.
Definition fkind_eqb (a b : fkind) : bool :=
  match a, b with
  | KName, KName | KU16, KU16 | KU32, KU32 | KOct, KOct | KIp4, KIp4 | KIp6, KIp6 | KStr, KStr
  | KProto, KProto | KPort, KPort => true
  | _, _ => false
  end.
Fixpoint kinds_eqb (a b : list fkind) : bool :=
  match a, b with
  | [], [] => true
  | x :: a', y :: b' => fkind_eqb x y && kinds_eqb a' b'
  | _, _ => false
  end.

(* RFC 1035 §3.3, §3.4, RFC 3596 §2.2, RFC 2782: the RDATA fields of the types with a presentation
   format of their own; TXT is one or more strings, WKS (class IN) an address, a protocol and any number of
   ports; every other type has only the RFC 3597 form *)
Definition name_types : list N := [2; 3; 4; 5; 7; 8; 9; 12].                 (* NS MD MF CNAME MB MG MR PTR *)
Inductive rform := FFixed (ks : list fkind) | FTxt | FWks | FNone.
Definition rform_of (class type : N) : rform :=
  if existsb (N.eqb type) name_types then FFixed [KName]
  else if (type =? 1) && (class =? 1) then FFixed [KIp4]
  else if (type =? 1) && (class =? 3) then FFixed [KName; KOct]
  else if type =? 6 then FFixed [KName; KName; KU32; KU32; KU32; KU32; KU32]
  else if (type =? 11) && (class =? 1) then FWks
  else if type =? 13 then FFixed [KStr; KStr]
  else if type =? 14 then FFixed [KName; KName]
  else if type =? 15 then FFixed [KU16; KName]
  else if type =? 16 then FTxt
  else if (type =? 28) && (class =? 1) then FFixed [KIp6]
  else if (type =? 33) && (class =? 1) then FFixed [KU16; KU16; KU16; KName]
  else FNone.

(* RFC 1035 §3.4.2 <BIT MAP>: one bit per port, as many octets as the highest port needs.  Bits are numbered
   as everywhere in the RFC (§2.3.2: the bit labelled 0 is the most significant one): port 8k+b is the bit
   0x80 >> b of octet k, e.g. port 25 is 0x40 of the fourth octet.  The implementation numbers them from the
   least significant bit (known finding C23-1); [BitOrder] lets the theorems be stated for both. *)
Class BitOrder := wks_mask : N -> N.                          (* the mask of the port that is b modulo 8 *)
Definition rfc_order : BitOrder := fun b => 2 ^ (7 - b).
Definition impl_order : BitOrder := fun b => 2 ^ b.           (* src/rr/rdata/std13.rs serialize_in_wks as it is *)

Definition ports_of (fs : list fval) : list N := flat_map (fun f => match f with VPort p => [p] | _ => [] end) fs.
Section Order.
Context {bo : BitOrder}.

Definition wks_octet (ports : list N) (i : N) : N :=
  fold_left N.lor (map (fun p => if p / 8 =? i then wks_mask (p mod 8) else 0) ports) 0.
Definition wks_len (ports : list N) : nat :=
  match ports with [] => O | _ => S (N.to_nat (fold_right N.max 0 ports / 8)) end.
Definition wks_bitmap (ports : list N) : bytes := map (fun i => wks_octet ports (N.of_nat i)) (seq 0 (wks_len ports)).

Inductive ardata :=
| AFields (fs : list fval)              (* a type with its own syntax: the values of its fields *)
| AGeneric (data : bytes).              (* any other type: the octets *)

Definition rdata_wire (d : ardata) : bytes :=
  match d with
  | AFields fs => match ports_of fs with [] => flat_map field_wire fs | ps => flat_map field_wire fs ++ wks_bitmap ps end
  | AGeneric data => data
  end.

(* the value of a field is in range *)
Definition value_ok (f : fval) : bool :=
  match f with
  | VName ls => good_labels_b ls
  | VU16 n | VOct n => n <=? 65535
  | VU32 n => n <=? 4294967295
  | VIp4 a b c d => ip4_ok a b c d
  | VIp6 gs => (length gs =? 8)%nat && forallb (fun g => g <? 65536) gs
  | VStr s => (length s <=? 255)%nat && forallb (fun c => c <? 256) s
  | VProto p => p <=? 255
  | VPort p => p <=? 65535
  end.

Definition fields_fit (class type : N) (fs : list fval) : bool :=
  forallb value_ok fs &&
  match rform_of class type with
  | FFixed ks => kinds_eqb (map kind_of fs) ks
  | FTxt => negb (kinds_eqb (map kind_of fs) []) && forallb (fun f => fkind_eqb (kind_of f) KStr) fs
  | FWks =>
    match fs with
    | f1 :: f2 :: ports =>
      fkind_eqb (kind_of f1) KIp4 && fkind_eqb (kind_of f2) KProto && forallb (fun f => fkind_eqb (kind_of f) KPort) ports
      && (N.of_nat (length ports) <=? 65535)
    | _ => false
    end
  | FNone => false
  end.

Definition rdata_fits (class type : N) (d : ardata) : bool :=
  match d with
  | AFields fs => fields_fit class type fs
  | AGeneric _ =>
    match rform_of class type with FNone => true | _ => false end
  end.

(* presentation of the RDATA: the type's own fields, each preceded by a separator, or RFC 3597 §5
   "\# length hex...": per octet an optional word break before it and the case of its two digits *)
Inductive dchoice :=
| DFields (cs : list (sep * fchoice))
| DGeneric (s0 : sep) (s1 : sep) (ic : ichoice) (ws : list (option sep * bool * bool)).

(* the class of known finding C23-1: a WKS record written in its own syntax that lists at least one port *)
Definition wks_listed (dc : dchoice) (d : ardata) : bool :=
  match dc, d with
  | DFields _, AFields fs => match ports_of fs with [] => false | _ => true end
  | _, _ => false
  end.

Fixpoint render_fields (cs : list (sep * fchoice)) (fs : list fval) : bytes :=
  match fs with
  | [] => []
  | f :: fs' =>
    render_sep (fst (hd (sep_none, CPlain) cs)) ++ render_field (snd (hd (sep_none, CPlain) cs)) f
    ++ render_fields (tl cs) fs'
  end.

Definition render_hex_octet (w : option sep * bool * bool) (o : N) : bytes :=
  match w with
  | (so, u1, u2) =>
    match so with Some s => render_sep s | None => [] end ++ [hexdig u1 (o / 16); hexdig u2 (o mod 16)]
  end.
Fixpoint render_hex (ws : list (option sep * bool * bool)) (data : bytes) : bytes :=
  match data with
  | [] => []
  | o :: data' => render_hex_octet (hd (None, false, false) ws) o ++ render_hex (tl ws) data'
  end.

Definition render_rdata (dc : dchoice) (d : ardata) : bytes :=
  match dc, d with
  | DFields cs, AFields fs => render_fields cs fs
  | DFields _, AGeneric _ => []
  | DGeneric s0 s1 ic ws, _ =>
    render_sep s0 ++ bh ++ render_sep s1 ++ render_uint ic (N.of_nat (length (rdata_wire d)))
    ++ render_hex ws (rdata_wire d)
  end.

(* legality; returns the parenthesis state after the RDATA.  A separator may be empty only after a
   token that closes itself (a quoted string). [closed]: the previous token was such a token. *)
Definition sep_ok (p closed : bool) (s : sep) : option bool :=
  if sep_empty s && negb closed then None else sep_paren p s.

Fixpoint fields_ok (origin : option (list label)) (first closed p : bool) (cs : list (sep * fchoice)) (fs : list fval)
  : option bool :=
  match fs with
  | [] => Some p
  | f :: fs' =>
    let c := hd (sep_none, CPlain) cs in
    match sep_ok p closed (fst c) with
    | Some p' =>
      if field_ok first origin (snd c) f
      then fields_ok origin false (field_closed (snd c) f) p' (tl cs) fs'
      else None
    | None => None
    end
  end.

(* the first word break is mandatory (it separates the data from the length) *)
Fixpoint hex_ok (must : bool) (p : bool) (ws : list (option sep * bool * bool)) (data : bytes) : option bool :=
  match data with
  | [] => Some p
  | o :: data' =>
    if o <? 256 then
      match fst (fst (hd (None, false, false) ws)) with
      | Some s => match sep_ok p false s with Some p' => hex_ok false p' (tl ws) data' | None => None end
      | None => if must then None else hex_ok false p (tl ws) data'
      end
    else None
  end.

Definition rdata_ok (origin : option (list label)) (p : bool) (class type : N) (dc : dchoice) (d : ardata)
  : option bool :=
  if rdata_fits class type d && (N.of_nat (length (rdata_wire d)) <=? 65535) then
    match dc, d with
    | DFields cs, AFields fs => fields_ok origin true false p cs fs
    | DFields _, AGeneric _ => None
    | DGeneric s0 s1 ic ws, _ =>
      match sep_ok p false s0 with
      | Some p0 =>
        match sep_ok p0 false s1 with
        | Some p1 =>
          if uint_ok 65535 ic (N.of_nat (length (rdata_wire d))) then hex_ok true p1 ws (rdata_wire d) else None
        | None => None
        end
      | None => None
      end
    end
  else None.

(* ---- a resource record line ----------------------------------------------------------------------------------- *)

Record arec := mkArec { a_owner : list label; a_ttl : N; a_class : N; a_type : N; a_rdata : ardata }.

(* the context a line is read in (RFC 1035 §5.1, RFC 2308 §4) *)
Record sctx := mkSctx {
  x_origin : option (list label); x_owner : option (list label); x_ttl : option N;
  x_class : option N; x_default : option N }.
Definition sctx0 : sctx := mkSctx None None None None None.

(* RFC 2181 §8: a TTL with the most significant bit set is treated as zero *)
Definition ttl_denote (raw : N) : N := if raw <=? 2147483647 then raw else 0.

(* which of TTL and class are written, in which order; [raw] is the number written for the TTL *)
Inductive tcchoice :=
| TcNone
| TcT (raw : N) (ic : ichoice) (s : sep)
| TcC (sc : symchoice) (s : sep)
| TcTC (raw : N) (ic : ichoice) (s1 : sep) (sc : symchoice) (s2 : sep)
| TcCT (sc : symchoice) (s1 : sep) (raw : N) (ic : ichoice) (s2 : sep).

Record rchoice := mkRc {
  rc_lead : sep;                          (* before the first token; beginning with a blank = owner omitted *)
  rc_owner : option (nchoice * sep);      (* None = omitted (the previous owner) *)
  rc_tc : tcchoice;
  rc_type : symchoice;
  rc_rdata : dchoice;
  rc_end : eolc }.

Definition render_class := render_sym spec_classes spec_class_prefix.
Definition render_type := render_sym spec_types spec_type_prefix.

Definition render_tc (tc : tcchoice) (class : N) : bytes :=
  match tc with
  | TcNone => []
  | TcT raw ic s => render_uint ic raw ++ render_sep s
  | TcC sc s => render_class sc class ++ render_sep s
  | TcTC raw ic s1 sc s2 => render_uint ic raw ++ render_sep s1 ++ render_class sc class ++ render_sep s2
  | TcCT sc s1 raw ic s2 => render_class sc class ++ render_sep s1 ++ render_uint ic raw ++ render_sep s2
  end.

Definition render_record (rc : rchoice) (r : arec) : bytes :=
  render_sep (rc_lead rc)
  ++ match rc_owner rc with Some (nc, s) => render_name nc (a_owner r) ++ render_sep s | None => [] end
  ++ render_tc (rc_tc rc) (a_class r)
  ++ render_type (rc_type rc) (a_type r)
  ++ render_rdata (rc_rdata rc) (a_rdata r)
  ++ render_eol (rc_end rc).

Definition opt_eqb (o : option N) (v : N) : bool := match o with Some x => x =? v | None => false end.
Definition default_or_previous (x : sctx) : option N :=
  match x_default x with Some t => Some t | None => x_ttl x end.

Definition ttl_shown_ok (raw : N) (ic : ichoice) (r : arec) : bool :=
  uint_ok 4294967295 ic raw && (ttl_denote raw =? a_ttl r).
Definition class_shown_ok (sc : symchoice) (r : arec) : bool := sym_ok spec_classes sc (a_class r).

Definition tc_ok (x : sctx) (p : bool) (tc : tcchoice) (r : arec) : option bool :=
  match tc with
  | TcNone => if opt_eqb (default_or_previous x) (a_ttl r) && opt_eqb (x_class x) (a_class r) then Some p else None
  | TcT raw ic s =>
    if ttl_shown_ok raw ic r && opt_eqb (x_class x) (a_class r) then sep_ok p false s else None
  | TcC sc s =>
    if class_shown_ok sc r && opt_eqb (default_or_previous x) (a_ttl r) then sep_ok p false s else None
  | TcTC raw ic s1 sc s2 =>
    if ttl_shown_ok raw ic r && class_shown_ok sc r then
      match sep_ok p false s1 with Some p1 => sep_ok p1 false s2 | None => None end
    else None
  | TcCT sc s1 raw ic s2 =>
    if ttl_shown_ok raw ic r && class_shown_ok sc r then
      match sep_ok p false s1 with Some p1 => sep_ok p1 false s2 | None => None end
    else None
  end.

(* NULL, OPT and TSIG records cannot be written in a zone file *)
Definition type_allowed_b (t : N) : bool := negb ((t =? 10) || (t =? 41) || (t =? 250)).

Definition record_ok (x : sctx) (rc : rchoice) (r : arec) : bool :=
  match sep_paren false (rc_lead rc) with
  | None => false
  | Some p0 =>
    match
      match rc_owner rc with
      | None => if sep_lead_blank (rc_lead rc) && opt_lbeq (x_owner x) (a_owner r) then Some p0 else None
      | Some (nc, s) =>
        if negb (sep_lead_blank (rc_lead rc)) && name_ok false true (x_origin x) nc (a_owner r)
        then sep_ok p0 false s else None
      end
    with
    | None => false
    | Some p1 =>
      good_labels_b (a_owner r) && (a_ttl r <=? 2147483647) && (a_class r <=? 65535) &&
      match tc_ok x p1 (rc_tc rc) r with
      | None => false
      | Some p2 =>
        sym_ok spec_types (rc_type rc) (a_type r) && type_allowed_b (a_type r) &&
        match rdata_ok (x_origin x) p2 (a_class r) (a_type r) (rc_rdata rc) (a_rdata r) with
        | None => false
        | Some p3 => eol_ok p3 (rc_end rc)
        end
      end
    end
  end.

Definition after_record (x : sctx) (r : arec) : sctx :=
  mkSctx (x_origin x) (Some (a_owner r)) (Some (a_ttl r)) (Some (a_class r)) (x_default x).

(* ---- whole files ------------------------------------------------------------------------------------------------- *)

Definition d_origin_s : bytes := [36; 79; 82; 73; 71; 73; 78].          (* $ORIGIN *)
Definition d_ttl_s : bytes := [36; 84; 84; 76].                          (* $TTL *)
Definition d_include_s : bytes := [36; 73; 78; 67; 76; 85; 68; 69].      (* $INCLUDE *)

Definition quoted (sc : schoice) : bool := match sc with SQuoted _ => true | SUnquoted _ => false end.

Inductive aline :=
| LRecord (rc : rchoice) (r : arec)
| LBlank (e : eolc)                                                     (* blanks, parentheses, a comment *)
| LOrigin (lows : list bool) (s : sep) (nc : nchoice) (ls : list label) (e : eolc)
| LTtl (lows : list bool) (s : sep) (ic : ichoice) (raw : N) (e : eolc)
(* $INCLUDE <file-name> [<domain-name>]: reported to the caller, who reads the file *)
| LInclude (lows : list bool) (s : sep) (pc : schoice) (path : bytes) (org : option (sep * nchoice * list label)) (e : eolc).

Definition render_org (org : option (sep * nchoice * list label)) : bytes :=
  match org with Some (s2, nc, ls) => render_sep s2 ++ render_name nc ls | None => [] end.

Definition render_line (l : aline) : bytes :=
  match l with
  | LRecord rc r => render_record rc r
  | LBlank e => render_eol e
  | LOrigin lows s nc ls e => apply_case lows d_origin_s ++ render_sep s ++ render_name nc ls ++ render_eol e
  | LTtl lows s ic raw e => apply_case lows d_ttl_s ++ render_sep s ++ render_uint ic raw ++ render_eol e
  | LInclude lows s pc path org e =>
    apply_case lows d_include_s ++ render_sep s ++ render_string pc path ++ render_org org ++ render_eol e
  end.

Definition line_end (l : aline) : eolc :=
  match l with
  | LRecord rc _ => rc_end rc | LBlank e => e | LOrigin _ _ _ _ e => e | LTtl _ _ _ _ e => e
  | LInclude _ _ _ _ _ e => e
  end.

(* a file name: like a <character-string> but of up to 65536 octets (the parser's limit) *)
Definition path_ok (pc : schoice) (path : bytes) : bool :=
  (N.of_nat (length path) <=? 65536) &&
  match pc with
  | SQuoted es => octets_ok KQuoted es path
  | SUnquoted es => octets_ok KUnquoted es path && negb (beq path []) && negb (head_is 34 (render_octets es path))
  end.

Definition line_ok (x : sctx) (l : aline) : bool :=
  match l with
  | LRecord rc r => record_ok x rc r
  | LBlank e => eol_ok false e
  | LOrigin _ s nc ls e =>
    match sep_ok false false s with
    | Some p => name_ok false false (x_origin x) nc ls && eol_ok p e
    | None => false
    end
  | LTtl _ s ic raw e =>
    match sep_ok false false s with
    | Some p => uint_ok 4294967295 ic raw && eol_ok p e
    | None => false
    end
  | LInclude _ s pc path org e =>
    match sep_ok false false s with
    | Some p =>
      path_ok pc path &&
      match org with
      | None => eol_ok p e
      | Some (s2, nc, ls) =>
        match sep_ok p (quoted pc) s2 with
        | Some p2 => name_ok false false (x_origin x) nc ls && eol_ok p2 e
        | None => false
        end
      end
    | None => false
    end
  end.

Definition after_line (x : sctx) (l : aline) : sctx :=
  match l with
  | LRecord _ r => after_record x r
  | LBlank _ => x
  | LOrigin _ _ _ ls _ => mkSctx (Some ls) (x_owner x) (x_ttl x) (x_class x) (x_default x)
  | LTtl _ _ _ raw _ => mkSctx (x_origin x) (x_owner x) (x_ttl x) (x_class x) (Some (ttl_denote raw))
  | LInclude _ _ _ _ _ _ => x
  end.

Fixpoint render_file (ls : list aline) : bytes :=
  match ls with
  | [] => []
  | l :: ls' => render_line l ++ render_file ls'
  end.

(* only the last line may end at the end of the file instead of a line break *)
Fixpoint file_ok (x : sctx) (ls : list aline) : bool :=
  match ls with
  | [] => true
  | l :: ls' =>
    line_ok x l && (match ls' with [] => true | _ => negb (term_eof (e_term (line_end l))) end)
    && file_ok (after_line x l) ls'
  end.

(* what the parser reports: a record, or an $INCLUDE directive with the origin the included file is to be
   read with (the one given, else the current one) *)
Inductive aitem := IRecord (r : arec) | IInclude (path : bytes) (origin : option (list label)).

(* what the file means: its records and $INCLUDE directives in order, each with the number of the line it
   starts on (1 + the LF octets before it) *)
Fixpoint denote (x : sctx) (line : N) (ls : list aline) : list (N * aitem) :=
  match ls with
  | [] => []
  | l :: ls' =>
    let rest := denote (after_line x l) (line + count_nl (render_line l)) ls' in
    match l with
    | LRecord _ r => (line, IRecord r) :: rest
    | LInclude _ _ _ path org _ =>
      (line, IInclude path (match org with Some (_, _, ls) => Some ls | None => x_origin x end)) :: rest
    | _ => rest
    end
  end.

Definition render (ls : list aline) : bytes := render_file ls.
Definition number_lines (ls : list aline) : list (N * aitem) := denote sctx0 1 ls.

End Order.

Definition line_wks_listed (l : aline) : bool :=
  match l with LRecord rc r => wks_listed (rc_rdata rc) (a_rdata r) | _ => false end.
(* no WKS record of the file lists ports in the WKS syntax (the \# form and an empty port list are fine) *)
Definition wks_free (ls : list aline) : bool := forallb (fun l => negb (line_wks_listed l)) ls.
