(* Independent specification of RDATA equality (C19), from RFC 3597 §6 / RFC 1035 §2.3.3:
   RDATA compare octet-wise, except that the domain names embedded in the RDATA of
   the types that predate RFC 3597 compare ASCII-case-insensitively (label by label)
   — which only makes sense when both RDATA are well formed; when either is not, the
   comparison is octet-wise.  [nodup_by] is what an RRset keeps. *)
From QV Require Export Base.Res Base.Octets Spec.NameWireS Spec.RdataFormatS.

Fixpoint octets_eqb (a b : bytes) : bool :=
  match a, b with
  | [], [] => true
  | x :: a', y :: b' => (x =? y)%N && octets_eqb a' b'
  | _, _ => false
  end.

(* one label against another, ASCII letters compared without case *)
Fixpoint label_ci_eqb (a b : label) : bool :=
  match a, b with
  | [], [] => true
  | x :: a', y :: b' => (lower x =? lower y)%N && label_ci_eqb a' b'
  | _, _ => false
  end.

Fixpoint labels_ci_eqb (a b : list label) : bool :=
  match a, b with
  | [], [] => true
  | x :: a', y :: b' => label_ci_eqb x y && labels_ci_eqb a' b'
  | _, _ => false
  end.

(* Types with embedded names that predate RFC 3597: NS MD MF CNAME SOA MB MG MR PTR
   MINFO MX (RFC 1035), A in class CH (RFC 1034), SRV in class IN (RFC 2782). *)
Definition ci_type (c t : N) : bool :=
  one_of t [2; 3; 4; 5; 6; 7; 8; 9; 12; 14; 15]%N ||
  ((c =? 3)%N && (t =? 1)%N) || ((c =? 1)%N && (t =? 33)%N).

(* field-wise comparison of two RDATA of the same format: names by labels without
   case, everything else octet-wise *)
Fixpoint ci_fields (g : list field) (a b : bytes) : bool :=
  match g with
  | [] => octets_eqb a b
  | FName :: g' =>
    match spec_decode_name a 0, spec_decode_name b 0 with
    | Some (la, na), Some (lb, nb) =>
      labels_ci_eqb la lb && ci_fields g' (skipn na a) (skipn nb b)
    | _, _ => false
    end
  | FBytes n :: g' =>
    octets_eqb (firstn n a) (firstn n b) && ci_fields g' (skipn n a) (skipn n b)
  | _ => octets_eqb a b
  end.

Definition spec_equals (c t : N) (a b : bytes) : bool :=
  if ci_type c t && spec_valid c t a && spec_valid c t b
  then ci_fields (grammar c t) a b
  else octets_eqb a b.

(* first member of each class, in order of first appearance *)
Fixpoint nodup_by (eq : bytes -> bytes -> bool) (seen : list bytes) (l : list bytes) : list bytes :=
  match l with
  | [] => []
  | x :: r =>
    if existsb (fun y => eq x y) seen then nodup_by eq seen r
    else x :: nodup_by eq (seen ++ [x]) r
  end.
