(* What the two former parameters of the zone-store specification ARE, written from the RFCs
   (nothing here mentions the implementation's models):

   * RDATA equality of an RRset (RFC 2181 §5: no two records of an RRset have the same RDATA;
     RFC 3597 §6 / RFC 4034 §6.2: names embedded in the RDATA of the RFC 1035 types compare
     without ASCII case): [RdataEqS.spec_equals], the characterisation C19 is about;
   * "this RDATA is a domain name" (NSDNAME of NS, EXCHANGE of MX after the 16-bit preference:
     RFC 1035 §3.3.11, §3.3.9): the whole octet string is one uncompressed name — the C14 decoding
     relation at offset 0 (where no compression pointer can be valid) consuming every octet. *)
From QV Require Import Base.Res Base.Octets Spec.NameWireS.
From QV Require Spec.RdataEqS.

Definition spec_req : N -> N -> bytes -> bytes -> bool := RdataEqS.spec_equals.

Definition rdata_is_name (rd : bytes) (ls : list label) : Prop :=
  decodes_uncompressed rd ls (length rd).

(* executable twin (spec_decode_name is C14's oracle, proved equal to the relation) *)
Definition spec_rdata_name (rd : bytes) : option (list label) :=
  match spec_decode_name rd 0 with
  | Some (ls, l) => if l =? length rd then Some ls else None
  | None => None
  end.
