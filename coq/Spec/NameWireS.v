(* Independent specification of RFC 1035 §3.1 / §4.1.4 name decoding.
   A name is the list of its non-root labels.  [decodes b cs i ls e] reads:
   "decoding at offset i of message b, inside a label sequence that started at
   offset cs, yields labels ls, and the contiguous part read at i ends at e".
   Literals 63 / 192 / 255 are the RFC's, deliberately not the regenerated
   constants of the implementation. *)
From QV Require Export Base.Res Base.Octets.

Definition label := bytes.

(* uncompressed wire form: length-prefixed labels, then the root label *)
Definition lwire (ls : list label) : bytes :=
  flat_map (fun l => N.of_nat (length l) :: l) ls.
Definition wire_of (ls : list label) : bytes := lwire ls ++ [0%N].
Definition wire_len (ls : list label) : nat := length (wire_of ls).

Inductive decodes (b : bytes) : nat -> nat -> list label -> nat -> Prop :=
| dec_root : forall cs i,
    nth_error b i = Some 0%N ->
    decodes b cs i [] (i + 1)
| dec_label : forall cs i len rest e,
    nth_error b i = Some len -> (0 < len)%N -> (len <= 63)%N ->
    i + 1 + N.to_nat len <= length b ->
    decodes b cs (i + 1 + N.to_nat len) rest e ->
    decodes b cs i (slice b (i + 1) (i + 1 + N.to_nat len) :: rest) e
| dec_ptr : forall cs i hi lo rest e',
    nth_error b i = Some hi -> (192 <= hi)%N ->
    nth_error b (i + 1) = Some lo ->
    (* the target is a PRIOR occurrence: strictly before the label sequence
       that contains the pointer *)
    N.to_nat ((hi - 192) * 256 + lo) < cs ->
    decodes b (N.to_nat ((hi - 192) * 256 + lo)) (N.to_nat ((hi - 192) * 256 + lo)) rest e' ->
    decodes b cs i rest (i + 2).

(* A (possibly compressed) name at [start]: labels and first-chunk length. *)
Definition decodes_name (b : bytes) (start : nat) (ls : list label) (len : nat) : Prop :=
  exists e, decodes b start start ls e /\ len = e - start /\ wire_len ls <= 255.

(* An uncompressed name at the start of b: no offset is before 0, so the pointer
   rule can never fire. *)
Definition decodes_uncompressed (b : bytes) (ls : list label) (len : nat) : Prop :=
  decodes b 0 0 ls len /\ wire_len ls <= 255.


(* Executable twin of [decodes] (+ the 255-octet bound), used as the property
   oracle on implementation output.  [budget] is the number of wire octets still
   allowed; [sdecode_iff] in Proofs/NameWireSpec.v proves it equivalent to the
   relation for sufficient fuel. *)
Fixpoint sdecode (fuel : nat) (b : bytes) (cs i budget : nat) : option (list label * nat) :=
  match fuel with
  | O => None
  | S f =>
    match nth_error b i with
    | None => None
    | Some len =>
      if (len =? 0)%N then (if 1 <=? budget then Some ([], i + 1) else None)
      else if (len <=? 63)%N then
        let e := i + 1 + N.to_nat len in
        if (e <=? length b) && (1 + N.to_nat len <=? budget) then
          match sdecode f b cs e (budget - (1 + N.to_nat len)) with
          | Some (r, e') => Some (slice b (i + 1) e :: r, e')
          | None => None
          end
        else None
      else if (192 <=? len)%N then
        match nth_error b (i + 1) with
        | None => None
        | Some lo =>
          let t := N.to_nat ((len - 192) * 256 + lo) in
          if t <? cs then
            match sdecode f b t t budget with
            | Some (r, _) => Some (r, i + 2)
            | None => None
            end
          else None
        end
      else None
    end
  end.

Definition spec_decode_name (b : bytes) (start : nat) : option (list label * nat) :=
  match sdecode (S (256 + start)) b start start 255 with
  | Some (ls, e) => Some (ls, e - start)
  | None => None
  end.
