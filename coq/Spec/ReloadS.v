(* Independent specification of a zone reload (property C31), written from the property
   text, not from zones.rs:

   After a reload, what the server holds for a key (class, lower-cased name) depends ONLY
   on how THAT zone is configured and what THAT zone's file looks like now, and on what was
   held for EXACTLY THAT key before:
     * the key is not configured            -> nothing (the zone is no longer served);
     * its file is unchanged on disk (same path, modification time not newer than the one
       recorded when the served data was loaded)
                                            -> what was served stays;
     * its file loads and validates         -> the newly loaded data;
     * otherwise (cannot be read / parsed / validated)
                                            -> what was held before, if that was loaded data;
                                               else the zone is "unserved" (SERVFAIL).
   "Loads" means: the modification time can be obtained (or the platform does not support
   modification times) AND the file parses and validates; a file whose metadata cannot be read
   counts as failing.  Nothing here mentions other zones, parents, children or trees. *)
From QV Require Export Base.Res Base.Octets.
From QV Require Import Spec.CatTreeS.

(* what is held for one key, as far as serving and the next reload are concerned *)
Inductive served :=
| SGone                                           (* no entry: queries are REFUSED or fall to an ancestor zone *)
| SUnserved                                       (* placeholder: SERVFAIL *)
| SLoaded (z : N) (path : N) (mtime : option N).  (* data z, loaded from path, file time then *)

Inductive s_mtime := SmOk (t : N) | SmUnsupported | SmErr.

(* one configured zone together with the present state of its file *)
Record s_zone := mkSZone {
  sz_key : skey;
  sz_path : N;
  sz_mtime : s_mtime;
  sz_load : option N      (* Some z: the file parses and validates to z *)
}.

Definition unchanged (z : s_zone) (prev : served) : bool :=
  match prev, sz_mtime z with
  | SLoaded _ p0 (Some t0), SmOk t => (p0 =? sz_path z)%N && (t <=? t0)%N
  | _, _ => false
  end.

Definition fresh (z : s_zone) : option served :=
  match sz_mtime z, sz_load z with
  | SmOk t, Some d => Some (SLoaded d (sz_path z) (Some t))
  | SmUnsupported, Some d => Some (SLoaded d (sz_path z) None)
  | _, _ => None
  end.

Definition fallback (prev : served) : served :=
  match prev with
  | SLoaded _ _ _ => prev
  | _ => SUnserved
  end.

Definition spec_zone (z : s_zone) (prev : served) : served :=
  if unchanged z prev then prev
  else match fresh z with
       | Some s => s
       | None => fallback prev
       end.

Definition has_skey (k : skey) (z : s_zone) : bool := if skey_eq_dec (sz_key z) k then true else false.

(* the whole reload, key by key *)
Definition spec_reload (zs : list s_zone) (prev : skey -> served) (k : skey) : served :=
  match find (has_skey k) zs with
  | Some z => spec_zone z (prev k)
  | None => SGone
  end.

(* a configuration is admissible if no key is configured twice *)
Definition spec_config_ok (zs : list s_zone) : Prop := NoDup (map sz_key zs).

(* a history of reloads: [None] = the new configuration was rejected, nothing changes *)
Fixpoint spec_history (prev : skey -> served) (h : list (option (list s_zone))) : list (skey -> served) :=
  match h with
  | [] => []
  | None :: h' => prev :: spec_history prev h'
  | Some zs :: h' => let cur := spec_reload zs prev in cur :: spec_history cur h'
  end.
