(* Independent specification of the textual forms of DNS TYPE / CLASS / QTYPE / QCLASS codes
   and of the 4-bit OPCODE / RCODE ranges.  Written from the RFCs, not from the code:

   * the mnemonic tables are literal copies of RFC 1035 §3.2.2-3.2.5 (TYPE 1-16, QTYPE 252-255,
     CLASS IN/CH/HS, QCLASS * ), RFC 3596 (AAAA 28), RFC 2782 (SRV 33), RFC 6891 (OPT 41),
     RFC 8945 (TSIG 250), RFC 1995 (IXFR 251), RFC 2136 (QCLASS NONE 254), with "ANY" as the
     usual second spelling of "*" (RFC 8482);  CS (2) is obsolete and deliberately absent;
   * RFC 3597 §5: an unknown type/class is written "TYPE"/"CLASS" immediately followed by its
     decimal number; mnemonics and the TYPE/CLASS word are case-insensitive;
   * RFC 1035 §4.1.1: OPCODE and RCODE are 4-bit fields; RFC 6895 §2.3: extended RCODEs
     0..15 are the header RCODEs.

   [strict] readings are the RFC's (decimal digits only).  The [lenient] reading additionally
   allows one '+' before the digits, which is what Rust's integer syntax adds; it is the
   exact language the implementation is proved to accept.  No regenerated constant is used here. *)
From Coq Require Import String Ascii.
From QV Require Export Base.Res Base.Octets Model.DecU16.
Open Scope string_scope.

(* the octets of a string literal; the tables below are turned into octet lists once, by
   [Eval compute], so that nothing executable depends on Coq's String module *)
Fixpoint str_octets (s : string) : bytes :=
  match s with
  | EmptyString => []
  | String c r => N_of_ascii c :: str_octets r
  end.
Definition octet_table (l : list (string * N)) : list (bytes * N) := map (fun e => (str_octets (fst e), snd e)) l.

Definition rfc_types_src : list (string * N) :=
  [("A", 1); ("NS", 2); ("MD", 3); ("MF", 4); ("CNAME", 5); ("SOA", 6); ("MB", 7); ("MG", 8);
   ("MR", 9); ("NULL", 10); ("WKS", 11); ("PTR", 12); ("HINFO", 13); ("MINFO", 14); ("MX", 15);
   ("TXT", 16); ("AAAA", 28); ("SRV", 33); ("OPT", 41); ("TSIG", 250)]%N.

Definition rfc_qtypes_only_src : list (string * N) :=
  [("IXFR", 251); ("AXFR", 252); ("MAILB", 253); ("MAILA", 254); ("ANY", 255); ("*", 255)]%N.

Definition rfc_classes_src : list (string * N) := [("IN", 1); ("CH", 3); ("HS", 4)]%N.

Definition rfc_qclasses_only_src : list (string * N) := [("NONE", 254); ("ANY", 255); ("*", 255)]%N.

Definition rfc_types : list (bytes * N) := Eval compute in octet_table rfc_types_src.
Definition rfc_qtypes_only : list (bytes * N) := Eval compute in octet_table rfc_qtypes_only_src.
Definition rfc_classes : list (bytes * N) := Eval compute in octet_table rfc_classes_src.
Definition rfc_qclasses_only : list (bytes * N) := Eval compute in octet_table rfc_qclasses_only_src.
Definition word_type : bytes := Eval compute in str_octets "TYPE".
Definition word_class : bytes := Eval compute in str_octets "CLASS".

Definition lower_str (s : bytes) : bytes := map lower s.

Fixpoint bytes_eqb (a b : bytes) : bool :=
  match a, b with
  | [], [] => true
  | x :: a', y :: b' => (x =? y)%N && bytes_eqb a' b'
  | _, _ => false
  end.

Fixpoint starts_with (s p : bytes) : bool :=
  match p, s with
  | [], _ => true
  | y :: p', x :: s' => (x =? y)%N && starts_with s' p'
  | _ :: _, [] => false
  end.

(* value of a string of decimal digits, most significant first (unbounded) *)
Definition horner (ds : bytes) : N := fold_left (fun a d => (a * 10 + (d - 48))%N) ds 0%N.

(* a decimal number below 2^16: one or more digits (leading zeros allowed); when [lenient],
   optionally preceded by '+' *)
Definition spec_number (lenient : bool) (l : bytes) : option N :=
  let ds := match l with
            | c :: r => if lenient && (c =? 43)%N then r else l
            | [] => l
            end in
  if is_nil ds then None
  else if forallb is_dec_digit ds then
         (if (horner ds <=? 65535)%N then Some (horner ds) else None)
       else None.

Definition lookup_mnemonic (table : list (bytes * N)) (s : bytes) : option N :=
  match find (fun e => bytes_eqb (lower_str s) (lower_str (fst e))) table with
  | Some e => Some (snd e)
  | None => None
  end.

(* what a text denotes: a known mnemonic (any letter case) or WORDnnn (RFC 3597) *)
Definition spec_code (table : list (bytes * N)) (word : bytes) (lenient : bool) (s : bytes) : option N :=
  match lookup_mnemonic table s with
  | Some v => Some v
  | None =>
    if starts_with (lower_str s) (lower_str word)
    then spec_number lenient (skipn (length word) s)
    else None
  end.

Definition spec_type := spec_code rfc_types word_type.
Definition spec_class := spec_code rfc_classes word_class.
Definition spec_qtype := spec_code (rfc_qtypes_only ++ rfc_types)%list word_type.
Definition spec_qclass := spec_code (rfc_qclasses_only ++ rfc_classes)%list word_class.

(* all texts that RFC 3597 / the mnemonic tables allow for a value (upper-case spelling):
   used by the oracle to judge what the implementation renders *)
Definition spec_texts (table : list (bytes * N)) (word : bytes) (v : N) : list bytes :=
  ((word ++ u16_display v)%list) :: map (fun e => fst e) (filter (fun e => (snd e =? v)%N) table).

Definition spec_type_texts := spec_texts rfc_types word_type.
Definition spec_class_texts := spec_texts rfc_classes word_class.
Definition spec_qtype_texts := spec_texts (rfc_qtypes_only ++ rfc_types)%list word_type.
Definition spec_qclass_texts := spec_texts (rfc_qclasses_only ++ rfc_classes)%list word_class.

(* 4-bit header fields *)
Definition spec_is_4bit (v : N) : bool := (v <? 16)%N.
