(* Independent specification of TSIG (RFC 8945), transcribed from the RFC text:
     section 4.2   TSIG RDATA layout
     section 4.3.1 request MAC component      section 4.3.2 DNS message component
     section 4.3.3 TSIG variables             section 4.3.3.1 / 5.3.1 TSIG timers, subsequent messages
     section 5.2   checks on receipt: 5.2.2.1 MAC truncation limits -> FORMERR, 5.2.2 MAC -> BADSIG,
                   5.2.3 time -> BADTIME
   over STRUCTURED values (a message is its header fields plus the octets of its sections, a
   name is a list of labels, integers are numbers), not over the octet buffers the
   implementation manipulates.  All literals (255, 0, 10, 20, 32, field widths) are the RFCs'.
   The MAC function is a parameter: nothing here depends on what HMAC computes. *)
From QV Require Export Base.Res Base.Octets Spec.NameWireS.

(* unsigned big-endian integer of [width] octets (RFC 1035 section 2.3.2) *)
Fixpoint be_enc (width : nat) (n : N) : bytes :=
  match width with
  | O => []
  | S w => be_enc w (n / 256) ++ [(n mod 256)%N]
  end.
Definition u16 := be_enc 2.
Definition u32 := be_enc 4.
Definition u48 := be_enc 6.

(* A domain name is the list of its non-root labels; [wire_of] (Spec/NameWireS.v) is its
   uncompressed wire form.  Canonical form (RFC 4034 section 6.2, referenced by RFC 8945
   section 4.3.3): uncompressed, upper-case US-ASCII letters replaced by lower-case. *)
Definition sname := list label.
Definition canon (n : sname) : sname := map (map lower) n.
Definition canon_wire (n : sname) : bytes := wire_of (canon n).
Definition valid_sname (n : sname) : Prop :=
  Forall (fun l => 1 <= length l <= 63 /\ wf_bytes l) n /\ wire_len n <= 255.

(* RFC 1035 section 4.1.1 header + the sections as they are on the wire.  [m_ar] does NOT
   count the TSIG RR and [m_body] does not contain it: this is "the DNS message before the
   TSIG RR has been added" of section 4.3.2. *)
Record smsg := mkSmsg {
  m_id : N; m_flags : N; m_qd : N; m_an : N; m_ns : N; m_ar : N; m_body : bytes }.

Definition smsg_wire (id ar : N) (m : smsg) : bytes :=
  u16 id ++ u16 (m_flags m) ++ u16 (m_qd m) ++ u16 (m_an m) ++ u16 (m_ns m) ++ u16 ar ++ m_body m.

(* what is transmitted before the TSIG RR: the header carries the (possibly rewritten,
   section 5.5 forwarding) ID [sent_id] and ARCOUNT counts the TSIG RR *)
Definition sent_prefix (sent_id : N) (m : smsg) : bytes := smsg_wire sent_id (m_ar m + 1) m.

Definition wf_smsg (m : smsg) : Prop :=
  (m_flags m < 65536 /\ m_qd m < 65536 /\ m_an m < 65536 /\ m_ns m < 65536 /\ m_ar m + 1 < 65536)%N
  /\ wf_bytes (m_body m).

(* the fields of a TSIG RR (section 4.2) *)
Record stsig := mkStsig {
  t_key : sname;          (* NAME: the key name *)
  t_alg : sname;          (* Algorithm Name *)
  t_time : N;             (* Time Signed, 48 bits *)
  t_fudge : N;            (* Fudge, 16 bits *)
  t_mac : bytes;          (* MAC (MAC Size is its length) *)
  t_orig_id : N;          (* Original ID *)
  t_error : N;            (* Error *)
  t_other : bytes }.      (* Other Data (Other Len is its length) *)

Definition wf_stsig (t : stsig) : Prop :=
  valid_sname (t_key t) /\ valid_sname (t_alg t) /\
  (t_time t < 281474976710656 /\ t_fudge t < 65536 /\ t_orig_id t < 65536 /\ t_error t < 65536)%N /\
  wf_bytes (t_mac t) /\ wf_bytes (t_other t) /\
  (N.of_nat (length (t_mac t)) < 65536)%N /\ (N.of_nat (length (t_other t)) < 65536)%N /\
  (N.of_nat (wire_len (t_alg t) + 16 + length (t_mac t) + length (t_other t)) <= 65535)%N.

(* section 4.2: RDATA *)
Definition spec_rdata (t : stsig) : bytes :=
  wire_of (t_alg t) ++ u48 (t_time t) ++ u16 (t_fudge t)
  ++ u16 (N.of_nat (length (t_mac t))) ++ t_mac t
  ++ u16 (t_orig_id t) ++ u16 (t_error t)
  ++ u16 (N.of_nat (length (t_other t))) ++ t_other t.

(* section 4.2: the RR: NAME, TYPE TSIG (250), CLASS ANY (255), TTL 0, RDLENGTH, RDATA *)
Definition spec_tsig_rr (t : stsig) : bytes :=
  wire_of (t_key t) ++ u16 250 ++ u16 255 ++ u32 0
  ++ u16 (N.of_nat (length (spec_rdata t))) ++ spec_rdata t.

(* RFC 6891 section 6.1.2: the OPT pseudo-RR without options: NAME root, TYPE 41, CLASS = requestor's UDP
   payload size, TTL = EXTENDED-RCODE (8 bits) | VERSION (8, here 0) | DO and Z (16, here 0), RDLEN 0.
   It is an ordinary member of the additional section as far as RFC 8945 4.3.2 is concerned: it precedes
   the TSIG RR, so it is part of "the DNS message" that is digested, and ARCOUNT counts it. *)
Definition spec_opt_rr (payload ext_rcode_upper : N) : bytes :=
  [0%N] ++ u16 41 ++ u16 payload ++ be_enc 1 ext_rcode_upper ++ be_enc 1 0 ++ u16 0 ++ u16 0.

(* the message [m] with an OPT RR appended to its sections ([m_ar] must already count it) *)
Definition with_opt (m : smsg) (payload ext_rcode_upper : N) : smsg :=
  mkSmsg (m_id m) (m_flags m) (m_qd m) (m_an m) (m_ns m) (m_ar m) (m_body m ++ spec_opt_rr payload ext_rcode_upper).

(* ---- digest components (section 4.3) ---------------------------------------------------- *)

(* 4.3.1: "the request's MAC, including the MAC length field" *)
Definition comp_prior_mac (mac : bytes) : bytes := u16 (N.of_nat (length mac)) ++ mac.

(* 4.3.2: the message before the TSIG RR was added, ARCOUNT not yet incremented, original ID *)
Definition comp_message (m : smsg) (orig_id : N) : bytes := smsg_wire orig_id (m_ar m) m.

(* 4.3.3: NAME, CLASS, TTL, Algorithm Name, Time Signed, Fudge, Error, Other Len, Other Data *)
Definition comp_variables (t : stsig) : bytes :=
  canon_wire (t_key t) ++ u16 255 ++ u32 0 ++ canon_wire (t_alg t)
  ++ u48 (t_time t) ++ u16 (t_fudge t) ++ u16 (t_error t)
  ++ u16 (N.of_nat (length (t_other t))) ++ t_other t.

(* 4.3.3.1: Time Signed, Fudge *)
Definition comp_timers (t : stsig) : bytes := u48 (t_time t) ++ u16 (t_fudge t).

Inductive dmode :=
| DRequest                               (* a request: message, variables *)
| DResponse (request_mac : bytes)        (* a response: request MAC, message, variables *)
| DSubsequent (prior_mac : bytes).       (* 5.3.1: prior MAC, message, timers *)

Definition spec_digest (d : dmode) (m : smsg) (t : stsig) : bytes :=
  match d with
  | DRequest => comp_message m (t_orig_id t) ++ comp_variables t
  | DResponse rm => comp_prior_mac rm ++ comp_message m (t_orig_id t) ++ comp_variables t
  | DSubsequent pm => comp_prior_mac pm ++ comp_message m (t_orig_id t) ++ comp_timers t
  end.

(* ---- algorithms (section 6: the two mandatory ones) ----------------------------------------- *)

Inductive salg := SSha1 | SSha256.
(* "hmac-sha1", "hmac-sha256" *)
Definition salg_name (a : salg) : sname :=
  match a with
  | SSha1 => [[104; 109; 97; 99; 45; 115; 104; 97; 49]%N]
  | SSha256 => [[104; 109; 97; 99; 45; 115; 104; 97; 50; 53; 54]%N]
  end.
(* output length in octets: SHA-1 160 bits, SHA-256 256 bits *)
Definition salg_out (a : salg) : nat := match a with SSha1 => 20 | SSha256 => 32 end.

(* ---- verification (section 5.2) ----------------------------------------------------------- *)

(* 5.2.2.1: "a MAC size greater than the output of the algorithm, or less than the larger of
   10 octets and half the length of the hash function in use" is a format error *)
Definition mac_len_ok (a : salg) (n : nat) : Prop := n <= salg_out a /\ 10 <= n /\ salg_out a <= 2 * n.
Definition mac_len_okb (a : salg) (n : nat) : bool :=
  (n <=? salg_out a) && (10 <=? n) && (salg_out a <=? 2 * n).

(* 5.2.3: "Time Signed - Fudge <= now <= Time Signed + Fudge" over the integers *)
Definition time_ok (t : stsig) (now : N) : Prop :=
  (Z.of_N (t_time t) - Z.of_N (t_fudge t) <= Z.of_N now <= Z.of_N (t_time t) + Z.of_N (t_fudge t))%Z.
Definition time_okb (t : stsig) (now : N) : bool :=
  ((Z.of_N (t_time t) - Z.of_N (t_fudge t) <=? Z.of_N now) &&
   (Z.of_N now <=? Z.of_N (t_time t) + Z.of_N (t_fudge t)))%Z.

Fixpoint octets_eqb (a b : bytes) : bool :=
  match a, b with
  | [], [] => true
  | x :: a', y :: b' => (x =? y)%N && octets_eqb a' b'
  | _, _ => false
  end.

Inductive sresult := SOk | SFormErr | SBadSig | SBadTime.

Section WithMac.
(* the MAC function of the algorithm with the shared secret: mac_fn alg key data *)
Variable mac_fn : salg -> bytes -> bytes -> bytes.

(* the MAC matches: the received MAC is the (possibly truncated, section 5.2.2.1: leftmost
   octets) MAC of the digest components *)
Definition mac_matches (d : dmode) (m : smsg) (t : stsig) (a : salg) (key : bytes) : Prop :=
  t_mac t = firstn (length (t_mac t)) (mac_fn a key (spec_digest d m t)).

(* accepted exactly when the three checks pass *)
Definition spec_accepts (d : dmode) (m : smsg) (t : stsig) (a : salg) (key : bytes) (now : N) : Prop :=
  mac_len_ok a (length (t_mac t)) /\ mac_matches d m t a key /\ time_ok t now.

(* the outcome with the error precedence of 5.2: FORMERR, then BADSIG, then BADTIME *)
Definition spec_verify (d : dmode) (m : smsg) (t : stsig) (a : salg) (key : bytes) (now : N) : sresult :=
  if negb (mac_len_okb a (length (t_mac t))) then SFormErr
  else if negb (octets_eqb (t_mac t) (firstn (length (t_mac t)) (mac_fn a key (spec_digest d m t)))) then SBadSig
  else if negb (time_okb t now) then SBadTime
  else SOk.

(* what a signer must produce (section 4.2 + 4.3): the MAC is the full output over the digest
   components; the RDATA carries it *)
Definition spec_sign (d : dmode) (m : smsg) (t : stsig) (a : salg) (key : bytes) : bytes * bytes :=
  let mac := mac_fn a key (spec_digest d m t) in
  (spec_rdata (mkStsig (t_key t) (t_alg t) (t_time t) (t_fudge t) mac (t_orig_id t) (t_error t) (t_other t)), mac).
End WithMac.
