(* Independent specification for C12/C13: what a finished message must decode to.

   * [decode_msg]: an RFC 1035 §4.1 message decoder (header, questions, three RR sections),
     names through the RFC 1035 §4.1.4 decoder of Spec/NameWireS.v; RDATA layouts are the
     RFC's (§3.3: which types embed names that MAY be compressed; RFC 3597 §4 / RFC 2782:
     SRV and class-specific types embed names that MUST NOT be compressed; everything else
     is opaque).  Literal type numbers, not the regenerated tables of the implementation.
   * [replay]: the abstract message denoted by an operation sequence, given which
     operations the implementation reported as succeeded ([outcome]s) — it never looks at
     the writer's state or at the model.  It also predicts the outcomes that are determined
     by the API (OutOfOrder, NotEdns, AlreadyEdns, ExtendedRcodeOverflow, NotTsig, ...), the
     values of the getters, whether a Truncation was spurious (the operation's uncompressed
     encoding provably fitted), and whether the caller kept the hint contract.
   * [judge]: replay + decode + compare + the C13 pointer rules.

   Only the operation *syntax* ([wop], [outcome], ...) is shared with Model/MsgWriter.v. *)
From QV Require Export Base.Res Base.Octets Spec.NameWireS.
From QV Require Import Model.MsgWriter.

(* ---------------------------------------------------------------- wire helpers *)

Definition get16 (b : bytes) (i : nat) : option N :=
  match nth_error b i, nth_error b (i + 1) with
  | Some h, Some l => Some (h * 256 + l)%N
  | _, _ => None
  end.
Definition get32 (b : bytes) (i : nat) : option N :=
  match get16 b i, get16 b (i + 2) with
  | Some h, Some l => Some (h * 65536 + l)%N
  | _, _ => None
  end.

(* a possibly compressed name at [pos] of the message *)
Definition dec_cname (b : bytes) (pos : nat) : option (list label * nat) := spec_decode_name b pos.
(* a name that must be present uncompressed: chunk start 0 makes every pointer illegal *)
Definition dec_uname (b : bytes) (pos : nat) : option (list label * nat) :=
  match sdecode (S (256 + pos)) b 0 pos 255 with
  | Some (ls, e) => Some (ls, e - pos)
  | None => None
  end.

Inductive sfield := FCName | FUName | FBytes (n : nat).

Definition one_name_types : list N := [2; 3; 4; 5; 7; 8; 9; 12]%N.   (* NS MD MF CNAME MB MG MR PTR *)
Definition mem_N (x : N) (l : list N) : bool := existsb (N.eqb x) l.

(* RFC 1035 §3.3, RFC 2782 (SRV, class IN), RFC 1035 §3.4.? Chaosnet A (class CH) *)
Definition layout (class ty : N) : list sfield :=
  if mem_N ty one_name_types then [FCName]
  else if (ty =? 6)%N then [FCName; FCName]            (* SOA: MNAME RNAME, then 20 octets *)
  else if (ty =? 14)%N then [FCName; FCName]           (* MINFO *)
  else if (ty =? 15)%N then [FBytes 2; FCName]         (* MX *)
  else if ((ty =? 33) && (class =? 1))%N then [FBytes 6; FUName]   (* SRV *)
  else if ((ty =? 1) && (class =? 3))%N then [FUName]              (* CH A: name, then address *)
  else [].

Inductive rpart :=
| PName (n : list label) (pos : nat) (compressible : bool)
| PRaw (r : bytes).

(* RDATA in [pos, endp) of [b]; [standalone]: b is the caller's RDATA, where no name may be compressed *)
Fixpoint dec_parts (standalone : bool) (fs : list sfield) (b : bytes) (pos endp : nat)
  : option (list rpart) :=
  match fs with
  | [] => if pos =? endp then Some []
          else if pos <? endp then Some [PRaw (slice b pos endp)] else None
  | FBytes n :: r =>
    if pos + n <=? endp then
      match dec_parts standalone r b (pos + n) endp with
      | Some ps => Some (PRaw (slice b pos (pos + n)) :: ps)
      | None => None
      end
    else None
  | f :: r =>
    let c := match f with FCName => true | _ => false end in
    match (if c && negb standalone then dec_cname b pos else dec_uname b pos) with
    | Some (ls, l) =>
      if pos + l <=? endp then
        match dec_parts standalone r b (pos + l) endp with
        | Some ps => Some (PName ls pos c :: ps)
        | None => None
        end
      else None
    | None => None
    end
  end.

Record dq := mkDQ { dq_name : list label; dq_pos : nat; dq_type : N; dq_class : N }.
Record drr := mkDRR { dr_owner : list label; dr_pos : nat; dr_type : N; dr_class : N; dr_ttl : N;
                      dr_parts : list rpart }.

Fixpoint dec_questions (n : nat) (b : bytes) (pos : nat) : option (list dq * nat) :=
  match n with
  | O => Some ([], pos)
  | S n' =>
    match dec_cname b pos with
    | Some (ls, l) =>
      match get16 b (pos + l), get16 b (pos + l + 2) with
      | Some t, Some c =>
        match dec_questions n' b (pos + l + 4) with
        | Some (qs, e) => Some (mkDQ ls pos t c :: qs, e)
        | None => None
        end
      | _, _ => None
      end
    | None => None
    end
  end.

Fixpoint dec_rrs (n : nat) (b : bytes) (pos : nat) : option (list drr * nat) :=
  match n with
  | O => Some ([], pos)
  | S n' =>
    match dec_cname b pos with
    | Some (ls, l) =>
      let p := pos + l in
      match get16 b p, get16 b (p + 2), get32 b (p + 4), get16 b (p + 8) with
      | Some t, Some c, Some ttl, Some rdlen =>
        let s := p + 10 in
        let e := s + N.to_nat rdlen in
        if e <=? length b then
          match dec_parts false (layout c t) b s e with
          | Some ps =>
            match dec_rrs n' b e with
            | Some (rs, e') => Some (mkDRR ls pos t c ttl ps :: rs, e')
            | None => None
            end
          | None => None
          end
        else None
      | _, _, _, _ => None
      end
    | None => None
    end
  end.

Record dmsg := mkDM {
  m_id : N; m_flags2 : N; m_flags3 : N;
  m_qs : list dq; m_an : list drr; m_ns : list drr; m_ar : list drr }.

Definition decode_msg (b : bytes) : option dmsg :=
  match get16 b 0, nth_error b 2, nth_error b 3, get16 b 4, get16 b 6, get16 b 8, get16 b 10 with
  | Some id, Some f2, Some f3, Some qd, Some an, Some ns, Some ar =>
    match dec_questions (N.to_nat qd) b 12 with
    | Some (qs, p1) =>
      match dec_rrs (N.to_nat an) b p1 with
      | Some (ans, p2) =>
        match dec_rrs (N.to_nat ns) b p2 with
        | Some (nss, p3) =>
          match dec_rrs (N.to_nat ar) b p3 with
          | Some (ars, p4) => if p4 =? length b then Some (mkDM id f2 f3 qs ans nss ars) else None
          | None => None
          end
        | None => None
        end
      | None => None
      end
    | None => None
    end
  | _, _, _, _, _, _, _ => None
  end.

(* ---------------------------------------------------------------- names *)

Fixpoint label_eqb (a b : label) : bool :=
  match a, b with
  | [], [] => true
  | x :: a', y :: b' => (x =? y)%N && label_eqb a' b'
  | _, _ => false
  end.
Fixpoint name_eqb (a b : list label) : bool :=
  match a, b with
  | [], [] => true
  | x :: a', y :: b' => label_eqb x y && name_eqb a' b'
  | _, _ => false
  end.
Definition name_lc (n : list label) : list label := map (map lower) n.
Definition name_eq_ci (a b : list label) : bool := name_eqb (name_lc a) (name_lc b).
Definition name_match (exact : bool) (a b : list label) : bool :=
  if exact then name_eqb a b else name_eq_ci a b.

(* ---------------------------------------------------------------- the abstract message *)

(* something the caller asked to be in the message *)
Record aitem := mkAI {
  a_owner : list label; a_type : N; a_class : N; a_ttl : N;
  a_rdata : bytes;           (* as given: all names uncompressed *)
  a_exact : bool;            (* written in case-preserving or disabled mode: names must be equal octet for octet *)
  a_nocomp : bool }.         (* written with compression disabled: no pointer at all *)

Record tsig_s := mkTS { ts_alg : list label; ts_key : list label; ts_time : bytes; ts_fudge : N;
                        ts_origid : N; ts_error : N; ts_stime : bytes }.

Record astate := mkAS {
  s_id : N; s_qr : bool; s_opcode : N; s_aa : bool; s_tc : bool; s_rd : bool; s_ra : bool;
  s_rcode : N; s_upper : N;
  s_qs : list aitem; s_an : list aitem; s_ns : list aitem; s_ar : list aitem;     (* in order *)
  s_edns : option N; s_tsig : option tsig_s; s_mode : cmode; s_sec : section;
  s_last_owner : option (list label); s_last_rdname : option (list label);
  s_regs : list (list (option (list label)));   (* per vector: the name each slot stands for; None = stale *)
  s_used : nat;        (* upper bound of the octets written: header + uncompressed size of everything present *)
  s_reserved : nat;    (* OPT + TSIG reservations *)
  s_limit_lb : nat;    (* lower bound of the limit in effect *)
  s_bufsize : nat;
  s_contract : bool;   (* the caller kept the hint contract so far *)
  s_bad : option nat;  (* first discrepancy *)
  s_dead : bool }.

Definition upd_hdr (s : astate) id qr opc aa tc rd ra rc up :=
  mkAS id qr opc aa tc rd ra rc up (s_qs s) (s_an s) (s_ns s) (s_ar s) (s_edns s) (s_tsig s) (s_mode s)
       (s_sec s) (s_last_owner s) (s_last_rdname s) (s_regs s) (s_used s) (s_reserved s) (s_limit_lb s)
       (s_bufsize s) (s_contract s) (s_bad s) (s_dead s).
Definition upd_body (s : astate) qs an ns ar sec lo lr regs used :=
  mkAS (s_id s) (s_qr s) (s_opcode s) (s_aa s) (s_tc s) (s_rd s) (s_ra s) (s_rcode s) (s_upper s)
       qs an ns ar (s_edns s) (s_tsig s) (s_mode s) sec lo lr regs used (s_reserved s) (s_limit_lb s)
       (s_bufsize s) (s_contract s) (s_bad s) (s_dead s).
Definition upd_cfg (s : astate) edns tsig mode reserved lb bufsize :=
  mkAS (s_id s) (s_qr s) (s_opcode s) (s_aa s) (s_tc s) (s_rd s) (s_ra s) (s_rcode s) (s_upper s)
       (s_qs s) (s_an s) (s_ns s) (s_ar s) edns tsig mode (s_sec s) (s_last_owner s) (s_last_rdname s)
       (s_regs s) (s_used s) reserved lb bufsize (s_contract s) (s_bad s) (s_dead s).
Definition upd_flags (s : astate) contract bad dead :=
  mkAS (s_id s) (s_qr s) (s_opcode s) (s_aa s) (s_tc s) (s_rd s) (s_ra s) (s_rcode s) (s_upper s)
       (s_qs s) (s_an s) (s_ns s) (s_ar s) (s_edns s) (s_tsig s) (s_mode s) (s_sec s) (s_last_owner s)
       (s_last_rdname s) (s_regs s) (s_used s) (s_reserved s) (s_limit_lb s) (s_bufsize s)
       contract bad dead.

Definition flag_bad (code : nat) (s : astate) : astate :=
  match s_bad s with Some _ => s | None => upd_flags s (s_contract s) (Some code) (s_dead s) end.
Definition break_contract (s : astate) : astate := upd_flags s false (s_bad s) (s_dead s).

(* discrepancy codes *)
Definition E_OUTCOME := 1.      (* an outcome the API cannot produce here *)
Definition E_GETTER := 2.       (* a getter disagrees with the operations that succeeded *)
Definition E_SPURIOUS := 3.     (* Truncation although the uncompressed encoding fits *)
Definition E_DECODE := 4.       (* the finished message does not decode *)
Definition E_HEADER := 5.
Definition E_QUESTIONS := 6.
Definition E_RECORDS := 7.
Definition E_POINTER := 8.      (* a pointer that is not strictly backwards to a label start of an earlier name *)
Definition E_DISABLED := 9.     (* a pointer in something written with compression disabled *)
Definition E_LIMIT := 10.       (* the message exceeds the limit in effect *)
Definition E_DEAD := 11.
Definition E_REGS := 12.
Definition E_PANIC := 13.       (* an operation (or finish) panicked although the caller kept the contract *)        (* a hint pointer does not lead to the name it was issued for *)

Definition wire_size (n : list label) : nat := wire_len n.

Definition sec_rank (s : section) : nat :=
  match s with SecQuestion => 0 | SecAnswer => 1 | SecAuthority => 2 | SecAdditional => 3 end.

(* names embedded in caller-supplied RDATA, in order; None = not a valid RDATA of that layout *)
Definition rdata_parts (class ty : N) (rd : bytes) : option (list rpart) :=
  dec_parts true (layout class ty) rd 0 (length rd).
Fixpoint part_names (ps : list rpart) : list (list label) :=
  match ps with
  | [] => []
  | PName n _ _ :: r => n :: part_names r
  | PRaw _ :: r => part_names r
  end.
Fixpoint all_valid (class ty : N) (rds : list bytes) : option (list (list label)) :=
  match rds with
  | [] => Some []
  | rd :: r =>
    match rdata_parts class ty rd, all_valid class ty r with
    | Some ps, Some ns => Some (part_names ps ++ ns)
    | _, _ => None
    end
  end.

Definition last_opt {A} (l : list A) (d : option A) : option A :=
  match rev l with x :: _ => Some x | [] => d end.

(* Is the hint the caller passes honest?  Only asked when the writer would use it
   (standard mode, name longer than a pointer). *)
Definition hint_honest (s : astate) (impl_regs : list (list (option nat))) (h : hintsrc)
           (n : list label) : bool :=
  match s_mode s with
  | Standard =>
    if wire_size n <=? 2 then true
    else match h with
         | HsNone => true
         | HsQname => match s_qs s with q :: _ => name_eq_ci (a_owner q) n | [] => true end
         | HsOwner => match s_last_owner s with Some o => name_eq_ci o n | None => true end
         | HsRdata => match s_last_rdname s with Some o => name_eq_ci o n | None => true end
         | HsReg r i =>
           match nth_error impl_regs r with
           | Some v =>
             match nth_error v i with
             | Some (Some _) =>
               match nth_error (s_regs s) r with
               | Some names => match nth_error names i with
                               | Some (Some m) => name_eq_ci m n
                               | _ => false end
               | None => false
               end
             | _ => true               (* no pointer in that slot: Hint::None *)
             end
           | None => true
           end
         end
  | _ => true
  end.

Definition truncation_ok (s : astate) (size : nat) : bool :=
  negb (s_used s + s_reserved s + size <=? s_limit_lb s).

Definition items_of (owner : list label) (ty class ttl : N) (rds : list bytes) (m : cmode) : list aitem :=
  map (fun rd => mkAI owner ty class ttl rd
                      (match m with Standard => false | _ => true end)
                      (match m with Disabled => true | _ => false end)) rds.

Definition ttl_spec (raw : N) : N := if (raw <=? 2147483647)%N then raw else 0%N.   (* RFC 2181 §8 *)

Definition firstn16 {A} (l : list A) : list A := firstn 16 l.

(* an RR / RRset operation *)
Definition replay_rr (s : astate) (impl_regs : list (list (option nat))) (sec : section) (h : hintsrc)
           (owner : list label) (ty class ttl : N) (rds : list bytes) (vec : bool) (r : outcome)
  : astate :=
  let add_reg (s : astate) (names : list (option (list label))) :=
      if vec then upd_body s (s_qs s) (s_an s) (s_ns s) (s_ar s) (s_sec s) (s_last_owner s)
                           (s_last_rdname s) (s_regs s ++ [names]) (s_used s) else s in
  let out_of_order := sec_rank sec <? sec_rank (s_sec s) in
  let s := if hint_honest s impl_regs h owner then s else break_contract s in
  let size := fold_right (fun rd acc => wire_size owner + 10 + length rd + acc) 0 rds in
  match r with
  | RErr OutOfOrder => add_reg (if out_of_order then s else flag_bad E_OUTCOME s) []
  | RErr Truncation =>
    add_reg (if out_of_order then flag_bad E_OUTCOME s
             else if truncation_ok s size then s else flag_bad E_SPURIOUS s) []
  | RErr InvalidRdata =>
    add_reg (if out_of_order then flag_bad E_OUTCOME s
             else match all_valid class ty rds with Some _ => flag_bad E_OUTCOME s | None => s end) []
  | RUnit =>
    if out_of_order then flag_bad E_OUTCOME s
    else match all_valid class ty rds with
         | None => flag_bad E_OUTCOME s
         | Some names =>
           let items := items_of owner ty class (ttl_spec ttl) rds (s_mode s) in
           let s1 := upd_body s (s_qs s)
                       (match sec with SecAnswer => s_an s ++ items | _ => s_an s end)
                       (match sec with SecAuthority => s_ns s ++ items | _ => s_ns s end)
                       (match sec with SecAdditional => s_ar s ++ items | _ => s_ar s end)
                       sec (Some owner) (last_opt names (s_last_rdname s)) (s_regs s)
                       (s_used s + size) in
           add_reg s1 (map Some (firstn16 names))
         end
  | _ => flag_bad E_OUTCOME s        (* CountOverflow cannot happen below 65536 records; nothing else is possible *)
  end.

Definition b2n (b : bool) : N := if b then 1%N else 0%N.
Definition len_N {A} (l : list A) : N := N.of_nat (length l).

Definition expected_getters (s : astate) : list N :=
  [s_id s; b2n (s_qr s); s_opcode s; b2n (s_aa s); b2n (s_tc s); b2n (s_rd s); b2n (s_ra s);
   s_rcode s;
   (match s_edns s with Some _ => s_upper s * 16 + s_rcode s | None => s_rcode s end);
   len_N (s_qs s); len_N (s_an s); len_N (s_ns s);
   (len_N (s_ar s) + (if s_edns s then 1 else 0) + (if s_tsig s then 1 else 0))]%N.

Fixpoint listN_eqb (a b : list N) : bool :=
  match a, b with
  | [], [] => true
  | x :: a', y :: b' => (x =? y)%N && listN_eqb a' b'
  | _, _ => false
  end.

Definition expect_unit (r : outcome) (s : astate) : astate :=
  match r with RUnit => s | _ => flag_bad E_OUTCOME s end.
Definition expect_err (e : werr) (r : outcome) (s : astate) : astate :=
  match r with
  | RErr e' => if match e, e' with
                  | NotEdns, NotEdns | AlreadyEdns, AlreadyEdns
                  | ExtendedRcodeOverflow, ExtendedRcodeOverflow | NotTsig, NotTsig
                  | AlreadyTsig, AlreadyTsig | NotSignedTsig, NotSignedTsig
                  | OutOfOrder, OutOfOrder => true
                  | _, _ => false end then s else flag_bad E_OUTCOME s
  | _ => flag_bad E_OUTCOME s
  end.

Definition tsig_len (t : tsig_s) : nat :=
  wire_size (ts_key t) + wire_size (ts_alg t) + 26 + (if (ts_error t =? 18)%N then 6 else 0).

Definition replay_op (impl_regs : list (list (option nat))) (s : astate) (o : wop) (r : outcome) : astate :=
  if s_dead s then flag_bad E_DEAD s else
  match o with
  | OSetId v => expect_unit r (upd_hdr s v (s_qr s) (s_opcode s) (s_aa s) (s_tc s) (s_rd s) (s_ra s) (s_rcode s) (s_upper s))
  | OSetQr v => expect_unit r (upd_hdr s (s_id s) v (s_opcode s) (s_aa s) (s_tc s) (s_rd s) (s_ra s) (s_rcode s) (s_upper s))
  | OSetOpcode v => expect_unit r (upd_hdr s (s_id s) (s_qr s) v (s_aa s) (s_tc s) (s_rd s) (s_ra s) (s_rcode s) (s_upper s))
  | OSetAa v => expect_unit r (upd_hdr s (s_id s) (s_qr s) (s_opcode s) v (s_tc s) (s_rd s) (s_ra s) (s_rcode s) (s_upper s))
  | OSetTc v => expect_unit r (upd_hdr s (s_id s) (s_qr s) (s_opcode s) (s_aa s) v (s_rd s) (s_ra s) (s_rcode s) (s_upper s))
  | OSetRd v => expect_unit r (upd_hdr s (s_id s) (s_qr s) (s_opcode s) (s_aa s) (s_tc s) v (s_ra s) (s_rcode s) (s_upper s))
  | OSetRa v => expect_unit r (upd_hdr s (s_id s) (s_qr s) (s_opcode s) (s_aa s) (s_tc s) (s_rd s) v (s_rcode s) (s_upper s))
  | OSetRcode v => expect_unit r (upd_hdr s (s_id s) (s_qr s) (s_opcode s) (s_aa s) (s_tc s) (s_rd s) (s_ra s) v 0%N)
  | OSetXrcode v =>
    match s_edns s with
    | None => expect_err NotEdns r s
    | Some _ =>
      if (4095 <? v)%N then expect_err ExtendedRcodeOverflow r s
      else expect_unit r (upd_hdr s (s_id s) (s_qr s) (s_opcode s) (s_aa s) (s_tc s) (s_rd s) (s_ra s)
                                  (v mod 16)%N (v / 16)%N)
    end
  | OAddQuestion n qt qc =>
    match s_sec s with
    | SecQuestion =>
      let size := wire_size n + 4 in
      match r with
      | RUnit =>
        let it := mkAI n qt qc 0 [] (match s_mode s with Standard => false | _ => true end)
                       (match s_mode s with Disabled => true | _ => false end) in
        upd_body s (s_qs s ++ [it]) (s_an s) (s_ns s) (s_ar s) (s_sec s) (s_last_owner s)
                 (s_last_rdname s) (s_regs s) (s_used s + size)
      | RErr Truncation => if truncation_ok s size then s else flag_bad E_SPURIOUS s
      | _ => flag_bad E_OUTCOME s
      end
    | _ => expect_err OutOfOrder r s
    end
  | OAddRr sec h n ty cl ttl rd vec => replay_rr s impl_regs sec h n ty cl ttl [rd] vec r
  | OAddRrset sec h n ty cl ttl rds vec => replay_rr s impl_regs sec h n ty cl ttl rds vec r
  | OSetLimit l =>
    expect_unit r (upd_cfg s (s_edns s) (s_tsig s) (s_mode s) (s_reserved s)
                           (Nat.min l (s_bufsize s)) (s_bufsize s))
  | OSetMode m => expect_unit r (upd_cfg s (s_edns s) (s_tsig s) m (s_reserved s) (s_limit_lb s) (s_bufsize s))
  | OSetEdns udp =>
    match s_edns s with
    | Some _ => expect_err AlreadyEdns r s
    | None =>
      match r with
      | RUnit => upd_cfg s (Some udp) (s_tsig s) (s_mode s) (s_reserved s + 11) (s_limit_lb s) (s_bufsize s)
      | RErr Truncation => if truncation_ok s 11 then s else flag_bad E_SPURIOUS s
      | _ => flag_bad E_OUTCOME s
      end
    end
  | OSetTsig alg key time fudge origid error stime =>
    match s_tsig s with
    | Some _ => expect_err AlreadyTsig r s
    | None =>
      let t := mkTS (name_lc alg) (name_lc key) time fudge origid error stime in
      match r with
      | RUnit => upd_cfg s (s_edns s) (Some t) (s_mode s) (s_reserved s + tsig_len t) (s_limit_lb s) (s_bufsize s)
      | RErr Truncation => if truncation_ok s (tsig_len t) then s else flag_bad E_SPURIOUS s
      | _ => flag_bad E_OUTCOME s
      end
    end
  | OUpdateTime time =>
    match s_tsig s with
    | None => expect_err NotTsig r s
    | Some t => expect_unit r (upd_cfg s (s_edns s)
                   (Some (mkTS (ts_alg t) (ts_key t) time (ts_fudge t) (ts_origid t) (ts_error t) (ts_stime t)))
                   (s_mode s) (s_reserved s) (s_limit_lb s) (s_bufsize s))
    end
  | OClearRrs =>
    expect_unit r
      (upd_body s (s_qs s) [] [] [] SecQuestion None None
                (map (fun names => map (fun _ => None) names) (s_regs s))
                (12 + fold_right (fun q acc => wire_size (a_owner q) + 4 + acc) 0 (s_qs s)))
  | OTemplate nb =>
    match r with
    | RUnit => upd_cfg s (s_edns s) (s_tsig s) (s_mode s) (s_reserved s)
                       (Nat.min (s_limit_lb s) (length nb)) (length nb)
    | RErr Truncation =>
      (* must succeed when the new buffer holds everything written plus the reservations *)
      if s_used s + s_reserved s <=? length nb then flag_bad E_SPURIOUS s
      else upd_flags s (s_contract s) (s_bad s) true
    | _ => flag_bad E_OUTCOME s
    end
  | OTemplateSubsequent =>
    match s_tsig s with
    | None => expect_err NotTsig r s
    | Some _ => expect_err NotSignedTsig r s
    end
  | OGet =>
    match r with
    | RVals l => if listN_eqb l (expected_getters s) then s else flag_bad E_GETTER s
    | _ => flag_bad E_OUTCOME s
    end
  end.

Fixpoint replay (impl_regs : list (list (option nat))) (s : astate) (ops : list wop) (rs : list outcome)
  : astate :=
  match ops, rs with
  | o :: ops', r :: rs' => replay impl_regs (replay_op impl_regs s o r) ops' rs'
  | [], [] => s
  | _, [] => if s_dead s then s else flag_bad E_OUTCOME s      (* fewer outcomes than operations *)
  | [], _ => flag_bad E_OUTCOME s
  end.

Definition init_state (bufsize limit : nat) : astate :=
  mkAS 0 false 0 false false false false 0 0 [] [] [] [] None None Standard SecQuestion None None []
       12 0 (Nat.min limit bufsize) bufsize true None false.

(* ---------------------------------------------------------------- comparison *)

Fixpoint parts_match (exact : bool) (expected got : list rpart) : bool :=
  match expected, got with
  | [], [] => true
  | PRaw a :: e', PRaw b :: g' => label_eqb a b && parts_match exact e' g'
  | PName a _ _ :: e', PName b _ _ :: g' => name_match exact a b && parts_match exact e' g'
  | _, _ => false
  end.

Definition rr_matches (a : aitem) (d : drr) : bool :=
  name_match (a_exact a) (a_owner a) (dr_owner d) && (a_type a =? dr_type d)%N
  && (a_class a =? dr_class d)%N && (a_ttl a =? dr_ttl d)%N
  && match rdata_parts (a_class a) (a_type a) (a_rdata a) with
     | Some ps => parts_match (a_exact a) ps (dr_parts d)
     | None => false
     end.

Fixpoint rrs_match (es : list aitem) (ds : list drr) : bool :=
  match es, ds with
  | [], [] => true
  | a :: es', d :: ds' => rr_matches a d && rrs_match es' ds'
  | _, _ => false
  end.

Definition q_matches (a : aitem) (d : dq) : bool :=
  name_match (a_exact a) (a_owner a) (dq_name d) && (a_type a =? dq_type d)%N && (a_class a =? dq_class d)%N.
Fixpoint qs_match (es : list aitem) (ds : list dq) : bool :=
  match es, ds with
  | [], [] => true
  | a :: es', d :: ds' => q_matches a d && qs_match es' ds'
  | _, _ => false
  end.

Definition be16s (v : N) : bytes := [(v / 256) mod 256; v mod 256]%N.

(* the pseudo-records finish appends *)
Definition pseudo_items (s : astate) : list aitem :=
  (match s_edns s with
   | Some udp => [mkAI [] 41 udp (s_upper s * 16777216)%N [] true false]
   | None => [] end)
  ++
  (match s_tsig s with
   | Some t =>
     let other := if (ts_error t =? 18)%N then ts_stime t else [] in
     [mkAI (ts_key t) 250 255 0
           (wire_of (ts_alg t) ++ ts_time t ++ be16s (ts_fudge t) ++ be16s 0 ++ be16s (ts_origid t)
                    ++ be16s (ts_error t) ++ be16s (N.of_nat (length other)) ++ other)
           false false]
   | None => [] end).

Definition bit (x : N) (i : N) : bool := N.testbit x i.

Definition header_matches (s : astate) (m : dmsg) : bool :=
  (m_id m =? s_id s)%N
  && Bool.eqb (bit (m_flags2 m) 7) (s_qr s)
  && ((m_flags2 m / 8) mod 16 =? s_opcode s)%N
  && Bool.eqb (bit (m_flags2 m) 2) (s_aa s)
  && Bool.eqb (bit (m_flags2 m) 1) (s_tc s)
  && Bool.eqb (bit (m_flags2 m) 0) (s_rd s)
  && Bool.eqb (bit (m_flags3 m) 7) (s_ra s)
  && ((m_flags3 m / 16) mod 8 =? 0)%N            (* Z bits stay zero *)
  && (m_flags3 m mod 16 =? s_rcode s)%N.

(* ---------------------------------------------------------------- C13: pointer rules *)

(* physical label starts of the chunk beginning at [pos], and the pointer (if any) that ends it *)
Fixpoint chunk_scan (fuel : nat) (b : bytes) (pos : nat) (acc : list nat)
  : option (list nat * option (nat * nat)) :=
  match fuel with
  | O => None
  | S f =>
    match nth_error b pos with
    | None => None
    | Some l =>
      if (l =? 0)%N then Some (acc ++ [pos], None)
      else if (l <=? 63)%N then chunk_scan f b (pos + 1 + N.to_nat l) (acc ++ [pos])
      else if (192 <=? l)%N then
        match nth_error b (pos + 1) with
        | Some lo => Some (acc, Some (pos, N.to_nat ((l - 192) * 256 + lo)))
        | None => None
        end
      else None
    end
  end.

Definition mem_nat (x : nat) (l : list nat) : bool := existsb (Nat.eqb x) l.

(* one name at [pos]: its pointer (if any) must lead strictly before the name, to a label start
   already recorded; returns the extended set of label starts *)
Definition check_name (b : bytes) (nocomp : bool) (starts : list nat) (pos : nat)
  : res nat (list nat) :=
  match chunk_scan 130 b pos [] with
  | None => Err E_DECODE
  | Some (mine, None) => Ok (starts ++ mine)
  | Some (mine, Some (_, target)) =>
    if nocomp then Err E_DISABLED
    else if (target <? pos) && mem_nat target starts then Ok (starts ++ mine)
    else Err E_POINTER
  end.

Fixpoint check_parts (b : bytes) (nocomp : bool) (starts : list nat) (ps : list rpart)
  : res nat (list nat) :=
  match ps with
  | [] => Ok starts
  | PRaw _ :: r => check_parts b nocomp starts r
  | PName _ pos c :: r =>
    let* st := check_name b (nocomp || negb c) starts pos in
    check_parts b nocomp st r
  end.

Fixpoint check_qs (b : bytes) (starts : list nat) (es : list aitem) (ds : list dq) : res nat (list nat) :=
  match es, ds with
  | a :: es', d :: ds' =>
    let* st := check_name b (a_nocomp a) starts (dq_pos d) in check_qs b st es' ds'
  | _, _ => Ok starts
  end.

Fixpoint check_rrs (b : bytes) (starts : list nat) (es : list aitem) (ds : list drr) : res nat (list nat) :=
  match es, ds with
  | a :: es', d :: ds' =>
    let* st := check_name b (a_nocomp a) starts (dr_pos d) in
    let* st := check_parts b (a_nocomp a) st (dr_parts d) in
    check_rrs b st es' ds'
  | _, _ => Ok starts
  end.

(* every hint pointer handed to the caller (and not invalidated by clear_rrs) leads to the name
   it was issued for *)
Fixpoint check_reg (b : bytes) (names : list (option (list label))) (ptrs : list (option nat)) : bool :=
  match names, ptrs with
  | [], [] => true
  | None :: ns, _ :: ps => check_reg b ns ps
  | Some n :: ns, Some p :: ps =>
    match dec_cname b p with
    | Some (m, _) => name_eq_ci m n && check_reg b ns ps
    | None => false
    end
  | Some _ :: ns, None :: ps => check_reg b ns ps        (* beyond the 14-bit pointer range *)
  | _, _ => false
  end.
Fixpoint check_regs (b : bytes) (all_names : list (list (option (list label))))
         (all_ptrs : list (list (option nat))) : bool :=
  match all_names, all_ptrs with
  | [], [] => true
  | ns :: r1, ps :: r2 => check_reg b ns ps && check_regs b r1 r2
  | _, _ => false
  end.

(* ---------------------------------------------------------------- the verdict *)

Inductive verdict := VOk | VNoClaim | VBad (code : nat).

Definition judge (bufsize limit : nat) (ops : list wop) (outs : list outcome)
           (impl_regs : list (list (option nat))) (final : option (nat * bytes)) : verdict :=
  let s := replay impl_regs (init_state bufsize limit) ops outs in
  if negb (s_contract s) then VNoClaim
  else match s_bad s with
  | Some c => VBad c
  | None =>
    match final with
    | None => if s_dead s then VOk else VBad E_DEAD
    | Some (len, buf) =>
      if s_dead s then VBad E_DEAD
      else if s_bufsize s <? len then VBad E_LIMIT
      else
      let b := firstn len buf in
      match decode_msg b with
      | None => VBad E_DECODE
      | Some m =>
        if negb (header_matches s m) then VBad E_HEADER
        else if negb (qs_match (s_qs s) (m_qs m)) then VBad E_QUESTIONS
        else if negb (rrs_match (s_an s) (m_an m) && rrs_match (s_ns s) (m_ns m)
                      && rrs_match (s_ar s ++ pseudo_items s) (m_ar m)) then VBad E_RECORDS
        else
          match (let* st := check_qs b [] (s_qs s) (m_qs m) in
                 let* st := check_rrs b st (s_an s) (m_an m) in
                 let* st := check_rrs b st (s_ns s) (m_ns m) in
                 check_rrs b st (s_ar s ++ pseudo_items s) (m_ar m)) with
          | Err c => VBad c
          | Panic => VBad E_DECODE
          | Ok _ => if check_regs b (s_regs s) impl_regs then VOk else VBad E_REGS
          end
      end
    end
  end.

(* C13 alone: only the pointer rules.  RDATA of types in which RFC 3597 §4 permits no compression
   (every layout without a compressible name) must be the caller's octets unchanged. *)
Definition has_cname (fs : list sfield) : bool :=
  existsb (fun f => match f with FCName => true | _ => false end) fs.
Fixpoint raw_rdata_kept (b : bytes) (es : list aitem) (ds : list drr) (starts_unused : unit) : bool :=
  match es, ds with
  | a :: es', d :: ds' =>
    (if has_cname (layout (a_class a) (a_type a)) then true
     else match rdata_parts (a_class a) (a_type a) (a_rdata a) with
          | Some ps => parts_match true ps (dr_parts d)
          | None => false end)
    && raw_rdata_kept b es' ds' starts_unused
  | _, _ => true
  end.

Definition judge13 (bufsize limit : nat) (ops : list wop) (outs : list outcome)
           (impl_regs : list (list (option nat))) (final : option (nat * bytes)) : verdict :=
  let s := replay impl_regs (init_state bufsize limit) ops outs in
  if negb (s_contract s) then VNoClaim
  else match final with
  | None => VOk
  | Some (len, buf) =>
    let b := firstn len buf in
    match decode_msg b with
    | None => VBad E_DECODE
    | Some m =>
      let ar := s_ar s ++ pseudo_items s in
      match (let* st := check_qs b [] (s_qs s) (m_qs m) in
             let* st := check_rrs b st (s_an s) (m_an m) in
             let* st := check_rrs b st (s_ns s) (m_ns m) in
             check_rrs b st ar (m_ar m)) with
      | Err c => VBad c
      | Panic => VBad E_DECODE
      | Ok _ =>
        if raw_rdata_kept b (s_an s) (m_an m) tt && raw_rdata_kept b (s_ns s) (m_ns m) tt
           && raw_rdata_kept b ar (m_ar m) tt
        then (if check_regs b (s_regs s) impl_regs then VOk else VBad E_REGS)
        else VBad E_DISABLED
      end
    end
  end.

(* an operation panicked after [outs]: a violation unless the caller broke the hint contract *)
Definition op_hint_honest (s : astate) (impl_regs : list (list (option nat))) (o : wop) : bool :=
  match o with
  | OAddRr _ h n _ _ _ _ _ => hint_honest s impl_regs h n
  | OAddRrset _ h n _ _ _ _ _ => hint_honest s impl_regs h n
  | _ => true
  end.

Definition judge_panic (bufsize limit : nat) (ops : list wop) (outs : list outcome)
           (impl_regs : list (list (option nat))) : verdict :=
  let done := firstn (length outs) ops in
  let s := replay impl_regs (init_state bufsize limit) done outs in
  if negb (s_contract s) then VNoClaim
  else match nth_error ops (length outs) with
       | Some o => if op_hint_honest s impl_regs o then VBad E_PANIC else VNoClaim
       | None => VBad E_PANIC          (* finish panicked *)
       end.
