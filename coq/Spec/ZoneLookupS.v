(* Specification of the zone store over the FLAT list of records (no tree), written from
   RFC 1034 §4.3.2 (lookup algorithm), RFC 4592 (wildcards, closest encloser, empty
   non-terminals), RFC 2181 §5.2 (one TTL per RRset) and the documentation of LookupOptions.
   Only the data types (name, record, result types) are shared with the model.

   All names are compared ASCII-case-insensitively: the spec works on lower-cased names and
   reports lower-cased names; theorems compare with the implementation's answer after
   lower-casing the names it reports ([norm_*]).  RRset contents (TTL, RDATA octets, order of first
   appearance) are reported exactly. *)
From QV Require Import Base.Res Base.Octets Model.ZoneTree.

Definition lc (n : name) : name := map (map lower) n.

Fixpoint octets_eqb (a b : bytes) : bool :=
  match a, b with
  | [], [] => true
  | x :: a', y :: b' => N.eqb x y && octets_eqb a' b'
  | _, _ => false
  end.
Fixpoint name_eqb (a b : name) : bool :=
  match a, b with
  | [], [] => true
  | x :: a', y :: b' => octets_eqb x y && name_eqb a' b'
  | _, _ => false
  end.

(* [s] is a suffix of [n]: n is s or a descendant of s *)
Definition is_suffixb (s n : name) : bool :=
  (length s <=? length n) && name_eqb (skipn (length n - length s) n) s.

(* insertion sort without duplicates, for the type order of "all RRsets" *)
Fixpoint ins_u (x : N) (l : list N) : list N :=
  match l with
  | [] => [x]
  | y :: l' => if (x <? y)%N then x :: l else if (x =? y)%N then l else y :: ins_u x l'
  end.
Definition sort_u (l : list N) : list N := fold_right ins_u [] l.

Section Spec.
Variable req : N -> N -> bytes -> bytes -> bool.   (* RDATA equality for (class, type) *)
Variable apex : name.
Variable cls : N.

Definition in_zone (n : name) : bool := is_suffixb (lc apex) (lc n).

(* ---- which adds are accepted (C20): owner in the zone, class of the zone, and the TTL of the
   first accepted record of the same RRset *)
Definition same_rrset (r0 r : record) : bool :=
  name_eqb (lc (r_owner r0)) (lc (r_owner r)) && (r_type r0 =? r_type r)%N.
Definition ttl_ok (acc : list record) (r : record) : bool :=
  match find (fun r0 => same_rrset r0 r) acc with
  | None => true
  | Some r0 => (r_ttl r0 =? r_ttl r)%N
  end.
Definition acceptable (acc : list record) (r : record) : bool :=
  in_zone (r_owner r) && (r_class r =? cls)%N && ttl_ok acc r.
Definition add_verdict (acc : list record) (r : record) : option zone_err :=
  if negb (in_zone (r_owner r)) then Some NotInZone
  else if negb (r_class r =? cls)%N then Some ClassMismatch
  else if negb (ttl_ok acc r) then Some TtlMismatch
  else None.
Definition accepted (rs : list record) : list record :=
  fold_left (fun acc r => if acceptable acc r then acc ++ [r] else acc) rs [].

(* ---- contents of the zone described by the record list R *)
Variable R : list record.

(* a name exists iff it is the apex or an ancestor-or-self of some owner (RFC 4592 §2.2.2:
   empty non-terminals exist) *)
Definition exists_name (m : name) : bool :=
  name_eqb m (lc apex) || existsb (fun r => is_suffixb m (lc (r_owner r))) R.

Definition records_at (m : name) (ty : N) : list record :=
  filter (fun r => name_eqb (lc (r_owner r)) m && (r_type r =? ty)%N) R.

(* keep the first of every class of equal RDATAs: [x] is dropped iff an equal one came earlier *)
Fixpoint keep_last (l : list bytes) (ty : N) : list bytes :=
  match l with
  | [] => []
  | x :: l' => if existsb (fun e => req cls ty x e) l' then keep_last l' ty else x :: keep_last l' ty
  end.
Definition dedup_first (l : list bytes) (ty : N) : list bytes := rev (keep_last (rev l) ty).

Definition spec_rrset (m : name) (ty : N) : option rrset :=
  match records_at m ty with
  | [] => None
  | r0 :: _ => Some (mk_rrset ty (r_ttl r0) (dedup_first (map r_rdata (records_at m ty)) ty))
  end.

Definition types_at (m : name) : list N :=
  sort_u (map r_type (filter (fun r => name_eqb (lc (r_owner r)) m) R)).

Definition spec_rrsets (m : name) : rrset_list :=
  flat_map (fun ty => match spec_rrset m ty with Some rs => [rs] | None => [] end) (types_at m).

(* a zone cut: a name other than the apex that owns NS *)
Definition is_cut (m : name) : bool :=
  negb (name_eqb m (lc apex)) && match spec_rrset m 2%N with Some _ => true | None => false end.

(* the names strictly below the apex on the way to n (n included), topmost first *)
Definition path_below (n : name) : list name :=
  map (fun k => skipn k n) (rev (seq 0 (length n - length apex))).

Inductive spec_base :=
| SData (m : name) (sos : option name)   (* answer from the RRsets owned by m *)
| SReferral (c : name)
| SNxDomain
| SWrongZone.

(* [None]: the caller broke the contract of LookupOptions::unchecked, nothing is required *)
Definition spec_lookup_base (qn : name) (unchecked sbc : bool) : option spec_base :=
  let n := lc qn in
  if negb (in_zone qn) then (if unchecked then None else Some SWrongZone)
  else Some
    match (if sbc then None else find is_cut (path_below n)) with
    | Some c => SReferral c
    | None =>
      if exists_name n then SData n None
      else
        (* closest encloser: the longest existing ancestor (the apex always exists) *)
        let ce := last (filter exists_name (lc apex :: path_below n)) (lc apex) in
        let w := [42%N] :: ce in
        if exists_name w then SData w (Some w) else SNxDomain
    end.

Definition single_of (m : name) (ty : N) : option single_rrset :=
  match spec_rrset m ty with Some rs => Some (rs_ttl rs, rs_rdatas rs) | None => None end.

Definition referral_ns (c : name) : single_rrset :=
  match single_of c 2%N with Some s => s | None => (0%N, []) end.

Definition spec_lookup (qn : name) (ty : N) (unchecked sbc : bool) : option lookup_result :=
  match spec_lookup_base qn unchecked sbc with
  | None => None
  | Some b => Some
    match b with
    | SData m sos =>
      match single_of m ty with
      | Some s => LFound s sos
      | None => match single_of m 5%N with
                | Some s => LCname s sos
                | None => LNoRecords sos
                end
      end
    | SReferral c => LReferral c (referral_ns c)
    | SNxDomain => LNxDomain
    | SWrongZone => LWrongZone
    end
  end.

Definition spec_lookup_addrs (qn : name) (unchecked sbc : bool) : option lookup_addrs_result :=
  match spec_lookup_base qn unchecked sbc with
  | None => None
  | Some b => Some
    match b with
    | SData m sos => AFound (single_of m 1%N) (if (cls =? 1)%N then single_of m 28%N else None) sos
    | SReferral c => AReferral c (referral_ns c)
    | SNxDomain => ANxDomain
    | SWrongZone => AWrongZone
    end
  end.

Definition spec_lookup_all (qn : name) (unchecked sbc : bool) : option lookup_all_result :=
  match spec_lookup_base qn unchecked sbc with
  | None => None
  | Some b => Some
    match b with
    | SData m sos => LAFound (spec_rrsets m) sos
    | SReferral c => LAReferral c (referral_ns c)
    | SNxDomain => LANxDomain
    | SWrongZone => LAWrongZone
    end
  end.

(* ---- the spelling (letter case) of the names an answer reports: the apex as the zone was given
   it, any other name as in the first record whose owner is that name or lies below it *)
Definition spelled (m : name) : name :=
  if name_eqb m (lc apex) then apex
  else match find (fun r => is_suffixb m (lc (r_owner r))) R with
       | Some r => skipn (length (r_owner r) - length m) (r_owner r)
       | None => m
       end.
Definition spell_lookup (r : lookup_result) : lookup_result :=
  match r with
  | LFound rs s => LFound rs (option_map spelled s)
  | LCname rs s => LCname rs (option_map spelled s)
  | LReferral c ns => LReferral (spelled c) ns
  | LNoRecords s => LNoRecords (option_map spelled s)
  | LNxDomain => LNxDomain
  | LWrongZone => LWrongZone
  end.
Definition spell_addrs (r : lookup_addrs_result) : lookup_addrs_result :=
  match r with
  | AFound a b s => AFound a b (option_map spelled s)
  | AReferral c ns => AReferral (spelled c) ns
  | ANxDomain => ANxDomain
  | AWrongZone => AWrongZone
  end.
Definition spell_all (r : lookup_all_result) : lookup_all_result :=
  match r with
  | LAFound l s => LAFound l (option_map spelled s)
  | LAReferral c ns => LAReferral (spelled c) ns
  | LANxDomain => LANxDomain
  | LAWrongZone => LAWrongZone
  end.

(* ---- iteration (C20) *)
(* every existing name: the apex and all ancestors-or-self of owners down to the apex *)
Definition spec_nodes_of (r : record) : list name :=
  let o := lc (r_owner r) in map (fun k => skipn k o) (seq 0 (S (length o - length apex))).
Definition spec_all_rrsets_of (m : name) : list (name * rrset) := map (fun rs => (m, rs)) (spec_rrsets m).

End Spec.

(* normalisation of the names an implementation result reports *)
Definition norm_sos (s : option name) : option name := option_map lc s.
Definition norm_lookup (r : lookup_result) : lookup_result :=
  match r with
  | LFound rs s => LFound rs (norm_sos s)
  | LCname rs s => LCname rs (norm_sos s)
  | LReferral c ns => LReferral (lc c) ns
  | LNoRecords s => LNoRecords (norm_sos s)
  | LNxDomain => LNxDomain
  | LWrongZone => LWrongZone
  end.
Definition norm_addrs (r : lookup_addrs_result) : lookup_addrs_result :=
  match r with
  | AFound a b s => AFound a b (norm_sos s)
  | AReferral c ns => AReferral (lc c) ns
  | ANxDomain => ANxDomain
  | AWrongZone => AWrongZone
  end.
Definition norm_all (r : lookup_all_result) : lookup_all_result :=
  match r with
  | LAFound l s => LAFound l (norm_sos s)
  | LAReferral c ns => LAReferral (lc c) ns
  | LANxDomain => LANxDomain
  | LAWrongZone => LAWrongZone
  end.
