(* Independent specification for C16.  A name is the list of its non-root labels ([label] = octet
   string, Spec/NameWireS.v).  Written from RFC 1035 §2.3.4/§3.1/§5.1, RFC 4343 §2.1/§3 and
   RFC 4034 §6.1; literal 63 / 255, no regenerated constant, nothing taken from the code. *)
From QV Require Export Base.Res Base.Octets Spec.NameWireS.
Local Open Scope N_scope.

(* ---- well-formed names: RFC 1035 §2.3.4 ----------------------------------------------------- *)

Definition wf_label (l : label) : Prop := (1 <= length l <= 63)%nat /\ wf_bytes l.
Definition wf_name (ls : list label) : Prop := Forall wf_label ls /\ (wire_len ls <= 255)%nat.

Definition wf_labelb (l : label) : bool := ((1 <=? length l) && (length l <=? 63))%nat && wf_bytesb l.
Definition wf_nameb (ls : list label) : bool := forallb wf_labelb ls && (wire_len ls <=? 255)%nat.

(* ---- master-file text of a name: RFC 1035 §5.1, RFC 4343 §2.1 ---------------------------------- *)

Inductive tok := TOct (v : N) | TDot.

Definition is_digit (c : N) : Prop := 48 <= c <= 57.
Definition esc_value (a b c : N) : N := 100 * (a - 48) + 10 * (b - 48) + (c - 48).

(* unescaping: "\DDD" is the octet with decimal value DDD, "\X" (X not a digit) is X itself,
   an unquoted "." separates labels, every other character stands for itself *)
Inductive tokens : bytes -> list tok -> Prop :=
| tk_nil : tokens [] []
| tk_dot : forall s ts, tokens s ts -> tokens (46 :: s) (TDot :: ts)
| tk_plain : forall c s ts, c <> 46 -> c <> 92 -> tokens s ts -> tokens (c :: s) (TOct c :: ts)
| tk_esc_char : forall c s ts, ~ is_digit c -> tokens s ts -> tokens (92 :: c :: s) (TOct c :: ts)
| tk_esc_dec : forall a b c s ts, is_digit a -> is_digit b -> is_digit c -> esc_value a b c <= 255 ->
    tokens s ts -> tokens (92 :: a :: b :: c :: s) (TOct (esc_value a b c) :: ts).

(* an absolute name is written as its labels, each followed by a dot; the root alone is "." *)
Definition label_toks (l : label) : list tok := map TOct l ++ [TDot].

Definition text_denotes (s : bytes) (ls : list label) : Prop :=
  (s = [46] /\ ls = []) \/ (ls <> [] /\ tokens s (flat_map label_toks ls)).

Definition is_ascii_text (s : bytes) : Prop := Forall (fun c => c < 128) s.

(* executable twin (oracle): unescape, split at the dots, check RFC 1035's limits *)
Definition is_digitb (c : N) : bool := (48 <=? c) && (c <=? 57).

Fixpoint tokenize (s : bytes) : option (list tok) :=
  match s with
  | [] => Some []
  | c :: r =>
    if c =? 92 then
      match r with
      | [] => None
      | a :: r1 =>
        if is_digitb a then
          match r1 with
          | b :: d :: r3 =>
            if is_digitb b && is_digitb d && (esc_value a b d <=? 255)
            then option_map (cons (TOct (esc_value a b d))) (tokenize r3) else None
          | _ => None
          end
        else option_map (cons (TOct a)) (tokenize r1)
      end
    else if c =? 46 then option_map (cons TDot) (tokenize r)
    else option_map (cons (TOct c)) (tokenize r)
  end.

(* split a token list at the dots; the last token must be a dot *)
Fixpoint split_labels (ts : list tok) (cur : label) : option (list label) :=
  match ts with
  | [] => match cur with [] => Some [] | _ => None end
  | TOct v :: r => split_labels r (cur ++ [v])
  | TDot :: r => option_map (cons cur) (split_labels r [])
  end.

Fixpoint list_eqb_N (a b : bytes) : bool :=
  match a, b with
  | [], [] => true
  | x :: a', y :: b' => (x =? y) && list_eqb_N a' b'
  | _, _ => false
  end.

Definition is_nil_l {A} (l : list A) : bool := match l with [] => true | _ => false end.

Definition spec_of_text (s : bytes) : option (list label) :=
  if list_eqb_N s [46] then Some []
  else if forallb (fun c => c <? 128) s then
    match tokenize s with
    | Some ts =>
      match split_labels ts [] with
      | Some ls => if negb (is_nil_l ls) && wf_nameb ls then Some ls else None
      | None => None
      end
    | None => None
    end
  else None.

(* ---- equality, hashing, canonical order: RFC 1035 §2.3.3, RFC 4343 §3, RFC 4034 §6.1 ----------- *)

Definition lower_name (ls : list label) : list label := map (map lower) ls.

(* names are equal iff they are the same up to ASCII letter case *)
Definition spec_eq (a b : list label) : Prop := lower_name a = lower_name b.

Fixpoint list_eqb {A} (eqb : A -> A -> bool) (a b : list A) : bool :=
  match a, b with
  | [], [] => true
  | x :: a', y :: b' => eqb x y && list_eqb eqb a' b'
  | _, _ => false
  end.
Definition spec_eqb (a b : list label) : bool := list_eqb (list_eqb N.eqb) (lower_name a) (lower_name b).

(* lexicographic order; a proper prefix sorts first ("absence of an octet sorts before a zero octet") *)
Fixpoint lex_cmp {A} (cmp : A -> A -> comparison) (a b : list A) : comparison :=
  match a, b with
  | [], [] => Eq
  | [], _ :: _ => Lt
  | _ :: _, [] => Gt
  | x :: a', y :: b' => match cmp x y with Eq => lex_cmp cmp a' b' | c => c end
  end.

(* RFC 4034 §6.1: compare label by label starting from the rightmost (most significant) label,
   each label as a left-justified string of lower-cased octets *)
Definition spec_cmp (a b : list label) : comparison :=
  lex_cmp (lex_cmp N.compare) (rev (lower_name a)) (rev (lower_name b)).

(* a is b or a subdomain of b: b's labels are the last labels of a *)
Definition spec_subdomain (a b : list label) : Prop := exists pre, lower_name a = pre ++ lower_name b.
Definition spec_subdomainb (a b : list label) : bool :=
  (length b <=? length a)%nat && list_eqb (list_eqb N.eqb) (skipn (length a - length b) (lower_name a)) (lower_name b).

(* dropping the first [skip] labels; the root has no labels left to drop after its own *)
Definition spec_superdomain (ls : list label) (skip : nat) : option (list label) :=
  if (skip <=? length ls)%nat then Some (skipn skip ls) else None.

(* label i, the root label (empty) being the last one *)
Definition spec_label (ls : list label) (i : nat) : option label := nth_error (ls ++ [[]]) i.

Definition spec_lowercase (ls : list label) : list label := lower_name ls.

Definition spec_is_wildcard (ls : list label) : bool :=
  match ls with l :: _ => list_eqb N.eqb l [42] | [] => false end.
