(* Independent specification of how RDATA splits into components for name compression
   (C18, writer side of Rdata::components), from RFC 3597 §4 and the formats of
   Spec/RdataFormatS.v:
   - only the embedded names of the types defined in RFC 1035 §3.3 (NS MD MF CNAME SOA MB
     MG MR PTR MINFO MX) may be compressed; the names of every later type that is still
     decompressed on reception (SRV, RFC 2782; A in class CH) must be written uncompressed;
   - a type whose names are never decompressed (TSIG) or that has no name is opaque;
   - the split follows the format: every name is a component of its own, the fixed
     octets between names form one component, whatever follows the last name is the
     remainder (one more component, absent when empty). *)
From QV Require Export Base.Res Base.Octets Spec.NameWireS Spec.RdataFormatS.

Definition compressible_type (t : N) : bool := one_of t [2; 3; 4; 5; 6; 7; 8; 9; 12; 14; 15]%N.

Inductive ckind :=
| KName (compressible : bool)
| KFixed (n : nat).

(* the name-bearing prefix of a format, adjacent fixed fields merged *)
Fixpoint layout_of (cb : bool) (g : list field) : list ckind :=
  match g with
  | [] => []
  | f :: g' =>
    if existsb is_FName g then
      match f with
      | FName => KName cb :: layout_of cb g'
      | FBytes n =>
        match layout_of cb g' with
        | KFixed m :: r => KFixed (n + m) :: r
        | r => KFixed n :: r
        end
      | _ => []
      end
    else []
  end.

Definition spec_layout (c t : N) : list ckind :=
  if decompressed c t then layout_of (compressible_type t) (grammar c t) else [].

(* ---- executable oracle: the pieces a (class, type, RDATA) must split into ---- *)

Inductive piece :=
| PName (compressible : bool) (wire : bytes)   (* a name, by its uncompressed wire form *)
| POctets (b : bytes).

Fixpoint split_by (ks : list ckind) (r : bytes) : option (list piece) :=
  match ks with
  | [] => Some (match r with [] => [] | _ => [POctets r] end)
  | KName cb :: ks' =>
    match spec_decode_name r 0 with
    | Some (ls, l) =>
      match split_by ks' (skipn l r) with
      | Some ps => Some (PName cb (wire_of ls) :: ps)
      | None => None
      end
    | None => None
    end
  | KFixed n :: ks' =>
    if n <=? length r then
      match split_by ks' (skipn n r) with
      | Some ps => Some (POctets (firstn n r) :: ps)
      | None => None
      end
    else None
  end.

(* None: the RDATA cannot be split (a name of the layout does not decode / octets missing);
   the implementation must then report an error *)
Definition spec_components (c t : N) (r : bytes) : option (list piece) :=
  split_by (spec_layout c t) r.
