(* How the sections recorded by the idealised writer of the query model (Model/Query.v: recorder)
   are compared with the specification's response: owner names modulo ASCII case (lower-cased),
   everything else exactly; the RCODE is 0 unless set_rcode was called. *)
From QV Require Import Base.Res Base.Octets Model.ZoneTree Spec.ZoneLookupS Model.Query Spec.ResolveS.

Definition norm_rr (q : qrr) : srr :=
  mk_srr (lc (q_owner q)) (q_type q) (q_class q) (q_ttl q) (q_rdata q).
Definition rcode_of (r : recorder) : N := match rc_rcode r with Some c => c | None => 0%N end.
Definition norm_rec (r : recorder) : sresp :=
  mk_sresp (rcode_of r) (rc_aa r) (map norm_rr (rc_an r)) (map norm_rr (rc_ns r)) (map norm_rr (rc_ar r)).
