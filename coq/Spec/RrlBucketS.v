(* C26 — independent specification: an unbounded token bucket, written from the
   property text ("a token bucket with capacity rate x window, refilled by rate per
   whole elapsed second", RrlParams documentation), NOT from the code.  Unbounded
   naturals [N]; times are nanoseconds; no fixed-width arithmetic anywhere. *)
From Coq Require Import NArith List.
Import ListNotations.
Local Open Scope N_scope.

Definition second : N := 1000000000.

(* tokens available, and the instant up to which refills have been credited *)
Record bucket := mkBucket { b_tokens : N; b_since : N }.

(* a stream's bucket starts full *)
Definition bucket_full (rate window now : N) : bucket := mkBucket (rate * window) now.

(* [rate] tokens per WHOLE second elapsed since [b_since], never above capacity; the
   fraction of a second that is left over stays credited to the next refill *)
Definition bucket_refill (rate window : N) (b : bucket) (now : N) : bucket :=
  let k := (now - b_since b) / second in
  mkBucket (N.min (rate * window) (b_tokens b + rate * k)) (b_since b + k * second).

(* a response is sent iff a token is available, and consumes it *)
Definition bucket_take (b : bucket) : bucket * bool :=
  if b_tokens b =? 0 then (b, false) else (mkBucket (b_tokens b - 1) (b_since b), true).

(* one response of the stream at time [now]; [None] = the stream has no bucket yet *)
Definition bucket_step (rate window : N) (ob : option bucket) (now : N) : bucket * bool :=
  bucket_take (match ob with
               | None => bucket_full rate window now
               | Some b => bucket_refill rate window b now
               end).

Inductive verdict := VSend | VSlip | VDrop.

(* what happens to a response the bucket refuses: slip 0 = always drop, slip 1 = always
   slip, slip n > 1 = slip when the draw from 0..n-1 is 0 *)
Definition limited_verdict (slip rnd : N) : verdict :=
  if slip =? 0 then VDrop else if slip =? 1 then VSlip else if rnd =? 0 then VSlip else VDrop.

(* a whole history of one stream: request times (any order, any gaps) and draws *)
Fixpoint bucket_run (rate window slip : N) (ob : option bucket) (h : list (N * N)) : list verdict :=
  match h with
  | [] => []
  | (now, rnd) :: h' =>
    let (b', sent) := bucket_step rate window ob now in
    (if sent then VSend else limited_verdict slip rnd) :: bucket_run rate window slip (Some b') h'
  end.

(* the shape of a slipped response: TC set, empty answer and authority sections, and an
   additional section holding exactly the OPT and/or TSIG pseudo-records in use *)
Definition slipped_shape (tc : bool) (an ns ar : N) (edns tsig : bool) : Prop :=
  tc = true /\ an = 0 /\ ns = 0 /\ ar = (if edns then 1 else 0) + (if tsig then 1 else 0).
