(* C26 (mixed traffic) — specification of what one stream's token bucket goes through when
   responses of other streams are interleaved: another stream either leaves the bucket
   alone, or — when the fixed-size table puts it into the same slot — makes the table forget
   it ("in the event of a hash collision, the current entry is simply discarded",
   RrlParams documentation), so that the stream's next response starts a new full bucket. *)
From Coq Require Import NArith List.
From QV Require Import Spec.RrlBucketS.
Import ListNotations.
Local Open Scope N_scope.

Inductive rkind :=
| Mine      (* a response of the stream under consideration *)
| Evicts    (* a rate-limited response of another stream that shares the stream's slot *)
| Other.    (* anything else: exempt responses, streams in other slots *)

(* per request: what the stream's bucket decides (None for responses of other streams) *)
Fixpoint bucket_run_mixed (rate window slip : N) (ob : option bucket) (h : list (rkind * N * N))
  : list (option verdict) :=
  match h with
  | [] => []
  | (Mine, now, rnd) :: h' =>
    let (b', sent) := bucket_step rate window ob now in
    Some (if sent then VSend else limited_verdict slip rnd) :: bucket_run_mixed rate window slip (Some b') h'
  | (Evicts, _, _) :: h' => None :: bucket_run_mixed rate window slip None h'
  | (Other, _, _) :: h' => None :: bucket_run_mixed rate window slip ob h'
  end.
