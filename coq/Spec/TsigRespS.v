(* What a response that answers a request whose TSIG did NOT verify looks like on the wire, from RFC 8945:
   section 5.2 (the response to a request that fails key / signature / time checks carries RCODE NOTAUTH
   and a TSIG record whose Error field says why), section 5.3.2 ("the server SHOULD ... sign" only when the
   key is known; for BADKEY and BADSIG the response is unsigned: MAC size 0, empty MAC), section 5.2.3 (BADTIME:
   other-len 6, other data = the server's current time) and section 4.2 (the RDATA layout: algorithm name,
   48-bit time signed, 16-bit fudge, 16-bit MAC size, MAC, 16-bit original ID, 16-bit error, 16-bit other len,
   other data; owner = key name, CLASS ANY, TTL 0, the LAST record of the additional section), and RFC 6891
   section 6.1.1 (an OPT record iff the request had one; it precedes the TSIG record).
   Over the RFC 1035 decoder of Spec/MsgWriterS.v; nothing here mentions the Writer or the server. *)
From QV Require Import Base.Res Base.Octets Spec.NameWireS Spec.MsgWriterS.

Definition be16r (v : N) : bytes := [(v / 256) mod 256; v mod 256]%N.

(* RFC 8945 4.2, with an empty MAC *)
Definition tsig_rdata_unsigned (alg : list label) (time : bytes) (fudge origid error : N) (other : bytes) : bytes :=
  wire_of alg ++ time ++ be16r fudge ++ be16r 0 ++ be16r origid ++ be16r error ++ be16r (N.of_nat (length other)) ++ other.

Definition names_eq_ci (a b : list label) : Prop := map (map lower) a = map (map lower) b.

(* the message [b] is: no answer / authority records, and an additional section that is exactly
   (the OPT record iff [edns]) followed by the unsigned TSIG record with these fields *)
Definition unsigned_tsig_response (b : bytes) (edns : bool) (key alg : list label) (time : bytes)
           (fudge origid error : N) (other : bytes) : Prop :=
  exists m ps ts, decode_msg b = Some m /\ m_an m = [] /\ m_ns m = [] /\ m_ar m = ps ++ [ts] /\
    (if edns then exists o, ps = [o] /\ dr_type o = 41%N else ps = []) /\
    names_eq_ci (dr_owner ts) key /\ dr_type ts = 250%N /\ dr_class ts = 255%N /\ dr_ttl ts = 0%N /\
    dr_parts ts = [PRaw (tsig_rdata_unsigned alg time fudge origid error other)].
