(* C25 — $INCLUDE as textual inclusion with origin scoping, for a per-file parser that is an
   iterator with state (Model/ZfInc.v).  Written from the property text, like Spec/ZfFsS.v whose
   [start_ctx] / [resume_ctx] it reuses:

   [gexpand d chain p k s]: the records that the file p yields when its parser is in state s, with
   every $INCLUDE line replaced, in place, by the expansion of the included file — whose parser
   starts on that file's content with the includer's context at that point, the origin replaced
   by the directive's origin if one is given — after which the includer's parser continues where
   it was, with the context the included file ended with EXCEPT the origin, which is the
   includer's own again.  d = how many more levels of nesting are allowed; chain = the include
   chain that led here (for the error report).  The first error ends everything.

   k bounds the number of items taken from ONE file's parser (structural recursion needs it, an
   iterator being able to go on for ever in general); an included file gets the budget
   S (size child).  [GFuel] = the budget was too small: theorems are stated for runs in which that
   does not happen, and for the zone-file parser it is proved never to happen. *)
From QV Require Import Base.Res Base.Octets Model.ZfFs Spec.ZfFsS Model.ZfInc.

Section IncS.
  Variables Origin Own Ttl Cls Rec SErr Num P F : Type.
  Notation ctx := (ZfFs.ctx Origin Own Ttl Cls).
  Notation pres := (pres Origin Rec SErr Num P).
  Notation ierr := (ierr SErr Num).
  Variable pnext : P -> pres.
  Variable pctx : P -> ctx.
  Variable pwith : P -> ctx -> P.
  Variable pnew : F -> ctx -> P.
  Variable fs : path -> option F.
  Variable size : P -> nat.

  Inductive goutcome :=
  | GCtx (c : ctx)                       (* the file was read to its end; context at the end *)
  | GBad (p : path) (e : ierr)
  | GAbort (a : abort)
  | GFuel.

  Fixpoint gexpand (d : nat) (chain : list (path * Num)) (p : path) {struct d}
    : nat -> P -> list (path * Num * Rec) * goutcome :=
    fix file (k : nat) (s : P) {struct k} :=
      match k with
      | O => ([], GFuel)
      | S k' =>
          match pnext s with
          | PNone _ _ _ _ _ s' => ([], GCtx (pctx s'))
          | PErr _ _ _ _ _ e => ([], GBad p (ISyntax _ _ e))
          | PRec _ _ _ _ _ n r s' => let '(it, o) := file k' s' in ((p, n, r) :: it, o)
          | PAbort _ _ _ _ _ a => ([], GAbort a)
          | PInc _ _ _ _ _ n ip org s' =>
              match d with
              | O => ([], GBad p (ITooDeep _ _ n (chain ++ [(p, n)])))
              | S d' =>
                  match compute_path p ip with
                  | None => ([], GAbort APanic)
                  | Some newp =>
                      match fs newp with
                      | None => ([], GBad p (IOpen _ _ n newp))
                      | Some content =>
                          let child := pnew content (start_ctx _ _ _ _ (pctx s') org) in
                          let '(it, o) := gexpand d' (chain ++ [(p, n)]) newp (S (size child)) child in
                          match o with
                          | GCtx cend =>
                              let '(it', o') := file k' (pwith s' (resume_ctx _ _ _ _ (pctx s') cend)) in
                              (it ++ it', o')
                          | bad => (it, bad)
                          end
                      end
                  end
              end
          end
      end.
End IncS.

(* the zone-file instance: the budget of a file is its unread octets + 1 *)
From QV Require Import Model.ZfParser.

Definition full_size (s : fparser) : nat :=
  match s with FP p => S (length (r_rest (ps_rd p))) | FUnreadable _ => 1 end.

Definition full_expand (fs : path -> option fobj) :=
  gexpand name name N N rr ferr N fparser fobj full_pnext full_pctx full_pwith full_pnew fs full_size.

(* the whole run from the root file: Parser::open(p, max_depth) on what the path names *)
Definition full_expand_root (fs : path -> option fobj) (max_depth : nat) (p : path) (o : fobj) :=
  full_expand fs max_depth [] p (S (full_size (full_root o))) (full_root o).
