(* What RFC 8945 section 5.2 / 5.3 prescribes for a server that receives a TSIG-signed request
   (the case table of property C10), over the structured values of Spec/Tsig8945S.v.
     5.2.1 unknown key (or algorithm)  -> RCODE 9 (NOTAUTH), TSIG error 17 (BADKEY), unsigned
     5.2.2.1 MAC size not allowed      -> RCODE 1 (FORMERR)  [TSIG error 16, unsigned: BIND's choice]
     5.2.2 MAC wrong                   -> RCODE 9, TSIG error 16 (BADSIG), unsigned
     5.2.3 time outside the window     -> RCODE 9, TSIG error 18 (BADTIME), SIGNED; Time Signed is the
                                          request's, Other Data is the server's time (6 octets)
     otherwise                         -> the request is processed; the response is signed with
                                          the request MAC as first digest component (4.3.1)
   Fudge of responses: 300 (section 10).  Original ID, key name and algorithm echo the request. *)
From QV Require Export Spec.Tsig8945S.

Record sresp := mkSresp {
  sr_rcode : N;        (* RCODE the TSIG step puts in the response (0: request processing decides) *)
  sr_process : bool;   (* the request is answered normally *)
  sr_error : N;        (* TSIG Error field *)
  sr_signed : bool;    (* the response TSIG carries a MAC *)
  sr_time : N;         (* Time Signed of the response TSIG *)
  sr_other : bytes }.  (* Other Data *)

Definition salg_eqb (a b : salg) : bool :=
  match a, b with SSha1, SSha1 | SSha256, SSha256 => true | _, _ => false end.

Section WithMac.
Variable mac_fn : salg -> bytes -> bytes -> bytes.

(* [alg]: the algorithm the request names, if it is one we implement; [key]: the algorithm and
   secret configured under the request's key name, if any *)
Definition spec_server (alg : option salg) (key : option (salg * bytes)) (m : smsg) (t : stsig) (now : N) : sresp :=
  match alg, key with
  | Some a, Some (ka, secret) =>
    if salg_eqb ka a then
      match spec_verify mac_fn DRequest m t a secret now with
      | SOk => mkSresp 0 true 0 true now []
      | SFormErr => mkSresp 1 false 16 false now []
      | SBadSig => mkSresp 9 false 16 false now []
      | SBadTime => mkSresp 9 false 18 true (t_time t) (u48 now)
      end
    else mkSresp 9 false 17 false now []
  | _, _ => mkSresp 9 false 17 false now []
  end.

(* the TSIG RR of the response (without its MAC) *)
Definition resp_tsig (t : stsig) (r : sresp) : stsig :=
  mkStsig (canon (t_key t)) (canon (t_alg t)) (sr_time r) 300 [] (t_orig_id t) (sr_error r) (sr_other r).

(* its MAC: section 4.3.1 - the request MAC, the response message, the response's variables *)
Definition resp_mac (t : stsig) (r : sresp) (a : salg) (secret : bytes) (resp : smsg) : bytes :=
  if sr_signed r then mac_fn a secret (spec_digest (DResponse (t_mac t)) resp (resp_tsig t r)) else [].

End WithMac.
