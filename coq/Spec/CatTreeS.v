(* Independent specification of a zone catalog (property C22), written from the
   property text and RFC 1034 §4.3.2 step 2, not from the tree code:

   a catalog IS a flat partial map  (class x canonical name) -> entry;
   * insert e       : the map updated at e's own key, the previous value is returned;
   * remove k       : the map with k undefined, the previous value is returned;
                      NO other key changes (that is the whole point of C22);
   * get k          : the map at exactly k;
   * lookup cls q   : the entry of class cls whose name is the LONGEST suffix of q
                      (nearest ancestor zone), none if no entry's name is a suffix;
   * iter           : exactly the entries in the range of the map, each once.

   Names are lists of non-root labels (leftmost first); DNS names compare ignoring
   ASCII case (RFC 1035 §2.3.3), so keys use the lower-cased form.  Nothing here
   mentions nodes, children, levels or pruning. *)
From QV Require Export Base.Res Base.Octets.
From Coq Require Import Permutation.

Definition sname := list (list N).
Definition canon (nm : sname) : sname := map (map lower) nm.
Definition skey := (N * sname)%type.

Definition sname_eq_dec : forall a b : sname, {a = b} + {a <> b} :=
  list_eq_dec (list_eq_dec N.eq_dec).
Lemma skey_eq_dec (a b : skey) : {a = b} + {a <> b}.
Proof. decide equality; solve [apply sname_eq_dec | apply N.eq_dec]. Defined.

(* p is a suffix of q, label-wise: q = pre ++ p *)
Definition is_suffix (p q : sname) : Prop := exists pre, q = pre ++ p.

Section Ref.
Variable E : Type.
Variable ename : E -> sname.
Variable eclass : E -> N.

Definition key_of (e : E) : skey := (eclass e, canon (ename e)).

(* ---- the specification proper: partial maps as functions ---------------------- *)

Definition refmap := skey -> option E.

Definition rm_empty : refmap := fun _ => None.
Definition rm_insert (m : refmap) (e : E) : refmap :=
  fun k => if skey_eq_dec k (key_of e) then Some e else m k.
Definition rm_remove (m : refmap) (k0 : skey) : refmap :=
  fun k => if skey_eq_dec k k0 then None else m k.

(* every entry sits at its own key *)
Definition rm_consistent (m : refmap) : Prop := forall k e, m k = Some e -> key_of e = k.

(* r is the answer to "which zone is the nearest ancestor of q in class cls" *)
Definition rm_is_lookup (m : refmap) (cls : N) (q : sname) (r : option E) : Prop :=
  match r with
  | Some e => exists p, m (cls, p) = Some e /\ is_suffix p q /\
                        forall p' e', m (cls, p') = Some e' -> is_suffix p' q -> length p' <= length p
  | None => forall p e', m (cls, p) = Some e' -> ~ is_suffix p q
  end.

(* l lists exactly the entries of m, each once *)
Definition rm_is_iter (m : refmap) (l : list E) : Prop :=
  NoDup (map key_of l) /\ forall e, In e l <-> exists k, m k = Some e.

(* ---- executable twin: the reference map as a duplicate-free list --------------- *)

Definition lmap := list E.
Definition has_key (k : skey) (e : E) : bool := if skey_eq_dec (key_of e) k then true else false.

Definition l_get (m : lmap) (k : skey) : option E := find (has_key k) m.
Definition l_insert (m : lmap) (e : E) : lmap * option E :=
  (e :: filter (fun x => negb (has_key (key_of e) x)) m, l_get m (key_of e)).
Definition l_remove (m : lmap) (k : skey) : lmap * option E :=
  (filter (fun x => negb (has_key k x)) m, l_get m k).

Definition is_suffixb (p q : sname) : bool :=
  (length p <=? length q) && (if sname_eq_dec (skipn (length q - length p) q) p then true else false).

(* keep the candidate with the longest name *)
Definition better (best : option E) (e : E) : option E :=
  match best with
  | None => Some e
  | Some b => if length (ename b) <? length (ename e) then Some e else Some b
  end.
Definition l_lookup (m : lmap) (cls : N) (q : sname) : option E :=
  fold_left (fun best e =>
               if (eclass e =? cls)%N && is_suffixb (canon (ename e)) q then better best e else best)
            m None.

(* ---- histories ----------------------------------------------------------------- *)

Inductive r_op :=
| RInsert (e : E)
| RRemove (nm : sname) (cls : N)
| RLookup (nm : sname) (cls : N)
| RGet (nm : sname) (cls : N)
| RIter.

Inductive r_out :=
| ROne (o : option E)
| RAll (l : list E).

Definition l_step (m : lmap) (o : r_op) : lmap * r_out :=
  match o with
  | RInsert e => let (m', old) := l_insert m e in (m', ROne old)
  | RRemove nm cls => let (m', old) := l_remove m (cls, canon nm) in (m', ROne old)
  | RLookup nm cls => (m, ROne (l_lookup m cls (canon nm)))
  | RGet nm cls => (m, ROne (l_get m (cls, canon nm)))
  | RIter => (m, RAll m)
  end.

Fixpoint l_run (m : lmap) (h : list r_op) : lmap * list r_out :=
  match h with
  | [] => (m, [])
  | o :: h' =>
    let (m1, x) := l_step m o in
    let (m2, xs) := l_run m1 h' in
    (m2, x :: xs)
  end.

(* single answers must be identical; an iteration must be the same entries in any order *)
Definition r_out_equiv (a b : r_out) : Prop :=
  match a, b with
  | ROne x, ROne y => x = y
  | RAll x, RAll y => Permutation x y
  | _, _ => False
  end.

End Ref.

Arguments key_of {E}.
Arguments refmap E : clear implicits.
Arguments rm_empty {E}.
Arguments rm_insert {E}.
Arguments rm_remove {E}.
Arguments rm_consistent {E}.
Arguments rm_is_lookup {E}.
Arguments rm_is_iter {E}.
Arguments lmap E : clear implicits.
Arguments has_key {E}.
Arguments l_get {E}.
Arguments l_insert {E}.
Arguments l_remove {E}.
Arguments better {E}.
Arguments l_lookup {E}.
Arguments RInsert {E}.
Arguments RRemove {E}.
Arguments RLookup {E}.
Arguments RGet {E}.
Arguments RIter {E}.
Arguments ROne {E}.
Arguments RAll {E}.
Arguments l_step {E}.
Arguments l_run {E}.
Arguments r_out_equiv {E}.
