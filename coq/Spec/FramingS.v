(* C30 — specification of DNS-over-TCP framing (RFC 1035 §4.2.2, RFC 7766 §8) and of the
   service a connection must give, written from the RFC / the property text, not from the code.

   "The message is prefixed with a two byte length field which gives the message length,
    excluding the two byte length field."  Big-endian.  A connection's byte stream is a
   sequence of such frames, possibly followed by an incomplete one. *)
From QV Require Import Base.Res Base.Octets.

Definition frame (m : bytes) : bytes :=
  [N.of_nat (length m / 256); N.of_nat (length m mod 256)] ++ m.

Definition frame_all (ms : list bytes) : bytes := concat (map frame ms).

(* a stream that does not start with a complete frame *)
Definition incomplete (t : bytes) : Prop :=
  length t < 2 \/
  exists h l rest, t = h :: l :: rest /\ length rest < N.to_nat (h * 256 + l).

(* [framed ms t s]: the stream s consists of the frames of ms (each message shorter than
   2^16) followed by the incomplete tail t. *)
Inductive framed : list bytes -> bytes -> bytes -> Prop :=
| fr_tail : forall t, incomplete t -> framed [] t t
| fr_msg : forall m ms t s, (N.of_nat (length m) < 65536)%N -> framed ms t s ->
           framed (m :: ms) t (frame m ++ s).

Inductive end_reason := EndEof | EndTimeout | EndIoError | EndBlocked | EndNoResponse.

Section Service.
  Variable handler : bytes -> option bytes.

  (* responses to the requests in order, up to and excluding the first response-less one *)
  Fixpoint take_until_none (rs : list (option bytes)) : list bytes :=
    match rs with
    | Some r :: rs' => r :: take_until_none rs'
    | _ => []
    end.

  Definition all_answered (ms : list bytes) : bool :=
    forallb (fun m => match handler m with Some _ => true | None => false end) ms.

  (* what the client must receive for the requests ms when the stream then ends the way
     [e] says: one frame per response, in request order; the connection is closed right
     after the first request that gets no response *)
  Definition service (ms : list bytes) (e : end_reason) : list bytes * end_reason :=
    (map frame (take_until_none (map handler ms)),
     if all_answered ms then e else EndNoResponse).
End Service.

(* Executable twin of [framed], used as the oracle on implementation output. *)
Fixpoint deframe_f (fuel : nat) (s : bytes) : list bytes :=
  match fuel with
  | O => []
  | S f =>
      match s with
      | h :: l :: rest =>
          let L := N.to_nat (h * 256 + l) in
          if L <=? length rest then firstn L rest :: deframe_f f (skipn L rest) else []
      | _ => []
      end
  end.
Definition deframe (s : bytes) : list bytes := deframe_f (length s) s.

(* UDP: a datagram is answered by at most one datagram, sent back to where it came from
   (from the address it was sent to), never longer than the configured payload size. *)
Section UdpS.
  Variable handler : bytes -> option bytes.
  Variable psize : nat.
  Definition udp_answer (payload : bytes) : option bytes := handler (firstn psize payload).
End UdpS.
