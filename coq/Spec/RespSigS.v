(* C04 for responses that carry a TSIG record: the TSIG-tolerant variant of the pair relation
   [pair_check] of Spec/RespS.v, evaluated (extracted) on the real server's two responses to ONE
   correctly signed request sent over UDP and over TCP.

   Same clauses as [pair_check] — size, TC never over TCP, octet identity when the complete
   response fits, TC shape, and otherwise "only optional additional records omitted, never
   in-bailiwick glue or the OPT" — except that in the last clause the trailing TSIG record of each
   additional section is set aside before the omission test: the two TSIG records must both be
   present (or both absent) and agree in owner (modulo ASCII case), type, class and TTL, but NOT in
   RDATA (the MAC covers the message content, which differs when records were omitted), and a TSIG
   record is never counted as an omitted record.  When the complete response fits, identity is still
   octet for octet, TSIG included: the harness sends both requests within one second, and HMAC is
   deterministic.

   [pair_check] itself is unchanged; Proofs/RespSigP.v shows that on responses without a TSIG record
   the two relations coincide (Props/C04.v c04_signed_oracle_conservative), and what a verdict
   [SPair PairOk] means (the c04_signed_oracle theorems). *)
From QV Require Import Base.Res Base.Octets Spec.NameWireS Spec.MsgWriterS Spec.RdataFormatS Spec.RespS.

(* the additional section without its trailing TSIG record, and that record *)
Definition split_tsig (ar : list drr) : list drr * option drr :=
  match rev ar with
  | last :: before => if is_tsig last then (rev before, Some last) else (ar, None)
  | [] => (ar, None)
  end.

(* both absent, or both present and equal modulo RDATA *)
Definition tsig_eq_mod_rdata (a b : option drr) : bool :=
  match a, b with
  | None, None => true
  | Some x, Some y =>
    name_eq_ci (dr_owner x) (dr_owner y) && (dr_type x =? dr_type y)%N && (dr_class x =? dr_class y)%N &&
    (dr_ttl x =? dr_ttl y)%N
  | _, _ => false
  end.

Inductive signed_verdict :=
| SPair (v : pair_verdict)
| STsigMismatch.      (* TC-clear UDP response: its TSIG record is missing / extra / differs in owner, class or TTL *)

(* the relation between the two decoded responses for a given UDP limit; [fit] is the length up to which the complete
   response counts as fitting: the limit itself in the oracle [pair_check_signed] *)
Definition pair_rel_signed (limit fit : nat) (u t : bytes) (mu mt : dmsg) : signed_verdict :=
  if (limit <? length u) || (N.to_nat 65535 <? length t) then SPair PTooLong
  else if tc_bit mt then SPair PTcOnTcp
  else if length t <=? fit then
    (* the complete (signed) response fits: the UDP response is that response *)
    if label_eqb u t then SPair PairOk else SPair PNotIdentical
  else if tc_bit mu then
    if (length (m_an mu) =? 0) && (length (m_ns mu) =? 0) && forallb is_pseudo (m_ar mu) then SPair PairOk
    else SPair PTcWithRecords
  else
    if negb ((m_id mu =? m_id mt)%N && (m_flags2 mu =? m_flags2 mt)%N && (m_flags3 mu =? m_flags3 mt)%N)
    then SPair PHeaderDiffers
    else if negb (rrs_eq (m_an mu) (m_an mt) && rrs_eq (m_ns mu) (m_ns mt) &&
                  (length (m_qs mu) =? length (m_qs mt))) then SPair PMandatoryDiffers
    else
      let '(au, su) := split_tsig (m_ar mu) in
      let '(at_, st) := split_tsig (m_ar mt) in
      if negb (tsig_eq_mod_rdata su st) then STsigMismatch
      else match omitted au at_ with
           | None => SPair PNotOmission
           | Some left_out =>
             if existsb (fun r => is_pseudo r || is_glue_for (m_ns mt) r) left_out then SPair PGlueOmitted
             else SPair PairOk
           end.

Definition pair_check_signed (their server : N) (u t : bytes) : signed_verdict :=
  match decode_msg u, decode_msg t with
  | Some mu, Some mt => pair_rel_signed (udp_limit_of mu their server) (udp_limit_of mu their server) u t mu mt
  | _, _ => SPair PUndecodable
  end.

(* the same relation with an explicitly given fit threshold: used ONLY to delimit the input class of known finding
   C04-2 ("would this UDP response be right if the complete response did not fit?"), never as the verdict *)
Definition pair_check_signed_at (their server : N) (fit : nat) (u t : bytes) : signed_verdict :=
  match decode_msg u, decode_msg t with
  | Some mu, Some mt => pair_rel_signed (udp_limit_of mu their server) fit u t mu mt
  | _, _ => SPair PUndecodable
  end.

(* no TSIG record in the additional section (vacuous for octets that do not decode) *)
Definition no_tsig (b : bytes) : Prop :=
  match decode_msg b with
  | Some m => forallb (fun r => negb (is_tsig r)) (m_ar m) = true
  | None => True
  end.
