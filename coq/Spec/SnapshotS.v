(* C32 — the property, stated on observable traces (events of Model/Snapshot.v) and on
   the cell contents replayed from the write events alone.

   "Every response is computed entirely from one catalog snapshot and one key set, never a
    mixture, and every request handled after a replacement returns uses the new catalog." *)
From Coq Require Import List Arith Bool.
Import ListNotations.
From QV Require Import Model.Snapshot.

Section SnapS.
  Variables Req C K Resp : Type.
  Variable needs_keys : Req -> bool.
  Variable handle : Req -> C -> option K -> Resp.
  Variable req_of : nat -> option Req.   (* which request thread t handles *)
  Variables (c0 : C) (k0 : K).

  (* the response at position e was computed from the request and ONE catalog value, the one
     the cell held at an instant i inside the handler's interval (s, e), and (when keys are
     used) ONE key set, held at an instant j inside the interval *)
  Definition response_ok (tr : list (event C K Resp)) (e t : nat) (r : Resp) : Prop :=
    exists req s i,
      req_of t = Some req /\ nth_error tr s = Some (EStart t) /\ s < i /\ i < e /\
      (if needs_keys req
       then exists j, s < j /\ j < e /\
                      r = handle req (snd (cat_at c0 tr i)) (Some (snd (keys_at k0 tr j)))
       else r = handle req (snd (cat_at c0 tr i)) None) /\
      (* handled after a replacement returned => the replacement's value or a later one *)
      (forall q u v, nth_error tr q = Some (ERetCat u v) -> q < s ->
                     v <= fst (cat_at c0 tr i)).

  Definition single_snapshot (tr : list (event C K Resp)) : Prop :=
    forall e t r, nth_error tr e = Some (ERespond t r) -> response_ok tr e t r.
End SnapS.
