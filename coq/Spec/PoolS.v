(* What C29 demands, stated on the observable/ghost part of a state of Model/Pool.v,
   independently of how the pool works: tasks are numbered 0 .. next-1 in the order they
   were accepted (Ok returned by submit / submit_or_spawn); [queue], the [WRun] pcs and
   [done] say where each one is; [started] is the log of "a thread began to run task t".
   No reference to available_workers, wait sets or any other mechanism of thread.rs. *)
From Coq Require Import Permutation.
From QV Require Import Model.Pool.

(* a thread of the group that has not gone through end_thread yet *)
Definition is_live (p : pc) : bool :=
  match p with
  | WIdle _ | WWait _ | WWoken _ _ | WRun _ _ | WDrop _ | RWait | RWoken => true
  | _ => false
  end.

Definition run_of (p : pc) : list nat := match p with WRun _ t => [t] | _ => [] end.
Definition running (s : state) : list nat := flat_map run_of (thr s).
Definition accepted (s : state) : list nat := seq 0 (next s).

(* every accepted task is in exactly one of {queued, running, done} (as lists with
   multiplicity: a task in two places or twice in one place breaks the permutation) *)
Definition exactly_one_place (s : state) : Prop :=
  Permutation (queue s ++ running s ++ done s) (accepted s).

(* no task is ever started twice, and what was started is running or done *)
Definition never_twice (s : state) : Prop :=
  NoDup (started s) /\ Permutation (started s) (running s ++ done s).

Definition await_returned (s : state) : Prop := exists i, nth_error (thr s) i = Some AwRet.

(* when an await_shutdown call has returned: all accepted tasks have finished and no
   thread of the group is live (and thread_count says so) *)
Definition await_ok (s : state) : Prop :=
  await_returned s ->
  Permutation (done s) (accepted s) /\ queue s = [] /\ running s = [] /\
  tcount s = 0 /\ (forall p, In p (thr s) -> is_live p = false).

(* a submission whose pool section runs after the pool's shutdown is refused and leaves
   no trace *)
Definition is_submission (l : label) : option sout :=
  match l with LSubmit _ o _ | LSos _ o _ => Some o | _ => None end.

Definition rejects_after_shutdown (fx : bool) : Prop :=
  forall s l o s', psd s = true -> is_submission l = Some o -> step fx s l = Some s' ->
    o = SReject /\ next s' = next s /\ queue s' = queue s /\ started s' = started s.

(* nothing is accepted any more once both shutdown flags are set *)
Definition closed_after_shutdown (fx : bool) : Prop :=
  forall s l s', psd s = true -> gsd s = true -> step fx s l = Some s' -> next s' = next s.

(* quiescent: every thread has finished what it had to do *)
Definition quiescent_pc (p : pc) : bool :=
  match p with
  | SIdle [] | WExited | GDone | QDone | AwRet => true
  | _ => false
  end.
Definition all_done (s : state) : Prop := forall p, In p (thr s) -> quiescent_pc p = true.

(* no deadlock once shutdown was requested: unless everything is over, some thread can
   take a step that is neither a spurious wake-up nor a timer *)
Definition can_move (fx : bool) (s : state) : Prop :=
  exists l s', env_label l = false /\ step fx s l = Some s'.
Definition no_deadlock (fx : bool) (s : state) : Prop :=
  gsd s = true -> all_done s \/ can_move fx s.

(* termination measure: pairs of naturals, lexicographically *)
Definition lex_lt (a b : nat * nat) : Prop :=
  fst a < fst b \/ (fst a = fst b /\ snd a < snd b).

(* every step that is not a spurious wake-up / timer strictly decreases [mu] once both
   shutdown flags are set *)
Definition decreases_after_shutdown (fx : bool) (mu : state -> nat * nat) : Prop :=
  forall s l s', reachable fx s -> psd s = true -> gsd s = true ->
    env_label l = false -> step fx s l = Some s' -> lex_lt (mu s') (mu s).
