(* Independent specification of query answering by an authoritative server for ONE zone, over the
   FLAT list of the zone's records (no tree, no writer), written from
     RFC 1034 §4.3.2   the resolution algorithm (steps 3a-3c, 4, 6), §3.6.2 CNAME restart
     RFC 4592          wildcard synthesis (through Spec/ZoneLookupS.v)
     RFC 6604 §2, §3   AA from the first owner of a CNAME chain; RCODE from the last lookup
     RFC 2308 §2, §3, §5  negative answers carry the SOA in the authority section with
                       TTL = min(SOA TTL, SOA MINIMUM)
     RFC 2181 §8       a TTL with the most significant bit set is treated as zero
     RFC 2181 §10.1    a CNAME RRset is a singleton: the first record is the alias
     RFC 1035 §3.3.x, RFC 2782, RFC 3596 §3  additional-section processing: addresses (A; AAAA in
                       class IN) of the names in NS, MD, MF, MB, MX and SRV RDATA
     RFC 1034 §4.2.1   referrals carry the NS RRset of the cut and the glue below it
   and from the property text: CNAMEs are chased inside the zone only, at most 8 links, a loop is
   SERVFAIL; addresses are looked up in the queried zone only (glue below cuts for referrals).
   Zone data that cannot be interpreted where it is needed (a CNAME/NS/MX/SRV target that is not a
   domain name, a missing or malformed SOA for a negative answer) makes the server fail: SERVFAIL,
   nothing else in the response.

   Only data types are shared with the zone model (name, record, lookup result types of
   Model/ZoneTree.v); lookups are those of Spec/ZoneLookupS.v (flat records), names inside RDATA are
   decoded by the RFC 1035 decoder of Spec/NameWireS.v.  All owner names are reported lower-cased;
   RDATA, TTLs, types are exact.  Literal numbers are the RFCs'. *)
From QV Require Import Base.Res Base.Octets Model.ZoneTree Spec.ZoneLookupS Spec.NameWireS.

Record srr := mk_srr { s_owner : name; s_type : N; s_class : N; s_ttl : N; s_rdata : bytes }.
Record sresp := mk_sresp { s_rcode : N; s_aa : bool; s_an : list srr; s_ns : list srr; s_ar : list srr }.

(* RFC 1035 §4.1.1: RCODE 2, server failure *)
Definition servfail : sresp := mk_sresp 2 false [] [] [].

(* the domain name whose uncompressed wire form is exactly [w] *)
Definition name_of_wire (w : bytes) : option name :=
  match spec_decode_name w 0 with
  | Some (ls, l) => if l =? length w then Some ls else None
  | None => None
  end.
(* the domain name that fills the RDATA from offset [off] on *)
Definition rdata_name (rd : bytes) (off : nat) : option name :=
  if length rd <? off then None else name_of_wire (skipn off rd).

(* RFC 1035 §3.3.13: MNAME RNAME SERIAL REFRESH RETRY EXPIRE MINIMUM, the last five 32 bits each *)
Definition u32_of (l : bytes) : option N :=
  match l with
  | [a; b; c; d] => Some (((a * 256 + b) * 256 + c) * 256 + d)%N
  | _ => None
  end.
Definition soa_minimum (rd : bytes) : option N :=
  match spec_decode_name rd 0 with
  | None => None
  | Some (_, l1) =>
    match spec_decode_name (skipn l1 rd) 0 with
    | None => None
    | Some (_, l2) =>
      let fixed := skipn (l1 + l2) rd in
      if length fixed =? 20 then u32_of (skipn 16 fixed) else None
    end
  end.

(* RFC 2181 §8 *)
Definition ttl_value (v : N) : N := if (2147483648 <=? v)%N then 0%N else v.

Definition all_some {A} (l : list (option A)) : option (list A) :=
  fold_right (fun o acc => match o, acc with Some x, Some r => Some (x :: r) | _, _ => None end) (Some []) l.

Section Resolve.
Variable req : N -> N -> bytes -> bytes -> bool.
Variable apex : name.
Variable cls : N.
Variable R : list record.

Definition rrs (owner : name) (ty : N) (s : single_rrset) : list srr :=
  map (mk_srr (lc owner) ty cls (fst s)) (snd s).

(* the address records of [n] available in this zone; [below_cuts]: glue is wanted *)
Definition addrs_of (n : name) (below_cuts : bool) : list srr :=
  match spec_lookup_addrs req apex cls R n false below_cuts with
  | Some (AFound a aaaa _) =>
    (match a with Some s => rrs n 1 s | None => [] end) ++
    (match aaaa with Some s => rrs n 28 s | None => [] end)
  | _ => []
  end.

(* where the domain name sits in the RDATA of the types that ask for additional-section processing *)
Definition name_offset (ty : N) : option nat :=
  if existsb (N.eqb ty) [2; 3; 4; 7]%N then Some 0        (* NS MD MF MB: the RDATA is the name *)
  else if (ty =? 15)%N then Some 2                        (* MX: PREFERENCE EXCHANGE *)
  else if (ty =? 33)%N then Some 6                        (* SRV: priority weight port target *)
  else None.

(* None: some RDATA does not hold a domain name there *)
Definition additional (ty : N) (s : single_rrset) : option (list srr) :=
  if negb ((cls =? 1)%N || (cls =? 3)%N) then Some []     (* no address type is known for other classes *)
  else match name_offset ty with
       | None => Some []
       | Some off =>
         option_map (flat_map (fun n => addrs_of n false)) (all_some (map (fun rd => rdata_name rd off) (snd s)))
       end.

(* the negative-caching SOA *)
Definition negative_soa : option srr :=
  match spec_lookup req apex cls R apex 6 false false with
  | Some (LFound (ttl, rd :: _) _) =>
    match soa_minimum rd with
    | Some m => Some (mk_srr (lc apex) 6 cls (N.min ttl (ttl_value m)) rd)
    | None => None
    end
  | _ => None
  end.

Definition negative (rcode : N) (an : list srr) : sresp :=
  match negative_soa with
  | Some soa => mk_sresp rcode true an [soa] []
  | None => servfail
  end.

(* a referral to the zone cut [c]: NS RRset in the authority section; additional section: the
   addresses of the name servers inside the delegated zone first (without them the delegation cannot
   be followed), then those of the other name servers this zone knows addresses for *)
Definition referral (aa : bool) (an : list srr) (c : name) (ns : single_rrset) : sresp :=
  match all_some (map (fun rd => rdata_name rd 0) (snd ns)) with
  | None => servfail
  | Some targets =>
    let inside := filter (fun t => is_suffixb (lc c) (lc t)) targets in
    let outside := filter (fun t => negb (is_suffixb (lc c) (lc t))) targets in
    mk_sresp 0 aa an (rrs c 2 ns) (flat_map (fun t => addrs_of t true) (inside ++ outside))
  end.

(* positive answer: the RRset and what additional-section processing finds for it *)
Definition positive (an : list srr) (owner : name) (ty : N) (s : single_rrset) : sresp :=
  match additional ty s with
  | Some ar => mk_sresp 0 true (an ++ rrs owner ty s) [] ar
  | None => servfail
  end.

(* [owner] has the CNAME RRset [cn] and not the type asked for; [links] CNAMEs may still be followed;
   [visited] are the names looked up so far (lower-cased), [an] the answer section so far *)
Fixpoint chase (links : nat) (visited : list name) (owner : name) (cn : single_rrset) (an : list srr) (qt : N) : sresp :=
  match links with
  | O => servfail                                           (* a ninth link *)
  | S links' =>
    match snd cn with
    | [] => servfail
    | rd :: _ =>
      match name_of_wire rd with
      | None => servfail
      | Some target =>
        if existsb (name_eqb (lc target)) visited then servfail        (* a loop *)
        else
          let an' := an ++ [mk_srr (lc owner) 5 cls (fst cn) rd] in
          match spec_lookup req apex cls R target qt false false with
          | Some (LFound s _) => positive an' target qt s
          | Some (LCname cn' _) => chase links' (visited ++ [lc target]) target cn' an' qt
          | Some (LReferral c ns) => referral true an' c ns
          | Some (LNoRecords _) => negative 0 an'                      (* RFC 6604 §3: last lookup *)
          | Some LNxDomain => negative 3 an'
          | Some LWrongZone => mk_sresp 0 true an' [] []                (* the alias leaves the zone *)
          | None => servfail
          end
      end
    end
  end.

Definition resolve (qn : name) (qt : N) : sresp :=
  if (qt =? 255)%N then
    match spec_lookup_all req apex cls R qn false false with
    | Some (LAFound [] _) => negative 0 []
    | Some (LAFound rrsets _) =>
      mk_sresp 0 true (flat_map (fun r => rrs qn (rs_type r) (rs_ttl r, rs_rdatas r)) rrsets) [] []
    | Some (LAReferral c ns) => referral false [] c ns
    | Some LANxDomain => negative 3 []
    | _ => servfail
    end
  else
    match spec_lookup req apex cls R qn qt false false with
    | Some (LFound s _) => positive [] qn qt s
    | Some (LCname cn _) => chase 8 [lc qn] qn cn [] qt
    | Some (LReferral c ns) => referral false [] c ns
    | Some (LNoRecords _) => negative 0 []
    | Some LNxDomain => negative 3 []
    | _ => servfail
    end.

End Resolve.
