(* How an abstract name (list of non-root labels) is represented by the Rust
   [Name] value of the model: label offsets (root label included) + wire form. *)
From QV Require Export Model.NameWire Spec.NameWireS.

(* label offsets inside the uncompressed form, root label included *)
Fixpoint offs_of (base : nat) (ls : list label) : list N :=
  match ls with
  | [] => [(N.of_nat base mod 256)%N]
  | l :: r => (N.of_nat base mod 256)%N :: offs_of (base + 1 + length l) r
  end.

Definition name_of (ls : list label) : name := mkName (offs_of 0 ls) (wire_of ls).
