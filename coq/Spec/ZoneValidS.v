(* Reference checker for zone validation over the FLAT list of accepted records, written from the
   check list in the module documentation of src/db/zone/validation.rs (RFC 1035 §5.2 + erratum
   5626, RFC 4592 §4.2, the glue-policy definitions of GluePolicy) on top of the lookup
   specification of Spec/ZoneLookupS.v.  Issues carry lower-cased names.
   [None] = some RDATA that has to be read as a domain name is not one (Error::InvalidRdata). *)
From QV Require Import Base.Res Base.Octets Model.ZoneTree Model.ZoneValid Spec.ZoneLookupS.

Fixpoint ocollect {A} (f : A -> option (list issue)) (l : list A) : option (list issue) :=
  match l with
  | [] => Some []
  | x :: l' =>
    match f x, ocollect f l' with
    | Some a, Some b => Some (a ++ b)
    | _, _ => None
    end
  end.

Section SpecV.
Variable req : N -> N -> bytes -> bytes -> bool.
Variable parse : bytes -> option name.
Variable apex : name.
Variable cls : N.
Variable wide : bool.
Variable R : list record.

(* address types exist in classes IN (A, AAAA) and CH (A) *)
Definition addr_class : bool := (cls =? 1)%N || (cls =? 3)%N.
Definition has_addr (a b : option single_rrset) : bool :=
  match a with Some _ => true | None => if (cls =? 1)%N then match b with Some _ => true | None => false end else false end.

Definition addr_lookup (n : name) (sbc : bool) : option lookup_addrs_result :=
  spec_lookup_addrs req apex cls R n false sbc.

(* a name server / mail exchanger INSIDE the authoritative part of the zone must have an address *)
Definition missing_address (mk : name -> issue) (n : name) : list issue :=
  match addr_lookup n false with
  | Some (AFound a b _) => if has_addr a b then [] else [mk (lc n)]
  | Some ANxDomain => [mk (lc n)]
  | _ => []
  end.

Definition missing_glue (n : name) : list issue :=
  match addr_lookup n true with
  | Some (AFound a b _) => if has_addr a b then [] else [MissingGlue (lc n)]
  | _ => [MissingGlue (lc n)]
  end.

(* the name server n of the delegation at [child]: in the authoritative part it needs an address;
   below a cut c it needs glue under the wide policy always, under the narrow policy only when
   c is the delegation itself; outside the zone nothing is required *)
Definition delegation_ns (n child : name) : list issue :=
  match addr_lookup n false with
  | Some (AFound a b _) => if has_addr a b then [] else [MissingNsAddress (lc n)]
  | Some (AReferral c _) => if wide || name_eqb c child then missing_glue n else []
  | Some ANxDomain => [MissingNsAddress (lc n)]
  | _ => []
  end.

Definition rdata_name (rd : bytes) : option name := parse rd.
Definition mx_name (rd : bytes) : option name := if 2 <=? length rd then parse (skipn 2 rd) else None.

Definition is_wild (m : name) : bool :=
  match m with l :: _ => octets_eqb l [42%N] | [] => false end.

(* issues raised by one RRset of the name m, which owns n_rrsets RRsets *)
Definition rrset_issues (m : name) (n_rrsets : nat) (rs : rrset) : option (list issue) :=
  if (rs_type rs =? 5)%N then
    Some ((if n_rrsets =? 1 then [] else [OtherRecordsAtCname m]) ++
          (if length (rs_rdatas rs) =? 1 then [] else [DuplicateCname m]))
  else if (rs_type rs =? 15)%N then
    if addr_class then
      ocollect (fun rd => match mx_name rd with
                          | Some n => Some (missing_address MissingMxAddress n)
                          | None => None
                          end) (rs_rdatas rs)
    else Some []
  else if (rs_type rs =? 2)%N then
    match (if negb (name_eqb m (lc apex)) && addr_class then
             ocollect (fun rd => match rdata_name rd with
                                 | Some n => Some (delegation_ns n m)
                                 | None => None
                                 end) (rs_rdatas rs)
           else Some []) with
    | Some l => Some ((if is_wild m then [NsAtWildcard m] else []) ++ l)
    | None => None
    end
  else Some [].

Definition name_issues (m : name) : option (list issue) :=
  let rrs := spec_rrsets req cls R m in
  ocollect (rrset_issues m (length rrs)) rrs.

(* all names of the zone: the apex, every owner and every name between an owner and the apex *)
Definition zone_names : list name := lc apex :: flat_map (spec_nodes_of apex) R.

Definition apex_soa_issues : list issue :=
  match spec_rrset req cls R (lc apex) 6 with
  | None => [MissingApexSoa]
  | Some rs => if length (rs_rdatas rs) =? 1 then [] else [TooManyApexSoas]
  end.

Definition apex_ns_issues : option (list issue) :=
  match spec_rrset req cls R (lc apex) 2 with
  | None => Some [MissingApexNs]
  | Some rs =>
    if addr_class then
      ocollect (fun rd => match rdata_name rd with
                          | Some n => Some (missing_address MissingNsAddress n)
                          | None => None
                          end) (rs_rdatas rs)
    else Some []
  end.

Definition spec_validate : option (list issue) :=
  match apex_ns_issues, ocollect name_issues zone_names with
  | Some a, Some b => Some (apex_soa_issues ++ a ++ b)
  | _, _ => None
  end.

End SpecV.

Definition norm_issue (i : issue) : issue :=
  match i with
  | MissingNsAddress n => MissingNsAddress (lc n)
  | MissingMxAddress n => MissingMxAddress (lc n)
  | MissingGlue n => MissingGlue (lc n)
  | DuplicateCname n => DuplicateCname (lc n)
  | OtherRecordsAtCname n => OtherRecordsAtCname (lc n)
  | NsAtWildcard n => NsAtWildcard (lc n)
  | other => other
  end.

(* only the MX-address and NS-at-wildcard issues are warnings *)
Definition spec_is_warning (i : issue) : bool :=
  match i with MissingMxAddress _ | NsAtWildcard _ => true | _ => false end.
