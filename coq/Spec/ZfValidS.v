(* What "a valid absolute owner name" means, independently of the parser: the value is the
   representation (Spec/NameRepr.v) of a list of labels of 1..63 octets whose RFC 1035 wire
   form, root label included, has at most 255 octets.  Such a name always ends in the root
   label, i.e. it is absolute. *)
From QV Require Export Spec.NameWireS Spec.NameRepr.

Definition good_label (l : label) : Prop := 1 <= length l <= 63.
Definition good_labels (ls : list label) : Prop := Forall good_label ls /\ wire_len ls <= 255.
Definition good_name (nm : name) : Prop := exists ls, good_labels ls /\ nm = name_of ls.

(* RR types that must never come out of a zone file: NULL, OPT, TSIG (IANA numbers) *)
Definition forbidden_types : list N := [10; 41; 250]%N.
