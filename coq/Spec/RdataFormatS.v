(* Independent specification of the RDATA wire formats (C18), written from the RFCs:
   RFC 1035 §3.3 (<character-string>, <domain-name>), §3.3.1-3.3.14, §3.4.1-3.4.2,
   RFC 1034 §3.6 (CH A), RFC 3596 §2.2 (AAAA), RFC 2782 (SRV), RFC 6891 §6.1.2 (OPT),
   RFC 8945 §4.2 (TSIG), RFC 3597 §4 (which embedded names get decompressed).
   A format is a list of fields; [matches g r] says that the octet string r is
   the concatenation of one encoding per field ("generative": it builds the
   encodings, it does not parse).  TYPE/CLASS numbers and all sizes are the RFCs'
   literals, deliberately not the constants regenerated from the implementation.
   [smatch]/[spec_read] are the executable twins used as oracles on the
   implementation's output; Proofs/RdataFormatSP.v proves them equal to the relations. *)
From QV Require Export Base.Res Base.Octets Spec.NameWireS.

Inductive field :=
| FName              (* <domain-name>: a sequence of labels ending with the root label *)
| FBytes (n : nat)   (* exactly n octets *)
| FCharStr           (* <character-string>: one length octet, then that many octets *)
| FBlob16            (* 16-bit big-endian length, then that many octets *)
| FRest              (* all remaining octets, possibly none (last field only) *)
| FCharStrs1         (* one or more <character-string>s up to the end (last field only) *)
| FOptions.          (* zero or more {code:16, length:16, data} up to the end (last field only) *)

(* RFC 1035 §2.3.4: labels 63 octets or less, names 255 octets or less; a non-root label is not empty *)
Definition valid_label (l : label) : Prop := 1 <= length l /\ length l <= 63.
Definition valid_name (ls : list label) : Prop := Forall valid_label ls /\ wire_len ls <= 255.

Definition be16 (n : N) : bytes := [(n / 256)%N; (n mod 256)%N].
Definition charstr (s : bytes) : bytes := N.of_nat (length s) :: s.
Definition blob16 (b : bytes) : bytes := be16 (N.of_nat (length b)) ++ b.
(* an EDNS option: (2-octet code, data) *)
Definition option_enc (o : bytes * bytes) : bytes := fst o ++ blob16 (snd o).
Definition valid_charstr (s : bytes) : Prop := length s <= 255.
Definition valid_blob16 (b : bytes) : Prop := (N.of_nat (length b) < 65536)%N.
Definition valid_option (o : bytes * bytes) : Prop := length (fst o) = 2 /\ valid_blob16 (snd o).

Inductive matches : list field -> bytes -> Prop :=
| m_nil : matches [] []
| m_name ls g rest :
    valid_name ls -> matches g rest -> matches (FName :: g) (wire_of ls ++ rest)
| m_bytes n b g rest :
    length b = n -> matches g rest -> matches (FBytes n :: g) (b ++ rest)
| m_charstr s g rest :
    valid_charstr s -> matches g rest -> matches (FCharStr :: g) (charstr s ++ rest)
| m_blob16 b g rest :
    valid_blob16 b -> matches g rest -> matches (FBlob16 :: g) (blob16 b ++ rest)
| m_rest b : matches [FRest] b
| m_charstrs1 ss :
    ss <> [] -> Forall valid_charstr ss -> matches [FCharStrs1] (flat_map charstr ss)
| m_options os :
    Forall valid_option os -> matches [FOptions] (flat_map option_enc os).

Definition one_of (t : N) (l : list N) : bool := existsb (N.eqb t) l.

(* The format of (class, type).  Types defined for all classes come first; A, WKS,
   AAAA, SRV are Internet-class formats; A in class CH is "a domain name followed by
   a 16 bit octal Chaos address"; NULL (10) and every other type are opaque. *)
Definition grammar (c t : N) : list field :=
  if one_of t [2; 3; 4; 5; 7; 8; 9; 12]%N then [FName]            (* NS MD MF CNAME MB MG MR PTR *)
  else if (t =? 6)%N then [FName; FName; FBytes 4; FBytes 4; FBytes 4; FBytes 4; FBytes 4]  (* SOA *)
  else if (t =? 13)%N then [FCharStr; FCharStr]                    (* HINFO: CPU, OS *)
  else if (t =? 14)%N then [FName; FName]                          (* MINFO: RMAILBX, EMAILBX *)
  else if (t =? 15)%N then [FBytes 2; FName]                       (* MX: PREFERENCE, EXCHANGE *)
  else if (t =? 16)%N then [FCharStrs1]                            (* TXT *)
  else if (t =? 41)%N then [FOptions]                              (* OPT *)
  else if (t =? 250)%N then                                        (* TSIG: algorithm, time signed,
       fudge, MAC size + MAC, original ID, error, other len + other data *)
    [FName; FBytes 6; FBytes 2; FBlob16; FBytes 2; FBytes 2; FBlob16]
  else if (c =? 1)%N then
    if (t =? 1)%N then [FBytes 4]                                  (* A *)
    else if (t =? 11)%N then [FBytes 4; FBytes 1; FRest]           (* WKS: ADDRESS, PROTOCOL, BIT MAP *)
    else if (t =? 28)%N then [FBytes 16]                           (* AAAA *)
    else if (t =? 33)%N then [FBytes 2; FBytes 2; FBytes 2; FName] (* SRV: priority weight port target *)
    else [FRest]
  else if (c =? 3)%N then
    if (t =? 1)%N then [FName; FBytes 2] else [FRest]              (* CH A *)
  else [FRest].

Definition is_FName (f : field) : bool := match f with FName => true | _ => false end.

(* RFC 3597 §4: receivers decompress the names of the RFC 1035 types (MUST) and of
   SRV (SHOULD); CH A (RFC 1034) is treated alike.  The TSIG algorithm name MUST NOT
   be compressed (RFC 8945 §4.2) and is not decompressed. *)
Definition decompressed (c t : N) : bool :=
  existsb is_FName (grammar c t) && negb (t =? 250)%N.

(* Reading a format with compressed names out of a message: position [pos], the
   RDATA ends at [e].  Names are decoded by the RFC 1035 §4.1.4 relation of
   Spec/NameWireS.v inside the message cut at the end of the RDATA, and appear in
   the result in uncompressed form. *)
Inductive cmatches (msg : bytes) (e : nat) : nat -> list field -> bytes -> Prop :=
| cm_nil : cmatches msg e e [] []
| cm_name pos ls l g out :
    decodes_name (firstn e msg) pos ls l -> cmatches msg e (pos + l) g out ->
    cmatches msg e pos (FName :: g) (wire_of ls ++ out)
| cm_bytes pos n g out :
    pos + n <= e -> cmatches msg e (pos + n) g out ->
    cmatches msg e pos (FBytes n :: g) (slice msg pos (pos + n) ++ out).

(* What Rdata::read must return for RDLENGTH octets at [cur]. *)
Definition read_spec (c t : N) (msg : bytes) (cur : nat) (rdlen : N) (r : bytes) : Prop :=
  let e := cur + N.to_nat rdlen in
  e <= length msg /\
  if decompressed c t then cmatches msg e cur (grammar c t) r
  else r = slice msg cur e /\ matches (grammar c t) r.

(* ---- executable twins ------------------------------------------------------------- *)

(* length of the uncompressed name at the start of r (chunk start 0: no pointer is legal) *)
Definition sname (r : bytes) : option nat :=
  match spec_decode_name r 0 with Some (_, l) => Some l | None => None end.

Fixpoint s_charstrs (fuel : nat) (r : bytes) : bool :=
  match fuel with
  | O => false
  | S f =>
    match r with
    | [] => true
    | len :: tl =>
      if N.to_nat len <=? length tl then s_charstrs f (skipn (N.to_nat len) tl) else false
    end
  end.

Fixpoint s_options (fuel : nat) (r : bytes) : bool :=
  match fuel with
  | O => false
  | S f =>
    match r with
    | [] => true
    | _ :: _ :: l1 :: l2 :: tl =>
      let n := N.to_nat (l1 * 256 + l2) in
      if n <=? length tl then s_options f (skipn n tl) else false
    | _ => false
    end
  end.

Fixpoint smatch (g : list field) (r : bytes) : bool :=
  match g with
  | [] => match r with [] => true | _ => false end
  | FName :: g' =>
    match sname r with Some l => smatch g' (skipn l r) | None => false end
  | FBytes n :: g' => (n <=? length r) && smatch g' (skipn n r)
  | FCharStr :: g' =>
    match r with
    | len :: tl => (N.to_nat len <=? length tl) && smatch g' (skipn (N.to_nat len) tl)
    | [] => false
    end
  | FBlob16 :: g' =>
    match r with
    | l1 :: l2 :: tl =>
      let n := N.to_nat (l1 * 256 + l2) in
      (n <=? length tl) && smatch g' (skipn n tl)
    | _ => false
    end
  | FRest :: g' => match g' with [] => true | _ => false end
  | FCharStrs1 :: g' =>
    match g' with
    | [] => match r with [] => false | _ => s_charstrs (S (length r)) r end
    | _ => false
    end
  | FOptions :: g' =>
    match g' with [] => s_options (S (length r)) r | _ => false end
  end.

Definition spec_valid (c t : N) (r : bytes) : bool := smatch (grammar c t) r.

Fixpoint s_cmatch (msg : bytes) (e pos : nat) (g : list field) : option bytes :=
  match g with
  | [] => if pos =? e then Some [] else None
  | FName :: g' =>
    match spec_decode_name (firstn e msg) pos with
    | Some (ls, l) =>
      match s_cmatch msg e (pos + l) g' with
      | Some out => Some (wire_of ls ++ out)
      | None => None
      end
    | None => None
    end
  | FBytes n :: g' =>
    if pos + n <=? e then
      match s_cmatch msg e (pos + n) g' with
      | Some out => Some (slice msg pos (pos + n) ++ out)
      | None => None
      end
    else None
  | _ => None
  end.

Definition spec_read (c t : N) (msg : bytes) (cur : nat) (rdlen : N) : option bytes :=
  let e := cur + N.to_nat rdlen in
  if e <=? length msg then
    if decompressed c t then s_cmatch msg e cur (grammar c t)
    else let r := slice msg cur e in if smatch (grammar c t) r then Some r else None
  else None.
