(* Independent, spec-level reading of a whole DNS REQUEST in message order (RFC 1035 §4.1,
   RFC 6891 §6.1.1, RFC 8945 §5.2), written from the RFCs and the text of properties C03, C08
   and C09 — not from src/server/mod.rs.  Built only on the spec decoders: [spec_decode_name]
   (Spec/NameWireS.v), [sbe16]/[sbe32] (Spec/ReaderS.v), and the "delimit a record" step below.
   Literals (63, 192, 255, 41, 250, ...) are the RFCs', never the regenerated constants.

   [first_problem] classifies a request by the FIRST thing wrong with it, walking the message
   in order; [s_opt_reached] says whether that walk meets an OPT record of the additional
   section.  Proofs/MsgWalkP.v proves the server model decides exactly this. *)
From QV Require Export Spec.ReaderS.

(* ---- the first label sequence at an offset (no pointer is followed) ---------------------- *)
(* labels of 1..63 octets, ended by the root label or by a 2-octet pointer; [used] counts the
   octets of the labels so far: with the terminating octet the sequence must fit in 255.
   Some (end offset, ended by a pointer) *)
Fixpoint s_name_end (fuel : nat) (b : bytes) (i used : nat) : option (nat * bool) :=
  match fuel with
  | O => None
  | S f =>
    match nth_error b i with
    | None => None
    | Some len =>
      if (len =? 0)%N then (if used + 1 <=? 255 then Some (i + 1, false) else None)
      else if (len <=? 63)%N then s_name_end f b (i + 1 + N.to_nat len) (used + 1 + N.to_nat len)
      else if (192 <=? len)%N then (if used + 1 <=? 255 then Some (i + 2, true) else None)
      else None
    end
  end.
Definition s_first_name (b : bytes) (i : nat) : option (nat * bool) := s_name_end (S (length b)) b i 0.

(* a QNAME written without compression: the label sequence at offset 12 ends in the root label *)
Definition qname_uncompressed (req : bytes) : Prop := exists e, s_first_name req 12 = Some (e, false).

(* ---- delimiting a record --------------------------------------------------------------- *)
(* owner = first label sequence; TYPE CLASS TTL RDLENGTH = 10 fixed octets; RDLENGTH octets of
   RDATA inside the message.  Some (offset of TYPE, offset just after the record) *)
Definition s_delimit (b : bytes) (c : nat) : option (nat * nat) :=
  match s_first_name b c with
  | None => None
  | Some (oe, _) =>
    match sbe16 b (oe + 8) with
    | None => None
    | Some rdlen => if oe + 10 + N.to_nat rdlen <=? length b then Some (oe, oe + 10 + N.to_nat rdlen) else None
    end
  end.

(* ---- OPT and TSIG records ---------------------------------------------------------------- *)
(* RFC 6891 §6.1.2: the RDATA of an OPT is a sequence of {code(2), length(2), data(length)} *)
Fixpoint s_options_tile (fuel : nat) (rd : bytes) : bool :=
  match fuel with
  | O => false
  | S f =>
    match rd with
    | [] => true
    | _ => match sbe16 rd 2 with
           | Some len => (4 + N.to_nat len <=? length rd) && s_options_tile f (skipn (4 + N.to_nat len) rd)
           | None => false
           end
    end
  end.
Definition s_opt_rdata_ok (rd : bytes) : bool := s_options_tile (S (length rd)) rd.

(* RFC 8945 §4.2: algorithm name (uncompressed), time signed (6), fudge (2), MAC size (2), MAC,
   original ID (2), error (2), other len (2), other data — exactly filling the RDATA *)
Definition s_tsig_rdata_ok (rd : bytes) : bool :=
  match s_first_name rd 0 with
  | Some (al, false) =>
    match sbe16 rd (al + 8) with
    | Some mac =>
      match sbe16 rd (al + 10 + N.to_nat mac + 4) with
      | Some other => al + 10 + N.to_nat mac + 6 + N.to_nat other =? length rd
      | None => false
      end
    | None => false
    end
  | _ => false
  end.

(* ---- what can be wrong with a request, in message order ------------------------------------ *)
Inductive problem :=
| QuestionUnparseable
| RecordUndelimitable (i : nat)        (* i: index of the record among all counted records *)
| PseudoOutsideAdditional (i : nat)    (* OPT or TSIG in the answer or authority section *)
| SecondOpt (i : nat)
| OptMalformed (i : nat)               (* owner not the root (or undecodable), or options do not tile the RDATA *)
| TsigNotLast (i : nat)
| TsigMalformed (i : nat)              (* owner undecodable, RDATA layout, CLASS not ANY, TTL not 0 *)
| QueryWithoutQuestion
| TrailingOctets.

Inductive verdict :=
| VSilent                              (* no response at all: < 12 octets, QR set, QDCOUNT > 1 *)
| VFormerr (p : problem)
| VBadVers (i : nat)                   (* a well-formed OPT with EDNS version <> 0, before any problem *)
| VTsig (i : nat) (then_ : option problem)
    (* a well-formed TSIG as the last record, before any problem: key lookup and HMAC verification
       (C10/C11) decide; if it verifies, [then_] is what is still wrong with the request *)
| VClean.

(* header *)
Definition s_qr (b : bytes) : option bool :=
  match nth_error b 2 with Some x => Some (128 <=? x)%N | None => None end.
Definition s_opcode (b : bytes) : option N :=
  match nth_error b 2 with Some x => Some ((x / 8) mod 16)%N | None => None end.

(* the question at offset 12: offset just after it *)
Definition s_question_end (b : bytes) : option nat :=
  match spec_decode_name b 12 with
  | Some (_, l) =>
    match sbe16 b (12 + l), sbe16 b (12 + l + 2) with
    | Some _, Some _ => Some (12 + l + 4)
    | _, _ => None
    end
  | None => None
  end.

(* answer and authority records: Some offset after them, or the problem *)
Fixpoint s_walk_an_ns (n : nat) (b : bytes) (c idx : nat) : problem + nat :=
  match n with
  | O => inr c
  | S n' =>
    match s_delimit b c with
    | None => inl (RecordUndelimitable idx)
    | Some (oe, e) =>
      match sbe16 b oe with
      | Some ty => if (ty =? 41)%N || (ty =? 250)%N then inl (PseudoOutsideAdditional idx)
                   else s_walk_an_ns n' b e (S idx)
      | None => inl (RecordUndelimitable idx)
      end
    end
  end.

(* the tail of the walk: after the last counted record *)
Definition s_after_records (b : bytes) (c : nat) (has_question : bool) : option problem :=
  if c <? length b then Some TrailingOctets
  else match s_opcode b with
       | Some 0%N => if has_question then None else Some QueryWithoutQuestion
       | _ => None
       end.

Definition s_owner_is_root (b : bytes) (c : nat) : bool :=
  match spec_decode_name b c with Some ([], _) => true | _ => false end.
Definition s_owner_decodes (b : bytes) (c : nat) : bool :=
  match spec_decode_name b c with Some _ => true | None => false end.

(* one record of the additional section, read at offset c; [seen]: an OPT has been met before;
   [last]: it is the last counted record.  [e] is the offset just after the record. *)
Inductive rec_class :=
| RUndelim | RSecondOpt | ROptMalformed | RBadVers | ROptOk (e : nat)
| RTsigNotLast | RTsigMalformed | RTsig (e : nat) | ROrdinary (e : nat).

Definition s_classify (b : bytes) (c : nat) (seen last : bool) : rec_class :=
  match s_delimit b c with
  | None => RUndelim
  | Some (oe, e) =>
    match sbe16 b oe, sbe16 b (oe + 2), sbe32 b (oe + 4) with
    | Some ty, Some cl, Some ttl =>
      if (ty =? 41)%N then
        if seen then RSecondOpt
        else if negb (s_owner_is_root b c && s_opt_rdata_ok (slice b (oe + 10) e)) then ROptMalformed
        else if negb ((ttl / 65536) mod 256 =? 0)%N then RBadVers     (* RFC 6891 §6.1.3: VERSION = bits 23..16 of the TTL field *)
        else ROptOk e
      else if (ty =? 250)%N then
        if negb last then RTsigNotLast
        else if negb (s_owner_decodes b c && s_tsig_rdata_ok (slice b (oe + 10) e) && (cl =? 255)%N && (spec_ttl ttl =? 0)%N)
             then RTsigMalformed
             else RTsig e
      else ROrdinary e
    | _, _, _ => RUndelim
    end
  end.

(* the additional records in order: the first problem / EDNS version error / TSIG, or their end *)
Inductive ar_result := ArFormerr (p : problem) | ArBadVers (i : nat) | ArTsig (i e : nat) | ArEnd (e : nat).

Fixpoint s_walk_ar (n : nat) (b : bytes) (c idx : nat) (seen : bool) : ar_result :=
  match n with
  | O => ArEnd c
  | S n' =>
    match s_classify b c seen (match n' with O => true | S _ => false end) with
    | RUndelim => ArFormerr (RecordUndelimitable idx)
    | RSecondOpt => ArFormerr (SecondOpt idx)
    | ROptMalformed => ArFormerr (OptMalformed idx)
    | RBadVers => ArBadVers idx
    | ROptOk e => s_walk_ar n' b e (S idx) true
    | RTsigNotLast => ArFormerr (TsigNotLast idx)
    | RTsigMalformed => ArFormerr (TsigMalformed idx)
    | RTsig e => ArTsig idx e
    | ROrdinary e => s_walk_ar n' b e (S idx) seen
    end
  end.

Definition s_finish (b : bytes) (has_question : bool) (r : ar_result) : verdict :=
  match r with
  | ArFormerr p => VFormerr p
  | ArBadVers i => VBadVers i
  | ArTsig i e => VTsig i (s_after_records b e has_question)
  | ArEnd e => match s_after_records b e has_question with Some p => VFormerr p | None => VClean end
  end.

Definition s_walk_sections (b : bytes) (c : nat) (has_question : bool) : verdict :=
  match sbe16 b 6, sbe16 b 8, sbe16 b 10 with
  | Some an, Some ns, Some ar =>
    match s_walk_an_ns (N.to_nat an + N.to_nat ns) b c 0 with
    | inl p => VFormerr p
    | inr c' => s_finish b has_question (s_walk_ar (N.to_nat ar) b c' (N.to_nat an + N.to_nat ns) false)
    end
  | _, _, _ => VSilent
  end.

Definition first_problem (b : bytes) : verdict :=
  if length b <? 12 then VSilent
  else match s_qr b, sbe16 b 4 with
       | Some false, Some qd =>
         if (qd =? 0)%N then s_walk_sections b 12 false
         else if (qd =? 1)%N then
           match s_question_end b with
           | Some c => s_walk_sections b c true
           | None => VFormerr QuestionUnparseable
           end
         else VSilent
       | _, _ => VSilent
       end.

(* ---- "processing reaches an OPT record" (C09) ----------------------------------------------- *)
(* the question (if any) is in order, the answer/authority records are delimitable and contain no
   OPT/TSIG, and the additional records, read in order over delimitable ordinary records, present a
   record of type OPT before an undelimitable record, a TSIG record or the end *)
Fixpoint s_opt_ahead (n : nat) (b : bytes) (c : nat) : bool :=
  match n with
  | O => false
  | S n' =>
    match s_delimit b c with
    | None => false
    | Some (oe, e) =>
      match sbe16 b oe with
      | Some ty => if (ty =? 41)%N then true else if (ty =? 250)%N then false else s_opt_ahead n' b e
      | None => false
      end
    end
  end.

Definition s_reach_from (b : bytes) (c : nat) : bool :=
  match sbe16 b 6, sbe16 b 8, sbe16 b 10 with
  | Some an, Some ns, Some ar =>
    match s_walk_an_ns (N.to_nat an + N.to_nat ns) b c 0 with
    | inl _ => false
    | inr c' => s_opt_ahead (N.to_nat ar) b c'
    end
  | _, _, _ => false
  end.

Definition s_opt_reached (b : bytes) : bool :=
  if length b <? 12 then false
  else match sbe16 b 4 with
       | Some qd =>
         if (qd =? 0)%N then s_reach_from b 12
         else if (qd =? 1)%N then
           match s_question_end b with Some c => s_reach_from b c | None => false end
         else false
       | None => false
       end.
