From Coq Require Import Extraction ExtrOcamlBasic.
From QV Require Import Model.Rrl Spec.RrlBucketS.
Extraction Language OCaml.
Separate Extraction
  params_new set_slip set_ipv4_prefix_len set_ipv6_prefix_len set_size rrl_new
  received_info_source run_history_gen run_requests final_response key_of
  bucket_run bucket_step limited_verdict N.add N.mul N.sub N.div N.modulo N.leb N.eqb.
