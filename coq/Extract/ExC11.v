From Coq Require Import Extraction ExtrOcamlBasic.
From QV Require Import Model.TsigMsg.
Extraction Language OCaml.
Separate Extraction
  read_tsig_try_from validate_as_tsig verify sign unsigned unsigned_len signed_len new_from_read
  alg_from_name r_time_signed r_fudge r_mac r_original_id r_error r_other read_digest sign_digest
  finish_tsig reserved_len tsig_rr_uncompressed time_signed_of_unix to_unix_time to_lowercase_name ttl_of_u32 finish_tail opt_rr.
