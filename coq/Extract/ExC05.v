From Coq Require Import Extraction ExtrOcamlBasic.
From QV Require Import Model.ZoneTree Spec.ZoneLookupS Model.Query Spec.ResolveS Spec.ResolveRepr Model.Server.
Extraction Language OCaml.
Separate Extraction zone_new zone_build req_simple accepted answer_rec answer_rec_prefix resolve norm_rec
  cat_lookup name_key wire_labels lower_labels.
