From Coq Require Import Extraction ExtrOcamlBasic.
From QV Require Import Gen.IoConsts Model.Framing Spec.FramingS.
Extraction Language OCaml.
Separate Extraction
  run_tcp_blocking run_tcp_tokio udp_blocking udp_tokio
  deframe service frame udp_answer DEFAULT_EDNS_UDP_PAYLOAD_SIZE.
