From Coq Require Import Extraction ExtrOcamlBasic.
From QV Require Import Model.ZfFs Model.ZfParser Model.ZfInc Spec.ZfIncS.
Extraction Language OCaml.
Separate Extraction full_open_and_run full_expand_root parse_all rdata_validate.
