From Coq Require Import Extraction ExtrOcamlBasic.
From QV Require Import Model.NameWire Model.Reader Model.RdataLite Model.Server Spec.NameWireS Spec.NameRepr
  Model.ZoneTree Model.Query Model.MsgWriter Model.QueryW Spec.MsgWriterS Spec.RespS.
Extraction Language OCaml.
Separate Extraction handle_message name_key wire_labels lower_labels
  zone_new zone_build req_simple answer_rec labels_of neg_ttl respond_w respond_plain decode_msg
  wf_response wf_decoded pair_check.
