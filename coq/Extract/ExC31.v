From Coq Require Import Extraction ExtrOcamlBasic.
From QV Require Import Model.CatTree Model.Reload Spec.CatTreeS Spec.ReloadS.
Extraction Language OCaml.
Separate Extraction
  daemon_start_gen reload_step_gen cat_lookup cat_new lower_name
  spec_reload spec_zone canon.
