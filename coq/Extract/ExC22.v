From Coq Require Import Extraction ExtrOcamlBasic.
From QV Require Import Model.CatTree Spec.CatTreeS.
Extraction Language OCaml.
Separate Extraction
  cat_new cat_step cat_step_gen cat_run cat_iter single_lookup single_get
  l_step l_run l_lookup l_get.
