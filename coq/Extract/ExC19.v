From Coq Require Import Extraction ExtrOcamlBasic.
From QV Require Import Model.NameWire Model.RdataM Model.RdataSetM Spec.RdataFormatS Spec.RdataEqS.
Extraction Language OCaml.
Separate Extraction equals equals_prefix from_iter set_iter spec_equals nodup_by.
