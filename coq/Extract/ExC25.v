From Coq Require Import Extraction ExtrOcamlBasic.
From QV Require Import Model.ZfFs Model.ZfMini Spec.ZfFsS.
Extraction Language OCaml.
Separate Extraction mini_run mini_pline mini_ctx0 expand.
