From Coq Require Import Extraction ExtrOcamlBasic.
From QV Require Import Model.ZfStd Model.ZfReader Model.ZfParser Model.ZfRecOnly.
Extraction Language OCaml.
Separate Extraction
  parse_all parser_new parser_next rdata_validate ro_all ro_next
  parse_uint ipv4_from_str ipv6_from_str utf8_valid class_from_str type_from_str
  U8_MAX U16_MAX U32_MAX.
