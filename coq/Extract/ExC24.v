From Coq Require Import Extraction ExtrOcamlBasic.
From QV Require Import Model.ZfStd Model.ZfReader Model.ZfParser Model.ZfRecOnly Spec.NameWireS Spec.ZfRenderS.
Extraction Language OCaml.
Separate Extraction
  parse_all parser_new parser_next rdata_validate ro_all ro_next
  render file_ok number_lines sctx0 rdata_wire wire_of rfc_order impl_order
  parse_uint ipv4_from_str ipv6_from_str utf8_valid class_from_str type_from_str
  U8_MAX U16_MAX U32_MAX.
