From Coq Require Import Extraction ExtrOcamlBasic.
From QV Require Import Model.NameWire Model.NameText Spec.NameWireS Spec.NameRepr Spec.NameTextS.
Extraction Language OCaml.
Separate Extraction
  parse_uncompressed_name label_at labels name_len
  name_from_str lowercase_name_from_str name_to_text label_to_text label_try_from
  name_eq name_cmp name_hash_stream eq_or_subdomain_of label_eq label_cmp label_hash_stream
  superdomain make_ascii_lowercase lowercase_name_from is_root is_wildcard wire_repr_to wire_repr_from
  builder_new try_push try_push_slice next_label is_fully_qualified finish finish_with_suffix
  spec_decode_name name_of wire_of
  spec_of_text spec_eqb spec_cmp spec_subdomainb spec_superdomain spec_label spec_lowercase spec_is_wildcard
  lex_cmp wf_nameb.
