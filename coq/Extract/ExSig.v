From Coq Require Import Extraction ExtrOcamlBasic.
From QV Require Import Spec.NameWireS Spec.MsgWriterS Spec.RespS Spec.RespSigS.
Extraction Language OCaml.
Separate Extraction decode_msg wf_response pair_check pair_check_signed pair_check_signed_at.
