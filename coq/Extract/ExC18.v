From Coq Require Import Extraction ExtrOcamlBasic.
From QV Require Import Model.NameWire Model.RdataM Spec.RdataFormatS Spec.RdataCompS.
Extraction Language OCaml.
Separate Extraction
  validate read components component_octets spec_valid spec_read grammar decompressed spec_components.
