From Coq Require Import Extraction ExtrOcamlBasic NArith.
From QV Require Import Model.Snapshot.
Extraction Language OCaml.
(* N.succ only so that BinNums is extracted: ocaml/qvutil.ml (shared) opens it *)
Separate Extraction exec init fresh cat_at keys_at N.succ.
