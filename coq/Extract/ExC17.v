From Coq Require Import Extraction ExtrOcamlBasic.
From QV Require Import Model.DecU16 Model.CodeText Spec.CodeTextS.
Extraction Language OCaml.
Separate Extraction
  type_from_str class_from_str qtype_from_str qclass_from_str
  type_to_string class_to_string qtype_to_string qclass_to_string
  opcode_try_from rcode_try_from rcode_try_from_ext ercode_from_rcode
  opcode_to_string rcode_to_string ercode_to_string
  u16_from_str u16_display
  spec_type spec_class spec_qtype spec_qclass
  spec_type_texts spec_class_texts spec_qtype_texts spec_qclass_texts spec_is_4bit.
