From Coq Require Import Extraction ExtrOcamlBasic.
From QV Require Import Model.Rrl Spec.RrlStreamS.
Extraction Language OCaml.
Separate Extraction
  params_new set_slip set_ipv4_prefix_len set_ipv6_prefix_len set_size rrl_new
  received_info_source run_requests final_response key_of
  same_stream limitable N.add N.mul N.leb N.eqb.
