From Coq Require Import Extraction ExtrOcamlBasic.
From QV Require Import Model.MsgWriter Spec.MsgWriterS.
Extraction Language OCaml.
Separate Extraction run_writer run_writer_prefix panic_trace judge judge13 judge_panic.
