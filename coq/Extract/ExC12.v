From Coq Require Import Extraction ExtrOcamlBasic.
From QV Require Import Model.MsgWriter.
Extraction Language OCaml.
Separate Extraction run_writer run_writer_prefix.
