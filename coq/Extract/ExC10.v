From Coq Require Import Extraction ExtrOcamlBasic.
From QV Require Import Model.TsigMsg Model.TsigSrv.
Extraction Language OCaml.
Separate Extraction handle_tsig response_tsig read_tsig_try_from be48 p_other output_size alg_name ttl_of_u32.
