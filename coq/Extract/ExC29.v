From Coq Require Import Extraction ExtrOcamlBasic NArith.
From QV Require Import Model.Pool Model.PoolTrace.
Extraction Language OCaml.
(* N.of_nat only so that BinNums (needed by ocaml/qvutil.ml) is extracted *)
Separate Extraction
  step run init_state validate accepts accept_event event_labels all_quiescent quiescent N.of_nat.
