From Coq Require Import Extraction ExtrOcamlBasic.
From QV Require Import Model.ZoneTree Model.ZoneValid Model.RdataBuf Spec.ZoneLookupS Spec.ZoneValidS
  Model.ZoneReal Spec.ZoneRealS.
From QV Require Model.RdataM Model.NameWire Spec.RdataEqS.
Extraction Language OCaml.
Separate Extraction
  zone_new zone_add zone_build zone_lookup zone_lookup_addrs zone_lookup_all
  zone_soa zone_ns zone_iter_by_node zone_iter_by_rrset node_iter_sm
  lc accepted add_verdict exists_name spec_rrsets spec_rrset single_of spec_nodes_of
  spec_lookup spec_lookup_addrs spec_lookup_all spelled spell_lookup spell_addrs spell_all
  buf_insert buf_rdatas dedup_first
  zone_validate spec_validate norm_issue issue_is_error spec_is_warning
  req_real parse_real spec_req spec_rdata_name RdataM.equals NameWire.parse_uncompressed_name.
