From Coq Require Import Extraction ExtrOcamlBasic.
From QV Require Import Model.NameWire Spec.NameWireS Spec.NameRepr.
Extraction Language OCaml.
Separate Extraction
  parse_compressed_name parse_uncompressed_name validate_uncompressed_name
  skip_compressed_name label_at spec_decode_name name_of wire_of.
