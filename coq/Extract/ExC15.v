From Coq Require Import Extraction ExtrOcamlBasic.
From QV Require Import Model.NameWire Model.Reader Model.RdataLite Model.RdataFull Spec.NameWireS Spec.NameRepr Spec.ReaderS.
Extraction Language OCaml.
Separate Extraction reader_new step rd_lite rd_full label_at spec_decode_name name_of sbe16 sbe32 spec_ttl.
