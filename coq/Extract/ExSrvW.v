From Coq Require Import Extraction ExtrOcamlBasic.
From QV Require Import Model.NameWire Model.Reader Model.RdataLite Model.Server Spec.NameWireS Spec.NameRepr
  Model.ZoneTree Model.Query Model.MsgWriter Model.QueryW Model.ServerW Model.ServerWT Spec.MsgWriterS Model.CatTree Model.ServerCat.
From QV Require Model.TsigMsg.
Extraction Language OCaml.
Separate Extraction handle_message_wt handle_message_w handle_message name_key wire_labels lower_labels tsig_alg_len get16 alg_name_wire
  parse_uncompressed_name spec_decode_name name_of
  zone_new zone_build req_simple answer_rec labels_of neg_ttl respond_w respond_plain decode_msg
  tree_of_history flat_of_tree
  TsigMsg.read_tsig_try_from TsigMsg.verify TsigMsg.time_signed_of_unix tsig_alg_of.
