From Coq Require Import Extraction ExtrOcamlBasic.
From QV Require Import Model.Rrl Model.RrlConc.
Extraction Language OCaml.
Separate Extraction
  params_new set_slip set_ipv4_prefix_len set_ipv6_prefix_len set_size rrl_new
  received_info_source final_response key_of
  cstep cinit all_done crun N.add N.mul N.leb N.eqb.
