(* verify_* does not panic on ANY RDATA that passed validate_as_tsig (what the Reader delivers),
   given the documented preconditions on the message and the algorithm. *)
From QV Require Import Base.ListX Model.TsigMsg Proofs.NameWireP Proofs.TsigEncP.

Lemma validated_layout rd : validate_as_tsig rd = Ok tt ->
  exists nm alen ms ol,
    parse_uncompressed_name rd false = Ok (nm, alen) /\ n_wire nm = firstn alen rd /\
    get_u16 rd (alen + 8) = Some ms /\ get_u16 rd (alen + N.to_nat ms + 14) = Some ol /\
    alen + N.to_nat ms + N.to_nat ol + 16 = length rd.
Proof.
  unfold validate_as_tsig. rewrite validate_agrees.
  destruct (parse_uncompressed_name rd false) as [[nm alen]|e|] eqn:P; cbn [map_ok snd]; try discriminate.
  destruct (get_u16 rd (alen + 8)) as [ms|] eqn:G1; [|discriminate].
  destruct (get_u16 rd (alen + N.to_nat ms + 14)) as [ol|] eqn:G2; [|discriminate].
  destruct (alen + N.to_nat ms + N.to_nat ol + 16 =? length rd) eqn:E; [|discriminate].
  intros _. apply Nat.eqb_eq in E. exists nm, alen, ms, ol. repeat split; auto.
  unfold parse_uncompressed_name in P.
  destruct (unc_loop unc_fuel rd 0 []) as [[o offs]|e|]; cbn [bind] in P; try discriminate.
  cbn [andb] in P. inversion P; subst. reflexivity.
Qed.

Theorem try_from_total rr : validate_as_tsig (rr_rdata rr) = Ok tt ->
  rr_type rr = TYPE_TSIG -> rr_class rr = QCLASS_ANY -> rr_ttl rr = 0%N ->
  exists r, read_tsig_try_from rr = Ok r /\ r_rdata r = rr_rdata rr /\
    exists ol, r_algo_len r + r_mac_len r + ol + 16 = length (rr_rdata rr).
Proof.
  intros V Ht Hc Hl. destruct (validated_layout _ V) as (nm & alen & ms & ol & P & W & G1 & G2 & L).
  unfold read_tsig_try_from. rewrite Ht, Hc, Hl, !N.eqb_refl. cbn [negb orb]. rewrite P, G1.
  eexists. split; [reflexivity|]. split; [reflexivity|].
  exists (N.to_nat ol). unfold r_algo_len, r_mac_len, to_lowercase_name. cbn [r_algorithm r_mac_size].
  rewrite map_length, W, firstn_length. apply get_u16_Some in G1. lia.
Qed.

Lemma alg_from_name_eqb n a : alg_from_name n = Some a -> name_eqb n (alg_name a) = true.
Proof.
  unfold alg_from_name. destruct (name_eqb n HMAC_SHA1_NAME_WIRE) eqn:E1.
  - intros H. inversion H; subst. exact E1.
  - destruct (name_eqb n HMAC_SHA256_NAME_WIRE) eqn:E2; [|discriminate].
    intros H. inversion H; subst. exact E2.
Qed.

Lemma amm_total {E} msg oid : 12 <= length msg -> be_dec (slice msg 10 12) <> 0%N ->
  exists d, @add_modified_message E msg oid = Ok d.
Proof.
  intros L Z. unfold add_modified_message.
  change id_end with 2. change arcount_start with 10. change arcount_end with 12.
  rewrite (get_range_ok msg 2 10) by lia. rewrite (get_range_ok msg 10 12) by lia.
  apply N.eqb_neq in Z. rewrite Z. rewrite get_from_ok by lia. eauto.
Qed.

Section Total.
Variable hmac : alg -> bytes -> bytes -> bytes.

Theorem verify_total r ol msg mode a key now :
  r_algo_len r + r_mac_len r + ol + 16 = length (r_rdata r) ->
  alg_from_name (r_algorithm r) = Some a ->
  12 <= length msg -> be_dec (slice msg 10 12) <> 0%N ->
  (match mode with VResponse pm => (N.of_nat (length pm) <= 65535)%N | _ => True end) ->
  verify hmac r msg mode a key now <> Panic.
Proof.
  intros L Ha Lm Z Hpm.
  assert (T1 : exists x, r_time_signed r = Some x) by (unfold r_time_signed; rewrite get_range_ok by lia; eauto).
  assert (T2 : exists x, r_fudge r = Some x) by (apply get_u16_ok; lia).
  assert (T3 : exists x, r_mac r = Some x) by (unfold r_mac; rewrite get_range_ok by lia; eauto).
  assert (T4 : exists x, r_original_id r = Some x) by (apply get_u16_ok; lia).
  assert (T5 : exists x, r_error r = Some x) by (apply get_u16_ok; lia).
  assert (T6 : exists x, r_other r = Some x) by (unfold r_other; rewrite get_from_ok by lia; eauto).
  destruct T1 as [ts T1], T2 as [fu T2], T3 as [mac T3], T4 as [oid T4], T5 as [er T5], T6 as [ot T6].
  destruct (@amm_total verr msg oid Lm Z) as [mm Hmm].
  assert (D : exists d, read_digest r msg mode = Ok d).
  { unfold read_digest, read_vars. destruct mode; rewrite T4; cbn [unwrap bind]; rewrite Hmm; cbn [bind];
      rewrite T1, T2, T5, T6; cbn [unwrap bind]; eauto. }
  destruct D as [d D].
  assert (C : verification_core hmac r (read_digest r msg mode) a key now <> Panic).
  { unfold verification_core. rewrite (alg_from_name_eqb _ _ Ha). cbn [negb].
    unfold check_mac_size.
    destruct ((output_size a <? N.to_nat (r_mac_size r))
              || (N.to_nat (r_mac_size r) <? Nat.max (N.to_nat TSIG_MIN_MAC_SIZE) ((output_size a + 1) / 2)));
      cbn [bind]; [discriminate|].
    rewrite D. cbn [bind]. rewrite T3. cbn [unwrap bind].
    destruct (verify_truncated_left (hmac a key d) mac (output_size a)); [|discriminate].
    rewrite T1, T2. cbn [unwrap bind]. unfold check_time.
    destruct ((_ <=? _)%N && (_ <=? _)%N); discriminate. }
  destruct mode as [|pm|pm]; cbn [verify]; try exact C.
  assert (E : (65535 <? N.of_nat (length pm))%N = false) by (apply N.ltb_ge; exact Hpm).
  rewrite E. exact C.
Qed.

End Total.
