(* Preservation of [Inv]: a worker's section after a wake-up, and task completion. *)
From Coq Require Import Lia Permutation.
From QV Require Import Model.Pool Proofs.PoolLemmas Proofs.PoolInv.

Lemma inv_work_wake s i k to dl o c s' :
  Inv s -> nth_error (thr s) i = Some (WWoken k to) ->
  step true s (LWork i dl o c) = Some s' -> Inv s'.
Proof.
  intros I E H. simpl in H. rewrite E in H.
  open_inv I. nth_facts E. simpl in *.
  unfold work_wake, work_loop, dec_avail in H; simpl in H.
  destruct (avail s) as [|av] eqn:Ea; [exfalso; lia|].
  destruct (queue s) as [|t q] eqn:Eq; simpl in H.
  - destruct (is_aux k && to && true) eqn:Eto.
    + destruct o; try discriminate; inversion H; subst s'; clear H. inv_case HT HS.
    + destruct (psd s) eqn:Epsd.
      * destruct o; try discriminate; inversion H; subst s'; clear H. inv_case HT HS.
      * destruct (is_aux k && dl) eqn:Edl; destruct o; try discriminate; inversion H; subst s'; clear H;
          inv_case HT HS.
  - rewrite andb_false_r in H.
    destruct o; try discriminate; inversion H; subst s'; clear H. inv_case HT HS.
Qed.

Lemma inv_task_done s i b s' : Inv s -> step true s (LTaskDone i b) = Some s' -> Inv s'.
Proof.
  intros I H. simpl in H.
  destruct (nth_error (thr s) i) as [[]|] eqn:E; try discriminate.
  open_inv I. inversion H; subst s'; clear H.
  destruct b; [|destruct (is_aux k && negb (linger s))]; inv_case HT HS.
Qed.
