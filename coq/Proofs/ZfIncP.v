(* C25 — the include stack machine over a stateful per-file parser (Model/ZfInc.v) computes the
   structural expansion (Spec/ZfIncS.v).  Generic part: any parser, any file system. *)
From QV Require Import Base.Res Base.Octets Model.ZfFs Spec.ZfFsS Proofs.ZfFsP Model.ZfInc Spec.ZfIncS.

Section IncP.
  Variables Origin Own Ttl Cls Rec SErr Num P F : Type.
  Notation ctx := (ZfFs.ctx Origin Own Ttl Cls).
  Notation pres := (pres Origin Rec SErr Num P).
  Notation entry := (ZfInc.entry Num P).
  Notation item := (ZfInc.item Rec Num).
  Notation final := (ZfInc.final SErr Num).
  Variable pnext : P -> pres.
  Variable pctx : P -> ctx.
  Variable pwith : P -> ctx -> P.
  Variable pnew : F -> ctx -> P.
  Variable fs : path -> option F.
  Variable size : P -> nat.
  Variable max_depth : nat.

  Notation nstep := (ZfInc.next_step Origin Own Ttl Cls Rec SErr Num P F pnext pctx pwith pnew fs max_depth).
  Notation run := (ZfInc.run Origin Own Ttl Cls Rec SErr Num P F pnext pctx pwith pnew fs max_depth).
  Notation gexpand := (gexpand Origin Own Ttl Cls Rec SErr Num P F pnext pctx pwith pnew fs size).
  Notation goutcome := (goutcome Origin Own Ttl Cls SErr Num).
  Notation mchain := (ZfInc.make_chain Num P).

  (* complete executions of the machine: what the iterator yields until it returns None *)
  Inductive steps : list entry -> list item -> final -> Prop :=
  | st_done : forall st, nstep st = SDone _ _ _ _ -> steps st [] (FDone _ _)
  | st_fail : forall st p e, nstep st = SFail _ _ _ _ p e -> steps st [] (FBad _ _ p e)
  | st_abort : forall st a, nstep st = SAbort _ _ _ _ a -> steps st [] (FAbort _ _ a)
  | st_emit : forall st it st' l f, nstep st = SEmit _ _ _ _ it st' -> steps st' l f -> steps st (it :: l) f
  | st_silent : forall st st' l f, nstep st = SSilent _ _ _ _ st' -> steps st' l f -> steps st l f.

  Definition gfinal_of (o : goutcome) : final :=
    match o with
    | GCtx _ _ _ _ _ _ _ => FDone _ _
    | GBad _ _ _ _ _ _ p e => FBad _ _ p e
    | GAbort _ _ _ _ _ _ a => FAbort _ _ a
    | GFuel _ _ _ _ _ _ => FOutOfFuel _ _
    end.

  (* what the machine does once the file on top of the stack has been read to its end with
     context cend: the root -> the iteration is over; otherwise the includer resumes *)
  Definition end_steps (rest : list entry) (cend : ctx) (l : list item) (f : final) : Prop :=
    match rest with
    | [] => l = [] /\ f = FDone _ _
    | (p2, fl2, s2) :: rest' =>
        steps ((p2, fl2, pwith s2 (ctx_after_include _ _ _ _ (pctx s2) cend)) :: rest') l f
    end.

  (* one unfolding of the spec, whatever the depth budget *)
  Lemma gexpand_S d chain p k s :
    gexpand d chain p (S k) s =
        match pnext s with
        | PNone _ _ _ _ _ s' => ([], GCtx _ _ _ _ _ _ (pctx s'))
        | PErr _ _ _ _ _ e => ([], GBad _ _ _ _ _ _ p (ISyntax _ _ e))
        | PRec _ _ _ _ _ n r s' => let '(it, o) := gexpand d chain p k s' in ((p, n, r) :: it, o)
        | PAbort _ _ _ _ _ a => ([], GAbort _ _ _ _ _ _ a)
        | PInc _ _ _ _ _ n ip org s' =>
            match d with
            | O => ([], GBad _ _ _ _ _ _ p (ITooDeep _ _ n (chain ++ [(p, n)])))
            | S d' =>
                match compute_path p ip with
                | None => ([], GAbort _ _ _ _ _ _ APanic)
                | Some newp =>
                    match fs newp with
                    | None => ([], GBad _ _ _ _ _ _ p (IOpen _ _ n newp))
                    | Some content =>
                        let child := pnew content (start_ctx _ _ _ _ (pctx s') org) in
                        let '(it, o) := gexpand d' (chain ++ [(p, n)]) newp (S (size child)) child in
                        match o with
                        | GCtx _ _ _ _ _ _ cend =>
                            let '(it', o') := gexpand (S d') chain p k
                                                (pwith s' (resume_ctx _ _ _ _ (pctx s') cend)) in
                            (it ++ it', o')
                        | bad => (it, bad)
                        end
                    end
                end
            end
        end.
  Proof. destruct d; reflexivity. Qed.

  (* the statement for one file on top of the stack; nothing is claimed when the spec's budget
     k was too small *)
  Definition file_goal (d : nat) : Prop := forall k p fl rest s,
    length rest + d = max_depth ->
    match gexpand d (mchain rest fl) p k s with
    | (it, GCtx _ _ _ _ _ _ cend) =>
        forall l f, end_steps rest cend l f -> steps ((p, fl, s) :: rest) (it ++ l) f
    | (_, GFuel _ _ _ _ _ _) => True
    | (it, o) => steps ((p, fl, s) :: rest) it (gfinal_of o)
    end.

  Lemma file_steps_at d : (forall d', d = S d' -> file_goal d') -> file_goal d.
  Proof.
    intros IHd. unfold file_goal. induction k as [|k IHk]; intros p fl rest s Hd.
    - destruct d; simpl; exact I.
    - rewrite gexpand_S.
      destruct (pnext s) as [s'|e|n r s'|n ip org s'|a] eqn:Hp.
      + (* end of this file *)
        intros l f H. cbn [app]. destruct rest as [|[[p2 fl2] s2] rest'].
        * destruct H as [-> ->]. apply st_done. cbn. rewrite Hp. reflexivity.
        * eapply st_silent; [cbn; rewrite Hp; reflexivity|]. exact H.
      + apply st_fail. cbn. rewrite Hp. reflexivity.
      + specialize (IHk p fl rest s' Hd).
        destruct (gexpand d (mchain rest fl) p k s') as [it [cend|bp be|a|]] eqn:E.
        * intros l f H. cbn [app]. eapply st_emit; [cbn; rewrite Hp; reflexivity|]. apply IHk. exact H.
        * eapply st_emit; [cbn; rewrite Hp; reflexivity|]. exact IHk.
        * eapply st_emit; [cbn; rewrite Hp; reflexivity|]. exact IHk.
        * exact I.
      + destruct d as [|d'].
        * apply st_fail. cbn. rewrite Hp.
          assert (E : (max_depth <=? length rest) = true) by (apply Nat.leb_le; lia). rewrite E. reflexivity.
        * assert (E : (max_depth <=? length rest) = false) by (apply Nat.leb_gt; lia).
          destruct (compute_path p ip) as [newp|] eqn:Hc.
          2:{ apply st_abort. cbn. rewrite Hp, E, Hc. reflexivity. }
          destruct (fs newp) as [content|] eqn:Hf.
          2:{ apply st_fail. cbn. rewrite Hp, E, Hc, Hf. reflexivity. }
          cbv zeta.
          (* the included file runs on top of the includer's entry *)
          pose proof (IHd d' eq_refl (S (size (pnew content (start_ctx _ _ _ _ (pctx s') org)))) newp n
                        ((p, fl, s') :: rest) (pnew content (start_ctx _ _ _ _ (pctx s') org))) as Hinc.
          assert (Hd' : length ((p, fl, s') :: rest) + d' = max_depth) by (cbn [length]; unfold ZfInc.entry in *; lia).
          specialize (Hinc Hd'). cbn [ZfInc.make_chain] in Hinc.
          assert (Hstep : nstep ((p, fl, s) :: rest) =
                          SSilent _ _ _ _ ((newp, n, pnew content (start_ctx _ _ _ _ (pctx s') org)) :: (p, fl, s') :: rest)).
          { cbn. rewrite Hp, E, Hc, Hf, start_ctx_eq. reflexivity. }
          destruct (gexpand d' (mchain rest fl ++ [(p, n)]) newp (S (size (pnew content (start_ctx _ _ _ _ (pctx s') org))))
                      (pnew content (start_ctx _ _ _ _ (pctx s') org))) as [it [cend|bp be|a|]] eqn:Ei.
          -- specialize (IHk p fl rest (pwith s' (resume_ctx _ _ _ _ (pctx s') cend)) Hd).
             destruct (gexpand (S d') (mchain rest fl) p k (pwith s' (resume_ctx _ _ _ _ (pctx s') cend)))
               as [it' [cend'|bp be|a|]] eqn:E2.
             ++ intros l f H. eapply st_silent; [exact Hstep|]. rewrite <- app_assoc. apply Hinc.
                cbn [end_steps]. rewrite resume_ctx_eq. apply IHk. exact H.
             ++ eapply st_silent; [exact Hstep|]. apply Hinc. cbn [end_steps]. rewrite resume_ctx_eq. exact IHk.
             ++ eapply st_silent; [exact Hstep|]. apply Hinc. cbn [end_steps]. rewrite resume_ctx_eq. exact IHk.
             ++ exact I.
          -- eapply st_silent; [exact Hstep|]. exact Hinc.
          -- eapply st_silent; [exact Hstep|]. exact Hinc.
          -- exact I.
      + apply st_abort. cbn. rewrite Hp. reflexivity.
  Qed.

  Lemma file_steps : forall d, file_goal d.
  Proof.
    induction d as [|d IH]; apply file_steps_at.
    - intros d' H. discriminate.
    - intros d' [= <-]. exact IH.
  Qed.

  (* a complete execution is what [run] computes once the fuel covers its length *)
  Lemma steps_run st l f : steps st l f -> exists f0, forall fuel, f0 <= fuel -> run fuel st = (l, f).
  Proof.
    induction 1 as [st H|st p e H|st a H|st it st' l f H _ IH|st st' l f H _ IH].
    - exists 1. intros [|fuel] Hf; [lia|]. cbn [ZfInc.run]. rewrite H. reflexivity.
    - exists 1. intros [|fuel] Hf; [lia|]. cbn [ZfInc.run]. rewrite H. reflexivity.
    - exists 1. intros [|fuel] Hf; [lia|]. cbn [ZfInc.run]. rewrite H. reflexivity.
    - destruct IH as [f0 IH]. exists (S f0). intros [|fuel] Hf; [lia|]. cbn [ZfInc.run]. rewrite H.
      rewrite IH by lia. reflexivity.
    - destruct IH as [f0 IH]. exists (S f0). intros [|fuel] Hf; [lia|]. cbn [ZfInc.run]. rewrite H.
      apply IH. lia.
  Qed.

  Lemma top_steps p0 n0 s0 k :
    snd (gexpand max_depth [] p0 k s0) <> GFuel _ _ _ _ _ _ ->
    steps [(p0, n0, s0)] (fst (gexpand max_depth [] p0 k s0)) (gfinal_of (snd (gexpand max_depth [] p0 k s0))).
  Proof.
    intros Hnf. pose proof (file_steps max_depth k p0 n0 [] s0 eq_refl) as H. cbn [ZfInc.make_chain] in H.
    destruct (gexpand max_depth [] p0 k s0) as [it [cend|bp be|a|]]; cbn [fst snd] in *; try exact H.
    - rewrite <- (app_nil_r it). apply H. cbn. split; reflexivity.
    - contradiction Hnf. reflexivity.
  Qed.

  (* MAIN (generic): whenever the spec's per-file budget suffices, iterating fs::Parser::next yields
     exactly the structural expansion, then its first error / end *)
  Lemma run_eq_gexpand p0 n0 s0 k :
    snd (gexpand max_depth [] p0 k s0) <> GFuel _ _ _ _ _ _ ->
    exists f0, forall fuel, f0 <= fuel ->
      run fuel [(p0, n0, s0)] =
      (fst (gexpand max_depth [] p0 k s0), gfinal_of (snd (gexpand max_depth [] p0 k s0))).
  Proof. intros H. apply steps_run. apply top_steps. exact H. Qed.

  (* a run that did not exhaust its fuel is stable: more fuel gives the same result *)
  Lemma run_stable : forall fuel st, snd (run fuel st) <> FOutOfFuel _ _ ->
    forall fuel', fuel <= fuel' -> run fuel' st = run fuel st.
  Proof.
    induction fuel as [|f IH]; intros st H fuel' Hle; [cbn in H; congruence|].
    destruct fuel' as [|f']; [lia|]. cbn [ZfInc.run] in *.
    destruct (nstep st) as [|p e|it st'|st'|a]; try reflexivity.
    - destruct (run f st') as [l o] eqn:E. cbn [snd] in H.
      rewrite (IH st') by (rewrite ?E; cbn [snd]; try exact H; lia). rewrite E. reflexivity.
    - apply IH; [exact H|lia].
  Qed.

  (* so ANY fuel that does not run out computes the structural expansion *)
  Lemma run_any_fuel p0 n0 s0 k fuel :
    snd (gexpand max_depth [] p0 k s0) <> GFuel _ _ _ _ _ _ ->
    snd (run fuel [(p0, n0, s0)]) <> FOutOfFuel _ _ ->
    run fuel [(p0, n0, s0)] =
    (fst (gexpand max_depth [] p0 k s0), gfinal_of (snd (gexpand max_depth [] p0 k s0))).
  Proof.
    intros Hk Hf. destruct (run_eq_gexpand p0 n0 s0 k Hk) as [f0 H0].
    rewrite <- (H0 (Nat.max f0 fuel)) by lia. symmetry. apply run_stable; [exact Hf|lia].
  Qed.

  (* an $INCLUDE at the nesting limit is an IncludesTooDeep error at that line, with the chain *)
  Lemma gexpand_too_deep chain p k s n ip o s' :
    pnext s = PInc _ _ _ _ _ n ip o s' ->
    gexpand 0 chain p (S k) s = ([], GBad _ _ _ _ _ _ p (ITooDeep _ _ n (chain ++ [(p, n)]))).
  Proof. intros H. cbn. rewrite H. reflexivity. Qed.

  (* the unfolding of the spec at an $INCLUDE that can be followed *)
  Lemma gexpand_include d chain p k s n ip org s' newp content :
    pnext s = PInc _ _ _ _ _ n ip org s' -> compute_path p ip = Some newp -> fs newp = Some content ->
    gexpand (S d) chain p (S k) s =
    (let child := pnew content (start_ctx _ _ _ _ (pctx s') org) in
     let '(it, o) := gexpand d (chain ++ [(p, n)]) newp (S (size child)) child in
     match o with
     | GCtx _ _ _ _ _ _ cend =>
         let '(it', o') := gexpand (S d) chain p k (pwith s' (resume_ctx _ _ _ _ (pctx s') cend)) in
         (it ++ it', o')
     | bad => (it, bad)
     end).
  Proof. intros H1 H2 H3. cbn [ZfIncS.gexpand]. rewrite H1, H2, H3. reflexivity. Qed.
End IncP.
