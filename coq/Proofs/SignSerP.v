(* A response with a SIGNED TSIG record (BADTIME; verified request answered NOTIMP / REFUSED / SERVFAIL / FORMERR):
   the inner expression of ServerWT.ser_tsig for TsigMode::Response.

   ser_prepare, then Writer::set_tsig with reserved_len = signed_len, then finish_with_mac.  The state after
   set_tsig_signed is [real_of wh2 ..] (Proofs/SignFinishP.v) for the final state [wh2] of the contract-obeying run
     ser_ops ++ [OSetLimit (limit - output size); OSetTsig ..]
   of C12's operation language (the limit lowered by the output size stands for the part of the reservation the
   Unsigned-only model does not know), so C12's invariants hold of wh2 and finish_signed_ok2 applies:
   set_tsig_signed succeeds exactly under the pre-scan's reservation, finish_signed never panics, the result is within
   the limit, and its layout is header + question + (OPT iff EDNS) + the signed TSIG record. *)
From QV Require Import Base.ListX Gen.Consts Model.NameWire Model.Reader Model.RdataLite Model.Server Model.ServerW Model.ServerWT
  Model.MsgWriter Model.ZoneTree Model.Query Model.QueryW
  Spec.NameWireS Spec.MsgWriterS Spec.MsgWriterAbsS Spec.RdataFormatS Spec.RespS
  Proofs.MsgWriterP Proofs.MsgWriterScanP Proofs.MsgWriterNameP Proofs.MsgWriterInvP Proofs.MsgWriterClosP Proofs.MsgWriterNameSP Proofs.MsgWriterOpP
  Proofs.MsgWriterLayP Proofs.MsgWriterStepP Proofs.MsgWriterMsgP Proofs.MsgWriterDecP Proofs.MsgWriterHdrP Proofs.MsgWriterRtP
  Proofs.RdataFormatSP
  Proofs.ComposeTraceP Proofs.ComposeTopP Proofs.ComposeRespP Proofs.ComposeSerP Proofs.ComposeTsigP Proofs.ComposeTsigWfP
  Proofs.SignFinishP.
From QV Require Model.TsigMsg.
Local Open Scope nat_scope.

Lemma sg_osz a : TsigMsg.output_size (tsig_alg_of a) = alg_output_size a.
Proof. destruct a; reflexivity. Qed.
Lemma sg_alen a : length (TsigMsg.alg_name (tsig_alg_of a)) = length (alg_name_wire a).
Proof. destruct a; reflexivity. Qed.
Lemma sg_osz_pos a : 20 <= alg_output_size a <= 32.
Proof. destruct a; simpl; lia. Qed.

Section SW.
Variable hmac : TsigMsg.alg -> bytes -> bytes -> bytes.
Hypothesis hmac_len : forall a k d, length (hmac a k d) = TsigMsg.output_size a.
Hypothesis hmac_wf : forall a k d, wf_bytes (hmac a k d).
Variable buf : bytes.
Hypothesis Hb : 512 <= length buf.
Variable w : resp.
Hypothesis Hq : forall q, Server.w_question w = Some q ->
  good_name (labels_of (Reader.q_name q)) /\ (Reader.q_type q < 65536)%N /\ (Reader.q_class q < 65536)%N.
Variable tcp : bool.
Variable t : tsig_out.
Variable f : tsig_fields.
Hypothesis Hf : fields_ok t f.
Variable a : Server.tsig_alg.
Variable secret rmac : bytes.
Hypothesis Hrm : (N.of_nat (length rmac) <= 65535)%N.
Hypothesis Hal : length (nm_wire (tf_alg f)) = length (alg_name_wire a).
Hypothesis Hlim : Server.w_edns w <> None -> tcp = false -> first_limit tcp buf <= Server.w_limit w.
Hypothesis Hfit : wcur w + (length (nm_wire (tf_key f)) + length (nm_wire (tf_alg f)) + 26 +
                            (if (tf_error f =? 18)%N then 6 else 0) + alg_output_size a) + wres w <= wlim buf w tcp.

Definition osz : nat := alg_output_size a.
Definition ulen : nat := tsig_unsigned_len (nm_lower (tf_key f)) (nm_lower (tf_alg f)) (tf_error f).
(* the unsigned settings of the hypothetical run, and the real ones *)
Definition tu : tsigr :=
  mkTsig (nm_lower (tf_alg f)) ulen (nm_lower (tf_key f)) (tf_time f) TSIG_FUDGE (tf_origid f) (tf_error f) (tf_stime f).

Definition sig_ops : list wop :=
  ser_ops w tcp ++ [OSetLimit (wlim buf w tcp - osz); tsig_op f].
Definition sig_outs : list outcome := map (fun _ => RUnit) sig_ops.

Lemma ulen_val : ulen = length (nm_wire (tf_key f)) + length (nm_wire (tf_alg f)) + 26 + (if (tf_error f =? 18)%N then 6 else 0).
Proof. unfold ulen, tsig_unsigned_len, badtime. rewrite !wire_lower_length. reflexivity. Qed.

(* the two steps after ser_prepare, and the real state *)
Lemma signed_steps w1 : MsgWriter.w_cursor w1 = wcur w -> MsgWriter.w_tsig w1 = None ->
  w_ar w1 = (match Server.w_edns w with Some _ => 1 | None => 0 end)%N ->
  MsgWriter.w_avail w1 + wres w = MsgWriter.w_limit w1 -> MsgWriter.w_limit w1 = wlim buf w tcp ->
  exists w1' wh2 w2,
    MsgWriter.set_limit (wlim buf w tcp - osz) w1 = Ok w1' /\
    MsgWriter.set_tsig (nm_lower (tf_alg f)) (nm_lower (tf_key f)) (tf_time f) TSIG_FUDGE (tf_origid f)
                       (tf_error f) (tf_stime f) w1' = Ok (tt, wh2) /\
    set_tsig_signed osz (nm_lower (tf_alg f)) (nm_lower (tf_key f)) (tf_time f) TSIG_FUDGE (tf_origid f)
                    (tf_error f) (tf_stime f) w1 = Ok (tt, w2) /\
    w2 = real_of wh2 (signed_of tu osz) (MsgWriter.w_limit wh2 + osz) /\
    MsgWriter.w_tsig wh2 = Some tu /\ MsgWriter.w_limit wh2 + osz = wlim buf w tcp /\
    w_buf wh2 = w_buf w1.
Proof.
  intros Hc Ht Ha Hav Hl. pose proof (sg_osz_pos a) as Ho. fold osz in Ho. pose proof ulen_val as Hu.
  fold osz in Hfit.
  unfold MsgWriter.set_limit. rewrite Hl.
  destruct (wlim buf w tcp <=? wlim buf w tcp - osz) eqn:X1; [apply Nat.leb_le in X1; lia|].
  destruct (MsgWriter.w_cursor w1 + wlim buf w tcp <? MsgWriter.w_avail w1) eqn:X2; [apply Nat.ltb_lt in X2; lia|].
  assert (Emax : Nat.max (wlim buf w tcp - osz) (MsgWriter.w_cursor w1 + wlim buf w tcp - MsgWriter.w_avail w1) = wlim buf w tcp - osz) by lia.
  rewrite Emax.
  destruct (wlim buf w tcp <? wlim buf w tcp - osz) eqn:X3; [apply Nat.ltb_lt in X3; lia|].
  replace (wlim buf w tcp - (wlim buf w tcp - osz)) with osz by lia.
  destruct (MsgWriter.w_avail w1 <? osz) eqn:X4; [apply Nat.ltb_lt in X4; lia|].
  exists (set_limit_avail w1 (wlim buf w tcp - osz) (MsgWriter.w_avail w1 - osz)). unfold MsgWriter.set_tsig, set_tsig_signed. cbn [MsgWriter.w_tsig set_limit_avail MsgWriter.w_avail MsgWriter.w_cursor w_ar].
  rewrite Ht. fold ulen. fold osz.
  destruct (MsgWriter.w_avail w1 - osz <? MsgWriter.w_cursor w1 + ulen) eqn:X5; [apply Nat.ltb_lt in X5; lia|].
  destruct (MsgWriter.w_avail w1 <? MsgWriter.w_cursor w1 + (ulen + osz)) eqn:X6; [apply Nat.ltb_lt in X6; lia|].
  assert (Hadd : exists ar, checked_add16 (w_ar w1) 1 = Some ar).
  { rewrite Ha. destruct (Server.w_edns w); eexists; reflexivity. }
  destruct Hadd as (ar & ->). eexists. eexists.
  split; [reflexivity|]. split; [reflexivity|]. split; [reflexivity|].
  split.
  { unfold real_of, signed_of, tu, set_tsig_f, set_avail, set_limit_avail, set_counts.
    cbn [w_buf MsgWriter.w_cursor MsgWriter.w_limit MsgWriter.w_avail w_rr_start w_section w_qd w_an w_ns w_ar w_qname w_mro w_mrn w_mode
         MsgWriter.w_edns MsgWriter.w_tsig t_alg MsgWriter.t_reserved t_key t_time t_fudge t_origid MsgWriter.t_error t_server_time].
    f_equal; lia. }
  split; [reflexivity|]. split; [cbn; lia|reflexivity].
Qed.

Lemma sig_replay :
  am_an (areplay am0 sig_ops sig_outs) = [] /\ am_ns (areplay am0 sig_ops sig_outs) = [] /\
  am_ar (areplay am0 sig_ops sig_outs) = [] /\ am_mode (areplay am0 sig_ops sig_outs) = Standard /\
  h_qr (hreplay ah0 sig_ops sig_outs) = true /\
  (h_edns (hreplay ah0 sig_ops sig_outs) = None <-> Server.w_edns w = None).
Proof.
  unfold sig_outs, sig_ops, ser_ops, tsig_op.
  destruct (Server.w_question w) as [q|]; destruct (Server.w_edns w) as [[size upper]|]; try destruct tcp;
    cbn; repeat split; auto; intros X; try discriminate X; auto.
Qed.

(* everything about the finished signed response, in layout form *)
Theorem ser_signed_layout :
  exists w1 w2 w0 dh y L g wF LF rsP c5 rdata mac,
    ser_prepare buf tcp w = Some w1 /\
    set_tsig_signed osz (nm_lower (tf_alg f)) (nm_lower (tf_key f)) (tf_time f) TSIG_FUDGE (tf_origid f)
                    (tf_error f) (tf_stime f) w1 = Ok (tt, w2) /\
    writer_new buf (if tcp then tcp_limit_w else udp_limit_w) = Ok w0 /\
    run (mkD w0 []) sig_ops = Ok (dh, sig_outs, true) /\
    Forall op_wf sig_ops /\ Forall op_wf2 sig_ops /\ Forall op_wf3 sig_ops /\
    AInv dh g L /\ LInv dh y (areplay am0 sig_ops sig_outs) L /\ MsgWriter.w_tsig (d_w dh) = Some tu /\
    finish_signed hmac (tsig_alg_of a) secret rmac w2 = Ok (MsgWriter.w_cursor wF, w_buf wF) /\
    NInv wF (length (w_buf wF)) LF /\
    PLay (w_buf wF) LF (mkLay (y_qs y) (y_rrs y ++ rsP)) (w_rr_start (d_w dh)) (MsgWriter.w_cursor wF) /\
    Forall2 rr_desc2 rsP (pseudo_signed (d_w dh) (nm_lower (tf_key f)) rdata) /\
    slice (w_buf wF) 4 12 = MsgWriter.be16 (w_qd (d_w dh)) ++ MsgWriter.be16 (w_an (d_w dh)) ++
                            MsgWriter.be16 (w_ns (d_w dh)) ++ MsgWriter.be16 (w_ar (d_w dh)) /\
    agree 4 (w_buf (d_w dh)) (w_buf wF) /\
    MsgWriter.w_cursor wF <= wlim buf w tcp /\
    c5 <= MsgWriter.w_cursor wF /\
    TsigMsg.sign hmac (prep_of tu) (firstn c5 (w_buf wF)) (TsigMsg.SResponse rmac) (tsig_alg_of a) secret = Ok (rdata, mac) /\
    length mac = osz /\
    rdata = TsigMsg.serialize_tsig_unchecked (TsigMsg.alg_name (tsig_alg_of a)) (tf_time f) TSIG_FUDGE mac (tf_origid f) (tf_error f)
              (if (tf_error f =? 18)%N then tf_stime f else []).
Proof.
  destruct (ser_prepare_shape buf Hb w Hq tcp Hlim) as (w1 & E1 & Hc & Ht & Ha & Hav & Hl).
  destruct (signed_steps w1 Hc Ht Ha Hav Hl) as (w1' & wh2 & w2 & EL & ET & ES & Ereal & Etu & Elim & Ebuf).
  destruct (ser_Reach buf Hb w Hq 0%N tcp w1 E1) as (w0 & g1 & E0 & R1).
  apply (Reach_weaken (Pop2 0%N) (fun _ => True) (fun _ _ => I)) in R1.
  destruct (Reach_AInv _ _ _ _ _ _ _ R1 L0 (AInv_new _ _ _ E0)) as (L1 & Hi1).
  assert (Hop1 : op_ok (fun _ => True) (OSetLimit (wlim buf w tcp - osz))) by (repeat split; exact I).
  assert (Hop2 : op_ok (fun _ => True) (tsig_op f)).
  { destruct Hf as [[Ga1 Ga2] Gab [Gk1 Gk2] [T1 T2] [S1 S2] _ _ _ _].
    split; [|split; [exact I|split; exact I]]. cbn [op_wf tsig_op]. repeat split; auto; try apply Ga1; try apply Gk1. }
  assert (R2 : Reach (fun _ => True) (mkD w1 []) g1 [OSetLimit (wlim buf w tcp - osz)] [RUnit] (mkD w1' [])
                     (gstep (mkD w1 []) g1 (OSetLimit (wlim buf w tcp - osz)) RUnit)).
  { apply Reach_one; [exact Hop1|exact I| |reflexivity]. cbn [step d_w]. rewrite EL. reflexivity. }
  assert (R3 : Reach (fun _ => True) (mkD w1' []) (gstep (mkD w1 []) g1 (OSetLimit (wlim buf w tcp - osz)) RUnit)
                     [tsig_op f] [RUnit] (mkD wh2 [])
                     (gstep (mkD w1' []) (gstep (mkD w1 []) g1 (OSetLimit (wlim buf w tcp - osz)) RUnit) (tsig_op f) RUnit)).
  { apply Reach_one; [exact Hop2|exact I| |reflexivity]. cbn [step tsig_op d_w]. rewrite ET. reflexivity. }
  pose proof (Reach_trans _ _ _ _ _ _ _ _ _ _ _ R1 (Reach_trans _ _ _ _ _ _ _ _ _ _ _ R2 R3)) as R.
  assert (Eouts : map (fun _ : wop => RUnit) (ser_ops w tcp) ++ [RUnit] ++ [RUnit] = sig_outs).
  { unfold sig_outs, sig_ops. rewrite map_app. reflexivity. }
  change ([OSetLimit (wlim buf w tcp - osz)] ++ [tsig_op f]) with [OSetLimit (wlim buf w tcp - osz); tsig_op f] in R.
  fold sig_ops in R. rewrite Eouts in R.
  destruct (Reach_run _ _ _ _ _ _ _ R) as (Hrun & Hrc & F1 & F2 & F3 & _ & Hlen).
  destruct (run_ok2 sig_ops _ _ _ _ _ (AInv_new _ _ _ E0) (LInv_new _ _ _ E0) Hrc)
    as (d' & outs' & alive' & g & y & L & Erun & Hi & HL).
  rewrite Hrun in Erun. inversion Erun; subst d' outs' alive'. clear Erun.
  (* the bound the real limit needs *)
  assert (Hlb : MsgWriter.w_limit wh2 + TsigMsg.output_size (tsig_alg_of a) <= length (w_buf wh2)).
  { rewrite sg_osz. fold osz. rewrite Elim, Ebuf. pose proof (a_n _ _ _ Hi1) as Hn1. cbn [d_w] in Hn1. destruct Hn1. lia. }
  assert (Halg : length (nm_wire (t_alg tu)) = length (TsigMsg.alg_name (tsig_alg_of a))).
  { cbn [tu t_alg]. rewrite wire_lower_length, sg_alen. exact Hal. }
  destruct (finish_signed_ok2 hmac hmac_len hmac_wf (mkD wh2 []) g y _ L tu (tsig_alg_of a) secret rmac Hi HL Etu Halg Hrm Hlb)
    as (wF & LF & rsP & c5 & rdata & mac & EF & HiF & PF & DF & HF & HA4 & Hcl & Hc5 & Hsg & Hml & Hrd).
  cbn [d_w] in EF, PF, DF, HF, HA4, Hcl. rewrite sg_osz in EF, Hcl, Hml. fold osz in EF, Hcl, Hml. rewrite <- Ereal in EF.
  exists w1, w2, w0, (mkD wh2 []), y, L, g, wF, LF, rsP, c5, rdata, mac.
  split; [exact E1|]. split; [exact ES|]. split; [exact E0|]. split; [exact Hrun|].
  split; [exact F1|]. split; [exact F2|]. split; [exact F3|]. split; [exact Hi|]. split; [exact HL|]. split; [exact Etu|].
  split; [exact EF|]. split; [exact HiF|]. split; [exact PF|]. split; [exact DF|]. split; [exact HF|]. split; [exact HA4|].
  split; [lia|]. split; [exact Hc5|]. split; [exact Hsg|]. split; [exact Hml|exact Hrd].
Qed.

(* C01 / C04 at this level: the signed branch of ser_tsig returns octets, within the limit *)
Theorem ser_signed_total :
  exists w1 w2 len b,
    ser_prepare buf tcp w = Some w1 /\
    set_tsig_signed osz (nm_lower (tf_alg f)) (nm_lower (tf_key f)) (tf_time f) TSIG_FUDGE (tf_origid f)
                    (tf_error f) (tf_stime f) w1 = Ok (tt, w2) /\
    finish_signed hmac (tsig_alg_of a) secret rmac w2 = Ok (len, b) /\ len <= wlim buf w tcp.
Proof.
  destruct ser_signed_layout as (w1 & w2 & w0 & dh & y & L & g & wF & LF & rsP & c5 & rdata & mac & E1 & ES & _ & _ & _ & _ & _ & _ & _ & _ &
                                 EF & _ & _ & _ & _ & _ & Hcl & _).
  exists w1, w2, (MsgWriter.w_cursor wF), (w_buf wF). auto.
Qed.

End SW.
