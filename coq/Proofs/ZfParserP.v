(* The zone-file parser model is total (no Panic, fuel suffices) and what it builds is valid:
   owners are good names, RDATA passes the model of Rdata::validate. *)
From QV Require Import Base.ListX Model.NameWire Spec.NameWireS Spec.NameRepr Proofs.NameWireP
  Model.ZfReader Model.ZfParser Spec.ZfValidS Proofs.ZfStdP Proofs.ZfReaderP Proofs.ZfNameP.

Local Open Scope nat_scope.

Ltac sbind := eapply safe_bind.
Ltac strue := eapply safe_weaken; [|intros; exact I].

(* ---- escapes ----------------------------------------------------------------------------------- *)

Lemma safe_parse_escape : safe false parse_escape (fun _ => True).
Proof.
  unfold parse_escape. sbind; [apply safe_getpos|]. intros start _.
  sbind; [apply (safe_lift read_octet read_octet_le)|]. intros [first|] _; [|apply safe_failM].
  destruct (is_digit first); [|apply safe_ret; exact I].
  unfold parse_decimal_escape. sbind; [apply (safe_lift read2 read2_le)|]. intros [[a b]|] _; [|apply safe_failM].
  destruct (negb _); [apply safe_failM|]. destruct (_ <? _)%N; [apply safe_failM|apply safe_ret; exact I].
Qed.

(* a loop step whose body starts with parse_escape after one octet was consumed *)
Lemma after_escape {B} (f : N -> M B) (Q : B -> Prop) n :
  (forall e, safeN n (f e) Q) -> safeN n (bindM parse_escape f) Q.
Proof.
  intros Hf r Hr Hn. apply (okres_bind false false parse_escape f (fun _ => True) Q r Hr (safe_parse_escape r Hr)).
  intros e r' _ Hr' _ Hle. apply Hf; [exact Hr'|lia].
Qed.

(* ---- names -------------------------------------------------------------------------------------- *)

Definition nb_ok (b : nb) : Prop := exists ds cur, nb_inv b ds cur.

Lemma safe_blpe {A} e ns ls (Q : A -> Prop) s : safe s (build_label_parse_error e ns ls) Q.
Proof. destruct e; apply safe_failM. Qed.

Lemma pnr_loop_safe : forall fuel ns ls b, nb_ok b -> safeN fuel (pnr_loop fuel ns ls b) nb_ok.
Proof.
  induction fuel as [|fuel IH]; intros ns ls b Hb r Hr Hn; [lia|].
  cbn [pnr_loop]. apply (read_field_octet_step _ nb_ok fuel r Hr Hn).
  - intros r' Hr' _ _. simpl. auto.
  - intros octet r' Hr' Hf Hlt _. destruct Hb as (ds & cur & Hinv).
    destruct (octet =? 92)%N.
    + refine (after_escape _ nb_ok fuel _ r' Hr' Hlt). intros e.
      pose proof (nb_try_push_ok b ds cur e Hinv) as H.
      destruct (nb_try_push b e) as [b'|er|]; [|apply safeN_of_safe, safe_blpe|contradiction].
      apply IH. unfold nb_ok; eauto.
    + destruct (octet =? 46)%N.
      * pose proof (nb_next_label_ok b ds cur Hinv) as H.
        destruct (nb_next_label b) as [b'|er|]; [|apply safe_blpe; exact Hr'|contradiction].
        unfold bindM, getpos. apply IH; [unfold nb_ok; eauto|exact Hr'|exact Hlt].
      * pose proof (nb_try_push_ok b ds cur octet Hinv) as H.
        destruct (nb_try_push b octet) as [b'|er|]; [|apply safe_blpe; exact Hr'|contradiction].
        apply IH; [unfold nb_ok; eauto|exact Hr'|exact Hlt].
Qed.

Definition origin_ok (o : option name) : Prop := forall n, o = Some n -> good_name n.

Lemma safe_parse_non_root_name origin : origin_ok origin ->
  safe false (parse_non_root_name origin) good_name.
Proof.
  intros Ho. unfold parse_non_root_name. sbind; [apply safe_getpos|]. intros ns _.
  apply safe_with_fuel. intros n r Hr Hn.
  apply (okres_bind false false _ _ nb_ok good_name r Hr).
  - apply pnr_loop_safe; [exists [], []; apply nb_inv_new|exact Hr|exact Hn].
  - intros b r' (ds & cur & Hinv) Hr' _ _.
    destruct (nb_fq b).
    + pose proof (nb_finish_ok b ds cur Hinv) as H.
      destruct (nb_finish b) as [nm|e|]; [apply safe_ret; assumption|apply safe_failM; assumption|contradiction].
    + destruct origin as [o|]; [|apply safe_failM; exact Hr'].
      pose proof (nb_finish_with_suffix_ok b ds cur o Hinv (Ho o eq_refl)) as H.
      destruct (nb_finish_with_suffix b o) as [nm|e|]; [apply safe_ret; assumption|apply safe_failM; assumption|contradiction].
Qed.

Lemma safe_parse_name origin : origin_ok origin -> safe false (parse_name origin) good_name.
Proof.
  intros Ho. unfold parse_name. sbind; [apply safe_getpos|]. intros start _.
  sbind; [apply safe_expect_field_impl|]. intros [|] _.
  - destruct origin as [o|]; [apply safe_ret; apply Ho; reflexivity|apply safe_failM].
  - sbind; [apply safe_expect_field_impl|]. intros [|] _.
    + apply safe_ret. apply good_root.
    + apply safe_parse_non_root_name. exact Ho.
Qed.

(* ---- character strings -------------------------------------------------------------------------- *)

Definition short (s : bytes) : Prop := length s <= 255.

Lemma cs_push_short s o s' : cs_push s o = Some s' -> short s'.
Proof.
  unfold cs_push, short. destruct (255 <=? length s) eqn:E; [discriminate|]. apply Nat.leb_gt in E.
  intros [= <-]. rewrite app_length. simpl. lia.
Qed.

Lemma read_octet_step {B} (f : option N -> M B) (Q : B -> Prop) n r :
  wfr r -> length (r_rest r) < S n ->
  (forall r', wfr r' -> okres false Q r' (f None r')) ->
  (forall c, safeN n (f (Some c)) Q) ->
  okres false Q r (bindM (lift read_octet) f r).
Proof.
  intros Hr Hn HN HS. unfold bindM, lift. destruct (read_octet r) as [[c|] r'] eqn:E.
  - destruct (read_octet_some r c r' E) as [E1 E2].
    assert (W : wfr r') by (unfold wfr in *; lia).
    assert (G : okres false Q r' (f (Some c) r')) by (apply HS; [exact W|lia]).
    destruct (f (Some c) r') as [[b r'']|[p k|]|]; simpl in *; auto.
    destruct G as (G1 & G2 & G3). split; [congruence|]. split; [lia|exact G3].
  - unfold read_octet in E. destruct (r_rest r) as [|d t]; [|discriminate]. inversion E; subst. apply HN. exact Hr.
Qed.

Lemma pqcs_loop_safe : forall fuel start s, short s -> safeN fuel (pqcs_loop fuel start s) short.
Proof.
  induction fuel as [|fuel IH]; intros start s Hs r Hr Hn; [lia|].
  cbn [pqcs_loop]. unfold bindM at 1, getpos.
  apply (read_octet_step _ short fuel r Hr Hn).
  - intros r' Hr'. exact I.
  - intros octet. destruct (octet =? 92)%N.
    + apply after_escape. intros e. destruct (cs_push s e) as [s'|] eqn:E; [|apply safeN_of_safe, safe_failM].
      apply IH. eapply cs_push_short; exact E.
    + destruct (octet =? 34)%N; [apply safeN_of_safe, safe_ret; exact Hs|].
      destruct (cs_push s octet) as [s'|] eqn:E; [|apply safeN_of_safe, safe_failM].
      apply IH. eapply cs_push_short; exact E.
Qed.

Lemma pucs_loop_safe : forall fuel start s, short s -> safeN fuel (pucs_loop fuel start s) short.
Proof.
  induction fuel as [|fuel IH]; intros start s Hs r Hr Hn; [lia|].
  cbn [pucs_loop]. apply (read_field_octet_step _ short fuel r Hr Hn).
  - intros r' Hr' _ _. simpl. auto.
  - intros octet r' Hr' Hf Hlt _. destruct (octet =? 92)%N.
    + refine (after_escape _ short fuel _ r' Hr' Hlt). intros e.
      destruct (cs_push s e) as [s'|] eqn:E; [|apply safeN_of_safe, safe_failM].
      apply IH. eapply cs_push_short; exact E.
    + destruct (cs_push s octet) as [s'|] eqn:E; [|apply safe_failM; exact Hr'].
      apply IH; [eapply cs_push_short; exact E|exact Hr'|exact Hlt].
Qed.

Lemma short_nil : short []. Proof. unfold short. simpl. lia. Qed.

Lemma safe_parse_character_string : safe false parse_character_string short.
Proof.
  assert (Q : safe false parse_quoted_character_string short).
  { unfold parse_quoted_character_string. sbind; [apply safe_getpos|]. intros start _.
    sbind; [apply (safe_lift read_octet read_octet_le)|]. intros _ _.
    apply safe_with_fuel. intros n. apply pqcs_loop_safe. apply short_nil. }
  assert (U : safe false parse_unquoted_character_string short).
  { unfold parse_unquoted_character_string. sbind; [apply safe_getpos|]. intros start _.
    apply safe_with_fuel. intros n. apply pucs_loop_safe. apply short_nil. }
  intros r Hr. unfold parse_character_string. destruct (peek_octet r) as [c|]; [|apply U; exact Hr].
  destruct (c =? 34)%N; [apply Q|apply U]; exact Hr.
Qed.

(* ---- integers and addresses ---------------------------------------------------------------------- *)

Lemma safe_parse_uint max k : safe false (read_field (parse_uint max) k) (fun v => (v <= max)%N).
Proof.
  eapply safe_weaken; [apply safe_read_field|]. intros v [s Hs]. eapply parse_uint_le; exact Hs.
Qed.

Lemma safe_parse_ipv4 : safe false parse_ipv4 (fun a => length a = 4).
Proof.
  eapply safe_weaken; [apply safe_read_field|]. intros v [s Hs]. unfold opt_sum in Hs.
  destruct (ipv4_from_str s) as [a|] eqn:E; [|discriminate]. inversion Hs; subst. eapply ipv4_from_str_length; exact E.
Qed.

Lemma safe_parse_ipv6 : safe false parse_ipv6 (fun a => length a = 16).
Proof.
  eapply safe_weaken; [apply safe_read_field|]. intros v [s Hs]. unfold opt_sum in Hs.
  destruct (ipv6_from_str s) as [a|] eqn:E; [|discriminate]. inversion Hs; subst. eapply ipv6_from_str_length; exact E.
Qed.

Lemma safe_mk_rdata l : (N.of_nat (length l) <= 65535)%N -> safe false (mk_rdata l) (fun d => d = l).
Proof.
  intros H r Hr. unfold mk_rdata. destruct (65535 <? N.of_nat (length l))%N eqn:E; [apply N.ltb_lt in E; lia|].
  simpl. auto.
Qed.

(* ---- validators are total -------------------------------------------------------------------------- *)

Definition vtotal (v : bytes -> res unit bool) : Prop := forall o, exists b, v o = Ok b.

Lemma vname_total o all : exists x, vname o all = Ok x.
Proof.
  unfold vname. destruct (validate_total o all) as [H1 H2].
  destruct (validate_uncompressed_name o all) as [n|e|]; [eauto| |congruence].
  destruct e; eauto. congruence.
Qed.

Lemma vname_le o n : vname o false = Ok (Some n) -> n <= length o.
Proof.
  unfold vname. destruct (validate_uncompressed_name o false) as [m|e|] eqn:E; [|destruct e; discriminate|discriminate].
  intros [= <-]. eapply validate_le. exact E.
Qed.

Lemma vname_all_total : vtotal vname_all.
Proof. intros o. unfold vname_all. destruct (vname_total o true) as [x Hx]. rewrite Hx. simpl. eauto. Qed.

Lemma vt_in_a : vtotal validate_as_in_a. Proof. intros o. unfold validate_as_in_a. eauto. Qed.
Lemma vt_in_wks : vtotal validate_as_in_wks. Proof. intros o. unfold validate_as_in_wks. eauto. Qed.
Lemma vt_in_aaaa : vtotal validate_as_in_aaaa. Proof. intros o. unfold validate_as_in_aaaa. eauto. Qed.

Lemma vt_ch_a : vtotal validate_as_ch_a.
Proof.
  intros o. unfold validate_as_ch_a. destruct (vname_total o false) as [x Hx]. rewrite Hx. simpl.
  destruct x; eauto.
Qed.

Lemma vt_soa : vtotal validate_as_soa.
Proof.
  intros o. unfold validate_as_soa. destruct (vname_total o false) as [x Hx]. rewrite Hx. cbn [bind].
  destruct x as [mlen|]; [|eauto]. apply vname_le in Hx.
  destruct (length o <? mlen) eqn:E; [apply Nat.ltb_lt in E; lia|].
  destruct (vname_total (skipn mlen o) false) as [y Hy]. rewrite Hy. cbn [bind]. destruct y; eauto.
Qed.

Lemma vcs_le o wl : validate_character_string o = Some wl -> 1 <= wl <= length o.
Proof.
  unfold validate_character_string. destruct o as [|len t]; [discriminate|].
  destruct (1 + N.to_nat len <=? length (len :: t)) eqn:E; [|discriminate]. apply Nat.leb_le in E.
  intros [= <-]. lia.
Qed.

Lemma vt_hinfo : vtotal validate_as_hinfo.
Proof.
  intros o. unfold validate_as_hinfo. destruct (validate_character_string o) as [cpu|] eqn:E; [|eauto].
  apply vcs_le in E. destruct (length o <? cpu) eqn:E2; [apply Nat.ltb_lt in E2; lia|].
  destruct (validate_character_string (skipn cpu o)); eauto.
Qed.

Lemma vt_minfo : vtotal validate_as_minfo.
Proof.
  intros o. unfold validate_as_minfo. destruct (vname_total o false) as [x Hx]. rewrite Hx. cbn [bind].
  destruct x as [rlen|]; [|eauto]. apply vname_le in Hx.
  destruct (length o <? rlen) eqn:E; [apply Nat.ltb_lt in E; lia|]. apply vname_all_total.
Qed.

Lemma vt_mx : vtotal validate_as_mx.
Proof. intros o. unfold validate_as_mx. destruct (2 <=? length o); [apply vname_all_total|eauto]. Qed.

Lemma vt_in_srv : vtotal validate_as_in_srv.
Proof. intros o. unfold validate_as_in_srv. destruct (6 <=? length o); [apply vname_all_total|eauto]. Qed.

Lemma vtxt_loop_total : forall fuel o, length o < fuel -> exists b, vtxt_loop fuel o = Ok b.
Proof.
  induction fuel as [|fuel IH]; intros o Hf; [lia|]. cbn [vtxt_loop].
  destruct o as [|c t]; [eauto|]. destruct (validate_character_string (c :: t)) as [wl|] eqn:E; [|eauto].
  apply vcs_le in E. apply IH. rewrite skipn_length. lia.
Qed.

Lemma vt_txt : vtotal validate_as_txt.
Proof. intros o. unfold validate_as_txt. destruct o as [|c t]; [eauto|]. apply vtxt_loop_total. lia. Qed.

(* ---- \# RDATA ---------------------------------------------------------------------------------------- *)

Lemma safe_hex_digit_of d : safe false (hex_digit_of d) (fun _ => True).
Proof. unfold hex_digit_of. destruct (hex_nibble d); [apply safe_ret; exact I|apply safe_failHere]. Qed.

Lemma safe_parse_ascii_hex_digit : safe false parse_ascii_hex_digit (fun _ => True).
Proof.
  unfold parse_ascii_hex_digit. sbind; [apply safe_read_field_octet|]. intros [d|] _; [|apply safe_failHere].
  apply safe_hex_digit_of.
Qed.

Lemma safe_parse_leading_hex_digit : safe false parse_leading_ascii_hex_digit (fun _ => True).
Proof.
  unfold parse_leading_ascii_hex_digit. sbind; [apply safe_getpos|]. intros position _.
  sbind; [apply safe_read_field_octet|]. intros [d|] _; [apply safe_hex_digit_of|].
  sbind; [apply safe_to|]. intros [|] _; [apply safe_parse_ascii_hex_digit|apply safe_failM].
Qed.

Lemma rev_fast_length {A} (l : list A) : length (rev_fast l) = length l.
Proof. unfold rev_fast. rewrite rev_append_rev, app_nil_r. apply rev_length. Qed.

Lemma hex_loop_safe : forall n acc, safe false (hex_loop n acc) (fun d => length d = n + length acc).
Proof.
  induction n as [|n IH]; intros acc; cbn [hex_loop].
  - apply safe_ret. apply rev_fast_length.
  - sbind; [apply safe_parse_leading_hex_digit|]. intros h _.
    sbind; [apply safe_parse_ascii_hex_digit|]. intros l _.
    eapply safe_weaken; [apply IH|]. intros d Hd. rewrite Hd. simpl. lia.
Qed.

Lemma safe_parse_unknown_rdata_impl : safe false parse_unknown_rdata_impl (fun _ => True).
Proof.
  unfold parse_unknown_rdata_impl. sbind; [apply safe_skip_to_next_field|]. intros _ _.
  sbind; [apply safe_parse_uint|]. intros len Hlen. unfold U16_MAX in Hlen.
  sbind; [|intros x _; sbind; [apply safe_expect_eol|intros _ _; apply safe_ret; exact I]].
  instantiate (1 := fun _ => True).
  destruct (len =? 0)%N.
  - sbind; [apply safe_getpos|]. intros p _. apply safe_ret. exact I.
  - sbind; [apply safe_skip_to_next_field|]. intros _ _. sbind; [apply safe_getpos|]. intros p _.
    sbind; [apply hex_loop_safe|]. intros d Hd. simpl in Hd.
    sbind; [apply safe_mk_rdata; lia|]. intros d' _. apply safe_ret. exact I.
Qed.

Lemma safe_parse_unknown_rdata : safe false parse_unknown_rdata (fun _ => True).
Proof.
  unfold parse_unknown_rdata. sbind; [apply safe_parse_unknown_rdata_impl|]. intros x _. apply safe_ret. exact I.
Qed.

Lemma safe_with_validation v : vtotal v ->
  safe false (parse_unknown_rdata_with_validation v) (fun d => v d = Ok true).
Proof.
  intros Hv. unfold parse_unknown_rdata_with_validation. sbind; [apply safe_parse_unknown_rdata_impl|].
  intros x _. destruct (Hv (snd x)) as [b Hb]. rewrite Hb. destruct b; [apply safe_ret; exact Hb|apply safe_failM].
Qed.

(* on field data a character string consumes at least one octet *)
Lemma pcs_strict r : wfr r -> at_field_end_at (r_rest r) 0 = Ok false ->
  okres true short r (parse_character_string r).
Proof.
  intros Hr Hf. destruct (at_field_end_false _ Hf) as (c & t & Hl).
  assert (Hfuel : exists f, r_fuel r = S f) by (unfold wfr in Hr; destruct (r_fuel r); [lia|eauto]).
  destruct Hfuel as [f Hfu].
  unfold parse_character_string, peek_octet. rewrite Hl. cbn [hd_error].
  destruct (c =? 34)%N eqn:Eq.
  - unfold parse_quoted_character_string. unfold bindM at 1, getpos. unfold bindM at 1, lift.
    destruct (read_octet r) as [o r1] eqn:Er. unfold read_octet in Er. rewrite Hl in Er.
    assert (Hr1 : r_fuel r1 = r_fuel r /\ length (r_rest r1) < length (r_rest r)).
    { inversion Er; subst. destruct (c =? 10)%N; simpl; rewrite Hl; simpl; auto. }
    destruct Hr1 as [F1 L1]. assert (W1 : wfr r1) by (unfold wfr in *; lia).
    assert (G : okres false short r1 ((do fuel <- get_fuel; pqcs_loop fuel (r_pos r) []) r1)).
    { apply safe_with_fuel; [|exact W1]. intros n. apply pqcs_loop_safe. apply short_nil. }
    destruct ((do fuel <- get_fuel; pqcs_loop fuel (r_pos r) []) r1) as [[s r2]|[p k|]|]; simpl in *; auto.
    destruct G as (G1 & G2 & G3). split; [congruence|]. split; [lia|exact G3].
  - unfold parse_unquoted_character_string. unfold bindM at 1, getpos. unfold bindM at 1, get_fuel.
    rewrite Hfu. cbn [pucs_loop]. unfold bindM at 1. unfold read_field_octet. rewrite Hf. cbn [bind]. rewrite Hl.
    assert (W1 : wfr (adv r 1)) by (unfold wfr in *; rewrite adv_fuel, adv_len; lia).
    assert (L1 : length (r_rest (adv r 1)) < f) by (unfold wfr in Hr; rewrite adv_len; lia).
    assert (L2 : length (r_rest (adv r 1)) < length (r_rest r)) by (rewrite adv_len, Hl; simpl; lia).
    assert (G : forall m : M bytes, safeN f m short -> okres true short r (m (adv r 1))).
    { intros m Hm. specialize (Hm (adv r 1) W1 L1).
      destruct (m (adv r 1)) as [[s r2]|[p k|]|]; simpl in *; auto.
      destruct Hm as (G1 & G2 & G3). split; [rewrite G1; reflexivity|]. split; [lia|exact G3]. }
    destruct (c =? 92)%N.
    + apply G. apply after_escape. intros e.
      destruct (cs_push [] e) as [s'|] eqn:E; [|apply safeN_of_safe, safe_failM].
      apply pucs_loop_safe. eapply cs_push_short; exact E.
    + destruct (cs_push [] c) as [s'|] eqn:E; [|exact I].
      apply G. apply pucs_loop_safe. eapply cs_push_short; exact E.
Qed.
