(* C01 / C04 for the signing modes with [hmac_len] as the ONLY hypothesis on hmac: the theorems of Proofs/SignTopP.v
   (which also decode the octets and therefore need hmac's output to consist of octets) are applied to the
   octet-normalised function  hmac_oct a k d = map (mod 256) (hmac a k d)  - same output length, octets by construction -
   and transferred with Proofs/SignShapeP.v: panics and lengths do not depend on the MAC's octets. *)
From QV Require Import Base.ListX Gen.Consts Model.NameWire Model.Reader Model.RdataLite
  Model.Server Model.ServerW Model.ServerWT Proofs.ServerP Proofs.ServerLimitP Proofs.ServerTsigP
  Model.ZoneTree Model.Query Model.QueryW Proofs.ComposeTraceP Proofs.ComposeSrvP
  Proofs.SignShapeP Proofs.SignTopP.
From QV Require Model.TsigMsg.
Local Open Scope nat_scope.

Definition hmac_oct (hmac : TsigMsg.alg -> bytes -> bytes -> bytes) (a : TsigMsg.alg) (k d : bytes) : bytes :=
  map (fun x => (x mod 256)%N) (hmac a k d).

Lemma hmac_oct_wf hmac a k d : wf_bytes (hmac_oct hmac a k d).
Proof.
  unfold hmac_oct, wf_bytes. apply Forall_forall. intros x Hx. apply in_map_iff in Hx as (y & <- & _).
  unfold is_octet. apply N.mod_lt. discriminate.
Qed.

Section SrvL.
Variable hmac : TsigMsg.alg -> bytes -> bytes -> bytes.
Hypothesis hmac_len : forall a k d, length (hmac a k d) = TsigMsg.output_size a.
Variable zones : nat -> option zone.
Variable negttl : N -> N -> N.
Variable answer : answer_fn.
Variable verify : tsig_verifier.
Variable cfg : config.
Variable buf : bytes.
Hypothesis Hcfg : wf_cfg cfg.
Hypothesis Hbuf : length buf = c_buflen cfg.
Hypothesis Hnow : (c_now cfg < 281474976710656)%N.

Lemma oct_len : forall a k d, length (hmac_oct hmac a k d) = TsigMsg.output_size a.
Proof. intros a k d. unfold hmac_oct. rewrite map_length. apply hmac_len. Qed.
Lemma oct_same : forall a k d, length (hmac a k d) = length (hmac_oct hmac a k d).
Proof. intros a k d. unfold hmac_oct. rewrite map_length. reflexivity. Qed.

Theorem handle_message_wt_total_len Q req : catalog_okQ Q cfg zones -> wf_bytes req ->
  exists x, handle_message_wt hmac zones negttl answer verify cfg buf req = Ok x.
Proof.
  intros Hcat Hwf.
  destruct (handle_message_wt_total_all (hmac_oct hmac) oct_len (hmac_oct_wf hmac) zones negttl answer verify cfg buf Hcfg Hbuf Hnow Q req Hcat Hwf)
    as (x & E).
  pose proof (handle_message_wt_shape hmac (hmac_oct hmac) oct_same zones negttl answer verify cfg buf req) as S.
  rewrite E in S. destruct (handle_message_wt hmac zones negttl answer verify cfg buf req) as [x'|e|]; try contradiction. eauto.
Qed.

Theorem tsig_response_limit_len req wa t : wf_bytes req ->
  Server.handle_message answer verify cfg req = Ok (Some wa) -> Server.w_tsig wa = Some t ->
  handle_message_wt hmac zones negttl answer verify cfg buf req = Ok (Some (RAbs wa)) \/
  exists len b,
    handle_message_wt hmac zones negttl answer verify cfg buf req = Ok (Some (ROctets len b)) /\
    len <= Server.w_limit wa /\ lim_ok cfg req wa.
Proof.
  intros Hwf HA Et.
  pose proof (handle_message_wt_shape hmac (hmac_oct hmac) oct_same zones negttl answer verify cfg buf req) as S.
  destruct (tsig_response_limit_all (hmac_oct hmac) oct_len (hmac_oct_wf hmac) zones negttl answer verify cfg buf Hcfg Hbuf Hnow req wa t Hwf HA Et)
    as [E|(len & b & f & E & Hl & L & _)]; rewrite E in S.
  - left. destruct (handle_message_wt hmac zones negttl answer verify cfg buf req) as [[[x|l b']|]|e|]; simpl in S; try contradiction.
    subst x. reflexivity.
  - right. destruct (handle_message_wt hmac zones negttl answer verify cfg buf req) as [[[x|l b']|]|e|]; simpl in S; try contradiction.
    subst l. exists len, b'. auto.
Qed.

End SrvL.
