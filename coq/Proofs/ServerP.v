From QV Require Import Base.ListX Model.NameWire Model.Reader Model.RdataLite Model.Server
  Proofs.NameWireP Proofs.ReaderP Proofs.RdataLiteP.
Local Open Scope nat_scope.

(* ---------- generic case-splitting helpers ---------- *)
Ltac bm_hyp H :=
  match type of H with
  | context [match ?x with _ => _ end] =>
    match x with
    | context [match _ with _ => _ end] => fail 1
    | _ => destruct x eqn:?
    end
  end.
Ltac inv H := inversion H; subst; clear H.
Ltac bb_hyp H :=
  match type of H with
  | context [bind ?x _] =>
    match x with
    | context [match _ with _ => _ end] => fail 1
    | context [bind _ _] => fail 1
    | _ => destruct x eqn:?; cbn [bind] in H
    end
  end.

(* ---------- what every writer-level step preserves ---------- *)
(* the fields the property C03 is about, and the opaque body *)
Definition same_core (w w' : resp) : Prop :=
  w_id w' = w_id w /\ w_opcode w' = w_opcode w /\ w_rd w' = w_rd w /\ w_question w' = w_question w /\
  w_body w' = w_body w /\ w_aa w' = w_aa w.

Lemma same_core_refl w : same_core w w.
Proof. repeat split. Qed.
Lemma same_core_trans a b c : same_core a b -> same_core b c -> same_core a c.
Proof. unfold same_core. intuition congruence. Qed.

Lemma set_rcode_core w rc : same_core w (set_rcode w rc).
Proof. repeat split. Qed.
Lemma set_tc_core w : same_core w (set_tc w).
Proof. repeat split. Qed.
Lemma set_edns_core w sz w' : set_edns w sz = Ok w' -> same_core w w'.
Proof.
  unfold set_edns. destruct (w_edns w); [discriminate|].
  destruct (_ <? _); [discriminate|]. destruct (_ <=? _)%N; [discriminate|].
  intros H; inv H. repeat split.
Qed.
Lemma set_limit_core w l w' : set_limit w l = Ok w' -> same_core w w'.
Proof.
  unfold set_limit. destruct (_ <=? _).
  - destruct (_ <? _); [discriminate|]. intros H; inv H. repeat split.
  - destruct (_ <? _); [discriminate|]. destruct (_ <? _); [discriminate|]. destruct (_ <? _); [discriminate|].
    intros H; inv H. repeat split.
Qed.
Lemma set_extended_rcode_core w raw w' : set_extended_rcode w raw = Ok w' -> same_core w w'.
Proof.
  unfold set_extended_rcode. destruct (w_edns w) as [[sz up]|]; [|discriminate].
  destruct (_ <? _)%N; [discriminate|]. intros H; inv H. repeat split.
Qed.
Lemma set_tsig_core w t w' : set_tsig w t = Ok w' -> same_core w w'.
Proof.
  unfold set_tsig. destruct (w_tsig w); [discriminate|]. destruct (_ <? _); [discriminate|].
  destruct (_ <=? _)%N; [discriminate|]. intros H; inv H. repeat split.
Qed.
Lemma set_tsig_or_truncate_core w t : same_core w (fst (set_tsig_or_truncate w t)).
Proof.
  unfold set_tsig_or_truncate. destruct (set_tsig w t) eqn:E; cbn [fst].
  - eapply set_tsig_core; eauto.
  - apply set_tc_core.
  - apply set_tc_core.
Qed.

(* ---------- EDNS bookkeeping ---------- *)
(* the response's EDNS state is either untouched or carries the server's payload size *)
Definition edns_ok (cfg : config) (w : resp) : Prop :=
  match w_edns w with None => True | Some (sz, _) => sz = c_edns_size cfg end.

Lemma edns_set_rcode cfg w rc : edns_ok cfg w -> edns_ok cfg (set_rcode w rc).
Proof. unfold edns_ok, set_rcode; simpl. destruct (w_edns w) as [[sz up]|]; auto. Qed.
Lemma edns_set_tc cfg w : edns_ok cfg w -> edns_ok cfg (set_tc w).
Proof. auto. Qed.
Lemma edns_set_limit cfg w l w' : set_limit w l = Ok w' -> edns_ok cfg w -> edns_ok cfg w'.
Proof.
  unfold set_limit, edns_ok. destruct (_ <=? _).
  - destruct (_ <? _); [discriminate|]. intros H; inv H. auto.
  - destruct (_ <? _); [discriminate|]. destruct (_ <? _); [discriminate|]. destruct (_ <? _); [discriminate|].
    intros H; inv H. auto.
Qed.
Lemma edns_set_tsig_or_truncate cfg w t : edns_ok cfg w -> edns_ok cfg (fst (set_tsig_or_truncate w t)).
Proof.
  unfold set_tsig_or_truncate, set_tsig, edns_ok.
  destruct (w_tsig w); cbn [fst]; auto.
  destruct (_ <? _); cbn [fst]; auto. destruct (_ <=? _)%N; cbn [fst]; auto.
Qed.

(* ---------- the invariant of the pre-scan ---------- *)
Definition wf_cfg (cfg : config) : Prop :=
  (512 <= c_edns_size cfg)%N /\ (c_edns_size cfg <= 65535)%N /\
  match c_transport cfg with Tcp => tcp_limit | Udp => N.to_nat (c_edns_size cfg) end <= c_buflen cfg.

Definition reserved (w : resp) : nat := match w_edns w with Some _ => 11 | None => 0 end.

(* [seen] is the loop's seen_opt flag *)
Definition srv_inv (cfg : config) (seen : bool) (w : resp) : Prop :=
  edns_ok cfg w /\ (seen = true <-> w_edns w <> None) /\ w_tsig w = None /\
  w_cursor w <= 271 /\ 512 <= w_limit w /\ w_limit w <= w_buflen w /\
  w_avail w + reserved w = w_limit w /\
  w_arcount w = (match w_edns w with Some _ => 1 | None => 0 end)%N /\ w_body w = empty_body.

Lemma opt_record_size_val : opt_record_size = 11.
Proof. reflexivity. Qed.

Lemma srv_inv_set_rcode cfg seen w rc : srv_inv cfg seen w -> srv_inv cfg seen (set_rcode w rc).
Proof.
  intros (A & B & C & D & E & F & G & H & I). unfold srv_inv. split; [apply edns_set_rcode; exact A|].
  unfold set_rcode, reserved in *; simpl. destruct (w_edns w) as [[sz up]|]; simpl in *; repeat split; auto;
    try (intros X; apply B in X; auto); try (intros _; apply B; discriminate); try discriminate.
  all: try (intros X; apply B; intro Y; discriminate).
Qed.

(* ---------- one additional record ---------- *)
Definition result_ok (cfg : config) (w : resp) (last : bool) (s : step_result) (seen' : bool) : Prop :=
  match s with
  | Silent => False
  | Continue w' => same_core w w' /\ (srv_inv cfg seen' w' \/ last = true) /\ edns_ok cfg w' /\
                   (seen' = true <-> w_edns w' <> None)
  | Return w' => same_core w w' /\ edns_ok cfg w' /\ (seen' = true <-> w_edns w' <> None)
  end.

Lemma set_edns_ok cfg w : srv_inv cfg false w ->
  exists w1, set_edns w (c_edns_size cfg) = Ok w1 /\ same_core w w1 /\ srv_inv cfg true w1 /\
             w_rcode w1 = w_rcode w /\ w_tc w1 = w_tc w.
Proof.
  intros (A & B & C & D & E & F & G & H & I).
  assert (En : w_edns w = None).
  { destruct (w_edns w) eqn:X; auto. exfalso. assert (false = true) by (apply B; discriminate). discriminate. }
  unfold set_edns. rewrite En. rewrite opt_record_size_val.
  unfold reserved in G. rewrite En in G.
  destruct (w_avail w <? w_cursor w + 11) eqn:X; [apply Nat.ltb_lt in X; lia|].
  destruct (65535 <=? w_arcount w)%N eqn:Y; [apply N.leb_le in Y; rewrite En in H; lia|].
  eexists. split; [reflexivity|]. split; [repeat split|]. split; [|split; reflexivity].
  unfold srv_inv, edns_ok, reserved; simpl. repeat split; auto; try lia; try discriminate.
  rewrite En in H. rewrite H. reflexivity.
Qed.

Lemma be16_at_ok {E} b a : a + 2 <= length b -> exists v, @be16_at E b a = Ok v.
Proof.
  intros H. pose proof (@be16_at_no_panic E b a H) as NP.
  destruct (be16_at b a) as [v|e|] eqn:X; [eauto| |congruence].
  exfalso. eapply (@be16_at_not_err E); eauto.
Qed.

Lemma be32_at_ok {E} b a : a + 4 <= length b -> exists v, @be32_at E b a = Ok v.
Proof.
  intros H. unfold be32_at. destruct (length b <? a + 4) eqn:X; [apply Nat.ltb_lt in X; lia|].
  destruct (nth_error b a) eqn:A; [|apply nth_error_None in A; lia].
  destruct (nth_error b (a + 1)) eqn:B; [|apply nth_error_None in B; lia].
  destruct (nth_error b (a + 2)) eqn:C; [|apply nth_error_None in C; lia].
  destruct (nth_error b (a + 3)) eqn:D; [eauto|apply nth_error_None in D; lia].
Qed.

Lemma message_to_cursor_ok r : rinv r -> exists m, message_to_cursor r = Ok m.
Proof.
  intros (_ & _ & Hc & _). unfold message_to_cursor.
  destruct (length (r_octets r) <? r_cursor r) eqn:E; [apply Nat.ltb_lt in E; lia|eauto].
Qed.

Lemma result_ok_return_rcode cfg seen w last rc :
  srv_inv cfg seen w -> result_ok cfg w last (Return (set_rcode w rc)) seen.
Proof.
  intros I. pose proof (srv_inv_set_rcode cfg seen w rc I) as (A & B & _).
  cbn [result_ok]. split; [apply set_rcode_core|]. split; assumption.
Qed.

(* a TSIG reservation on top of a state satisfying the invariant *)
Lemma tsig_result cfg seen w rc t :
  srv_inv cfg seen w ->
  let w' := fst (set_tsig_or_truncate (set_rcode w rc) t) in
  same_core w w' /\ edns_ok cfg w' /\ (seen = true <-> w_edns w' <> None).
Proof.
  intros I. pose proof (srv_inv_set_rcode cfg seen w rc I) as (A & B & _).
  cbv zeta. split; [|split].
  - eapply same_core_trans; [apply set_rcode_core|apply set_tsig_or_truncate_core].
  - apply edns_set_tsig_or_truncate. exact A.
  - unfold set_tsig_or_truncate, set_tsig. destruct (w_tsig (set_rcode w rc)); cbn [fst]; auto.
    destruct (_ <? _); cbn [fst]; auto. destruct (_ <=? _)%N; cbn [fst]; auto.
Qed.

Lemma process_additional_facts verify cfg r w seen last :
  wf_cfg cfg -> rinv r -> srv_inv cfg seen w ->
  exists r' s seen', process_additional verify cfg r w seen last = Ok (r', s, seen') /\
                     rinv r' /\ result_ok cfg w last s seen'.
Proof.
  intros Hcfg Hinv I. unfold process_additional. unfold peek_rr.
  destruct (peek_core_facts r Hinv) as [Hnp Hok].
  destruct (peek_core r) as [p|e|] eqn:P; [| |congruence].
  2:{ do 3 eexists. split; [reflexivity|]. split; [exact Hinv|]. apply result_ok_return_rcode; exact I. }
  destruct (Hok p eq_refl) as (B1 & B2 & B3).
  unfold peek_type. destruct (@be16_at_ok reader_err (r_octets r) (p_owner_end p) ltac:(lia)) as [ty Ety].
  rewrite Ety. cbn [bind].
  destruct (ty =? TYPE_OPT)%N eqn:Topt.
  - (* OPT *)
    destruct seen eqn:Seen.
    + do 3 eexists. split; [reflexivity|]. split; [exact Hinv|]. apply result_ok_return_rcode; exact I.
    + destruct (set_edns_ok cfg w I) as (w1 & E1 & C1 & I1 & Rc1 & Tc1). rewrite E1.
      unfold peek_raw_ttl. destruct (@be32_at_ok reader_err (r_octets r) (p_owner_end p + 4) ltac:(lia)) as [raw Eraw].
      rewrite Eraw. cbn [bind].
      pose proof (peek_parse_facts rd_lite rd_lite_total r p Hinv P) as (PP1 & PP2 & PP3).
      destruct (peek_parse rd_lite r p) as [r' x] eqn:PPe. cbn [fst snd] in *.
      destruct x as [opt_rr|e|]; [| |congruence].
      2:{ do 3 eexists. split; [reflexivity|]. split; [exact Hinv|].
          pose proof (srv_inv_set_rcode cfg true w1 RC_FORMERR I1) as (A & B & _).
          cbn [result_ok]. split; [|split; assumption].
          eapply same_core_trans; [exact C1|apply set_rcode_core]. }
      (* limit negotiation *)
      assert (L : exists w2, (match c_transport cfg with
                   | Udp => if (c_edns_size cfg <? 512)%N then Panic
                            else match set_limit w1 (N.to_nat (N.max 512 (N.min (rr_class opt_rr) (c_edns_size cfg)))) with
                                 | Ok w2 => Ok w2 | Err _ => Panic | Panic => Panic end
                   | Tcp => Ok w1 end : res reader_err resp) = Ok w2 /\ same_core w1 w2 /\ srv_inv cfg true w2).
      { destruct (c_transport cfg) eqn:Tr; [exists w1; split; [reflexivity|split; [apply same_core_refl|exact I1]]|].
        destruct Hcfg as (H512 & H64k & Hbuf). rewrite Tr in Hbuf.
        destruct (c_edns_size cfg <? 512)%N eqn:X; [apply N.ltb_lt in X; lia|].
        destruct I1 as (A1 & B1' & C1' & D1 & E1' & F1 & G1 & H1 & J1).
        set (neg := N.to_nat (N.max 512 (N.min (rr_class opt_rr) (c_edns_size cfg)))).
        assert (Hneg : 512 <= neg /\ neg <= N.to_nat (c_edns_size cfg)) by (unfold neg; lia).
        assert (Er : reserved w1 = 11).
        { unfold reserved. destruct (w_edns w1); auto. exfalso. apply (proj1 B1' eq_refl). reflexivity. }
        rewrite Er in G1.
        unfold set_limit.
        destruct (w_limit w1 <=? neg) eqn:Br.
        - apply Nat.leb_le in Br.
          destruct (Nat.min neg (w_buflen w1) <? w_limit w1) eqn:Y; [apply Nat.ltb_lt in Y; lia|].
          apply Nat.ltb_ge in Y.
          eexists. split; [reflexivity|]. split; [repeat split|].
          unfold srv_inv, edns_ok, reserved in *; simpl. repeat split; auto; try lia.
          all: try solve [apply B1' | intros _; reflexivity | destruct (w_edns w1); lia].
        - apply Nat.leb_gt in Br.
          destruct (w_cursor w1 + w_limit w1 <? w_avail w1) eqn:Y1; [apply Nat.ltb_lt in Y1; lia|].
          destruct (w_limit w1 <? Nat.max neg (w_cursor w1 + w_limit w1 - w_avail w1)) eqn:Y2;
            [apply Nat.ltb_lt in Y2; lia|].
          destruct (w_avail w1 <? w_limit w1 - Nat.max neg (w_cursor w1 + w_limit w1 - w_avail w1)) eqn:Y3;
            [apply Nat.ltb_lt in Y3; lia|].
          eexists. split; [reflexivity|]. split; [repeat split|].
          unfold srv_inv, edns_ok, reserved in *; simpl. repeat split; auto; try lia.
          all: try solve [apply B1' | intros _; reflexivity | destruct (w_edns w1); lia]. }
      destruct L as (w2 & EL & C2 & I2). rewrite EL. cbn [bind].
      destruct (validate_opt (rr_owner opt_rr) raw) as [rc|] eqn:V.
      * (* invalid OPT: extended RCODE *)
        assert (Hrc : (rc <= 4095)%N).
        { unfold validate_opt in V. destruct (negb _); [inv V; vm_compute; discriminate|].
          destruct (negb _); inv V. vm_compute; discriminate. }
        pose proof I2 as (A2 & B2' & _).
        assert (exists sz up, w_edns w2 = Some (sz, up)) as (sz & up & Ed).
        { destruct (w_edns w2) as [[sz up]|]; eauto. exfalso. apply (proj1 B2' eq_refl). reflexivity. }
        unfold set_extended_rcode. rewrite Ed.
        destruct (4095 <? rc)%N eqn:X; [apply N.ltb_lt in X; lia|].
        do 3 eexists. split; [reflexivity|]. split; [exact PP3|].
        cbn [result_ok]. split; [|split].
        -- eapply same_core_trans; [exact C1|]. eapply same_core_trans; [exact C2|]. repeat split.
        -- unfold edns_ok in *; simpl. rewrite Ed in A2. exact A2.
        -- simpl. split; [discriminate|reflexivity].
      * do 3 eexists. split; [reflexivity|]. split; [exact PP3|].
        cbn [result_ok]. pose proof I2 as (A2 & B2' & _). split; [|split; [left; exact I2|split; assumption]].
        eapply same_core_trans; [exact C1|exact C2].
  - destruct (ty =? TYPE_TSIG)%N eqn:Ttsig.
    + (* TSIG *)
      destruct last; cbn [negb].
      2:{ do 3 eexists. split; [reflexivity|]. split; [exact Hinv|]. apply result_ok_return_rcode; exact I. }
      destruct (message_to_cursor_ok r Hinv) as [m Em]. rewrite Em. cbn [bind].
      pose proof (peek_parse_facts rd_lite rd_lite_total r p Hinv P) as (PP1 & PP2 & PP3).
      destruct (peek_parse rd_lite r p) as [r' x] eqn:PPe. cbn [fst snd] in *.
      destruct x as [rr|e|]; [| |congruence].
      2:{ do 3 eexists. split; [reflexivity|]. split; [exact Hinv|]. apply result_ok_return_rcode; exact I. }
      destruct (negb (rr_class rr =? CLASS_ANY)%N || negb (rr_ttl rr =? 0)%N).
      { do 3 eexists. split; [reflexivity|]. split; [exact PP3|]. apply result_ok_return_rcode; exact I. }
      destruct (alg_of_name _) as [alg|].
      2:{ do 3 eexists. split; [reflexivity|]. split; [exact PP3|]. cbn [result_ok]. apply tsig_result. exact I. }
      destruct (find_key _ _ _) as [k|].
      2:{ do 3 eexists. split; [reflexivity|]. split; [exact PP3|]. cbn [result_ok]. apply tsig_result. exact I. }
      destruct (verify _ _ _ _ _ _).
      * (* verified *)
        match goal with |- context [set_tsig_or_truncate ?a ?b] => pose proof (tsig_result cfg seen w 0%N b I) as TR end.
        cbv zeta in TR. destruct TR as (T1 & T2 & T3).
        match goal with |- context [if snd ?x then _ else _] => destruct (snd x) end;
          do 3 eexists; (split; [reflexivity|]); (split; [exact PP3|]); cbn [result_ok]; auto.
      * do 3 eexists. split; [reflexivity|]. split; [exact PP3|]. cbn [result_ok]. apply tsig_result. exact I.
      * do 3 eexists. split; [reflexivity|]. split; [exact PP3|]. cbn [result_ok]. apply tsig_result. exact I.
      * do 3 eexists. split; [reflexivity|]. split; [exact PP3|]. cbn [result_ok]. apply tsig_result. exact I.
    + (* ordinary record: skipped *)
      do 3 eexists. split; [reflexivity|]. split; [apply rinv_with_cursor; [exact Hinv|exact B3]|].
      cbn [result_ok]. pose proof I as (A & B & _).
      split; [apply same_core_refl|]. split; [left; exact I|split; assumption].
Qed.

(* which branch one additional record takes, in terms of the reader alone *)
Definition pa_kind (r : reader) (w : resp) (seen last : bool) (r' : reader) (s : step_result) (seen' : bool) : Prop :=
  match peek_core r with
  | Ok p =>
    match @be16_at reader_err (r_octets r) (p_owner_end p) with
    | Ok ty =>
      if (ty =? TYPE_OPT)%N then seen' = true /\ (seen = true -> s = Return (set_rcode w RC_FORMERR))
      else if (ty =? TYPE_TSIG)%N then
        seen' = seen /\ match s with Continue _ => last = true | _ => True end
      else r' = peek_skip r p /\ s = Continue w /\ seen' = seen
    | _ => True
    end
  | _ => seen' = seen /\ s = Return (set_rcode w RC_FORMERR)
  end.

Lemma process_additional_kind verify cfg r w seen last r' s seen' :
  process_additional verify cfg r w seen last = Ok (r', s, seen') -> pa_kind r w seen last r' s seen'.
Proof.
  unfold process_additional, pa_kind, peek_rr, peek_type. intros H.
  destruct (peek_core r) as [p|e|]; [| inv H; auto | discriminate].
  destruct (be16_at (r_octets r) (p_owner_end p)) as [ty|e|]; cbn [bind] in H; [|auto|auto].
  destruct (ty =? TYPE_OPT)%N.
  - destruct seen.
    + inv H. auto.
    + split; [|discriminate].
      repeat (first [bm_hyp H | bb_hyp H]; try discriminate); try (inv H; reflexivity).
  - destruct (ty =? TYPE_TSIG)%N.
    + destruct last; cbn [negb] in H; [|inv H; auto].
      repeat (first [bm_hyp H | bb_hyp H]; try discriminate); try (inv H; auto).
    + inv H. auto.
Qed.

(* "processing reaches an OPT record": scanning forward over delimitable ordinary records
   meets a record of type OPT before an undelimitable record, a TSIG record or the end *)
Fixpoint opt_reachable (n : nat) (r : reader) : bool :=
  match n with
  | O => false
  | S n' =>
    match peek_core r with
    | Ok p =>
      match @be16_at reader_err (r_octets r) (p_owner_end p) with
      | Ok ty =>
        if (ty =? TYPE_OPT)%N then true
        else if (ty =? TYPE_TSIG)%N then false
        else opt_reachable n' (peek_skip r p)
      | _ => false
      end
    | _ => false
    end
  end.

Definition final_ok (cfg : config) (w : resp) (s : step_result) (reached : Prop) : Prop :=
  match s with
  | Silent => False
  | Continue w' | Return w' =>
    same_core w w' /\ edns_ok cfg w' /\ (w_edns w' <> None <-> reached)
  end.

Lemma iff_left_only (A B : Prop) : (A <-> B) -> (A <-> (B \/ false = true)).
Proof. intros H. split; [intros X; left; apply H; exact X|intros [X|X]; [apply H; exact X|discriminate]]. Qed.

Lemma scan_additional_facts verify cfg : wf_cfg cfg ->
  forall n r w seen, rinv r -> srv_inv cfg seen w ->
  exists r' s, scan_additional verify cfg n r w seen = Ok (r', s) /\ rinv r' /\
               final_ok cfg w s (seen = true \/ opt_reachable n r = true).
Proof.
  intros Hcfg. induction n as [|n IH]; intros r w seen Hinv I.
  - cbn [scan_additional opt_reachable]. do 2 eexists. split; [reflexivity|]. split; [exact Hinv|].
    cbn [final_ok]. pose proof I as (A & B & _). split; [apply same_core_refl|]. split; [exact A|].
    apply iff_left_only. split; apply B.
  - cbn [scan_additional].
    destruct (process_additional_facts verify cfg r w seen (n =? 0) Hcfg Hinv I) as (r1 & s1 & seen1 & E & Hinv1 & RO).
    pose proof (process_additional_kind _ _ _ _ _ _ _ _ _ E) as K.
    rewrite E. cbn [bind opt_reachable]. unfold pa_kind in K.
    pose proof I as (A0 & B0 & _).
    destruct (peek_core_facts r Hinv) as [_ Hok].
    destruct (peek_core r) as [p|e|] eqn:P.
    + destruct (Hok p eq_refl) as (Q1 & Q2 & Q3).
      destruct (@be16_at_ok reader_err (r_octets r) (p_owner_end p) ltac:(lia)) as [ty Ety].
      rewrite Ety in K |- *.
      destruct (ty =? TYPE_OPT)%N.
      * destruct K as [K1 K2]. subst seen1.
        destruct s1 as [w1|w1|]; cbn [result_ok] in RO; [| |contradiction].
        -- destruct RO as (C1 & [I1|L1] & E1 & S1).
           ++ destruct (IH r1 w1 true Hinv1 I1) as (r2 & s2 & E2 & Hinv2 & F2).
              exists r2, s2. split; [exact E2|]. split; [exact Hinv2|].
              destruct s2 as [w2|w2|]; cbn [final_ok] in *; try contradiction;
                destruct F2 as (X1 & X2 & X3); (split; [eapply same_core_trans; eauto|]); (split; [exact X2|]);
                (split; [intros _; right; reflexivity|intros _; apply X3; left; reflexivity]).
           ++ apply Nat.eqb_eq in L1. subst n. cbn [scan_additional].
              do 2 eexists. split; [reflexivity|]. split; [exact Hinv1|]. cbn [final_ok].
              split; [exact C1|]. split; [exact E1|].
              split; [intros _; right; reflexivity|intros _; apply S1; reflexivity].
        -- destruct RO as (C1 & E1 & S1). do 2 eexists. split; [reflexivity|]. split; [exact Hinv1|].
           cbn [final_ok]. split; [exact C1|]. split; [exact E1|].
           split; [intros _; right; reflexivity|intros _; apply S1; reflexivity].
      * destruct (ty =? TYPE_TSIG)%N.
        -- destruct K as [K1 K2]. subst seen1.
           destruct s1 as [w1|w1|]; cbn [result_ok] in RO; [| |contradiction].
           ++ apply Nat.eqb_eq in K2. subst n. cbn [scan_additional].
              destruct RO as (C1 & _ & E1 & S1).
              do 2 eexists. split; [reflexivity|]. split; [exact Hinv1|]. cbn [final_ok].
              split; [exact C1|]. split; [exact E1|]. apply iff_left_only. split; apply S1.
           ++ destruct RO as (C1 & E1 & S1). do 2 eexists. split; [reflexivity|]. split; [exact Hinv1|].
              cbn [final_ok]. split; [exact C1|]. split; [exact E1|]. apply iff_left_only. split; apply S1.
        -- destruct K as (K1 & K2 & K3). subst r1 s1 seen1.
           destruct (IH (peek_skip r p) w seen Hinv1 I) as (r2 & s2 & E2 & Hinv2 & F2).
           exists r2, s2. split; [exact E2|]. split; [exact Hinv2|exact F2].
    + destruct K as [K1 K2]. subst seen1 s1. cbn [result_ok] in RO. destruct RO as (C1 & E1 & S1).
      do 2 eexists. split; [reflexivity|]. split; [exact Hinv1|]. cbn [final_ok].
      split; [exact C1|]. split; [exact E1|]. apply iff_left_only. split; apply S1.
    + destruct (peek_core_facts r Hinv) as [NP _]. congruence.
Qed.

(* ---------- the reader's buffer and mark are never changed by the scans ---------- *)
Definition reader_same (r r' : reader) : Prop := r_octets r' = r_octets r /\ r_mark r' = r_mark r.
Lemma reader_same_refl r : reader_same r r. Proof. split; reflexivity. Qed.
Lemma reader_same_trans a b c : reader_same a b -> reader_same b c -> reader_same a c.
Proof. unfold reader_same. intuition congruence. Qed.
Lemma with_cursor_same r c : reader_same r (with_cursor r c). Proof. split; reflexivity. Qed.
Lemma peek_parse_same rd r p : reader_same r (fst (peek_parse rd r p)).
Proof.
  unfold peek_parse.
  match goal with |- context [match ?b with Ok _ => _ | Err _ => _ | Panic => _ end] => destruct b end;
    cbn [fst]; try apply with_cursor_same; apply reader_same_refl.
Qed.

Lemma process_additional_same verify cfg r w seen last r' s seen' :
  process_additional verify cfg r w seen last = Ok (r', s, seen') -> reader_same r r'.
Proof.
  unfold process_additional, peek_rr, peek_type. intros H.
  destruct (peek_core r) as [p|e|]; [| inv H; apply reader_same_refl | discriminate].
  destruct (be16_at (r_octets r) (p_owner_end p)) as [ty|e|]; cbn [bind] in H; try discriminate.
  destruct (ty =? TYPE_OPT)%N.
  - destruct seen; [inv H; apply reader_same_refl|].
    destruct (set_edns w (c_edns_size cfg)); try discriminate; [|inv H; apply reader_same_refl].
    destruct (peek_raw_ttl r p); cbn [bind] in H; try discriminate.
    pose proof (peek_parse_same rd_lite r p) as PS.
    destruct (peek_parse rd_lite r p) as [r0 x]. cbn [fst] in PS.
    destruct x; try discriminate; [|inv H; apply reader_same_refl].
    repeat (first [bm_hyp H | bb_hyp H]; try discriminate); inv H; exact PS.
  - destruct (ty =? TYPE_TSIG)%N.
    + destruct last; cbn [negb] in H; [|inv H; apply reader_same_refl].
      destruct (message_to_cursor r); cbn [bind] in H; try discriminate.
      pose proof (peek_parse_same rd_lite r p) as PS.
      destruct (peek_parse rd_lite r p) as [r0 x]. cbn [fst] in PS.
      destruct x; try discriminate; [|inv H; apply reader_same_refl].
      repeat (first [bm_hyp H | bb_hyp H]; try discriminate); inv H; exact PS.
    + inv H. apply with_cursor_same.
Qed.

Lemma scan_additional_same verify cfg n : forall r w seen r' s,
  scan_additional verify cfg n r w seen = Ok (r', s) -> reader_same r r'.
Proof.
  induction n as [|n IH]; intros r w seen r' s H; cbn [scan_additional] in H.
  - inv H. apply reader_same_refl.
  - destruct (process_additional verify cfg r w seen (n =? 0)) as [[[r1 s1] seen1]|e|] eqn:E; cbn [bind] in H;
      try discriminate.
    pose proof (process_additional_same _ _ _ _ _ _ _ _ _ E) as S1.
    destruct s1; try (inv H; exact S1).
    eapply reader_same_trans; [exact S1|]. eapply IH; eauto.
Qed.

Lemma scan_an_ns_facts n : forall r w, rinv r ->
  exists r' s, scan_an_ns n r w = Ok (r', s) /\ rinv r' /\ reader_same r r' /\
               (s = Continue w \/ s = Return (set_rcode w RC_FORMERR)).
Proof.
  induction n as [|n IH]; intros r w Hinv; cbn [scan_an_ns].
  - do 2 eexists. split; [reflexivity|]. split; [exact Hinv|]. split; [apply reader_same_refl|left; reflexivity].
  - unfold peek_rr. destruct (peek_core_facts r Hinv) as [Hnp Hok].
    destruct (peek_core r) as [p|e|] eqn:P; [| |congruence].
    2:{ do 2 eexists. split; [reflexivity|]. split; [exact Hinv|]. split; [apply reader_same_refl|right; reflexivity]. }
    destruct (Hok p eq_refl) as (B1 & B2 & B3).
    unfold peek_type. destruct (@be16_at_ok reader_err (r_octets r) (p_owner_end p) ltac:(lia)) as [ty Ety].
    rewrite Ety. cbn [bind].
    destruct ((ty =? TYPE_OPT)%N || (ty =? TYPE_TSIG)%N).
    + do 2 eexists. split; [reflexivity|]. split; [exact Hinv|]. split; [apply reader_same_refl|right; reflexivity].
    + assert (Hinv' : rinv (peek_skip r p)) by (apply rinv_with_cursor; [exact Hinv|exact B3]).
      destruct (IH (peek_skip r p) w Hinv') as (r' & s & E & I' & S' & D).
      exists r', s. split; [exact E|]. split; [exact I'|]. split; [|exact D].
      eapply reader_same_trans; [apply with_cursor_same|exact S'].
Qed.

(* ---------- header accessors on a valid reader ---------- *)
Lemma flag_at_ok {E} b byte mask : N.to_nat byte < length b -> exists v, @flag_at E b byte mask = Ok v.
Proof.
  intros H. unfold flag_at, idx. destruct (nth_error b (N.to_nat byte)) eqn:X; [cbn [bind]; eauto|].
  apply nth_error_None in X. lia.
Qed.

Lemma rd_opcode_ok r : rinv r -> exists v, rd_opcode r = Ok v /\ (v < 16)%N.
Proof.
  intros (Hwf & H12 & _). unfold rd_opcode, idx.
  destruct (nth_error (r_octets r) (N.to_nat OPCODE_BYTE)) as [x|] eqn:X.
  - cbn [bind]. pose proof (opcode_raw_lt x (nth_error_Forall _ _ _ _ Hwf X)) as L. rewrite L.
    eexists. split; [reflexivity|]. apply N.ltb_lt. exact L.
  - apply nth_error_None in X. change (N.to_nat OPCODE_BYTE) with 2 in X. lia.
Qed.

Definition r0_of (req : bytes) : reader := mkReader req 12 None.

Lemma r0_inv req : wf_bytes req -> 12 <= length req -> rinv (r0_of req).
Proof. intros Hwf H. unfold rinv, r0_of; simpl. repeat split; auto. discriminate. Qed.

Lemma reader_new_r0 req : 12 <= length req -> reader_new req = Ok (r0_of req).
Proof.
  intros H. unfold reader_new. change header_size with 12.
  destruct (12 <=? length req) eqn:E; [reflexivity|apply Nat.leb_gt in E; lia].
Qed.

(* ---------- the an/ns scan as a pure reader walk ---------- *)
Fixpoint an_ns_reader (n : nat) (r : reader) : option reader :=
  match n with
  | O => Some r
  | S n' =>
    match peek_core r with
    | Ok p =>
      match @be16_at reader_err (r_octets r) (p_owner_end p) with
      | Ok ty => if (ty =? TYPE_OPT)%N || (ty =? TYPE_TSIG)%N then None else an_ns_reader n' (peek_skip r p)
      | _ => None
      end
    | _ => None
    end
  end.

Lemma scan_an_ns_reader n : forall r w r' s, scan_an_ns n r w = Ok (r', s) ->
  (s = Continue w /\ an_ns_reader n r = Some r') \/ (s = Return (set_rcode w RC_FORMERR) /\ an_ns_reader n r = None).
Proof.
  induction n as [|n IH]; intros r w r' s H; cbn [scan_an_ns an_ns_reader] in *.
  - inv H. left. auto.
  - unfold peek_rr, peek_type in H. destruct (peek_core r) as [p|e|]; [| inv H; right; auto | discriminate].
    destruct (be16_at (r_octets r) (p_owner_end p)) as [ty|e|]; cbn [bind] in H; try discriminate.
    destruct ((ty =? TYPE_OPT)%N || (ty =? TYPE_TSIG)%N); [inv H; right; auto|].
    eapply IH; eauto.
Qed.

(* ---------- the main theorem about the pre-scan ---------- *)
Definition hdr_echo (req : bytes) (w : resp) : Prop :=
  rd_id (r0_of req) = Ok (w_id w) /\ rd_opcode (r0_of req) = Ok (w_opcode w) /\
  exists rdf, rd_rd (r0_of req) = Ok rdf /\ w_rd w = (if (w_opcode w =? OPCODE_QUERY)%N then rdf else false).

Definition question_echo (req : bytes) (w : resp) : Prop :=
  w_question w = None \/
  (rd_qdcount (r0_of req) = Ok 1%N /\
   exists r1 q, read_question (r0_of req) = (r1, Ok q) /\ w_question w = Some q).

(* "processing reaches an OPT record" from a reader positioned after the question *)
Definition reach_from (r1 : reader) : bool :=
  match rd_ancount r1, rd_nscount r1 with
  | Ok an, Ok ns =>
    match an_ns_reader (N.to_nat an + N.to_nat ns) (rd_mark r1) with
    | Some r2 => match rd_arcount r2 with Ok ar => opt_reachable (N.to_nat ar) r2 | _ => false end
    | None => false
    end
  | _, _ => false
  end.

Definition opt_reached (req : bytes) : bool :=
  if length req <? 12 then false else
  match rd_qdcount (r0_of req) with
  | Ok qd =>
    if (qd =? 0)%N then reach_from (r0_of req)
    else if (qd =? 1)%N then
      match read_question (r0_of req) with (r1, Ok _) => reach_from r1 | _ => false end
    else false
  | _ => false
  end.

Definition early_or_clean (cfg : config) (req : bytes) (w : resp) : Prop :=
  12 <= length req /\ rd_qr (r0_of req) = Ok false /\
  hdr_echo req w /\ question_echo req w /\ w_body w = empty_body /\ w_aa w = false /\
  edns_ok cfg w /\ (w_edns w <> None <-> opt_reached req = true).

Lemma rd_mark_inv r : rinv r -> rinv (rd_mark r).
Proof. intros (A & B & C & D). unfold rinv, rd_mark; simpl. repeat split; auto. intros m E; inv E; auto. Qed.

Lemma rd_accessors_mark r : rd_ancount (rd_mark r) = rd_ancount r /\ rd_nscount (rd_mark r) = rd_nscount r.
Proof. split; reflexivity. Qed.

Lemma header_same_octets r r' : r_octets r' = r_octets r ->
  rd_arcount r' = rd_arcount r /\ rd_opcode r' = rd_opcode r /\ rd_ancount r' = rd_ancount r /\
  rd_nscount r' = rd_nscount r.
Proof. intros E. unfold rd_arcount, rd_opcode, rd_ancount, rd_nscount. rewrite E. auto. Qed.



Lemma prescan_rest_facts verify cfg r1 w1 : wf_cfg cfg -> rinv r1 -> srv_inv cfg false w1 ->
  exists p, prescan_rest verify cfg r1 w1 = Ok p /\
  match p with
  | PNone => False
  | PEarly w => same_core w1 w /\ edns_ok cfg w /\ (w_edns w <> None <-> reach_from r1 = true)
  | PClean o w => same_core w1 w /\ edns_ok cfg w /\ (w_edns w <> None <-> reach_from r1 = true) /\
                  rd_opcode r1 = Ok o
  end.
Proof.
  intros Hcfg Hinv1 I1. unfold prescan_rest, reach_from.
  pose proof (rd_mark_inv r1 Hinv1) as Hinvm. pose proof Hinv1 as (Hwf & H12 & Hc & Hm).
  destruct (@be16_at_ok reader_err (r_octets r1) (N.to_nat ANCOUNT_START)) as [an Ean]; [simpl; lia|].
  destruct (@be16_at_ok reader_err (r_octets r1) (N.to_nat NSCOUNT_START)) as [ns Ens]; [simpl; lia|].
  assert (Ean' : rd_ancount (rd_mark r1) = Ok an) by exact Ean.
  assert (Ens' : rd_nscount (rd_mark r1) = Ok ns) by exact Ens.
  assert (Ean0 : rd_ancount r1 = Ok an) by exact Ean. assert (Ens0 : rd_nscount r1 = Ok ns) by exact Ens.
  cbv zeta. rewrite Ean', Ens', Ean0, Ens0. cbn [bind].
  destruct (scan_an_ns_facts (N.to_nat an + N.to_nat ns) (rd_mark r1) w1 Hinvm) as (r2 & s2 & E2 & Hinv2 & S2 & D2).
  rewrite E2. cbn [bind].
  pose proof (scan_an_ns_reader _ _ _ _ _ E2) as AR.
  pose proof I1 as (A1 & B1 & _).
  assert (EN1 : w_edns w1 = None).
  { destruct (w_edns w1) eqn:X; auto. exfalso. assert (false = true) by (apply B1; discriminate). discriminate. }
  destruct AR as [[-> AR]|[-> AR]]; rewrite AR.
  2:{ (* a problem in the answer/authority sections *)
      eexists. split; [reflexivity|]. cbn. split; [apply set_rcode_core|]. split; [apply edns_set_rcode; exact A1|].
      unfold set_rcode; simpl. rewrite EN1. split; [intros X; exfalso; apply X; reflexivity|discriminate]. }
  destruct S2 as [So Sm].
  destruct (@be16_at_ok reader_err (r_octets r2) (N.to_nat ARCOUNT_START)) as [ar Ear];
    [destruct Hinv2 as (_ & X & _); simpl; lia|].
  assert (Ear' : rd_arcount r2 = Ok ar) by exact Ear. rewrite Ear'. cbn [bind].
  destruct (scan_additional_facts verify cfg Hcfg (N.to_nat ar) r2 w1 false Hinv2 I1) as (r3 & s3 & E3 & Hinv3 & F3).
  rewrite E3. cbn [bind].
  assert (RE : forall w, (w_edns w <> None <-> false = true \/ opt_reachable (N.to_nat ar) r2 = true) ->
                    (w_edns w <> None <-> opt_reachable (N.to_nat ar) r2 = true)).
  { intros w X. rewrite X. split; [intros [Y|Y]; [discriminate|exact Y]|intros Y; right; exact Y]. }
  destruct s3 as [w3|w3|]; cbn [final_ok] in F3; [| |contradiction].
  - destruct F3 as (C3 & EO3 & OR3).
    destruct (at_eom r3); cbn [negb].
    + (* clean *)
      pose proof (scan_additional_same _ _ _ _ _ _ _ _ E3) as [S3o S3m].
      unfold rd_rewind. rewrite S3m, Sm. cbn [rd_mark r_mark].
      match goal with |- context [rd_opcode ?x] => set (r4 := x) end.
      assert (O4 : rd_opcode r4 = rd_opcode r1).
      { unfold rd_opcode, r4; simpl. rewrite S3o, So. reflexivity. }
      destruct (rd_opcode_ok r1 Hinv1) as (o & Eo & _). rewrite O4, Eo. cbn [bind].
      eexists. split; [reflexivity|]. cbn. split; [exact C3|]. split; [exact EO3|]. split; [apply RE; exact OR3|reflexivity].
    + (* trailing octets *)
      eexists. split; [reflexivity|]. cbn. split; [eapply same_core_trans; [exact C3|apply set_rcode_core]|].
      split; [apply edns_set_rcode; exact EO3|].
      assert (X : w_edns (set_rcode w3 RC_FORMERR) <> None <-> w_edns w3 <> None).
      { unfold set_rcode; simpl. destruct (w_edns w3) as [[sz up]|]; split; intros Y; try discriminate; auto. }
      rewrite X. apply RE. exact OR3.
  - destruct F3 as (C3 & EO3 & OR3).
    eexists. split; [reflexivity|]. cbn. split; [exact C3|]. split; [exact EO3|apply RE; exact OR3].
Qed.

Lemma read_question_wire_bound r r1 q : rinv r -> read_question r = (r1, Ok q) ->
  length (n_wire (q_name q)) <= 255 /\ rinv r1.
Proof.
  intros Hinv E. pose proof (read_question_facts r Hinv) as (_ & _ & I & F).
  rewrite E in *. cbn [fst snd] in *. split; [|exact I].
  destruct (F q eq_refl) as (ls & D & Hn & _). inversion D as [ls' l qt qc DN _ _]; subst.
  destruct DN as (e & _ & _ & Hw). rewrite Hn. exact Hw.
Qed.

Theorem prescan_facts verify cfg req : wf_cfg cfg -> wf_bytes req ->
  exists p, prescan verify cfg req = Ok p /\
  match p with
  | PNone => length req < 12 \/ rd_qr (r0_of req) = Ok true \/
             (exists qd, rd_qdcount (r0_of req) = Ok qd /\ (2 <= qd)%N)
  | PEarly w => early_or_clean cfg req w
  | PClean opc w => early_or_clean cfg req w /\ rd_opcode (r0_of req) = Ok opc
  end.
Proof.
  intros Hcfg Hwf. pose proof Hcfg as (H512 & H64k & Hbuf).
  set (Post := fun p : prescan_result => match p with
    | PNone => length req < 12 \/ rd_qr (r0_of req) = Ok true \/
               (exists qd, rd_qdcount (r0_of req) = Ok qd /\ (2 <= qd)%N)
    | PEarly w => early_or_clean cfg req w
    | PClean opc w => early_or_clean cfg req w /\ rd_opcode (r0_of req) = Ok opc
    end).
  change (exists p, prescan verify cfg req = Ok p /\ Post p).
  unfold prescan.
  destruct (c_buflen cfg <? _) eqn:Eb; [apply Nat.ltb_lt in Eb; lia|]. clear Eb.
  destruct (le_lt_dec 12 (length req)) as [H12|Hshort].
  2:{ unfold reader_new. change header_size with 12.
      destruct (12 <=? length req) eqn:E; [apply Nat.leb_le in E; lia|]. eexists. split; [reflexivity|]. unfold Post. left. exact Hshort. }
  rewrite (reader_new_r0 req H12). set (r0 := r0_of req).
  pose proof (r0_inv req Hwf H12) as Hinv0. fold r0 in Hinv0.
  destruct (@flag_at_ok reader_err (r_octets r0) QR_BYTE QR_MASK) as [qr Eqr]; [change (N.to_nat QR_BYTE) with 2; simpl; lia|].
  assert (Eqr' : rd_qr r0 = Ok qr) by exact Eqr. rewrite Eqr'. cbn [bind].
  destruct qr.
  { eexists. split; [reflexivity|]. unfold Post. right. left. exact Eqr'. }
  destruct (@be16_at_ok reader_err (r_octets r0) (N.to_nat ID_START)) as [id Eid]; [simpl; lia|].
  assert (Eid' : rd_id r0 = Ok id) by exact Eid. rewrite Eid'. cbn [bind].
  destruct (rd_opcode_ok r0 Hinv0) as (opc & Eopc & Hopc). rewrite Eopc. cbn [bind].
  destruct (@flag_at_ok reader_err (r_octets r0) RD_BYTE RD_MASK) as [rdf Erd]; [change (N.to_nat RD_BYTE) with 2; simpl; lia|].
  assert (Erd' : rd_rd r0 = Ok rdf) by exact Erd. rewrite Erd'. cbn [bind].
  unfold initial_resp. change header_size with 12.
  set (limit := Nat.min (match c_transport cfg with Tcp => tcp_limit | Udp => udp_limit end) (c_buflen cfg)).
  assert (Hlim : 512 <= limit /\ limit <= c_buflen cfg).
  { unfold limit, tcp_limit, udp_limit in *. destruct (c_transport cfg); lia. }
  destruct (limit <? 12) eqn:El; [apply Nat.ltb_lt in El; lia|]. cbn [bind].
  set (w0 := mkResp id opc (if (opc =? OPCODE_QUERY)%N then rdf else false) 0 false false None None None
                    empty_body 12 limit limit (c_buflen cfg) 0).
  assert (I0 : srv_inv cfg false w0).
  { unfold srv_inv, edns_ok, reserved, w0; simpl. repeat split; auto; try lia; try discriminate.
    all: try (intros X; exfalso; apply X; reflexivity). }
  destruct (@be16_at_ok reader_err (r_octets r0) (N.to_nat QDCOUNT_START)) as [qd Eqd]; [simpl; lia|].
  assert (Eqd' : rd_qdcount r0 = Ok qd) by exact Eqd. rewrite Eqd'. cbn [bind].
  (* assembling the conclusion from a result of prescan_rest *)
  assert (FIN : forall r1 w1 p, same_core w0 w1 \/ (exists q, w_question w1 = Some q /\ w_id w1 = id /\ w_opcode w1 = opc /\
                                   w_rd w1 = w_rd w0 /\ w_body w1 = empty_body /\ w_aa w1 = false) ->
            question_echo req w1 -> opt_reached req = reach_from r1 ->
            match p with
            | PNone => False
            | PEarly w => same_core w1 w /\ edns_ok cfg w /\ (w_edns w <> None <-> reach_from r1 = true)
            | PClean o w => same_core w1 w /\ edns_ok cfg w /\ (w_edns w <> None <-> reach_from r1 = true) /\
                            rd_opcode r1 = Ok o
            end -> rd_opcode r1 = rd_opcode r0 ->
            Post p).
  { intros r1 w1 p Hw1 QE OR P OP.
    assert (CORE : w_id w1 = id /\ w_opcode w1 = opc /\ w_rd w1 = w_rd w0 /\ w_body w1 = empty_body /\ w_aa w1 = false).
    { destruct Hw1 as [(C1 & C2 & C3 & C4 & C5 & C6)|(q & Q1 & Q2 & Q3 & Q4 & Q5 & Q6)];
        repeat split; auto. }
    destruct CORE as (K1 & K2 & K3 & K4 & K5).
    assert (EOC : forall w, same_core w1 w -> edns_ok cfg w -> (w_edns w <> None <-> reach_from r1 = true) ->
                  early_or_clean cfg req w).
    { intros w (C1 & C2 & C3 & C4 & C5 & C6) EO ORw. unfold early_or_clean. fold r0.
      split; [exact H12|]. split; [exact Eqr'|].
      split. { unfold hdr_echo. fold r0. rewrite C1, C2, C3, K1, K2, K3. split; [exact Eid'|]. split; [exact Eopc|].
               exists rdf. split; [exact Erd'|reflexivity]. }
      split. { unfold question_echo in *. rewrite C4. exact QE. }
      split; [rewrite C5; exact K4|]. split; [rewrite C6; exact K5|]. split; [exact EO|].
      rewrite OR. exact ORw. }
    destruct p as [|w|o w]; [contradiction| |].
    - destruct P as (P1 & P2 & P3). unfold Post. apply EOC; assumption.
    - destruct P as (P1 & P2 & P3 & P4). unfold Post. split; [apply EOC; assumption|]. fold r0. rewrite <- OP. exact P4. }
  destruct (qd =? 0)%N eqn:Q0.
  - apply N.eqb_eq in Q0. subst qd.
    destruct (prescan_rest_facts verify cfg r0 w0 Hcfg Hinv0 I0) as (p & Ep & Fp).
    exists p. split; [exact Ep|].
    apply (FIN r0 w0 p); auto.
    + left. apply same_core_refl.
    + left. reflexivity.
    + unfold opt_reached. fold r0. destruct (length req <? 12) eqn:X; [apply Nat.ltb_lt in X; lia|].
      rewrite Eqd'. reflexivity.
  - destruct (qd =? 1)%N eqn:Q1.
    + apply N.eqb_eq in Q1. subst qd.
      pose proof (read_question_facts r0 Hinv0) as (RQ1 & _).
      destruct (read_question r0) as [r1 x] eqn:RQ. cbn [snd] in RQ1.
      destruct x as [q|e|]; [| |congruence].
      * destruct (read_question_wire_bound r0 r1 q Hinv0 RQ) as [Hwire Hinv1].
        unfold add_question. cbn [w_avail w_cursor w0].
        destruct (limit <? 12) eqn:X1; [apply Nat.ltb_lt in X1; lia|].
        destruct (limit - 12 <? length (n_wire (q_name q))) eqn:X2; [apply Nat.ltb_lt in X2; lia|].
        destruct (limit - (12 + length (n_wire (q_name q))) <? 4) eqn:X3; [apply Nat.ltb_lt in X3; lia|].
        match goal with |- context [prescan_rest verify cfg r1 ?w] => set (w1 := w) end.
        assert (I1 : srv_inv cfg false w1).
        { unfold srv_inv, edns_ok, reserved, w1, w0; simpl. repeat split; auto; try lia; try discriminate.
          all: try (intros X; exfalso; apply X; reflexivity). }
        destruct (prescan_rest_facts verify cfg r1 w1 Hcfg Hinv1 I1) as (p & Ep & Fp).
        exists p. split; [exact Ep|].
        apply (FIN r1 w1 p); auto.
        -- right. exists q. unfold w1, w0; simpl. repeat split.
        -- right. split; [exact Eqd'|]. exists r1, q. split; [exact RQ|reflexivity].
        -- unfold opt_reached. fold r0. destruct (length req <? 12) eqn:X; [apply Nat.ltb_lt in X; lia|].
           rewrite Eqd'. change (1 =? 0)%N with false. change (1 =? 1)%N with true. cbv iota. rewrite RQ. reflexivity.
        -- pose proof (read_question_facts r0 Hinv0) as (_ & _ & _ & F). rewrite RQ in F. cbn [fst snd] in F.
           destruct (F q eq_refl) as (ls & _ & _ & Ho & _). unfold rd_opcode. rewrite Ho. reflexivity.
      * (* the question cannot be parsed *)
        eexists. split; [reflexivity|]. unfold Post, early_or_clean. fold r0.
        split; [exact H12|]. split; [exact Eqr'|].
        split. { unfold hdr_echo. fold r0. cbn. split; [exact Eid'|]. split; [exact Eopc|]. exists rdf. split; [exact Erd'|reflexivity]. }
        split; [left; reflexivity|]. split; [reflexivity|]. split; [reflexivity|].
        split; [unfold edns_ok; cbn; exact I|].
        cbn. unfold opt_reached. fold r0. destruct (length req <? 12) eqn:X; [apply Nat.ltb_lt in X; lia|].
        rewrite Eqd'. change (1 =? 0)%N with false. change (1 =? 1)%N with true. cbv iota. rewrite RQ.
        split; [intros Y; exfalso; apply Y; reflexivity|discriminate].
    + eexists. split; [reflexivity|]. unfold Post. right. right. exists qd. split; [exact Eqd'|].
      apply N.eqb_neq in Q0. apply N.eqb_neq in Q1. lia.
Qed.

(* ---------- silence ---------- *)
Lemma prescan_silent verify cfg req : wf_cfg cfg -> wf_bytes req ->
  (length req < 12 \/ rd_qr (r0_of req) = Ok true \/ (exists qd, rd_qdcount (r0_of req) = Ok qd /\ (2 <= qd)%N)) ->
  prescan verify cfg req = Ok PNone.
Proof.
  intros Hcfg Hwf H. destruct (prescan_facts verify cfg req Hcfg Hwf) as (p & E & F).
  destruct p as [|w|o w]; [exact E| |]; exfalso.
  - destruct F as (A & B & _ & QE & _). destruct H as [H|[H|(qd & H1 & H2)]]; [lia|congruence|].
    (* qdcount >= 2 never gets past the question dispatch *)
    clear QE. unfold prescan in E.
    destruct (c_buflen cfg <? _); [discriminate|]. rewrite (reader_new_r0 req A) in E.
    rewrite B in E. cbn [bind] in E.
    repeat (bb_hyp E; try discriminate). rewrite H1 in *.
    match goal with X : Ok _ = Ok _ |- _ => inv X end.
    destruct (qd =? 0)%N eqn:Q0; [apply N.eqb_eq in Q0; lia|].
    destruct (qd =? 1)%N eqn:Q1; [apply N.eqb_eq in Q1; lia|]. discriminate.
  - destruct F as ((A & B & _ & QE & _) & _). destruct H as [H|[H|(qd & H1 & H2)]]; [lia|congruence|].
    unfold prescan in E.
    destruct (c_buflen cfg <? _); [discriminate|]. rewrite (reader_new_r0 req A) in E.
    rewrite B in E. cbn [bind] in E.
    repeat (bb_hyp E; try discriminate). rewrite H1 in *.
    match goal with X : Ok _ = Ok _ |- _ => inv X end.
    destruct (qd =? 0)%N eqn:Q0; [apply N.eqb_eq in Q0; lia|].
    destruct (qd =? 1)%N eqn:Q1; [apply N.eqb_eq in Q1; lia|]. discriminate.
Qed.

(* ---------- the dispatch (handle_query) ---------- *)
Definition no_data (w : resp) : Prop := w_body w = empty_body /\ w_aa w = false.

Lemma set_rcode_no_data w rc : no_data w -> no_data (set_rcode w rc) /\ w_rcode (set_rcode w rc) = rc.
Proof. intros [A B]. repeat split; assumption. Qed.

Lemma cat_lookup_spec es : forall qname class best r,
  cat_lookup es qname class best = r ->
  match r with
  | None => best = None /\ forall e, In e es -> ~ ((e_class e =? class)%N = true /\ is_suffix (e_name e) qname = true)
  | Some e =>
    (Some e = best \/ (In e es /\ (e_class e =? class)%N = true /\ is_suffix (e_name e) qname = true)) /\
    (forall b, best = Some b -> length (e_name b) <= length (e_name e)) /\
    (forall e', In e' es -> (e_class e' =? class)%N = true -> is_suffix (e_name e') qname = true ->
                length (e_name e') <= length (e_name e))
  end.
Proof.
  induction es as [|x es IH]; intros qname class best r H; cbn [cat_lookup] in H.
  - subst r. destruct best as [b|]; [|split; [reflexivity|intros e []]].
    split; [left; reflexivity|]. split; [intros b' X; inv X; lia|intros e' []].
  - set (better := (e_class x =? class)%N && is_suffix (e_name x) qname &&
                   match best with None => true | Some b => length (e_name b) <? length (e_name x) end) in H.
    specialize (IH qname class (if better then Some x else best) r H).
    destruct r as [e|].
    + destruct IH as (A & B & C). split; [|split].
      * destruct A as [A|(A1 & A2 & A3)]; [|right; split; [right; exact A1|split; assumption]].
        destruct better eqn:Eb; [|left; exact A].
        inv A. right. unfold better in Eb. apply andb_true_iff in Eb. destruct Eb as [Eb _].
        apply andb_true_iff in Eb. destruct Eb. split; [left; reflexivity|split; assumption].
      * intros b Hb. subst best. destruct better eqn:Eb.
        -- specialize (B x eq_refl). unfold better in Eb. apply andb_true_iff in Eb. destruct Eb as [_ Eb].
           apply Nat.ltb_lt in Eb. lia.
        -- apply B. reflexivity.
      * intros e' [->|He'] Hc Hs; [|apply C; assumption].
        destruct better eqn:Eb; [apply B; reflexivity|].
        unfold better in Eb. rewrite Hc, Hs in Eb. cbn [andb] in Eb.
        destruct best as [b|]; [|discriminate]. apply Nat.ltb_ge in Eb.
        specialize (B b eq_refl). lia.
    + destruct IH as (A & C). destruct better eqn:Eb; [discriminate|]. split; [exact A|].
      intros e [->|He] [Hc Hs]; [|apply (C e He); split; assumption].
      unfold better in Eb. rewrite Hc, Hs, A in Eb. discriminate.
Qed.

Theorem handle_query_table answer cfg w : no_data w ->
  match w_question w with
  | None => handle_query answer cfg w = set_rcode w RC_FORMERR
  | Some q =>
    if existsb (N.eqb (q_type q)) [QTYPE_IXFR; QTYPE_AXFR; QTYPE_MAILB; QTYPE_MAILA] || (q_class q =? QCLASS_ANY)%N
    then handle_query answer cfg w = set_rcode w RC_NOTIMP
    else match cat_lookup (c_catalog cfg) (name_key (q_name q)) (q_class q) None with
         | None => handle_query answer cfg w = set_rcode w RC_REFUSED
         | Some e =>
           match e_kind e with
           | ELoaded z => handle_query answer cfg w =
                          apply_body w (answer z q (c_transport cfg) (w_avail w - w_cursor w))
           | _ => handle_query answer cfg w = set_rcode w RC_SERVFAIL
           end
         end
  end.
Proof.
  intros _. unfold handle_query. destruct (w_question w) as [q|]; [|reflexivity].
  destruct (existsb _ _); cbn [orb]; [reflexivity|].
  destruct (q_class q =? QCLASS_ANY)%N; [reflexivity|].
  destruct (cat_lookup _ _ _ _) as [e|]; [|reflexivity]. destruct (e_kind e); reflexivity.
Qed.

(* whatever the dispatch does, the echoed header fields, the question and the EDNS state stay *)
Definition keeps (cfg : config) (w w' : resp) : Prop :=
  w_id w' = w_id w /\ w_opcode w' = w_opcode w /\ w_rd w' = w_rd w /\ w_question w' = w_question w /\
  (w_edns w' <> None <-> w_edns w <> None) /\ (edns_ok cfg w -> edns_ok cfg w') /\ w_tsig w' = w_tsig w.

Lemma set_rcode_keeps cfg w rc : keeps cfg w (set_rcode w rc).
Proof.
  unfold keeps. split; [reflexivity|]. split; [reflexivity|]. split; [reflexivity|]. split; [reflexivity|].
  split; [|split; [apply edns_set_rcode|reflexivity]].
  unfold set_rcode; simpl. destruct (w_edns w) as [[sz up]|]; split; intros X; try discriminate; auto.
Qed.

Lemma apply_body_keeps cfg w b : keeps cfg w (apply_body w b).
Proof.
  unfold keeps, apply_body. destruct (b_rcode b); simpl.
  - split; [reflexivity|]. split; [reflexivity|]. split; [reflexivity|]. split; [reflexivity|].
    unfold edns_ok; simpl. destruct (w_edns w) as [[sz up]|]; (split; [|split; [|reflexivity]]); auto;
      split; intros X; try discriminate; auto.
  - split; [reflexivity|]. split; [reflexivity|]. split; [reflexivity|]. split; [reflexivity|].
    split; [split; auto|]. split; [auto|reflexivity].
Qed.

Lemma handle_query_keeps answer cfg w : keeps cfg w (handle_query answer cfg w).
Proof.
  unfold handle_query. destruct (w_question w) as [q|]; [|apply set_rcode_keeps].
  destruct (existsb _ _); [apply set_rcode_keeps|]. destruct (q_class q =? QCLASS_ANY)%N; [apply set_rcode_keeps|].
  destruct (cat_lookup _ _ _ _) as [e|]; [|apply set_rcode_keeps].
  destruct (e_kind e); try apply set_rcode_keeps. apply apply_body_keeps.
Qed.

(* ---------- handle_message ---------- *)
Theorem handle_message_total answer verify cfg req : wf_cfg cfg -> wf_bytes req ->
  exists x, handle_message answer verify cfg req = Ok x.
Proof.
  intros Hcfg Hwf. unfold handle_message. destruct (prescan_facts verify cfg req Hcfg Hwf) as (p & E & _).
  rewrite E. cbn [bind]. destruct p as [|w|o w]; eauto. destruct (o =? OPCODE_QUERY)%N; eauto.
Qed.

Theorem handle_message_silent_iff answer verify cfg req : wf_cfg cfg -> wf_bytes req ->
  (handle_message answer verify cfg req = Ok None <->
   (length req < 12 \/ rd_qr (r0_of req) = Ok true \/ (exists qd, rd_qdcount (r0_of req) = Ok qd /\ (2 <= qd)%N))).
Proof.
  intros Hcfg Hwf. split.
  - intros H. unfold handle_message in H. destruct (prescan_facts verify cfg req Hcfg Hwf) as (p & E & F).
    rewrite E in H. cbn [bind] in H. destruct p as [|w|o w]; [exact F|discriminate|].
    destruct (o =? OPCODE_QUERY)%N; discriminate.
  - intros H. unfold handle_message. rewrite (prescan_silent verify cfg req Hcfg Hwf H). reflexivity.
Qed.

Theorem handle_message_response answer verify cfg req w : wf_cfg cfg -> wf_bytes req ->
  handle_message answer verify cfg req = Ok (Some w) ->
  hdr_echo req w /\ question_echo req w /\ edns_ok cfg w /\ (w_edns w <> None <-> opt_reached req = true).
Proof.
  intros Hcfg Hwf H. unfold handle_message in H. destruct (prescan_facts verify cfg req Hcfg Hwf) as (p & E & F).
  rewrite E in H. cbn [bind] in H. destruct p as [|w0|o w0]; [discriminate| |].
  - inv H. destruct F as (_ & _ & A & B & _ & _ & C & D). auto.
  - destruct F as ((_ & _ & A & B & _ & _ & C & D) & _).
    assert (K : keeps cfg w0 w).
    { destruct (o =? OPCODE_QUERY)%N; inv H; [apply handle_query_keeps|apply set_rcode_keeps]. }
    destruct K as (K1 & K2 & K3 & K4 & K5 & K6 & _).
    split. { unfold hdr_echo in *. rewrite K1, K2, K3. exact A. }
    split. { unfold question_echo in *. rewrite K4. exact B. }
    split; [apply K6; exact C|]. rewrite K5. exact D.
Qed.

(* a response that was finalised by the pre-scan is sent unchanged, and carries no data *)
Theorem early_is_final answer verify cfg req w : wf_cfg cfg -> wf_bytes req ->
  prescan verify cfg req = Ok (PEarly w) ->
  handle_message answer verify cfg req = Ok (Some w) /\ no_data w.
Proof.
  intros Hcfg Hwf E. unfold handle_message. rewrite E. split; [reflexivity|].
  destruct (prescan_facts verify cfg req Hcfg Hwf) as (p & E' & F). rewrite E in E'. inv E'.
  destruct F as (_ & _ & _ & _ & A & B & _). split; assumption.
Qed.

(* a clean request is dispatched on its opcode; non-QUERY opcodes get NOTIMP with no data *)
Theorem clean_dispatch answer verify cfg req o w0 : wf_cfg cfg -> wf_bytes req ->
  prescan verify cfg req = Ok (PClean o w0) ->
  rd_opcode (r0_of req) = Ok o /\ no_data w0 /\
  handle_message answer verify cfg req =
    Ok (Some (if (o =? OPCODE_QUERY)%N then handle_query answer cfg w0 else set_rcode w0 RC_NOTIMP)).
Proof.
  intros Hcfg Hwf E. destruct (prescan_facts verify cfg req Hcfg Hwf) as (p & E' & F). rewrite E in E'. inv E'.
  destruct F as ((_ & _ & _ & _ & A & B & _) & C). split; [exact C|]. split; [split; assumption|].
  unfold handle_message. rewrite E. cbn [bind]. destruct (o =? OPCODE_QUERY)%N; reflexivity.
Qed.

(* data (answer/authority/additional records, AA) only ever comes from answering a clean QUERY
   out of a Loaded zone *)
Theorem data_only_from_loaded_zone answer verify cfg req w : wf_cfg cfg -> wf_bytes req ->
  handle_message answer verify cfg req = Ok (Some w) -> ~ no_data w ->
  exists w0 q e z, prescan verify cfg req = Ok (PClean OPCODE_QUERY w0) /\ w_question w0 = Some q /\
    cat_lookup (c_catalog cfg) (name_key (q_name q)) (q_class q) None = Some e /\ e_kind e = ELoaded z /\
    w = apply_body w0 (answer z q (c_transport cfg) (w_avail w0 - w_cursor w0)).
Proof.
  intros Hcfg Hwf H ND. unfold handle_message in H.
  destruct (prescan verify cfg req) as [p|e|] eqn:E; cbn [bind] in H; try discriminate.
  destruct p as [|w0|o w0]; [discriminate| |].
  - inv H. exfalso. apply ND. exact (proj2 (early_is_final answer verify cfg req w Hcfg Hwf E)).
  - destruct (clean_dispatch answer verify cfg req o w0 Hcfg Hwf E) as (_ & N0 & _).
    destruct (o =? OPCODE_QUERY)%N eqn:Q.
    2:{ inv H. exfalso. apply ND. apply set_rcode_no_data. exact N0. }
    apply N.eqb_eq in Q. subst o. inv H.
    pose proof (handle_query_table answer cfg w0 N0) as T.
    destruct (w_question w0) as [q|] eqn:Eq.
    2:{ exfalso. apply ND. rewrite T. apply set_rcode_no_data. exact N0. }
    destruct (_ || _).
    { exfalso. apply ND. rewrite T. apply set_rcode_no_data. exact N0. }
    destruct (cat_lookup _ _ _ _) as [e|] eqn:L.
    2:{ exfalso. apply ND. rewrite T. apply set_rcode_no_data. exact N0. }
    destruct (e_kind e) as [z| |] eqn:K.
    + exists w0, q, e, z. repeat split; auto.
    + exfalso. apply ND. rewrite T. apply set_rcode_no_data. exact N0.
    + exfalso. apply ND. rewrite T. apply set_rcode_no_data. exact N0.
Qed.

(* ---------- EDNS OPT validation ---------- *)
Lemma validate_opt_spec owner raw :
  validate_opt owner raw =
    if negb (length (n_offsets owner) =? 1) then Some RC_FORMERR
    else if negb ((N.shiftr raw 16 mod 256) =? 0)%N then Some XRC_BADVERSBADSIG else None.
Proof. reflexivity. Qed.

(* the pre-fix code looked at the clamped Ttl: version 1 with the top bit of the field set was missed *)
Example validate_opt_prefix_refuted :
  let root := mkName [0%N] [0%N] in
  validate_opt_prefix root 2147549184 = None /\ validate_opt root 2147549184 = Some XRC_BADVERSBADSIG.
Proof. split; vm_compute; reflexivity. Qed.

(* a second OPT, or a TSIG that is not the last record, is FORMERR (from pa_kind / the definition) *)
Lemma second_opt_formerr verify cfg r w last p :
  peek_core r = Ok p -> @be16_at reader_err (r_octets r) (p_owner_end p) = Ok TYPE_OPT ->
  process_additional verify cfg r w true last = Ok (r, Return (set_rcode w RC_FORMERR), true).
Proof.
  intros P T. unfold process_additional, peek_rr, peek_type. rewrite P, T. cbn [bind]. reflexivity.
Qed.

Lemma tsig_not_last_formerr verify cfg r w seen p :
  peek_core r = Ok p -> @be16_at reader_err (r_octets r) (p_owner_end p) = Ok TYPE_TSIG ->
  process_additional verify cfg r w seen false = Ok (r, Return (set_rcode w RC_FORMERR), seen).
Proof.
  intros P T. unfold process_additional, peek_rr, peek_type. rewrite P, T. cbn [bind]. reflexivity.
Qed.

Lemma undelimitable_additional_formerr verify cfg r w seen last e :
  peek_core r = Err e ->
  process_additional verify cfg r w seen last = Ok (r, Return (set_rcode w RC_FORMERR), seen).
Proof. intros P. unfold process_additional, peek_rr. rewrite P. reflexivity. Qed.
