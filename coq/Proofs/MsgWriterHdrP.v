(* The header octets and the EDNS/TSIG settings of the writer are those of the abstract header state
   denoted by the operations that succeeded (Spec/MsgWriterAbsS.v: hstep / hreplay). *)
From QV Require Import Base.ListX Model.MsgWriter Spec.MsgWriterS Spec.MsgWriterAbsS
     Proofs.NameWireP Proofs.MsgWriterP Proofs.MsgWriterScanP Proofs.MsgWriterNameP Proofs.MsgWriterInvP
     Proofs.MsgWriterStepP.

Local Open Scope nat_scope.

(* ---------------------------------------------------------------- bit fields of the two flag octets *)

Definition dec2 (x : N) : bool * N * bool * bool * bool :=
  (N.testbit x 7, ((x / 8) mod 16)%N, N.testbit x 2, N.testbit x 1, N.testbit x 0).
Definition dec3 (x : N) : bool * N * N := (N.testbit x 7, ((x / 16) mod 8)%N, (x mod 16)%N).

Definition t5eqb (a b : bool * N * bool * bool * bool) : bool :=
  let '(a1, a2, a3, a4, a5) := a in let '(b1, b2, b3, b4, b5) := b in
  Bool.eqb a1 b1 && (a2 =? b2)%N && Bool.eqb a3 b3 && Bool.eqb a4 b4 && Bool.eqb a5 b5.
Definition t3eqb (a b : bool * N * N) : bool :=
  let '(a1, a2, a3) := a in let '(b1, b2, b3) := b in Bool.eqb a1 b1 && (a2 =? b2)%N && (a3 =? b3)%N.

Lemma t5eqb_eq a b : t5eqb a b = true -> a = b.
Proof.
  destruct a as [[[[a1 a2] a3] a4] a5]. destruct b as [[[[b1 b2] b3] b4] b5]. simpl.
  rewrite !andb_true_iff. intros [[[[H1 H2] H3] H4] H5].
  apply Bool.eqb_prop in H1, H3, H4, H5. apply N.eqb_eq in H2. subst. reflexivity.
Qed.
Lemma t3eqb_eq a b : t3eqb a b = true -> a = b.
Proof.
  destruct a as [[a1 a2] a3]. destruct b as [[b1 b2] b3]. simpl.
  rewrite !andb_true_iff. intros [[H1 H2] H3].
  apply Bool.eqb_prop in H1. apply N.eqb_eq in H2, H3. subst. reflexivity.
Qed.

Definition upd2 (which : nat) (v : bool) (t : bool * N * bool * bool * bool) : bool * N * bool * bool * bool :=
  let '(qr, op, aa, tc, rd) := t in
  match which with 0 => (v, op, aa, tc, rd) | 1 => (qr, op, v, tc, rd) | 2 => (qr, op, aa, v, rd)
                 | _ => (qr, op, aa, tc, v) end.

(* exhaustive over the 256 octet values *)
Lemma flag2_sweep :
  forallb (fun x => forallb (fun v =>
     (set_bit 128 v x <? 256)%N && t5eqb (dec2 (set_bit 128 v x)) (upd2 0 v (dec2 x)) &&
     (set_bit 4 v x <? 256)%N && t5eqb (dec2 (set_bit 4 v x)) (upd2 1 v (dec2 x)) &&
     (set_bit 2 v x <? 256)%N && t5eqb (dec2 (set_bit 2 v x)) (upd2 2 v (dec2 x)) &&
     (set_bit 1 v x <? 256)%N && t5eqb (dec2 (set_bit 1 v x)) (upd2 3 v (dec2 x)))
     [true; false]) (upto 256) = true.
Proof. vm_compute. reflexivity. Qed.

Lemma opcode_sweep :
  forallb (fun x => forallb (fun op =>
     let y := N.lor (N.land x (255 - 120)) ((op * 2 ^ 3) mod 256) in
     (y <? 256)%N && t5eqb (dec2 y) (let '(qr, _, aa, tc, rd) := dec2 x in (qr, op, aa, tc, rd)))
     (upto 16)) (upto 256) = true.
Proof. vm_compute. reflexivity. Qed.

Lemma flag3_sweep :
  forallb (fun x => forallb (fun v =>
     (set_bit 128 v x <? 256)%N &&
     t3eqb (dec3 (set_bit 128 v x)) (let '(_, z, rc) := dec3 x in (v, z, rc))) [true; false]) (upto 256) = true.
Proof. vm_compute. reflexivity. Qed.

Lemma rcode_sweep :
  forallb (fun x => forallb (fun rc =>
     let y := N.lor (N.land x (255 - 15)) rc in
     (y <? 256)%N && t3eqb (dec3 y) (let '(ra, z, _) := dec3 x in (ra, z, rc)))
     (upto 16)) (upto 256) = true.
Proof. vm_compute. reflexivity. Qed.

Lemma land15_sweep : forallb (fun y => (N.land y 15 =? y mod 16)%N) (upto 256) = true.
Proof. vm_compute. reflexivity. Qed.

Lemma sweep2 {A} (f : N -> A -> bool) (l : list A) n x a : forallb (fun x => forallb (f x) l) (upto n) = true ->
  (x < N.of_nat n)%N -> In a l -> f x a = true.
Proof.
  intros H Hx Ha. rewrite forallb_forall in H. specialize (H x (upto_In n x Hx)).
  rewrite forallb_forall in H. apply H; auto.
Qed.

Lemma bool_in (v : bool) : In v [true; false].
Proof. destruct v; simpl; auto. Qed.

(* ---------------------------------------------------------------- the invariant *)

Definition tsig_matches (t : tsigr) (a : atsig) : Prop :=
  t_alg t = at_alg a /\ t_key t = at_key a /\ t_time t = at_time a /\ t_fudge t = at_fudge a /\
  t_origid t = at_origid a /\ t_error t = at_error a /\ t_server_time t = at_stime a.

Record HInv (w : writer) (H : ahdr) : Prop := mkHInv {
  hi_len : 4 <= length (w_buf w);
  hi_id : slice (w_buf w) 0 2 = be16 (h_id H);
  hi_idb : (h_id H < 65536)%N;
  hi_f2 : exists x, nth_error (w_buf w) 2 = Some x /\ (x < 256)%N /\
                    dec2 x = (h_qr H, h_opcode H, h_aa H, h_tc H, h_rd H);
  hi_f3 : exists x, nth_error (w_buf w) 3 = Some x /\ (x < 256)%N /\ dec3 x = (h_ra H, 0%N, h_rcode H);
  hi_edns : w_edns w = match h_edns H with Some (u, up) => Some (mkEdns u up) | None => None end;
  hi_tsig : match w_tsig w, h_tsig H with
            | Some t, Some a => tsig_matches t a
            | None, None => True
            | _, _ => False
            end }.

Lemma HInv_frame w w' H : HInv w H -> agree 4 (w_buf w) (w_buf w') -> 4 <= length (w_buf w') ->
  w_edns w' = w_edns w -> w_tsig w' = w_tsig w -> HInv w' H.
Proof.
  intros [Hl Hid Hb [x2 [E2 F2]] [x3 [E3 F3]] He Ht] Ag Hl' Ee Et.
  constructor; auto.
  - rewrite (agree_slice 4 _ _ 0 2 Ag) by lia. exact Hid.
  - exists x2. split; auto. rewrite (agree_nth 4 _ _ 2 Ag) by lia. exact E2.
  - exists x3. split; auto. rewrite (agree_nth 4 _ _ 3 Ag) by lia. exact E3.
  - rewrite Ee. exact He.
  - rewrite Et. exact Ht.
Qed.

(* ---------------------------------------------------------------- single-octet header updates *)

Lemma buf_write_other b pos d b' j : buf_write b pos d = Some b' -> (j < pos \/ pos + length d <= j) ->
  nth_error b' j = nth_error b j.
Proof.
  intros W Hj. apply buf_write_inv in W as [W1 ->].
  destruct Hj as [Hj|Hj].
  - rewrite nth_error_app1 by (rewrite firstn_length; lia). apply nth_error_firstn_lt; auto.
  - rewrite nth_error_app2 by (rewrite firstn_length; lia). rewrite firstn_length.
    rewrite nth_error_app2 by lia. rewrite nth_error_skipn. f_equal. lia.
Qed.

Lemma w_modify_inv w i f w' : w_modify w i f = Ok w' ->
  exists x b', nth_error (w_buf w) (N.to_nat i) = Some x /\ buf_write (w_buf w) (N.to_nat i) [f x] = Some b' /\
               w' = set_buf w b'.
Proof.
  unfold w_modify. destruct (nth_error (w_buf w) (N.to_nat i)) as [x|] eqn:E; [|discriminate].
  intros H. apply w_write_inv in H as [b' [Hb ->]]. eauto.
Qed.

Lemma modify_octet w i f w' : w_modify w i f = Ok w' ->
  exists x, nth_error (w_buf w) (N.to_nat i) = Some x /\ nth_error (w_buf w') (N.to_nat i) = Some (f x) /\
            (forall j, j <> N.to_nat i -> nth_error (w_buf w') j = nth_error (w_buf w) j) /\
            length (w_buf w') = length (w_buf w) /\ w_edns w' = w_edns w /\ w_tsig w' = w_tsig w.
Proof.
  intros H. apply w_modify_inv in H as [x [b' [E [Hb ->]]]]. exists x. split; auto. simpl.
  split; [|split; [|split; [eapply buf_write_length; eauto|auto]]].
  - replace (N.to_nat i) with (N.to_nat i + 0) at 1 by lia. eapply buf_write_nth_in; eauto.
  - intros j Hj. eapply buf_write_other; eauto. simpl. lia.
Qed.

Lemma slice_nth2 (b : bytes) x y : nth_error b 0 = Some x -> nth_error b 1 = Some y -> slice b 0 2 = [x; y].
Proof.
  intros H0 H1. rewrite (slice_cons b 0 x 2 H0) by lia. rewrite (slice_cons b 1 y 2 H1) by lia.
  rewrite slice_nil. reflexivity.
Qed.

Lemma slice2_ext (b b' : bytes) : nth_error b' 0 = nth_error b 0 -> nth_error b' 1 = nth_error b 1 ->
  2 <= length b -> slice b' 0 2 = slice b 0 2.
Proof.
  intros H0 H1 Hl.
  destruct (nth_error b 0) as [x|] eqn:E0; [|apply nth_error_None in E0; lia].
  destruct (nth_error b 1) as [y|] eqn:E1; [|apply nth_error_None in E1; lia].
  rewrite (slice_nth2 b x y E0 E1), (slice_nth2 b' x y H0 H1). reflexivity.
Qed.

(* a write to octet 2 *)
Lemma HInv_f2 w H f w' t' : HInv w H -> w_modify w 2 f = Ok w' ->
  (forall x, (x < 256)%N -> dec2 x = (h_qr H, h_opcode H, h_aa H, h_tc H, h_rd H) ->
             (f x < 256)%N /\ dec2 (f x) = t') ->
  forall H', h_id H' = h_id H -> (h_qr H', h_opcode H', h_aa H', h_tc H', h_rd H') = t' ->
             h_ra H' = h_ra H -> h_rcode H' = h_rcode H -> h_edns H' = h_edns H -> h_tsig H' = h_tsig H ->
  HInv w' H'.
Proof.
  intros [Hl Hid Hb [x2 [E2 [B2 F2]]] [x3 [E3 F3]] He Ht] Hm Hf H' I1 I2 I3 I4 I5 I6.
  destruct (modify_octet _ _ _ _ Hm) as [x [Ex [Ex' [Ho [Hlen [Ee Et]]]]]].
  change (N.to_nat 2) with 2 in *. rewrite E2 in Ex. inversion Ex; subst x.
  destruct (Hf x2 B2 F2) as [B' D'].
  constructor.
  - lia.
  - rewrite I1. rewrite <- Hid. apply slice2_ext; try lia; apply Ho; lia.
  - rewrite I1. exact Hb.
  - exists (f x2). split; auto. split; auto. rewrite I2. exact D'.
  - exists x3. rewrite Ho by lia. rewrite I3, I4. auto.
  - rewrite Ee, I5. exact He.
  - rewrite Et, I6. exact Ht.
Qed.

Lemma HInv_f3 w H f w' w'' H' : HInv w H -> w_modify w 3 f = Ok w' ->
  (forall x, (x < 256)%N -> dec3 x = (h_ra H, 0%N, h_rcode H) ->
             (f x < 256)%N /\ dec3 (f x) = (h_ra H', 0%N, h_rcode H')) ->
  h_id H' = h_id H ->
  (h_qr H', h_opcode H', h_aa H', h_tc H', h_rd H') = (h_qr H, h_opcode H, h_aa H, h_tc H, h_rd H) ->
  h_tsig H' = h_tsig H -> w_buf w'' = w_buf w' -> w_tsig w'' = w_tsig w' ->
  w_edns w'' = match h_edns H' with Some (u, up) => Some (mkEdns u up) | None => None end ->
  HInv w'' H'.
Proof.
  intros [Hl Hid Hb [x2 [E2 F2]] [x3 [E3 [B3 F3]]] He Ht] Hm Hf I1 I2 I6 Eb Et'' Ee''.
  destruct (modify_octet _ _ _ _ Hm) as [x [Ex [Ex' [Ho [Hlen [Ee Et]]]]]].
  change (N.to_nat 3) with 3 in *. rewrite E3 in Ex. inversion Ex; subst x.
  destruct (Hf x3 B3 F3) as [B' D'].
  constructor; rewrite ?Eb.
  - lia.
  - rewrite I1. rewrite <- Hid. apply slice2_ext; try lia; apply Ho; lia.
  - rewrite I1. exact Hb.
  - exists x2. rewrite Ho by lia. rewrite I2. auto.
  - exists (f x3). split; auto.
  - exact Ee''.
  - rewrite Et'', Et, I6. exact Ht.
Qed.

(* ---------------------------------------------------------------- operations that leave the header alone *)

Definition hframe (w w' : writer) : Prop :=
  agree 4 (w_buf w) (w_buf w') /\ w_edns w' = w_edns w /\ w_tsig w' = w_tsig w.

Lemma hframe_refl w : hframe w w.
Proof. split; [apply agree_refl|auto]. Qed.

Lemma hframe_ext c0 w w' : ext c0 w w' -> 4 <= c0 -> hframe w w'.
Proof. intros X Hc. split; [eapply agree_le; [apply X|exact Hc]|]. split; apply X. Qed.

Lemma hframe_obs w w' : Inv_n w -> obs_eq w w' -> hframe w w'.
Proof.
  intros [] X. pose proof wconsts as [K _]. split; [eapply agree_le; [apply X|lia]|]. split; apply X.
Qed.

Definition nonhdr (o : wop) : bool :=
  match o with
  | OAddQuestion _ _ _ | OAddRr _ _ _ _ _ _ _ _ | OAddRrset _ _ _ _ _ _ _ _ | OSetLimit _ | OSetMode _
  | OClearRrs | OTemplate _ | OTemplateSubsequent | OGet => true
  | _ => false
  end.

Lemma step_hframe d o d' r : Inv_n (d_w d) -> nonhdr o = true -> step d o = Ok (d', r) ->
  hframe (d_w d) (d_w d').
Proof.
  intros Hn Hnh E. pose proof (step_good_all d o Hn) as G. rewrite E in G. simpl in G.
  pose proof wconsts as [K12 _]. pose proof Hn as [h1 h2 h3 h4 h5].
  assert (Herr : forall e, r = RErr e -> hframe (d_w d) (d_w d')).
  { intros e ->. apply hframe_obs; auto. }
  destruct r as [|e|l]; [|eapply Herr; eauto|].
  - destruct o; try discriminate; cbn [step] in E.
    + (* question *)
      unfold add_question in E. destruct (w_section (d_w d)); try (simpl in E; discriminate).
      destruct (checked_add16 (w_qd (d_w d)) 1); [|simpl in E; discriminate].
      match type of E with context [with_rollback ?f _] =>
        pose proof (rollback_spec f (d_w d) Hn (question_body_frame _ n qtype qclass (d_w d) (inv_pre _ Hn))) as R;
        destruct (with_rollback f (d_w d)) as [[[] w1]|[e w1]|] end; simpl in E; try discriminate.
      inversion E; subst d'. simpl.
      destruct (hframe_ext _ _ _ R ltac:(lia)) as [A1 [A2 A3]]. split; simpl; auto.
    + (* rr *)
      unfold add_section_rr, with_rollback in E.
      destruct (change_section s (d_w d)) as [[[] w1]|[e w1]|] eqn:Ecs; cbn [bind] in E; try (simpl in E; discriminate).
      destruct (change_section_inv _ _ _ _ Ecs) as [x ->].
      assert (Hpre : pre (w_cursor (d_w d)) (set_section (d_w d) x)) by (split; simpl; lia).
      match type of E with context [add_rr ?a ?b ?c ?dd ?e ?f ?g ?hh] =>
        pose proof (frame_add_rr (w_cursor (d_w d)) a b c dd e f g hh Hpre) as F;
        destruct (add_rr a b c dd e f g hh) as [[v' w2]|[e' w2]|] end; cbn [bind] in E; try (simpl in E; discriminate).
      destruct (checked_add16 (sec_count s w2) 1); simpl in E; try discriminate.
      inversion E; subst d'. simpl in F |- *. apply ext_unsection in F.
      destruct (hframe_ext _ _ _ F ltac:(lia)) as [A1 [A2 A3]]. destruct s; split; simpl; auto.
    + (* rrset *)
      unfold add_section_rrset, with_rollback in E.
      destruct (change_section s (d_w d)) as [[[] w1]|[e w1]|] eqn:Ecs; cbn [bind] in E; try (simpl in E; discriminate).
      destruct (change_section_inv _ _ _ _ Ecs) as [x ->].
      assert (Hpre : pre (w_cursor (d_w d)) (set_section (d_w d) x)) by (split; simpl; lia).
      match type of E with context [add_rrset_loop ?a ?b ?c ?dd ?e ?f ?g ?k ?hh] =>
        pose proof (frame_rrset_loop (w_cursor (d_w d)) f a b c dd e g k hh Hpre) as F;
        destruct (add_rrset_loop a b c dd e f g k hh) as [[[v' k'] w2]|[e' w2]|] end; cbn [bind] in E;
        try (simpl in E; discriminate).
      destruct (65535 <? N.of_nat k')%N; simpl in E; try discriminate.
      destruct (checked_add16 (sec_count s w2) (N.of_nat k')); simpl in E; try discriminate.
      inversion E; subst d'. simpl in F |- *. apply ext_unsection in F.
      destruct (hframe_ext _ _ _ F ltac:(lia)) as [A1 [A2 A3]]. destruct s; split; simpl; auto.
    + destruct (set_limit_ok l (d_w d) Hn) as [nl [av E']]. rewrite E' in E. simpl in E.
      inversion E; subst d'. simpl. split; [apply agree_refl|split; reflexivity].
    + inversion E; subst d'. simpl. split; [apply agree_refl|split; reflexivity].
    + inversion E; subst d'. simpl. split; [apply agree_refl|split; reflexivity].
    + destruct (retemplate_ok newbuf (d_w d) Hn) as [[lim [av E']]|E']; rewrite E' in E; simpl in E; try discriminate.
      inversion E; subst d'. simpl. split; auto. unfold agree, set_limit_avail, set_buf. cbn [w_buf].
      rewrite firstn_app, firstn_firstn, firstn_length.
      replace (Nat.min 4 (w_cursor (d_w d))) with 4 by lia.
      replace (4 - Nat.min (w_cursor (d_w d)) (length (w_buf (d_w d)))) with 0 by lia.
      simpl. apply app_nil_r.
    + destruct (getters (d_w d)); simpl in E; discriminate.
  - destruct o; try discriminate; cbn [step] in E.
    + unfold add_question in E. destruct (w_section (d_w d)); try (simpl in E; discriminate).
      destruct (checked_add16 (w_qd (d_w d)) 1); [|simpl in E; discriminate].
      destruct (with_rollback _ (d_w d)) as [[[] w1]|[e w1]|]; simpl in E; discriminate.
    + destruct (add_section_rr _ _ _ _ _ _ _ _ _) as [[? ?]|[? ?]|]; simpl in E; discriminate.
    + destruct (add_section_rrset _ _ _ _ _ _ _ _ _) as [[? ?]|[? ?]|]; simpl in E; discriminate.
    + destruct (set_limit _ (d_w d)); simpl in E; discriminate.
    + destruct (retemplate _ (d_w d)); simpl in E; discriminate.
    + destruct (getters (d_w d)); simpl in E; inversion E; subst. apply hframe_refl.
Qed.

(* ---------------------------------------------------------------- every operation *)

Definition op_wf3 (o : wop) : Prop :=
  match o with
  | OSetId v => (v < 65536)%N
  | OSetOpcode v => (v < 16)%N
  | OSetRcode v => (v < 16)%N
  | _ => True
  end.

Lemma xrcode_sweep :
  forallb (fun v => (N.land (v mod 256) 15 =? v mod 16)%N && ((v / 16) mod 256 =? v / 16)%N && (v mod 16 <? 16)%N)
          (upto 4096) = true.
Proof. vm_compute. reflexivity. Qed.

Lemma flag2_ok w H w' which mask v H' : HInv w H -> w_modify w 2 (set_bit mask v) = Ok w' ->
  (which = 0 /\ mask = 128%N \/ which = 1 /\ mask = 4%N \/ which = 2 /\ mask = 2%N \/ which = 3 /\ mask = 1%N) ->
  h_id H' = h_id H ->
  (h_qr H', h_opcode H', h_aa H', h_tc H', h_rd H') = upd2 which v (h_qr H, h_opcode H, h_aa H, h_tc H, h_rd H) ->
  h_ra H' = h_ra H -> h_rcode H' = h_rcode H -> h_edns H' = h_edns H -> h_tsig H' = h_tsig H ->
  HInv w' H'.
Proof.
  intros Hi Hm Hw I1 I2 I3 I4 I5 I6.
  eapply (HInv_f2 w H (set_bit mask v) w' (upd2 which v (h_qr H, h_opcode H, h_aa H, h_tc H, h_rd H))); eauto.
  intros x Hx Hd.
  pose proof (sweep2 _ _ 256 x v flag2_sweep ltac:(simpl; lia) (bool_in v)) as S. cbv beta in S.
  rewrite !andb_true_iff in S. destruct S as [[[[[[[S1 S2] S3] S4] S5] S6] S7] S8].
  rewrite <- Hd.
  destruct Hw as [[-> ->]|[[-> ->]|[[-> ->]|[-> ->]]]].
  - split; [apply N.ltb_lt; auto|apply t5eqb_eq; auto].
  - split; [apply N.ltb_lt; auto|apply t5eqb_eq; auto].
  - split; [apply N.ltb_lt; auto|apply t5eqb_eq; auto].
  - split; [apply N.ltb_lt; auto|apply t5eqb_eq; auto].
Qed.

Lemma of_R_ok d (r : res werr writer) d' o : of_R d r = Ok (d', o) ->
  (exists w', r = Ok w' /\ d' = mkD w' (d_regs d) /\ o = RUnit) \/ (exists e, r = Err e /\ d' = d /\ o = RErr e).
Proof. destruct r as [w'|e|]; simpl; intros H; inversion H; subst; eauto. Qed.

Lemma w_modify_total w i f : N.to_nat i < length (w_buf w) -> exists w', w_modify w i f = Ok w'.
Proof.
  intros Hi. unfold w_modify, w_write.
  destruct (nth_error (w_buf w) (N.to_nat i)) as [x|] eqn:E; [|apply nth_error_None in E; lia].
  destruct (buf_write_some (w_buf w) (N.to_nat i) [f x]) as [b' ->]; [simpl; lia|]. eauto.
Qed.

Local Opaque nth_error.

Theorem hstep_ok d H o d' r : Inv_n (d_w d) -> HInv (d_w d) H -> op_wf3 o -> step d o = Ok (d', r) ->
  HInv (d_w d') (hstep H o r).
Proof.
  intros Hn Hi Hw E.
  destruct (nonhdr o) eqn:Enh.
  { pose proof (step_hframe d o d' r Hn Enh E) as [A1 [A2 A3]].
    pose proof (step_inv _ _ _ _ Hn E) as Hn'. pose proof wconsts as [K _].
    assert (Hs : hstep H o r = H) by (destruct o; try discriminate; destruct r; reflexivity).
    rewrite Hs. eapply HInv_frame; eauto. destruct Hn'. lia. }
  pose proof Hi as [Hl Hid Hb [x2 [E2 [B2 F2]]] [x3 [E3 [B3 F3]]] He Ht].
  destruct o; try discriminate; cbn [step] in E; simpl in Hw.
  - (* set_id *)
    apply of_R_ok in E as [[w' [E [-> ->]]]|[e [E _]]]; [|unfold set_id, w_write in E;
      destruct (buf_write (w_buf (d_w d)) (N.to_nat ID_START) (be16 v)); discriminate].
    unfold set_id in E. apply w_write_inv in E as [b' [Hb' ->]]. change (N.to_nat ID_START) with 0 in Hb'.
    simpl. constructor; simpl.
    + rewrite (buf_write_length _ _ _ _ Hb'). exact Hl.
    + exact (buf_write_data _ _ _ _ Hb').
    + exact Hw.
    + exists x2. rewrite (buf_write_other _ _ _ _ 2 Hb') by (simpl; lia). auto.
    + exists x3. rewrite (buf_write_other _ _ _ _ 3 Hb') by (simpl; lia). auto.
    + exact He.
    + exact Ht.
  - apply of_R_ok in E as [[w' [E [-> ->]]]|[e [E _]]];
      [|unfold set_qr, w_set_flag in E;
        destruct (w_modify_total (d_w d) QR_BYTE (set_bit QR_MASK b) ltac:(simpl; lia)) as [? Ew];
        rewrite Ew in E; discriminate].
    simpl. eapply (flag2_ok _ H w' 0 128 b); eauto; try tauto.
  - (* opcode *)
    apply of_R_ok in E as [[w' [E [-> ->]]]|[e [E _]]];
      [|unfold set_opcode in E;
        destruct (w_modify_total (d_w d) OPCODE_BYTE (fun x => N.lor (N.land x (255 - OPCODE_MASK)) ((v * 2 ^ OPCODE_SHIFT) mod 256))
                    ltac:(simpl; lia)) as [? Ew]; rewrite Ew in E; discriminate].
    simpl. unfold set_opcode in E. change OPCODE_BYTE with 2%N in E. change OPCODE_MASK with 120%N in E.
    change OPCODE_SHIFT with 3%N in E.
    eapply (HInv_f2 (d_w d) H _ w' (h_qr H, v, h_aa H, h_tc H, h_rd H)); eauto.
    intros x Hx Hd.
    pose proof (sweep2 _ _ 256 x v opcode_sweep ltac:(simpl; lia) (upto_In 16 v ltac:(simpl; lia))) as S.
    cbv beta zeta in S. rewrite Hd in S. apply andb_true_iff in S as [S1 S2].
    split; [apply N.ltb_lt; auto|apply t5eqb_eq; auto].
  - apply of_R_ok in E as [[w' [E [-> ->]]]|[e [E _]]];
      [|unfold set_aa, w_set_flag in E;
        destruct (w_modify_total (d_w d) AA_BYTE (set_bit AA_MASK b) ltac:(simpl; lia)) as [? Ew];
        rewrite Ew in E; discriminate].
    simpl. eapply (flag2_ok _ H w' 1 4 b); eauto; try tauto.
  - apply of_R_ok in E as [[w' [E [-> ->]]]|[e [E _]]];
      [|unfold set_tc, w_set_flag in E;
        destruct (w_modify_total (d_w d) TC_BYTE (set_bit TC_MASK b) ltac:(simpl; lia)) as [? Ew];
        rewrite Ew in E; discriminate].
    simpl. eapply (flag2_ok _ H w' 2 2 b); eauto; try tauto.
  - apply of_R_ok in E as [[w' [E [-> ->]]]|[e [E _]]];
      [|unfold set_rd, w_set_flag in E;
        destruct (w_modify_total (d_w d) RD_BYTE (set_bit RD_MASK b) ltac:(simpl; lia)) as [? Ew];
        rewrite Ew in E; discriminate].
    simpl. eapply (flag2_ok _ H w' 3 1 b); eauto; try tauto.
  - (* ra *)
    apply of_R_ok in E as [[w' [E [-> ->]]]|[e [E _]]];
      [|unfold set_ra, w_set_flag in E;
        destruct (w_modify_total (d_w d) RA_BYTE (set_bit RA_MASK b) ltac:(simpl; lia)) as [? Ew];
        rewrite Ew in E; discriminate].
    simpl. unfold set_ra, w_set_flag in E. change RA_BYTE with 3%N in E. change RA_MASK with 128%N in E.
    destruct (modify_octet _ _ _ _ E) as [_ [_ [_ [_ [_ [Ee Et']]]]]].
    eapply (HInv_f3 (d_w d) H _ w' w'); eauto; [|simpl; rewrite Ee; exact He].
    intros x Hx Hd. simpl.
    pose proof (sweep2 _ _ 256 x b flag3_sweep ltac:(simpl; lia) (bool_in b)) as S.
    cbv beta in S. rewrite Hd in S. apply andb_true_iff in S as [S1 S2].
    split; [apply N.ltb_lt; auto|apply t3eqb_eq; auto].
  - (* rcode *)
    apply of_R_ok in E as [[w' [E [-> ->]]]|[e [E _]]].
    2:{ unfold set_rcode in E.
        destruct (w_modify_total (d_w d) RCODE_BYTE (fun x => N.lor (N.land x (255 - RCODE_MASK)) v)
                    ltac:(simpl; lia)) as [? Ew]. rewrite Ew in E. discriminate. }
    unfold set_rcode in E.
    destruct (w_modify (d_w d) RCODE_BYTE _) as [w1|e|] eqn:Em; simpl in E; try discriminate.
    inversion E; subst w'. change RCODE_BYTE with 3%N in Em. change RCODE_MASK with 15%N in Em.
    destruct (modify_octet _ _ _ _ Em) as [_ [_ [_ [_ [_ [Ee Et']]]]]].
    simpl. eapply (HInv_f3 (d_w d) H _ w1 (clear_upper w1)); eauto.
    + intros x Hx Hd. simpl.
      pose proof (sweep2 _ _ 256 x v rcode_sweep ltac:(simpl; lia) (upto_In 16 v ltac:(simpl; lia))) as S.
      cbv beta zeta in S. rewrite Hd in S. apply andb_true_iff in S as [S1 S2].
      split; [apply N.ltb_lt; auto|apply t3eqb_eq; auto].
    + unfold clear_upper. destruct (w_edns w1); reflexivity.
    + unfold clear_upper. destruct (w_edns w1); reflexivity.
    + simpl. destruct (h_edns H) as [[u up]|] eqn:Eh; unfold clear_upper; rewrite Ee, He; simpl;
        [reflexivity|rewrite Ee, He; reflexivity].
  - (* xrcode *)
    unfold set_extended_rcode in E. destruct (w_edns (d_w d)) as [e|] eqn:Ee0.
    2:{ simpl in E. inversion E; subst. simpl. exact Hi. }
    destruct (4095 <? v)%N eqn:Ev; [simpl in E; inversion E; subst; simpl; exact Hi|].
    apply N.ltb_ge in Ev.
    destruct (w_modify (d_w d) RCODE_BYTE _) as [w1|e1|] eqn:Em; simpl in E; try discriminate.
    2:{ destruct (w_modify_total (d_w d) RCODE_BYTE
                    (fun x => N.lor (N.land x (255 - RCODE_MASK)) (N.land (v mod 256) RCODE_MASK))
                    ltac:(simpl; lia)) as [? Ew]. rewrite Ew in Em. discriminate. }
    inversion E; subst d' r. change RCODE_BYTE with 3%N in Em. change RCODE_MASK with 15%N in Em.
    destruct (modify_octet _ _ _ _ Em) as [_ [_ [_ [_ [_ [Ee Et']]]]]].
    pose proof xrcode_sweep as S. rewrite forallb_forall in S.
    specialize (S v (upto_In 4096 v ltac:(simpl; lia))). rewrite !andb_true_iff in S. destruct S as [[S1 S2] S3].
    apply N.eqb_eq in S1, S2. apply N.ltb_lt in S3.
    rewrite S1 in Em. rewrite S2.
    destruct (h_edns H) as [[u up]|] eqn:Eh; [|discriminate].
    inversion He; subst e.
    simpl. eapply (HInv_f3 (d_w d) H _ w1 _); eauto; simpl; auto.
    + intros x Hx Hd.
      pose proof (sweep2 _ _ 256 x (v mod 16)%N rcode_sweep ltac:(simpl; lia) (upto_In 16 _ S3)) as S.
      cbv beta zeta in S. rewrite Hd in S. apply andb_true_iff in S as [S4 S5].
      split; [apply N.ltb_lt; auto|apply t3eqb_eq; auto].
    + rewrite Eh. reflexivity.
  - (* set_edns *)
    unfold set_edns in E. destruct (w_edns (d_w d)) eqn:Ee0; [simpl in E; inversion E; subst; exact Hi|].
    destruct (w_avail (d_w d) <? _); [simpl in E; inversion E; subst; exact Hi|].
    destruct (checked_add16 (w_ar (d_w d)) 1); simpl in E; inversion E; subst; [|exact Hi].
    simpl. constructor; simpl; auto; try (eexists; eauto; fail).
  - (* set_tsig *)
    unfold set_tsig in E. destruct (w_tsig (d_w d)) eqn:Et0; [simpl in E; inversion E; subst; exact Hi|].
    destruct (w_avail (d_w d) <? _); [simpl in E; inversion E; subst; exact Hi|].
    destruct (checked_add16 (w_ar (d_w d)) 1); simpl in E; inversion E; subst; [|exact Hi].
    simpl. constructor; simpl; auto; try (eexists; eauto; fail).
    unfold tsig_matches. simpl. repeat split; reflexivity.
  - (* update_time *)
    unfold update_time_signed in E. destruct (w_tsig (d_w d)) as [t|] eqn:Et0; simpl in E; inversion E; subst.
    + simpl. destruct (h_tsig H) as [a|] eqn:Ea; [|contradiction].
      destruct Ht as [T1 [T2 [T3 [T4 [T5 [T6 T7]]]]]].
      constructor; simpl; auto; try (eexists; eauto; fail).
      unfold tsig_matches. simpl. auto 10.
    + exact Hi.
Qed.

(* ---------------------------------------------------------------- whole runs *)

Lemma HInv_new buf limit w0 : writer_new buf limit = Ok w0 -> HInv w0 ah0.
Proof.
  intros H. unfold writer_new in H.
  destruct (Nat.min limit (length buf) <? header_size); [discriminate|].
  destruct (length buf <? header_size) eqn:E; [discriminate|]. apply Nat.ltb_ge in E.
  inversion H; subst w0. clear H.
  constructor; cbn [w_buf w_edns w_tsig ah0 h_id h_qr h_opcode h_aa h_tc h_rd h_ra h_rcode h_edns h_tsig].
  - simpl. lia.
  - reflexivity.
  - lia.
  - exists 0%N. split; [reflexivity|]. split; [lia|reflexivity].
  - exists 0%N. split; [reflexivity|]. split; [lia|reflexivity].
  - reflexivity.
  - exact I.
Qed.

Theorem hrun : forall ops d H d' outs alive, Inv_n (d_w d) -> HInv (d_w d) H -> Forall op_wf3 ops ->
  run d ops = Ok (d', outs, alive) -> HInv (d_w d') (hreplay H ops outs).
Proof.
  induction ops as [|o rest IH]; intros d H d' outs alive Hn Hi Hw E.
  - simpl in E. inversion E; subst. simpl. exact Hi.
  - inversion Hw as [|? ? W1 W2]; subst. cbn [run] in E.
    destruct (step d o) as [[d1 r]|e|] eqn:Es; cbn [bind] in E; try discriminate.
    pose proof (hstep_ok d H o d1 r Hn Hi W1 Es) as Hi1.
    pose proof (step_inv _ _ _ _ Hn Es) as Hn1.
    destruct (stops o r).
    + inversion E; subst. simpl. destruct rest; exact Hi1.
    + destruct (run d1 rest) as [[[d2 rs] al]|e|] eqn:Er; cbn [bind] in E; try discriminate.
      inversion E; subst. simpl. eapply IH; eauto.
Qed.
