(* C20: what add accepts, that a rejected add changes nothing, and that iteration yields every
   existing name once with exactly the de-duplicated RRsets of the accepted records. *)
From QV Require Import Base.Res Base.Octets Base.ListX Gen.ZoneConsts Model.ZoneTree Spec.ZoneLookupS
  Proofs.ZoneBaseP Proofs.ZoneRrsetP Proofs.ZoneViewP Proofs.ZoneInvP Proofs.ZoneLookupP Proofs.ZoneTopP
  Proofs.ZoneIterP Proofs.ZoneSpellP.

Lemma NoDup_flat_map_keyed {A B K} (g : A -> list B) (kA : A -> K) (kB : B -> K) l :
  NoDup (map kA l) -> (forall x, In x l -> NoDup (g x)) ->
  (forall x y, In x l -> In y (g x) -> kB y = kA x) -> NoDup (flat_map g l).
Proof.
  induction l as [|a l IH]; simpl; intros Hk Hg Hkey; [constructor|].
  inversion Hk as [|? ? Hnin Hnd]; subst. apply NoDup_app_disjoint.
  - apply Hg. auto.
  - apply IH; auto.
  - intros y Hy1 Hy2. apply in_flat_map in Hy2. destruct Hy2 as (x & Hx & Hy).
    assert (E : kA x = kA a) by (rewrite <- (Hkey a y), <- (Hkey x y); auto).
    apply Hnin. rewrite <- E. apply in_map. exact Hx.
Qed.

Lemma map_flat_map {A B C} (h : B -> C) (g : A -> list B) l :
  map h (flat_map g l) = flat_map (fun x => map h (g x)) l.
Proof. induction l as [|a l IH]; simpl; auto. rewrite map_app, IH. reflexivity. Qed.

Lemma sorted_rr_nodup_types d : sorted_rr d -> NoDup (map rs_type d).
Proof.
  induction d as [|r d IH]; simpl; [constructor|]. intros [F S]. constructor; auto.
  intros Hin. apply in_map_iff in Hin. destruct Hin as (x & E & Hx).
  rewrite Forall_forall in F. specialize (F x Hx). lia.
Qed.

Section Store.
Variable req : N -> N -> bytes -> bytes -> bool.
Hypothesis req_trans : forall cls ty a b c,
  req cls ty a b = true -> req cls ty b c = true -> req cls ty a c = true.
Variable apex : name.
Variable cls : N.

(* ---- well-formedness of the tree is preserved *)
Lemma zone_add_wf z r z' e : zone_add req z r = Ok (z', e) -> wf (z_apex z) -> wf (z_apex z').
Proof.
  unfold zone_add. intros H W.
  destruct (negb (eq_or_subdomain_of (r_owner r) (zone_name z))); [inversion H; subst; auto|].
  destruct (negb (r_class r =? z_class z)%N); [inversion H; subst; auto|].
  destruct (usub _ _) as [level| |]; cbn [bind] in H; try discriminate.
  destruct (node_update level (r_owner r) _ (z_apex z)) as [[a' e']| |] eqn:U; cbn [bind] in H; try discriminate.
  inversion H; subst. simpl. eapply node_update_wf; eauto.
Qed.

Lemma zone_build_wf rs : forall z z', zone_build req z rs = Some z' -> wf (z_apex z) -> wf (z_apex z').
Proof.
  induction rs as [|r rs IH]; simpl; intros z z' H W.
  - inversion H; subst; auto.
  - destruct (zone_add req z r) as [[z1 e]| |] eqn:A; try discriminate.
    eapply IH; eauto. eapply zone_add_wf; eauto.
Qed.

Lemma build_wf wide recs z : zone_build req (zone_new apex cls wide) recs = Some z -> wf (z_apex z).
Proof. intros H. eapply zone_build_wf; eauto. simpl. auto. Qed.

(* ---- add *)
Lemma zone_build_snoc rs : forall z z1 r z2 e, zone_build req z rs = Some z1 ->
  zone_add req z1 r = Ok (z2, e) -> zone_build req z (rs ++ [r]) = Some z2.
Proof.
  induction rs as [|r0 rs IH]; simpl; intros z z1 r z2 e H A.
  - inversion H; subst. rewrite A. reflexivity.
  - destruct (zone_add req z r0) as [[z' e']| |]; try discriminate. eapply IH; eauto.
Qed.

Lemma add_result wide recs z r : zone_build req (zone_new apex cls wide) recs = Some z ->
  exists z', zone_add req z r = Ok (z', add_verdict apex cls (accepted apex cls recs) r) /\
             (add_verdict apex cls (accepted apex cls recs) r <> None -> z' = z) /\
             zone_build req (zone_new apex cls wide) (recs ++ [r]) = Some z'.
Proof.
  intros H. pose proof (build_inv req req_trans apex cls wide recs z H) as HI.
  destruct (zone_add_step req req_trans apex cls z _ r HI) as (z' & A & _ & Hsame & _).
  exists z'. split; auto. split; auto. eapply zone_build_snoc; eauto.
Qed.

Lemma add_verdict_none R r : add_verdict apex cls R r = None <->
  in_zone apex (r_owner r) = true /\ r_class r = cls /\
  (forall rs, spec_rrset req cls R (lc (r_owner r)) (r_type r) = Some rs -> rs_ttl rs = r_ttl r).
Proof.
  unfold add_verdict. rewrite (ttl_ok_spec req cls).
  destruct (in_zone apex (r_owner r)); simpl; [|split; [discriminate|intros [? _]; discriminate]].
  destruct (r_class r =? cls)%N eqn:C; simpl.
  - apply N.eqb_eq in C.
    destruct (spec_rrset req cls R (lc (r_owner r)) (r_type r)) as [rs|].
    + destruct (rs_ttl rs =? r_ttl r)%N eqn:T; simpl.
      * apply N.eqb_eq in T. split; auto. intros _. split; auto. split; auto. intros rs' E. inversion E; subst; auto.
      * apply N.eqb_neq in T. split; [discriminate|]. intros (_ & _ & H). exfalso. apply T. apply H. reflexivity.
    + simpl. split; auto. intros _. split; auto. split; auto. discriminate.
  - apply N.eqb_neq in C. split; [discriminate|]. intros (_ & H & _). contradiction.
Qed.

Lemma add_verdict_kinds R r :
  add_verdict apex cls R r =
    if negb (in_zone apex (r_owner r)) then Some NotInZone
    else if negb (r_class r =? cls)%N then Some ClassMismatch
    else if negb (ttl_ok R r) then Some TtlMismatch else None.
Proof. reflexivity. Qed.

(* ---- iteration *)
Lemma exists_lower R m : exists_name apex R m = true -> lc m = m.
Proof.
  unfold exists_name. intros H. apply orb_true_iff in H. destruct H as [H|H].
  - apply name_eqb_eq in H. subst. apply lc_idem.
  - apply existsb_exists in H. destruct H as (r & _ & Hs). apply is_suffixb_iff in Hs.
    destruct Hs as [q Hq]. pose proof (lc_idem (r_owner r)) as Hi. rewrite Hq in Hi at 1.
    rewrite lc_app in Hi. rewrite Hq in Hi. apply app_inv_length_tail in Hi; [tauto|]. apply lc_length.
Qed.

Lemma pname_rev p : pname apex p = rev (lc p) ++ lc apex.
Proof. unfold pname. rewrite lc_app, lc_rev. reflexivity. Qed.

Section Iter.
Variables (z : zone) (R : list record).
Hypothesis HI : Inv req apex cls z R.
Hypothesis HW : wf (z_apex z).

Lemma path_facts p n d : In (p, (n, d)) (all_paths (z_apex z)) ->
  exists_name apex R (pname apex p) = true /\ lc n = pname apex p /\
  rrsets_ok req cls R (pname apex p) d.
Proof.
  intros Hin. pose proof (paths_sound _ HW _ _ Hin) as V.
  destruct HI as (_ & _ & Hv). specialize (Hv p). rewrite V in Hv. exact Hv.
Qed.

Lemma iter_nodes :
  NoDup (map (fun nd => lc (fst nd)) (zone_iter_by_node z)) /\
  (forall m, In m (map (fun nd => lc (fst nd)) (zone_iter_by_node z)) <->
             is_suffixb (lc apex) m && exists_name apex R m = true) /\
  (forall n d, In (n, d) (zone_iter_by_node z) -> d = spec_rrsets req cls R (lc n)).
Proof.
  unfold zone_iter_by_node. rewrite <- all_paths_iter. split; [|split].
  - rewrite map_map.
    rewrite (map_ext_in _ (fun px => rev (lcpath px) ++ lc apex)).
    + rewrite <- (map_map lcpath (fun n => rev n ++ lc apex)).
      apply NoDup_map_inj; [|apply paths_nodup; exact HW].
      intros a b _ _ E. apply app_inv_tail in E. apply (f_equal (@rev _)) in E.
      rewrite !rev_involutive in E. exact E.
    + intros [p [n d]] Hin. simpl. destruct (path_facts p n d Hin) as (_ & Hn & _).
      rewrite Hn, pname_rev. reflexivity.
  - intros m. rewrite map_map. rewrite in_map_iff. split.
    + intros ([p [n d]] & E & Hin). simpl in E. subst m.
      destruct (path_facts p n d Hin) as (Hex & Hn & _). rewrite Hn, Hex, andb_true_r.
      apply is_suffixb_iff. exists (rev (lc p)). apply pname_rev.
    + intros H. apply andb_true_iff in H. destruct H as [Hs Hex].
      apply is_suffixb_iff in Hs. destruct Hs as [q Hq].
      pose proof (exists_lower R m Hex) as Hl. rewrite Hq, lc_app, lc_idem in Hl.
      apply app_inv_tail in Hl.
      assert (Hp : pname apex (rev q) = m).
      { rewrite pname_rev, lc_rev, rev_involutive, Hl. symmetry. exact Hq. }
      destruct HI as (_ & _ & Hv). specialize (Hv (rev q)). unfold node_ok in Hv. rewrite Hp in Hv.
      destruct (view (rev q) (z_apex z)) as [[n d]|] eqn:V; [|simpl in Hv; congruence].
      destruct Hv as (_ & Hn & _).
      destruct (paths_complete _ _ _ V) as (p' & _ & Hin').
      exists (p', (n, d)). split; auto.
  - intros n d Hin. apply in_map_iff in Hin. destruct Hin as ([p [n' d']] & E & Hin).
    simpl in E. inversion E; subst.
    destruct (path_facts p n d Hin) as (_ & Hn & Hok). rewrite Hn.
    apply rrsets_ok_unique. exact Hok.
Qed.

Lemma iter_rrsets :
  (forall n rs, In (n, rs) (zone_iter_by_rrset z) ->
     spec_rrset req cls R (lc n) (rs_type rs) = Some rs) /\
  (forall m ty rs, is_suffixb (lc apex) m = true -> spec_rrset req cls R m ty = Some rs ->
     exists n, lc n = m /\ In (n, rs) (zone_iter_by_rrset z)) /\
  NoDup (map (fun x => (lc (fst x), rs_type (snd x))) (zone_iter_by_rrset z)).
Proof.
  destruct iter_nodes as (Hnd & Hmem & Hdata).
  unfold zone_iter_by_rrset. fold (zone_iter_by_node z). split; [|split].
  - intros n rs Hin. apply in_flat_map in Hin. destruct Hin as ([n' d] & Hnd' & Hrs).
    apply in_map_iff in Hrs. destruct Hrs as (rs' & E & Hrs). simpl in E. inversion E; subst.
    pose proof (Hdata n d Hnd') as Hd. simpl in Hrs.
    destruct (spec_rrsets_ok req cls R (lc n)) as [S L].
    rewrite <- L. rewrite <- Hd. apply rr_lookup_sorted_self; [rewrite Hd; exact S|exact Hrs].
  - intros m ty rs Hs Hsp.
    pose proof (rrset_exists req apex cls R m ty rs Hsp) as Hex.
    assert (Hin : In m (map (fun nd => lc (fst nd)) (zone_iter_by_node z))).
    { apply Hmem. rewrite Hs, Hex. reflexivity. }
    apply in_map_iff in Hin. destruct Hin as ([n d] & E & Hin). simpl in E. exists n. split; auto.
    apply in_flat_map. exists (n, d). split; auto. apply in_map_iff. exists rs. split; auto. simpl.
    pose proof (Hdata n d Hin) as Hd. rewrite Hd, E.
    destruct (spec_rrsets_ok req cls R m) as [S L]. eapply rr_lookup_In. rewrite L. exact Hsp.
  - rewrite map_flat_map.
    apply (NoDup_flat_map_keyed _ (fun nd => lc (fst nd)) (fun x : name * N => fst x)); auto.
    + intros [n d] Hin. simpl. rewrite map_map. simpl.
      rewrite <- (map_map rs_type (fun t => (lc n, t))).
      apply NoDup_map_inj; [intros a b _ _ E; inversion E; auto|].
      apply sorted_rr_nodup_types. rewrite (Hdata n d Hin).
      apply (spec_rrsets_ok req cls R (lc n)).
    + intros [n d] y _ Hy. simpl in *. rewrite map_map in Hy. apply in_map_iff in Hy.
      destruct Hy as (rs & E & _). subst y. reflexivity.
Qed.

Lemma soa_ns :
  zone_soa z = single_of req cls R (lc apex) 6 /\ zone_ns z = single_of req cls R (lc apex) 2 /\
  exists d, hd_error (zone_iter_by_node z) = Some (zone_name z, d) /\
            zone_soa z = option_map to_single (rr_lookup TYPE_SOA d) /\
            zone_ns z = option_map to_single (rr_lookup TYPE_NS d).
Proof.
  destruct HI as (Hn & _ & Hv). specialize (Hv []). simpl in Hv. destruct Hv as (_ & _ & Hok).
  unfold pname in Hok. simpl in Hok.
  unfold zone_soa, zone_ns. change TYPE_SOA with 6%N. change TYPE_NS with 2%N.
  rewrite !(single_of_lookup req cls R (lc apex) _ _ Hok). split; auto. split; auto.
  exists (node_data (z_apex z)). unfold zone_iter_by_node, zone_name.
  destruct (z_apex z) as [nm ch d]. rewrite node_iter_unfold. simpl. auto.
Qed.

End Iter.

End Store.

(* ---- closing statements over whole add histories *)
Section Final.
Variable req : N -> N -> bytes -> bytes -> bool.
Hypothesis req_trans : forall cls ty a b c,
  req cls ty a b = true -> req cls ty b c = true -> req cls ty a c = true.

Lemma build_iter_nodes apex cls wide recs z :
  zone_build req (zone_new apex cls wide) recs = Some z ->
  let R := accepted apex cls recs in
  NoDup (map (fun nd => lc (fst nd)) (zone_iter_by_node z)) /\
  (forall m, In m (map (fun nd => lc (fst nd)) (zone_iter_by_node z)) <->
             is_suffixb (lc apex) m && exists_name apex R m = true) /\
  (forall n d, In (n, d) (zone_iter_by_node z) -> d = spec_rrsets req cls R (lc n)).
Proof.
  intros H. exact (iter_nodes req apex cls z _ (build_inv req req_trans apex cls wide recs z H)
                              (build_wf req apex cls wide recs z H)).
Qed.

Lemma build_iter_rrsets apex cls wide recs z :
  zone_build req (zone_new apex cls wide) recs = Some z ->
  let R := accepted apex cls recs in
  (forall n rs, In (n, rs) (zone_iter_by_rrset z) ->
     spec_rrset req cls R (lc n) (rs_type rs) = Some rs) /\
  (forall m ty rs, is_suffixb (lc apex) m = true -> spec_rrset req cls R m ty = Some rs ->
     exists n, lc n = m /\ In (n, rs) (zone_iter_by_rrset z)) /\
  NoDup (map (fun x => (lc (fst x), rs_type (snd x))) (zone_iter_by_rrset z)).
Proof.
  intros H. exact (iter_rrsets req apex cls z _ (build_inv req req_trans apex cls wide recs z H)
                               (build_wf req apex cls wide recs z H)).
Qed.

Lemma build_soa_ns apex cls wide recs z :
  zone_build req (zone_new apex cls wide) recs = Some z ->
  let R := accepted apex cls recs in
  zone_soa z = single_of req cls R (lc apex) 6 /\ zone_ns z = single_of req cls R (lc apex) 2 /\
  exists d, hd_error (zone_iter_by_node z) = Some (zone_name z, d) /\
            zone_soa z = option_map to_single (rr_lookup TYPE_SOA d) /\
            zone_ns z = option_map to_single (rr_lookup TYPE_NS d).
Proof.
  intros H. exact (soa_ns req apex cls z _ (build_inv req req_trans apex cls wide recs z H)
                          (build_wf req apex cls wide recs z H)).
Qed.

End Final.

(* ---- exact spelling of the iterated names *)
Lemma iter_names_spelled req apex cls z R : Inv req apex cls z R -> Inv_sp apex z R -> wf (z_apex z) ->
  forall n d, In (n, d) (zone_iter_by_node z) -> spelled apex R (lc n) = n.
Proof.
  intros HI HS HW n d Hin. unfold zone_iter_by_node in Hin. rewrite <- all_paths_iter in Hin.
  apply in_map_iff in Hin. destruct Hin as ([p [n' d']] & E & Hin). simpl in E. inversion E; subst.
  apply (node_spelled req apex cls z R HI HS). exists p, d. apply paths_sound; auto.
Qed.

Lemma build_iter_names_spelled req
  (req_trans : forall cls ty a b c, req cls ty a b = true -> req cls ty b c = true -> req cls ty a c = true)
  apex cls wide recs z :
  zone_build req (zone_new apex cls wide) recs = Some z ->
  (forall n d, In (n, d) (zone_iter_by_node z) -> spelled apex (accepted apex cls recs) (lc n) = n) /\
  (forall n rs, In (n, rs) (zone_iter_by_rrset z) -> spelled apex (accepted apex cls recs) (lc n) = n).
Proof.
  intros H.
  assert (G : forall n d, In (n, d) (zone_iter_by_node z) -> spelled apex (accepted apex cls recs) (lc n) = n).
  { apply (iter_names_spelled req apex cls z).
    - eapply build_inv; eauto.
    - eapply zone_build_new_sp; eauto.
    - eapply build_wf; eauto. }
  split; auto. intros n rs Hin. unfold zone_iter_by_rrset in Hin. apply in_flat_map in Hin.
  destruct Hin as ([n' d] & Hnd & Hrs). apply in_map_iff in Hrs. destruct Hrs as (rs' & E & _).
  simpl in E. inversion E; subst. eapply G; eauto.
Qed.
