(* C03 at the byte level for ANSWERED responses: the first three header octets.
   Every response [QueryW.respond_w] produces starts with the ID it was given (big-endian) and a
   third octet with QR = 1, opcode 0 (QUERY) and RD as given — whatever query answering does: AA and
   TC live in the same octet and are set and cleared along the way, the RCODE lives in the next one.
   (RA and the Z bits are in the RCODE's octet; their being 0 is proved for the responses that do not
   come from query answering, Props/C03.v c03_plain_response_decodes, and checked on the real octets
   for the others.) *)
From QV Require Import Base.ListX Gen.Consts Model.MsgWriter Proofs.NameWireP Proofs.MsgWriterP Proofs.MsgWriterNameP
  Proofs.MsgWriterInvP Model.ZoneTree Model.Query Model.QueryW Proofs.QueryInvP Proofs.QueryWP Proofs.ServerEchoWP.
Local Open Scope nat_scope.

Definition hdr2_ok (rd : bool) (x : N) : Prop :=
  (x < 256)%N /\ N.testbit x 7 = true /\ ((x / 8) mod 16 = 0)%N /\ N.testbit x 0 = rd.
Definition hdr2_okb (rd : bool) (x : N) : bool :=
  (x <? 256)%N && Bool.eqb (N.testbit x 7) true && ((x / 8) mod 16 =? 0)%N && Bool.eqb (N.testbit x 0) rd.

Lemma hdr2_okb_spec rd x : hdr2_okb rd x = true <-> hdr2_ok rd x.
Proof.
  unfold hdr2_okb, hdr2_ok. rewrite !andb_true_iff, N.ltb_lt, N.eqb_eq, !Bool.eqb_true_iff. tauto.
Qed.

(* AA and TC changes keep QR, the opcode and RD *)
Lemma hdr2_set_bit rd mask v x : mask = AA_MASK \/ mask = TC_MASK -> hdr2_ok rd x -> hdr2_ok rd (set_bit mask v x).
Proof.
  intros Hm H. pose proof H as (Hx & _). apply hdr2_okb_spec in H. apply hdr2_okb_spec.
  assert (A : forallb (fun x => forallb (fun rd => forallb (fun v => forallb (fun mask =>
                implb (hdr2_okb rd x) (hdr2_okb rd (set_bit mask v x))) [AA_MASK; TC_MASK]) [true; false]) [true; false])
              (upto 256) = true) by (vm_compute; reflexivity).
  rewrite forallb_forall in A. specialize (A x (upto_In 256 x Hx)).
  rewrite forallb_forall in A. specialize (A rd ltac:(destruct rd; simpl; auto)).
  rewrite forallb_forall in A. specialize (A v ltac:(destruct v; simpl; auto)).
  rewrite forallb_forall in A. specialize (A mask ltac:(destruct Hm as [-> | ->]; simpl; auto)).
  rewrite H in A. exact A.
Qed.

(* ---------- the invariant ---------- *)
Definition HK (id : N) (rd : bool) (w : writer) : Prop :=
  Inv_n w /\ slice (w_buf w) 0 2 = be16 id /\ exists x, nth_error (w_buf w) 2 = Some x /\ hdr2_ok rd x.

Lemma HK_agree id rd w b' c : HK id rd w -> agree c (w_buf w) b' -> 3 <= c ->
  slice b' 0 2 = be16 id /\ exists x, nth_error b' 2 = Some x /\ hdr2_ok rd x.
Proof.
  intros (_ & Hs & x & Hx & Ho) A Hc. split.
  - rewrite (agree_slice c (w_buf w) b'); [exact Hs|exact A|lia].
  - exists x. split; [|exact Ho]. rewrite (agree_nth _ _ _ _ A); [exact Hx|lia].
Qed.

Lemma HK_ext id rd c0 w w' : HK id rd w -> ext c0 w w' -> 12 <= c0 -> Inv_n w' -> HK id rd w'.
Proof. intros H X Hc Hi'. split; [exact Hi'|]. apply (HK_agree id rd w (w_buf w') c0 H (x_agree _ _ _ X)). lia. Qed.

Lemma HK_obs id rd w w' : HK id rd w -> obs_eq w w' -> HK id rd w'.
Proof.
  intros H X. pose proof H as (Hi & _). split; [eapply obs_eq_inv; eauto|].
  apply (HK_agree id rd w (w_buf w') (w_cursor w) H (o_buf _ _ X)). pose proof (inv_cursor_12 w Hi). lia.
Qed.

Lemma HK_ext_counts id rd w w2 s c : HK id rd w -> ext (w_cursor w) w w2 -> Inv_n (set_sec_count s w2 c) ->
  HK id rd (set_sec_count s w2 c).
Proof.
  intros H X Hi'. pose proof H as (Hi & _). split; [exact Hi'|].
  assert (G : slice (w_buf w2) 0 2 = be16 id /\ exists x, nth_error (w_buf w2) 2 = Some x /\ hdr2_ok rd x).
  { apply (HK_agree id rd w (w_buf w2) (w_cursor w) H (x_agree _ _ _ X)). pose proof (inv_cursor_12 w Hi). lia. }
  destruct s; exact G.
Qed.

Lemma HK_modify2 id rd w mask v w' : HK id rd w -> mask = AA_MASK \/ mask = TC_MASK ->
  w_modify w 2 (set_bit mask v) = Ok w' -> HK id rd w'.
Proof.
  intros (Hi & Hs & x & Hx & Ho) Hm E. pose proof (inv_w_modify _ _ _ _ Hi E) as Hi'.
  destruct (w_modify_nth _ _ _ _ E) as (y & Hy & Hy' & Hoth & b' & -> & Hlen). change (N.to_nat 2) with 2 in *.
  split; [exact Hi'|]. cbn [w_buf set_buf] in *. split.
  - transitivity (slice (w_buf w) 0 2); [|exact Hs]. apply slice_ext. intros j _ Hj. apply Hoth. lia.
  - rewrite Hx in Hy. inversion Hy; subst y. exists (set_bit mask v x). split; [exact Hy'|]. apply hdr2_set_bit; assumption.
Qed.

Lemma HK_modify3 id rd w f w' : HK id rd w -> w_modify w 3 f = Ok w' -> HK id rd w'.
Proof.
  intros (Hi & Hs & x & Hx & Ho) E. pose proof (inv_w_modify _ _ _ _ Hi E) as Hi'.
  destruct (w_modify_nth _ _ _ _ E) as (y & Hy & Hy' & Hoth & b' & -> & Hlen). change (N.to_nat 3) with 3 in *.
  split; [exact Hi'|]. cbn [w_buf set_buf] in *. split.
  - transitivity (slice (w_buf w) 0 2); [|exact Hs]. apply slice_ext. intros j _ Hj. apply Hoth. lia.
  - exists x. split; [|exact Ho]. rewrite Hoth by lia. exact Hx.
Qed.

Lemma HK_set_aa id rd b w w' : HK id rd w -> set_aa b w = Ok w' -> HK id rd w'.
Proof. intros H E. unfold set_aa, w_set_flag in E. exact (HK_modify2 id rd w AA_MASK b w' H (or_introl eq_refl) E). Qed.
Lemma HK_set_tc id rd b w w' : HK id rd w -> set_tc b w = Ok w' -> HK id rd w'.
Proof. intros H E. unfold set_tc, w_set_flag in E. exact (HK_modify2 id rd w TC_MASK b w' H (or_intror eq_refl) E). Qed.
Lemma HK_set_rcode id rd rc w w' : HK id rd w -> set_rcode rc w = Ok w' -> HK id rd w'.
Proof.
  intros H E. unfold set_rcode in E.
  destruct (w_modify w RCODE_BYTE _) as [w1|e|] eqn:E1; cbn [bind] in E; try discriminate.
  inversion E; subst. destruct (HK_modify3 _ _ _ _ _ H E1) as (Hi & Hs & Hx).
  split; [apply inv_clear_upper; exact Hi|]. unfold clear_upper. destruct (w_edns w1); auto.
Qed.
Lemma HK_clear id rd w : HK id rd w -> HK id rd (clear_rrs w).
Proof.
  intros (Hi & Hs & Hx). split; [|split; [exact Hs|exact Hx]].
  destruct Hi as [h1 h2 h3 h4 h5]. constructor; cbn; auto; try lia.
Qed.

Lemma wi_rr_HK id rd s h o ty c ttl rdata w : HK id rd w -> RP (HK id rd) (wi_add_rr w_iface s h o ty c ttl rdata w).
Proof.
  intros Hp. pose proof Hp as (Hi & _ & _). cbn [wi_add_rr w_iface].
  pose proof (section_rr_ok (sec_of s) (hint_of h) o ty c (ttl_from ttl) rdata None w Hi) as H.
  destruct (add_section_rr (sec_of s) (hint_of h) o ty c (ttl_from ttl) rdata None w) as [[v w']|[e w']|]; cbn [RP]; auto.
  - destruct H as (Hi' & w2 & cc & X & ->). eapply HK_ext_counts; eauto.
  - eapply HK_obs; eauto.
Qed.
Lemma wi_rrset_HK id rd s h o ty c ttl rds b w : HK id rd w ->
  match wi_add_rrset w_iface s h o ty c ttl rds b w with
  | Ok (_, w') => HK id rd w' | Err (_, w') => HK id rd w' | Panic => True end.
Proof.
  intros Hp. pose proof Hp as (Hi & _ & _). cbn [wi_add_rrset w_iface].
  pose proof (section_rrset_ok (sec_of s) (hint_of h) o ty c (ttl_from ttl) rds (if b then Some [] else None) w Hi) as H.
  destruct (add_section_rrset (sec_of s) (hint_of h) o ty c (ttl_from ttl) rds (if b then Some [] else None) w)
    as [[v w']|[e w']|]; auto.
  - destruct H as (Hi' & w2 & cc & X & ->). eapply HK_ext_counts; eauto.
  - eapply HK_obs; eauto.
Qed.
Lemma wi_aa_HK id rd b w w' : HK id rd w -> wi_set_aa w_iface b w = Some w' -> HK id rd w'.
Proof.
  cbn [wi_set_aa w_iface]. intros H E. destruct (set_aa b w) as [w1|e|] eqn:E1; try discriminate.
  inversion E; subst. eapply HK_set_aa; eauto.
Qed.
Lemma wi_rc_HK id rd c w w' : HK id rd w -> wi_set_rcode w_iface c w = Some w' -> HK id rd w'.
Proof.
  cbn [wi_set_rcode w_iface]. intros H E. destruct (set_rcode c w) as [w1|e|] eqn:E1; try discriminate.
  inversion E; subst. eapply HK_set_rcode; eauto.
Qed.

Lemma finish_w_HK id rd tcp q w' : QP (HK id rd) q -> finish_w tcp q = Some w' -> HK id rd w'.
Proof.
  destruct q as [[u w1]|[[|] w1]|]; cbn [QP finish_w]; intros HQ; try discriminate.
  - intros E; inversion E; subst. exact HQ.
  - destruct (wi_set_aa w_iface false w1) as [w2|] eqn:E2; [|discriminate].
    destruct (wi_set_rcode w_iface RCODE_SERVFAIL w2) as [w3|] eqn:E3; [|discriminate].
    intros E; inversion E; subst. cbn [wi_clear_rrs w_iface]. apply HK_clear.
    exact (wi_rc_HK id rd _ _ _ (wi_aa_HK id rd _ _ _ HQ E2) E3).
  - cbn [wi_clear_rrs w_iface]. pose proof (HK_clear id rd w1 HQ) as Hc.
    destruct tcp.
    + destruct (wi_set_aa w_iface false (clear_rrs w1)) as [w2|] eqn:E2; [|discriminate].
      intros E3. exact (wi_rc_HK id rd _ _ _ (wi_aa_HK id rd _ _ _ Hc E2) E3).
    + cbn [wi_set_tc w_iface]. destruct (set_tc true (clear_rrs w1)) as [w2|e|] eqn:E2; try discriminate.
      intros E; inversion E; subst. eapply HK_set_tc; eauto.
Qed.

Theorem handle_HK id rd negttl z qname qtype tcp w w' : HK id rd w ->
  handle_non_axfr_query w_iface negttl z qname qtype tcp w = Some w' -> HK id rd w'.
Proof.
  intros Hp. rewrite handle_w_finish. apply finish_w_HK.
  destruct (qtype =? QTYPE_ANY)%N.
  - apply answer_any_P; first [exact Hp | intros; first [apply wi_rr_HK; assumption | apply wi_rrset_HK; assumption | eapply wi_aa_HK; eassumption | eapply wi_rc_HK; eassumption]].
  - apply answer_P; first [exact Hp | intros; first [apply wi_rr_HK; assumption | apply wi_rrset_HK; assumption | eapply wi_aa_HK; eassumption | eapply wi_rc_HK; eassumption]].
Qed.

(* ---------- finish ---------- *)
Lemma finish_HK id rd w len b : HK id rd w -> finish w = Ok (len, b) ->
  slice b 0 2 = be16 id /\ exists x, nth_error b 2 = Some x /\ hdr2_ok rd x.
Proof.
  intros H0. unfold finish, finish_gen.
  destruct (w_write w (N.to_nat QDCOUNT_START) _) as [w1|e|] eqn:E1; cbn [bind]; try discriminate.
  destruct (w_write w1 (N.to_nat ANCOUNT_START) _) as [w2|e|] eqn:E2; cbn [bind]; try discriminate.
  destruct (w_write w2 (N.to_nat NSCOUNT_START) _) as [w3|e|] eqn:E3; cbn [bind]; try discriminate.
  destruct (w_write w3 (N.to_nat ARCOUNT_START) _) as [w4|e|] eqn:E4; cbn [bind]; try discriminate.
  assert (Wr : forall wa pos d wb, HK id rd wa -> w_write wa pos d = Ok wb -> 4 <= pos -> HK id rd wb).
  { intros wa pos d wb Ha E Hp. pose proof Ha as (Hi & _). pose proof (inv_w_write _ _ _ _ Hi E) as Hi'.
    apply w_write_inv in E. destruct E as (b' & Hb & ->). split; [exact Hi'|]. cbn [w_buf set_buf].
    apply (HK_agree id rd wa b' 4 Ha); [eapply buf_write_agree; eauto|lia]. }
  assert (H4 : HK id rd w4).
  { eapply Wr; [eapply Wr; [eapply Wr; [eapply Wr; [exact H0|exact E1|cbn; lia]|exact E2|cbn; lia]|exact E3|cbn; lia]|exact E4|cbn; lia]. }
  clear E1 E2 E3 E4 H0.
  set (K := fun w5 : writer => (slice (w_buf w5) 0 2 = be16 id /\ exists x, nth_error (w_buf w5) 2 = Some x /\ hdr2_ok rd x) /\
                                12 <= w_cursor w5 /\ w_cursor w5 <= w_avail w5).
  assert (K4 : K w4).
  { destruct H4 as (Hi & Hs & Hx). pose proof (inv_cursor_12 w4 Hi). destruct Hi. unfold K. repeat split; auto; lia. }
  assert (Kadd : forall w5 h owner ty cl ttl rdata a w6, K w5 -> w_cursor w5 <= a ->
            unwrap_w (add_rr h owner ty cl ttl rdata None (set_avail w5 a)) = Ok w6 -> K w6).
  { intros w5 h owner ty cl ttl rdata a w6 ((A & x & Ax & Ao) & B & C) Ha U.
    assert (Hp : pre (w_cursor w5) (set_avail w5 a)) by (split; cbn [w_avail w_cursor set_avail set_limit_avail]; lia).
    pose proof (unwrap_frame (w_cursor w5) _ _ _ U (frame_add_rr (w_cursor w5) _ _ _ _ _ _ _ _ Hp)) as X.
    pose proof (x_cur _ _ _ X) as Xc. pose proof (x_cav _ _ _ X) as Xa. pose proof (x_agree _ _ _ X) as Xg.
    cbn [w_cursor w_buf set_avail set_limit_avail] in *. unfold K. split; [|split; [lia|exact Xa]]. split.
    - rewrite (agree_slice (w_cursor w5) (w_buf w5) (w_buf w6)); [exact A|exact Xg|lia].
    - exists x. split; [|exact Ao]. rewrite (agree_nth _ _ _ _ Xg); [exact Ax|lia]. }
  destruct H4 as (Hi & _). destruct Hi as [h1 h2 h3 h4 h5].
  assert (K5 : forall w5, match w_edns w4 with
                          | Some e => unwrap_w (add_rr HNone [] TYPE_OPT (e_udp e) (e_upper e * 16777216)%N [] None
                                                       (set_avail w4 (w_avail w4 + opt_record_size)))
                          | None => Ok w4 end = Ok w5 -> K w5).
  { intros w5. destruct (w_edns w4) as [e|].
    - intros U. eapply Kadd; [exact K4| |exact U]. lia.
    - intros U; inversion U; subst. exact K4. }
  destruct (match w_edns w4 with Some e => _ | None => Ok w4 end) as [w5|e|] eqn:E5; cbn [bind]; try discriminate.
  specialize (K5 w5 eq_refl).
  destruct (w_tsig w5) as [t|] eqn:Et.
  - destruct (unwrap_w _) as [w6|e|] eqn:E6; cbn [bind]; try discriminate.
    intros H; inversion H; subst.
    assert (K6 : K w6).
    { refine (Kadd (set_tsig_f w5 None) _ _ _ _ _ _ _ w6 _ _ E6).
      - destruct K5 as (A & B & C). unfold K. cbn [w_buf w_cursor w_avail set_tsig_f]. auto.
      - destruct K5 as (A & B & C). cbn [w_cursor w_avail set_tsig_f]. lia. }
    exact (proj1 K6).
  - intros H; inversion H; subst. exact (proj1 K5).
Qed.

(* ---------- the prepared writer ---------- *)
Lemma hdr2_init rd : hdr2_ok rd (set_bit RD_MASK rd (N.lor (N.land (set_bit QR_MASK true 0) (255 - OPCODE_MASK)) ((0 * 2 ^ OPCODE_SHIFT) mod 256))).
Proof. apply hdr2_okb_spec. destruct rd; vm_compute; reflexivity. Qed.

Theorem prepare_HK buf tcp id rd qname qtype qclass edns limit w :
  prepare_w buf tcp id rd qname qtype qclass edns limit = Some w -> HK id rd w.
Proof.
  intros E. destruct (prepare_PW _ _ _ _ _ _ _ _ _ _ E) as (L & (Hi & _ & _) & _). split; [exact Hi|].
  revert E. unfold prepare_w.
  destruct (writer_new buf (if tcp then tcp_limit_w else udp_limit_w)) as [w0|e|] eqn:E0; try discriminate.
  pose proof (writer_new_inv _ _ _ E0) as I0.
  unfold writer_new in E0. destruct (_ <? header_size); [discriminate|]. destruct (length buf <? header_size); [discriminate|].
  inversion E0; subst w0. clear E0.
  match goal with |- context [set_id id ?x] => set (w0 := x) in * end.
  destruct (set_id id w0) as [w1|e|] eqn:E1; cbn [bind]; try discriminate.
  destruct (set_qr true w1) as [w2|e|] eqn:E2; cbn [bind]; try discriminate.
  destruct (set_opcode 0 w2) as [w3|e|] eqn:E3; cbn [bind]; try discriminate.
  destruct (set_rd rd w3) as [w4|e|] eqn:E4; try discriminate.
  (* the header after the four setters *)
  assert (H4 : Inv_n w4 /\ slice (w_buf w4) 0 2 = be16 id /\ exists x, nth_error (w_buf w4) 2 = Some x /\ hdr2_ok rd x).
  { unfold set_id in E1. pose proof (inv_w_write _ _ _ _ I0 E1) as I1.
    apply w_write_inv in E1. destruct E1 as (b1 & B1 & ->). change (N.to_nat ID_START) with 0 in B1.
    assert (S1 : slice b1 0 2 = be16 id) by (apply (buf_write_data _ _ _ _ B1)).
    assert (N1 : nth_error b1 2 = Some 0%N).
    { rewrite (buf_write_nth_out _ _ _ _ 2 B1) by (cbn; lia). reflexivity. }
    unfold set_qr, w_set_flag in E2. pose proof (inv_w_modify _ _ _ _ I1 E2) as I2.
    destruct (w_modify_nth _ _ _ _ E2) as (y2 & Y2 & Y2' & O2 & b2 & -> & _). change (N.to_nat QR_BYTE) with 2 in *.
    cbn [w_buf set_buf] in *. rewrite N1 in Y2. inversion Y2; subst y2.
    unfold set_opcode in E3. pose proof (inv_w_modify _ _ _ _ I2 E3) as I3.
    destruct (w_modify_nth _ _ _ _ E3) as (y3 & Y3 & Y3' & O3 & b3 & -> & _). change (N.to_nat OPCODE_BYTE) with 2 in *.
    cbn [w_buf set_buf] in *. rewrite Y2' in Y3. inversion Y3; subst y3.
    unfold set_rd, w_set_flag in E4. pose proof (inv_w_modify _ _ _ _ I3 E4) as I4.
    destruct (w_modify_nth _ _ _ _ E4) as (y4 & Y4 & Y4' & O4 & b4 & -> & _). change (N.to_nat RD_BYTE) with 2 in *.
    cbn [w_buf set_buf] in *. rewrite Y3' in Y4. inversion Y4; subst y4.
    split; [exact I4|]. split.
    - transitivity (slice b1 0 2); [|exact S1].
      apply slice_ext. intros j _ Hj. rewrite O4, O3, O2 by lia. reflexivity.
    - eexists. split; [exact Y4'|]. apply hdr2_init. }
  destruct (add_question qname qtype qclass w4) as [[u w5]|e|] eqn:E5; try discriminate.
  assert (H5 : slice (w_buf w5) 0 2 = be16 id /\ exists x, nth_error (w_buf w5) 2 = Some x /\ hdr2_ok rd x).
  { destruct H4 as (I4 & S4 & X4). pose proof (inv_pre _ I4) as Hp.
    unfold add_question in E5. destruct (w_section w4); try discriminate.
    destruct (checked_add16 (w_qd w4) 1) as [nq|]; [|discriminate].
    match type of E5 with context [with_rollback ?f _] =>
      pose proof (rollback_spec f w4 I4 (question_body_frame _ qname qtype qclass w4 Hp)) as R;
      destruct (with_rollback f w4) as [[[] wq]|[e wq]|] end; cbn [bind] in E5; try discriminate.
    injection E5 as _ Hw. subst w5. cbn [w_buf set_rr_start set_counts].
    apply (HK_agree id rd w4 (w_buf wq) (w_cursor w4) (conj I4 (conj S4 X4)) (x_agree _ _ _ R)).
    pose proof (inv_cursor_12 w4 I4). lia. }
  destruct edns as [size|].
  - unfold set_edns. destruct (w_edns w5); [discriminate|].
    destruct (w_avail w5 <? w_cursor w5 + opt_record_size); [discriminate|].
    destruct (checked_add16 (w_ar w5) 1) as [ar|]; [|discriminate].
    destruct tcp.
    + intros H; inversion H; subst. exact H5.
    + match goal with |- context [MsgWriter.set_limit limit ?x] => set (w6 := x) end.
      destruct (MsgWriter.set_limit limit w6) as [w7|e|] eqn:E7; try discriminate.
      intros H; injection H as Hw; subst w7.
      destruct (set_limit_facts _ _ _ E7) as (Hb & _). rewrite Hb. exact H5.
  - intros H; inversion H; subst. exact H5.
Qed.

(* ---------- every answered response ---------- *)
Theorem respond_w_header negttl buf tcp id rd qname qtype qclass edns limit z len b :
  respond_w negttl buf tcp id rd qname qtype qclass edns limit z = Some (len, b) ->
  slice b 0 2 = be16 id /\
  exists x, nth_error b 2 = Some x /\ (x < 256)%N /\ N.testbit x 7 = true /\ ((x / 8) mod 16 = 0)%N /\ N.testbit x 0 = rd.
Proof.
  unfold respond_w.
  destruct (prepare_w buf tcp id rd qname qtype qclass edns limit) as [w|] eqn:Ep; [|discriminate].
  pose proof (prepare_HK _ _ _ _ _ _ _ _ _ _ Ep) as Hp.
  destruct (handle_non_axfr_query w_iface negttl z qname qtype tcp w) as [w'|] eqn:Eh; [|discriminate].
  pose proof (handle_HK _ _ _ _ _ _ _ _ _ Hp Eh) as Hq.
  destruct (finish w') as [[len' b']|e|] eqn:Ef; try discriminate.
  intros E; injection E as E1 E2; subst len' b'. exact (finish_HK _ _ _ _ _ Hq Ef).
Qed.
