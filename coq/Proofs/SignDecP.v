(* The SIGNED TSIG-bearing response decodes - under the independent RFC 1035 decoder of Spec/MsgWriterS.v - to a
   well-formed response (Spec/RespS.v: wf_response) whose additional section is (OPT iff EDNS) followed by the TSIG
   record RFC 8945 prescribes, MAC included (Spec/TsigSignS.v: signed_tsig_response).

   layout_decode: the message-level round trip of C12 (Proofs/MsgWriterRtP.v: roundtrip) restated for ANY finished
   buffer given by its layout (PLay) and the descriptions of its chunks, not only for the result of MsgWriter.finish:
   the layout of Proofs/SignFinishP.v (finish_signed_ok2) is such a buffer. *)
From QV Require Import Base.ListX Gen.Consts Model.NameWire Model.Reader Model.RdataLite Model.Server Model.ServerW Model.ServerWT
  Model.MsgWriter Model.ZoneTree Model.Query Model.QueryW
  Spec.NameWireS Spec.NameRepr Spec.MsgWriterS Spec.MsgWriterAbsS Spec.RdataFormatS Spec.RespS Spec.TsigRespS Spec.TsigSignS
  Proofs.NameWireP Proofs.MsgWriterP Proofs.MsgWriterScanP Proofs.MsgWriterNameP Proofs.MsgWriterInvP Proofs.MsgWriterClosP
  Proofs.MsgWriterNameSP Proofs.MsgWriterOpP
  Proofs.MsgWriterLayP Proofs.MsgWriterStepP Proofs.MsgWriterMsgP Proofs.MsgWriterDecP Proofs.MsgWriterHdrP Proofs.MsgWriterGetP
  Proofs.MsgWriterRtP Proofs.RdataFormatSP
  Proofs.ComposeTraceP Proofs.ComposeTopP Proofs.ComposeRespP Proofs.ComposeSerP Proofs.ComposeTsigP Proofs.ComposeTsigWfP
  Proofs.SignFinishP Proofs.SignSerP.
From QV Require Model.TsigMsg.
Local Open Scope nat_scope.

(* ---------------------------------------------------------------- decoding a buffer given by its layout *)

Lemma layout_decode (wF : writer) (LF : nat -> Prop) yF rs (A : amsg) ps qd an ns ar :
  NInv wF (length (w_buf wF)) LF ->
  PLay (w_buf wF) LF yF rs (MsgWriter.w_cursor wF) ->
  Forall2 q_desc (y_qs yF) (am_qs A) ->
  Forall2 rr_desc2 (y_rrs yF) (am_an A ++ am_ns A ++ am_ar A ++ ps) ->
  amsg_wf A -> Forall arr_wf ps ->
  slice (w_buf wF) 4 12 = MsgWriter.be16 qd ++ MsgWriter.be16 an ++ MsgWriter.be16 ns ++ MsgWriter.be16 ar ->
  qd = N.of_nat (length (am_qs A)) -> an = N.of_nat (length (am_an A)) -> ns = N.of_nat (length (am_ns A)) ->
  ar = N.of_nat (length (am_ar A ++ ps)) ->
  (qd <= 65535 /\ an <= 65535 /\ ns <= 65535 /\ ar <= 65535)%N ->
  exists m, decode_msg (firstn (MsgWriter.w_cursor wF) (w_buf wF)) = Some m /\
    Forall2 q_rel (am_qs A) (m_qs m) /\
    Forall2 (rr_rel xparts) (am_an A) (m_an m) /\ Forall2 (rr_rel xparts) (am_ns A) (m_ns m) /\
    Forall2 (rr_rel xparts) (am_ar A ++ ps) (m_ar m) /\
    get16 (firstn (MsgWriter.w_cursor wF) (w_buf wF)) 0 = Some (m_id m) /\
    nth_error (firstn (MsgWriter.w_cursor wF) (w_buf wF)) 2 = Some (m_flags2 m) /\
    nth_error (firstn (MsgWriter.w_cursor wF) (w_buf wF)) 3 = Some (m_flags3 m) /\ 12 <= MsgWriter.w_cursor wF.
Proof.
  intros HiF PF Fq Fr HA Wp Hdr Eqd Ean Ens Ear [Bq [Ba [Bn Br]]].
  pose proof (ni_nb _ _ _ HiF) as [Nb1 Nb2].
  pose proof (ni_closed _ _ _ HiF) as Hcl. pose proof (ni_sdec _ _ _ HiF) as Hsd.
  set (b := w_buf wF) in *. set (len := MsgWriter.w_cursor wF) in *.
  assert (Hlb : len <= length b) by lia.
  set (bm := firstn len b).
  assert (Hlen : length bm = len) by (unfold bm; rewrite firstn_length; lia).
  assert (Ag : agree len b bm).
  { unfold agree, bm. rewrite firstn_firstn. f_equal. lia. }
  assert (R : ragree header_size len (length b) b bm) by (apply agree_ragree; auto).
  assert (Hcl' : closed bm header_size len (length b) LF) by (eapply closed_transfer; eauto).
  assert (Hsd' : sdec bm len LF) by (apply (sdec_transfer b header_size len (length b) LF bm len Hcl R); [lia|exact Hsd]).
  destruct PF as [P1 P2 P3].
  pose proof (qs_le _ _ _ _ _ P1) as Hq12. pose proof (rrs_le _ _ _ _ _ P2) as Hrl.
  pose proof wconsts as [Hhs _].
  assert (P1' : qs_at bm LF (y_qs yF) header_size rs).
  { apply (qs_transfer b header_size len (length b) LF bm Hcl R); [unfold okr; lia|lia|exact P1]. }
  assert (P2' : rrs_at bm LF (y_rrs yF) rs len).
  { apply (rrs_transfer b header_size len (length b) LF bm Hcl R); [unfold okr; lia|lia|exact P2]. }
  destruct HA as [Wq Wa Wn Wr].
  assert (Hdr' : slice bm 4 12 = MsgWriter.be16 qd ++ MsgWriter.be16 an ++ MsgWriter.be16 ns ++ MsgWriter.be16 ar).
  { unfold bm. rewrite slice_firstn by lia. exact Hdr. }
  destruct (get16_slice8 bm _ _ _ _ Hdr' ltac:(lia) ltac:(lia) ltac:(lia) ltac:(lia) ltac:(lia))
    as [G4 [G6 [G8 G10]]].
  destruct (MsgWriterRtP.get16_some bm 0 ltac:(lia)) as [vid Gid].
  destruct (nth_some bm 2 ltac:(lia)) as [f2 Gf2]. destruct (nth_some bm 3 ltac:(lia)) as [f3 Gf3].
  pose proof (Forall2_len _ _ _ Fq) as Lq.
  assert (Fq' : Forall2 (fun q a => nc_name (lq_name q) = aq_name a /\ nc_cp (lq_name q) = aq_exact a /\
                                    lq_ty q = aq_ty a /\ lq_cl q = aq_cl a) (y_qs yF) (am_qs A)).
  { clear - Fq. induction Fq as [|q a qs al [Hd _] _ IH]; constructor; auto. }
  destruct (qs_decode bm header_size len (length b) LF Hcl' Hsd' (y_qs yF) (am_qs A) header_size
              rs P1' Fq' Wq ltac:(lia)) as [qds [Eq [Rq Lkq]]].
  apply Forall2_app_inv_r in Fr as [rs1 [rest1 [F1 [Fr Ey1]]]].
  apply Forall2_app_inv_r in Fr as [rs2 [rs3 [F2 [F3 Ey2]]]].
  rewrite Ey1, Ey2 in P2'.
  destruct (rrs_at_split _ _ _ _ _ _ P2') as [m1 [Q1 Q23]].
  destruct (rrs_at_split _ _ _ _ _ _ Q23) as [m2 [Q2 Q3]].
  pose proof (rrs_le _ _ _ _ _ Q1). pose proof (rrs_le _ _ _ _ _ Q2). pose proof (rrs_le _ _ _ _ _ Q3).
  assert (Wps : Forall arr_wf (am_ar A ++ ps)) by (apply Forall_app; split; auto).
  destruct (rrs_decode bm header_size len (length b) LF Hcl' Hsd' rs1 (am_an A) _ _ Q1 (Forall2_rrd _ _ F1) Wa ltac:(lia)) as [d1 [E1 [R1 Lk1]]].
  destruct (rrs_decode bm header_size len (length b) LF Hcl' Hsd' rs2 (am_ns A) _ _ Q2 (Forall2_rrd _ _ F2) Wn ltac:(lia)) as [d2 [E2 [R2 Lk2]]].
  destruct (rrs_decode bm header_size len (length b) LF Hcl' Hsd' rs3 _ _ _ Q3 (Forall2_rrd _ _ F3) Wps ltac:(lia)) as [d3 [E3 [R3 Lk3]]].
  pose proof (Forall2_len _ _ _ F1) as L1. pose proof (Forall2_len _ _ _ F2) as L2.
  pose proof (Forall2_len _ _ _ F3) as L3.
  exists (mkDM vid f2 f3 qds d1 d2 d3). split;
    [|cbn [m_qs m_an m_ns m_ar m_id m_flags2 m_flags3]; repeat split; auto; try lia].
  unfold decode_msg. rewrite Gid, Gf2, Gf3, G4, G6, G8, G10.
  replace (N.to_nat qd) with (length (y_qs yF)) by lia.
  change 12 with header_size. rewrite Eq.
  replace (N.to_nat an) with (length rs1) by lia. rewrite E1.
  replace (N.to_nat ns) with (length rs2) by lia. rewrite E2.
  replace (N.to_nat ar) with (length rs3) by lia. rewrite E3.
  rewrite Hlen, Nat.eqb_refl. reflexivity.
Qed.

(* ---------------------------------------------------------------- the signed RDATA *)

Definition rdata_signed_s (alg time : bytes) (fudge : N) (mac : bytes) (origid error : N) (other : bytes) : bytes :=
  alg ++ time ++ be16s fudge ++ be16s (N.of_nat (length mac)) ++ mac ++ be16s origid ++ be16s error ++
  be16s (N.of_nat (length other)) ++ other.

Lemma serialize_eq alg time fudge mac origid error other :
  (N.of_nat (length mac) < 65536)%N -> (N.of_nat (length other) < 65536)%N ->
  TsigMsg.serialize_tsig_unchecked alg time fudge mac origid error other = rdata_signed_s alg time fudge mac origid error other.
Proof.
  intros H1 H2. unfold TsigMsg.serialize_tsig_unchecked, rdata_signed_s, TsigMsg.len_u16.
  rewrite !N.mod_small by lia. reflexivity.
Qed.

Lemma wf_be16s v : wf_bytes (be16s v).
Proof. unfold be16s. repeat constructor; unfold is_octet; apply N.mod_lt; discriminate. Qed.

(* RFC 8945 4.2: the RDATA of a signed TSIG record is generated by the TSIG grammar *)
Lemma signed_rdata_valid (alg : wname) time fudge mac origid error other :
  good_name alg -> Forall wf_bytes alg -> length time = 6 -> wf_bytes time -> wf_bytes mac -> length mac <= 32 ->
  wf_bytes other -> length other <= 6 ->
  wf_bytes (rdata_signed_s (nm_wire alg) time fudge mac origid error other) /\
  spec_valid 255 250 (rdata_signed_s (nm_wire alg) time fudge mac origid error other) = true.
Proof.
  intros [[Hl Hn] Hw] Hb Ht Htb Hmb Hml Hob Hol.
  assert (Hwf : wf_bytes (rdata_signed_s (nm_wire alg) time fudge mac origid error other)).
  { unfold rdata_signed_s. apply wf_bytes_app; [apply (wf_nm_wire alg); assumption|].
    repeat (apply wf_bytes_app; [first [assumption|apply wf_be16s]|]). assumption. }
  split; [exact Hwf|]. apply (spec_valid_iff 255 250 _ Hwf).
  change (grammar 255 250) with [FName; FBytes 6; FBytes 2; FBlob16; FBytes 2; FBytes 2; FBlob16].
  unfold rdata_signed_s. change (nm_wire alg) with (wire_of alg).
  apply m_name.
  { split; [|exact Hw]. eapply Forall_impl; [|exact Hl]. intros l [X Y]. split; assumption. }
  apply m_bytes; [exact Ht|]. apply (m_bytes 2 (be16s fudge)); [reflexivity|].
  assert (Em : be16s (N.of_nat (length mac)) ++ mac ++ be16s origid ++ be16s error ++ be16s (N.of_nat (length other)) ++ other
               = blob16 mac ++ (be16s origid ++ be16s error ++ be16s (N.of_nat (length other)) ++ other)).
  { unfold blob16, be16s, RdataFormatS.be16. rewrite (N.mod_small (N.of_nat (length mac) / 256) 256) by (apply N.div_lt_upper_bound; lia).
    rewrite <- app_assoc. reflexivity. }
  rewrite Em. apply m_blob16; [unfold valid_blob16; lia|].
  apply (m_bytes 2 (be16s origid)); [reflexivity|]. apply (m_bytes 2 (be16s error)); [reflexivity|].
  assert (Eo : be16s (N.of_nat (length other)) ++ other = blob16 other ++ []).
  { rewrite app_nil_r. unfold blob16, be16s, RdataFormatS.be16. rewrite (N.mod_small (N.of_nat (length other) / 256) 256); [reflexivity|].
    apply N.div_lt_upper_bound; lia. }
  rewrite Eo. apply m_blob16; [unfold valid_blob16; lia|constructor].
Qed.

(* ---------------------------------------------------------------- the signed response *)

Section SD.
Variable hmac : TsigMsg.alg -> bytes -> bytes -> bytes.
Hypothesis hmac_len : forall a k d, length (hmac a k d) = TsigMsg.output_size a.
Hypothesis hmac_wf : forall a k d, wf_bytes (hmac a k d).
Variable buf : bytes.
Hypothesis Hb : 512 <= length buf.
Variable w : resp.
Hypothesis Hq : forall q, Server.w_question w = Some q ->
  good_name (labels_of (Reader.q_name q)) /\ (Reader.q_type q < 65536)%N /\ (Reader.q_class q < 65536)%N.
Variable tcp : bool.
Variable t : tsig_out.
Variable f : tsig_fields.
Hypothesis Hf : fields_ok t f.
Variable a : Server.tsig_alg.
Variable secret rmac : bytes.
Hypothesis Hrm : (N.of_nat (length rmac) <= 65535)%N.
Hypothesis Halg : nm_wire (nm_lower (tf_alg f)) = TsigMsg.alg_name (tsig_alg_of a).
Hypothesis Hlim : Server.w_edns w <> None -> tcp = false -> first_limit tcp buf <= Server.w_limit w.
Hypothesis Hfit : wcur w + (length (nm_wire (tf_key f)) + length (nm_wire (tf_alg f)) + 26 +
                            (if (tf_error f =? 18)%N then 6 else 0) + alg_output_size a) + wres w <= wlim buf w tcp.

Lemma Hal_of : length (nm_wire (tf_alg f)) = length (alg_name_wire a).
Proof. rewrite <- (wire_lower_length (tf_alg f)), Halg. apply sg_alen. Qed.

Definition other_of : bytes := if (tf_error f =? 18)%N then tf_stime f else [].

(* the inner expression of ServerWT.ser_tsig for TsigMode::Response *)
Theorem ser_signed_wf :
  exists w1 w2 len b c5 mac rd,
    ser_prepare buf tcp w = Some w1 /\
    set_tsig_signed (alg_output_size a) (nm_lower (tf_alg f)) (nm_lower (tf_key f)) (tf_time f) TSIG_FUDGE (tf_origid f)
                    (tf_error f) (tf_stime f) w1 = Ok (tt, w2) /\
    finish_signed hmac (tsig_alg_of a) secret rmac w2 = Ok (len, b) /\ len <= wlim buf w tcp /\
    wf_response (firstn len b) = true /\
    signed_tsig_response (firstn len b) (match Server.w_edns w with Some _ => true | None => false end)
      (tf_key f) (nm_lower (tf_alg f)) (tf_time f) TSIG_FUDGE mac (tf_origid f) (tf_error f) other_of /\
    length mac = alg_output_size a /\ c5 <= len /\
    TsigMsg.sign hmac (TsigMsg.mkPrepared (nm_wire (nm_lower (tf_key f))) (tf_time f) TSIG_FUDGE (tf_origid f) (tf_error f) (tf_stime f))
                 (firstn c5 (firstn len b)) (TsigMsg.SResponse rmac) (tsig_alg_of a) secret = Ok (rd, mac).
Proof.
  destruct (ser_signed_layout hmac hmac_len hmac_wf buf Hb w Hq tcp t f Hf a secret rmac Hrm Hal_of Hlim Hfit)
    as (w1 & w2 & w0 & dh & y & L & g & wF & LF & rsP & c5 & rdata & mac & E1 & ES & E0 & Hrun & F1 & F2 & F3 & Hi & HL & Etu &
        EF & HiF & PF & DF & Hdr & HA4 & Hcl & Hc5 & Hsg & Hml & Hrd).
  set (ops := sig_ops buf w tcp f a) in *. set (outs := sig_outs buf w tcp f a) in *.
  set (A := areplay am0 ops outs) in *.
  destruct (sig_replay buf w Hq tcp f a Hlim Hfit) as (A1 & A2 & A3 & A4 & A5 & A8). fold ops outs A in A1, A2, A3, A4. fold ops outs in A5, A8.
  destruct HL as [HP HFl]. destruct HFl as [Fq Fr Fm Cq Ca Cn Cr [Bq [Ba [Bn Br]]] Fe Fs].
  pose proof (a_ts _ _ _ Hi _ Etu) as Twf. destruct Twf as [T1 [T2 [T3 [T4 [T5 [T6 [T7 [T8 [T9 T10]]]]]]]]].
  cbn [tu t_key t_alg t_time t_server_time MsgWriter.t_error] in T1, T2, T3, T4, T6, T7, T8, T9, T10.
  assert (Hmode : w_mode (d_w dh) = Standard) by congruence.
  (* the RDATA *)
  fold other_of in Hrd.
  assert (Hmacl : length mac <= 32) by (rewrite Hml; unfold osz; destruct a; simpl; lia).
  assert (Hmacw : wf_bytes mac).
  { unfold TsigMsg.sign in Hsg. destruct (TsigMsg.sign_digest _ _ _ _) as [dg|e|]; cbn [bind] in Hsg; try discriminate.
    destruct (TsigMsg.serialize_rdata _ _ _) as [r|e|]; cbn [bind] in Hsg; try discriminate. inversion Hsg; subst. apply hmac_wf. }
  assert (Hoth : wf_bytes other_of /\ length other_of <= 6).
  { unfold other_of. destruct (tf_error f =? 18)%N; [split; [exact T8|lia]|split; [constructor|simpl; lia]]. }
  destruct Hoth as [Hob Hol].
  assert (Erd : rdata = rdata_signed_s (nm_wire (nm_lower (tf_alg f))) (tf_time f) TSIG_FUDGE mac (tf_origid f) (tf_error f) other_of).
  { rewrite Hrd, Halg. apply serialize_eq; lia. }
  destruct Hf as [Ga Gab Gk [Tt1 Tt2] [S1 S2] _ _ _ Goid].
  destruct (signed_rdata_valid (nm_lower (tf_alg f)) (tf_time f) TSIG_FUDGE mac (tf_origid f) (tf_error f) other_of) as (Vw & Vv); auto.
  { apply good_name_lower. exact Ga. }
  rewrite <- Erd in Vw, Vv.
  assert (Hrdl : (N.of_nat (length rdata) < 65536)%N).
  { rewrite Erd. unfold rdata_signed_s. rewrite !app_length. unfold be16s. simpl length. lia. }
  (* the pseudo-records *)
  set (ps := pseudo_signed (d_w dh) (nm_lower (tf_key f)) rdata) in *.
  assert (Wp : Forall arr_wf ps).
  { unfold ps, pseudo_signed. apply Forall_app. split.
    - destruct (MsgWriter.w_edns (d_w dh)) as [e|] eqn:Ee; [|constructor]. destruct (Fe e eq_refl) as [K1 K2].
      constructor; [|constructor]. unfold arr_wf; simpl. repeat split; auto; try lia; try constructor. cbv. lia.
    - constructor; [|constructor]. unfold arr_wf; simpl. repeat split; auto; try apply T1; try (cbv; lia). }
  assert (Lps : length ps = (if MsgWriter.w_edns (d_w dh) then 1 else 0) + 1).
  { unfold ps, pseudo_signed. rewrite app_length. destruct (MsgWriter.w_edns (d_w dh)); reflexivity. }
  destruct (layout_decode wF LF (mkLay (y_qs y) (y_rrs y ++ rsP)) (w_rr_start (d_w dh)) A ps
              (w_qd (d_w dh)) (w_an (d_w dh)) (w_ns (d_w dh)) (w_ar (d_w dh)) HiF PF)
    as (m & Em & Rq & Ra & Rn & Rr & Gid & G2 & G3 & H12).
  { exact Fq. }
  { cbn [y_rrs]. rewrite !app_assoc. apply Forall2_app; [rewrite <- !app_assoc; exact Fr|exact DF]. }
  { apply areplay_wf; [exact am0_wf|exact F1|exact F2]. }
  { exact Wp. }
  { exact Hdr. }
  { exact Cq. } { exact Ca. } { exact Cn. }
  { rewrite Cr, Etu, app_length, Lps. destruct (MsgWriter.w_edns (d_w dh)); simpl; lia. }
  { auto. }
  rewrite A1 in Ra. rewrite A2 in Rn. rewrite A3 in Rr. cbn [app] in Rr.
  assert (Han : m_an m = []) by (destruct (m_an m); [reflexivity|inversion Ra]).
  assert (Hns : m_ns m = []) by (destruct (m_ns m); [reflexivity|inversion Rn]).
  (* QR *)
  pose proof (hrun ops (mkD w0 []) ah0 dh outs true (writer_new_inv _ _ _ E0) (HInv_new _ _ _ E0) F3 Hrun) as Hh.
  assert (Hqr : qr_bit m = true).
  { destruct Hh as [_ _ _ [x2 [E2 [B2 Fx2]]] _ _ _].
    assert (Hm2 : m_flags2 m = x2).
    { rewrite nth_error_firstn_lt in G2 by lia. rewrite (agree_nth 4 _ _ 2 HA4) in G2 by lia. congruence. }
    assert (Q : fst (fst (fst (fst (dec2 x2)))) = h_qr (hreplay ah0 ops outs)) by (rewrite Fx2; reflexivity).
    unfold dec2 in Q. cbn [fst] in Q. unfold qr_bit. rewrite Hm2, Q. exact A5. }
  (* the decoded TSIG record *)
  assert (HT : forall d, rr_rel xparts (mkAR (nm_lower (tf_key f)) (w_mode (d_w dh)) TYPE_TSIG qclass_any (ttl_from 0) rdata) d ->
            rr_rdata_ok d = true /\ is_tsig d = true /\ names_eq_ci (dr_owner d) (tf_key f) /\ dr_type d = 250%N /\
            dr_class d = 255%N /\ dr_ttl d = 0%N /\ dr_parts d = [PRaw rdata]).
  { intros d (Hn & Hty & Hcl' & Httl & Hp). cbn [ar_ty ar_cl ar_ttl ar_owner ar_exact ar_mode] in *. rewrite Hmode in Hn. cbn [exact_of] in Hn.
    change TYPE_TSIG with 250%N in *. change qclass_any with 255%N in *. change (ttl_from 0) with 0%N in Httl.
    unfold xparts in Hp. cbn [ar_cl ar_ty ar_rd] in Hp. change (component_types 255 250) with (@nil ctype) in Hp.
    cbn [rd_parts] in Hp.
    assert (Hne : (length rdata =? 0) = false).
    { apply Nat.eqb_neq. rewrite Erd. unfold rdata_signed_s. rewrite !app_length. rewrite Tt1. lia. }
    rewrite Hne in Hp. cbn [map xp] in Hp. destruct (dr_parts d) as [|p ps'] eqn:Eps; inversion Hp as [|x p0 l l' Hx Hrest]; subst.
    inversion Hrest; subst. destruct p as [|r]; cbn [part_rel] in Hx; [contradiction|]. subst r.
    assert (Et : is_tsig d = true) by (unfold is_tsig; rewrite Hty; reflexivity).
    assert (Eo : is_opt d = false) by (unfold is_opt; rewrite Hty; reflexivity).
    split. { unfold rr_rdata_ok. rewrite Eo, Hty, Hcl'. unfold rdata_of_parts. rewrite Eps. cbn [flat_map]. rewrite app_nil_r. exact Vv. }
    split; [exact Et|]. split.
    { unfold names_eq_ci. unfold name_rel in Hn. rewrite <- Hn. unfold nm_lower.
      rewrite map_map. apply map_ext. intros l. rewrite map_map. apply map_ext. intros x. apply lower_idem. }
    repeat split; auto. }
  assert (Espec : rdata = tsig_rdata_signed (nm_lower (tf_alg f)) (tf_time f) TSIG_FUDGE mac (tf_origid f) (tf_error f) other_of).
  { rewrite Erd. reflexivity. }
  assert (Hsg' : TsigMsg.sign hmac (TsigMsg.mkPrepared (nm_wire (nm_lower (tf_key f))) (tf_time f) TSIG_FUDGE (tf_origid f) (tf_error f) (tf_stime f))
                   (firstn c5 (firstn (MsgWriter.w_cursor wF) (w_buf wF))) (TsigMsg.SResponse rmac) (tsig_alg_of a) secret = Ok (rdata, mac)).
  { rewrite firstn_firstn. replace (Nat.min c5 (MsgWriter.w_cursor wF)) with c5 by lia. exact Hsg. }
  exists w1, w2, (MsgWriter.w_cursor wF), (w_buf wF), c5, mac, rdata.
  split; [exact E1|]. split; [exact ES|]. split; [exact EF|]. split; [exact Hcl|].
  unfold ps, pseudo_signed in Rr.
  assert (Hedns : MsgWriter.w_edns (d_w dh) = None <-> Server.w_edns w = None).
  { destruct Hh as [_ _ _ _ _ He _]. rewrite He. destruct (h_edns (hreplay ah0 ops outs)) as [[u up]|]; split; intros X; try discriminate X; auto.
    - apply A8 in X. discriminate X. - apply A8. reflexivity. }
  destruct (MsgWriter.w_edns (d_w dh)) as [e|] eqn:Ee.
  - cbn [app] in Rr. inversion Rr as [|a1 d1 l l' Hd1 Hrest]; subst. inversion Hrest as [|a2 d2 l2 l2' Hd2 Hrest2]; subst. inversion Hrest2; subst.
    destruct (HT d2 Hd2) as (R1 & R2' & R3 & R4 & R5 & R6 & R7).
    change TYPE_OPT with 41%N in Hd1. destruct (opt_decoded _ _ _ _ Hd1) as (O1 & _ & O3).
    split; [unfold wf_response; rewrite Em; apply (wf_decoded_tsig m [d1] d2); auto|].
    split.
    + exists m, [d1], d2. split; [exact Em|]. repeat split; auto.
      * destruct (Server.w_edns w) as [ee|]; [|exfalso; assert (X : Some e = None) by (apply Hedns; reflexivity); discriminate X].
        exists d1. split; [reflexivity|]. destruct Hd1 as (_ & Hty & _). exact Hty.
      * rewrite R7, Espec. reflexivity.
    + split; [exact Hml|]. split; [exact Hc5|exact Hsg'].
  - cbn [app] in Rr. inversion Rr as [|a2 d2 l2 l2' Hd2 Hrest2]; subst. inversion Hrest2; subst.
    destruct (HT d2 Hd2) as (R1 & R2' & R3 & R4 & R5 & R6 & R7).
    split; [unfold wf_response; rewrite Em; apply (wf_decoded_tsig m [] d2); auto|].
    split.
    + exists m, [], d2. split; [exact Em|]. repeat split; auto.
      * destruct (Server.w_edns w) as [ee|] eqn:Eee; [|reflexivity]. assert (X : Some ee = None) by (apply Hedns; reflexivity). discriminate X.
      * rewrite R7, Espec. reflexivity.
    + split; [exact Hml|]. split; [exact Hc5|exact Hsg'].
Qed.

End SD.
