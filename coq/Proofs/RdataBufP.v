(* The octet-buffer model of RdataSetOwned refines the list model. *)
From QV Require Import Base.Res Base.Octets Base.ListX Model.ZoneTree Model.RdataBuf.

Definition encode (l : list bytes) : bytes := flat_map buf_from l.

Definition short (rd : bytes) : Prop := length rd < 256 * 256.

Lemma buf_next_from rd rest : short rd -> buf_next (buf_from rd ++ rest) = Some (rd, rest).
Proof.
  unfold short. intros H. unfold buf_from, u16_ne_bytes. cbn [app buf_next].
  rewrite !Nnat.Nat2N.id.
  assert (Hlen : length rd mod 256 + 256 * ((length rd / 256) mod 256) = length rd).
  { rewrite (Nat.mod_small (length rd / 256) 256).
    - rewrite Nat.add_comm. symmetry. apply Nat.div_mod. lia.
    - apply Nat.div_lt_upper_bound; lia. }
  rewrite Hlen. cbn [length]. rewrite app_length.
  assert (Hle : (length rd + 2 <=? S (S (length rd + length rest))) = true) by (apply Nat.leb_le; lia).
  rewrite Hle. f_equal. f_equal.
  - unfold slice. replace (length rd + 2 - 2) with (length rd) by lia. cbn [skipn].
    rewrite firstn_app, Nat.sub_diag, firstn_all, firstn_O. apply app_nil_r.
  - replace (length rd + 2) with (S (S (length rd))) by lia. cbn [skipn].
    rewrite skipn_app, Nat.sub_diag, skipn_all. reflexivity.
Qed.

Lemma buf_next_nil : buf_next [] = None.
Proof. reflexivity. Qed.

Lemma buf_iter_encode l : Forall short l -> forall fuel, length l < fuel -> buf_iter fuel (encode l) = l.
Proof.
  induction 1 as [|rd l Hrd Hl IH]; intros fuel Hf.
  - destruct fuel; reflexivity.
  - destruct fuel; [simpl in Hf; lia|]. cbn [buf_iter]. unfold encode. cbn [flat_map].
    rewrite buf_next_from by exact Hrd. f_equal. apply IH. simpl in Hf. lia.
Qed.

Lemma encode_length l : length l <= length (encode l).
Proof.
  induction l as [|rd l IH]; [apply Nat.le_refl|].
  unfold encode. cbn [flat_map]. fold (encode l). rewrite app_length.
  assert (2 <= length (buf_from rd)) by (unfold buf_from, u16_ne_bytes; rewrite app_length; cbn [length]; lia).
  cbn [length]. lia.
Qed.

Theorem buf_rdatas_encode l : Forall short l -> buf_rdatas (encode l) = l.
Proof.
  intros H. unfold buf_rdatas. apply buf_iter_encode; auto. pose proof (encode_length l). lia.
Qed.

Theorem buf_from_encode rd : buf_from rd = encode [rd].
Proof. unfold encode. cbn [flat_map]. symmetry. apply app_nil_r. Qed.

Theorem buf_insert_encode req cls ty s rd : Forall short s ->
  buf_insert req cls ty (encode s) rd = encode (rdataset_insert req cls ty s rd).
Proof.
  intros H. unfold buf_insert, rdataset_insert. rewrite (buf_rdatas_encode s H).
  destruct (existsb (fun ex => req cls ty rd ex) s); auto.
  unfold encode. rewrite flat_map_app. cbn [flat_map]. rewrite app_nil_r. reflexivity.
Qed.

(* iterating after an insert yields the list model's result *)
Corollary buf_insert_rdatas req cls ty s rd : Forall short s -> short rd ->
  buf_rdatas (buf_insert req cls ty (encode s) rd) = rdataset_insert req cls ty s rd.
Proof.
  intros H Hrd. rewrite buf_insert_encode by exact H. apply buf_rdatas_encode.
  unfold rdataset_insert. destruct (existsb _ s); auto. apply Forall_app. split; auto.
Qed.
