(* The executable spec decoder [sdecode] is equivalent to the relation [decodes]
   (with the 255-octet bound). *)
From QV Require Import Base.ListX Spec.NameWireS.
Local Open Scope nat_scope.

Lemma wire_len_cons' (l : label) r : wire_len (l :: r) = 1 + length l + wire_len r.
Proof.
  unfold wire_len, wire_of, lwire. cbn [flat_map].
  repeat (rewrite ?app_length; cbn [length app]). lia.
Qed.

Lemma sdecode_sound b : forall fuel cs i B ls e,
  sdecode fuel b cs i B = Some (ls, e) -> decodes b cs i ls e /\ wire_len ls <= B.
Proof.
  induction fuel as [|f IH]; intros cs i B ls e H; [discriminate|].
  cbn [sdecode] in H. destruct (nth_error b i) as [len|] eqn:Hi; [|discriminate].
  destruct (len =? 0)%N eqn:E0.
  - apply N.eqb_eq in E0; subst. destruct (1 <=? B) eqn:EB; [|discriminate].
    apply Nat.leb_le in EB. inversion H; subst. split; [constructor; auto|]. exact EB.
  - apply N.eqb_neq in E0. destruct (len <=? 63)%N eqn:E1.
    + apply N.leb_le in E1.
      destruct ((i + 1 + N.to_nat len <=? length b) && (1 + N.to_nat len <=? B)) eqn:E2; [|discriminate].
      apply andb_true_iff in E2. destruct E2 as [E2 E3]. apply Nat.leb_le in E2. apply Nat.leb_le in E3.
      destruct (sdecode f b cs _ _) as [[r e']|] eqn:Hr; [|discriminate]. inversion H; subst.
      apply IH in Hr. destruct Hr as [D Hw]. split.
      * apply dec_label; auto. lia.
      * rewrite wire_len_cons', slice_length by lia. lia.
    + apply N.leb_gt in E1. destruct (192 <=? len)%N eqn:E2; [|discriminate]. apply N.leb_le in E2.
      destruct (nth_error b (i + 1)) as [lo|] eqn:Hlo; [|discriminate].
      destruct (_ <? cs) eqn:E3; [|discriminate]. apply Nat.ltb_lt in E3.
      destruct (sdecode f b _ _ B) as [[r e']|] eqn:Hr; [|discriminate]. inversion H; subst.
      apply IH in Hr. destruct Hr as [D Hw]. split; [|exact Hw].
      eapply dec_ptr; eauto.
Qed.

Lemma sdecode_complete b : forall cs i ls e, decodes b cs i ls e ->
  forall fuel B, wire_len ls <= B -> B + cs < fuel -> sdecode fuel b cs i B = Some (ls, e).
Proof.
  induction 1 as [cs i H | cs i len rest e H Hp Hl Hb Hd IH | cs i hi lo rest e' H Hh Hlo Ht Hd IH];
    intros fuel B Hw Hf; (destruct fuel as [|f]; [lia|]); cbn [sdecode]; rewrite H.
  - change (0 =? 0)%N with true. cbv iota. unfold wire_len, wire_of in Hw. simpl in Hw.
    destruct (1 <=? B) eqn:E; [reflexivity|apply Nat.leb_gt in E; lia].
  - destruct (len =? 0)%N eqn:E0; [apply N.eqb_eq in E0; lia|].
    destruct (len <=? 63)%N eqn:E1; [|apply N.leb_gt in E1; lia].
    rewrite wire_len_cons', slice_length in Hw by lia.
    destruct (i + 1 + N.to_nat len <=? length b) eqn:E2; [|apply Nat.leb_gt in E2; lia].
    destruct (1 + N.to_nat len <=? B) eqn:E3; [|apply Nat.leb_gt in E3; lia].
    cbn [andb]. rewrite IH by lia. reflexivity.
  - destruct (hi =? 0)%N eqn:E0; [apply N.eqb_eq in E0; lia|].
    destruct (hi <=? 63)%N eqn:E1; [apply N.leb_le in E1; lia|].
    destruct (192 <=? hi)%N eqn:E2; [|apply N.leb_gt in E2; lia].
    rewrite Hlo. destruct (_ <? cs) eqn:E3; [|apply Nat.ltb_ge in E3; lia].
    rewrite IH by lia. reflexivity.
Qed.

Theorem spec_decode_name_iff b start ls l :
  spec_decode_name b start = Some (ls, l) <-> decodes_name b start ls l.
Proof.
  unfold spec_decode_name, decodes_name. split.
  - destruct (sdecode _ b start start 255) as [[ls' e]|] eqn:H; [|discriminate].
    intros E; inversion E; subst. apply sdecode_sound in H. destruct H as [D Hw]. eauto.
  - intros (e & D & -> & Hw). rewrite (sdecode_complete b _ _ _ _ D) by lia. reflexivity.
Qed.
