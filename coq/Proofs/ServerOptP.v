(* C09 at the byte level for ANSWERED responses: when the request carried an OPT (the server model hands
   its payload size to the byte-level composition), every response [QueryW.respond_w] produces ENDS with
   the 11 octets of the OPT pseudo-record — owner root, TYPE 41, CLASS = the server's payload size, TTL
   field 0 (extended-RCODE bits 0, version 0, flags 0), RDLENGTH 0 — whatever query answering wrote
   before it.  The EDNS setting survives the whole of query answering (invariant [EK]); [finish] emits
   the record at the cursor. *)
From QV Require Import Base.ListX Gen.Consts Model.MsgWriter Proofs.MsgWriterP Proofs.MsgWriterNameP
  Proofs.MsgWriterInvP Model.ZoneTree Model.Query Model.QueryW Proofs.QueryInvP Proofs.QueryWP Proofs.ServerEchoWP.
Local Open Scope nat_scope.

Definition opt_octets (size ttl : N) : bytes := [0%N] ++ be16 41 ++ be16 size ++ be32 ttl ++ be16 0.

Lemma component_types_opt cl : component_types cl 41 = [].
Proof. reflexivity. Qed.

(* add_rr of the OPT record: what is written, where *)
Lemma add_rr_opt cl ttl w v w' : add_rr HNone [] 41 cl ttl [] None w = Ok (v, w') ->
  w_cursor w' = w_cursor w + 11 /\
  slice (w_buf w') (w_cursor w) (w_cursor w + 11) = opt_octets cl ttl /\
  agree (w_cursor w) (w_buf w) (w_buf w') /\ length (w_buf w') = length (w_buf w).
Proof.
  unfold add_rr.
  assert (Hn : write_hinted_name HNone [] w = write_uncompressed_name [] w).
  { unfold write_hinted_name. destruct (w_mode w); reflexivity. }
  rewrite Hn. unfold write_uncompressed_name, try_push_u16, try_push_u32.
  destruct (try_push (nm_wire []) w) as [[[] w1]|[e w1]|] eqn:P1; cbn [bind]; try discriminate.
  destruct (try_push_ok _ _ _ _ P1) as (b1 & B1 & -> & _).
  match goal with |- context [try_push (be16 41) ?x] => set (x1 := x) end.
  destruct (try_push (be16 41) x1) as [[[] w2]|[e w2]|] eqn:P2; cbn [bind]; try discriminate.
  destruct (try_push_ok _ _ _ _ P2) as (b2 & B2 & -> & _).
  match goal with |- context [try_push (be16 cl) ?x] => set (x2 := x) end.
  destruct (try_push (be16 cl) x2) as [[[] w3]|[e w3]|] eqn:P3; cbn [bind]; try discriminate.
  destruct (try_push_ok _ _ _ _ P3) as (b3 & B3 & -> & _).
  match goal with |- context [try_push (be32 ttl) ?x] => set (x3 := x) end.
  destruct (try_push (be32 ttl) x3) as [[[] w4]|[e w4]|] eqn:P4; cbn [bind]; try discriminate.
  destruct (try_push_ok _ _ _ _ P4) as (b4 & B4 & -> & _).
  match goal with |- context [w_avail ?x <? w_cursor ?x] => set (x4 := x) end.
  destruct (w_avail x4 <? w_cursor x4); [discriminate|]. destruct (w_avail x4 - w_cursor x4 <? 2); [discriminate|].
  rewrite component_types_opt. cbn [write_components length Nat.eqb bind].
  match goal with |- context [w_cursor ?y <? w_cursor x4 + 2] => set (x5 := y) end.
  destruct (w_cursor x5 <? w_cursor x4 + 2) eqn:Z; [discriminate|].
  assert (L1 : length (nm_wire []) = 1) by reflexivity.
  assert (L16 : forall v0, length (be16 v0) = 2) by reflexivity.
  assert (L32 : forall v0, length (be32 v0) = 4) by reflexivity.
  cbn [w_cursor w_buf x1 x2 x3 x4 x5 set_mro set_cursor set_buf] in *. rewrite ?L1, ?L16, ?L32 in *.
  match goal with |- context [be16 (N.of_nat ?k mod 65536)] => replace k with 0 by lia end.
  change (be16 (N.of_nat 0 mod 65536)) with (be16 0). set (c := w_cursor w) in *.
  unfold lift. destruct (w_write _ _ (be16 0)) as [w7|e|] eqn:P5; cbn [bind]; try discriminate.
  apply w_write_inv in P5. destruct P5 as (b5 & B5 & ->). cbn [w_buf set_cursor set_buf set_mro] in B5.
  intros H; inversion H; subst v w'. clear H.
  subst x5 x4 x3 x2 x1. cbn [w_cursor w_buf set_cursor set_buf set_mro] in *. rewrite ?L1, ?L16, ?L32 in *.
  pose proof (buf_write_length _ _ _ _ B1) as E1. pose proof (buf_write_length _ _ _ _ B2) as E2.
  pose proof (buf_write_length _ _ _ _ B3) as E3. pose proof (buf_write_length _ _ _ _ B4) as E4.
  pose proof (buf_write_length _ _ _ _ B5) as E5.
  split; [lia|]. split; [|split; [|congruence]].
  - unfold opt_octets.
    replace (c + 11) with (c + 1 + 2 + 2 + 4 + 2) by lia.
    rewrite (slice_app b5 c (c + 1) (c + 1 + 2 + 2 + 4 + 2)) by lia.
    rewrite (slice_app b5 (c + 1) (c + 1 + 2) (c + 1 + 2 + 2 + 4 + 2)) by lia.
    rewrite (slice_app b5 (c + 1 + 2) (c + 1 + 2 + 2) (c + 1 + 2 + 2 + 4 + 2)) by lia.
    rewrite (slice_app b5 (c + 1 + 2 + 2) (c + 1 + 2 + 2 + 4) (c + 1 + 2 + 2 + 4 + 2)) by lia.
    assert (A5 : agree (c + 1 + 2 + 2 + 4) b4 b5) by (eapply buf_write_agree; eauto; lia).
    assert (A4 : agree (c + 1 + 2 + 2) b3 b4) by (eapply buf_write_agree; eauto; lia).
    assert (A3 : agree (c + 1 + 2) b2 b3) by (eapply buf_write_agree; eauto; lia).
    assert (A2 : agree (c + 1) b1 b2) by (eapply buf_write_agree; eauto; lia).
    f_equal; [|f_equal; [|f_equal; [|f_equal]]].
    + rewrite (agree_slice _ _ _ _ _ A5) by lia. rewrite (agree_slice _ _ _ _ _ A4) by lia.
      rewrite (agree_slice _ _ _ _ _ A3) by lia. rewrite (agree_slice _ _ _ _ _ A2) by lia.
      pose proof (buf_write_data _ _ _ _ B1) as D. rewrite L1 in D. exact D.
    + rewrite (agree_slice _ _ _ _ _ A5) by lia. rewrite (agree_slice _ _ _ _ _ A4) by lia.
      rewrite (agree_slice _ _ _ _ _ A3) by lia.
      pose proof (buf_write_data _ _ _ _ B2) as D. rewrite L16 in D. exact D.
    + rewrite (agree_slice _ _ _ _ _ A5) by lia. rewrite (agree_slice _ _ _ _ _ A4) by lia.
      pose proof (buf_write_data _ _ _ _ B3) as D. rewrite L16 in D. exact D.
    + rewrite (agree_slice _ _ _ _ _ A5) by lia.
      pose proof (buf_write_data _ _ _ _ B4) as D. rewrite L32 in D. exact D.
    + pose proof (buf_write_data _ _ _ _ B5) as D. rewrite L16 in D. exact D.
  - eapply agree_trans; [eapply buf_write_agree; [exact B1|lia]|].
    eapply agree_trans; [eapply agree_le; [eapply buf_write_agree; [exact B2|apply Nat.le_refl]|lia]|].
    eapply agree_trans; [eapply agree_le; [eapply buf_write_agree; [exact B3|apply Nat.le_refl]|lia]|].
    eapply agree_trans; [eapply agree_le; [eapply buf_write_agree; [exact B4|apply Nat.le_refl]|lia]|].
    eapply agree_le; [eapply buf_write_agree; [exact B5|apply Nat.le_refl]|lia].
Qed.

(* finish on a writer with an EDNS setting and no TSIG: the OPT record is the tail of the message *)
Lemma finish_opt w size up len b : Inv_n w -> w_edns w = Some (mkEdns size up) -> w_tsig w = None ->
  finish w = Ok (len, b) ->
  len = w_cursor w + 11 /\ slice b (w_cursor w) len = opt_octets size (up * 16777216).
Proof.
  intros Hi He Ht. unfold finish, finish_gen.
  destruct (w_write w (N.to_nat QDCOUNT_START) _) as [w1|e|] eqn:E1; cbn [bind]; try discriminate.
  destruct (w_write w1 (N.to_nat ANCOUNT_START) _) as [w2|e|] eqn:E2; cbn [bind]; try discriminate.
  destruct (w_write w2 (N.to_nat NSCOUNT_START) _) as [w3|e|] eqn:E3; cbn [bind]; try discriminate.
  destruct (w_write w3 (N.to_nat ARCOUNT_START) _) as [w4|e|] eqn:E4; cbn [bind]; try discriminate.
  apply w_write_inv in E1. destruct E1 as (b1 & _ & ->). apply w_write_inv in E2. destruct E2 as (b2 & _ & ->).
  apply w_write_inv in E3. destruct E3 as (b3 & _ & ->). apply w_write_inv in E4. destruct E4 as (b4 & _ & ->).
  cbn [w_edns set_buf]. rewrite He. cbn [e_udp e_upper].
  destruct (add_rr HNone [] TYPE_OPT size (up * 16777216) [] None _) as [[v w5]|[e w5]|] eqn:A; cbn [unwrap_w bind]; try discriminate.
  change TYPE_OPT with 41%N in A. pose proof (add_rr_opt _ _ _ _ _ A) as (C5 & S5 & _ & _).
  assert (T5 : w_tsig w5 = None).
  { match type of A with add_rr _ _ _ _ _ _ _ ?x = _ =>
      assert (Hp : pre (w_cursor x) x) by (destruct Hi; split; cbn [w_cursor w_avail set_avail set_limit_avail set_buf]; lia);
      pose proof (frame_add_rr (w_cursor x) HNone [] 41 size (up * 16777216)%N [] None x Hp) as F end.
    rewrite A in F. cbn [frame] in F. rewrite (x_tsig _ _ _ F). cbn [w_tsig set_avail set_limit_avail set_buf]. exact Ht. }
  rewrite T5. intros H; inversion H; subst len b. clear H.
  cbn [w_cursor set_avail set_limit_avail set_buf] in C5, S5. split; [exact C5|]. rewrite C5. exact S5.
Qed.

(* ---------- the EDNS setting survives query answering ---------- *)
Definition EK (size : N) (w : writer) : Prop := Inv_n w /\ w_edns w = Some (mkEdns size 0) /\ w_tsig w = None.

Lemma EK_ext size c0 w w' : EK size w -> ext c0 w w' -> Inv_n w' -> EK size w'.
Proof. intros (Hi & He & Ht) X Hi'. split; [exact Hi'|]. rewrite (x_edns _ _ _ X), (x_tsig _ _ _ X). auto. Qed.

Lemma EK_obs size w w' : EK size w -> obs_eq w w' -> EK size w'.
Proof.
  intros (Hi & He & Ht) X. split; [eapply obs_eq_inv; eauto|]. rewrite (o_edns _ _ X), (o_tsig _ _ X). auto.
Qed.

Lemma EK_ext_counts size w w2 s c : EK size w -> ext (w_cursor w) w w2 -> Inv_n (set_sec_count s w2 c) ->
  EK size (set_sec_count s w2 c).
Proof.
  intros (Hi & He & Ht) X Hi'. split; [exact Hi'|].
  destruct s; cbn; rewrite (x_edns _ _ _ X), (x_tsig _ _ _ X); auto.
Qed.

Lemma EK_modify size w i f w' : EK size w -> w_modify w i f = Ok w' -> EK size w'.
Proof.
  intros (Hi & He & Ht) E. pose proof (inv_w_modify _ _ _ _ Hi E) as Hi'.
  destruct (w_modify_nth _ _ _ _ E) as (x & _ & _ & _ & b' & -> & _). split; [exact Hi'|]. auto.
Qed.

Lemma EK_set_rcode size rc w w' : EK size w -> set_rcode rc w = Ok w' -> EK size w'.
Proof.
  intros H E. unfold set_rcode in E.
  destruct (w_modify w RCODE_BYTE _) as [w1|e|] eqn:E1; cbn [bind] in E; try discriminate.
  inversion E; subst. destruct (EK_modify _ _ _ _ _ H E1) as (Hi & He & Ht).
  split; [apply inv_clear_upper; exact Hi|]. unfold clear_upper. rewrite He. cbn. auto.
Qed.

Lemma EK_clear size w : EK size w -> EK size (clear_rrs w).
Proof.
  intros (Hi & He & Ht). split; [|split; [exact He|exact Ht]].
  destruct Hi as [h1 h2 h3 h4 h5]. constructor; cbn; auto; try lia.
Qed.

Lemma wi_rr_EK size s h o ty c ttl rd w : EK size w -> RP (EK size) (wi_add_rr w_iface s h o ty c ttl rd w).
Proof.
  intros Hp. pose proof Hp as (Hi & _ & _). cbn [wi_add_rr w_iface].
  pose proof (section_rr_ok (sec_of s) (hint_of h) o ty c (ttl_from ttl) rd None w Hi) as H.
  destruct (add_section_rr (sec_of s) (hint_of h) o ty c (ttl_from ttl) rd None w) as [[v w']|[e w']|]; cbn [RP]; auto.
  - destruct H as (Hi' & w2 & cc & X & ->). eapply EK_ext_counts; eauto.
  - eapply EK_obs; eauto.
Qed.

Lemma wi_rrset_EK size s h o ty c ttl rds b w : EK size w ->
  match wi_add_rrset w_iface s h o ty c ttl rds b w with
  | Ok (_, w') => EK size w' | Err (_, w') => EK size w' | Panic => True end.
Proof.
  intros Hp. pose proof Hp as (Hi & _ & _). cbn [wi_add_rrset w_iface].
  pose proof (section_rrset_ok (sec_of s) (hint_of h) o ty c (ttl_from ttl) rds (if b then Some [] else None) w Hi) as H.
  destruct (add_section_rrset (sec_of s) (hint_of h) o ty c (ttl_from ttl) rds (if b then Some [] else None) w)
    as [[v w']|[e w']|]; auto.
  - destruct H as (Hi' & w2 & cc & X & ->). eapply EK_ext_counts; eauto.
  - eapply EK_obs; eauto.
Qed.

Lemma wi_aa_EK size b w w' : EK size w -> wi_set_aa w_iface b w = Some w' -> EK size w'.
Proof.
  cbn [wi_set_aa w_iface]. intros H E. destruct (set_aa b w) as [w1|e|] eqn:E1; try discriminate.
  inversion E; subst. unfold set_aa, w_set_flag in E1. eapply EK_modify; eauto.
Qed.
Lemma wi_rc_EK size c w w' : EK size w -> wi_set_rcode w_iface c w = Some w' -> EK size w'.
Proof.
  cbn [wi_set_rcode w_iface]. intros H E. destruct (set_rcode c w) as [w1|e|] eqn:E1; try discriminate.
  inversion E; subst. eapply EK_set_rcode; eauto.
Qed.

Lemma finish_w_EK size tcp q w' : QP (EK size) q -> finish_w tcp q = Some w' -> EK size w'.
Proof.
  destruct q as [[u w1]|[[|] w1]|]; cbn [QP finish_w]; intros HQ; try discriminate.
  - intros E; inversion E; subst. exact HQ.
  - destruct (wi_set_aa w_iface false w1) as [w2|] eqn:E2; [|discriminate].
    destruct (wi_set_rcode w_iface RCODE_SERVFAIL w2) as [w3|] eqn:E3; [|discriminate].
    intros E; inversion E; subst. cbn [wi_clear_rrs w_iface]. apply EK_clear.
    exact (wi_rc_EK size _ _ _ (wi_aa_EK size _ _ _ HQ E2) E3).
  - cbn [wi_clear_rrs w_iface]. pose proof (EK_clear size w1 HQ) as Hc.
    destruct tcp.
    + destruct (wi_set_aa w_iface false (clear_rrs w1)) as [w2|] eqn:E2; [|discriminate].
      intros E3. exact (wi_rc_EK size _ _ _ (wi_aa_EK size _ _ _ Hc E2) E3).
    + cbn [wi_set_tc w_iface]. destruct (set_tc true (clear_rrs w1)) as [w2|e|] eqn:E2; try discriminate.
      intros E; inversion E; subst. unfold set_tc, w_set_flag in E2. eapply EK_modify; eauto.
Qed.

Theorem handle_EK size negttl z qname qtype tcp w w' : EK size w ->
  handle_non_axfr_query w_iface negttl z qname qtype tcp w = Some w' -> EK size w'.
Proof.
  intros Hp. rewrite handle_w_finish. apply finish_w_EK.
  destruct (qtype =? QTYPE_ANY)%N.
  - apply answer_any_P; first [exact Hp | intros; first [apply wi_rr_EK; assumption | apply wi_rrset_EK; assumption | eapply wi_aa_EK; eassumption | eapply wi_rc_EK; eassumption]].
  - apply answer_P; first [exact Hp | intros; first [apply wi_rr_EK; assumption | apply wi_rrset_EK; assumption | eapply wi_aa_EK; eassumption | eapply wi_rc_EK; eassumption]].
Qed.

(* the prepared writer has the EDNS setting *)
Lemma prepare_EK buf tcp id rd qname qtype qclass size limit w :
  prepare_w buf tcp id rd qname qtype qclass (Some size) limit = Some w -> EK size w.
Proof.
  intros E. destruct (prepare_PW _ _ _ _ _ _ _ _ _ _ E) as (L & (Hi & _ & _) & _). split; [exact Hi|].
  revert E. unfold prepare_w.
  destruct (writer_new buf (if tcp then tcp_limit_w else udp_limit_w)) as [w0|e|] eqn:E0; try discriminate.
  unfold writer_new in E0. destruct (_ <? header_size); [discriminate|]. destruct (length buf <? header_size); [discriminate|].
  inversion E0; subst w0. clear E0.
  match goal with |- context [set_id id ?x] => set (w0 := x) end.
  destruct (set_id id w0) as [w1|e|] eqn:E1; cbn [bind]; try discriminate.
  destruct (set_qr true w1) as [w2|e|] eqn:E2; cbn [bind]; try discriminate.
  destruct (set_opcode 0 w2) as [w3|e|] eqn:E3; cbn [bind]; try discriminate.
  destruct (set_rd rd w3) as [w4|e|] eqn:E4; try discriminate.
  unfold set_id in E1. apply w_write_inv in E1. destruct E1 as (b1 & _ & ->).
  unfold set_qr, w_set_flag, w_modify in E2. destruct (nth_error _ _); [|discriminate].
  apply w_write_inv in E2. destruct E2 as (b2 & _ & ->). rewrite set_buf_idem in *.
  unfold set_opcode, w_modify in E3. destruct (nth_error _ _); [|discriminate].
  apply w_write_inv in E3. destruct E3 as (b3 & _ & ->). rewrite set_buf_idem in *.
  unfold set_rd, w_set_flag, w_modify in E4. destruct (nth_error _ _); [|discriminate].
  apply w_write_inv in E4. destruct E4 as (b4 & _ & ->). rewrite set_buf_idem in *.
  destruct (add_question qname qtype qclass (set_buf w0 b4)) as [[u w5]|e|] eqn:E5; try discriminate.
  destruct (fresh_add_question _ _ _ _ _ _ _ _ E5) as (_ & _ & T5 & _).
  unfold set_edns. destruct (w_edns w5); [discriminate|].
  destruct (w_avail w5 <? w_cursor w5 + opt_record_size); [discriminate|].
  destruct (checked_add16 (w_ar w5) 1) as [ar|]; [|discriminate].
  destruct tcp.
  - intros H; inversion H; subst. cbn. auto.
  - match goal with |- context [MsgWriter.set_limit limit ?x] => set (w6 := x) end.
    destruct (MsgWriter.set_limit limit w6) as [w7|e|] eqn:E7; try discriminate.
    intros H; injection H as Hw; subst w7.
    revert E7. unfold MsgWriter.set_limit. destruct (_ <=? _).
    + destruct (_ <? _); [discriminate|]. intros X; inversion X. cbn. auto.
    + destruct (_ <? _); [discriminate|]. destruct (_ <? _); [discriminate|]. destruct (_ <? _); [discriminate|].
      intros X; inversion X. cbn. auto.
Qed.

(* ---------- every answered EDNS response ends with the OPT record ---------- *)
Theorem respond_w_opt_tail negttl buf tcp id rd qname qtype qclass size limit z len b :
  respond_w negttl buf tcp id rd qname qtype qclass (Some size) limit z = Some (len, b) ->
  11 <= len /\ slice b (len - 11) len = opt_octets size 0.
Proof.
  unfold respond_w.
  destruct (prepare_w buf tcp id rd qname qtype qclass (Some size) limit) as [w|] eqn:Ep; [|discriminate].
  pose proof (prepare_EK _ _ _ _ _ _ _ _ _ _ Ep) as Hp.
  destruct (handle_non_axfr_query w_iface negttl z qname qtype tcp w) as [w'|] eqn:Eh; [|discriminate].
  destruct (handle_EK _ _ _ _ _ _ _ _ Hp Eh) as (Hi & He & Ht).
  destruct (finish w') as [[len' b']|e|] eqn:Ef; try discriminate.
  intros E; injection E as E1 E2; subst len' b'.
  destruct (finish_opt w' size 0 len b Hi He Ht Ef) as [Hl Hs]. change (0 * 16777216)%N with 0%N in Hs.
  split; [lia|]. replace (len - 11) with (w_cursor w') by lia. exact Hs.
Qed.

Theorem respond_plain_opt_tail buf tcp id rd qname qtype qclass size limit rcode len b :
  respond_plain buf tcp id rd qname qtype qclass (Some size) limit rcode = Some (len, b) ->
  11 <= len /\ slice b (len - 11) len = opt_octets size 0.
Proof.
  unfold respond_plain.
  destruct (prepare_w buf tcp id rd qname qtype qclass (Some size) limit) as [w|] eqn:Ep; [|discriminate].
  pose proof (prepare_EK _ _ _ _ _ _ _ _ _ _ Ep) as Hp.
  destruct (set_rcode rcode w) as [w'|e|] eqn:Er; try discriminate.
  destruct (EK_set_rcode _ _ _ _ Hp Er) as (Hi & He & Ht).
  destruct (finish w') as [[len' b']|e|] eqn:Ef; try discriminate.
  intros E; injection E as E1 E2; subst len' b'.
  destruct (finish_opt w' size 0 len b Hi He Ht Ef) as [Hl Hs]. change (0 * 16777216)%N with 0%N in Hs.
  split; [lia|]. replace (len - 11) with (w_cursor w') by lia. exact Hs.
Qed.

Example opt_octets_example : opt_octets 1232 0 = [0; 0;41; 4;208; 0;0;0;0; 0;0]%N.
Proof. reflexivity. Qed.
