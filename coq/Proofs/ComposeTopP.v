(* Composition, part 5: the whole response to a clean QUERY (Model/QueryW.v: prepare_w / respond_w)
   is a contract-obeying run of the Writer's operation language from a fresh Writer.
     prepare_total   with a buffer of at least 512 octets the preparation (Writer::new, id/QR/opcode/RD,
                     the echoed question, the EDNS reservation, the negotiated limit) always succeeds;
     prepare_St      and is a contract-obeying trace ending in a state whose QNAME anchor stands for
                     the question name;
     respond_w_run   respond_w returns Some (len, octets) — never None, i.e. no step panics — and those
                     are exactly the final result of [run_writer] on an operation sequence that obeys the
                     hint contract and the argument well-formedness C12's theorems ask for. *)
From QV Require Import Base.ListX Gen.Consts Model.NameWire Model.MsgWriter Model.ZoneTree
  Spec.ZoneLookupS Proofs.ZoneInvP Model.Query Model.QueryW
  Proofs.MsgWriterP Proofs.MsgWriterScanP Proofs.MsgWriterNameP Proofs.MsgWriterInvP Proofs.MsgWriterOpP
  Proofs.MsgWriterStepP Proofs.MsgWriterHdrP Proofs.MsgWriterRtP
  Proofs.ComposeTraceP Proofs.ComposeWfP Proofs.ComposeNameP Proofs.ComposeKeyP.
Local Open Scope nat_scope.

(* ---------------------------------------------------------------- the preparation never fails *)

(* the Writer while only the header has been touched *)
Definition hdr_state (b : bytes) (lim : nat) : writer :=
  mkW b 12 lim lim 12 SecQuestion 0 0 0 0 None None None Standard None None.

Lemma writer_new_hdr buf limit : 12 <= Nat.min limit (length buf) ->
  exists b, writer_new buf limit = Ok (hdr_state b (Nat.min limit (length buf))) /\ length b = length buf.
Proof.
  intros H. unfold writer_new. change header_size with 12.
  destruct (Nat.min limit (length buf) <? 12) eqn:E1; [apply Nat.ltb_lt in E1; lia|].
  destruct (length buf <? 12) eqn:E2; [apply Nat.ltb_lt in E2; lia|].
  exists (repeat 0%N 12 ++ skipn 12 buf). split; [reflexivity|]. rewrite app_length, repeat_length, skipn_length. lia.
Qed.

Lemma hdr_write b lim pos data : pos + length data <= 12 -> 12 <= length b ->
  exists b', w_write (hdr_state b lim) pos data = Ok (hdr_state b' lim) /\ length b' = length b.
Proof.
  intros H1 H2. unfold w_write, buf_write. cbn [w_buf hdr_state].
  destruct (pos + length data <=? length b) eqn:E; [|apply Nat.leb_gt in E; lia].
  exists (firstn pos b ++ data ++ skipn (pos + length data) b). split; [reflexivity|]. rewrite !app_length, firstn_length, skipn_length. lia.
Qed.

Lemma hdr_modify b lim i f : N.to_nat i < 12 -> 12 <= length b ->
  exists b', w_modify (hdr_state b lim) i f = Ok (hdr_state b' lim) /\ length b' = length b.
Proof.
  intros H1 H2. unfold w_modify. cbn [w_buf hdr_state].
  destruct (nth_error b (N.to_nat i)) as [x|] eqn:E; [|apply nth_error_None in E; lia].
  apply (hdr_write b lim (N.to_nat i) [f x]); simpl; lia.
Qed.

(* the state after the question *)
Definition q_state (b : bytes) (c lim : nat) (pr : option prior) : writer :=
  mkW b c lim lim c SecQuestion 1 0 0 0 pr None None Standard None None.

Lemma push_fits data b c lim a rs sec qd an ns ar q o r m e t : c <= a -> c + length data <= a -> a <= length b ->
  exists b', try_push data (mkW b c lim a rs sec qd an ns ar q o r m e t) =
             Ok (tt, mkW b' (c + length data) lim a rs sec qd an ns ar q o r m e t) /\ length b' = length b.
Proof.
  intros H1 H2 H3. unfold try_push. cbn [w_avail w_cursor].
  destruct (a <? c) eqn:E1; [apply Nat.ltb_lt in E1; lia|].
  destruct (length data <=? a - c) eqn:E2; [|apply Nat.leb_gt in E2; lia].
  unfold w_write, buf_write. cbn [w_buf].
  destruct (c + length data <=? length b) eqn:E3; [|apply Nat.leb_gt in E3; lia].
  exists (firstn c b ++ data ++ skipn (c + length data) b). split; [reflexivity|]. rewrite !app_length, firstn_length, skipn_length. lia.
Qed.

Lemma be16_len v : length (be16 v) = 2. Proof. reflexivity. Qed.

Lemma add_question_hdr b lim n qt qc : 12 + length (nm_wire n) + 4 <= lim -> lim <= length b ->
  exists b' pr, add_question n qt qc (hdr_state b lim) = Ok (tt, q_state b' (12 + length (nm_wire n) + 2 + 2) lim pr) /\
                length b' = length b.
Proof.
  intros H1 H2. unfold add_question. cbn [w_section hdr_state w_qd checked_add16].
  change (checked_add16 0 1) with (Some 1%N). unfold with_rollback.
  assert (Hu : write_unhinted_name n (hdr_state b lim) = write_uncompressed_name n (hdr_state b lim)).
  { unfold write_unhinted_name. cbn [w_mode hdr_state]. destruct (2 <? length (nm_wire n)); [|reflexivity].
    unfold write_compressed_unhinted_name. cbn [w_mro w_qname w_mrn hdr_state or_else]. reflexivity. }
  rewrite Hu. unfold write_uncompressed_name. unfold hdr_state at 2.
  destruct (push_fits (nm_wire n) b 12 lim lim 12 SecQuestion 0 0 0 0 None None None Standard None None) as (b1 & E1 & L1); try lia.
  unfold hdr_state at 1. rewrite E1. cbn [bind]. cbn [w_qd N.eqb]. unfold set_qname. cbn [w_buf w_cursor w_limit w_avail w_rr_start w_section w_qd w_an w_ns w_ar
    w_qname w_mro w_mrn w_mode w_edns w_tsig].
  unfold try_push_u16.
  match goal with |- context [try_push (be16 qt) (mkW ?bb ?c ?l ?a ?rs ?sec ?qd ?an ?ns ?ar ?q ?o ?r ?m ?e ?t)] =>
    destruct (push_fits (be16 qt) bb c l a rs sec qd an ns ar q o r m e t) as (b2 & E2 & L2); try (rewrite ?be16_len; lia) end.
  rewrite E2. cbn [bind].
  match goal with |- context [try_push (be16 qc) (mkW ?bb ?c ?l ?a ?rs ?sec ?qd ?an ?ns ?ar ?q ?o ?r ?m ?e ?t)] =>
    destruct (push_fits (be16 qc) bb c l a rs sec qd an ns ar q o r m e t) as (b3 & E3 & L3); try (rewrite ?be16_len; lia) end.
  rewrite E3. cbn [bind]. rewrite !be16_len.
  exists b3, (option_map (fun p : nat => prior_new p n) (hp_new 12)). split; [reflexivity|lia].
Qed.

Lemma set_edns_q b c lim pr size : c + 11 <= lim ->
  set_edns size (q_state b c lim pr) =
  Ok (tt, mkW b c lim (lim - 11) c SecQuestion 1 0 0 1 pr None None Standard (Some (mkEdns size 0)) None).
Proof.
  intros H. unfold set_edns. cbn [w_edns q_state w_avail w_cursor w_ar]. change opt_record_size with 11.
  destruct (lim <? c + 11) eqn:E; [apply Nat.ltb_lt in E; lia|]. reflexivity.
Qed.

Definition first_limit (tcp : bool) (buf : bytes) : nat :=
  Nat.min (if tcp then tcp_limit_w else udp_limit_w) (length buf).

Lemma first_limit_ge tcp buf : 512 <= length buf -> 512 <= first_limit tcp buf.
Proof.
  intros H. unfold first_limit, tcp_limit_w, udp_limit_w. destruct tcp.
  - lia.
  - lia.
Qed.

Theorem prepare_total buf tcp id rd qname qtype qclass edns limit : 512 <= length buf -> length (nm_wire qname) <= 255 ->
  exists w, prepare_w buf tcp id rd qname qtype qclass edns limit = Some w.
Proof.
  intros Hb Hq. pose proof (first_limit_ge tcp buf Hb) as HL. unfold prepare_w.
  destruct (writer_new_hdr buf (if tcp then tcp_limit_w else udp_limit_w)) as (b0 & E0 & L0); [fold (first_limit tcp buf); lia|].
  fold (first_limit tcp buf) in E0. rewrite E0.
  assert (HLb : first_limit tcp buf <= length buf) by (unfold first_limit; lia).
  set (lim := first_limit tcp buf) in *.
  unfold set_id. destruct (hdr_write b0 lim (N.to_nat ID_START) (be16 id)) as (b1 & E1 & L1); [simpl; lia|lia|].
  rewrite E1. cbn [bind]. unfold set_qr, w_set_flag.
  destruct (hdr_modify b1 lim QR_BYTE (set_bit QR_MASK true)) as (b2 & E2 & L2); [simpl; lia|lia|]. rewrite E2. cbn [bind].
  unfold set_opcode.
  match goal with |- context [w_modify _ OPCODE_BYTE ?f] =>
    destruct (hdr_modify b2 lim OPCODE_BYTE f) as (b3 & E3 & L3); [simpl; lia|lia|] end.
  rewrite E3. cbn [bind]. unfold set_rd, w_set_flag.
  destruct (hdr_modify b3 lim RD_BYTE (set_bit RD_MASK rd)) as (b4 & E4 & L4); [simpl; lia|lia|]. rewrite E4.
  destruct (add_question_hdr b4 lim qname qtype qclass) as (b5 & pr & E5 & L5); [lia|lia|]. rewrite E5.
  destruct edns as [size|]; [|eexists; reflexivity].
  rewrite set_edns_q by lia. destruct tcp; [eexists; reflexivity|].
  match goal with |- context [MsgWriter.set_limit limit ?w] => assert (Hi : Inv_n w) end.
  { constructor; cbn; try (change header_size with 12); try lia. }
  match goal with |- context [MsgWriter.set_limit limit ?w] => destruct (set_limit_ok limit w Hi) as (nl & av & ->) end.
  eexists; reflexivity.
Qed.

(* ---------------------------------------------------------------- the preparation as a trace *)

Lemma w_write_no_err w pos data e : w_write w pos data <> Err e.
Proof. unfold w_write. destruct (buf_write _ _ _); discriminate. Qed.

Lemma w_write_qd w pos data w' : w_write w pos data = Ok w' -> w_qd w' = w_qd w.
Proof. intros H. apply w_write_inv in H as (b' & _ & ->). reflexivity. Qed.
Lemma w_modify_qd w i f w' : w_modify w i f = Ok w' -> w_qd w' = w_qd w.
Proof. unfold w_modify. destruct (nth_error _ _); [|discriminate]. apply w_write_qd. Qed.

Ltac okk H :=
  split; [first [exact I|assumption|auto]|split; [first [exact I|repeat split; auto]|split; [first [exact I|assumption|reflexivity]|exact H]]].

Section Prep.
Variable Pop : wop -> Prop.
Hypothesis Hpop_hdr : forall o, match o with
  | OSetId _ | OSetQr true | OSetOpcode _ | OSetRd _ | OAddQuestion _ _ _ | OSetEdns _ | OSetLimit _ => Pop o
  | _ => True end.

Theorem prepare_St buf tcp id rd qname qtype qclass edns limit w :
  prepare_w buf tcp id rd qname qtype qclass edns limit = Some w ->
  good_name qname -> (id < 65536)%N -> (qtype < 65536)%N -> (qclass < 65536)%N ->
  (forall s, edns = Some s -> (s < 65536)%N) ->
  exists w0 g, writer_new buf (if tcp then tcp_limit_w else udp_limit_w) = Ok w0 /\
               St Pop (mkD w0 []) g0 (mkD w []) g /\ g_q g = Some qname.
Proof.
  intros H [Gn1 Gn2] Hid Hqt Hqc Hed. unfold prepare_w in H.
  destruct (writer_new buf (if tcp then tcp_limit_w else udp_limit_w)) as [w0| |] eqn:E0; try discriminate.
  exists w0. set (d0 := mkD w0 []).
  assert (S0 : St Pop d0 g0 d0 g0).
  { exists [], [], L0. split; [constructor|]. apply (AInv_new _ _ _ E0). }
  assert (Hqd0 : w_qd w0 = 0%N).
  { unfold writer_new in E0. destruct (_ <? _); [discriminate|]. destruct (_ <? _); [discriminate|]. inversion E0. reflexivity. }
  destruct (set_id id w0) as [w1|e|] eqn:E1; cbn [bind] in H; try discriminate.
  destruct (set_qr true w1) as [w2|e|] eqn:E2; cbn [bind] in H; try discriminate.
  destruct (set_opcode 0 w2) as [w3|e|] eqn:E3; cbn [bind] in H; try discriminate.
  destruct (set_rd rd w3) as [w4|e|] eqn:E4; cbn [bind] in H; try discriminate.
  destruct (add_question qname qtype qclass w4) as [[u5 w5]|e|] eqn:E5; try discriminate.
  (* the five steps *)
  destruct (St_step Pop d0 g0 d0 g0 (OSetId id) S0) as (d1 & r1 & T1 & S1);
    [okk (Hpop_hdr (OSetId id))|exact I|reflexivity|].
  cbn [step d_w d0] in T1. rewrite E1 in T1. cbn [of_R] in T1. inversion T1; subst d1 r1. clear T1. cbn [gstep d_regs d0] in S1.
  destruct (St_step Pop d0 g0 _ _ (OSetQr true) S1) as (d2 & r2 & T2 & S2);
    [okk (Hpop_hdr (OSetQr true))|exact I|reflexivity|].
  cbn [step d_w] in T2. rewrite E2 in T2. cbn [of_R] in T2. inversion T2; subst d2 r2. clear T2. cbn [gstep d_regs] in S2.
  destruct (St_step Pop d0 g0 _ _ (OSetOpcode 0) S2) as (d3 & r3 & T3 & S3);
    [okk (Hpop_hdr (OSetOpcode 0))|exact I|reflexivity|].
  cbn [step d_w] in T3. rewrite E3 in T3. cbn [of_R] in T3. inversion T3; subst d3 r3. clear T3. cbn [gstep d_regs] in S3.
  destruct (St_step Pop d0 g0 _ _ (OSetRd rd) S3) as (d4 & r4 & T4 & S4);
    [okk (Hpop_hdr (OSetRd rd))|exact I|reflexivity|].
  cbn [step d_w] in T4. rewrite E4 in T4. cbn [of_R] in T4. inversion T4; subst d4 r4. clear T4. cbn [gstep d_regs] in S4.
  destruct (St_step Pop d0 g0 _ _ (OAddQuestion qname qtype qclass) S4) as (d5 & r5 & T5 & S5);
    [okk (Hpop_hdr (OAddQuestion qname qtype qclass))|exact I|reflexivity|].
  cbn [step d_w] in T5. rewrite E5 in T5. cbn [of_M] in T5. inversion T5; subst d5 r5. clear T5. cbn [d_regs] in S5.
  assert (Hqd4 : w_qd w4 = 0%N).
  { unfold set_id in E1. unfold set_qr, set_rd, w_set_flag, set_opcode in *.
    rewrite (w_modify_qd _ _ _ _ E4), (w_modify_qd _ _ _ _ E3), (w_modify_qd _ _ _ _ E2), (w_write_qd _ _ _ _ E1). exact Hqd0. }
  cbn [gstep d_w] in S5. rewrite Hqd4 in S5. cbn [N.eqb] in S5.
  destruct edns as [size|].
  2:{ inversion H; subst w5. eexists. split; [reflexivity|]. split; [exact S5|reflexivity]. }
  destruct (set_edns size w5) as [[u6 w6]|e|] eqn:E6; try discriminate.
  assert (Hsz : op_wf (OSetEdns size)) by exact (Hed size eq_refl).
  destruct (St_step Pop d0 g0 _ _ (OSetEdns size) S5) as (d6 & r6 & T6 & S6);
    [okk (Hpop_hdr (OSetEdns size))|exact I|reflexivity|].
  cbn [step d_w] in T6. rewrite E6 in T6. cbn [of_M] in T6. inversion T6; subst d6 r6. clear T6. cbn [gstep d_regs] in S6.
  destruct tcp.
  { inversion H; subst w6. eexists. split; [reflexivity|]. split; [exact S6|reflexivity]. }
  destruct (MsgWriter.set_limit limit w6) as [w7|e|] eqn:E7; try discriminate. inversion H; subst w7.
  destruct (St_step Pop d0 g0 _ _ (OSetLimit limit) S6) as (d7 & r7 & T7 & S7);
    [okk (Hpop_hdr (OSetLimit limit))|exact I|reflexivity|].
  cbn [step d_w] in T7. rewrite E7 in T7. cbn [of_R] in T7. inversion T7; subst d7 r7. clear T7. cbn [gstep d_regs] in S7.
  eexists. split; [reflexivity|]. split; [exact S7|reflexivity].
Qed.

End Prep.

(* ---------------------------------------------------------------- the whole response *)

Section Respond.
Variable req : N -> N -> bytes -> bytes -> bool.
Variable apex : name.
Variable cls : N.
Variable R : list record.
Variable z : zone.
Hypothesis Hinv : Inv req apex cls z R.
Variable PR : N -> bytes -> Prop.
Variable Pop : wop -> Prop.
Hypothesis HR : Forall (fun r => Pz PR (r_type r) (r_rdata r)) R.
Hypothesis Hapex : good_name apex.
Hypothesis Hclass : (cls < 65536)%N.
Hypothesis Hpop_rr : forall s hs owner ty ttl rd vec, PR ty rd -> Pop (OAddRr s hs owner ty (z_class z) ttl rd vec).
Hypothesis Hpop_rrset : forall s hs owner ty ttl rds vec, Forall (PR ty) rds -> Pop (OAddRrset s hs owner ty (z_class z) ttl rds vec).
Hypothesis Hpop_other : forall o, match o with
  | OSetId _ | OSetQr true | OSetOpcode _ | OSetRd _ | OAddQuestion _ _ _ | OSetEdns _ | OSetLimit _
  | OSetAa _ | OSetTc _ | OSetRcode _ | OClearRrs => Pop o
  | _ => True end.
Variable negttl : N -> N -> N.

Theorem respond_w_run buf tcp id rd qname qtype qclass edns limit :
  512 <= length buf -> good_name qname -> in_zone apex qname = true ->
  (id < 65536)%N -> (qtype < 65536)%N -> (qclass < 65536)%N -> (forall s, edns = Some s -> (s < 65536)%N) ->
  exists len b ops w0 rr,
    respond_w negttl buf tcp id rd qname qtype qclass edns limit z = Some (len, b) /\
    writer_new buf (if tcp then tcp_limit_w else udp_limit_w) = Ok w0 /\
    run_contract (mkD w0 []) g0 ops /\ Forall op_wf ops /\ Forall op_wf2 ops /\ Forall op_wf3 ops /\ Forall Pop ops /\
    run_writer buf (if tcp then tcp_limit_w else udp_limit_w) ops = Ok rr /\ rr_final rr = Some (len, b) /\
    length (rr_outcomes rr) = length ops.
Proof.
  intros Hb Gq Hz Hid Hqt Hqc Hed.
  destruct (prepare_total buf tcp id rd qname qtype qclass edns limit Hb (proj2 Gq)) as (w & Ew).
  assert (Hhdr : forall o, match o with
    | OSetId _ | OSetQr true | OSetOpcode _ | OSetRd _ | OAddQuestion _ _ _ | OSetEdns _ | OSetLimit _ => Pop o
    | _ => True end).
  { intros o. pose proof (Hpop_other o) as H. destruct o; auto. }
  destruct (prepare_St Pop Hhdr buf tcp id rd qname qtype qclass edns limit w Ew Gq Hid Hqt Hqc Hed) as (w0 & g & E0 & S & Hgq).
  destruct (handle_S req apex cls R z Hinv PR Pop HR Hapex Hclass Hpop_rr Hpop_rrset
              (fun b => Hpop_other (OSetAa b)) (fun b => Hpop_other (OSetTc b)) (fun rc => Hpop_other (OSetRcode rc))
              (Hpop_other OClearRrs) negttl (mkD w0 []) g0 qname Gq Hz qtype tcp (mkD w []) g S Hgq)
    as (w' & d' & g' & Eh & (ops & outs & L & HRe & Hi) & Hw').
  cbn [d_w] in Eh.
  destruct (finish_ok (fun x => x) d' g' L Hi) as (wF & LF & EF & _).
  destruct (Reach_run Pop _ _ _ _ _ _ HRe) as (Hrun & Hrc & F1 & F2 & F3 & F4 & Hlen).
  exists (w_cursor wF), (w_buf wF), ops, w0, (mkRR outs (d_regs d') (Some (w_cursor wF, w_buf wF))).
  split.
  - unfold respond_w. rewrite Ew, Eh. unfold finish. rewrite <- Hw', EF. reflexivity.
  - split; [exact E0|]. split; [exact Hrc|]. split; [exact F1|]. split; [exact F2|]. split; [exact F3|]. split; [exact F4|].
    split; [|split; [reflexivity|exact Hlen]].
    unfold run_writer, run_writer_gen. rewrite E0. cbn [bind]. rewrite Hrun. cbn [bind]. unfold finish. rewrite EF. reflexivity.
Qed.

End Respond.
