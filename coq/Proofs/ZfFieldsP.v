(* Field-level facts behind parse_ttl_and_class: the token languages of TTL, CLASS and TYPE are
   pairwise disjoint, so trying them in order is the unique reading (RFC 1035 section 5.1). *)
From QV Require Import Base.ListX Model.ZfStd.

Local Open Scope N_scope.

(* the first two octets, lower-cased, decide which language a token can belong to *)
Definition key (s : bytes) : bytes := map lower (firstn 2 s).

Lemma eq_ignore_case_map : forall a b, eq_ignore_case a b = true -> map lower a = map lower b.
Proof.
  induction a as [|x a IH]; intros [|y b] H; simpl in H; try discriminate; [reflexivity|].
  apply andb_true_iff in H. destruct H as [H1 H2]. apply N.eqb_eq in H1. simpl. rewrite H1, (IH b H2). reflexivity.
Qed.

Lemma bytes_eqb_eq : forall a b, bytes_eqb a b = true -> a = b.
Proof.
  induction a as [|x a IH]; intros [|y b] H; simpl in H; try discriminate; [reflexivity|].
  apply andb_true_iff in H. destruct H as [H1 H2]. apply N.eqb_eq in H1. rewrite H1, (IH b H2). reflexivity.
Qed.

Lemma bytes_eqb_refl : forall a, bytes_eqb a a = true.
Proof. induction a as [|x a IH]; simpl; [reflexivity|]. rewrite N.eqb_refl, IH. reflexivity. Qed.

Lemma key_of_lower a b : map lower a = map lower b -> key a = key b.
Proof. intros H. unfold key. rewrite <- !firstn_map, H. reflexivity. Qed.

Definition keys_of (tbl : list (bytes * N)) : list bytes := map (fun mv => key (fst mv)) tbl.

Lemma lookup_key caseless : forall tbl s v, lookup_mnemonic caseless tbl s = Some v -> In (key s) (keys_of tbl).
Proof.
  induction tbl as [|[m w] tbl IH]; intros s v H; simpl in H; [discriminate|].
  destruct (if caseless then eq_ignore_case s m else bytes_eqb s m) eqn:E.
  - left. simpl. destruct caseless.
    + symmetry. apply key_of_lower. apply eq_ignore_case_map. exact E.
    + apply bytes_eqb_eq in E. rewrite E. reflexivity.
  - right. eapply IH. exact H.
Qed.

Lemma sym_key caseless tbl prefix s v : (2 <= length prefix)%nat ->
  sym_from_str caseless tbl prefix s = inl v -> In (key s) (key prefix :: keys_of tbl).
Proof.
  intros Hp. unfold sym_from_str. destruct (lookup_mnemonic caseless tbl s) as [w|] eqn:E.
  - intros _. right. eapply lookup_key. exact E.
  - destruct ((length prefix <=? length s)%nat && eq_ignore_case (firstn (length prefix) s) prefix) eqn:E2; [|discriminate].
    intros _. left. apply andb_true_iff in E2. destruct E2 as [_ E2]. apply eq_ignore_case_map in E2.
    apply key_of_lower in E2. rewrite <- E2. unfold key. rewrite firstn_firstn.
    replace (Nat.min 2 (length prefix)) with 2%nat by lia. reflexivity.
Qed.

Definition class_keys : list bytes := key class_prefix :: keys_of class_mnemonics.
Definition type_keys : list bytes := key type_prefix :: keys_of type_mnemonics.

Definition starts_with_letter (k : bytes) : bool :=
  match k with c :: _ => (97 <=? c) && (c <=? 122) | [] => false end.

Lemma keys_letters : forallb starts_with_letter (class_keys ++ type_keys) = true.
Proof. vm_compute. reflexivity. Qed.

Lemma keys_disjoint_b : forallb (fun k => negb (existsb (bytes_eqb k) type_keys)) class_keys = true.
Proof. vm_compute. reflexivity. Qed.

Lemma keys_disjoint k : In k class_keys -> In k type_keys -> False.
Proof.
  intros Hc Ht. pose proof keys_disjoint_b as H. rewrite forallb_forall in H. specialize (H k Hc).
  apply negb_true_iff in H. assert (existsb (bytes_eqb k) type_keys = true); [|congruence].
  apply existsb_exists. exists k. split; [exact Ht|apply bytes_eqb_refl].
Qed.

Lemma class_key s c : class_from_str s = inl c -> In (key s) class_keys.
Proof. apply sym_key. vm_compute. lia. Qed.

Lemma type_key s t : type_from_str s = inl t -> In (key s) type_keys.
Proof. apply sym_key. vm_compute. lia. Qed.

Lemma uint_head max s v : parse_uint max s = inl v -> exists c t, s = c :: t /\ (is_digit c = true \/ c = 43).
Proof.
  unfold parse_uint. destruct s as [|c [|d t]]; [discriminate| |].
  - destruct ((c =? 43) || (c =? 45)) eqn:E; [discriminate|]. simpl.
    destruct (is_digit c) eqn:Ed; [eauto|discriminate].
  - destruct (c =? 43) eqn:E; [apply N.eqb_eq in E; eauto|]. simpl.
    destruct (is_digit c) eqn:Ed; [eauto|discriminate].
Qed.

Lemma number_key_not_letter s c t : s = c :: t -> (is_digit c = true \/ c = 43) -> starts_with_letter (key s) = false.
Proof.
  intros -> H. unfold key. destruct t as [|d t]; simpl.
  - destruct H as [H| ->]; [|reflexivity]. unfold is_digit in H. apply andb_true_iff in H. destruct H as [H1 H2].
    apply N.leb_le in H1. apply N.leb_le in H2. unfold lower.
    destruct ((65 <=? c) && (c <=? 90)) eqn:E; [apply andb_true_iff in E; destruct E as [E1 _]; apply N.leb_le in E1; lia|].
    destruct (97 <=? c) eqn:E3; [apply N.leb_le in E3; lia|reflexivity].
  - destruct H as [H| ->]; [|reflexivity]. unfold is_digit in H. apply andb_true_iff in H. destruct H as [H1 H2].
    apply N.leb_le in H1. apply N.leb_le in H2. unfold lower at 1.
    destruct ((65 <=? c) && (c <=? 90)) eqn:E; [apply andb_true_iff in E; destruct E as [E1 _]; apply N.leb_le in E1; lia|].
    destruct (97 <=? c) eqn:E3; [apply N.leb_le in E3; lia|reflexivity].
Qed.

Lemma number_not_symbol max s v : parse_uint max s = inl v -> ~ In (key s) (class_keys ++ type_keys).
Proof.
  intros H Hin. destruct (uint_head max s v H) as (c & t & Hs & Hc).
  pose proof (number_key_not_letter s c t Hs Hc) as Hn.
  pose proof keys_letters as HL. rewrite forallb_forall in HL. rewrite (HL _ Hin) in Hn. discriminate.
Qed.

Theorem fields_disjoint s :
  (forall v, parse_uint U32_MAX s = inl v ->
     (forall c, class_from_str s <> inl c) /\ (forall t, type_from_str s <> inl t)) /\
  (forall c, class_from_str s = inl c -> forall t, type_from_str s <> inl t).
Proof.
  split.
  - intros v Hv. pose proof (number_not_symbol _ _ _ Hv) as Hn. split.
    + intros c Hc. apply Hn. apply in_or_app. left. eapply class_key. exact Hc.
    + intros t Ht. apply Hn. apply in_or_app. right. eapply type_key. exact Ht.
  - intros c Hc t Ht. exact (keys_disjoint _ (class_key _ _ Hc) (type_key _ _ Ht)).
Qed.

(* a decimal escape denotes the octet it names *)
Lemma digits_value a b c : (a < 10 -> b < 10 -> c < 10 -> 100 * a + 10 * b + c < 256 ->
  100 * ((a + 48) - 48) + 10 * ((b + 48) - 48) + ((c + 48) - 48) = 100 * a + 10 * b + c)%N.
Proof. intros. lia. Qed.
