(* C32 — every trace of the cell model satisfies single_snapshot, for every schedule. *)
From Coq Require Import List Arith Bool Lia.
Import ListNotations.
From QV Require Import Model.Snapshot Spec.SnapshotS.

Section SnapP.
  Variables Req C K Resp : Type.
  Variable needs_keys : Req -> bool.
  Variable handle : Req -> C -> option K -> Resp.
  Variable ths : list (thread Req C K).
  Variables (c0 : C) (k0 : K).

  Notation ev := (event C K Resp).
  Notation st := (state Req C K).
  Notation stepf := (step Req C K Resp needs_keys handle).
  Notation execf := (exec Req C K Resp needs_keys handle).

  Definition req_of (t : nat) : option Req :=
    match nth_error ths t with Some (Handler req _) => Some req | _ => None end.

  (* ------------------------------------------------------------ lists *)
  Lemma nth_error_set_nth_eq {A} (l : list A) t x y :
    nth_error l t = Some y -> nth_error (set_nth l t x) t = Some x.
  Proof.
    revert t; induction l as [|z l IH]; intros [|t] H; simpl in *; try discriminate; auto.
  Qed.

  Lemma nth_error_set_nth_neq {A} (l : list A) t t' x :
    t <> t' -> nth_error (set_nth l t x) t' = nth_error l t'.
  Proof.
    revert t t'; induction l as [|z l IH]; intros [|t] [|t'] H; simpl; auto; try congruence.
  Qed.

  Lemma nth_error_snoc (tr : list ev) x e y :
    nth_error (tr ++ [x]) e = Some y ->
    (e < length tr /\ nth_error tr e = Some y) \/ (e = length tr /\ y = x).
  Proof.
    intros H. destruct (Nat.lt_ge_cases e (length tr)) as [Hlt|Hge].
    - left. rewrite nth_error_app1 in H by exact Hlt. auto.
    - right. rewrite nth_error_app2 in H by exact Hge.
      destruct (e - length tr) as [|d] eqn:E; simpl in H.
      + inversion H. split; [lia|reflexivity].
      + destruct d; discriminate.
  Qed.

  Lemma nth_error_snoc_old (tr : list ev) x e y :
    nth_error tr e = Some y -> nth_error (tr ++ [x]) e = Some y.
  Proof.
    intros H. rewrite nth_error_app1; [exact H|]. apply nth_error_Some. congruence.
  Qed.

  Lemma nth_error_snoc_last (tr : list ev) x : nth_error (tr ++ [x]) (length tr) = Some x.
  Proof. rewrite nth_error_app2 by lia. rewrite Nat.sub_diag. reflexivity. Qed.

  (* ------------------------------------------------------------ replayed cells *)
  Definition cat_upd (cell : nat * C) (e : ev) : nat * C :=
    match e with EWriteCat _ v c => (v, c) | _ => cell end.
  Definition keys_upd (cell : nat * K) (e : ev) : nat * K :=
    match e with EWriteKeys _ v k => (v, k) | _ => cell end.

  Lemma firstn_snoc_le {A} (l : list A) x n : n <= length l -> firstn n (l ++ [x]) = firstn n l.
  Proof.
    intros H. rewrite firstn_app. replace (n - length l) with 0 by lia. simpl. apply app_nil_r.
  Qed.

  Lemma cat_at_snoc_le (tr : list ev) x n : n <= length tr -> cat_at c0 (tr ++ [x]) n = cat_at c0 tr n.
  Proof. intros H. unfold cat_at. rewrite firstn_snoc_le by exact H. reflexivity. Qed.

  Lemma keys_at_snoc_le (tr : list ev) x n : n <= length tr -> keys_at k0 (tr ++ [x]) n = keys_at k0 tr n.
  Proof. intros H. unfold keys_at. rewrite firstn_snoc_le by exact H. reflexivity. Qed.

  Lemma cat_at_snoc_full (tr : list ev) x :
    cat_at c0 (tr ++ [x]) (S (length tr)) = cat_upd (cat_at c0 tr (length tr)) x.
  Proof.
    unfold cat_at. rewrite firstn_all2 by (rewrite app_length; simpl; lia).
    rewrite fold_left_app, firstn_all. reflexivity.
  Qed.

  Lemma keys_at_snoc_full (tr : list ev) x :
    keys_at k0 (tr ++ [x]) (S (length tr)) = keys_upd (keys_at k0 tr (length tr)) x.
  Proof.
    unfold keys_at. rewrite firstn_all2 by (rewrite app_length; simpl; lia).
    rewrite fold_left_app, firstn_all. reflexivity.
  Qed.

  Lemma cat_at_all (tr : list ev) x :
    cat_at c0 (tr ++ [x]) (length (tr ++ [x])) = cat_upd (cat_at c0 tr (length tr)) x.
  Proof. rewrite app_length. simpl. rewrite Nat.add_1_r. apply cat_at_snoc_full. Qed.

  Lemma keys_at_all (tr : list ev) x :
    keys_at k0 (tr ++ [x]) (length (tr ++ [x])) = keys_upd (keys_at k0 tr (length tr)) x.
  Proof. rewrite app_length. simpl. rewrite Nat.add_1_r. apply keys_at_snoc_full. Qed.

  (* ------------------------------------------------------------ reachable (trace, state) pairs *)
  Inductive reach : list ev -> st -> Prop :=
  | reach_init : reach [] (init ths c0 k0)
  | reach_step : forall tr s t e s', reach tr s -> stepf t s = Some (e, s') -> reach (tr ++ [e]) s'.

  Lemma exec_reach : forall sched tr0 s tr fin,
    reach tr0 s -> execf sched s = (tr, fin) -> reach (tr0 ++ tr) fin.
  Proof.
    induction sched as [|t sched IH]; intros tr0 s tr fin Hr He; simpl in He.
    - inversion He; subst. rewrite app_nil_r. exact Hr.
    - destruct (stepf t s) as [[e s']|] eqn:Hs.
      + destruct (execf sched s') as [tr' fin'] eqn:He'. inversion He; subst.
        replace (tr0 ++ e :: tr') with ((tr0 ++ [e]) ++ tr') by (rewrite <- app_assoc; reflexivity).
        eapply IH; [|exact He']. econstructor; eauto.
      + eapply IH; eauto.
  Qed.

  (* ------------------------------------------------------------ the invariant *)
  Definition thread_ok (tr : list ev) (t : nat) (th : thread Req C K) : Prop :=
    match th with
    | Handler req HNew => True
    | Handler req HStarted => exists s, nth_error tr s = Some (EStart t)
    | Handler req (HGotCat v c) =>
        exists s i, nth_error tr s = Some (EStart t) /\ s < i /\ i < length tr /\ cat_at c0 tr i = (v, c)
    | Handler req (HGotBoth v c vk k) =>
        needs_keys req = true /\
        exists s i j, nth_error tr s = Some (EStart t) /\ s < i /\ i < length tr /\ cat_at c0 tr i = (v, c) /\
                      s < j /\ j < length tr /\ keys_at k0 tr j = (vk, k)
    | Handler req HDone => True
    | Swapper _ (Some (true, v)) => exists w, w < length tr /\ fst (cat_at c0 tr (S w)) = v
    | Swapper _ _ => True
    end.

  Definition resp_core (tr : list ev) (e t : nat) (r : Resp) : Prop :=
    exists req s i,
      req_of t = Some req /\ nth_error tr s = Some (EStart t) /\ s < i /\ i < e /\
      (if needs_keys req
       then exists j, s < j /\ j < e /\ r = handle req (snd (cat_at c0 tr i)) (Some (snd (keys_at k0 tr j)))
       else r = handle req (snd (cat_at c0 tr i)) None).

  Record Inv (tr : list ev) (s : st) : Prop := {
    inv_cat : cat s = cat_at c0 tr (length tr);
    inv_keys : keys s = keys_at k0 tr (length tr);
    inv_writes : forall w t v c, nth_error tr w = Some (EWriteCat t v c) -> v = S (fst (cat_at c0 tr w));
    inv_threads : forall t th, nth_error (threads s) t = Some th -> thread_ok tr t th;
    inv_req : forall t req pc, nth_error (threads s) t = Some (Handler req pc) -> req_of t = Some req;
    inv_resp : forall e t r, nth_error tr e = Some (ERespond t r) -> e < length tr /\ resp_core tr e t r;
    inv_ret : forall q t v, nth_error tr q = Some (ERetCat t v) ->
              exists w, w < q /\ fst (cat_at c0 tr (S w)) = v
  }.

  Lemma thread_ok_lift tr x t th : thread_ok tr t th -> thread_ok (tr ++ [x]) t th.
  Proof.
    assert (Hlen : length (tr ++ [x]) = S (length tr)) by (rewrite app_length; simpl; lia).
    destruct th as [req [| |v c|v c vk k|]|ops [[[|] v]|]]; simpl; auto.
    - intros [s H]. exists s. apply nth_error_snoc_old; exact H.
    - intros (s & i & H1 & H2 & H3 & H4). exists s, i.
      rewrite Hlen, cat_at_snoc_le by lia. repeat split; auto using nth_error_snoc_old.
    - intros (Hk & s & i & j & H1 & H2 & H3 & H4 & H5 & H6 & H7). split; [exact Hk|]. exists s, i, j.
      rewrite Hlen, cat_at_snoc_le, keys_at_snoc_le by lia. repeat split; auto using nth_error_snoc_old.
    - intros (w & H1 & H2). exists w. rewrite Hlen, cat_at_snoc_le by lia. split; [lia|exact H2].
  Qed.

  Lemma resp_core_lift tr x e t r : e <= length tr -> resp_core tr e t r -> resp_core (tr ++ [x]) e t r.
  Proof.
    intros He (req & s & i & H1 & H2 & H3 & H4 & H5). exists req, s, i.
    rewrite cat_at_snoc_le by lia. repeat split; auto using nth_error_snoc_old.
    destruct (needs_keys req); [|exact H5].
    destruct H5 as (j & J1 & J2 & J3). exists j. rewrite keys_at_snoc_le by lia. auto.
  Qed.

  Hypothesis Hfresh : forallb fresh ths = true.

  Lemma inv_init : Inv [] (init ths c0 k0).
  Proof.
    constructor; simpl; auto.
    - intros w t v c H. destruct w; discriminate.
    - intros t th H. apply nth_error_In in H.
      rewrite forallb_forall in Hfresh. apply Hfresh in H.
      destruct th as [req [| |v c|v c vk k|]|ops [[[|] v]|]]; simpl in *; auto; discriminate.
    - intros t req pc H. unfold req_of. rewrite H. reflexivity.
    - intros e t r H. destruct e; discriminate.
    - intros q t v H. destruct q; discriminate.
  Qed.

  Lemma inv_snoc tr s e s' :
    Inv tr s ->
    cat s' = cat_upd (cat s) e -> keys s' = keys_upd (keys s) e ->
    (forall t v c, e = EWriteCat t v c -> v = S (fst (cat s))) ->
    (forall t' th, nth_error (threads s') t' = Some th -> thread_ok (tr ++ [e]) t' th) ->
    (forall t' req pc, nth_error (threads s') t' = Some (Handler req pc) -> req_of t' = Some req) ->
    (forall t r, e = ERespond t r -> resp_core (tr ++ [e]) (length tr) t r) ->
    (forall t v, e = ERetCat t v -> exists w, w < length tr /\ fst (cat_at c0 (tr ++ [e]) (S w)) = v) ->
    Inv (tr ++ [e]) s'.
  Proof.
    intros I Hc Hk Hw Ht Hq Hr Hret.
    assert (Hlen : length (tr ++ [e]) = S (length tr)) by (rewrite app_length; simpl; lia).
    constructor.
    - rewrite cat_at_all, Hc, (inv_cat _ _ I). reflexivity.
    - rewrite keys_at_all, Hk, (inv_keys _ _ I). reflexivity.
    - intros w t v c H. apply nth_error_snoc in H. destruct H as [[Hlt H]|[-> <-]].
      + rewrite cat_at_snoc_le by lia. eapply inv_writes; eauto.
      + rewrite cat_at_snoc_le by lia. rewrite <- (inv_cat _ _ I). eapply Hw; reflexivity.
    - exact Ht.
    - exact Hq.
    - intros q t r H. apply nth_error_snoc in H. destruct H as [[Hlt H]|[-> <-]].
      + split; [lia|]. apply resp_core_lift; [lia|]. eapply inv_resp; eauto.
      + split; [lia|]. eapply Hr; reflexivity.
    - intros q t v H. apply nth_error_snoc in H. destruct H as [[Hlt H]|[-> <-]].
      + destruct (inv_ret _ _ I q t v H) as (w & W1 & W2). exists w.
        rewrite cat_at_snoc_le by lia. auto.
      + destruct (Hret t v eq_refl) as (w & W1 & W2). exists w. auto.
  Qed.

  Lemma threads_set_ok tr s t th th' e :
    Inv tr s -> nth_error (threads s) t = Some th ->
    thread_ok (tr ++ [e]) t th' ->
    forall t' th0, nth_error (set_nth (threads s) t th') t' = Some th0 -> thread_ok (tr ++ [e]) t' th0.
  Proof.
    intros I Hth Hok t' th0 H. destruct (Nat.eq_dec t t') as [<-|Hne].
    - rewrite (nth_error_set_nth_eq _ _ _ _ Hth) in H. inversion H; subst. exact Hok.
    - rewrite nth_error_set_nth_neq in H by exact Hne. apply thread_ok_lift. eapply inv_threads; eauto.
  Qed.

  Lemma threads_set_req tr s t th th' :
    Inv tr s -> nth_error (threads s) t = Some th ->
    (forall req pc, th' = Handler req pc -> req_of t = Some req) ->
    forall t' req pc, nth_error (set_nth (threads s) t th') t' = Some (Handler req pc) -> req_of t' = Some req.
  Proof.
    intros I Hth Hr t' req pc H. destruct (Nat.eq_dec t t') as [<-|Hne].
    - rewrite (nth_error_set_nth_eq _ _ _ _ Hth) in H. inversion H; subst. eapply Hr; reflexivity.
    - rewrite nth_error_set_nth_neq in H by exact Hne. eapply inv_req; eauto.
  Qed.

  Lemma inv_step tr s t e s' : Inv tr s -> stepf t s = Some (e, s') -> Inv (tr ++ [e]) s'.
  Proof.
    intros I Hs. unfold step in Hs.
    assert (Hlen : length (tr ++ [e]) = S (length tr)) by (rewrite app_length; simpl; lia).
    destruct (nth_error (threads s) t) as [th|] eqn:Hth; [|discriminate].
    pose proof (inv_threads _ _ I t th Hth) as Hok.
    destruct th as [req pc|ops pending].
    - pose proof (inv_req _ _ I t req pc Hth) as Hreq.
      destruct pc as [| |v c|v c vk k|].
      + (* start *)
        inversion Hs; subst; clear Hs.
        apply (inv_snoc tr s _ _ I); simpl; try reflexivity; try (intros; discriminate).
        * eapply threads_set_ok; eauto. simpl. exists (length tr). apply nth_error_snoc_last.
        * eapply threads_set_req; eauto. intros r p H; inversion H; subst; exact Hreq.
      + (* read catalog *)
        destruct (cat s) as [v c] eqn:Hcat. inversion Hs; subst; clear Hs.
        apply (inv_snoc tr s _ _ I); simpl; try reflexivity; try (intros; discriminate); auto.
        * eapply threads_set_ok; eauto. simpl. simpl in Hok. destruct Hok as [s0 Hs0].
          exists s0, (length tr). rewrite Hlen, cat_at_snoc_le by lia.
          assert (s0 < length tr) by (apply nth_error_Some; congruence).
          repeat split; auto using nth_error_snoc_old; try lia.
          rewrite <- (inv_cat _ _ I). exact Hcat.
        * eapply threads_set_req; eauto. intros r p H; inversion H; subst; exact Hreq.
      + (* read keys or respond *)
        simpl in Hok. destruct Hok as (s0 & i & H1 & H2 & H3 & H4).
        destruct (needs_keys req) eqn:Hnk.
        * destruct (keys s) as [vk k] eqn:Hkeys. inversion Hs; subst; clear Hs.
          apply (inv_snoc tr s _ _ I); simpl; try reflexivity; try (intros; discriminate); auto.
          -- eapply threads_set_ok; eauto. simpl. split; [exact Hnk|].
             exists s0, i, (length tr). rewrite Hlen, cat_at_snoc_le, keys_at_snoc_le by lia.
             repeat split; auto using nth_error_snoc_old; try lia.
             rewrite <- (inv_keys _ _ I). exact Hkeys.
          -- eapply threads_set_req; eauto. intros r p H; inversion H; subst; exact Hreq.
        * inversion Hs; subst; clear Hs.
          apply (inv_snoc tr s _ _ I); simpl; try reflexivity; try (intros; discriminate); auto.
          -- eapply threads_set_ok; eauto; try (simpl; constructor).
          -- eapply threads_set_req; eauto. intros r p H; inversion H; subst; exact Hreq.
          -- intros t0 r H. inversion H; subst. exists req, s0, i.
             rewrite cat_at_snoc_le by lia. rewrite Hnk, H4. simpl.
             repeat split; auto using nth_error_snoc_old.
      + (* respond with keys *)
        simpl in Hok. destruct Hok as (Hnk & s0 & i & j & H1 & H2 & H3 & H4 & H5 & H6 & H7).
        inversion Hs; subst; clear Hs.
        apply (inv_snoc tr s _ _ I); simpl; try reflexivity; try (intros; discriminate); auto.
        * eapply threads_set_ok; eauto; try (simpl; constructor).
        * eapply threads_set_req; eauto. intros r p H; inversion H; subst; exact Hreq.
        * intros t0 r H. inversion H; subst. exists req, s0, i.
          rewrite cat_at_snoc_le by lia. rewrite Hnk, H4. simpl.
          repeat split; auto using nth_error_snoc_old.
          exists j. rewrite keys_at_snoc_le by lia. rewrite H7. simpl. auto.
      + discriminate.
    - destruct pending as [[[|] v]|].
      + (* set_catalog returns *)
        inversion Hs; subst; clear Hs. simpl in Hok. destruct Hok as (w & W1 & W2).
        apply (inv_snoc tr s _ _ I); simpl; try reflexivity; try (intros; discriminate); auto.
        * eapply threads_set_ok; eauto; try (simpl; constructor).
        * eapply threads_set_req; eauto. intros r p H; discriminate.
        * intros t0 v0 H. inversion H; subst. exists w. rewrite cat_at_snoc_le by lia. auto.
      + inversion Hs; subst; clear Hs.
        apply (inv_snoc tr s _ _ I); simpl; try reflexivity; try (intros; discriminate); auto.
        * eapply threads_set_ok; eauto; try (simpl; constructor).
        * eapply threads_set_req; eauto. intros r p H; discriminate.
      + destruct ops as [|[c|k] ops']; [discriminate| |].
        * (* write catalog *)
          inversion Hs; subst; clear Hs.
          apply (inv_snoc tr s _ _ I); simpl; try reflexivity; try (intros; discriminate); auto.
          -- intros t0 v c1 H. inversion H; subst. reflexivity.
          -- eapply threads_set_ok; eauto. simpl. exists (length tr). split; [lia|].
             rewrite cat_at_snoc_full. reflexivity.
          -- eapply threads_set_req; eauto. intros r p H; discriminate.
        * inversion Hs; subst; clear Hs.
          apply (inv_snoc tr s _ _ I); simpl; try reflexivity; try (intros; discriminate); auto.
          -- eapply threads_set_ok; eauto; try (simpl; constructor).
          -- eapply threads_set_req; eauto. intros r p H; discriminate.
  Qed.

  Lemma reach_inv tr s : reach tr s -> Inv tr s.
  Proof. induction 1; [apply inv_init|eapply inv_step; eauto]. Qed.

  (* versions only grow *)
  Lemma cat_at_S tr n e : nth_error tr n = Some e -> cat_at c0 tr (S n) = cat_upd (cat_at c0 tr n) e.
  Proof.
    intros H. unfold cat_at.
    assert (E : firstn (S n) tr = firstn n tr ++ [e]).
    { revert n H. induction tr as [|x tr IH]; intros [|n] H; simpl in *; try discriminate.
      - inversion H. reflexivity.
      - f_equal. apply IH. exact H. }
    rewrite E, fold_left_app. reflexivity.
  Qed.

  Lemma cat_version_mono tr s : Inv tr s -> forall i d, i + d <= length tr ->
    fst (cat_at c0 tr i) <= fst (cat_at c0 tr (i + d)).
  Proof.
    intros I i d. induction d as [|d IH]; intros H.
    - rewrite Nat.add_0_r. lia.
    - replace (i + S d) with (S (i + d)) by lia.
      destruct (nth_error tr (i + d)) as [e|] eqn:He.
      2:{ apply nth_error_None in He. lia. }
      rewrite (cat_at_S tr (i + d) e He).
      assert (IH' := IH ltac:(lia)).
      destruct e; simpl; try exact IH'.
      rewrite (inv_writes _ _ I _ _ _ _ He). simpl. lia.
  Qed.

  (* ------------------------------------------------------------ the theorems *)
  Lemma reach_single_snapshot tr s : reach tr s ->
    single_snapshot Req C K Resp needs_keys handle req_of c0 k0 tr.
  Proof.
    intros Hr. pose proof (reach_inv _ _ Hr) as I.
    intros e t r He. destruct (inv_resp _ _ I e t r He) as (Hlt & req & s0 & i & H1 & H2 & H3 & H4 & H5).
    exists req, s0, i. repeat split; auto.
    intros q u v Hq Hqs. destruct (inv_ret _ _ I q u v Hq) as (w & W1 & W2).
    rewrite <- W2. replace i with (S w + (i - S w)) by lia.
    eapply cat_version_mono; eauto. lia.
  Qed.

  Lemma exec_single_snapshot sched tr fin :
    execf sched (init ths c0 k0) = (tr, fin) ->
    single_snapshot Req C K Resp needs_keys handle req_of c0 k0 tr.
  Proof.
    intros H. eapply (reach_single_snapshot tr fin).
    change tr with ([] ++ tr). eapply exec_reach; [apply reach_init|exact H].
  Qed.
End SnapP.
