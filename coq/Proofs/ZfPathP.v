(* C25 — "relative include paths resolve against the including file's directory": compute_path
   (Path::parent + Path::join of Model/ZfFs.v) against the string-level reading of that sentence. *)
From QV Require Import Base.Res Base.Octets Base.ListX Model.ZfFs.

Local Open Scope N_scope.

Definition no_slash (b : bytes) : Prop := ~ In 47 b.

Lemma last_slash_none b : forall i acc, no_slash b -> last_slash b i acc = acc.
Proof.
  induction b as [|c b IH]; intros i acc H; [reflexivity|]. cbn [last_slash].
  assert (E : (c =? 47) = false) by (apply N.eqb_neq; intros ->; apply H; left; reflexivity).
  rewrite E. apply IH. intros Hin. apply H. right. exact Hin.
Qed.

Lemma last_slash_app a b : forall i acc, no_slash b ->
  last_slash (a ++ 47 :: b) i acc = Some (i + length a)%nat.
Proof.
  induction a as [|c a IH]; intros i acc H; cbn [app last_slash length].
  - rewrite N.eqb_refl, last_slash_none by exact H. f_equal. lia.
  - rewrite IH by exact H. f_equal. lia.
Qed.

(* a bare file name: the included path is taken as it is (relative to the working directory) *)
Lemma compute_path_bare base rel : base <> [] -> no_slash base -> compute_path base rel = Some rel.
Proof.
  intros Hne H. unfold compute_path, path_parent. destruct base as [|c b]; [congruence|].
  rewrite last_slash_none by exact H. unfold path_join. destruct rel as [|x r]; [reflexivity|].
  destruct (N.eq_dec x 47) as [->|Hx]; [reflexivity|].
  destruct x as [|px]; [reflexivity|]. repeat (destruct px as [px|px|]; try reflexivity); congruence.
Qed.

(* dir/base includes rel: rel itself when it is absolute, otherwise dir/rel *)
Lemma compute_path_in_dir dir base rel :
  dir <> [] -> last dir 0 <> 47 -> no_slash base ->
  compute_path (dir ++ 47 :: base) rel =
  Some (match rel with 47 :: _ => rel | _ => dir ++ 47 :: rel end)%list.
Proof.
  intros Hd Hl Hb. unfold compute_path, path_parent.
  destruct (dir ++ 47 :: base)%list as [|c0 t0] eqn:Ep; [destruct dir; discriminate|]. rewrite <- Ep.
  rewrite (last_slash_app dir base 0 None Hb). cbn [Nat.add].
  destruct (length dir) as [|n] eqn:El; [destruct dir; [congruence|discriminate]|].
  rewrite <- El, firstn_app, firstn_all, Nat.sub_diag. cbn [firstn]. rewrite app_nil_r.
  unfold path_join.
  assert (E : (last dir 0 =? 47) = false) by (apply N.eqb_neq; exact Hl).
  destruct rel as [|x r].
  - destruct dir; [congruence|]. rewrite E. reflexivity.
  - destruct (N.eq_dec x 47) as [->|Hx]; [reflexivity|].
    destruct x as [|px]; [destruct dir; [congruence|]; rewrite E; reflexivity|].
    repeat (destruct px as [px|px|]; try (destruct dir; [congruence|]; rewrite E; reflexivity)); congruence.
Qed.

(* the only paths without a parent are the empty path and "/" (neither can be opened as a file) *)
Lemma path_parent_none p : path_parent p = None <-> p = [] \/ p = [47].
Proof.
  unfold path_parent. destruct p as [|c t]; [split; auto|].
  split.
  - destruct (last_slash (c :: t) 0 None) as [[|i]|] eqn:E; try discriminate.
    destruct t; [|discriminate]. intros _. right. cbn [last_slash] in E.
    destruct (c =? 47) eqn:Ec; [apply N.eqb_eq in Ec; subst; reflexivity|discriminate].
  - intros [H|H]; [discriminate|]. inversion H; subst. reflexivity.
Qed.
