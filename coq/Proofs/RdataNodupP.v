(* What the specification function nodup_by (Spec/RdataEqS.v) means, for any equivalence:
   the result is a subsequence of the input (insertion order, nothing else), its members are
   pairwise unequal, every input has an equal member in it, and each member is the FIRST
   input of its class. *)
From QV Require Import Base.ListX Spec.RdataEqS.
Local Open Scope nat_scope.

Inductive subseq {A} : list A -> list A -> Prop :=
| ss_nil : subseq [] []
| ss_skip x k l : subseq k l -> subseq k (x :: l)
| ss_keep x k l : subseq k l -> subseq (x :: k) (x :: l).

(* later members differ from earlier ones (for a symmetric eq: pairwise unequal) *)
Inductive pairwise_ne (eq : bytes -> bytes -> bool) : list bytes -> Prop :=
| pn_nil : pairwise_ne eq []
| pn_cons x k : (forall y, In y k -> eq y x = false) -> pairwise_ne eq k -> pairwise_ne eq (x :: k).

Section Nodup.
  Variable eq : bytes -> bytes -> bool.
  Hypothesis eq_refl : forall a, eq a a = true.
  Hypothesis eq_trans : forall a b d, eq a b = true -> eq b d = true -> eq a d = true.

  Lemma existsb_false_all (x : bytes) seen :
    existsb (fun y => eq x y) seen = false -> forall s, In s seen -> eq x s = false.
  Proof.
    intros H s Hs. destruct (eq x s) eqn:E; [|reflexivity].
    assert (X : existsb (fun y => eq x y) seen = true) by (apply existsb_exists; eauto). congruence.
  Qed.

  Lemma nodup_subseq : forall l seen, subseq (nodup_by eq seen l) l.
  Proof.
    induction l as [|x r IH]; intros seen; cbn [nodup_by]; [constructor|].
    destruct (existsb (fun y => eq x y) seen); [apply ss_skip|apply ss_keep]; apply IH.
  Qed.

  Lemma nodup_not_seen : forall l seen y, In y (nodup_by eq seen l) ->
    forall s, In s seen -> eq y s = false.
  Proof.
    induction l as [|x r IH]; intros seen y Hy s Hs; cbn [nodup_by] in Hy; [contradiction|].
    destruct (existsb (fun z => eq x z) seen) eqn:E.
    - eapply IH; eauto.
    - destruct Hy as [<-|Hy]; [eapply existsb_false_all; eauto|].
      eapply IH; [exact Hy|]. apply in_or_app. left. exact Hs.
  Qed.

  Lemma nodup_pairwise : forall l seen, pairwise_ne eq (nodup_by eq seen l).
  Proof.
    induction l as [|x r IH]; intros seen; cbn [nodup_by]; [constructor|].
    destruct (existsb (fun z => eq x z) seen); [apply IH|].
    constructor; [|apply IH].
    intros y Hy. eapply nodup_not_seen; [exact Hy|]. apply in_or_app. right. left. reflexivity.
  Qed.

  Lemma nodup_cover : forall l seen x, In x l ->
    exists y, In y (seen ++ nodup_by eq seen l) /\ eq x y = true.
  Proof.
    induction l as [|a r IH]; intros seen x Hx; [contradiction|]. cbn [nodup_by].
    destruct (existsb (fun z => eq a z) seen) eqn:E.
    - destruct Hx as [<-|Hx]; [|apply IH; exact Hx].
      apply existsb_exists in E. destruct E as (y & Hy & Ey). exists y. split; [|exact Ey].
      apply in_or_app. left. exact Hy.
    - destruct Hx as [<-|Hx].
      + exists a. split; [|apply eq_refl]. apply in_or_app. right. left. reflexivity.
      + destruct (IH (seen ++ [a]) x Hx) as (y & Hy & Ey). exists y. split; [|exact Ey].
        rewrite <- app_assoc in Hy. exact Hy.
  Qed.

  Lemma nodup_first : forall l seen y, In y (nodup_by eq seen l) ->
    exists pre post, l = pre ++ y :: post /\ forall z, In z (seen ++ pre) -> eq y z = false.
  Proof.
    induction l as [|a r IH]; intros seen y Hy; cbn [nodup_by] in Hy; [contradiction|].
    destruct (existsb (fun z => eq a z) seen) eqn:E.
    - destruct (IH seen y Hy) as (pre & post & -> & F). exists (a :: pre), post. split; [reflexivity|].
      intros z Hz. apply in_app_or in Hz. destruct Hz as [Hz|[<-|Hz]].
      + apply F. apply in_or_app. left. exact Hz.
      + (* a equals a seen member s; y differs from s, hence from a *)
        apply existsb_exists in E. destruct E as (s & Hs & Es).
        destruct (eq y a) eqn:Y; [|reflexivity].
        assert (X : eq y s = true) by (eapply eq_trans; eauto).
        rewrite (F s) in X by (apply in_or_app; left; exact Hs). discriminate.
      + apply F. apply in_or_app. right. exact Hz.
    - destruct Hy as [<-|Hy].
      + exists [], r. split; [reflexivity|]. rewrite app_nil_r. apply existsb_false_all. exact E.
      + destruct (IH (seen ++ [a]) y Hy) as (pre & post & -> & F). exists (a :: pre), post.
        split; [reflexivity|]. intros z Hz. apply F. rewrite <- app_assoc. exact Hz.
  Qed.

  (* with nothing seen before *)
  Theorem nodup_by_meaning l :
    let k := nodup_by eq [] l in
    subseq k l /\ pairwise_ne eq k /\
    (forall x, In x l -> exists y, In y k /\ eq x y = true) /\
    (forall y, In y k -> exists pre post, l = pre ++ y :: post /\ forall z, In z pre -> eq y z = false).
  Proof.
    cbv zeta. split; [apply nodup_subseq|]. split; [apply nodup_pairwise|]. split.
    - intros x Hx. apply (nodup_cover l [] x Hx).
    - intros y Hy. apply (nodup_first l [] y Hy).
  Qed.
End Nodup.
