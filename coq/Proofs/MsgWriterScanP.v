(* The compression scan of write_compressed_unhinted_name: the lock-step invariant, and the
   specification of every name-writing function of the writer model. *)
From QV Require Import Base.ListX Model.MsgWriter Proofs.NameWireP Proofs.MsgWriterP.

Local Open Scope nat_scope.

(* ---------------------------------------------------------------- label / name equality *)

Definition lab_eq (cp : bool) (a b : bytes) : Prop := labels_equal cp a b = true.
Definition name_eq (cp : bool) (a b : list bytes) : Prop := Forall2 (lab_eq cp) a b.

Lemma bytes_eqb_refl a : bytes_eqb a a = true.
Proof. induction a as [|x a IH]; simpl; auto. rewrite N.eqb_refl. exact IH. Qed.

Lemma bytes_eqb_eq a : forall b, bytes_eqb a b = true -> a = b.
Proof.
  induction a as [|x a IH]; intros [|y b] H; simpl in H; try discriminate; auto.
  apply andb_true_iff in H as [H1 H2]. apply N.eqb_eq in H1. subst. f_equal. auto.
Qed.

Lemma lab_eq_refl cp a : lab_eq cp a a.
Proof. unfold lab_eq, labels_equal. destruct cp; apply bytes_eqb_refl. Qed.

Lemma name_eq_refl cp n : name_eq cp n n.
Proof. induction n; constructor; auto. apply lab_eq_refl. Qed.

Lemma lab_eq_weaken a b : lab_eq true a b -> lab_eq false a b.
Proof.
  unfold lab_eq, labels_equal. intros H. apply bytes_eqb_eq in H. subst. apply bytes_eqb_refl.
Qed.

Lemma name_eq_weaken cp a b : name_eq true a b -> name_eq cp a b.
Proof.
  destruct cp; auto. induction 1; constructor; auto. apply lab_eq_weaken; auto.
Qed.

Lemma name_eq_exact a b : name_eq true a b -> a = b.
Proof.
  induction 1 as [|x y a b H _ IH]; auto. f_equal; auto.
  unfold lab_eq, labels_equal in H. apply bytes_eqb_eq; auto.
Qed.

Lemma name_eq_length cp a b : name_eq cp a b -> length a = length b.
Proof. induction 1; simpl; auto. Qed.

(* ---------------------------------------------------------------- priors and scan contexts *)

Definition prior_ok (b : bytes) (c : nat) (pr : prior) : Prop :=
  0 < p_ptr pr /\ p_ptr pr <= pointer_max /\ real_at b (p_ptr pr) /\
  exists ls, name_at b c (p_ptr pr) ls /\ p_len pr = S (length ls).

Definition oprior_ok (b : bytes) (c : nat) (o : option prior) : Prop :=
  match o with Some pr => prior_ok b c pr | None => True end.

Lemma prior_ok_stable b c pr b' c' : prior_ok b c pr -> agree c b b' -> c <= c' -> prior_ok b' c' pr.
Proof.
  intros [H1 [H2 [H3 [ls [H4 H5]]]]] Ha Hle.
  destruct (name_at_lt _ _ _ _ H4) as [Hlt _].
  repeat split; auto.
  - eapply real_at_stable; eauto.
  - exists ls. split; auto. eapply name_at_stable; eauto.
Qed.

Lemma oprior_ok_stable b c o b' c' : oprior_ok b c o -> agree c b b' -> c <= c' -> oprior_ok b' c' o.
Proof. destruct o; simpl; auto. apply prior_ok_stable. Qed.

Definition ctx_ok (b : bytes) (cur : nat) (cp : bool) (done labs : list bytes) (x : pctx) : Prop :=
  real_at b (c_ptr x) /\
  (length done < c_start x -> c_match x = None) /\
  exists rem, name_at b cur (c_ptr x) rem /\
              length rem + (c_start x - length done) = length labs /\
              forall sc pp, c_match x = Some (sc, pp) ->
                sc <= length done /\ 0 < pp /\ pp <= pointer_max /\ real_at b pp /\
                exists pre, name_at b cur pp (pre ++ rem) /\ name_eq cp (skipn sc done) pre.

Definition octx_ok b cur cp done labs (o : option pctx) : Prop :=
  match o with Some x => ctx_ok b cur cp done labs x | None => True end.

Lemma hp_new_some c p : hp_new c = Some p -> p = c /\ 0 < c /\ c <= pointer_max.
Proof.
  unfold hp_new. destruct (c <=? pointer_max) eqn:E1; simpl; [|discriminate].
  destruct (c =? 0) eqn:E2; simpl; [discriminate|].
  intros H; inversion H; subst. apply Nat.leb_le in E1. apply Nat.eqb_neq in E2. lia.
Qed.

Lemma skipn_snoc {A} (l : list A) x k : k <= length l -> skipn k (l ++ [x]) = skipn k l ++ [x].
Proof.
  intros H. rewrite skipn_app. replace (k - length l) with 0 by lia. reflexivity.
Qed.

Lemma step_ctx_ok b cur cp done lab rest x :
  ctx_ok b cur cp done (lab :: rest) x ->
  exists x', step_ctx b cp (length done) lab x = Ok x' /\ ctx_ok b cur cp (done ++ [lab]) rest x'.
Proof.
  intros [Hr [Hnone [rem [Hn [Hlen Hm]]]]].
  unfold step_ctx. destruct (length done <? c_start x) eqn:E.
  - apply Nat.ltb_lt in E. exists x. split; auto.
    split; [exact Hr|]. split; [intros _; auto|].
    exists rem. split; [exact Hn|]. split.
    + rewrite app_length. simpl in *. lia.
    + intros sc pp Hs. rewrite (Hnone E) in Hs. discriminate.
  - apply Nat.ltb_ge in E.
    destruct rem as [|pl rem']; [simpl in Hlen; lia|].
    destruct (name_at_cons_real b cur _ pl rem' Hn Hr) as [len [E1 [H0 [H63 [Hc [Hpl Hn']]]]]].
    rewrite E1.
    destruct (name_at_lt _ _ _ _ Hn') as [_ Hlb].
    destruct (length b <? c_ptr x + 1 + N.to_nat len) eqn:E2; [apply Nat.ltb_lt in E2; lia|].
    destruct (move_ok b cur _ _ Hn') as [p2 [M1 [M2 [M3 _]]]]. rewrite M1. simpl.
    eexists. split; [reflexivity|].
    split; [exact M3|]. split; [simpl; rewrite app_length; simpl; intros; lia|].
    exists rem'. split; [exact M2|]. split; [simpl in *; rewrite app_length; simpl; lia|].
    simpl c_match. intros sc pp Hs.
    destruct (hp_new (c_ptr x)) as [pp0|] eqn:Eh; [|discriminate].
    destruct (labels_equal cp lab (slice b (c_ptr x + 1) (c_ptr x + 1 + N.to_nat len))) eqn:Eq; [|discriminate].
    apply hp_new_some in Eh as [-> [Hp0 Hpm]].
    destruct (c_match x) as [[sc0 pp1]|] eqn:Em.
    + inversion Hs; subst sc0 pp1.
      destruct (Hm sc pp eq_refl) as [A1 [A2 [A3 [A4 [pre [A5 A6]]]]]].
      split; [rewrite app_length; lia|]. repeat split; auto.
      exists (pre ++ [pl]). split.
      * rewrite <- app_assoc. exact A5.
      * rewrite skipn_snoc by lia. apply Forall2_app; auto.
        constructor; [|constructor]. unfold lab_eq. rewrite Hpl. exact Eq.
    + inversion Hs; subst sc pp.
      split; [rewrite app_length; lia|]. repeat split; auto.
      exists [pl]. split; [exact Hn|].
      rewrite skipn_app, skipn_all, Nat.sub_diag. simpl.
      constructor; [|constructor]. unfold lab_eq. rewrite Hpl. exact Eq.
Qed.

Lemma opt_step_ok b cur cp done lab rest o :
  octx_ok b cur cp done (lab :: rest) o ->
  exists o', opt_step b cp (length done) lab o = Ok o' /\ octx_ok b cur cp (done ++ [lab]) rest o'.
Proof.
  destruct o as [x|]; simpl; intros H.
  - destruct (step_ctx_ok _ _ _ _ _ _ _ H) as [x' [E H']]. rewrite E. simpl. exists (Some x'). auto.
  - exists None. auto.
Qed.

Lemma dedupe_ok b cur cp done labs cs :
  octx_ok b cur cp done labs (fst cs) -> octx_ok b cur cp done labs (snd cs) ->
  octx_ok b cur cp done labs (fst (dedupe cs)) /\ octx_ok b cur cp done labs (snd (dedupe cs)).
Proof.
  destruct cs as [[a|] [c|]]; simpl; intros H1 H2; auto.
  destruct (c_ptr a =? c_ptr c); simpl; auto.
  destruct (c_match a) as [[sa ?]|]; destruct (c_match c) as [[sb ?]|]; simpl; auto.
  destruct (sa <=? sb); simpl; auto.
Qed.

Lemma scan_ok b cur cp : forall labs done cs,
  octx_ok b cur cp done labs (fst cs) -> octx_ok b cur cp done labs (snd cs) ->
  exists cs', scan b cp (length done) labs cs = Ok cs'
              /\ octx_ok b cur cp (done ++ labs) [] (fst cs')
              /\ octx_ok b cur cp (done ++ labs) [] (snd cs').
Proof.
  induction labs as [|lab rest IH]; intros done cs H1 H2.
  - exists cs. simpl. rewrite app_nil_r. auto.
  - simpl. destruct (dedupe_ok _ _ _ _ _ cs H1 H2) as [D1 D2].
    destruct (dedupe cs) as [c0 c1]. simpl in D1, D2.
    destruct (opt_step_ok _ _ _ _ _ _ _ D1) as [c0' [E0 K0]]. rewrite E0. simpl.
    destruct (opt_step_ok _ _ _ _ _ _ _ D2) as [c1' [E1 K1]]. rewrite E1. simpl.
    specialize (IH (done ++ [lab]) (c0', c1') K0 K1).
    rewrite app_length in IH. simpl in IH. replace (length done + 1) with (S (length done)) in IH by lia.
    rewrite <- app_assoc in IH. exact IH.
Qed.

(* what a surviving match means at the end of the scan *)
Definition match_ok (b : bytes) (cur : nat) (cp : bool) (n : wname) (m : nat * nat) : Prop :=
  fst m <= length n /\ 0 < snd m /\ snd m <= pointer_max /\ real_at b (snd m) /\
  exists pre, name_at b cur (snd m) pre /\ name_eq cp (skipn (fst m) n) pre.

Lemma ctx_final b cur cp n o m : octx_ok b cur cp n [] o -> ctx_match o = Some m -> match_ok b cur cp n m.
Proof.
  destruct o as [x|]; simpl; [|discriminate].
  intros [_ [_ [rem [Hn [Hlen Hm]]]]] E. destruct m as [sc pp].
  destruct rem; [|simpl in Hlen; lia].
  destruct (Hm sc pp E) as [A1 [A2 [A3 [A4 [pre [A5 A6]]]]]].
  rewrite app_nil_r in A5. unfold match_ok. simpl. repeat split; auto. exists pre. auto.
Qed.

Lemma longest_ok b cur cp n cs m :
  octx_ok b cur cp n [] (fst cs) -> octx_ok b cur cp n [] (snd cs) ->
  longest_match cs = Some m -> match_ok b cur cp n m.
Proof.
  intros H1 H2. unfold longest_match.
  destruct (ctx_match (fst cs)) as [a|] eqn:Ea; destruct (ctx_match (snd cs)) as [c|] eqn:Ec;
    try discriminate.
  - destruct (fst c <? fst a); intros E; inversion E; subst.
    + eapply ctx_final; eauto.
    + eapply (ctx_final _ _ _ _ (fst cs)); eauto.
  - intros E; inversion E; subst. eapply (ctx_final _ _ _ _ (fst cs)); eauto.
  - intros E; inversion E; subst. eapply ctx_final; eauto.
Qed.

Lemma build_ctx_ok b cur cp n pr : prior_ok b cur pr ->
  exists x, build_prior_ctx b (nm_len n) pr = Ok x /\ ctx_ok b cur cp [] n x.
Proof.
  intros [H1 [H2 [H3 [ls [H4 H5]]]]]. unfold build_prior_ctx, nm_len. rewrite H5.
  destruct (S (length n) <? S (length ls)) eqn:E.
  - apply Nat.ltb_lt in E.
    destruct (skip_labels_ok b cur (S (length ls) - S (length n)) _ _ H4 H3 ltac:(lia)) as [p' [S1 [S2 S3]]].
    rewrite S1. simpl. eexists. split; [reflexivity|].
    split; [exact S3|]. split; [simpl; intros; lia|].
    eexists. split; [exact S2|]. split.
    + simpl. rewrite skipn_length. lia.
    + simpl. intros sc pp Hs. discriminate.
  - apply Nat.ltb_ge in E. simpl. eexists. split; [reflexivity|].
    split; [exact H3|]. split; [reflexivity|].
    exists ls. split; [exact H4|]. split; [simpl; lia|].
    simpl. intros sc pp Hs. discriminate.
Qed.

Lemma opt_build_ok b cur cp n o : oprior_ok b cur o ->
  exists o', opt_build b (nm_len n) o = Ok o' /\ octx_ok b cur cp [] n o'.
Proof.
  destruct o as [pr|]; simpl; intros H.
  - destruct (build_ctx_ok b cur cp n pr H) as [x [E K]]. rewrite E. simpl. exists (Some x). auto.
  - exists None. auto.
Qed.

(* the whole heuristic search: never panics, and a reported match is a real one *)
Lemma search_ok b cur cp n o1 o2 : oprior_ok b cur o1 -> oprior_ok b cur o2 ->
  exists cs, (let* c0 := opt_build b (nm_len n) o1 in
              let* c1 := opt_build b (nm_len n) o2 in
              scan b cp 0 n (c0, c1)) = Ok cs
             /\ forall m, longest_match cs = Some m -> match_ok b cur cp n m.
Proof.
  intros H1 H2.
  destruct (opt_build_ok b cur cp n o1 H1) as [c0 [E0 K0]]. rewrite E0. simpl.
  destruct (opt_build_ok b cur cp n o2 H2) as [c1 [E1 K1]]. rewrite E1. simpl.
  destruct (scan_ok b cur cp n [] (c0, c1) K0 K1) as [cs [E [F1 F2]]].
  simpl in E. exists cs. split; [exact E|].
  intros m Hm. eapply longest_ok; eauto.
Qed.
