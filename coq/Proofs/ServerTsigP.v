(* What the pre-scan of Model/Server.v guarantees about a response that carries TSIG settings: the numbers of
   the reservation (cursor = header + question, cursor + TSIG reservation + OPT reservation <= limit — the TSIG
   record was only reserved because it fits, set_tsig_or_truncate) and where the settings come from (the key
   name is the lower-cased owner the Reader parsed, the algorithm name the lower-cased first name of the RDATA
   or the canonical name of a known algorithm, the RDATA passed validate_as_tsig, the reserved length is
   PreparedTsigRr::unsigned_len / signed_len).  Proofs/ServerP.v keeps its invariant only up to the TSIG record;
   here it is carried through it. *)
From QV Require Import Base.ListX Model.NameWire Model.Reader Model.RdataLite Model.Server
  Proofs.NameWireP Proofs.ReaderP Proofs.RdataLiteP Proofs.ServerP Proofs.ServerNumP.
Local Open Scope nat_scope.

Definition qcur (w : resp) : nat :=
  match w_question w with Some q => 12 + (length (n_wire (q_name q)) + 4) | None => 12 end.

Definition badtime_extra (err : N) : nat := if (err =? XRC_BADTIME)%N then 6 else 0.

(* some call of the verifier accepted the MAC (verified, or BADTIME: the MAC is right, the time is not) *)
Definition signed_by (verify : tsig_verifier) : Prop :=
  exists rd o m a s n, verify rd o m a s n = VOk \/ verify rd o m a s n = VBadTime.

Definition tsig_src (verify : tsig_verifier) (t : tsig_out) : Prop :=
  let rd := t_request_rdata t in
  wf_bytes rd /\ validate_as_tsig rd = Ok tt /\
  (exists b c nm l, wf_bytes b /\ parse_compressed_name b c = Ok (nm, l) /\ t_key_wire t = lower_wire (n_wire nm)) /\
  match t_mode t with
  | TUnsigned aw =>
    (aw = lower_wire (firstn (tsig_alg_len rd) rd) \/ exists a, aw = alg_name_wire a) /\
    t_reserved t = length (t_key_wire t) + length aw + 26 /\ t_error t <> XRC_BADTIME
  | TResponse a _ mac =>
    signed_by verify /\ mac = tsig_mac rd /\
    t_reserved t = length (t_key_wire t) + length (alg_name_wire a) + 26 + badtime_extra (t_error t) + alg_output_size a
  end.

Definition tsig_post (verify : tsig_verifier) (w : resp) : Prop :=
  w_cursor w = qcur w /\
  match w_tsig w with
  | None => True
  | Some t => w_cursor w + t_reserved t + reserved w <= w_limit w /\ tsig_src verify t /\ (w_arcount w <= 2)%N
  end.

Lemma qcur_set_rcode w rc : qcur (set_rcode w rc) = qcur w. Proof. reflexivity. Qed.
Lemma qcur_set_tc w : qcur (set_tc w) = qcur w. Proof. reflexivity. Qed.

Lemma post_set_rcode verify w rc : tsig_post verify w -> tsig_post verify (set_rcode w rc).
Proof.
  intros [A B]. split; [exact A|]. cbn [set_rcode w_tsig]. destruct (w_tsig w) as [t|]; [|exact I].
  destruct B as (B1 & B2 & B3). split; [|split; assumption].
  unfold reserved in *. cbn [set_rcode w_edns w_cursor w_limit]. destruct (w_edns w) as [[sz up]|]; exact B1.
Qed.

Lemma post_notsig verify w : w_tsig w = None -> w_cursor w = qcur w -> tsig_post verify w.
Proof. intros E C. split; [exact C|]. rewrite E. exact I. Qed.

Lemma post_apply_body verify w b : tsig_post verify w -> tsig_post verify (apply_body w b).
Proof.
  intros P. unfold apply_body. destruct (b_rcode b) as [rc|].
  - apply (post_set_rcode verify w rc) in P. exact P.
  - exact P.
Qed.

(* the reservation on top of a state that satisfies the pre-scan's invariant *)
Lemma post_tsig_or_truncate verify cfg seen w rc t : srv_inv cfg seen w -> w_cursor w = qcur w -> tsig_src verify t ->
  tsig_post verify (fst (set_tsig_or_truncate (set_rcode w rc) t)).
Proof.
  intros I C S. pose proof (srv_inv_set_rcode cfg seen w rc I) as (A & B & Ct & D & E & F & G & H & J).
  unfold set_tsig_or_truncate, set_tsig. rewrite Ct.
  destruct (w_avail (set_rcode w rc) <? w_cursor (set_rcode w rc) + t_reserved t) eqn:X; cbn [fst].
  { apply post_notsig; [exact Ct|exact C]. }
  destruct (65535 <=? w_arcount (set_rcode w rc))%N eqn:Y; cbn [fst].
  { apply post_notsig; [exact Ct|exact C]. }
  apply Nat.ltb_ge in X. split; [exact C|]. cbn [w_tsig w_cursor w_limit w_arcount].
  split; [|split; [exact S|]].
  - unfold reserved in *. cbn [w_edns]. lia.
  - rewrite H. destruct (w_edns (set_rcode w rc)); lia.
Qed.

(* the TSIG record as the Reader delivers it *)
Lemma wf_bytes_firstn k (l : bytes) : wf_bytes l -> wf_bytes (firstn k l).
Proof. unfold wf_bytes. intros H. apply Forall_forall. intros x Hx. rewrite Forall_forall in H. apply H. eapply In_firstn; eauto. Qed.
Lemma wf_bytes_skipn' k (l : bytes) : wf_bytes l -> wf_bytes (skipn k l).
Proof. unfold wf_bytes. intros H. apply Forall_forall. intros x Hx. rewrite Forall_forall in H. apply H. eapply In_skipn; eauto. Qed.
Lemma wf_bytes_slice (l : bytes) a b : wf_bytes l -> wf_bytes (slice l a b).
Proof. intros H. unfold slice. apply wf_bytes_firstn, wf_bytes_skipn'. exact H. Qed.

Lemma peek_parse_tsig r p r' rr : rinv r -> peek_type r p = Ok TYPE_TSIG -> peek_parse rd_lite r p = (r', Ok rr) ->
  wf_bytes (rr_rdata rr) /\ validate_as_tsig (rr_rdata rr) = Ok tt /\
  exists l, parse_compressed_name (r_octets r) (r_cursor r) = Ok (rr_owner rr, l).
Proof.
  intros (Hwf & _) Ety H. unfold peek_parse, peek_owner in H. rewrite Ety in H.
  destruct (parse_compressed_name (r_octets r) (r_cursor r)) as [[nm l]|e|] eqn:P; cbn [lift_name map_err map_ok bind fst] in H;
    try (inv H; fail).
  destruct (peek_class r p) as [cl|e|]; cbn [bind] in H; try (inv H; fail).
  destruct (peek_rdlength r p) as [rl|e|]; cbn [bind] in H; try (inv H; fail).
  unfold rd_lite in H at 1. unfold prepare_rdata in H.
  destruct (length (r_octets r) <? p_owner_end p + 10 + N.to_nat rl); cbn [bind map_err] in H; try (inv H; fail).
  change (lite_unsupported cl TYPE_TSIG) with false in H. cbv iota in H.
  change ((TYPE_TSIG =? TYPE_A)%N) with false in H. change ((TYPE_TSIG =? TYPE_AAAA)%N) with false in H.
  change ((TYPE_TSIG =? TYPE_OPT)%N) with false in H. change ((TYPE_TSIG =? TYPE_TSIG)%N) with true in H.
  cbn [andb] in H. cbv iota in H.
  set (rd := slice (r_octets r) (p_owner_end p + 10) (p_owner_end p + 10 + N.to_nat rl)) in *.
  destruct (validate_as_tsig rd) as [[]|e|] eqn:V; cbn [bind map_err] in H; try (inv H; fail).
  destruct (peek_ttl r p) as [ttl|e|]; cbn [bind] in H; try (inv H; fail).
  inv H. cbn [rr_rdata rr_owner]. split; [apply wf_bytes_slice; exact Hwf|]. split; [exact V|]. exists l. reflexivity.
Qed.

(* ---------- one additional record ---------- *)
Lemma tsig_alg_len_val rd al : validate_uncompressed_name rd false = Ok al -> tsig_alg_len rd = al.
Proof. intros E. unfold tsig_alg_len. rewrite E. reflexivity. Qed.

Lemma pa_tsig verify cfg r w seen last r' s seen' : wf_cfg cfg -> rinv r -> srv_inv cfg seen w -> w_cursor w = qcur w ->
  process_additional verify cfg r w seen last = Ok (r', s, seen') ->
  match s with
  | Continue w' => tsig_post verify w' /\ (w_tsig w' = None -> srv_inv cfg seen' w') /\ (w_tsig w' <> None -> signed_by verify)
  | Return w' => tsig_post verify w'
  | Silent => True
  end.
Proof.
  intros Hcfg Hinv Iv C H.
  pose proof Iv as (_ & _ & Hts & _).
  assert (Pw : tsig_post verify w) by (apply post_notsig; assumption).
  (* the Continue half comes from the existing lemmas *)
  assert (HC : forall w', s = Continue w' -> w_tsig w' = None -> srv_inv cfg seen' w' /\ w_cursor w' = qcur w').
  { intros w' -> Hn. destruct (pa_continue_inv verify cfg r w seen last r' w' seen' Hcfg Hinv Iv H Hn) as [I' (K1 & _)].
    split; [exact I'|].
    destruct (process_additional_facts verify cfg r w seen last Hcfg Hinv Iv) as (r1 & s1 & seen1 & E & _ & RO).
    rewrite E in H. inv H. cbn [result_ok] in RO. destruct RO as ((_ & _ & _ & Q & _) & _).
    unfold qcur. rewrite Q, K1. exact C. }
  unfold process_additional, peek_rr in H.
  destruct (peek_core r) as [p|e|] eqn:P; [| inv H; apply post_set_rcode; exact Pw | discriminate].
  destruct (peek_type r p) as [ty|e|] eqn:Ety; cbn [bind] in H; try discriminate.
  destruct (ty =? TYPE_OPT)%N eqn:Topt.
  - (* OPT: no TSIG is set in this branch *)
    assert (G : forall w', w_tsig w' = None -> w_cursor w' = qcur w' -> tsig_post verify w') by (intros; apply post_notsig; assumption).
    destruct seen; [inv H; apply post_set_rcode; exact Pw|].
    destruct (set_edns_ok cfg w Iv) as (w1 & E1 & (_ & _ & _ & Q1 & _) & I1 & _). rewrite E1 in H.
    pose proof (set_edns_keepc cfg _ _ _ E1) as (K1 & _).
    pose proof I1 as (_ & _ & T1 & _).
    assert (C1 : w_cursor w1 = qcur w1) by (unfold qcur; rewrite Q1, K1; exact C).
    assert (P1 : tsig_post verify w1) by (apply G; assumption).
    destruct (peek_raw_ttl r p) as [raw|e|]; cbn [bind] in H; try discriminate.
    destruct (peek_parse rd_lite r p) as [r0 x]. destruct x as [opt_rr|e|]; try discriminate;
      [|inv H; apply post_set_rcode; exact P1].
    assert (HL : forall w2,
      (match c_transport cfg with
       | Udp => if (c_edns_size cfg <? 512)%N then Panic
                else match set_limit w1 (N.to_nat (N.max 512 (N.min (rr_class opt_rr) (c_edns_size cfg)))) with
                     | Ok w2 => Ok w2 | Err _ => Panic | Panic => Panic end
       | Tcp => Ok w1 end : res reader_err resp) = Ok w2 -> tsig_post verify w2 /\ w_tsig w2 = None).
    { intros w2. destruct (c_transport cfg); [intros X; inv X; auto|].
      destruct (_ <? _)%N; [discriminate|].
      destruct (set_limit w1 _) as [w2'|e|] eqn:E2; try discriminate. intros X; inv X.
      destruct (set_limit_same _ _ _ E2) as (L1 & _). pose proof (set_limit_core _ _ _ E2) as (_ & _ & _ & Q2 & _).
      assert (T2 : w_tsig w2 = None).
      { unfold set_limit in E2. destruct (_ <=? _); [destruct (_ <? _); [discriminate|]; inv E2; exact T1|].
        destruct (_ <? _); [discriminate|]. destruct (_ <? _); [discriminate|]. destruct (_ <? _); [discriminate|]. inv E2. exact T1. }
      split; [|exact T2]. apply G; [exact T2|]. unfold qcur. rewrite Q2, L1. exact C1. }
    destruct (match c_transport cfg with Udp => _ | Tcp => Ok w1 end) as [w2|e|] eqn:EL; cbn [bind] in H; try discriminate.
    destruct (HL w2 eq_refl) as (P2 & T2).
    destruct (validate_opt (rr_owner opt_rr) raw) as [rc|].
    + destruct (set_extended_rcode w2 rc) as [w3|e|] eqn:E3; try discriminate. inv H.
      unfold set_extended_rcode in E3. destruct (w_edns w2) as [[sz up]|] eqn:Ed; [|discriminate].
      destruct (4095 <? rc)%N; [discriminate|]. inv E3. destruct P2 as [A B]. split; [exact A|].
      cbn [w_tsig]. rewrite T2. exact I.
    + inv H. split; [exact P2|]. split; [intros Hn; exact (proj1 (HC _ eq_refl Hn))|intros Hn; contradiction].
  - destruct (ty =? TYPE_TSIG)%N eqn:Ttsig.
    + apply N.eqb_eq in Ttsig. subst ty.
      destruct last; cbn [negb] in H; [|inv H; apply post_set_rcode; exact Pw].
      destruct (message_to_cursor r) as [m|e|]; cbn [bind] in H; try discriminate.
      destruct (peek_parse rd_lite r p) as [r0 x] eqn:PP. destruct x as [rr|e|]; try discriminate;
        [|inv H; apply post_set_rcode; exact Pw].
      destruct (peek_parse_tsig r p r0 rr Hinv Ety PP) as (Wrd & Vrd & l & Pown).
      destruct (negb (rr_class rr =? CLASS_ANY)%N || negb (rr_ttl rr =? 0)%N); [inv H; apply post_set_rcode; exact Pw|].
      assert (Hkey : exists b c nm l, wf_bytes b /\ parse_compressed_name b c = Ok (nm, l) /\
                       lower_wire (n_wire (rr_owner rr)) = lower_wire (n_wire nm)).
      { exists (r_octets r), (r_cursor r), (rr_owner rr), l. split; [exact (proj1 Hinv)|]. split; [exact Pown|reflexivity]. }
      (* the three kinds of settings *)
      assert (SU1 : forall err, err <> XRC_BADTIME -> tsig_src verify (mkTsigOut (lower_wire (n_wire (rr_owner rr)))
                 (TUnsigned (lower_wire (firstn (tsig_alg_len (rr_rdata rr)) (rr_rdata rr)))) err
                 (length (lower_wire (n_wire (rr_owner rr))) + length (lower_wire (firstn (tsig_alg_len (rr_rdata rr)) (rr_rdata rr))) + 26 +
                  (if (err =? XRC_BADTIME)%N then 6 else 0)) (rr_rdata rr))).
      { intros err He. unfold tsig_src. cbn [t_request_rdata t_key_wire t_mode t_reserved t_error].
        split; [exact Wrd|]. split; [exact Vrd|]. split; [exact Hkey|]. split; [left; reflexivity|]. split; [|exact He].
        destruct (err =? XRC_BADTIME)%N eqn:X; [apply N.eqb_eq in X; contradiction|]. lia. }
      assert (SU2 : forall a err, err <> XRC_BADTIME -> tsig_src verify (mkTsigOut (lower_wire (n_wire (rr_owner rr)))
                 (TUnsigned (alg_name_wire a)) err
                 (length (lower_wire (n_wire (rr_owner rr))) + length (alg_name_wire a) + 26 +
                  (if (err =? XRC_BADTIME)%N then 6 else 0)) (rr_rdata rr))).
      { intros a err He. unfold tsig_src. cbn [t_request_rdata t_key_wire t_mode t_reserved t_error].
        split; [exact Wrd|]. split; [exact Vrd|]. split; [exact Hkey|]. split; [right; exists a; reflexivity|]. split; [|exact He].
        destruct (err =? XRC_BADTIME)%N eqn:X; [apply N.eqb_eq in X; contradiction|]. lia. }
      assert (SS : forall a sec err, signed_by verify -> tsig_src verify (mkTsigOut (lower_wire (n_wire (rr_owner rr)))
                 (TResponse a sec (tsig_mac (rr_rdata rr))) err
                 (length (lower_wire (n_wire (rr_owner rr))) + length (alg_name_wire a) + 26 +
                  (if (err =? XRC_BADTIME)%N then 6 else 0) + alg_output_size a) (rr_rdata rr))).
      { intros a sec err SB. unfold tsig_src. cbn [t_request_rdata t_key_wire t_mode t_reserved t_error].
        split; [exact Wrd|]. split; [exact Vrd|]. split; [exact Hkey|]. split; [exact SB|]. split; [reflexivity|]. reflexivity. }
      assert (N17 : XRC_BADKEY <> XRC_BADTIME) by discriminate.
      assert (N16 : XRC_BADVERSBADSIG <> XRC_BADTIME) by discriminate.
      destruct (alg_of_name _) as [alg|]; [|inv H; eapply post_tsig_or_truncate; [exact Iv|exact C|first [apply SU1; assumption|apply SU2; assumption|apply SS]]].
      destruct (find_key _ _ _) as [k|]; [|inv H; eapply post_tsig_or_truncate; [exact Iv|exact C|first [apply SU1; assumption|apply SU2; assumption|apply SS]]].
      destruct (verify _ _ _ _ _ _) eqn:Ev;
        try (assert (SB : signed_by verify) by (do 6 eexists; first [left; exact Ev|right; exact Ev]));
        inv H; try (eapply post_tsig_or_truncate; [exact Iv|exact C|first [apply SU1; assumption|apply SU2; assumption|apply SS; exact SB]]; fail).
      match goal with |- context [set_tsig_or_truncate ?a ?b] => pose proof (post_tsig_or_truncate verify cfg _ w 0%N b Iv C (SS _ _ _ SB)) as PT end.
      match goal with |- context [if snd ?x then _ else _] => destruct (snd x) eqn:Sn end; [|exact PT].
      split; [exact PT|]. split; [|intros _; exact SB]. intros Hn. exfalso.
      match goal with E : snd (set_tsig_or_truncate ?a ?b) = true |- _ => exact (tsig_or_truncate_tsig a b E Hn) end.
    + inv H. split; [exact Pw|]. split; [intros _; exact Iv|intros Hn; contradiction].
Qed.

(* ---------- the scans ---------- *)
Lemma scan_additional_tsig verify cfg : wf_cfg cfg -> forall n r w seen r' s,
  rinv r -> srv_inv cfg seen w -> w_cursor w = qcur w ->
  scan_additional verify cfg n r w seen = Ok (r', s) ->
  match s with
  | Continue w' => tsig_post verify w' /\ (w_tsig w' <> None -> signed_by verify)
  | Return w' => tsig_post verify w'
  | Silent => True
  end.
Proof.
  intros Hcfg. induction n as [|n IH]; intros r w seen r' s Hinv Iv C H; cbn [scan_additional] in H.
  - inv H. destruct Iv as (_ & _ & X & _). split; [apply post_notsig; [exact X|exact C]|intros Hn; contradiction].
  - destruct (process_additional_facts verify cfg r w seen (n =? 0) Hcfg Hinv Iv) as (r1 & s1 & seen1 & E & Hinv1 & RO).
    pose proof (pa_tsig verify cfg r w seen (n =? 0) r1 s1 seen1 Hcfg Hinv Iv C E) as PT.
    rewrite E in H. cbn [bind] in H. destruct s1 as [w1|w1|]; [|inv H; exact PT|inv H; exact I].
    destruct PT as (P1 & S1 & SB1). cbn [result_ok] in RO. destruct RO as (_ & [I1|L1] & _).
    + apply (IH r1 w1 seen1 r' s Hinv1 I1 (proj1 P1) H).
    + apply Nat.eqb_eq in L1. subst n. cbn [scan_additional] in H. inv H. split; [exact P1|exact SB1].
Qed.

Lemma prescan_rest_tsig verify cfg r1 w1 p : wf_cfg cfg -> rinv r1 -> srv_inv cfg false w1 -> w_cursor w1 = qcur w1 ->
  prescan_rest verify cfg r1 w1 = Ok p ->
  match p with
  | PEarly w => tsig_post verify w
  | PClean _ w => tsig_post verify w /\ (w_tsig w <> None -> signed_by verify)
  | PNone => True
  end.
Proof.
  intros Hcfg Hinv1 I1 C1 H. unfold prescan_rest in H. cbv zeta in H.
  assert (P1 : tsig_post verify w1) by (apply post_notsig; [destruct I1 as (_ & _ & X & _); exact X|exact C1]).
  destruct (rd_ancount (rd_mark r1)) as [an|e|]; cbn [bind] in H; try discriminate.
  destruct (rd_nscount (rd_mark r1)) as [ns|e|]; cbn [bind] in H; try discriminate.
  destruct (scan_an_ns_facts (N.to_nat an + N.to_nat ns) (rd_mark r1) w1 (rd_mark_inv r1 Hinv1)) as (r2 & s2 & E2 & Hinv2 & _ & D2).
  rewrite E2 in H. cbn [bind] in H.
  destruct D2 as [-> | ->]; [|inv H; apply post_set_rcode; exact P1].
  destruct (rd_arcount r2) as [ar|e|]; cbn [bind] in H; try discriminate.
  destruct (scan_additional verify cfg (N.to_nat ar) r2 w1 false) as [[r3 s3]|e|] eqn:E3; cbn [bind] in H; try discriminate.
  pose proof (scan_additional_tsig verify cfg Hcfg _ _ _ _ _ _ Hinv2 I1 C1 E3) as P3.
  destruct s3 as [w3|w3|]; [|inv H; exact P3|inv H; exact I].
  destruct (negb (at_eom r3)); [inv H; apply post_set_rcode; exact (proj1 P3)|].
  destruct (rd_rewind r3) as [r4 x]. destruct x as [u|e|]; try discriminate.
  destruct (rd_opcode r4) as [opc|e|]; cbn [bind] in H; try discriminate. inv H. exact P3.
Qed.

Theorem prescan_tsig verify cfg req p : wf_cfg cfg -> wf_bytes req -> prescan verify cfg req = Ok p ->
  match p with
  | PEarly w => tsig_post verify w
  | PClean _ w => tsig_post verify w /\ (w_tsig w <> None -> signed_by verify)
  | PNone => True
  end.
Proof.
  intros Hcfg Hwf H. pose proof Hcfg as (H512 & H64k & Hbuf).
  unfold prescan in H. destruct (c_buflen cfg <? _) eqn:Eb; [discriminate|]. clear Eb.
  destruct (le_lt_dec 12 (length req)) as [H12|Hshort].
  2:{ unfold reader_new in H. change header_size with 12 in H.
      destruct (12 <=? length req) eqn:E; [apply Nat.leb_le in E; lia|]. inv H. exact I. }
  rewrite (reader_new_r0 req H12) in H. set (r0 := r0_of req) in *. pose proof (r0_inv req Hwf H12) as Hinv0. fold r0 in Hinv0.
  destruct (rd_qr r0) as [qr|e|]; cbn [bind] in H; try discriminate. destruct qr; [inv H; exact I|].
  destruct (rd_id r0) as [id|e|]; cbn [bind] in H; try discriminate.
  destruct (rd_opcode r0) as [opc|e|]; cbn [bind] in H; try discriminate.
  destruct (rd_rd r0) as [rdf|e|]; cbn [bind] in H; try discriminate.
  unfold initial_resp in H. change header_size with 12 in H.
  set (limit := Nat.min (match c_transport cfg with Tcp => tcp_limit | Udp => udp_limit end) (c_buflen cfg)) in H.
  assert (Hlim : 512 <= limit /\ limit <= c_buflen cfg).
  { unfold limit, tcp_limit, udp_limit in *. destruct (c_transport cfg); lia. }
  destruct (limit <? 12) eqn:El; [discriminate|]. cbn [bind] in H.
  match type of H with context [prescan_rest verify cfg r0 ?x] => set (w0 := x) in H end.
  assert (I0 : srv_inv cfg false w0).
  { unfold srv_inv, edns_ok, reserved, w0; simpl. repeat split; auto; try lia; try discriminate.
    all: try (intros X; exfalso; apply X; reflexivity). }
  assert (C0 : w_cursor w0 = qcur w0) by reflexivity.
  assert (P0 : tsig_post verify w0) by (apply post_notsig; [reflexivity|exact C0]).
  destruct (rd_qdcount r0) as [qd|e|]; cbn [bind] in H; try discriminate.
  destruct (qd =? 0)%N; [exact (prescan_rest_tsig verify cfg r0 w0 p Hcfg Hinv0 I0 C0 H)|].
  destruct (qd =? 1)%N; [|inv H; exact I].
  destruct (read_question r0) as [r1 x] eqn:RQ. destruct x as [q|e|]; try discriminate;
    [|inv H; apply post_set_rcode; exact P0].
  destruct (read_question_wire_bound r0 r1 q Hinv0 RQ) as [Hwire Hinv1].
  unfold add_question in H. cbn [w_avail w_cursor w0] in H.
  destruct (limit <? 12) eqn:X1; [discriminate|].
  destruct (limit - 12 <? length (n_wire (q_name q))) eqn:X2; [apply Nat.ltb_lt in X2; lia|].
  destruct (limit - (12 + length (n_wire (q_name q))) <? 4) eqn:X3; [apply Nat.ltb_lt in X3; lia|].
  match type of H with prescan_rest verify cfg r1 ?x = _ => set (w1 := x) in H end.
  assert (I1 : srv_inv cfg false w1).
  { unfold srv_inv, edns_ok, reserved, w1, w0; simpl. repeat split; auto; try lia; try discriminate.
    all: try (intros X; exfalso; apply X; reflexivity). }
  exact (prescan_rest_tsig verify cfg r1 w1 p Hcfg Hinv1 I1 eq_refl H).
Qed.
