(* Under which hypothesis on the cursor Rdata::read is total over a bounded usize:
   exactly when cursor + RDLENGTH fits a usize; in particular for every cursor inside
   a message held in memory. *)
From QV Require Import Base.ListX Spec.NameWireS Model.RdataM Model.RdataUsz Spec.RdataFormatS
  Proofs.RdNameP Proofs.RdataFormatSP Proofs.RdataVP Proofs.RdataRP.
Local Open Scope nat_scope.

(* every arm of Rdata::read starts by evaluating prepare_to_read_rdata *)
Theorem read_starts_with_prepare c t msg cur rdlen :
  read c t msg cur rdlen =
  let* _ := prepare_to_read_rdata msg cur rdlen in read c t msg cur rdlen.
Proof.
  unfold read. destruct (lookup read_arms read_default c t) as [d|v].
  - destruct d; cbn [run_reader];
      unfold read_name_rdata, read_ch_a, read_soa, read_minfo, read_mx, read_in_srv, read_fixed_then_name;
      destruct (prepare_to_read_rdata msg cur rdlen); reflexivity.
  - unfold without_decompression. destruct (prepare_to_read_rdata msg cur rdlen); reflexivity.
Qed.

Lemma prepare_usz_fits umax msg cur rdlen : (N.of_nat cur + rdlen <= umax)%N ->
  prepare_to_read_rdata_usz umax msg cur rdlen = prepare_to_read_rdata msg cur rdlen.
Proof.
  intros H. unfold prepare_to_read_rdata_usz, uadd_usize, prepare_to_read_rdata.
  destruct (umax <? N.of_nat cur + rdlen)%N eqn:X; [apply N.ltb_lt in X; lia|]. reflexivity.
Qed.

Lemma prepare_usz_overflow umax msg cur rdlen : (umax < N.of_nat cur + rdlen)%N ->
  prepare_to_read_rdata_usz umax msg cur rdlen = Panic.
Proof.
  intros H. unfold prepare_to_read_rdata_usz, uadd_usize.
  destruct (umax <? N.of_nat cur + rdlen)%N eqn:X; [reflexivity|]. apply N.ltb_ge in X. lia.
Qed.

(* when the sum fits, the bounded-usize code IS the nat model *)
Theorem read_usz_fits umax c t msg cur rdlen : (N.of_nat cur + rdlen <= umax)%N ->
  read_usz umax c t msg cur rdlen = read c t msg cur rdlen.
Proof.
  intros H. unfold read_usz. rewrite (prepare_usz_fits umax msg cur rdlen H).
  symmetry. apply read_starts_with_prepare.
Qed.

(* the ONLY panic of Rdata::read: the overflow of cursor + RDLENGTH *)
Theorem read_usz_panic_iff umax c t msg cur rdlen : wf_bytes msg -> (rdlen < 65536)%N ->
  (read_usz umax c t msg cur rdlen = Panic <-> (umax < N.of_nat cur + rdlen)%N).
Proof.
  intros Hwf Hlen. split.
  - intros P. destruct (N.ltb_spec umax (N.of_nat cur + rdlen)) as [L|L]; [exact L|]. exfalso.
    rewrite (read_usz_fits umax c t msg cur rdlen L) in P.
    destruct (read_total c t msg cur rdlen Hwf Hlen) as (NP & _). contradiction.
  - intros L. unfold read_usz. rewrite (prepare_usz_overflow umax msg cur rdlen L). reflexivity.
Qed.

(* total for every cursor inside a message held in memory: a slice is at most
   isize::MAX octets long and isize::MAX + 65535 <= usize::MAX *)
Theorem read_usz_in_message umax imax c t msg cur rdlen :
  wf_bytes msg -> (rdlen < 65536)%N ->
  (N.of_nat (length msg) <= imax)%N -> (imax + 65535 <= umax)%N -> cur <= length msg ->
  read_usz umax c t msg cur rdlen = read c t msg cur rdlen /\
  read_usz umax c t msg cur rdlen <> Panic.
Proof.
  intros Hwf Hlen Hm Hu Hc.
  assert (F : (N.of_nat cur + rdlen <= umax)%N) by lia.
  split; [apply read_usz_fits; exact F|].
  rewrite (read_usz_fits umax c t msg cur rdlen F). apply (read_total c t msg cur rdlen Hwf Hlen).
Qed.
