(* The digest encoding of RFC 8945 4.3 is injective on the covered fields (for equal lengths of
   the variable-length components that carry no length prefix). *)
From QV Require Import Base.ListX Model.TsigMsg Spec.Tsig8945S Spec.TsigRepr Proofs.TsigEncP.

Lemma app_inv_len {A} : forall (a a' b b' : list A), length a = length a' -> a ++ b = a' ++ b' -> a = a' /\ b = b'.
Proof.
  induction a as [|x a IH]; intros [|y a'] b b' L H; simpl in *; try discriminate.
  - split; [reflexivity|exact H].
  - inversion H; subst. inversion L as [L']. destruct (IH a' b b' L' H2) as [-> ->]. split; reflexivity.
Qed.

Lemma u16_app_inv a a' (b b' : bytes) : (a < 65536)%N -> (a' < 65536)%N ->
  u16 a ++ b = u16 a' ++ b' -> a = a' /\ b = b'.
Proof.
  intros Ha Ha' H. apply app_inv_len in H; [|rewrite !(be_enc_length 2); reflexivity].
  destruct H as [H1 H2]. split; [apply u16_inj; assumption|exact H2].
Qed.

Lemma u48_app_inv a a' (b b' : bytes) : (a < 281474976710656)%N -> (a' < 281474976710656)%N ->
  u48 a ++ b = u48 a' ++ b' -> a = a' /\ b = b'.
Proof.
  intros Ha Ha' H. apply app_inv_len in H; [|rewrite !(be_enc_length 6); reflexivity].
  destruct H as [H1 H2]. split; [apply u48_inj; assumption|exact H2].
Qed.

Lemma prior_mac_inv (pm pm' x x' : bytes) :
  (N.of_nat (length pm) < 65536)%N -> (N.of_nat (length pm') < 65536)%N ->
  comp_prior_mac pm ++ x = comp_prior_mac pm' ++ x' -> pm = pm' /\ x = x'.
Proof.
  intros L L' H. unfold comp_prior_mac in H. rewrite <- !app_assoc in H.
  apply u16_app_inv in H; try assumption. destruct H as [Hl H].
  apply app_inv_len in H; [exact H|]. apply Nat2N.inj. exact Hl.
Qed.

(* the message component: everything but the transmitted ID is determined *)
Lemma comp_message_inv m m' oid oid' (x x' : bytes) :
  wf_smsg m -> wf_smsg m' -> (oid < 65536)%N -> (oid' < 65536)%N ->
  length (m_body m) = length (m_body m') ->
  comp_message m oid ++ x = comp_message m' oid' ++ x' ->
  oid = oid' /\ m_flags m = m_flags m' /\ m_qd m = m_qd m' /\ m_an m = m_an m' /\ m_ns m = m_ns m' /\
  m_ar m = m_ar m' /\ m_body m = m_body m' /\ x = x'.
Proof.
  intros [(F & Q & An & Ns & Ar) _] [(F' & Q' & An' & Ns' & Ar') _] Ho Ho' Lb H.
  unfold comp_message, smsg_wire in H. rewrite <- !app_assoc in H.
  apply u16_app_inv in H; try assumption. destruct H as [-> H].
  apply u16_app_inv in H; try assumption. destruct H as [E1 H].
  apply u16_app_inv in H; try assumption. destruct H as [E2 H].
  apply u16_app_inv in H; try assumption. destruct H as [E3 H].
  apply u16_app_inv in H; try assumption. destruct H as [E4 H].
  apply u16_app_inv in H; try lia. destruct H as [E5 H].
  apply app_inv_len in H; [|exact Lb]. destruct H as [E6 E7].
  repeat split; assumption.
Qed.

Lemma comp_timers_inv t t' :
  (t_time t < 281474976710656)%N -> (t_time t' < 281474976710656)%N -> (t_fudge t < 65536)%N -> (t_fudge t' < 65536)%N ->
  comp_timers t = comp_timers t' -> t_time t = t_time t' /\ t_fudge t = t_fudge t'.
Proof.
  intros T T' F F' H. unfold comp_timers in H.
  apply u48_app_inv in H; try assumption. destruct H as [E1 H].
  rewrite <- (app_nil_r (u16 (t_fudge t))), <- (app_nil_r (u16 (t_fudge t'))) in H.
  apply u16_app_inv in H; try assumption. destruct H as [E2 _]. split; assumption.
Qed.

Lemma comp_variables_inv t t' : wf_stsig t -> wf_stsig t' ->
  length (canon_wire (t_key t)) = length (canon_wire (t_key t')) ->
  length (canon_wire (t_alg t)) = length (canon_wire (t_alg t')) ->
  comp_variables t = comp_variables t' ->
  canon_wire (t_key t) = canon_wire (t_key t') /\ canon_wire (t_alg t) = canon_wire (t_alg t') /\
  t_time t = t_time t' /\ t_fudge t = t_fudge t' /\ t_error t = t_error t' /\ t_other t = t_other t'.
Proof.
  intros (_ & _ & (T & F & _ & E) & _ & _ & _ & Lo & _) (_ & _ & (T' & F' & _ & E') & _ & _ & _ & Lo' & _) LK LA H.
  unfold comp_variables in H.
  apply app_inv_len in H; [|exact LK]. destruct H as [E1 H].
  apply u16_app_inv in H; try lia. destruct H as [_ H].
  apply app_inv_len in H; [|reflexivity]. destruct H as [_ H].
  apply app_inv_len in H; [|exact LA]. destruct H as [E2 H].
  apply u48_app_inv in H; try assumption. destruct H as [E3 H].
  apply u16_app_inv in H; try assumption. destruct H as [E4 H].
  apply u16_app_inv in H; try assumption. destruct H as [E5 H].
  apply u16_app_inv in H; try assumption. destruct H as [_ E6].
  repeat split; assumption.
Qed.

(* the covered fields, per mode *)
Definition covered_msg (m : smsg) (t : stsig) :=
  (t_orig_id t, m_flags m, m_qd m, m_an m, m_ns m, m_ar m, m_body m).
Definition covered_vars (t : stsig) :=
  (canon_wire (t_key t), canon_wire (t_alg t), t_time t, t_fudge t, t_error t, t_other t).
Definition covered_timers (t : stsig) := (t_time t, t_fudge t).

Definition same_mode (d d' : dmode) : Prop :=
  match d, d' with
  | DRequest, DRequest | DResponse _, DResponse _ | DSubsequent _, DSubsequent _ => True
  | _, _ => False
  end.

Theorem digest_injective d d' m m' t t' :
  same_mode d d' -> wf_smsg m -> wf_smsg m' -> wf_stsig t -> wf_stsig t' ->
  (N.of_nat (length (dmode_mac d)) < 65536)%N -> (N.of_nat (length (dmode_mac d')) < 65536)%N ->
  length (m_body m) = length (m_body m') ->
  length (canon_wire (t_key t)) = length (canon_wire (t_key t')) ->
  length (canon_wire (t_alg t)) = length (canon_wire (t_alg t')) ->
  spec_digest d m t = spec_digest d' m' t' ->
  dmode_mac d = dmode_mac d' /\ covered_msg m t = covered_msg m' t' /\
  match d with
  | DSubsequent _ => covered_timers t = covered_timers t'
  | _ => covered_vars t = covered_vars t'
  end.
Proof.
  intros S Wm Wm' Wt Wt' Ld Ld' Lb LK LA H.
  pose proof Wt as (_ & _ & (T & F & O & E) & _).
  pose proof Wt' as (_ & _ & (T' & F' & O' & E') & _).
  destruct d as [|rm|pm]; destruct d' as [|rm'|pm']; try contradiction; cbn [spec_digest dmode_mac] in *.
  - destruct (comp_message_inv m m' _ _ _ _ Wm Wm' O O' Lb H) as (e0 & e1 & e2 & e3 & e4 & e5 & e6 & Hv).
    destruct (comp_variables_inv t t' Wt Wt' LK LA Hv) as (v1 & v2 & v3 & v4 & v5 & v6).
    unfold covered_msg, covered_vars. rewrite e0, e1, e2, e3, e4, e5, e6, v1, v2, v3, v4, v5, v6. auto.
  - apply prior_mac_inv in H; try assumption. destruct H as [-> H].
    destruct (comp_message_inv m m' _ _ _ _ Wm Wm' O O' Lb H) as (e0 & e1 & e2 & e3 & e4 & e5 & e6 & Hv).
    destruct (comp_variables_inv t t' Wt Wt' LK LA Hv) as (v1 & v2 & v3 & v4 & v5 & v6).
    unfold covered_msg, covered_vars. rewrite e0, e1, e2, e3, e4, e5, e6, v1, v2, v3, v4, v5, v6. auto.
  - apply prior_mac_inv in H; try assumption. destruct H as [-> H].
    destruct (comp_message_inv m m' _ _ _ _ Wm Wm' O O' Lb H) as (e0 & e1 & e2 & e3 & e4 & e5 & e6 & Hv).
    destruct (comp_timers_inv t t' T T' F F' Hv) as (v3 & v4).
    unfold covered_msg, covered_timers. rewrite e0, e1, e2, e3, e4, e5, e6, v3, v4. auto.
Qed.

(* Hence: if any covered field differs, the MAC inputs differ; with a MAC function that has no
   collision on these two inputs (the cryptographic assumption, for the truncation length used),
   a MAC valid for one is not valid for the other. *)
Corollary tamper_changes_digest d d' m m' t t' :
  same_mode d d' -> wf_smsg m -> wf_smsg m' -> wf_stsig t -> wf_stsig t' ->
  (N.of_nat (length (dmode_mac d)) < 65536)%N -> (N.of_nat (length (dmode_mac d')) < 65536)%N ->
  length (m_body m) = length (m_body m') ->
  length (canon_wire (t_key t)) = length (canon_wire (t_key t')) ->
  length (canon_wire (t_alg t)) = length (canon_wire (t_alg t')) ->
  (dmode_mac d <> dmode_mac d' \/ covered_msg m t <> covered_msg m' t' \/
   match d with DSubsequent _ => covered_timers t <> covered_timers t' | _ => covered_vars t <> covered_vars t' end) ->
  spec_digest d m t <> spec_digest d' m' t'.
Proof.
  intros S Wm Wm' Wt Wt' Ld Ld' Lb LK LA Hdiff H.
  destruct (digest_injective d d' m m' t t' S Wm Wm' Wt Wt' Ld Ld' Lb LK LA H) as (E1 & E2 & E3).
  destruct Hdiff as [N|[N|N]]; [exact (N E1)|exact (N E2)|].
  destruct d; exact (N E3).
Qed.

Section Tamper.
Variable mac_fn : salg -> bytes -> bytes -> bytes.

(* a tampered message is rejected with BADSIG (or FORMERR), never accepted *)
Theorem tamper_rejected d d' m m' t t' a key now :
  same_mode d d' -> wf_smsg m -> wf_smsg m' -> wf_stsig t -> wf_stsig t' ->
  (N.of_nat (length (dmode_mac d)) < 65536)%N -> (N.of_nat (length (dmode_mac d')) < 65536)%N ->
  length (m_body m) = length (m_body m') ->
  length (canon_wire (t_key t)) = length (canon_wire (t_key t')) ->
  length (canon_wire (t_alg t)) = length (canon_wire (t_alg t')) ->
  (* the original verifies, the received one carries the same MAC field ... *)
  mac_matches mac_fn d m t a key -> t_mac t' = t_mac t ->
  (* ... but differs in a covered field *)
  (dmode_mac d <> dmode_mac d' \/ covered_msg m t <> covered_msg m' t' \/
   match d with DSubsequent _ => covered_timers t <> covered_timers t' | _ => covered_vars t <> covered_vars t' end) ->
  (* cryptographic assumption, for exactly these two inputs and this truncation length *)
  (forall x y, x <> y -> x = spec_digest d m t -> y = spec_digest d' m' t' ->
     firstn (length (t_mac t)) (mac_fn a key x) <> firstn (length (t_mac t)) (mac_fn a key y)) ->
  spec_verify mac_fn d' m' t' a key now = SFormErr \/ spec_verify mac_fn d' m' t' a key now = SBadSig.
Proof.
  intros S Wm Wm' Wt Wt' Ld Ld' Lb LK LA Hok Hmac Hdiff Hcr.
  pose proof (tamper_changes_digest d d' m m' t t' S Wm Wm' Wt Wt' Ld Ld' Lb LK LA Hdiff) as Hne.
  unfold spec_verify. destruct (mac_len_okb a (length (t_mac t'))); cbn [negb]; [|left; reflexivity].
  right.
  destruct (octets_eqb (t_mac t') (firstn (length (t_mac t')) (mac_fn a key (spec_digest d' m' t')))) eqn:E;
    cbn [negb]; [|reflexivity].
  exfalso. apply octets_eqb_eq in E. rewrite Hmac in E. unfold mac_matches in Hok.
  apply (Hcr _ _ Hne eq_refl eq_refl). rewrite <- Hok, <- E. reflexivity.
Qed.
End Tamper.
