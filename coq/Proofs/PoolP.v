(* [Inv] holds in every reachable state of the repaired LTS; the safety half of C29
   (exactly once, await_shutdown, rejection after shutdown, no usize underflow). *)
From Coq Require Import Lia Permutation.
From QV Require Import Model.Pool Spec.PoolS Proofs.PoolLemmas Proofs.PoolInv
  Proofs.PoolStepA Proofs.PoolStepB Proofs.PoolStepC Proofs.PoolStepD Proofs.PoolStepE.

Theorem inv_step s l s' : Inv s -> step true s l = Some s' -> Inv s'.
Proof.
  intros I H. destruct l.
  - (* LSubmit *)
    simpl in H. unfold sub_enter in H.
    destruct (nth_error (thr s) i) as [pi|] eqn:E; [|discriminate].
    destruct pi as [[|[] r]| |r| | | | | | | | | | | | | | | | | | |]; try discriminate.
    + eapply inv_submit_section; [exact I | exact E | left; eexists; reflexivity | left; reflexivity | exact H].
    + eapply inv_submit_section; [exact I | exact E | right; reflexivity | left; reflexivity | exact H].
  - (* LSos *)
    simpl in H. unfold sos_enter in H.
    destruct (nth_error (thr s) i) as [pi|] eqn:E; [|discriminate].
    destruct pi as [[|[] r]| | | | | | | | | | | | | | | | | | | | |]; try discriminate.
    eapply inv_submit_section; [exact I | exact E | left; eexists; reflexivity | right; reflexivity | exact H].
  - eapply inv_spawn; eassumption.
  - (* LWork *)
    destruct (nth_error (thr s) i) as [pi|] eqn:E; [|simpl in H; rewrite E in H; discriminate].
    destruct pi; try (simpl in H; rewrite E in H; discriminate).
    + eapply inv_work_top; eassumption.
    + eapply inv_work_wake; eassumption.
  - eapply inv_task_done; eassumption.
  - eapply inv_drop; eassumption.
  - eapply inv_sdg; eassumption.
  - eapply inv_sdp; eassumption.
  - eapply inv_psd1; eassumption.
  - eapply inv_psd2; eassumption.
  - eapply inv_await; eassumption.
  - eapply inv_spurious; eassumption.
  - eapply inv_timer; eassumption.
Qed.

Lemma sumf_init w l : forallb init_pc l = true ->
  (forall p, init_pc p = true -> w p = 0) -> sumf w l = 0.
Proof.
  intros H Hw. apply sumf_all_zero. intros p Hp.
  apply Hw. rewrite forallb_forall in H. apply H; exact Hp.
Qed.

Lemma cnt_filter f l : cnt f l = length (filter f l).
Proof. induction l as [|p r IH]; simpl; [reflexivity|]. destruct (f p); simpl; rewrite IH; reflexivity. Qed.

Lemma cnt_live_init l : forallb init_pc l = true -> cnt is_live l = cnt is_perm_idle l.
Proof.
  induction l as [|p r IH]; simpl; intros H; [reflexivity|].
  apply andb_true_iff in H; destruct H as [H1 H2]. rewrite (IH H2).
  destruct p as [| | | |[]| | | | | | | | | | | | | | | | |]; simpl in *; try discriminate; reflexivity.
Qed.

Theorem inv_init s : initial s -> Inv s.
Proof.
  intros (lg & ths & Hall & ->). unfold init_state.
  assert (Z : forall w, (forall p, init_pc p = true -> w p = 0) -> sumf w ths = 0)
    by (intros w Hw; apply sumf_init; assumption).
  constructor; simpl; intros; try discriminate; try reflexivity.
  - rewrite cnt_live_init by exact Hall. symmetry; apply cnt_filter.
  - rewrite Z; [lia|]. intros []; simpl; intros; try discriminate; reflexivity.
  - rewrite Z; [lia|]. intros []; simpl; intros; try discriminate; reflexivity.
  - lia.
  - rewrite Z; [reflexivity|]. intros []; simpl; intros; try discriminate; reflexivity.
  - rewrite Z; [reflexivity|]. intros []; simpl; intros; try discriminate; reflexivity.
  - rewrite Z; [reflexivity|]. intros []; simpl; intros; try discriminate; reflexivity.
  - rewrite Z in H; [lia|]. intros []; simpl; intros; try discriminate; reflexivity.
Qed.

Theorem inv_run ls : forall s s', Inv s -> run true s ls = Some s' -> Inv s'.
Proof.
  induction ls as [|l r IH]; simpl; intros s s' I H.
  - inversion H; subst; exact I.
  - destruct (step true s l) as [s1|] eqn:E; [|discriminate].
    eapply IH; [eapply inv_step; eassumption | exact H].
Qed.

Theorem inv_reachable s : reachable true s -> Inv s.
Proof.
  intros (s0 & ls & H0 & Hr). eapply inv_run; [apply inv_init; exact H0 | exact Hr].
Qed.

(* ---- from the arithmetic invariant to the statements of Spec/PoolS.v -------------- *)

Lemma occ_running l t : occ (flat_map run_of l) t = sumf (occ_run t) l.
Proof.
  induction l as [|p r IH]; simpl; [reflexivity|].
  rewrite occ_app, IH. reflexivity.
Qed.

Lemma occ_seq n t : occ (seq 0 n) t = b2n (t <? n).
Proof.
  induction n as [|n IH]; [reflexivity|].
  rewrite seq_S, occ_app, IH, occ_cons, occ_nil; simpl.
  destruct (Nat.ltb_spec t n), (Nat.ltb_spec t (S n)), (Nat.eqb_spec n t); simpl; lia.
Qed.

Theorem exactly_one_place_inv s : Inv s -> exactly_one_place s.
Proof.
  intros I. unfold exactly_one_place, accepted, running.
  apply (Permutation_count_occ Nat.eq_dec). intros t.
  change (occ (queue s ++ flat_map run_of (thr s) ++ done s) t = occ (seq 0 (next s)) t).
  rewrite !occ_app, occ_running, occ_seq. pose proof (i_tasks s I t). lia.
Qed.

Theorem never_twice_inv s : Inv s -> never_twice s.
Proof.
  intros I. unfold never_twice, running. split.
  - apply (NoDup_count_occ Nat.eq_dec). intros t.
    change (occ (started s) t <= 1).
    pose proof (i_started s I t). pose proof (i_tasks s I t).
    destruct (t <? next s); simpl in *; lia.
  - apply (Permutation_count_occ Nat.eq_dec). intros t.
    change (occ (started s) t = occ (flat_map run_of (thr s) ++ done s) t).
    rewrite occ_app, occ_running. apply (i_started s I t).
Qed.

Lemma nth_cnt_pos f l i p : nth_error l i = Some p -> f p = true -> 1 <= cnt f l.
Proof.
  intros E Hf. pose proof (sumf_nth_le (fun p => b2n (f p)) l i p E) as H.
  cbn beta in H. rewrite Hf in H. exact H.
Qed.

Lemma cnt_zero_all f l : cnt f l = 0 -> forall p, In p l -> f p = false.
Proof.
  intros H p Hp. pose proof (sumf_zero_all _ _ H p Hp) as Hz. cbn beta in Hz.
  destruct (f p); [discriminate | reflexivity].
Qed.

Theorem await_ok_inv s : Inv s -> await_ok s.
Proof.
  intros I (i & E).
  pose proof (nth_cnt_pos is_awret _ _ _ E eq_refl) as Hpos.
  destruct (i_awret s I Hpos) as [Hg Ht].
  pose proof (i_live s I) as Hl. rewrite Ht in Hl. symmetry in Hl.
  assert (Hnl : forall p, In p (thr s) -> is_live p = false) by (apply cnt_zero_all; exact Hl).
  assert (Hrun : forall t, sumf (occ_run t) (thr s) = 0).
  { intros t. apply sumf_all_zero. intros p Hp. specialize (Hnl p Hp).
    destruct p; try discriminate; reflexivity. }
  assert (Hq : queue s = []).
  { pose proof (i_queue s I) as Hq.
    assert (Hw : cnt is_wwoken (thr s) = 0).
    { apply sumf_all_zero. intros p Hp. specialize (Hnl p Hp). destruct p; try discriminate; reflexivity. }
    destruct (queue s); [reflexivity | simpl in Hq; lia]. }
  assert (Hr : running s = []).
  { unfold running. destruct (flat_map run_of (thr s)) as [|t r] eqn:Ef; [reflexivity|].
    pose proof (occ_running (thr s) t) as Ho. rewrite Ef, Hrun, occ_cons, Nat.eqb_refl in Ho. simpl in Ho; lia. }
  split; [|split; [exact Hq | split; [exact Hr | split; [exact Ht | exact Hnl]]]].
  pose proof (exactly_one_place_inv s I) as P. unfold exactly_one_place in P.
  rewrite Hq, Hr in P. exact P.
Qed.

Theorem no_crash_inv s : Inv s -> crashed s = false.
Proof. apply i_crash. Qed.

(* ---- rejection: a property of single steps, for both variants of the loop ---------- *)

Theorem rejects_after_shutdown_all fx : rejects_after_shutdown fx.
Proof.
  intros s l o s' Hp Hl H.
  destruct l; simpl in Hl; try discriminate; inversion Hl; subst o0; clear Hl; simpl in H.
  - destruct (sub_enter s i) as [r|]; [|discriminate].
    unfold submit_section in H. rewrite Hp in H.
    destruct o; try discriminate. inversion H; subst s'; simpl; auto.
  - destruct (sos_enter s i) as [r|]; [|discriminate].
    unfold submit_section in H. rewrite Hp in H.
    destruct o; try discriminate. inversion H; subst s'; simpl; auto.
Qed.

Lemma next_end_thread s : next (end_thread s) = next s.
Proof.
  unfold end_thread. destruct (tcount s); [reflexivity|].
  destruct (gsd s && (n =? 0)); reflexivity.
Qed.

Lemma next_dec_avail s : next (dec_avail s) = next s.
Proof. unfold dec_avail. destruct (avail s); reflexivity. Qed.

Theorem closed_after_shutdown_all fx : closed_after_shutdown fx.
Proof.
  intros s l s' Hp Hg H.
  destruct l; simpl in H.
  - destruct (sub_enter s i) as [r|]; [|discriminate].
    unfold submit_section in H. rewrite Hp in H. destruct o; try discriminate. inversion H; reflexivity.
  - destruct (sos_enter s i) as [r|]; [|discriminate].
    unfold submit_section in H. rewrite Hp in H. destruct o; try discriminate. inversion H; reflexivity.
  - destruct (glock s); [discriminate|].
    destruct (nth_error (thr s) i) as [[]|]; try discriminate.
    rewrite Hg in H. destruct o; try discriminate. inversion H; reflexivity.
  - destruct (nth_error (thr s) i) as [[]|]; try discriminate.
    + destruct (notify_one on_avail c (thr s)); [|discriminate].
      unfold work_loop in H; simpl in H.
      destruct (queue s); [rewrite Hp in H|]; destruct o; try discriminate; inversion H;
        simpl; rewrite ?next_dec_avail; reflexivity.
    + unfold work_wake, work_loop in H.
      destruct (is_aux k && timed_out && (negb fx || is_nil (queue s))).
      * destruct o; try discriminate. inversion H; simpl; rewrite ?next_dec_avail; reflexivity.
      * destruct (queue s); [rewrite Hp in H|]; destruct o; try discriminate;
          inversion H; simpl; rewrite ?next_dec_avail; reflexivity.
  - destruct (nth_error (thr s) i) as [[]|]; try discriminate. inversion H; reflexivity.
  - destruct (glock s); [discriminate|].
    destruct (drop_enter s i) as [[rs mw]|]; [|discriminate].
    rewrite Hg, andb_false_r in H. destruct o; try discriminate.
    inversion H. rewrite next_end_thread. reflexivity.
  - destruct (glock s); [discriminate|].
    destruct (nth_error (thr s) i) as [[]|]; try discriminate.
    destruct (reg s); inversion H; reflexivity.
  - destruct (nth_error (thr s) i) as [[]|]; try discriminate. inversion H; reflexivity.
  - destruct (glock s); [discriminate|].
    destruct (nth_error (thr s) i) as [[]|]; try discriminate. inversion H; reflexivity.
  - destruct (nth_error (thr s) i) as [[]|]; try discriminate. inversion H; reflexivity.
  - destruct (glock s); [discriminate|].
    destruct (nth_error (thr s) i) as [[]|]; try discriminate;
      destruct (gsd s && (tcount s =? 0)); destruct o; try discriminate; inversion H; reflexivity.
  - destruct (nth_error (thr s) i) as [p|]; [|discriminate].
    destruct (on_task p || on_avail p || on_sd p); [|discriminate]. inversion H; reflexivity.
  - destruct (nth_error (thr s) i) as [[| | | | |[]|[] []| | | | | | | | | | | | | | |]|]; try discriminate;
      inversion H; reflexivity.
Qed.

Theorem exactly_once_reachable s : reachable true s -> exactly_one_place s /\ never_twice s.
Proof.
  intros R. pose proof (inv_reachable s R) as I.
  split; [apply exactly_one_place_inv | apply never_twice_inv]; exact I.
Qed.

Theorem await_reachable s : reachable true s -> await_ok s.
Proof. intros R. apply await_ok_inv, inv_reachable, R. Qed.

Theorem no_crash_reachable s : reachable true s -> crashed s = false.
Proof. intros R. apply no_crash_inv, inv_reachable, R. Qed.

(* after ThreadGroup::shut_down (and any concurrent ThreadPool::shut_down) has released the
   group lock, the pool's flag is set as well *)
Theorem group_shutdown_closes_pool s : reachable true s -> gsd s = true -> glock s = false -> psd s = true.
Proof.
  intros R Hg Hl. pose proof (inv_reachable s R) as I.
  destruct (i_reg s I (i_gsd_reg s I Hg)) as [H|H]; [exact H | congruence].
Qed.
