(* Lemma library for the message writer model (C12/C13): buffer writes, try_push,
   the "name decodable below the cursor" relation and its stability, pointer walking. *)
From QV Require Import Base.ListX Model.MsgWriter.
From QV Require Import Proofs.NameWireP.

Local Open Scope nat_scope.

(* ---- the defect repaired by the fix: commit: OPT TTL through Ttl::from ---- *)

Definition xrc_ops (v : N) : list wop := [OSetEdns 1232; OSetXrcode v].

(* octets 17..20 of the finished message are the OPT TTL (header 12, root 1, type 2, class 2) *)
Definition opt_ttl_of (r : res werr run_result) : option bytes :=
  match r with
  | Ok rr => match rr_final rr with
             | Some (_, b) => Some (slice b 17 21)
             | None => None end
  | _ => None
  end.

Lemma prefix_loses_xrcode :
  opt_ttl_of (run_writer_prefix (repeat 0%N 40) 40 (xrc_ops 2048)) = Some [0; 0; 0; 0]%N.
Proof. vm_compute. reflexivity. Qed.

Lemma fixed_keeps_xrcode :
  opt_ttl_of (run_writer (repeat 0%N 40) 40 (xrc_ops 2048)) = Some [128; 0; 0; 0]%N.
Proof. vm_compute. reflexivity. Qed.

(* ---------------------------------------------------------------- constants *)

Lemma wconsts : header_size = 12 /\ opt_record_size = 11 /\ hint_vec_size = 16.
Proof. repeat split; reflexivity. Qed.
Lemma pointer_max_val : N.of_nat pointer_max = 16383%N.
Proof. reflexivity. Qed.

(* ---------------------------------------------------------------- buf_write *)

Lemma buf_write_inv b pos d b' : buf_write b pos d = Some b' ->
  pos + length d <= length b /\ b' = firstn pos b ++ d ++ skipn (pos + length d) b.
Proof.
  unfold buf_write. destruct (pos + length d <=? length b) eqn:E; [|discriminate].
  intros H; inversion H; subst. apply Nat.leb_le in E. auto.
Qed.

Lemma buf_write_some b pos d : pos + length d <= length b -> exists b', buf_write b pos d = Some b'.
Proof.
  intros H. unfold buf_write. apply Nat.leb_le in H. rewrite H. eauto.
Qed.

Lemma buf_write_length b pos d b' : buf_write b pos d = Some b' -> length b' = length b.
Proof.
  intros H. apply buf_write_inv in H as [H1 ->].
  rewrite !app_length, firstn_length, skipn_length. lia.
Qed.

Lemma buf_write_firstn b pos d b' c : buf_write b pos d = Some b' -> c <= pos ->
  firstn c b' = firstn c b.
Proof.
  intros H Hc. apply buf_write_inv in H as [H1 ->].
  rewrite firstn_app. rewrite firstn_length.
  replace (c - Nat.min pos (length b)) with 0 by lia. simpl. rewrite app_nil_r.
  rewrite firstn_firstn. f_equal. lia.
Qed.

Lemma buf_write_data b pos d b' : buf_write b pos d = Some b' -> slice b' pos (pos + length d) = d.
Proof.
  intros H. apply buf_write_inv in H as [H1 ->]. unfold slice.
  rewrite skipn_app, firstn_length.
  replace (pos - Nat.min pos (length b)) with 0 by lia.
  rewrite skipn_all2 by (rewrite firstn_length; lia). simpl.
  replace (pos + length d - pos) with (length d) by lia.
  rewrite firstn_app, Nat.sub_diag, firstn_all. simpl. apply app_nil_r.
Qed.

(* agreement of two buffers below an index *)
Definition agree (c : nat) (b b' : bytes) : Prop := firstn c b' = firstn c b.

Lemma agree_refl c b : agree c b b.
Proof. reflexivity. Qed.

Lemma agree_trans c b1 b2 b3 : agree c b1 b2 -> agree c b2 b3 -> agree c b1 b3.
Proof. unfold agree. congruence. Qed.

Lemma agree_le c c' b b' : agree c' b b' -> c <= c' -> agree c b b'.
Proof.
  unfold agree. intros H Hle.
  assert (E : forall l : bytes, firstn c l = firstn c (firstn c' l))
    by (intros l; rewrite firstn_firstn; f_equal; lia).
  rewrite (E b'), (E b), H. reflexivity.
Qed.


Lemma nth_error_firstn_lt {A} (l : list A) c i : i < c -> nth_error (firstn c l) i = nth_error l i.
Proof.
  revert l i; induction c as [|c IH]; intros l i Hi; [lia|].
  destruct l; simpl; [destruct i; reflexivity|].
  destruct i; simpl; auto. apply IH. lia.
Qed.

Lemma agree_nth c b b' i : agree c b b' -> i < c -> nth_error b' i = nth_error b i.
Proof.
  unfold agree. intros H Hi.
  rewrite <- (nth_error_firstn_lt b' c i Hi), <- (nth_error_firstn_lt b c i Hi). rewrite H. reflexivity.
Qed.

Lemma slice_firstn {A} (l : list A) c a e : e <= c -> slice (firstn c l) a e = slice l a e.
Proof.
  intros He. unfold slice.
  destruct (Nat.le_gt_cases a e) as [Hae|Hae].
  - rewrite skipn_firstn_comm. rewrite firstn_firstn. f_equal. lia.
  - replace (e - a) with 0 by lia. reflexivity.
Qed.

Lemma agree_slice c b b' a e : agree c b b' -> e <= c -> slice b' a e = slice b a e.
Proof.
  unfold agree. intros H He.
  rewrite <- (slice_firstn b' c a e He), <- (slice_firstn b c a e He). rewrite H. reflexivity.
Qed.

Lemma buf_write_agree b pos d b' c : buf_write b pos d = Some b' -> c <= pos -> agree c b b'.
Proof. intros. unfold agree. eapply buf_write_firstn; eauto. Qed.

Lemma buf_write_nth_in b pos d b' i x : buf_write b pos d = Some b' ->
  nth_error d i = Some x -> nth_error b' (pos + i) = Some x.
Proof.
  intros H Hx. apply buf_write_inv in H as [H1 ->].
  assert (Hi : i < length d) by (apply nth_error_Some; congruence).
  rewrite nth_error_app2 by (rewrite firstn_length; lia).
  rewrite firstn_length. replace (pos + i - Nat.min pos (length b)) with i by lia.
  rewrite nth_error_app1 by lia. exact Hx.
Qed.

(* ---------------------------------------------------------------- try_push *)

Lemma try_push_ok data w u w' : try_push data w = Ok (u, w') ->
  exists b', buf_write (w_buf w) (w_cursor w) data = Some b'
             /\ w' = set_cursor (set_buf w b') (w_cursor w + length data)
             /\ w_cursor w + length data <= w_avail w.
Proof.
  unfold try_push, w_write.
  destruct (w_avail w <? w_cursor w) eqn:E1; [discriminate|].
  destruct (length data <=? w_avail w - w_cursor w) eqn:E2; [|discriminate].
  destruct (buf_write (w_buf w) (w_cursor w) data) as [b'|] eqn:E3; [|discriminate].
  intros H; inversion H; subst. exists b'. apply Nat.ltb_ge in E1. apply Nat.leb_le in E2.
  repeat split; auto. lia.
Qed.

Lemma try_push_err data w e w' : try_push data w = Err (e, w') -> e = Truncation /\ w' = w.
Proof.
  unfold try_push, w_write.
  destruct (w_avail w <? w_cursor w); [discriminate|].
  destruct (length data <=? w_avail w - w_cursor w).
  - destruct (buf_write (w_buf w) (w_cursor w) data); discriminate.
  - intros H; inversion H; auto.
Qed.

Lemma try_push_no_panic data w : w_cursor w <= w_avail w -> w_avail w <= length (w_buf w) ->
  try_push data w <> Panic.
Proof.
  intros H1 H2. unfold try_push, w_write.
  destruct (w_avail w <? w_cursor w) eqn:E1; [apply Nat.ltb_lt in E1; lia|].
  destruct (length data <=? w_avail w - w_cursor w) eqn:E2; [|discriminate].
  apply Nat.leb_le in E2.
  destruct (buf_write_some (w_buf w) (w_cursor w) data) as [b' ->]; [lia|discriminate].
Qed.

(* a step that fits does not fail *)
Lemma try_push_fits data w : w_cursor w + length data <= w_avail w -> w_avail w <= length (w_buf w) ->
  exists w', try_push data w = Ok (tt, w').
Proof.
  intros H1 H2. unfold try_push, w_write.
  destruct (w_avail w <? w_cursor w) eqn:E1; [apply Nat.ltb_lt in E1; lia|].
  destruct (length data <=? w_avail w - w_cursor w) eqn:E2; [|apply Nat.leb_gt in E2; lia].
  destruct (buf_write_some (w_buf w) (w_cursor w) data) as [b' ->]; [lia|]. eauto.
Qed.

(* ---------------------------------------------------------------- names below the cursor *)

Definition ptr_target (hi lo : N) : nat := N.to_nat (N.land hi 63 * 256 + lo).
Definition real_at (b : bytes) (i : nat) : Prop :=
  exists x, nth_error b i = Some x /\ is_pointer_octet x = false.

(* [name_at b c i ls]: reading at offset i of b, touching only offsets below c, yields the
   labels ls; every pointer leads strictly backwards, to a label (not to another pointer). *)
Inductive name_at (b : bytes) (c : nat) : nat -> list bytes -> Prop :=
| na_root : forall i, i < c -> nth_error b i = Some 0%N -> name_at b c i []
| na_label : forall i len rest,
    nth_error b i = Some len -> (0 < len)%N -> (len <= 63)%N ->
    i + 1 + N.to_nat len <= c ->
    name_at b c (i + 1 + N.to_nat len) rest ->
    name_at b c i (slice b (i + 1) (i + 1 + N.to_nat len) :: rest)
| na_ptr : forall i hi lo rest,
    nth_error b i = Some hi -> is_pointer_octet hi = true ->
    nth_error b (i + 1) = Some lo -> i + 1 < c ->
    ptr_target hi lo < i -> real_at b (ptr_target hi lo) ->
    name_at b c (ptr_target hi lo) rest ->
    name_at b c i rest.

Lemma small_not_pointer len : (len <= 63)%N -> is_pointer_octet len = false.
Proof.
  intros H.
  assert (A : forallb (fun b => negb (is_pointer_octet b)) (upto 64) = true) by (vm_compute; reflexivity).
  rewrite forallb_forall in A. specialize (A len (upto_In 64 len ltac:(lia))).
  destruct (is_pointer_octet len); [discriminate|reflexivity].
Qed.

Lemma name_at_lt b c i ls : name_at b c i ls -> i < c /\ i < length b.
Proof.
  intros H. destruct H as [i Hi E|i len rest E _ _ Hc _|i hi lo rest E _ _ Hc _ _ _];
    (split; [lia|eapply nth_error_Some_lt; eauto]).
Qed.

Lemma name_at_stable b c i ls : name_at b c i ls ->
  forall b' c', agree c b b' -> c <= c' -> name_at b' c' i ls.
Proof.
  induction 1 as [i Hi E|i len rest E H0 H63 Hc Hn IH|i hi lo rest E Hp E2 Hc Ht Hr Hn IH];
    intros b' c' Ha Hle.
  - apply na_root; [lia|]. rewrite (agree_nth c b b' i Ha Hi). exact E.
  - rewrite <- (agree_slice c b b' (i + 1) (i + 1 + N.to_nat len) Ha Hc).
    apply na_label; auto; [|lia].
    rewrite (agree_nth c b b' i Ha); [exact E|lia].
  - destruct Hr as [x [Hx1 Hx2]].
    eapply na_ptr; eauto; try lia.
    + rewrite (agree_nth c b b' i Ha); [exact E|lia].
    + rewrite (agree_nth c b b' (i + 1) Ha); [exact E2|lia].
    + exists x. split; auto. rewrite (agree_nth c b b' _ Ha); [exact Hx1|lia].
Qed.

Lemma real_at_stable b c i b' : real_at b i -> agree c b b' -> i < c -> real_at b' i.
Proof.
  intros [x [H1 H2]] Ha Hi. exists x. split; auto. rewrite (agree_nth c b b' i Ha Hi). exact H1.
Qed.

(* ---------------------------------------------------------------- following pointers *)

Lemma next_real_ok b c : forall i ls, name_at b c i ls -> forall fuel, i < fuel ->
  exists p, next_real fuel b i = Ok p /\ name_at b c p ls /\ real_at b p /\ p <= i.
Proof.
  induction 1 as [i Hi E|i len rest E H0 H63 Hc Hn IH|i hi lo rest E Hp E2 Hc Ht Hr Hn IH];
    intros fuel Hf.
  - destruct fuel; [lia|]. simpl. rewrite E. rewrite is_pointer_octet_0.
    exists i. split; [reflexivity|]. split; [apply na_root; auto|].
    split; [|lia]. exists 0%N. split; [exact E|apply is_pointer_octet_0].
  - destruct fuel; [lia|]. simpl. rewrite E. rewrite (small_not_pointer len H63).
    exists i. split; [reflexivity|]. split; [apply na_label; auto|].
    split; [|lia]. exists len. split; [exact E|apply small_not_pointer; exact H63].
  - destruct fuel; [lia|]. simpl. rewrite E, Hp, E2.
    fold (ptr_target hi lo).
    destruct (ptr_target hi lo <? i) eqn:Elt; [|apply Nat.ltb_ge in Elt; lia].
    destruct (IH fuel ltac:(lia)) as [p [P1 [P2 [P3 P4]]]].
    exists p. split; [exact P1|]. split; [exact P2|]. split; [exact P3|lia].
Qed.

Lemma move_ok b c i ls : name_at b c i ls ->
  exists p, move_to_next_real_label b i = Ok p /\ name_at b c p ls /\ real_at b p /\ p <= i.
Proof. intros H. unfold move_to_next_real_label. eapply next_real_ok; eauto. Qed.

(* reading a real label of a non-empty name *)
Lemma name_at_cons_real b c i l rest : name_at b c i (l :: rest) -> real_at b i ->
  exists len, nth_error b i = Some len /\ (0 < len)%N /\ (len <= 63)%N
              /\ i + 1 + N.to_nat len <= c
              /\ l = slice b (i + 1) (i + 1 + N.to_nat len)
              /\ name_at b c (i + 1 + N.to_nat len) rest.
Proof.
  intros H [x [Hx Hnp]]. inversion H; subst.
  - exists len. repeat split; auto.
  - rewrite Hx in H0. inversion H0; subst. congruence.
Qed.

Lemma skip_labels_ok b c : forall k p ls, name_at b c p ls -> real_at b p -> k <= length ls ->
  exists p', skip_labels k b p = Ok p' /\ name_at b c p' (skipn k ls) /\ real_at b p'.
Proof.
  induction k as [|k IH]; intros p ls Hn Hr Hk.
  - exists p. simpl. auto.
  - destruct ls as [|l rest]; [simpl in Hk; lia|].
    destruct (name_at_cons_real b c p l rest Hn Hr) as [len [E [H0 [H63 [Hc [_ Hn']]]]]].
    simpl. rewrite E.
    replace (p + (N.to_nat len + 1)) with (p + 1 + N.to_nat len) by lia.
    destruct (move_ok b c _ _ Hn') as [p2 [M1 [M2 [M3 _]]]]. rewrite M1. simpl.
    apply IH; auto. simpl in Hk. lia.
Qed.
