(* Lemma library for the message writer model (C12/C13). *)
From QV Require Import Base.ListX Model.MsgWriter.

(* ---- the defect repaired by the fix: commit: OPT TTL through Ttl::from ---- *)

Definition xrc_ops (v : N) : list wop := [OSetEdns 1232; OSetXrcode v].

(* octets 17..20 of the finished message are the OPT TTL (header 12, root 1, type 2, class 2) *)
Definition opt_ttl_of (r : res werr run_result) : option bytes :=
  match r with
  | Ok rr => match rr_final rr with
             | Some (_, b) => Some (slice b 17 21)
             | None => None end
  | _ => None
  end.

Lemma prefix_loses_xrcode :
  opt_ttl_of (run_writer_prefix (repeat 0%N 40) 40 (xrc_ops 2048)) = Some [0; 0; 0; 0]%N.
Proof. vm_compute. reflexivity. Qed.

Lemma fixed_keeps_xrcode :
  opt_ttl_of (run_writer (repeat 0%N 40) 40 (xrc_ops 2048)) = Some [128; 0; 0; 0]%N.
Proof. vm_compute. reflexivity. Qed.
