(* finish_signed_ok: the Writer-level statement behind Proofs/SignSerP.v / SignDecP.v, for ANY contract-obeying
   operation sequence (questions and records included), not only the server's ser_ops.

   From a writer reached by [ops] (C12's operation language, hint contract obeyed) on which no TSIG is installed yet:
   if Writer::set_tsig in a signing mode (Model/ServerWT.v: set_tsig_signed, reserved_len = key name + algorithm name +
   26 (+ 6 for BADTIME) + output size) succeeds, then finish_with_mac in response mode (finish_signed) never panics,
   writes at most up to the limit, and the result decodes - independent RFC 1035 decoder - to the questions and
   records denoted by [ops], followed in the additional section by (OPT iff EDNS) and ONE TSIG record: owner = key,
   TYPE TSIG, CLASS ANY, TTL 0, RDATA = serialize_tsig_unchecked (algorithm name, time signed, fudge, MAC, original
   ID, error, other data = server time iff error = BADTIME), MAC = what sign_response returns for the octets before
   the TSIG record, of the algorithm's output size.
   The only facts about hmac: its output has the algorithm's output size and consists of octets. *)
From QV Require Import Base.ListX Gen.Consts Model.NameWire Model.ServerWT
  Model.MsgWriter
  Spec.NameWireS Spec.NameRepr Spec.MsgWriterS Spec.MsgWriterAbsS
  Proofs.NameWireP Proofs.MsgWriterP Proofs.MsgWriterScanP Proofs.MsgWriterNameP Proofs.MsgWriterInvP Proofs.MsgWriterClosP
  Proofs.MsgWriterNameSP Proofs.MsgWriterOpP
  Proofs.MsgWriterLayP Proofs.MsgWriterStepP Proofs.MsgWriterMsgP Proofs.MsgWriterDecP Proofs.MsgWriterHdrP Proofs.MsgWriterGetP
  Proofs.MsgWriterRtP
  Proofs.SignFinishP Proofs.SignDecP.
From QV Require Model.TsigMsg.
Local Open Scope nat_scope.

Lemma ser_unchecked_wf an time fudge mac oid err other : wf_bytes an -> wf_bytes time -> wf_bytes mac -> wf_bytes other ->
  wf_bytes (TsigMsg.serialize_tsig_unchecked an time fudge mac oid err other).
Proof.
  intros H1 H2 H3 H4. unfold TsigMsg.serialize_tsig_unchecked.
  repeat (apply wf_bytes_app; [first [assumption|apply sf_wf_be16]|]). assumption.
Qed.

Lemma ser_unchecked_len an time fudge mac oid err other :
  length (TsigMsg.serialize_tsig_unchecked an time fudge mac oid err other) = length an + length time + 10 + length mac + length other.
Proof. unfold TsigMsg.serialize_tsig_unchecked. rewrite !app_length. unfold TsigMsg.be16. simpl length. lia. Qed.

(* the signing set_tsig = a lowered limit + the unsigned set_tsig, up to reserved_len and limit *)
Lemma signed_steps_gen w1 osz alg key time fudge origid error stime w2 :
  Inv_n w1 -> MsgWriter.w_tsig w1 = None -> 0 < osz ->
  set_tsig_signed osz alg key time fudge origid error stime w1 = Ok (tt, w2) ->
  exists w1' wh2,
    MsgWriter.set_limit (MsgWriter.w_limit w1 - osz) w1 = Ok w1' /\
    MsgWriter.set_tsig alg key time fudge origid error stime w1' = Ok (tt, wh2) /\
    w2 = real_of wh2 (signed_of (mkTsig alg (tsig_unsigned_len key alg error) key time fudge origid error stime) osz)
                 (MsgWriter.w_limit wh2 + osz) /\
    MsgWriter.w_tsig wh2 = Some (mkTsig alg (tsig_unsigned_len key alg error) key time fudge origid error stime) /\
    MsgWriter.w_limit wh2 + osz = MsgWriter.w_limit w1 /\ w_buf wh2 = w_buf w1 /\
    MsgWriter.w_edns wh2 = MsgWriter.w_edns w1 /\ w_mode wh2 = w_mode w1.
Proof.
  intros [h1 h2 h3 h4 h5] Ht Ho E. unfold resv in h4. rewrite Ht in h4.
  unfold set_tsig_signed in E. rewrite Ht in E.
  set (ulen := tsig_unsigned_len key alg error) in *.
  destruct (MsgWriter.w_avail w1 <? MsgWriter.w_cursor w1 + (ulen + osz)) eqn:X6; [discriminate|]. apply Nat.ltb_ge in X6.
  destruct (checked_add16 (w_ar w1) 1) as [ar|] eqn:Ea; [|discriminate]. inversion E; subst w2. clear E.
  set (lim := MsgWriter.w_limit w1) in *.
  unfold MsgWriter.set_limit. fold lim.
  destruct (lim <=? lim - osz) eqn:X1; [apply Nat.leb_le in X1; lia|].
  destruct (MsgWriter.w_cursor w1 + lim <? MsgWriter.w_avail w1) eqn:X2; [apply Nat.ltb_lt in X2; lia|].
  assert (Emax : Nat.max (lim - osz) (MsgWriter.w_cursor w1 + lim - MsgWriter.w_avail w1) = lim - osz) by lia.
  rewrite Emax.
  destruct (lim <? lim - osz) eqn:X3; [apply Nat.ltb_lt in X3; lia|].
  replace (lim - (lim - osz)) with osz by lia.
  destruct (MsgWriter.w_avail w1 <? osz) eqn:X4; [apply Nat.ltb_lt in X4; lia|].
  exists (set_limit_avail w1 (lim - osz) (MsgWriter.w_avail w1 - osz)).
  unfold MsgWriter.set_tsig. cbn [MsgWriter.w_tsig set_limit_avail MsgWriter.w_avail MsgWriter.w_cursor w_ar].
  rewrite Ht. fold ulen.
  destruct (MsgWriter.w_avail w1 - osz <? MsgWriter.w_cursor w1 + ulen) eqn:X5; [apply Nat.ltb_lt in X5; lia|].
  rewrite Ea. eexists.
  split; [reflexivity|]. split; [reflexivity|].
  split.
  { unfold real_of, signed_of, set_tsig_f, set_avail, set_limit_avail, set_counts.
    cbn [w_buf MsgWriter.w_cursor MsgWriter.w_limit MsgWriter.w_avail w_rr_start w_section w_qd w_an w_ns w_ar w_qname w_mro w_mrn w_mode
         MsgWriter.w_edns MsgWriter.w_tsig t_alg MsgWriter.t_reserved t_key t_time t_fudge t_origid MsgWriter.t_error t_server_time].
    fold lim. f_equal; lia. }
  split; [reflexivity|]. split; [cbn; fold lim; lia|]. repeat split; reflexivity.
Qed.

Section GW.
Variable hmac : TsigMsg.alg -> bytes -> bytes -> bytes.
Hypothesis hmac_len : forall a k d, length (hmac a k d) = TsigMsg.output_size a.
Hypothesis hmac_wf : forall a k d, wf_bytes (hmac a k d).

Theorem finish_signed_ok buf limit w0 ops d outs alg key time fudge origid error stime a secret rmac w2 :
  writer_new buf limit = Ok w0 -> run_contract (mkD w0 []) g0 ops -> Forall op_wf ops -> Forall op_wf2 ops ->
  run (mkD w0 []) ops = Ok (d, outs, true) ->
  MsgWriter.w_tsig (d_w d) = None ->
  op_wf (OSetTsig alg key time fudge origid error stime) ->
  length (nm_wire alg) = length (TsigMsg.alg_name a) -> (N.of_nat (length rmac) <= 65535)%N ->
  set_tsig_signed (TsigMsg.output_size a) (nm_lower alg) (nm_lower key) time fudge origid error stime (d_w d) = Ok (tt, w2) ->
  let A := areplay am0 ops outs in
  exists len b m c5 mac rdata,
    finish_signed hmac a secret rmac w2 = Ok (len, b) /\ len <= MsgWriter.w_limit (d_w d) /\
    decode_msg (firstn len b) = Some m /\
    Forall2 q_rel (am_qs A) (m_qs m) /\
    Forall2 (rr_rel xparts) (am_an A) (m_an m) /\ Forall2 (rr_rel xparts) (am_ns A) (m_ns m) /\
    Forall2 (rr_rel xparts) (am_ar A ++ pseudo_signed (d_w d) (nm_lower key) rdata) (m_ar m) /\
    c5 <= len /\
    TsigMsg.sign hmac (TsigMsg.mkPrepared (nm_wire (nm_lower key)) time fudge origid error stime)
                 (firstn c5 (firstn len b)) (TsigMsg.SResponse rmac) a secret = Ok (rdata, mac) /\
    length mac = TsigMsg.output_size a /\
    rdata = TsigMsg.serialize_tsig_unchecked (TsigMsg.alg_name a) time fudge mac origid error
              (if (error =? 18)%N then stime else []).
Proof.
  intros E0 Hrc F1 F2 Hrun Htn Hwf Hal Hrm ES A.
  destruct (run_ok2 ops _ _ _ _ _ (AInv_new _ _ _ E0) (LInv_new _ _ _ E0) Hrc)
    as (d' & outs' & alive' & g & y & L & Erun & Hi & HL).
  rewrite Hrun in Erun. inversion Erun; subst d' outs' alive'. clear Erun. fold A in HL.
  destruct d as [w1 regs]. cbn [d_w] in *.
  pose proof (a_n _ _ _ Hi) as Hn1. cbn [d_w] in Hn1.
  assert (Hop : 0 < TsigMsg.output_size a) by (destruct a; cbv; lia).
  destruct (signed_steps_gen w1 _ _ _ _ _ _ _ _ _ Hn1 Htn Hop ES) as (w1' & wh2 & EL & ET & Ereal & Etu & Elim & Ebuf & Eed & Emd).
  set (tu := mkTsig (nm_lower alg) (tsig_unsigned_len (nm_lower key) (nm_lower alg) error) (nm_lower key) time fudge origid error stime) in *.
  (* the two hypothetical steps keep C12's invariants *)
  pose proof (step2_all (mkD w1 regs) g y A L (OSetLimit (MsgWriter.w_limit w1 - TsigMsg.output_size a)) Hi HL I I) as S1.
  unfold step_ok2 in S1. cbn [step d_w d_regs] in S1. rewrite EL in S1. cbn [of_R] in S1.
  destruct S1 as (L1 & y1 & Hi1 & HL1). cbn [astep] in HL1.
  pose proof (step2_all _ _ y1 A L1 (OSetTsig alg key time fudge origid error stime) Hi1 HL1 Hwf I) as S2.
  unfold step_ok2 in S2. cbn [step d_w d_regs] in S2. rewrite ET in S2. cbn [of_M] in S2.
  destruct S2 as (L2 & y2 & Hi2 & HL2). cbn [astep] in HL2.
  assert (Hlb : MsgWriter.w_limit wh2 + TsigMsg.output_size a <= length (w_buf wh2)).
  { rewrite Elim, Ebuf. destruct Hn1. lia. }
  assert (Halg : length (nm_wire (t_alg tu)) = length (TsigMsg.alg_name a)).
  { cbn [tu t_alg]. rewrite wire_lower_length. exact Hal. }
  destruct (finish_signed_ok2 hmac hmac_len hmac_wf (mkD wh2 regs) _ y2 A L2 tu a secret rmac Hi2 HL2 Etu Halg Hrm Hlb)
    as (wF & LF & rsP & c5 & rdata & mac & EF & HiF & PF & DF & Hdr & HA4 & Hcl & Hc5 & Hsg & Hml & Hrd).
  cbn [d_w] in EF, PF, DF, Hdr, HA4, Hcl. rewrite <- Ereal in EF.
  cbn [tu t_key t_time t_fudge t_origid MsgWriter.t_error t_server_time prep_of] in Hsg, Hrd, DF.
  destruct HL2 as [HP HFl]. cbn [d_w] in HFl. destruct HFl as [Fq Fr Fm Cq Ca Cn Cr [Bq [Ba [Bn Br]]] Fe Fs].
  pose proof (a_ts _ _ _ Hi2 _ Etu) as Twf. destruct Twf as [T1 [T2 [T3 [T4 [T5 [T6 [T7 [T8 [T9 T10]]]]]]]]].
  cbn [tu t_key t_alg t_time t_server_time MsgWriter.t_error] in T1, T2, T3, T4, T6, T7, T8, T9, T10.
  assert (Hmacw : wf_bytes mac).
  { unfold TsigMsg.sign in Hsg. destruct (TsigMsg.sign_digest _ _ _ _) as [dg|e|]; cbn [bind] in Hsg; try discriminate.
    destruct (TsigMsg.serialize_rdata _ _ _) as [r|e|]; cbn [bind] in Hsg; try discriminate. inversion Hsg; subst. apply hmac_wf. }
  set (other := if (error =? 18)%N then stime else []) in *.
  assert (Hoth : wf_bytes other /\ length other <= 6).
  { unfold other. destruct (error =? 18)%N; [split; [exact T8|lia]|split; [constructor|simpl; lia]]. }
  destruct Hoth as [Hob Hol].
  assert (Hrdw : wf_bytes rdata) by (rewrite Hrd; apply ser_unchecked_wf; auto; apply sf_alg_name_wf).
  assert (Hrdl : (N.of_nat (length rdata) < 65536)%N).
  { rewrite Hrd, ser_unchecked_len, T3, Hml. pose proof (sf_alg_name_len a). pose proof (sf_output_size_le a). lia. }
  set (ps := pseudo_signed wh2 (nm_lower key) rdata) in *.
  assert (Wp : Forall arr_wf ps).
  { unfold ps, pseudo_signed. apply Forall_app. split.
    - destruct (MsgWriter.w_edns wh2) as [e|] eqn:Ee; [|constructor]. destruct (Fe e eq_refl) as [K1 K2].
      constructor; [|constructor]. unfold arr_wf; simpl. repeat split; auto; try lia; try constructor. cbv. lia.
    - constructor; [|constructor]. unfold arr_wf; simpl. repeat split; auto; try apply T1; try (cbv; lia). }
  assert (Lps : length ps = (if MsgWriter.w_edns wh2 then 1 else 0) + 1).
  { unfold ps, pseudo_signed. rewrite app_length. destruct (MsgWriter.w_edns wh2); reflexivity. }
  destruct (layout_decode wF LF (mkLay (y_qs y2) (y_rrs y2 ++ rsP)) (w_rr_start wh2) A ps
              (w_qd wh2) (w_an wh2) (w_ns wh2) (w_ar wh2) HiF PF)
    as (m & Em & Rq & Ra & Rn & Rr & _ & _ & _ & _).
  { exact Fq. }
  { cbn [y_rrs]. rewrite !app_assoc. apply Forall2_app; [rewrite <- !app_assoc; exact Fr|exact DF]. }
  { apply areplay_wf; [exact am0_wf|exact F1|exact F2]. }
  { exact Wp. }
  { exact Hdr. }
  { exact Cq. } { exact Ca. } { exact Cn. }
  { rewrite Cr, Etu, app_length, Lps. destruct (MsgWriter.w_edns wh2); simpl; lia. }
  { auto. }
  exists (MsgWriter.w_cursor wF), (w_buf wF), m, c5, mac, rdata.
  split; [exact EF|]. split; [lia|]. split; [exact Em|]. split; [exact Rq|]. split; [exact Ra|]. split; [exact Rn|].
  split. { unfold ps, pseudo_signed in Rr. rewrite Eed, Emd in Rr. exact Rr. }
  split; [exact Hc5|]. split.
  { rewrite firstn_firstn. replace (Nat.min c5 (MsgWriter.w_cursor wF)) with c5 by lia. exact Hsg. }
  split; [exact Hml|exact Hrd].
Qed.

End GW.
