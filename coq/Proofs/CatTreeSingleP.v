(* C22, part 4: SingleZoneCatalog (src/db/single_zone_catalog.rs) refines the reference
   map holding exactly its one entry; Label/Name equality ignore ASCII case. *)
From QV Require Import Model.CatTree Spec.CatTreeS Proofs.CatTreeP Proofs.CatTreeSP.

Lemma label_eq_ci_spec : forall a b, label_eq_ci a b = true <-> lower_label a = lower_label b.
Proof.
  induction a as [|x a IH]; intros [|y b]; simpl; try (split; congruence).
  rewrite andb_true_iff, N.eqb_eq, IH. split.
  - intros [H1 H2]. congruence.
  - intros H. inversion H. auto.
Qed.

(* zip(..).all(==) over a list at least as long: the shorter one is a prefix, ignoring case *)
Lemma zip_all_eq_spec : forall b a, length b <= length a ->
  (zip_all_eq a b = true <-> lower_name (firstn (length b) a) = lower_name b).
Proof.
  induction b as [|y b IH]; intros a Hl.
  - destruct a; simpl; split; auto.
  - destruct a as [|x a]; simpl in Hl; [lia|]. simpl.
    rewrite andb_true_iff, label_eq_ci_spec, (IH a) by lia. split.
    + intros [H1 H2]. congruence.
    + intros H. inversion H. auto.
Qed.

Lemma name_eq_spec a b : name_eq a b = true <-> canon a = canon b.
Proof.
  unfold name_eq, name_len, all_labels. rewrite andb_true_iff, Nat.eqb_eq. split.
  - intros [Hl Hz]. assert (Hl' : length a = length b) by lia.
    apply zip_all_eq_spec in Hz; [|rewrite !app_length; simpl; lia].
    rewrite !app_length in Hz. simpl in Hz. rewrite <- Hl' in Hz.
    replace (length a + 1) with (length (a ++ [[]])) in Hz by (rewrite app_length; simpl; lia).
    rewrite firstn_all, !lower_name_app in Hz. apply app_inv_tail in Hz. exact Hz.
  - intros Hc. assert (Hl : length a = length b).
    { pose proof (f_equal (@length _) Hc) as H0. rewrite !canon_length in H0. exact H0. }
    split; [lia|]. apply zip_all_eq_spec; [rewrite !app_length; simpl; lia|].
    rewrite !app_length. simpl. rewrite <- Hl.
    replace (length a + 1) with (length (a ++ [[]])) by (rewrite app_length; simpl; lia).
    rewrite firstn_all, !lower_name_app. f_equal. exact Hc.
Qed.

Lemma eq_or_subdomain_spec self other :
  eq_or_subdomain_of self other = true <-> is_suffix (canon other) (canon self).
Proof.
  unfold eq_or_subdomain_of, name_len, all_labels.
  rewrite !rev_app_distr. simpl. rewrite andb_true_iff, Nat.leb_le. split.
  - intros [Hl Hz]. assert (Hl' : length other <= length self) by lia.
    apply zip_all_eq_spec in Hz; [|rewrite !rev_length; exact Hl'].
    rewrite rev_length, firstn_rev in Hz. unfold lower_name in Hz. rewrite !map_rev in Hz.
    apply rev_inj in Hz.
    exists (canon (firstn (length self - length other) self)).
    change (canon other) with (map lower_label other). rewrite <- Hz.
    unfold canon. rewrite <- map_app, firstn_skipn. reflexivity.
  - intros [pre Hq].
    assert (Hl : length self = length pre + length other).
    { pose proof (f_equal (@length _) Hq) as H0. rewrite app_length, !canon_length in H0. exact H0. }
    split; [lia|]. apply zip_all_eq_spec; [rewrite !rev_length; lia|].
    rewrite rev_length, firstn_rev. unfold lower_name. rewrite !map_rev. f_equal.
    assert (Hk : length self - length other = length pre) by lia.
    rewrite Hk.
    pose proof (f_equal (skipn (length pre)) Hq) as H1.
    rewrite skipn_app, skipn_all, Nat.sub_diag in H1. cbn [skipn app] in H1.
    unfold canon in H1 at 1. rewrite skipn_map in H1. exact H1.
Qed.

Section Single.
Variable V : Type.
Notation entry := (entry V).
Notation ckey := (key_of (@e_name V) (@e_class V)).
Notation single_map e := (rm_insert (@e_name V) (@e_class V) rm_empty e).

Lemma single_get_refine (e : entry) nm cls : single_get e nm cls = single_map e (cls, canon nm).
Proof.
  unfold single_get, CatTreeS.rm_insert, rm_empty, CatTreeS.key_of.
  destruct (skey_eq_dec (cls, canon nm) (e_class e, canon (e_name e))) as [E|E].
  - inversion E as [[H1 H2]]. rewrite N.eqb_refl. simpl.
    assert (H : name_eq nm (e_name e) = true) by (apply name_eq_spec; exact H2). rewrite H. reflexivity.
  - destruct ((e_class e =? cls)%N && name_eq nm (e_name e)) eqn:Hb; [|reflexivity].
    apply andb_true_iff in Hb. destruct Hb as [H1 H2]. apply N.eqb_eq in H1. apply name_eq_spec in H2.
    exfalso. apply E. congruence.
Qed.

Lemma single_lookup_refine (e : entry) nm cls :
  rm_is_lookup (single_map e) cls (canon nm) (single_lookup e nm cls).
Proof.
  unfold single_lookup.
  assert (Hm : forall p e', single_map e (cls, p) = Some e' ->
                            e' = e /\ cls = e_class e /\ p = canon (e_name e)).
  { intros p e' H. unfold CatTreeS.rm_insert, rm_empty, CatTreeS.key_of in H.
    destruct (skey_eq_dec (cls, p) (e_class e, canon (e_name e))) as [E|E]; [|discriminate].
    inversion E. inversion H. auto. }
  destruct ((e_class e =? cls)%N && eq_or_subdomain_of nm (e_name e)) eqn:Hb; simpl.
  - apply andb_true_iff in Hb. destruct Hb as [H1 H2]. apply N.eqb_eq in H1. apply eq_or_subdomain_spec in H2.
    exists (canon (e_name e)). split; [|split; [exact H2|]].
    + unfold CatTreeS.rm_insert, CatTreeS.key_of. rewrite H1.
      destruct (skey_eq_dec (cls, canon (e_name e)) (cls, canon (e_name e))); congruence.
    + intros p' e' Hp _. apply Hm in Hp. destruct Hp as [_ [_ Hp]]. subst p'. lia.
  - intros p e' Hp Hs. apply Hm in Hp. destruct Hp as [_ [Hc Hp]]. subst p.
    apply eq_or_subdomain_spec in Hs. rewrite Hs, andb_true_r in Hb. apply N.eqb_neq in Hb. congruence.
Qed.

End Single.
