(* C22, part 2: the representation invariant of the tree (duplicate-free child maps,
   every entry stored at the path spelled by its own name, node names, no dead leaf)
   and its preservation by insert / remove; listing of a tree. *)
From QV Require Import Model.CatTree Spec.CatTreeS Proofs.CatTreeP.
From Coq Require Import Permutation.

Section Inv.
Variable V : Type.
Notation entry := (entry V).
Notation node := (node V).
Notation forest := (forest V).

(* a node that is neither an entry nor an ancestor of one must not exist *)
Definition node_live (n : node) : Prop :=
  is_none (node_data n) && f_is_empty (node_children n) = false.

(* [rp] = path from the class root to the node (lower-cased labels, root downwards) *)
Fixpoint wf_node (cls : N) (rp : list clabel) (n : node) : Prop :=
  match n with
  | Node nn d ch =>
    lower_name nn = rev rp /\
    (forall e, d = Some e -> e_class e = cls /\ lower_name (e_name e) = rev rp) /\
    wf_forest cls rp ch
  end
with wf_forest (cls : N) (rp : list clabel) (f : forest) : Prop :=
  match f with
  | FNil => True
  | FCons k c r => f_get k r = None /\ node_live c /\ wf_node cls (rp ++ [k]) c /\ wf_forest cls rp r
  end.

Lemma wf_node_unfold cls rp (n : node) :
  wf_node cls rp n <->
  lower_name (node_name n) = rev rp /\
  (forall e, node_data n = Some e -> e_class e = cls /\ lower_name (e_name e) = rev rp) /\
  wf_forest cls rp (node_children n).
Proof. destruct n; simpl; tauto. Qed.

Lemma wf_forest_get cls rp k (f : forest) c :
  wf_forest cls rp f -> f_get k f = Some c -> wf_node cls (rp ++ [k]) c /\ node_live c.
Proof.
  induction f as [|k' c' r IH]; simpl; intros Hwf Hg; [discriminate|].
  destruct Hwf as [Hnone [Hlive [Hc Hr]]].
  destruct (label_eq_dec k k') as [E|E].
  - inversion Hg; subst. auto.
  - auto.
Qed.

Lemma wf_forest_set cls rp k (f : forest) c :
  wf_forest cls rp f -> wf_node cls (rp ++ [k]) c -> node_live c -> wf_forest cls rp (f_set k c f).
Proof.
  induction f as [|k' c' r IH]; simpl; intros Hwf Hc Hlive.
  - auto.
  - destruct Hwf as [Hnone [Hlive' [Hc' Hr]]].
    destruct (label_eq_dec k k') as [E|E]; simpl.
    + subst. auto.
    + split; [|auto]. rewrite f_get_set_other by congruence. exact Hnone.
Qed.

Lemma wf_forest_remove cls rp k (f : forest) :
  wf_forest cls rp f -> wf_forest cls rp (f_remove k f).
Proof.
  induction f as [|k' c' r IH]; simpl; intros Hwf; auto.
  destruct Hwf as [Hnone [Hlive' [Hc' Hr]]].
  destruct (label_eq_dec k k') as [E|E]; simpl; auto.
  split; [|auto]. apply f_get_remove_none. exact Hnone.
Qed.

Lemma f_set_not_empty k (c : node) f : f_is_empty (f_set k c f) = false.
Proof. destruct f; simpl; auto. destruct (label_eq_dec k k0); reflexivity. Qed.

(* the path invariant of a descent: at [level] the node sits at the name's suffix *)
Lemma path_step (nm : cname) l lab rp :
  nth_error nm l = Some lab -> rev rp = lower_name (skipn (S l) nm) ->
  rev (rp ++ [lower_label lab]) = lower_name (skipn l nm).
Proof.
  intros Hn Hrp. rewrite rev_app_distr. simpl. rewrite Hrp, (skipn_nth_cons _ _ _ Hn). reflexivity.
Qed.

Lemma insert_desc_wf : forall level (n : node) nm e cls rp n' old,
  level <= length nm -> rev rp = lower_name (skipn level nm) ->
  e_name e = nm -> e_class e = cls -> wf_node cls rp n ->
  insert_desc n nm level e = Ok (n', old) -> wf_node cls rp n' /\ node_live n'.
Proof.
  induction level as [|l IH]; intros n nm e cls rp n' old Hl Hrp Hen Hec Hwf Hins.
  - destruct n as [nn d ch]. simpl in Hins. inversion Hins; subst. simpl in Hwf.
    destruct Hwf as [Hnn [Hd Hch]]. split; [|reflexivity]. simpl.
    split; [exact Hnn|]. split; [|exact Hch].
    intros e0 He0. inversion He0; subst. auto.
  - destruct (name_index_lt nm l) as [lab [Hi Hn]]; [lia|].
    cbn [insert_desc] in Hins. rewrite Hi in Hins. destruct n as [nn d ch].
    simpl in Hwf. destruct Hwf as [Hnn [Hd Hch]].
    set (k := lower_label lab) in *.
    assert (Hsup : superdomain nm l = Some (skipn l nm)).
    { unfold superdomain, name_len. destruct (l <? S (length nm)) eqn:E; auto.
      apply Nat.ltb_ge in E. lia. }
    rewrite Hsup in Hins.
    assert (Hpath : rev (rp ++ [k]) = lower_name (skipn l nm)) by (apply path_step; assumption).
    assert (Hc : exists c, (match f_get k ch with Some c0 => Ok c0 | None => Ok (node_new (skipn l nm)) end
                  : res unit node) = Ok c /\ wf_node cls (rp ++ [k]) c).
    { destruct (f_get k ch) as [c0|] eqn:Hg.
      - exists c0. split; [reflexivity|]. eapply wf_forest_get; eauto.
      - eexists. split; [reflexivity|]. simpl. split; [symmetry; exact Hpath|]. split; [discriminate|exact I]. }
    destruct Hc as [c [Hc Hwfc]]. rewrite Hc in Hins. cbn [bind] in Hins.
    destruct (insert_desc c nm l e) as [[c' old']| |] eqn:Hrec; cbn [bind] in Hins; try discriminate.
    inversion Hins; subst n' old.
    destruct (IH c nm e cls (rp ++ [k]) c' old') as [Hwfc' Hlivec']; auto; [lia|].
    split.
    + simpl. split; [exact Hnn|]. split; [exact Hd|]. apply wf_forest_set; assumption.
    + unfold node_live. simpl. rewrite f_set_not_empty. apply andb_false_r.
Qed.

Lemma remove_in_class_wf : forall level (n : node) nm cls rp n' old rm,
  level <= length nm -> wf_node cls rp n ->
  remove_in_class n nm level = Ok (n', old, rm) ->
  wf_node cls rp n' /\ (node_live n -> rm = false -> node_live n').
Proof.
  unfold remove_in_class.
  induction level as [|l IH]; intros n nm cls rp n' old rm Hl Hwf Hrem.
  - destruct n as [nn d ch]. simpl in Hrem. inversion Hrem; subst. simpl in Hwf.
    destruct Hwf as [Hnn [Hd Hch]]. split.
    + simpl. split; [exact Hnn|]. split; [discriminate|exact Hch].
    + intros _ Hrm. unfold node_live. simpl. exact Hrm.
  - destruct (name_index_lt nm l) as [lab [Hi Hn]]; [lia|].
    cbn [remove_in_class_gen] in Hrem. rewrite Hi in Hrem. destruct n as [nn d ch].
    simpl in Hwf. destruct Hwf as [Hnn [Hd Hch]].
    set (k := lower_label lab) in *.
    destruct (f_get k ch) as [sub|] eqn:Hg.
    + destruct (wf_forest_get _ _ _ _ _ Hch Hg) as [Hwfsub Hlivesub].
      destruct (remove_in_class_gen true sub nm l) as [[[sub' old'] rm']| |] eqn:Hrec;
        cbn [bind] in Hrem; try discriminate.
      destruct (IH sub nm cls (rp ++ [k]) sub' old' rm') as [Hwfsub' Hlive']; auto; [lia|].
      destruct rm'.
      * inversion Hrem; subst n' old rm. split.
        -- simpl. split; [exact Hnn|]. split; [exact Hd|]. apply wf_forest_remove. exact Hch.
        -- intros _ Hrm. unfold node_live. simpl. rewrite andb_comm. exact Hrm.
      * inversion Hrem; subst n' old rm. split.
        -- simpl. split; [exact Hnn|]. split; [exact Hd|]. apply wf_forest_set; auto.
        -- intros _ _. unfold node_live. simpl. rewrite f_set_not_empty. apply andb_false_r.
    + inversion Hrem; subst n' old rm. split.
      * simpl. auto.
      * auto.
Qed.

(* an entry found at relative path [a] below a well-formed node carries that path as its name *)
Lemma adata_key : forall a (n : node) cls rp e,
  wf_node cls rp n -> adata n a = Some e -> e_class e = cls /\ lower_name (e_name e) = rev (rp ++ a).
Proof.
  induction a as [|k r IH]; intros n cls rp e Hwf Ha.
  - rewrite app_nil_r. apply wf_node_unfold in Hwf. destruct Hwf as [_ [Hd _]]. apply Hd. exact Ha.
  - rewrite adata_cons in Ha. apply wf_node_unfold in Hwf. destruct Hwf as [_ [_ Hch]].
    destruct (f_get k (node_children n)) as [c|] eqn:Hg; [|discriminate].
    destruct (wf_forest_get _ _ _ _ _ Hch Hg) as [Hwfc _].
    destruct (IH c cls (rp ++ [k]) e Hwfc Ha) as [H1 H2]. split; [exact H1|].
    rewrite H2. rewrite <- app_assoc. reflexivity.
Qed.

(* ---- listing a tree: (relative path, entry) pairs --------------------------------- *)

Fixpoint node_paths (n : node) : list (list clabel * entry) :=
  match n with
  | Node _ d ch => (match d with Some e => [([], e)] | None => [] end) ++ forest_paths ch
  end
with forest_paths (f : forest) : list (list clabel * entry) :=
  match f with
  | FNil => []
  | FCons k c r => map (fun pe => (k :: fst pe, snd pe)) (node_paths c) ++ forest_paths r
  end.

Lemma filter_data_app (a b : list (cname * option entry)) :
  filter_data (a ++ b) = filter_data a ++ filter_data b.
Proof.
  induction a as [|[nn [e|]] a IH]; simpl; auto. rewrite IH. reflexivity.
Qed.

Lemma paths_iter :
  (forall n : node, map snd (node_paths n) = filter_data (node_iter n)) /\
  (forall f : forest, map snd (forest_paths f) = filter_data (forest_iter f)).
Proof.
  apply node_forest_ind.
  - intros nn d ch IH. simpl. rewrite map_app, IH. destruct d; reflexivity.
  - reflexivity.
  - intros k c IHc r IHr.
    change (forest_paths (FCons k c r))
      with (map (fun pe => (k :: fst pe, snd pe)) (node_paths c) ++ forest_paths r).
    change (forest_iter (FCons k c r)) with (node_iter c ++ forest_iter r).
    rewrite map_app, map_map, filter_data_app, <- IHc, <- IHr. reflexivity.
Qed.

Lemma forest_paths_in cls rp (f : forest) : wf_forest cls rp f ->
  forall p e, In (p, e) (forest_paths f) <->
              exists k r c, p = k :: r /\ f_get k f = Some c /\ In (r, e) (node_paths c).
Proof.
  induction f as [|k' c' r' IH]; simpl; intros Hwf p e.
  - split; [tauto|]. intros [k [r [c [_ [H _]]]]]. discriminate.
  - destruct Hwf as [Hnone [_ [_ Hr]]]. rewrite in_app_iff, in_map_iff. split.
    + intros [[[r0 e0] [Heq Hin]]|Hin].
      * simpl in Heq. inversion Heq; subst. exists k', r0, c'.
        destruct (label_eq_dec k' k'); [auto|congruence].
      * apply (IH Hr) in Hin. destruct Hin as [k [r [c [Hp [Hg Hin]]]]].
        exists k, r, c. destruct (label_eq_dec k k') as [E|E]; [|auto].
        subst k. congruence.
    + intros [k [r [c [Hp [Hg Hin]]]]]. destruct (label_eq_dec k k') as [E|E].
      * inversion Hg; subst. left. exists (r, e). auto.
      * right. apply (IH Hr). eauto 6.
Qed.

Lemma node_paths_adata : forall p (n : node) cls rp e, wf_node cls rp n ->
  (In (p, e) (node_paths n) <-> adata n p = Some e).
Proof.
  induction p as [|k r IH]; intros n cls rp e Hwf; destruct n as [nn d ch]; simpl in Hwf;
    destruct Hwf as [_ [_ Hch]]; simpl node_paths; rewrite in_app_iff, (forest_paths_in _ _ _ Hch).
  - rewrite adata_nil. simpl. split.
    + intros [H|[k [r [c [H _]]]]]; [|discriminate]. destruct d; simpl in H; [|tauto].
      destruct H as [H|[]]. congruence.
    + intros H. left. rewrite H. left. reflexivity.
  - rewrite adata_cons. simpl. split.
    + intros [H|[k0 [r0 [c [Hp [Hg Hin]]]]]].
      * destruct d; simpl in H; [|tauto]. destruct H as [H|[]]. discriminate.
      * inversion Hp; subst. rewrite Hg.
        destruct (wf_forest_get _ _ _ _ _ Hch Hg) as [Hwfc _]. apply (IH c _ _ e Hwfc). exact Hin.
    + intros H. right. destruct (f_get k ch) as [c|] eqn:Hg; [|discriminate].
      destruct (wf_forest_get _ _ _ _ _ Hch Hg) as [Hwfc _].
      exists k, r, c. split; [reflexivity|]. split; [exact Hg|]. apply (IH c _ _ e Hwfc). exact H.
Qed.

Lemma NoDup_map_cons (k : clabel) (l : list (list clabel)) : NoDup l -> NoDup (map (cons k) l).
Proof.
  induction 1 as [|x l Hx Hl IH]; simpl; constructor; auto.
  rewrite in_map_iff. intros [y [Hy Hin]]. inversion Hy; subst. auto.
Qed.

Lemma NoDup_app_intro {A} (a b : list A) :
  NoDup a -> NoDup b -> (forall x, In x a -> In x b -> False) -> NoDup (a ++ b).
Proof.
  induction 1 as [|x a Hx Ha IH]; simpl; intros Hb Hd; auto.
  constructor.
  - rewrite in_app_iff. intros [H|H]; [auto|]. eapply Hd; [left; reflexivity|exact H].
  - apply IH; auto. intros y Hy1 Hy2. eapply Hd; [right; exact Hy1|exact Hy2].
Qed.

Lemma paths_nodup :
  (forall n : node, forall cls rp, wf_node cls rp n -> NoDup (map fst (node_paths n))) /\
  (forall f : forest, forall cls rp, wf_forest cls rp f ->
     NoDup (map fst (forest_paths f)) /\
     forall p, In p (map fst (forest_paths f)) -> exists k r, p = k :: r /\ f_get k f <> None).
Proof.
  apply node_forest_ind.
  - intros nn d ch IH cls rp Hwf. simpl in Hwf. destruct Hwf as [_ [_ Hch]].
    destruct (IH _ _ Hch) as [Hnd Hhead]. simpl. rewrite map_app.
    apply NoDup_app_intro; auto.
    + destruct d; simpl; repeat constructor. simpl. tauto.
    + intros p H1 H2. destruct d; simpl in H1; [|tauto]. destruct H1 as [H1|[]]. subst p.
      destruct (Hhead _ H2) as [k [r [H _]]]. discriminate.
  - intros cls rp _. simpl. split; [constructor|tauto].
  - intros k c IHc r IHr cls rp Hwf. simpl in Hwf. destruct Hwf as [Hnone [_ [Hc Hr]]].
    specialize (IHc _ _ Hc). destruct (IHr _ _ Hr) as [Hnd Hhead].
    simpl. rewrite map_app, map_map. simpl.
    rewrite <- (map_map fst (cons k)).
    split.
    + apply NoDup_app_intro; auto.
      * apply NoDup_map_cons. exact IHc.
      * intros p H1 H2. apply in_map_iff in H1. destruct H1 as [r0 [Hp _]]. subst p.
        destruct (Hhead _ H2) as [k2 [r2 [Hp Hg]]]. inversion Hp; subst. congruence.
    + intros p Hin. rewrite in_app_iff in Hin. destruct Hin as [Hin|Hin].
      * apply in_map_iff in Hin. destruct Hin as [r0 [Hp _]]. subst p.
        exists k, r0. split; [reflexivity|]. destruct (label_eq_dec k k); congruence.
      * destruct (Hhead _ Hin) as [k2 [r2 [Hp Hg]]]. exists k2, r2. split; [exact Hp|].
        destruct (label_eq_dec k2 k); congruence.
Qed.

End Inv.
