(* Limit-monotonicity of the Writer model (C04, clause iii): an operation that SUCCEEDS with final
   cursor c succeeds identically — same result, same octets, same compression decisions — under any
   smaller limit/available space that still has room for c.  [lower l a w] is w with limit l and
   available a; nothing else of the state is consulted differently. *)
From QV Require Import Base.ListX Gen.Consts Gen.WriterTab Model.NameWire Model.MsgWriter.
Local Open Scope nat_scope.

Definition lower (l a : nat) (w : writer) : writer := set_limit_avail w l a.

(* [mono a f]: f succeeds monotonically in the cursor, and its success survives lowering to [a] *)
Definition mono {A} (l a : nat) (f : writer -> M A) : Prop :=
  forall w x w', f w = Ok (x, w') ->
    w_cursor w <= w_cursor w' /\
    (w_cursor w' <= a -> f (lower l a w) = Ok (x, lower l a w')).

Lemma mono_try_push l a data : mono l a (try_push data).
Proof.
  intros w x w'. unfold try_push.
  destruct (w_avail w <? w_cursor w) eqn:E1; [discriminate|].
  destruct (length data <=? w_avail w - w_cursor w) eqn:E2; [|discriminate].
  unfold w_write. destruct (buf_write (w_buf w) (w_cursor w) data) as [b'|] eqn:E3; [|discriminate].
  intros H; inversion H; subst. cbn [w_cursor set_cursor set_buf]. split; [lia|].
  intros Ha. cbn [lower set_limit_avail w_avail w_cursor w_buf].
  assert (F1 : (a <? w_cursor w) = false) by (apply Nat.ltb_ge; lia).
  assert (F2 : (length data <=? a - w_cursor w) = true) by (apply Nat.leb_le; lia).
  rewrite F1, F2, E3. reflexivity.
Qed.

Lemma mono_ret {A} l a (x : A) : mono l a (fun w => Ok (x, w)).
Proof. intros w y w' H; inversion H; subst. split; [lia|]. reflexivity. Qed.

(* sequencing: g may inspect everything of the state except limit/available *)
Lemma mono_bind {A B} l a (f : writer -> M A) (g : A -> writer -> M B) :
  mono l a f -> (forall x, mono l a (g x)) ->
  mono l a (fun w => let* (x, w1) := f w in g x w1).
Proof.
  intros Hf Hg w y w'. cbn beta. destruct (f w) as [[x w1]|[e w1]|] eqn:E; cbn [bind]; try discriminate.
  intros H. destruct (Hf _ _ _ E) as [M1 L1]. destruct (Hg x _ _ _ H) as [M2 L2].
  split; [lia|]. intros Ha. rewrite L1 by lia. cbn [bind]. apply L2. exact Ha.
Qed.

Lemma mono_ext {A} l a (f g : writer -> M A) : (forall w, f w = g w) -> mono l a g -> mono l a f.
Proof. intros E Hg w x w' H. rewrite E in H. destruct (Hg _ _ _ H) as [A1 A2]. split; [exact A1|]. intros. rewrite E. auto. Qed.

Lemma mono_u16 l a v : mono l a (try_push_u16 v). Proof. apply mono_try_push. Qed.
Lemma mono_u32 l a v : mono l a (try_push_u32 v). Proof. apply mono_try_push. Qed.

Lemma mono_uncompressed l a n : mono l a (write_uncompressed_name n).
Proof.
  intros w x w'. unfold write_uncompressed_name.
  destruct (try_push (nm_wire n) w) as [[u w1]|[e w1]|] eqn:E; cbn [bind]; try discriminate.
  intros H; inversion H; subst. destruct (mono_try_push l a _ _ _ _ E) as [A1 A2]. split; [exact A1|].
  intros Ha. rewrite A2 by exact Ha. reflexivity.
Qed.

Lemma mono_compressed l a n : mono l a (write_compressed_unhinted_name n).
Proof.
  intros w x w'. unfold write_compressed_unhinted_name.
  change (w_mro (lower l a w)) with (w_mro w). change (w_qname (lower l a w)) with (w_qname w).
  change (w_mrn (lower l a w)) with (w_mrn w). change (w_mode (lower l a w)) with (w_mode w).
  change (w_buf (lower l a w)) with (w_buf w). change (w_cursor (lower l a w)) with (w_cursor w).
  assert (U := mono_uncompressed l a n w).
  destruct (or_else (w_mro w) (w_qname w)) as [p0|] eqn:E0; destruct (w_mrn w) as [p1|] eqn:E1;
    try (intros H; exact (U _ _ H)).
  all: match goal with |- context [lift ?r _] => destruct r as [cs|e|] end; cbn [lift bind]; try discriminate.
  all: destruct (longest_match cs) as [[col pp]|]; try (intros H; exact (U _ _ H)).
  all: destruct (col =? 0).
  all: try (destruct (try_push_u16 (ptr_word pp) w) as [[u w1]|[e w1]|] eqn:E; cbn [bind]; try discriminate;
            intros H; inversion H; subst; destruct (mono_u16 l a _ _ _ _ E) as [A1 A2]; split; [exact A1|];
            intros Ha; rewrite A2 by exact Ha; reflexivity).
  all: destruct (nm_wire_to n col) as [pre|]; try discriminate.
  all: destruct (try_push pre w) as [[u w1]|[e w1]|] eqn:Ea; cbn [bind]; try discriminate.
  all: destruct (try_push_u16 (ptr_word pp) w1) as [[u2 w2]|[e w2]|] eqn:Eb; cbn [bind]; try discriminate.
  all: intros H; inversion H; subst.
  all: destruct (mono_try_push l a _ _ _ _ Ea) as [A1 A2]; destruct (mono_u16 l a _ _ _ _ Eb) as [B1 B2].
  all: split; [lia|]; intros Ha; rewrite A2 by lia; cbn [bind]; rewrite B2 by exact Ha; reflexivity.
Qed.

Lemma mono_unhinted l a n : mono l a (write_unhinted_name n).
Proof.
  intros w x w'. unfold write_unhinted_name. change (w_mode (lower l a w)) with (w_mode w).
  destruct (w_mode w); try (apply mono_uncompressed);
    (destruct (2 <? length (nm_wire n)); [apply mono_compressed|apply mono_uncompressed]).
Qed.

Lemma mono_push_prior l a pr : mono l a (push_prior_ptr pr).
Proof.
  intros w x w'. unfold push_prior_ptr.
  destruct (try_push_u16 (ptr_word (p_ptr pr)) w) as [[u w1]|[e w1]|] eqn:E; cbn [bind]; try discriminate.
  intros H; inversion H; subst. destruct (mono_u16 l a _ _ _ _ E) as [A1 A2]. split; [exact A1|].
  intros Ha. rewrite A2 by exact Ha. reflexivity.
Qed.

Lemma mono_hinted l a h n : mono l a (write_hinted_name h n).
Proof.
  intros w x w'. unfold write_hinted_name.
  change (w_mode (lower l a w)) with (w_mode w). change (w_qname (lower l a w)) with (w_qname w).
  change (w_mro (lower l a w)) with (w_mro w). change (w_mrn (lower l a w)) with (w_mrn w).
  change (w_cursor (lower l a w)) with (w_cursor w).
  destruct (w_mode w) eqn:Em; try (apply mono_uncompressed).
  - destruct (length (nm_wire n) <=? 2); [apply mono_uncompressed|].
    destruct h as [| | |p|].
    + destruct (w_qname w); [apply mono_push_prior|apply mono_compressed].
    + destruct (w_mro w); [apply mono_push_prior|apply mono_compressed].
    + destruct (w_mrn w); [apply mono_push_prior|apply mono_compressed].
    + destruct (p <? w_cursor w); [apply mono_push_prior|apply mono_compressed].
    + apply mono_compressed.
  - destruct (length (nm_wire n) <=? 2); [apply mono_uncompressed|apply mono_compressed].
Qed.

Lemma lower_set_mrn l a w x : lower l a (set_mrn w x) = set_mrn (lower l a w) x.
Proof. reflexivity. Qed.
Lemma lower_set_mro l a w x : lower l a (set_mro w x) = set_mro (lower l a w) x.
Proof. reflexivity. Qed.

Lemma mono_components l a : forall cts rdata v, mono l a (write_components cts rdata v).
Proof.
  induction cts as [|ct rest IH]; intros rdata v w x w'.
  - cbn [write_components]. destruct (length rdata =? 0).
    + apply (mono_ret l a v).
    + destruct (try_push rdata w) as [[u w1]|[e w1]|] eqn:E; cbn [bind]; try discriminate.
      intros H; inversion H; subst. destruct (mono_try_push l a _ _ _ _ E) as [A1 A2]. split; [exact A1|].
      intros Ha. rewrite A2 by exact Ha. reflexivity.
  - assert (Hname : forall (wr : wname -> writer -> M (option prior)), (forall n, mono l a (wr n)) ->
      forall w x w',
      match parse_uncompressed_name rdata false with
      | Panic => Panic
      | Err _ => Err (InvalidRdata, w)
      | Ok (nm, len) =>
        let n := labels_of_name nm in
        let* (pr, w1) := wr n w in
        write_components rest (skipn len rdata) (hv_push v pr) (set_mrn w1 pr)
      end = Ok (x, w') ->
      w_cursor w <= w_cursor w' /\
      (w_cursor w' <= a ->
       match parse_uncompressed_name rdata false with
       | Panic => Panic
       | Err _ => Err (InvalidRdata, lower l a w)
       | Ok (nm, len) =>
         let n := labels_of_name nm in
         let* (pr, w1) := wr n (lower l a w) in
         write_components rest (skipn len rdata) (hv_push v pr) (set_mrn w1 pr)
       end = Ok (x, lower l a w'))).
    { intros wr Hwr w0 x0 w0'. destruct (parse_uncompressed_name rdata false) as [[nm len]|e|]; try discriminate.
      cbn zeta. destruct (wr (labels_of_name nm) w0) as [[pr w1]|[e w1]|] eqn:E; cbn [bind]; try discriminate.
      intros H. destruct (Hwr _ _ _ _ E) as [A1 A2].
      destruct (IH _ _ _ _ _ H) as [B1 B2]. cbn [w_cursor set_mrn] in B1.
      split; [lia|]. intros Ha. rewrite A2 by (cbn [w_cursor set_mrn] in *; lia). cbn [bind].
      rewrite <- lower_set_mrn. apply B2. exact Ha. }
    destruct ct as [| |k]; cbn [write_components].
    + apply (Hname write_unhinted_name (mono_unhinted l a)).
    + apply (Hname write_uncompressed_name (mono_uncompressed l a)).
    + destruct (length rdata <? k); [discriminate|].
      destruct (try_push (firstn k rdata) w) as [[u w1]|[e w1]|] eqn:E; cbn [bind]; try discriminate.
      intros H. destruct (mono_try_push l a _ _ _ _ E) as [A1 A2]. destruct (IH _ _ _ _ _ H) as [B1 B2].
      split; [lia|]. intros Ha. rewrite A2 by lia. cbn [bind]. apply B2. exact Ha.
Qed.

Lemma mono_add_rr l a h owner ty cl ttl rd v : mono l a (add_rr h owner ty cl ttl rd v).
Proof.
  intros w x w'. unfold add_rr.
  destruct (write_hinted_name h owner w) as [[pr w1]|[e w1]|] eqn:E1; cbn [bind]; try discriminate.
  destruct (try_push_u16 ty (set_mro w1 pr)) as [[u2 w2]|[e w2]|] eqn:E2; cbn [bind]; try discriminate.
  destruct (try_push_u16 cl w2) as [[u3 w3]|[e w3]|] eqn:E3; cbn [bind]; try discriminate.
  destruct (try_push_u32 ttl w3) as [[u4 w4]|[e w4]|] eqn:E4; cbn [bind]; try discriminate.
  destruct (w_avail w4 <? w_cursor w4) eqn:F1; [discriminate|].
  destruct (w_avail w4 - w_cursor w4 <? 2) eqn:F2; [discriminate|].
  destruct (write_components (component_types cl ty) rd v (set_cursor w4 (w_cursor w4 + 2)))
    as [[v' w6]|[e w6]|] eqn:E6; cbn [bind]; try discriminate.
  destruct (w_cursor w6 <? w_cursor w4 + 2) eqn:F3; [discriminate|].
  unfold lift. destruct (w_write w6 (w_cursor w4) _) as [w7|e|] eqn:E7; cbn [bind]; try discriminate.
  intros H; inversion H; subst.
  destruct (mono_hinted l a _ _ _ _ _ E1) as [A1 L1]. destruct (mono_u16 l a _ _ _ _ E2) as [A2 L2].
  destruct (mono_u16 l a _ _ _ _ E3) as [A3 L3]. destruct (mono_u32 l a _ _ _ _ E4) as [A4 L4].
  destruct (mono_components l a _ _ _ _ _ _ E6) as [A6 L6].
  cbn [w_cursor set_mro set_cursor] in *.
  assert (C7 : w_cursor w' = w_cursor w6 /\ w_avail w' = w_avail w6).
  { unfold w_write in E7. destruct (buf_write _ _ _); inversion E7; subst. split; reflexivity. }
  destruct C7 as [C7 _]. split; [lia|]. intros Ha.
  rewrite L1 by lia. cbn [bind]. rewrite <- lower_set_mro. rewrite L2 by lia. cbn [bind].
  rewrite L3 by lia. cbn [bind]. rewrite L4 by lia. cbn [bind].
  cbn [lower set_limit_avail w_avail w_cursor].
  assert (G1 : (a <? w_cursor w4) = false) by (apply Nat.ltb_ge; lia).
  assert (G2 : (a - w_cursor w4 <? 2) = false) by (apply Nat.ltb_ge; lia).
  rewrite G1, G2.
  replace (set_cursor (lower l a w4) (w_cursor w4 + 2)) with (lower l a (set_cursor w4 (w_cursor w4 + 2))) by reflexivity.
  rewrite L6 by lia. cbn [bind]. cbn [lower set_limit_avail w_cursor]. rewrite F3.
  unfold w_write in *. change (w_buf (lower l a w6)) with (w_buf w6).
  destruct (buf_write (w_buf w6) (w_cursor w4) _) as [b'|]; [|discriminate].
  injection E7 as E7. subst w'. reflexivity.
Qed.

Lemma mono_rrset_loop l a : forall rds h owner ty cl ttl v k, mono l a (add_rrset_loop h owner ty cl ttl rds v k).
Proof.
  induction rds as [|rd rds IH]; intros h owner ty cl ttl v k w x w'; cbn [add_rrset_loop].
  - apply (mono_ret l a (v, k)).
  - destruct (add_rr h owner ty cl ttl rd v w) as [[v' w1]|[e w1]|] eqn:E; cbn [bind]; try discriminate.
    intros H. destruct (mono_add_rr l a _ _ _ _ _ _ _ _ _ _ E) as [A1 A2]. destruct (IH _ _ _ _ _ _ _ _ _ _ H) as [B1 B2].
    split; [lia|]. intros Ha. rewrite A2 by lia. cbn [bind]. apply B2. exact Ha.
Qed.

Lemma change_section_lower l a s w u w' : change_section s w = Ok (u, w') ->
  w_cursor w' = w_cursor w /\ change_section s (lower l a w) = Ok (u, lower l a w').
Proof.
  unfold change_section. change (w_section (lower l a w)) with (w_section w).
  destruct s, (w_section w); intros H; inversion H; subst; split; reflexivity.
Qed.

(* the two operations query answering uses *)
Theorem mono_section_rr l a s h owner ty cl ttl rd v : mono l a (add_section_rr s h owner ty cl ttl rd v).
Proof.
  intros w x w'. unfold add_section_rr, with_rollback.
  destruct (change_section s w) as [[u w1]|[e w1]|] eqn:E1; cbn [bind]; try discriminate.
  destruct (add_rr h owner ty cl ttl rd v w1) as [[v' w2]|[e w2]|] eqn:E2; cbn [bind]; try discriminate.
  destruct (checked_add16 (sec_count s w2) 1) as [c|] eqn:E3; try discriminate.
  intros H; inversion H; subst.
  destruct (change_section_lower l a _ _ _ _ E1) as [C1 L1]. destruct (mono_add_rr l a _ _ _ _ _ _ _ _ _ _ E2) as [A2 L2].
  assert (C3 : w_cursor (set_sec_count s w2 c) = w_cursor w2) by (destruct s; reflexivity).
  split; [lia|]. intros Ha. rewrite L1. cbn [bind]. rewrite L2 by lia. cbn [bind].
  assert (S : sec_count s (lower l a w2) = sec_count s w2) by (destruct s; reflexivity). rewrite S, E3.
  destruct s; reflexivity.
Qed.

Theorem mono_section_rrset l a s h owner ty cl ttl rds v : mono l a (add_section_rrset s h owner ty cl ttl rds v).
Proof.
  intros w x w'. unfold add_section_rrset, with_rollback.
  destruct (change_section s w) as [[u w1]|[e w1]|] eqn:E1; cbn [bind]; try discriminate.
  destruct (add_rrset_loop h owner ty cl ttl rds v 0 w1) as [[[v' k] w2]|[e w2]|] eqn:E2; cbn [bind]; try discriminate.
  destruct (65535 <? N.of_nat k)%N eqn:E4; try discriminate.
  destruct (checked_add16 (sec_count s w2) (N.of_nat k)) as [c|] eqn:E3; try discriminate.
  intros H; inversion H; subst.
  destruct (change_section_lower l a _ _ _ _ E1) as [C1 L1]. destruct (mono_rrset_loop l a _ _ _ _ _ _ _ _ _ _ _ E2) as [A2 L2].
  assert (C3 : w_cursor (set_sec_count s w2 c) = w_cursor w2) by (destruct s; reflexivity).
  split; [lia|]. intros Ha. rewrite L1. cbn [bind]. rewrite L2 by lia. cbn [bind].
  assert (S : sec_count s (lower l a w2) = sec_count s w2) by (destruct s; reflexivity). rewrite E4, S, E3.
  destruct s; reflexivity.
Qed.

Theorem mono_add_question l a qn qt qc : mono l a (add_question qn qt qc).
Proof.
  intros w x w'. unfold add_question. change (w_section (lower l a w)) with (w_section w).
  change (w_qd (lower l a w)) with (w_qd w).
  destruct (w_section w); try discriminate. destruct (checked_add16 (w_qd w) 1) as [nq|]; [|discriminate].
  unfold with_rollback.
  destruct (write_unhinted_name qn w) as [[pr w1]|[e w1]|] eqn:E1; cbn [bind]; try discriminate.
  set (w1q := if (w_qd w1 =? 0)%N then set_qname w1 pr else w1).
  destruct (try_push_u16 qt w1q) as [[u2 w2]|[e w2]|] eqn:E2; cbn [bind]; try discriminate.
  destruct (try_push_u16 qc w2) as [[u3 w3]|[e w3]|] eqn:E3; cbn [bind]; try discriminate.
  intros H; inversion H; subst.
  destruct (mono_unhinted l a _ _ _ _ E1) as [A1 L1]. destruct (mono_u16 l a _ _ _ _ E2) as [A2 L2].
  destruct (mono_u16 l a _ _ _ _ E3) as [A3 L3].
  assert (C1 : w_cursor w1q = w_cursor w1) by (unfold w1q; destruct (w_qd w1 =? 0)%N; reflexivity).
  cbn [w_cursor set_rr_start set_counts]. split; [lia|]. intros Ha.
  rewrite L1 by lia. cbn [bind].
  assert (Q : (if (w_qd (lower l a w1) =? 0)%N then set_qname (lower l a w1) pr else lower l a w1) = lower l a w1q).
  { unfold w1q. change (w_qd (lower l a w1)) with (w_qd w1). destruct (w_qd w1 =? 0)%N; reflexivity. }
  rewrite Q. rewrite L2 by lia. cbn [bind]. rewrite L3 by lia. cbn [bind]. reflexivity.
Qed.
