(* The getters return the header settings and counts denoted by the operations that succeeded. *)
From QV Require Import Base.ListX Model.MsgWriter Spec.MsgWriterS Spec.MsgWriterAbsS
     Proofs.NameWireP Proofs.MsgWriterP Proofs.MsgWriterScanP Proofs.MsgWriterNameP Proofs.MsgWriterInvP
     Proofs.MsgWriterHdrP.

Local Open Scope nat_scope.

Definition bN (b : bool) : N := if b then 1%N else 0%N.

Definition expected_get (H : ahdr) (qd an ns ar : N) : list N :=
  [h_id H; bN (h_qr H); h_opcode H; bN (h_aa H); bN (h_tc H); bN (h_rd H); bN (h_ra H); h_rcode H;
   (match h_edns H with Some (_, up) => up * 16 + h_rcode H | None => h_rcode H end)%N; qd; an; ns; ar].

Lemma get2_sweep :
  forallb (fun x =>
    (flag_of x 128 =? bN (N.testbit x 7))%N && (N.land x 120 / 2 ^ 3 =? (x / 8) mod 16)%N &&
    (flag_of x 4 =? bN (N.testbit x 2))%N && (flag_of x 2 =? bN (N.testbit x 1))%N &&
    (flag_of x 1 =? bN (N.testbit x 0))%N && (N.land x 15 =? x mod 16)%N) (upto 256) = true.
Proof. vm_compute. reflexivity. Qed.

Lemma xrc_sweep :
  forallb (fun up => forallb (fun rc => (N.lor (up * 16) rc =? up * 16 + rc)%N) (upto 16)) (upto 256) = true.
Proof. vm_compute. reflexivity. Qed.

Lemma be16_value (b : bytes) v : slice b 0 2 = be16 v -> (v < 65536)%N ->
  exists b0 b1, nth_error b 0 = Some b0 /\ nth_error b 1 = Some b1 /\ (b0 * 256 + b1)%N = v.
Proof.
  intros Hs Hv. unfold be16 in Hs. apply slice_head in Hs as [H0 [Hs _]]. apply slice_head in Hs as [H1 _].
  eexists. eexists. split; [exact H0|]. split; [exact H1|].
  assert (E : (v / 256 < 256)%N) by (apply N.div_lt_upper_bound; lia).
  rewrite (N.mod_small (v / 256) 256 E). pose proof (N.div_mod v 256 ltac:(lia)). lia.
Qed.

Theorem getters_spec w H : HInv w H -> (forall e, w_edns w = Some e -> (e_upper e < 256)%N) ->
  getters w = Ok (expected_get H (w_qd w) (w_an w) (w_ns w) (w_ar w)).
Proof.
  intros [Hl Hid Hb [x2 [E2 [B2 F2]]] [x3 [E3 [B3 F3]]] He Ht] Hup.
  destruct (be16_value _ _ Hid Hb) as [b0 [b1 [N0 [N1 Ev]]]].
  unfold getters, hdr_octet.
  change (N.to_nat ID_START) with 0. change (N.to_nat (ID_START + 1)) with 1.
  change (N.to_nat QR_BYTE) with 2. change (N.to_nat OPCODE_BYTE) with 2. change (N.to_nat AA_BYTE) with 2.
  change (N.to_nat TC_BYTE) with 2. change (N.to_nat RD_BYTE) with 2. change (N.to_nat RA_BYTE) with 3.
  change (N.to_nat RCODE_BYTE) with 3.
  rewrite N0, N1, E2, E3. cbn [bind].
  change QR_MASK with 128%N. change OPCODE_MASK with 120%N. change OPCODE_SHIFT with 3%N.
  change AA_MASK with 4%N. change TC_MASK with 2%N. change RD_MASK with 1%N. change RA_MASK with 128%N.
  change RCODE_MASK with 15%N.
  pose proof get2_sweep as S. rewrite forallb_forall in S.
  pose proof (S x2 (upto_In 256 x2 ltac:(simpl; lia))) as S2.
  pose proof (S x3 (upto_In 256 x3 ltac:(simpl; lia))) as S3.
  rewrite !andb_true_iff in S2, S3.
  destruct S2 as [[[[[A1 A2] A3] A4] A5] _]. destruct S3 as [[[[[C1 _] _] _] _] C6].
  apply N.eqb_eq in A1, A2, A3, A4, A5, C1, C6.
  unfold dec2 in F2. unfold dec3 in F3.
  assert (I1 : N.testbit x2 7 = h_qr H) by congruence.
  assert (I2 : ((x2 / 8) mod 16)%N = h_opcode H) by congruence.
  assert (I3 : N.testbit x2 2 = h_aa H) by congruence.
  assert (I4 : N.testbit x2 1 = h_tc H) by congruence.
  assert (I5 : N.testbit x2 0 = h_rd H) by congruence.
  assert (J1 : N.testbit x3 7 = h_ra H) by congruence.
  assert (J3 : (x3 mod 16)%N = h_rcode H) by congruence.
  unfold expected_get. f_equal.
  rewrite A1, A2, A3, A4, A5, C1, C6, Ev. rewrite I1, I2, I3, I4, I5, J1, J3.
  f_equal. f_equal. f_equal. f_equal. f_equal. f_equal. f_equal. f_equal. f_equal.
  rewrite He. destruct (h_edns H) as [[u up]|] eqn:Eh; auto. simpl.
  assert (Hu : (up < 256)%N).
  { rewrite He in Hup. specialize (Hup _ eq_refl). exact Hup. }
  assert (Hr : (h_rcode H < 16)%N) by (rewrite <- J3; apply N.mod_lt; lia).
  pose proof (sweep2 _ _ 256 up (h_rcode H) xrc_sweep ltac:(simpl; lia) (upto_In 16 _ Hr)) as X.
  apply N.eqb_eq in X. rewrite X. reflexivity.
Qed.
