(* C23 stage 1 (token level): escapes, quoted and unquoted <character-string>s, decimal integers.
   For every octet string and every legal escaping choice the parser gives the string back. *)
From QV Require Import Base.ListX Model.ZfReader Model.ZfParser Proofs.ZfReaderP Proofs.ZfStdP Proofs.ZfRunP
  Spec.ZfRenderS.

Local Open Scope N_scope.

(* ---- escapes ------------------------------------------------------------------------------------------------------ *)

Lemma is_digit_dig c : is_digit c = is_dig c. Proof. reflexivity. Qed.

(* \c *)
Lemma escape_char c b : is_dig c = false -> runs anyt parse_escape [c] b b c.
Proof.
  intros Hc. unfold parse_escape. apply runs_getpos. intros p.
  apply runs_app_nil. eapply runs_bind; [apply read_octet_runs|intros; exact I|].
  cbv beta iota. rewrite is_digit_dig, Hc. apply runs_ret.
Qed.

Lemma read2_runs x y b : x <> 10 -> y <> 10 -> runs anyt (lift read2) [x; y] b b (Some (x, y)).
Proof.
  intros Hx Hy r t E P W _. simpl in E. unfold lift, read2. rewrite E.
  eexists. split; [reflexivity|]. unfold post. cbn [r_rest r_paren r_pos p_line r_fuel].
  rewrite !count_nl_cons, count_nl_nil. apply N.eqb_neq in Hx, Hy. rewrite Hx, Hy. repeat split; auto; lia.
Qed.

Definition dec3_good (c : N) : bool :=
  match dec3 c with
  | [x; y; z] =>
    is_digit x && is_digit y && is_digit z && negb (y =? 10) && negb (z =? 10)
    && (100 * (x - 48) + 10 * (y - 48) + (z - 48) =? c) && negb (255 <? 100 * (x - 48) + 10 * (y - 48) + (z - 48))
  | _ => false
  end.

Lemma dec3_sweep : forallb dec3_good octets256 = true.
Proof. vm_compute. reflexivity. Qed.

(* \DDD *)
Lemma escape_dec c b : c < 256 -> runs anyt parse_escape (dec3 c) b b c.
Proof.
  intros Hc. pose proof (sweep256 _ dec3_sweep c Hc) as G. unfold dec3_good in G.
  destruct (dec3 c) as [|x [|y [|z [|? ?]]]] eqn:Ed; try discriminate.
  apply andb_true_iff in G; destruct G as [G Hle]. apply andb_true_iff in G; destruct G as [G Heq].
  apply andb_true_iff in G; destruct G as [G Hnz]. apply andb_true_iff in G; destruct G as [G Hny].
  apply andb_true_iff in G; destruct G as [G Hdz]. apply andb_true_iff in G; destruct G as [Hdx Hdy].
  apply negb_true_iff in Hle, Hnz, Hny. apply N.eqb_eq in Heq. apply N.eqb_neq in Hnz, Hny.
  unfold parse_escape. apply runs_getpos. intros p.
  change [x; y; z] with ([x] ++ [y; z]). eapply runs_bind; [apply read_octet_runs|intros; exact I|].
  cbv beta iota. rewrite Hdx. unfold parse_decimal_escape.
  apply runs_app_nil. eapply runs_bind; [apply read2_runs; assumption|intros; exact I|].
  cbv beta iota. rewrite Hdy, Hdz. cbn [andb negb]. rewrite Hle. rewrite Heq. apply runs_ret.
Qed.

Lemma render_octet_esc e c : e <> ERaw -> render_octet e c = 92 :: tl (render_octet e c).
Proof. destruct e; [congruence|reflexivity|reflexivity]. Qed.

(* after the backslash *)
Theorem escape_runs k e c b : e <> ERaw -> esc_ok k e c = true ->
  runs anyt parse_escape (tl (render_octet e c)) b b c.
Proof.
  intros He Hok. unfold esc_ok in Hok. apply andb_true_iff in Hok. destruct Hok as [Hc Hok]. apply N.ltb_lt in Hc.
  destruct e; [congruence| |]; cbn [render_octet tl].
  - apply escape_char. apply negb_true_iff. exact Hok.
  - apply escape_dec. exact Hc.
Qed.

(* ---- what a raw octet may be ------------------------------------------------------------------------------------------ *)

Lemma raw_unq_plain c : raw_ok KUnquoted c = true -> plainb c = true /\ c <> 92.
Proof.
  unfold raw_ok, special. intros H. apply negb_true_iff in H.
  apply orb_false_iff in H; destruct H as [H H92]. apply orb_false_iff in H; destruct H as [H H59].
  apply orb_false_iff in H; destruct H as [H H41]. apply orb_false_iff in H; destruct H as [H H40].
  apply orb_false_iff in H; destruct H as [H H13]. apply orb_false_iff in H; destruct H as [Hb H10].
  unfold plainb, ends_field. change (is_whitespace c) with (is_blank c).
  rewrite Hb, H40, H41, H59, H10, H13. split; [reflexivity|]. apply N.eqb_neq. exact H92.
Qed.

Lemma raw_label_plain c : raw_ok KLabel c = true -> plainb c = true /\ c <> 92 /\ c <> 46.
Proof.
  unfold raw_ok. intros H. apply negb_true_iff, orb_false_iff in H. destruct H as [H1 H2].
  assert (G : raw_ok KUnquoted c = true) by (unfold raw_ok; rewrite H1; reflexivity).
  apply raw_unq_plain in G. apply N.eqb_neq in H2. tauto.
Qed.

Lemma raw_quoted c : raw_ok KQuoted c = true -> c <> 34 /\ c <> 92.
Proof.
  unfold raw_ok. intros H. apply negb_true_iff, orb_false_iff in H. destruct H as [H1 H2].
  apply N.eqb_neq in H1, H2. tauto.
Qed.

Lemma plain92 : plainb 92 = true. Proof. reflexivity. Qed.

Lemma esc_ok_raw k c : esc_ok k ERaw c = true -> raw_ok k c = true.
Proof. unfold esc_ok. intros H. apply andb_true_iff in H. tauto. Qed.

(* ---- unquoted <character-string> ------------------------------------------------------------------------------------------ *)

Lemma cs_push_ok s o : (length s < 255)%nat -> cs_push s o = Some (s ++ [o]).
Proof. intros H. unfold cs_push. destruct (255 <=? length s)%nat eqn:E; [apply Nat.leb_le in E; lia|reflexivity]. Qed.

Lemma pucs_runs : forall s es acc fuel start b, octets_ok KUnquoted es s = true ->
  (length acc + length s <= 255)%nat ->
  runsN fuel fend (pucs_loop fuel start acc) (render_octets es s) b b (acc ++ s).
Proof.
  induction s as [|c s IH]; intros es acc fuel start b Hok Hlen; (destruct fuel as [|fuel]; [apply runsN_0|]).
  - cbn [render_octets pucs_loop]. rewrite app_nil_r.
    change (@nil N) with (@nil N ++ []). eapply runsN_bind; [apply rfo_end|intros t Ht; exact Ht|].
    cbv beta iota. apply runs_N, runs_ret.
  - cbn [octets_ok] in Hok. apply andb_true_iff in Hok. destruct Hok as [Hc Hs].
    cbn [length] in Hlen.
    assert (Hacc : (acc ++ [c]) ++ s = acc ++ c :: s) by (rewrite <- app_assoc; reflexivity).
    cbn [render_octets pucs_loop]. destruct (hd EDec es) eqn:Ee.
    + (* raw *)
      apply esc_ok_raw, raw_unq_plain in Hc. destruct Hc as [Hp H92].
      cbn [render_octet]. eapply runsN_bind_dec; [apply rfo_plain; exact Hp|discriminate|intros; exact I|].
      cbv beta iota. apply N.eqb_neq in H92. rewrite H92. rewrite cs_push_ok by lia.
      rewrite <- Hacc. apply IH; [exact Hs|rewrite app_length; simpl; lia].
    + rewrite (render_octet_esc EChar c) by discriminate. cbn [app].
      change (92 :: tl (render_octet EChar c) ++ render_octets (tl es) s)
        with ([92] ++ tl (render_octet EChar c) ++ render_octets (tl es) s).
      eapply runsN_bind_dec; [apply rfo_plain; exact plain92|discriminate|intros; exact I|].
      cbv beta iota. change (92 =? 92) with true. cbv iota.
      eapply runsN_bind; [eapply escape_runs; [|exact Hc]; discriminate|intros; exact I|].
      cbv beta. rewrite cs_push_ok by lia. rewrite <- Hacc. apply IH; [exact Hs|rewrite app_length; simpl; lia].
    + rewrite (render_octet_esc EDec c) by discriminate. cbn [app].
      change (92 :: tl (render_octet EDec c) ++ render_octets (tl es) s)
        with ([92] ++ tl (render_octet EDec c) ++ render_octets (tl es) s).
      eapply runsN_bind_dec; [apply rfo_plain; exact plain92|discriminate|intros; exact I|].
      cbv beta iota. change (92 =? 92) with true. cbv iota.
      eapply runsN_bind; [eapply escape_runs; [|exact Hc]; discriminate|intros; exact I|].
      cbv beta. rewrite cs_push_ok by lia. rewrite <- Hacc. apply IH; [exact Hs|rewrite app_length; simpl; lia].
Qed.

(* ---- quoted <character-string> ---------------------------------------------------------------------------------------------- *)

Lemma pqcs_runs : forall s es acc fuel start b, octets_ok KQuoted es s = true ->
  (length acc + length s <= 255)%nat ->
  runsN fuel anyt (pqcs_loop fuel start acc) (render_octets es s ++ [34]) b b (acc ++ s).
Proof.
  induction s as [|c s IH]; intros es acc fuel start b Hok Hlen; (destruct fuel as [|fuel]; [apply runsN_0|]).
  - cbn [render_octets pqcs_loop app]. rewrite app_nil_r. apply runsN_getpos. intros p.
    change [34] with ([34] ++ []). eapply runsN_bind; [apply read_octet_runs|intros; exact I|].
    cbv beta iota. change (34 =? 92) with false. change (34 =? 34) with true. cbv iota. apply runs_N, runs_ret.
  - cbn [octets_ok] in Hok. apply andb_true_iff in Hok. destruct Hok as [Hc Hs].
    cbn [length] in Hlen.
    assert (Hacc : (acc ++ [c]) ++ s = acc ++ c :: s) by (rewrite <- app_assoc; reflexivity).
    cbn [render_octets pqcs_loop]. apply runsN_getpos. intros p. rewrite <- app_assoc.
    destruct (hd EDec es) eqn:Ee.
    + apply esc_ok_raw, raw_quoted in Hc. destruct Hc as [H34 H92].
      cbn [render_octet]. eapply runsN_bind_dec; [apply read_octet_runs|discriminate|intros; exact I|].
      cbv beta iota. apply N.eqb_neq in H92, H34. rewrite H92, H34. rewrite cs_push_ok by lia.
      rewrite <- Hacc. apply IH; [exact Hs|rewrite app_length; simpl; lia].
    + rewrite (render_octet_esc EChar c) by discriminate. cbn [app].
      change (92 :: tl (render_octet EChar c) ++ render_octets (tl es) s ++ [34])
        with ([92] ++ tl (render_octet EChar c) ++ render_octets (tl es) s ++ [34]).
      eapply runsN_bind_dec; [apply read_octet_runs|discriminate|intros; exact I|].
      cbv beta iota. change (92 =? 92) with true. cbv iota.
      eapply runsN_bind; [eapply escape_runs; [|exact Hc]; discriminate|intros; exact I|].
      cbv beta. rewrite cs_push_ok by lia. rewrite <- Hacc. apply IH; [exact Hs|rewrite app_length; simpl; lia].
    + rewrite (render_octet_esc EDec c) by discriminate. cbn [app].
      change (92 :: tl (render_octet EDec c) ++ render_octets (tl es) s ++ [34])
        with ([92] ++ tl (render_octet EDec c) ++ render_octets (tl es) s ++ [34]).
      eapply runsN_bind_dec; [apply read_octet_runs|discriminate|intros; exact I|].
      cbv beta iota. change (92 =? 92) with true. cbv iota.
      eapply runsN_bind; [eapply escape_runs; [|exact Hc]; discriminate|intros; exact I|].
      cbv beta. rewrite cs_push_ok by lia. rewrite <- Hacc. apply IH; [exact Hs|rewrite app_length; simpl; lia].
Qed.

(* ---- parse_character_string ---------------------------------------------------------------------------------------------------- *)

(* what may follow the token: anything after a closing quote, a field end otherwise *)
Definition ftail (closed : bool) (t : bytes) : Prop := if closed then True else fend t.

Definition string_closed (sc : schoice) : bool := match sc with SQuoted _ => true | SUnquoted _ => false end.

Theorem string_runs first sc s b : string_ok first sc s = true ->
  runs (ftail (string_closed sc)) parse_character_string (render_string sc s) b b s.
Proof.
  unfold string_ok. intros H. apply andb_true_iff in H. destruct H as [Hlen H]. apply Nat.leb_le in Hlen.
  destruct sc as [es|es]; cbn [string_closed ftail render_string].
  - intros r t E P W Ht. unfold parse_character_string, peek_octet. rewrite E. cbn [app hd_error].
    change (34 =? 34) with true. cbv iota. revert r t E P W Ht.
    change (runs anyt parse_quoted_character_string (34 :: render_octets es s ++ [34]) b b s).
    unfold parse_quoted_character_string. apply runs_getpos. intros p.
    change (34 :: render_octets es s ++ [34]) with ([34] ++ render_octets es s ++ [34]).
    eapply runs_bind; [apply read_octet_runs|intros; exact I|]. cbv beta.
    apply runs_get_fuel. intros n. apply (pqcs_runs s es [] n p b H). simpl. exact Hlen.
  - repeat (apply andb_true_iff in H; destruct H as [H ?]).
    intros r t E P W Ht. unfold parse_character_string, peek_octet. rewrite E.
    assert (G : (match hd_error (render_octets es s ++ t) with
                 | Some c => if c =? 34 then parse_quoted_character_string r else parse_unquoted_character_string r
                 | None => parse_unquoted_character_string r end) = parse_unquoted_character_string r).
    { destruct (render_octets es s) as [|x l] eqn:El.
      - destruct s; [discriminate|]. cbn [render_octets] in El. destruct (hd EDec es); discriminate.
      - cbn [app hd_error]. cbn [head_is] in H1. apply negb_true_iff in H1. rewrite H1. reflexivity. }
    rewrite G. clear G. revert r t E P W Ht.
    change (runs fend parse_unquoted_character_string (render_octets es s) b b s).
    unfold parse_unquoted_character_string. apply runs_getpos. intros p.
    apply runs_get_fuel. intros n. apply (pucs_runs s es [] n p b H). simpl. exact Hlen.
Qed.

(* ---- numbers --------------------------------------------------------------------------------------------------------------------- *)

Definition dval (base : N) (ds : bytes) (acc : N) : N := fold_left (fun a c => a * base + (c - 48)) ds acc.

Lemma dval_app base a b acc : dval base (a ++ b) acc = dval base b (dval base a acc).
Proof. unfold dval. apply fold_left_app. Qed.

Lemma dval_ge base : 1 <= base -> forall ds acc, acc <= dval base ds acc.
Proof.
  intros Hb. induction ds as [|c ds IH]; intros acc; [simpl; lia|]. cbn [dval fold_left].
  eapply N.le_trans; [|apply IH]. nia.
Qed.

Definition digit_of (base c : N) : Prop := 48 <= c < 48 + base.

Lemma num_f_digits base : 1 <= base -> forall fuel n, Forall (digit_of base) (num_f base fuel n).
Proof.
  intros Hb. induction fuel as [|f IH]; intros n; [constructor|]. cbn [num_f]. apply Forall_app. split.
  - destruct (n <? base); [constructor|apply IH].
  - constructor; [|constructor]. unfold digit_of. assert (Hm : n mod base < base) by (apply N.mod_lt; lia). generalize dependent (n mod base). intros m Hm. lia.
Qed.

Lemma num_f_val base : 2 <= base -> forall fuel n, n < 2 ^ N.of_nat fuel -> dval base (num_f base fuel n) 0 = n.
Proof.
  intros Hb. induction fuel as [|f IH]; intros n Hn.
  - simpl in Hn. assert (n = 0) by lia. subst. reflexivity.
  - cbn [num_f]. rewrite dval_app. cbn [dval fold_left]. fold (dval base).
    replace (48 + n mod base - 48) with (n mod base) by (generalize (n mod base); intros; lia).
    destruct (n <? base) eqn:E.
    + apply N.ltb_lt in E. cbn [dval fold_left]. rewrite N.mod_small by exact E. lia.
    + rewrite IH.
      * rewrite N.mul_comm. symmetry. apply N.div_mod. lia.
      * rewrite Nat2N.inj_succ, N.pow_succ_r' in Hn.
        apply N.div_lt_upper_bound; [lia|]. nia.
Qed.

Lemma num_f_length base : forall fuel n, (length (num_f base fuel n) <= fuel)%nat.
Proof.
  induction fuel as [|f IH]; intros n; [simpl; lia|]. cbn [num_f]. rewrite app_length. cbn [length].
  destruct (n <? base); [simpl; lia|]. specialize (IH (n / base)). lia.
Qed.

Lemma num_f_nonempty base f n : num_f base (S f) n <> [].
Proof. cbn [num_f]. destruct (n <? base); [discriminate|]. destruct (num_f base f (n / base)); discriminate. Qed.

Lemma log2_fuel n : n < 2 ^ N.of_nat (S (N.to_nat (N.log2 n))).
Proof.
  rewrite Nat2N.inj_succ, N2Nat.id. destruct (N.eq_dec n 0) as [->|Hn]; [reflexivity|].
  apply N.log2_spec. lia.
Qed.

Lemma num_val base n : 2 <= base -> dval base (num base n) 0 = n.
Proof. intros Hb. apply num_f_val; [exact Hb|apply log2_fuel]. Qed.

Lemma num_digits base n : 1 <= base -> Forall (digit_of base) (num base n).
Proof. intros Hb. apply num_f_digits. exact Hb. Qed.

Lemma num_nonempty base n : num base n <> []. Proof. apply num_f_nonempty. Qed.

Lemma num_length base n : n <= 4294967295 -> (length (num base n) <= 32)%nat.
Proof.
  intros Hn. unfold num. eapply Nat.le_trans; [apply num_f_length|].
  pose proof (N.log2_le_mono n 4294967295 Hn) as H. change (N.log2 4294967295) with 31 in H. lia.
Qed.

Lemma zeros_digits base z : 1 <= base -> Forall (digit_of base) (repeat 48 z).
Proof. intros Hb. induction z; simpl; constructor; auto. unfold digit_of. lia. Qed.

Lemma zeros_val base z acc : dval base (repeat 48 z) (acc * 0) = 0.
Proof. rewrite N.mul_0_r. induction z as [|z IH]; [reflexivity|]. cbn [repeat dval fold_left]. exact IH. Qed.

(* from_ascii_radix on decimal digits *)
Lemma uint_loop_dval max : forall ds acc, Forall (digit_of 10) ds -> dval 10 ds acc <= max ->
  uint_loop max ds acc = inl (dval 10 ds acc).
Proof.
  induction ds as [|c ds IH]; intros acc Hd Hm; [reflexivity|].
  inversion Hd as [|? ? Hc Hds]; subst. unfold digit_of in Hc.
  change (dval 10 (c :: ds) acc) with (dval 10 ds (acc * 10 + (c - 48))) in *. cbn [uint_loop].
  pose proof (dval_ge 10 ltac:(lia) ds (acc * 10 + (c - 48))) as Hge.
  unfold is_digit. destruct (48 <=? c) eqn:E1; [|apply N.leb_gt in E1; lia].
  destruct (c <=? 57) eqn:E2; [|apply N.leb_gt in E2; lia]. cbn [andb].
  destruct (max <? acc * 10) eqn:E3; [apply N.ltb_lt in E3; lia|].
  destruct (max <? acc * 10 + (c - 48)) eqn:E4; [apply N.ltb_lt in E4; lia|].
  apply IH; assumption.
Qed.

Lemma parse_uint_digits max ds : ds <> [] -> Forall (digit_of 10) ds -> parse_uint max ds = uint_loop max ds 0.
Proof.
  intros Hne Hd. destruct ds as [|c ds]; [congruence|]. inversion Hd as [|? ? Hc _]; subst. unfold digit_of in Hc.
  unfold parse_uint. assert (E43 : c =? 43 = false) by (apply N.eqb_neq; lia).
  assert (E45 : c =? 45 = false) by (apply N.eqb_neq; lia). rewrite E43, E45. destruct ds; reflexivity.
Qed.

Lemma parse_uint_plus max ds : ds <> [] -> parse_uint max (43 :: ds) = uint_loop max ds 0.
Proof. intros Hne. destruct ds as [|c ds]; [congruence|]. reflexivity. Qed.

Lemma uint_digits_val ic n : let ds := repeat 48 (i_zeros ic) ++ dec n in
  ds <> [] /\ Forall (digit_of 10) ds /\ dval 10 ds 0 = n.
Proof.
  intros ds. subst ds. split; [|split].
  - intros H. apply app_eq_nil in H. destruct H as [_ H]. exact (num_nonempty 10 n H).
  - apply Forall_app. split; [apply zeros_digits; lia|apply num_digits; lia].
  - rewrite dval_app. change 0 with (0 * 0) at 1. rewrite zeros_val. apply num_val. lia.
Qed.

(* stage 1, integers: parse (render n) = n for every '+' / leading-zero choice *)
Theorem uint_roundtrip max ic n : uint_ok max ic n = true -> parse_uint max (render_uint ic n) = inl n.
Proof.
  unfold uint_ok. intros H. apply andb_true_iff in H. destruct H as [Hn _]. apply N.leb_le in Hn.
  destruct (uint_digits_val ic n) as (Hne & Hd & Hv). unfold render_uint.
  destruct (i_plus ic); cbn [app].
  - rewrite parse_uint_plus by exact Hne. rewrite uint_loop_dval; [rewrite Hv; reflexivity|exact Hd|rewrite Hv; exact Hn].
  - rewrite parse_uint_digits by assumption. rewrite uint_loop_dval; [rewrite Hv; reflexivity|exact Hd|rewrite Hv; exact Hn].
Qed.

Lemma digit_tokch base c : base <= 10 -> digit_of base c -> tokch c = true.
Proof.
  unfold digit_of. intros Hb Hc. assert (In c [48;49;50;51;52;53;54;55;56;57]).
  { assert (c = 48 \/ c = 49 \/ c = 50 \/ c = 51 \/ c = 52 \/ c = 53 \/ c = 54 \/ c = 55 \/ c = 56 \/ c = 57) by lia.
    simpl. intuition. }
  simpl in H. intuition; subst; reflexivity.
Qed.

Lemma digits_tokch base ds : base <= 10 -> Forall (digit_of base) ds -> forallb tokch ds = true.
Proof.
  intros Hb H. apply forallb_forall. rewrite Forall_forall in H. intros c Hc. eapply digit_tokch; eauto.
Qed.

Lemma uint_tok max ic n : max <= 4294967295 -> uint_ok max ic n = true ->
  forallb tokch (render_uint ic n) = true /\ N.of_nat (length (render_uint ic n)) <= 65536.
Proof.
  unfold uint_ok. intros Hmax H. apply andb_true_iff in H. destruct H as [Hn Hz]. apply N.leb_le in Hn, Hz.
  destruct (uint_digits_val ic n) as (_ & Hd & _). unfold render_uint. split.
  - rewrite forallb_app. apply andb_true_iff. split; [destruct (i_plus ic); reflexivity|].
    eapply digits_tokch; [|exact Hd]. lia.
  - rewrite !app_length, repeat_length. pose proof (num_length 10 n ltac:(lia)) as HL. fold (dec n) in HL.
    assert (HP : N.of_nat (length (if i_plus ic then [43] else [])) <= 1) by (destruct (i_plus ic); simpl; lia).
    assert (HL' : N.of_nat (length (dec n)) <= 32) by lia.
    rewrite !Nat2N.inj_add. lia.
Qed.

Theorem uint_field_runs max k ic n b : max <= 4294967295 -> uint_ok max ic n = true ->
  runs fend (read_field (parse_uint max) k) (render_uint ic n) b b n.
Proof.
  intros Hmax Hok. destruct (uint_tok max ic n Hmax Hok) as [H1 H2].
  apply read_field_runs; [exact H1|exact H2|]. apply uint_roundtrip. exact Hok.
Qed.

(* ---- $INCLUDE file names ------------------------------------------------------------------------------------------------------------- *)

Lemma rev_fast_is_rev {A} (l : list A) : rev_fast l = rev l.
Proof. unfold rev_fast. rewrite rev_append_rev. apply app_nil_r. Qed.

Lemma bind_ret_l_tok {A B} (a : A) (f : A -> M B) r : bindM (ret a) f r = f a r.
Proof. reflexivity. Qed.

Lemma push_path_ok {B} o p n start (K : bytes * N -> M B) r : n < 65536 ->
  bindM (push_path_octet o p n start) K r = K (o :: p, n + 1) r.
Proof.
  intros H. unfold push_path_octet. change INCLUDE_PATH_MAX with 65536.
  destruct (n <? 65536) eqn:E; [reflexivity|apply N.ltb_ge in E; lia].
Qed.

Lemma pqip_runs : forall s es acc n fuel start b, octets_ok KQuoted es s = true ->
  n + N.of_nat (length s) <= 65536 ->
  runsN fuel anyt (pqip_loop fuel start acc n) (render_octets es s ++ [34]) b b (rev acc ++ s).
Proof.
  induction s as [|c s IH]; intros es acc n fuel start b Hok Hlen; (destruct fuel as [|fuel]; [apply runsN_0|]).
  - cbn [render_octets pqip_loop app]. rewrite app_nil_r. apply runsN_getpos. intros p.
    change [34] with ([34] ++ []). eapply runsN_bind; [apply read_octet_runs|intros; exact I|].
    cbv beta iota. change (34 =? 92) with false. change (34 =? 34) with true. cbv iota. rewrite rev_fast_is_rev. apply runs_N, runs_ret.
  - cbn [octets_ok] in Hok. apply andb_true_iff in Hok. destruct Hok as [Hc Hs].
    cbn [length] in Hlen. rewrite Nat2N.inj_succ in Hlen.
    assert (Hacc : rev (c :: acc) ++ s = rev acc ++ c :: s) by (cbn [rev]; rewrite <- app_assoc; reflexivity).
    cbn [render_octets pqip_loop]. apply runsN_getpos. intros p. rewrite <- app_assoc.
    destruct (hd EDec es) eqn:Ee.
    + apply esc_ok_raw, raw_quoted in Hc. destruct Hc as [H34 H92].
      cbn [render_octet]. eapply runsN_bind_dec; [apply read_octet_runs|discriminate|intros; exact I|].
      cbv beta iota. apply N.eqb_neq in H92, H34. rewrite H92, H34.
      eapply runsN_eq; [intros r; apply push_path_ok; lia|]. cbn [fst snd].
      rewrite <- Hacc. apply IH; [exact Hs|lia].
    + rewrite (render_octet_esc EChar c) by discriminate. cbn [app].
      change (92 :: tl (render_octet EChar c) ++ render_octets (tl es) s ++ [34])
        with ([92] ++ tl (render_octet EChar c) ++ render_octets (tl es) s ++ [34]).
      eapply runsN_bind_dec; [apply read_octet_runs|discriminate|intros; exact I|].
      cbv beta iota. change (92 =? 92) with true. cbv iota.
      eapply runsN_bind; [eapply escape_runs; [|exact Hc]; discriminate|intros; exact I|].
      cbv beta. eapply runsN_eq; [intros r; apply push_path_ok; lia|]. cbn [fst snd].
      rewrite <- Hacc. apply IH; [exact Hs|lia].
    + rewrite (render_octet_esc EDec c) by discriminate. cbn [app].
      change (92 :: tl (render_octet EDec c) ++ render_octets (tl es) s ++ [34])
        with ([92] ++ tl (render_octet EDec c) ++ render_octets (tl es) s ++ [34]).
      eapply runsN_bind_dec; [apply read_octet_runs|discriminate|intros; exact I|].
      cbv beta iota. change (92 =? 92) with true. cbv iota.
      eapply runsN_bind; [eapply escape_runs; [|exact Hc]; discriminate|intros; exact I|].
      cbv beta. eapply runsN_eq; [intros r; apply push_path_ok; lia|]. cbn [fst snd].
      rewrite <- Hacc. apply IH; [exact Hs|lia].
Qed.

Lemma puip_runs : forall s es acc n fuel start b, octets_ok KUnquoted es s = true ->
  n + N.of_nat (length s) <= 65536 ->
  runsN fuel fend (puip_loop fuel start acc n) (render_octets es s) b b (rev acc ++ s).
Proof.
  induction s as [|c s IH]; intros es acc n fuel start b Hok Hlen; (destruct fuel as [|fuel]; [apply runsN_0|]).
  - cbn [render_octets puip_loop]. rewrite app_nil_r.
    change (@nil N) with (@nil N ++ []). eapply runsN_bind; [apply rfo_end|intros t Ht; exact Ht|].
    cbv beta iota. rewrite rev_fast_is_rev. apply runs_N, runs_ret.
  - cbn [octets_ok] in Hok. apply andb_true_iff in Hok. destruct Hok as [Hc Hs].
    cbn [length] in Hlen. rewrite Nat2N.inj_succ in Hlen.
    assert (Hacc : rev (c :: acc) ++ s = rev acc ++ c :: s) by (cbn [rev]; rewrite <- app_assoc; reflexivity).
    cbn [render_octets puip_loop]. destruct (hd EDec es) eqn:Ee.
    + apply esc_ok_raw, raw_unq_plain in Hc. destruct Hc as [Hp H92].
      cbn [render_octet]. eapply runsN_bind_dec; [apply rfo_plain; exact Hp|discriminate|intros; exact I|].
      cbv beta iota. apply N.eqb_neq in H92. rewrite H92.
      eapply runsN_eq; [intros r; apply bind_ret_l_tok|].
      eapply runsN_eq; [intros r; apply push_path_ok; lia|]. cbn [fst snd].
      rewrite <- Hacc. apply IH; [exact Hs|lia].
    + rewrite (render_octet_esc EChar c) by discriminate. cbn [app].
      change (92 :: tl (render_octet EChar c) ++ render_octets (tl es) s)
        with ([92] ++ tl (render_octet EChar c) ++ render_octets (tl es) s).
      eapply runsN_bind_dec; [apply rfo_plain; exact plain92|discriminate|intros; exact I|].
      cbv beta iota. change (92 =? 92) with true. cbv iota.
      eapply runsN_bind; [eapply escape_runs; [|exact Hc]; discriminate|intros; exact I|].
      cbv beta. eapply runsN_eq; [intros r; apply push_path_ok; lia|]. cbn [fst snd].
      rewrite <- Hacc. apply IH; [exact Hs|lia].
    + rewrite (render_octet_esc EDec c) by discriminate. cbn [app].
      change (92 :: tl (render_octet EDec c) ++ render_octets (tl es) s)
        with ([92] ++ tl (render_octet EDec c) ++ render_octets (tl es) s).
      eapply runsN_bind_dec; [apply rfo_plain; exact plain92|discriminate|intros; exact I|].
      cbv beta iota. change (92 =? 92) with true. cbv iota.
      eapply runsN_bind; [eapply escape_runs; [|exact Hc]; discriminate|intros; exact I|].
      cbv beta. eapply runsN_eq; [intros r; apply push_path_ok; lia|]. cbn [fst snd].
      rewrite <- Hacc. apply IH; [exact Hs|lia].
Qed.

Theorem path_runs pc path b : path_ok pc path = true ->
  runs (ftail (quoted pc)) parse_include_path (render_string pc path) b b path.
Proof.
  unfold path_ok. intros H. apply andb_true_iff in H. destruct H as [Hlen H]. apply N.leb_le in Hlen.
  destruct pc as [es|es]; cbn [quoted ftail render_string].
  - intros r t E P W Ht. unfold parse_include_path, peek_octet. rewrite E. cbn [app hd_error].
    change (34 =? 34) with true. cbv iota. revert r t E P W Ht.
    change (runs anyt (do start <- getpos; do _ <- lift read_octet; do fuel <- get_fuel; pqip_loop fuel start [] 0)
                 (34 :: render_octets es path ++ [34]) b b path).
    apply runs_getpos. intros p.
    change (34 :: render_octets es path ++ [34]) with ([34] ++ render_octets es path ++ [34]).
    eapply runs_bind; [apply read_octet_runs|intros; exact I|]. cbv beta.
    apply runs_get_fuel. intros n. apply (pqip_runs path es [] 0 n p b H). lia.
  - apply andb_true_iff in H. destruct H as [H Hq]. apply andb_true_iff in H. destruct H as [H Hne].
    intros r t E P W Ht. unfold parse_include_path, peek_octet. rewrite E.
    assert (G : match hd_error (render_octets es path ++ t) with Some c => c =? 34 | None => false end = false).
    { destruct (render_octets es path) as [|x l] eqn:El.
      - destruct path; [discriminate|]. cbn [render_octets] in El. destruct (hd EDec es); discriminate.
      - cbn [app hd_error]. cbn [head_is] in Hq. apply negb_true_iff in Hq. exact Hq. }
    rewrite G. clear G. revert r t E P W Ht.
    change (runs fend (do start <- getpos; do fuel <- get_fuel; puip_loop fuel start [] 0) (render_octets es path) b b path).
    apply runs_getpos. intros p. apply runs_get_fuel. intros n. apply (puip_runs path es [] 0 n p b H). lia.
Qed.
