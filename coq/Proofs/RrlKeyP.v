(* Lemmas for C27: netmasks, IPv4-mapped addresses, the name hash stream, key equality. *)
From QV Require Import Base.Res Base.Octets Model.Rrl Spec.RrlBucketS Spec.RrlStreamS Proofs.RrlP.
Local Open Scope N_scope.

(* ---- bit-level: masking with the top-l-bits mask ------------------------------------- *)

Lemma testbit_high a n i : a < 2 ^ n -> n <= i -> N.testbit a i = false.
Proof.
  intros Ha Hi. rewrite <- (N.mod_small a (2 ^ n)) by exact Ha.
  apply N.mod_pow2_bits_high. exact Hi.
Qed.

(* and-ing a (l+s)-bit number with l ones shifted left by s clears exactly the low s bits *)
Lemma land_high_mask a l s : a < 2 ^ (l + s) ->
  N.land a (N.shiftl (N.ones l) s) = N.shiftl (N.shiftr a s) s.
Proof.
  intros Ha. apply N.bits_inj. intros i. rewrite N.land_spec.
  destruct (N.lt_ge_cases i s) as [Hlt|Hge].
  - rewrite !N.shiftl_spec_low by exact Hlt. apply andb_false_r.
  - rewrite !N.shiftl_spec_high' by exact Hge.
    rewrite N.shiftr_spec'. replace (i - s + s) with i by lia.
    destruct (N.lt_ge_cases (i - s) l) as [Hl|Hl].
    + rewrite N.ones_spec_low by exact Hl. apply andb_true_r.
    + rewrite N.ones_spec_high by exact Hl. rewrite andb_false_r.
      symmetry. apply (testbit_high a (l + s)); [exact Ha|lia].
Qed.

Lemma masked_eq_iff a b l s : a < 2 ^ (l + s) -> b < 2 ^ (l + s) ->
  (N.land a (N.shiftl (N.ones l) s) = N.land b (N.shiftl (N.ones l) s) <-> a / 2 ^ s = b / 2 ^ s).
Proof.
  intros Ha Hb. rewrite !land_high_mask by assumption.
  rewrite !N.shiftl_mul_pow2, !N.shiftr_div_pow2.
  assert (H2 : 2 ^ s <> 0) by (apply N.pow_nonzero; discriminate).
  split; intros H.
  - apply N.mul_cancel_r in H; assumption.
  - rewrite H. reflexivity.
Qed.

(* ---- the netmasks the setters store --------------------------------------------------- *)

Definition upto (n : nat) : list N := map N.of_nat (seq 0 n).

Lemma in_upto x n : x < N.of_nat n -> In x (upto n).
Proof.
  intros H. unfold upto. apply in_map_iff. exists (N.to_nat x). split; [apply N2Nat.id|].
  apply in_seq. lia.
Qed.

(* finite sweep: for every admissible length the shifted u32::MAX / u64::MAX is l ones
   followed by zeros *)
Lemma v4_masks_sweep :
  forallb (fun l => match max_shl 32 32 l with
                    | Some m => m =? N.shiftl (N.ones l) (32 - l) | None => false end)
          (skipn 1 (upto 33)) = true.
Proof. vm_compute. reflexivity. Qed.
Lemma v6_masks_sweep :
  forallb (fun l => match max_shl 64 64 l with
                    | Some m => m =? N.shiftl (N.ones l) (64 - l) | None => false end)
          (skipn 1 (upto 65)) = true.
Proof. vm_compute. reflexivity. Qed.

Lemma in_skip1_upto x n : 1 <= x -> x < N.of_nat n -> In x (skipn 1 (upto n)).
Proof.
  intros H1 H2. pose proof (in_upto x n H2) as H. destruct n; [simpl in H; contradiction|].
  unfold upto in *. simpl in *. destruct H as [H|H]; [lia|exact H].
Qed.

Definition mask4 (l : N) : N := N.shiftl (N.ones l) (32 - l).
Definition mask6 (l : N) : N := N.shiftl (N.ones l) (64 - l).

(* the configuration has IPv4 prefix length l4 and IPv6 prefix length l6 *)
Definition has_prefixes (p : params) (l4 l6 : N) : Prop :=
  l4 <= 32 /\ l6 <= 64 /\ p_ipv4_netmask p = mask4 l4 /\ p_ipv6_netmask p = mask6 l6.

Lemma set_ipv4_prefix_len_spec p l :
  (l <= 32 -> set_ipv4_prefix_len p l = Ok (with_ipv4_netmask p (mask4 l))) /\
  (32 < l -> set_ipv4_prefix_len p l = Err InvalidIpv4PrefixLen).
Proof.
  unfold set_ipv4_prefix_len.
  change RRL_IPV4_MAX_PREFIX with 32. change RRL_IPV4_SHIFT_BASE with 32.
  split; intros H.
  - assert (E : 32 <? l = false) by (apply N.ltb_ge; exact H). rewrite E.
    destruct (l =? 0) eqn:E0.
    + apply N.eqb_eq in E0. subst l. reflexivity.
    + apply N.eqb_neq in E0.
      pose proof v4_masks_sweep as S. rewrite forallb_forall in S.
      specialize (S l (in_skip1_upto l 33 ltac:(lia) ltac:(simpl; lia))).
      destruct (max_shl 32 32 l) as [m|]; [|discriminate].
      apply N.eqb_eq in S. subst m. reflexivity.
  - apply N.ltb_lt in H. rewrite H. reflexivity.
Qed.

Lemma set_ipv6_prefix_len_spec p l :
  (l <= 64 -> set_ipv6_prefix_len p l = Ok (with_ipv6_netmask p (mask6 l))) /\
  (64 < l -> set_ipv6_prefix_len p l = Err InvalidIpv6PrefixLen).
Proof.
  unfold set_ipv6_prefix_len.
  change RRL_IPV6_MAX_PREFIX with 64. change RRL_IPV6_SHIFT_BASE with 64.
  split; intros H.
  - assert (E : 64 <? l = false) by (apply N.ltb_ge; exact H). rewrite E.
    destruct (l =? 0) eqn:E0.
    + apply N.eqb_eq in E0. subst l. reflexivity.
    + apply N.eqb_neq in E0.
      pose proof v6_masks_sweep as S. rewrite forallb_forall in S.
      specialize (S l (in_skip1_upto l 65 ltac:(lia) ltac:(simpl; lia))).
      destruct (max_shl 64 64 l) as [m|]; [|discriminate].
      apply N.eqb_eq in S. subst m. reflexivity.
  - apply N.ltb_lt in H. rewrite H. reflexivity.
Qed.

(* the defaults of RrlParams::new are /24 and /56 *)
Lemma params_new_prefixes ne nx er w p : params_new ne nx er w = Ok p -> has_prefixes p 24 56.
Proof.
  unfold params_new.
  destruct (ne =? 0); [discriminate|]. destruct (nx =? 0); [discriminate|].
  destruct (er =? 0); [discriminate|]. destruct (w =? 0); [discriminate|].
  destruct (_ || _); [discriminate|]. intros H; inversion H; subst p.
  unfold has_prefixes. cbn [p_ipv4_netmask p_ipv6_netmask].
  split; [lia|]. split; [lia|]. split; vm_compute; reflexivity.
Qed.

Lemma prefixes_after_setters p l4 l6 a b p1 p2 : has_prefixes p a b ->
  set_ipv4_prefix_len p l4 = Ok p1 -> set_ipv6_prefix_len p1 l6 = Ok p2 -> has_prefixes p2 l4 l6.
Proof.
  intros (_ & _ & _ & _) H1 H2.
  destruct (N.le_gt_cases l4 32) as [L4|L4].
  2:{ rewrite (proj2 (set_ipv4_prefix_len_spec p l4) L4) in H1. discriminate. }
  destruct (N.le_gt_cases l6 64) as [L6|L6].
  2:{ rewrite (proj2 (set_ipv6_prefix_len_spec p1 l6) L6) in H2. discriminate. }
  rewrite (proj1 (set_ipv4_prefix_len_spec p l4) L4) in H1. inversion H1; subst p1.
  rewrite (proj1 (set_ipv6_prefix_len_spec _ l6) L6) in H2. inversion H2; subst p2.
  unfold has_prefixes. cbn. repeat split; assumption.
Qed.

(* ---- address values ------------------------------------------------------------------- *)

Lemma be_value_gen o acc :
  fold_left (fun a x => a * 256 + x) o acc = acc * 256 ^ N.of_nat (length o) + addr_value o.
Proof.
  revert acc. induction o as [|x r IH]; intros acc.
  - simpl. lia.
  - cbn [fold_left addr_value length]. rewrite IH. rewrite Nat2N.inj_succ, N.pow_succ_r'. lia.
Qed.

Lemma be_value_addr o : be_value o = addr_value o.
Proof. unfold be_value. rewrite be_value_gen. lia. Qed.

Lemma addr_value_bound o : wf_bytes o -> addr_value o < 256 ^ N.of_nat (length o).
Proof.
  induction o as [|x r IH]; intros W.
  - simpl. lia.
  - inversion W as [|? ? Hx Hr]; subst. specialize (IH Hr). unfold is_octet in Hx.
    cbn [addr_value length]. rewrite Nat2N.inj_succ, N.pow_succ_r'. nia.
Qed.

Definition wf_ip (ip : ipaddr) : Prop :=
  match ip with
  | V4 o => length o = 4%nat /\ wf_bytes o
  | V6 o => length o = 16%nat /\ wf_bytes o
  end.

Definition to_saddr (ip : ipaddr) : saddr := match ip with V4 o => S4 o | V6 o => S6 o end.

Lemma list_N_eqb_eq a b : list_N_eqb a b = true <-> a = b.
Proof.
  unfold list_N_eqb. revert b. induction a as [|x a IH]; intros [|y b]; simpl; split; intros H;
    try reflexivity; try discriminate.
  - apply andb_true_iff in H. destruct H as [H1 H2]. apply andb_true_iff in H2. destruct H2 as [H2 H3].
    apply N.eqb_eq in H2. subst y. f_equal. apply IH. rewrite H1, H3. reflexivity.
  - inversion H; subst. rewrite N.eqb_refl. simpl. apply IH. reflexivity.
Qed.

(* ReceivedInfo::new canonicalises exactly the RFC 4291 IPv4-mapped addresses *)
Lemma received_info_source_canonical src : wf_ip src ->
  to_saddr (received_info_source src) = canonical (to_saddr src) /\ wf_ip (received_info_source src).
Proof.
  destruct src as [o|o]; intros [Hl W]; [split; [reflexivity|split; assumption]|].
  do 16 (destruct o as [|? o]; [discriminate|]). destruct o; [|discriminate].
  unfold received_info_source, canonical, to_saddr, v4_mapped_prefix.
  cbn [firstn skipn nth forallb].
  destruct (list_N_eqb [n; n0; n1; n2; n3; n4; n5; n6; n7; n8; n9; n10] [0; 0; 0; 0; 0; 0; 0; 0; 0; 0; 255; 255]) eqn:E.
  - apply list_N_eqb_eq in E. inversion E; subst. cbn. split; [reflexivity|].
    split; [reflexivity|]. do 12 (inversion W as [|? ? _ W']; subst; clear W; rename W' into W). exact W.
  - assert (F : (n =? 0) && ((n0 =? 0) && ((n1 =? 0) && ((n2 =? 0) && ((n3 =? 0) && ((n4 =? 0) &&
                ((n5 =? 0) && ((n6 =? 0) && ((n7 =? 0) && ((n8 =? 0) && true))))))))) && (n9 =? 255) && (n10 =? 255) = false).
    { destruct (_ && _) eqn:F; [|reflexivity]. exfalso.
      repeat (apply andb_true_iff in F; destruct F as [F ?]).
      repeat match goal with H : (_ =? _) = true |- _ => apply N.eqb_eq in H end. subst.
      repeat match goal with H : _ && _ = true |- _ => apply andb_true_iff in H; destruct H as [? H] end.
      repeat match goal with H : (_ =? _) = true |- _ => apply N.eqb_eq in H end. subst.
      vm_compute in E. discriminate. }
    rewrite F. split; [reflexivity|]. split; [reflexivity|exact W].
Qed.

(* ---- names: the hashed octet stream identifies the name up to ASCII case --------------- *)

Definition wf_label (l : bytes) : Prop := (1 <= length l <= 63)%nat.
Definition wf_name (n : rname) : Prop := Forall wf_label n.

Lemma lower_is_ascii_lower : lower = ascii_lower.
Proof. reflexivity. Qed.

Lemma name_eq_ci_iff a b : name_eq_ci a b = true <-> map (map lower) a = map (map lower) b.
Proof.
  unfold name_eq_ci. rewrite lower_is_ascii_lower.
  revert b. induction a as [|x a IH]; intros [|y b]; simpl; split; intros H;
    try reflexivity; try discriminate.
  - apply andb_true_iff in H. destruct H as [H1 H2]. apply andb_true_iff in H2. destruct H2 as [H2 H3].
    unfold label_eq_ci in H2. apply list_N_eqb_eq in H2. rewrite H2. f_equal.
    apply IH. rewrite H1, H3. reflexivity.
  - inversion H as [[H1 H2]]. apply IH in H2. apply andb_true_iff in H2. destruct H2 as [H2 H3].
    rewrite H2. simpl. rewrite H3, andb_true_r. unfold label_eq_ci. apply list_N_eqb_eq. exact H1.
Qed.

Lemma app_inv_length {A} (a b c d : list A) : length a = length b -> a ++ c = b ++ d -> a = b /\ c = d.
Proof.
  revert b. induction a as [|x a IH]; intros [|y b] Hl H; try discriminate.
  - split; [reflexivity|exact H].
  - simpl in *. inversion H; subst. destruct (IH b ltac:(lia) H2) as [-> ->]. split; reflexivity.
Qed.

Lemma label_len_mod l : wf_label l -> N.of_nat (length l) mod 256 = N.of_nat (length l).
Proof. intros [H1 H2]. apply N.mod_small. lia. Qed.

Lemma name_hash_stream_inj a b : wf_name a -> wf_name b ->
  name_hash_stream a = name_hash_stream b -> map (map lower) a = map (map lower) b.
Proof.
  unfold name_hash_stream. revert b. induction a as [|x a IH]; intros [|y b] Wa Wb H.
  - reflexivity.
  - exfalso. inversion Wb as [|? ? Hy _]; subst. cbn in H. injection H as H0 _.
    rewrite (label_len_mod y Hy) in H0. destruct Hy. lia.
  - exfalso. inversion Wa as [|? ? Hx _]; subst. cbn in H. injection H as H0 _.
    rewrite (label_len_mod x Hx) in H0. destruct Hx. lia.
  - inversion Wa as [|? ? Hx Wa']; subst. inversion Wb as [|? ? Hy Wb']; subst.
    cbn [flat_map label_hash_stream] in H. rewrite <- !app_assoc in H. cbn [app] in H.
    injection H as H0 H1. rewrite (label_len_mod x Hx), (label_len_mod y Hy) in H0.
    apply Nat2N.inj in H0.
    destruct (app_inv_length (map lower x) (map lower y) _ _ ltac:(rewrite !map_length; exact H0) H1) as [E1 E2].
    cbn [map]. rewrite E1. f_equal. apply IH; assumption.
Qed.

Lemma name_hash_stream_ci a b : map (map lower) a = map (map lower) b ->
  name_hash_stream a = name_hash_stream b.
Proof.
  unfold name_hash_stream. intros H. f_equal.
  revert b H. induction a as [|x a IH]; intros [|y b] H; try discriminate; [reflexivity|].
  cbn [map] in H. inversion H as [[H1 H2]]. cbn [flat_map]. rewrite (IH b H2). f_equal.
  unfold label_hash_stream. rewrite H1. f_equal.
  rewrite <- (map_length lower x), <- (map_length lower y), H1. reflexivity.
Qed.

(* for well-formed names: equal hash input <-> equal ignoring case *)
Lemma name_hash_stream_iff a b : wf_name a -> wf_name b ->
  (name_hash_stream a = name_hash_stream b <-> name_eq_ci a b = true).
Proof.
  intros Wa Wb. rewrite name_eq_ci_iff. split.
  - apply name_hash_stream_inj; assumption.
  - apply name_hash_stream_ci.
Qed.

(* ---- the key ------------------------------------------------------------------------------ *)

Lemma scategory_model rc :
  match category_of_rcode rc with NoError => SNoError | NxDomain => SNxDomain | ErrorCat => SOther end
  = scategory_of rc.
Proof.
  unfold category_of_rcode, scategory_of. change XRCODE_NOERROR with 0. change XRCODE_NXDOMAIN with 3.
  destruct (rc =? 0); [reflexivity|]. destruct (rc =? 3); reflexivity.
Qed.

Lemma category_eq_iff rc1 rc2 :
  category_of_rcode rc1 = category_of_rcode rc2 <-> scategory_of rc1 = scategory_of rc2.
Proof.
  rewrite <- !scategory_model.
  destruct (category_of_rcode rc1), (category_of_rcode rc2); split; intros H; try reflexivity; discriminate.
Qed.

Lemma scategory_eqb_eq a b : scategory_eqb a b = true <-> a = b.
Proof. destruct a, b; simpl; split; intros H; try reflexivity; discriminate. Qed.

(* the name a response is about: the source of synthesis if any, else the QNAME *)
Definition resp_name (c : ctx) : option rname :=
  match c_sos c with Some n => Some n | None => c_question c end.

Lemma dest4_eq_iff p l4 l6 a b : has_prefixes p l4 l6 ->
  length a = 4%nat -> wf_bytes a -> length b = 4%nat -> wf_bytes b ->
  (ip_to_dest p (V4 a) = ip_to_dest p (V4 b) <-> same_network 32 l4 (addr_value a) (addr_value b) = true).
Proof.
  intros (L4 & _ & M4 & _) La Wa Lb Wb. unfold ip_to_dest, same_network. rewrite M4, !be_value_addr.
  pose proof (addr_value_bound a Wa) as Ba. pose proof (addr_value_bound b Wb) as Bb.
  rewrite La in Ba. rewrite Lb in Bb. change (256 ^ N.of_nat 4) with (2 ^ 32) in *.
  unfold mask4. rewrite N.eqb_eq.
  apply masked_eq_iff; replace (l4 + (32 - l4)) with 32 by lia; assumption.
Qed.

Lemma dest6_eq_iff p l4 l6 a b : has_prefixes p l4 l6 ->
  length a = 16%nat -> wf_bytes a -> length b = 16%nat -> wf_bytes b ->
  (ip_to_dest p (V6 a) = ip_to_dest p (V6 b) <-> same_network 128 l6 (addr_value a) (addr_value b) = true).
Proof.
  intros (_ & L6 & _ & M6) La Wa Lb Wb. unfold ip_to_dest, same_network. rewrite M6, !be_value_addr.
  pose proof (addr_value_bound a Wa) as Ba. pose proof (addr_value_bound b Wb) as Bb.
  rewrite La in Ba. rewrite Lb in Bb. change (256 ^ N.of_nat 16) with (2 ^ 128) in *.
  change two64 with (2 ^ 64).
  assert (Ha : addr_value a / 2 ^ 64 < 2 ^ 64)
    by (apply N.div_lt_upper_bound; [discriminate|]; rewrite <- N.pow_add_r; exact Ba).
  assert (Hb : addr_value b / 2 ^ 64 < 2 ^ 64)
    by (apply N.div_lt_upper_bound; [discriminate|]; rewrite <- N.pow_add_r; exact Bb).
  rewrite !(N.mod_small _ (2 ^ 64)) by assumption.
  unfold mask6. rewrite N.eqb_eq.
  rewrite masked_eq_iff by (replace (l6 + (64 - l6)) with 64 by lia; assumption).
  rewrite !N.div_div by (try discriminate; apply N.pow_nonzero; discriminate).
  rewrite <- !N.pow_add_r. replace (64 + (64 - l6)) with (128 - l6) by lia. reflexivity.
Qed.

Section WithNameHash.
  Variable hname : bytes -> N.

  (* the 32 bits of the name that enter the key *)
  Definition hash32 (n : rname) : N := hname (name_hash_stream n) mod two32.

  Lemma key_of_form p c :
    key_of hname p c =
    match category_of_rcode (w_rcode (c_response c)) with
    | NoError => match resp_name c with
                 | Some n => Some (mkKey (ip_to_dest p (c_source c)) (is_ipv6 (c_source c)) (hash32 n) NoError)
                 | None => None
                 end
    | cat => Some (mkKey (ip_to_dest p (c_source c)) (is_ipv6 (c_source c)) 0 cat)
    end.
  Proof.
    unfold key_of, resp_name, hash32. destruct (category_of_rcode _); try reflexivity.
    destruct (c_sos c); [reflexivity|]. destruct (c_question c); reflexivity.
  Qed.

  (* [same_stream] with "same name ignoring case" weakened to "same 32-bit name hash":
     the documented design decision of rrl.rs (struct Key) *)
  Definition same_stream_h (l4 l6 : N) (src1 src2 : ipaddr) (rc1 rc2 : N) (n1 n2 : rname) : Prop :=
    same_prefix l4 l6 (to_saddr src1) (to_saddr src2) = true /\
    scategory_of rc1 = scategory_of rc2 /\
    (scategory_of rc1 = SNoError -> hash32 n1 = hash32 n2).

  Lemma key_eq_iff p l4 l6 src1 src2 c1 c2 n1 n2 :
    has_prefixes p l4 l6 -> wf_ip src1 -> wf_ip src2 ->
    c_source c1 = received_info_source src1 -> c_source c2 = received_info_source src2 ->
    (scategory_of (w_rcode (c_response c1)) = SNoError -> resp_name c1 = Some n1) ->
    (scategory_of (w_rcode (c_response c2)) = SNoError -> resp_name c2 = Some n2) ->
    (key_of hname p c1 <> None /\ key_of hname p c1 = key_of hname p c2
     <-> same_stream_h l4 l6 src1 src2 (w_rcode (c_response c1)) (w_rcode (c_response c2)) n1 n2).
  Proof.
    intros HP W1 W2 S1 S2 N1 N2.
    destruct (received_info_source_canonical src1 W1) as [C1 W1'].
    destruct (received_info_source_canonical src2 W2) as [C2 W2'].
    unfold same_stream_h, same_prefix. rewrite <- C1, <- C2, <- S1, <- S2.
    rewrite <- S1 in W1'. rewrite <- S2 in W2'.
    rewrite !key_of_form. rewrite <- category_eq_iff.
    set (rc1 := w_rcode (c_response c1)) in *. set (rc2 := w_rcode (c_response c2)) in *.
    rewrite <- (scategory_model rc1) in *. rewrite <- (scategory_model rc2) in N2.
    assert (DE : forall h1 h2 cat1 cat2,
      (Some (mkKey (ip_to_dest p (c_source c1)) (is_ipv6 (c_source c1)) h1 cat1)
       = Some (mkKey (ip_to_dest p (c_source c2)) (is_ipv6 (c_source c2)) h2 cat2)
       <-> match to_saddr (c_source c1), to_saddr (c_source c2) with
           | S4 a, S4 b => same_network 32 l4 (addr_value a) (addr_value b)
           | S6 a, S6 b => same_network 128 l6 (addr_value a) (addr_value b)
           | _, _ => false
           end = true /\ cat1 = cat2 /\ h1 = h2)).
    { intros h1 h2 cat1 cat2.
      destruct (c_source c1) as [a|a], (c_source c2) as [b|b]; cbn [to_saddr is_ipv6];
        destruct W1' as [La Wa], W2' as [Lb Wb].
      - rewrite <- (dest4_eq_iff p l4 l6 a b HP La Wa Lb Wb). split.
        + intros H; inversion H as [[H1 H2 H3]]. unfold ip_to_dest. rewrite H1. repeat split.
        + intros (H1 & H2 & H3). rewrite H1, H2, H3. reflexivity.
      - split; [intros H; inversion H|intros (H & _); discriminate].
      - split; [intros H; inversion H|intros (H & _); discriminate].
      - rewrite <- (dest6_eq_iff p l4 l6 a b HP La Wa Lb Wb). split.
        + intros H; inversion H as [[H1 H2 H3]]. unfold ip_to_dest. rewrite H1. repeat split.
        + intros (H1 & H2 & H3). rewrite H1, H2, H3. reflexivity. }
    destruct (category_of_rcode rc1) eqn:E1, (category_of_rcode rc2) eqn:E2;
      try rewrite (N1 eq_refl); try rewrite (N2 eq_refl); rewrite DE;
      (split; [intros (_ & H1 & H2 & H3)|intros (H1 & H2 & H3)]); try discriminate;
      repeat split; try assumption; try reflexivity; try discriminate;
      try (intros F; discriminate F); try (intros _; assumption); try (apply H3; reflexivity).
  Qed.
End WithNameHash.

(* ---- spec-level corollaries ------------------------------------------------------------- *)

Lemma same_stream_same_key hname p l4 l6 src1 src2 c1 c2 n1 n2 :
  has_prefixes p l4 l6 -> wf_ip src1 -> wf_ip src2 ->
  c_source c1 = received_info_source src1 -> c_source c2 = received_info_source src2 ->
  (scategory_of (w_rcode (c_response c1)) = SNoError -> resp_name c1 = Some n1) ->
  (scategory_of (w_rcode (c_response c2)) = SNoError -> resp_name c2 = Some n2) ->
  same_stream l4 l6 (mkSResp (to_saddr src1) (w_rcode (c_response c1)) n1)
                    (mkSResp (to_saddr src2) (w_rcode (c_response c2)) n2) = true ->
  key_of hname p c1 <> None /\ key_of hname p c1 = key_of hname p c2.
Proof.
  intros HP W1 W2 S1 S2 N1 N2 H.
  apply (key_eq_iff hname p l4 l6 src1 src2 c1 c2 n1 n2 HP W1 W2 S1 S2 N1 N2).
  unfold same_stream in H. cbn [s_dest s_rcode s_name] in H.
  apply andb_true_iff in H. destruct H as [H H3]. apply andb_true_iff in H. destruct H as [H1 H2].
  apply scategory_eqb_eq in H2. split; [exact H1|]. split; [exact H2|].
  intros E. rewrite E in H3. unfold hash32. f_equal. f_equal.
  apply name_hash_stream_ci. apply name_eq_ci_iff. exact H3.
Qed.

Lemma same_key_same_stream hname p l4 l6 src1 src2 c1 c2 n1 n2 :
  has_prefixes p l4 l6 -> wf_ip src1 -> wf_ip src2 ->
  c_source c1 = received_info_source src1 -> c_source c2 = received_info_source src2 ->
  (scategory_of (w_rcode (c_response c1)) = SNoError -> resp_name c1 = Some n1) ->
  (scategory_of (w_rcode (c_response c2)) = SNoError -> resp_name c2 = Some n2) ->
  wf_name n1 -> wf_name n2 ->
  (* the two names do not collide in the 32-bit hash *)
  (hash32 hname n1 = hash32 hname n2 -> name_hash_stream n1 = name_hash_stream n2) ->
  key_of hname p c1 <> None -> key_of hname p c1 = key_of hname p c2 ->
  same_stream l4 l6 (mkSResp (to_saddr src1) (w_rcode (c_response c1)) n1)
                    (mkSResp (to_saddr src2) (w_rcode (c_response c2)) n2) = true.
Proof.
  intros HP W1 W2 S1 S2 N1 N2 Wn1 Wn2 NC K0 K.
  destruct (proj1 (key_eq_iff hname p l4 l6 src1 src2 c1 c2 n1 n2 HP W1 W2 S1 S2 N1 N2) (conj K0 K))
    as (H1 & H2 & H3).
  unfold same_stream. cbn [s_dest s_rcode s_name]. rewrite H1, H2.
  rewrite (proj2 (scategory_eqb_eq _ _) eq_refl). cbn [andb].
  rewrite <- H2. destruct (scategory_of (w_rcode (c_response c1))) eqn:E; try reflexivity.
  apply (name_hash_stream_iff n1 n2 Wn1 Wn2). apply NC. apply H3. reflexivity.
Qed.

(* ---- exemptions ---------------------------------------------------------------------------- *)

Lemma subject_is_limitable c :
  subject_to_rrl c = limitable (match c_transport c with Udp => true | Tcp => false end)
                               (c_opcode c) (c_send_response c).
Proof.
  unfold subject_to_rrl, limitable. change OPCODE_QUERY with 0.
  destruct (c_send_response c), (c_transport c), (c_opcode c =? 0); reflexivity.
Qed.

Lemma exempt_unchanged hname hkey p t c now rnd :
  c_transport c = Tcp \/ c_opcode c <> OPCODE_QUERY \/ c_send_response c = false ->
  process_response hname hkey p t c now rnd = Ok (t, c).
Proof.
  intros H. unfold process_response, process_response_gen.
  assert (E : subject_to_rrl c = false).
  { unfold subject_to_rrl. destruct H as [H|[H|H]].
    - rewrite H. rewrite andb_false_r. reflexivity.
    - apply N.eqb_neq in H. rewrite H. apply andb_false_r.
    - rewrite H. reflexivity. }
  rewrite E. reflexivity.
Qed.

(* ---- a pair of responses under a limit of one ---------------------------------------------- *)

Lemma pair_limited_iff hname hkey p t c1 c2 k1 k2 now1 now2 rnd1 rnd2 :
  wf_params p -> (forall cat, rate_of p cat = 1) -> p_window p = 1 -> wf_table p t ->
  subject_to_rrl c1 = true -> subject_to_rrl c2 = true ->
  key_of hname p c1 = Some k1 -> key_of hname p c2 = Some k2 ->
  abs_bucket hkey p t k1 = None -> abs_bucket hkey p t k2 = None ->
  now1 <= now2 < now1 + nanos_per_sec ->
  exists t1 t2,
    process_response hname hkey p t c1 now1 rnd1 = Ok (t1, apply_action c1 Send) /\
    process_response hname hkey p t1 c2 now2 rnd2
    = Ok (t2, apply_action c2 (if key_eqb k1 k2
                               then action_of_verdict (limited_verdict (p_slip p) rnd2)
                               else Send)).
Proof.
  intros W R1 W1 WT S1 S2 K1 K2 A1 A2 [T1 T2].
  destruct (process_response_step hname hkey p t c1 k1 now1 rnd1 W WT S1 K1) as (t1 & P1 & WT1 & L1 & B1 & O1).
  rewrite A1, R1, W1 in *. cbn in P1, B1.
  exists t1.
  destruct (process_response_step hname hkey p t1 c2 k2 now2 rnd2 W WT1 S2 K2) as (t2 & P2 & _).
  exists t2. split; [exact P1|]. rewrite P2. f_equal. f_equal. f_equal. rewrite R1, W1.
  destruct (key_eqb k1 k2) eqn:EK.
  - apply key_eqb_eq in EK. subst k2. rewrite B1.
    unfold bucket_step, bucket_refill, bucket_take. cbn [b_tokens b_since].
    change second with nanos_per_sec.
    assert (D : (now2 - now1) / nanos_per_sec = 0) by (apply N.div_small; lia).
    rewrite D. cbn. reflexivity.
  - assert (A2' : abs_bucket hkey p t1 k2 = None).
    { unfold abs_bucket in *. unfold bucket_index in *. rewrite L1 in B1 |- *.
      set (i1 := (hkey k1 mod two64) mod t_len t) in *. set (i2 := (hkey k2 mod two64) mod t_len t) in *.
      destruct (N.eq_dec i2 i1) as [E|E].
      - rewrite E. destruct (key_eqb (e_key (t_get t1 i1)) k1) eqn:E1; [|discriminate].
        apply key_eqb_eq in E1. rewrite E1, EK. reflexivity.
      - rewrite (O1 i2 E). exact A2. }
    rewrite A2'. unfold bucket_step, bucket_full, bucket_take. cbn. reflexivity.
Qed.
