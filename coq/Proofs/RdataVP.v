(* Rdata::validate (model) against the executable RFC grammar: every validator
   returns Ok exactly when smatch accepts, never panics, never runs out of fuel;
   the generated dispatch table selects, for every (class, type), the validator of
   the format the RFCs define for it. *)
From QV Require Import Base.ListX Spec.NameWireS Proofs.NameWireP Proofs.NameWireSP
  Model.RdataM Spec.RdataFormatS Proofs.RdNameP Proofs.RdataFormatSP.
Local Open Scope nat_scope.

(* ---- list / boolean helpers ---- *)

Lemma skipn_nil_iff {A} (l : list A) n : skipn n l = [] <-> length l <= n.
Proof.
  split.
  - intros H. apply (f_equal (@length A)) in H. rewrite skipn_length in H. simpl in H. lia.
  - apply skipn_all2.
Qed.

Definition is_nil {A} (l : list A) : bool := match l with [] => true | _ => false end.

Lemma is_nil_skipn {A} (l : list A) n : is_nil (skipn n l) = (length l <=? n).
Proof.
  destruct (length l <=? n) eqn:E.
  - apply Nat.leb_le in E. rewrite (proj2 (skipn_nil_iff l n) E). reflexivity.
  - apply Nat.leb_gt in E. destruct (skipn n l) eqn:HS; [|reflexivity].
    apply skipn_nil_iff in HS. lia.
Qed.

Lemma smatch_nil r : smatch [] r = is_nil r.
Proof. destruct r; reflexivity. Qed.

Lemma smatch_bytes n g r : smatch (FBytes n :: g) r = (n <=? length r) && smatch g (skipn n r).
Proof. reflexivity. Qed.

Lemma smatch_name g r :
  smatch (FName :: g) r = match sname r with Some l => smatch g (skipn l r) | None => false end.
Proof. reflexivity. Qed.

Lemma smatch_bytes_last n r : smatch [FBytes n] r = (length r =? n).
Proof.
  rewrite smatch_bytes, smatch_nil, is_nil_skipn.
  destruct (n <=? length r) eqn:A, (length r <=? n) eqn:B, (length r =? n) eqn:C; try reflexivity;
    try apply Nat.leb_le in A; try apply Nat.leb_le in B; try apply Nat.leb_gt in A;
    try apply Nat.leb_gt in B; try apply Nat.eqb_eq in C; try apply Nat.eqb_neq in C; lia.
Qed.

Lemma smatch_bytes_merge a b g r : smatch (FBytes a :: FBytes b :: g) r = smatch (FBytes (a + b) :: g) r.
Proof.
  rewrite !smatch_bytes, skipn_plus, skipn_length.
  destruct (a <=? length r) eqn:A, (b <=? length r - a) eqn:B, (a + b <=? length r) eqn:C; try reflexivity;
    try apply Nat.leb_le in A; try apply Nat.leb_le in B; try apply Nat.leb_le in C;
    try apply Nat.leb_gt in A; try apply Nat.leb_gt in B; try apply Nat.leb_gt in C; lia.
Qed.

(* ---- the format each validator is meant to check ---- *)

Definition gram_of_v (v : vhandler) : list field :=
  match v with
  | V_validate_name => [FName]
  | V_validate_as_in_a => [FBytes 4]
  | V_validate_as_ch_a => [FName; FBytes 2]
  | V_validate_as_soa => [FName; FName; FBytes 4; FBytes 4; FBytes 4; FBytes 4; FBytes 4]
  | V_validate_as_in_wks => [FBytes 4; FBytes 1; FRest]
  | V_validate_as_hinfo => [FCharStr; FCharStr]
  | V_validate_as_minfo => [FName; FName]
  | V_validate_as_mx => [FBytes 2; FName]
  | V_validate_as_txt => [FCharStrs1]
  | V_validate_as_in_aaaa => [FBytes 16]
  | V_validate_as_in_srv => [FBytes 2; FBytes 2; FBytes 2; FName]
  | V_validate_as_opt => [FOptions]
  | V_validate_as_tsig => [FName; FBytes 6; FBytes 2; FBlob16; FBytes 2; FBytes 2; FBlob16]
  | V_ok => [FRest]
  end.

(* outcome of a validator against a boolean verdict *)
Definition agrees (x : res rd_err unit) (b : bool) : Prop :=
  match x with
  | Ok _ => b = true
  | Err e => b = false /\ e <> ROutOfFuel /\ e <> InvalidName OutOfFuel
  | Panic => False
  end.

Lemma agrees_ok b : b = true -> agrees (Ok tt) b.
Proof. intros ->. reflexivity. Qed.
Lemma agrees_other b : b = false -> agrees (Err ROther) b.
Proof. intros ->. repeat split; discriminate. Qed.
Lemma agrees_if (c : bool) b : c = b -> agrees (if c then Ok tt else Err ROther) b.
Proof. intros <-. destruct c; [apply agrees_ok|apply agrees_other]; reflexivity. Qed.

(* name at the start of r, whole buffer *)
Lemma name_all_agrees r : wf_bytes r -> agrees (let* _ := vname r true in Ok tt) (smatch [FName] r).
Proof.
  intros Hwf. pose proof (vname_all r Hwf) as H. rewrite smatch_name.
  destruct (vname r true) as [n|e|]; cbn [bind]; [| |exact H].
  - destruct H as (-> & -> & _). rewrite smatch_nil, is_nil_skipn, Nat.leb_refl. reflexivity.
  - destruct H as ([->|(n & -> & Hn)] & H2 & H3); split; auto.
    rewrite smatch_nil, is_nil_skipn. apply Nat.leb_gt. exact Hn.
Qed.

Lemma slice_from_ok {E} (l : bytes) k : k <= length l -> @slice_from E l k = Ok (skipn k l).
Proof. intros H. unfold slice_from. destruct (length l <? k) eqn:X; [apply Nat.ltb_lt in X; lia|reflexivity]. Qed.

(* ---- the simple validators ---- *)

Lemma v_name r : wf_bytes r -> agrees (validate_name r) (smatch [FName] r).
Proof. apply name_all_agrees. Qed.

Lemma v_in_a r : agrees (validate_as_in_a r) (smatch [FBytes 4] r).
Proof. unfold validate_as_in_a. apply agrees_if. symmetry. apply smatch_bytes_last. Qed.

Lemma v_in_aaaa r : agrees (validate_as_in_aaaa r) (smatch [FBytes 16] r).
Proof. unfold validate_as_in_aaaa. apply agrees_if. symmetry. apply smatch_bytes_last. Qed.

Lemma v_in_wks r : agrees (validate_as_in_wks r) (smatch [FBytes 4; FBytes 1; FRest] r).
Proof.
  unfold validate_as_in_wks. apply agrees_if. rewrite smatch_bytes_merge, smatch_bytes. cbn [smatch Nat.add].
  rewrite andb_true_r. reflexivity.
Qed.

Lemma v_ch_a r : wf_bytes r -> agrees (validate_as_ch_a r) (smatch [FName; FBytes 2] r).
Proof.
  intros Hwf. unfold validate_as_ch_a. pose proof (vname_spec r Hwf) as H. rewrite smatch_name.
  destruct (vname r false) as [n|e|]; cbn [bind]; [| |exact H].
  - destruct H as (-> & H1 & H2). apply agrees_if. rewrite smatch_bytes_last, skipn_length.
    destruct (length r =? n + 2) eqn:A, (length r - n =? 2) eqn:B; try reflexivity;
      try apply Nat.eqb_eq in A; try apply Nat.eqb_eq in B; try apply Nat.eqb_neq in A;
      try apply Nat.eqb_neq in B; lia.
  - destruct H as (-> & H1 & H2). split; auto.
Qed.

Lemma smatch_fixed20 r :
  smatch [FBytes 4; FBytes 4; FBytes 4; FBytes 4; FBytes 4] r = (length r =? 20).
Proof. rewrite !smatch_bytes_merge. cbn [Nat.add]. apply smatch_bytes_last. Qed.

Lemma v_soa r : wf_bytes r ->
  agrees (validate_as_soa r) (smatch [FName; FName; FBytes 4; FBytes 4; FBytes 4; FBytes 4; FBytes 4] r).
Proof.
  intros Hwf. unfold validate_as_soa. pose proof (vname_spec r Hwf) as H. rewrite smatch_name.
  destruct (vname r false) as [m|e|]; cbn [bind]; [| |exact H].
  - destruct H as (-> & H1 & H2). rewrite slice_from_ok by lia. cbn [bind].
    pose proof (vname_spec (skipn m r) (wf_skipn m r Hwf)) as H'. rewrite smatch_name.
    destruct (vname (skipn m r) false) as [n|e|]; cbn [bind]; [| |exact H'].
    + destruct H' as (-> & H3 & H4). rewrite skipn_length in H4. apply agrees_if.
      rewrite smatch_fixed20, !skipn_length.
      destruct (length r =? 20 + m + n) eqn:A, (length r - m - n =? 20) eqn:B; try reflexivity;
        try apply Nat.eqb_eq in A; try apply Nat.eqb_eq in B; try apply Nat.eqb_neq in A;
        try apply Nat.eqb_neq in B; lia.
    + destruct H' as (-> & H3 & H4). split; auto.
  - destruct H as (-> & H1 & H2). split; auto.
Qed.

Lemma v_minfo r : wf_bytes r -> agrees (validate_as_minfo r) (smatch [FName; FName] r).
Proof.
  intros Hwf. unfold validate_as_minfo. pose proof (vname_spec r Hwf) as H. rewrite smatch_name.
  destruct (vname r false) as [m|e|]; cbn [bind]; [| |exact H].
  - destruct H as (-> & H1 & H2). rewrite slice_from_ok by lia. cbn [bind].
    apply name_all_agrees. apply wf_skipn. exact Hwf.
  - destruct H as (-> & H1 & H2). split; auto.
Qed.

Lemma v_fixed_then_name k r : wf_bytes r ->
  agrees (validate_fixed_then_name k r) (smatch [FBytes k; FName] r).
Proof.
  intros Hwf. unfold validate_fixed_then_name, get_from. rewrite smatch_bytes.
  destruct (length r <? k) eqn:E.
  - apply Nat.ltb_lt in E. apply agrees_other. apply andb_false_iff. left. apply Nat.leb_gt. exact E.
  - apply Nat.ltb_ge in E. rewrite (proj2 (Nat.leb_le k (length r)) E). cbn [andb].
    apply name_all_agrees. apply wf_skipn. exact Hwf.
Qed.

Lemma v_mx r : wf_bytes r -> agrees (validate_as_mx r) (smatch [FBytes 2; FName] r).
Proof. apply v_fixed_then_name. Qed.

Lemma v_in_srv r : wf_bytes r ->
  agrees (validate_as_in_srv r) (smatch [FBytes 2; FBytes 2; FBytes 2; FName] r).
Proof. intros Hwf. rewrite !smatch_bytes_merge. cbn [Nat.add]. apply (v_fixed_then_name 6 r Hwf). Qed.

(* ---- character strings ---- *)

Lemma vcs_cons len tl :
  validate_character_string (len :: tl) =
  if N.to_nat len <=? length tl then Ok (S (N.to_nat len)) else Err ROther.
Proof. reflexivity. Qed.

Lemma v_hinfo r : wf_bytes r -> agrees (validate_as_hinfo r) (smatch [FCharStr; FCharStr] r).
Proof.
  intros Hwf. unfold validate_as_hinfo. destruct r as [|len tl]; [apply agrees_other; reflexivity|].
  rewrite vcs_cons. cbn [smatch].
  destruct (N.to_nat len <=? length tl) eqn:E; cbn [bind andb]; [|apply agrees_other; reflexivity].
  apply Nat.leb_le in E. rewrite slice_from_ok by (simpl; lia). cbn [bind skipn].
  destruct (skipn (N.to_nat len) tl) as [|len2 tl2] eqn:HS; [apply agrees_other; reflexivity|].
  rewrite vcs_cons.
  assert (L : length tl = N.to_nat len + S (length tl2)).
  { apply (f_equal (@length N)) in HS. rewrite skipn_length in HS. simpl in HS. lia. }
  destruct (N.to_nat len2 <=? length tl2) eqn:E2; cbn [bind andb]; [|apply agrees_other; reflexivity].
  apply Nat.leb_le in E2.
  match goal with |- agrees ?x _ => change (agrees x (is_nil (skipn (N.to_nat len2) tl2))) end.
  apply agrees_if. rewrite is_nil_skipn. cbn [length].
  destruct (S (length tl) =? S (N.to_nat len) + S (N.to_nat len2)) eqn:A, (length tl2 <=? N.to_nat len2) eqn:B;
    try reflexivity; try apply Nat.eqb_eq in A; try apply Nat.eqb_neq in A;
    try apply Nat.leb_le in B; try apply Nat.leb_gt in B; lia.
Qed.

Lemma s_charstrs_fuel f1 f2 r : wf_bytes r -> length r < f1 -> length r < f2 ->
  s_charstrs f1 r = s_charstrs f2 r.
Proof.
  intros Hwf H1 H2. apply Bool.eq_iff_eq_true.
  rewrite (s_charstrs_iff f1 r H1 Hwf), (s_charstrs_iff f2 r H2 Hwf). reflexivity.
Qed.

Lemma txt_loop_agrees : forall fuel r offset f2, wf_bytes r -> offset <= length r ->
  length r - offset < fuel -> length r - offset < f2 ->
  agrees (txt_loop fuel r offset) (s_charstrs f2 (skipn offset r)).
Proof.
  induction fuel as [|f IH]; intros r offset f2 Hwf Ho Hf Hf2; [lia|]. cbn [txt_loop].
  destruct f2 as [|f2]; [lia|].
  destruct (offset <? length r) eqn:E.
  - apply Nat.ltb_lt in E. rewrite slice_from_ok by lia. cbn [bind].
    destruct (skipn offset r) as [|len tl] eqn:HS.
    { apply skipn_nil_iff in HS. lia. }
    assert (L : length r = offset + S (length tl)).
    { apply (f_equal (@length N)) in HS. rewrite skipn_length in HS. simpl in HS. lia. }
    rewrite vcs_cons. cbn [s_charstrs].
    destruct (N.to_nat len <=? length tl) eqn:E2; cbn [bind]; [|apply agrees_other; reflexivity].
    apply Nat.leb_le in E2.
    replace (skipn (N.to_nat len) tl) with (skipn (offset + S (N.to_nat len)) r).
    + apply IH; auto; lia.
    + rewrite <- skipn_plus, HS. reflexivity.
  - apply Nat.ltb_ge in E. rewrite (proj2 (skipn_nil_iff r offset)) by lia. reflexivity.
Qed.

Lemma v_txt r : wf_bytes r -> agrees (validate_as_txt r) (smatch [FCharStrs1] r).
Proof.
  intros Hwf. unfold validate_as_txt. cbn [smatch]. destruct r as [|x r'].
  - apply agrees_other. reflexivity.
  - cbn [length Nat.eqb].
    apply (txt_loop_agrees (S (S (length r'))) (x :: r') 0 (S (S (length r'))) Hwf); simpl; lia.
Qed.

(* ---- EDNS options ---- *)

Lemma get_range_2 (r : bytes) k :
  get_range r k (k + 2) =
  match skipn k r with a :: b :: _ => Some [a; b] | _ => None end.
Proof.
  unfold get_range.
  destruct (k + 2 <? k) eqn:A; [apply Nat.ltb_lt in A; lia|]. cbn [orb].
  destruct (length r <? k + 2) eqn:B.
  - apply Nat.ltb_lt in B. destruct (skipn k r) as [|a [|b tl]] eqn:HS; try reflexivity.
    apply (f_equal (@length N)) in HS. rewrite skipn_length in HS. simpl in HS. lia.
  - apply Nat.ltb_ge in B. unfold slice. replace (k + 2 - k) with 2 by lia.
    destruct (skipn k r) as [|a [|b tl]] eqn:HS; try reflexivity;
      apply (f_equal (@length N)) in HS; rewrite skipn_length in HS; simpl in HS; lia.
Qed.

Lemma s_options_fuel f1 f2 r : wf_bytes r -> length r < f1 -> length r < f2 ->
  s_options f1 r = s_options f2 r.
Proof.
  intros Hwf H1 H2. apply Bool.eq_iff_eq_true.
  rewrite (s_options_iff f1 r H1 Hwf), (s_options_iff f2 r H2 Hwf). reflexivity.
Qed.

Lemma validate_option_4 c1 c2 l1 l2 tl :
  validate_option (c1 :: c2 :: l1 :: l2 :: tl) =
  if N.to_nat (l1 * 256 + l2) <=? length tl then Ok (N.to_nat (l1 * 256 + l2) + 4) else Err ROther.
Proof.
  unfold validate_option. change 4 with (2 + 2) at 1. rewrite get_range_2. cbn [skipn be16_of bind length].
  destruct (N.to_nat (l1 * 256 + l2) + 4 <=? S (S (S (S (length tl))))) eqn:A,
           (N.to_nat (l1 * 256 + l2) <=? length tl) eqn:B; try reflexivity;
    try apply Nat.leb_le in A; try apply Nat.leb_le in B; try apply Nat.leb_gt in A;
    try apply Nat.leb_gt in B; lia.
Qed.

Lemma validate_option_short r : length r < 4 -> validate_option r = Err ROther.
Proof.
  intros H. unfold validate_option. change 4 with (2 + 2). rewrite get_range_2.
  destruct r as [|a [|b [|c [|d tl]]]]; try reflexivity. simpl in H. lia.
Qed.

Lemma opt_loop_agrees : forall fuel r offset f2, wf_bytes r -> offset <= length r ->
  length r - offset < fuel -> length r - offset < f2 ->
  agrees (opt_loop fuel r offset) (s_options f2 (skipn offset r)).
Proof.
  induction fuel as [|f IH]; intros r offset f2 Hwf Ho Hf Hf2; [lia|]. cbn [opt_loop].
  destruct f2 as [|f2]; [lia|].
  destruct (offset <? length r) eqn:E.
  - apply Nat.ltb_lt in E. rewrite slice_from_ok by lia. cbn [bind].
    destruct (skipn offset r) as [|c1 [|c2 [|l1 [|l2 tl]]]] eqn:HS;
      [apply skipn_nil_iff in HS; lia| | | |];
      try (rewrite validate_option_short by (simpl; lia); apply agrees_other; reflexivity).
    assert (L : length r = offset + S (S (S (S (length tl))))).
    { apply (f_equal (@length N)) in HS. rewrite skipn_length in HS. simpl in HS. lia. }
    rewrite validate_option_4. cbn [s_options].
    destruct (N.to_nat (l1 * 256 + l2) <=? length tl) eqn:E2; cbn [bind]; [|apply agrees_other; reflexivity].
    apply Nat.leb_le in E2.
    replace (skipn (N.to_nat (l1 * 256 + l2)) tl) with (skipn (offset + (N.to_nat (l1 * 256 + l2) + 4)) r).
    + apply IH; auto; lia.
    + replace (offset + (N.to_nat (l1 * 256 + l2) + 4)) with (offset + (4 + N.to_nat (l1 * 256 + l2))) by lia.
      rewrite <- skipn_plus, HS. rewrite <- skipn_plus. reflexivity.
  - apply Nat.ltb_ge in E. rewrite (proj2 (skipn_nil_iff r offset)) by lia. reflexivity.
Qed.

Lemma v_opt r : wf_bytes r -> agrees (validate_as_opt r) (smatch [FOptions] r).
Proof.
  intros Hwf. unfold validate_as_opt. cbn [smatch].
  apply (opt_loop_agrees (S (length r)) r 0 (S (length r)) Hwf); lia.
Qed.

(* ---- TSIG ---- *)

Lemma skipn_len_eq {A} (l : list A) k x : skipn k l = x -> length l <= k \/ length l = k + length x.
Proof. intros <-. rewrite skipn_length. lia. Qed.

Lemma v_tsig r : wf_bytes r ->
  agrees (validate_as_tsig r)
         (smatch [FName; FBytes 6; FBytes 2; FBlob16; FBytes 2; FBytes 2; FBlob16] r).
Proof.
  intros Hwf. unfold validate_as_tsig. pose proof (vname_spec r Hwf) as H. rewrite smatch_name.
  destruct (vname r false) as [alg|e|]; cbn [bind]; [| |exact H].
  2: { destruct H as (-> & H1 & H2). split; auto. }
  destruct H as (-> & H1 & H2).
  rewrite smatch_bytes_merge. cbn [Nat.add]. rewrite smatch_bytes.
  replace (alg + 10) with (alg + 8 + 2) by lia. rewrite get_range_2.
  rewrite skipn_plus. cbn [smatch].
  destruct (skipn (alg + 8) r) as [|l1 [|l2 tl]] eqn:R8;
    [apply agrees_other, andb_false_r|apply agrees_other, andb_false_r|].
  assert (L8 : length r = alg + 8 + S (S (length tl))).
  { destruct (skipn_len_eq _ _ _ R8) as [L|L]; [|simpl in L; lia].
    apply skipn_nil_iff in L. rewrite L in R8. discriminate. }
  rewrite skipn_length.
  replace (8 <=? length r - alg) with true by (symmetry; apply Nat.leb_le; lia).
  cbn [andb be16_of bind].
  set (mac := N.to_nat (l1 * 256 + l2)).
  assert (Rtl : tl = skipn (alg + 8 + 2) r).
  { rewrite <- skipn_plus, R8. reflexivity. }
  rewrite !skipn_plus, !skipn_length.
  replace (mac + 2 + 2) with (mac + 4) by lia.
  replace (alg + mac + 16) with (alg + mac + 14 + 2) by lia. rewrite get_range_2.
  replace (skipn (alg + mac + 14) r) with (skipn (mac + 4) tl)
    by (rewrite Rtl, skipn_plus; f_equal; lia).
  destruct (skipn (mac + 4) tl) as [|m1 [|m2 tl2]] eqn:R14;
    [apply agrees_other; rewrite !andb_false_r; reflexivity
    |apply agrees_other; rewrite !andb_false_r; reflexivity|].
  assert (L14 : length tl = mac + 4 + S (S (length tl2))).
  { destruct (skipn_len_eq _ _ _ R14) as [L|L]; [|simpl in L; lia].
    apply skipn_nil_iff in L. rewrite L in R14. discriminate. }
  replace (mac <=? length tl) with true by (symmetry; apply Nat.leb_le; lia).
  replace (2 <=? length tl - mac) with true by (symmetry; apply Nat.leb_le; lia).
  replace (2 <=? length tl - (mac + 2)) with true by (symmetry; apply Nat.leb_le; lia).
  cbn [andb be16_of bind].
  set (other := N.to_nat (m1 * 256 + m2)).
  match goal with |- agrees ?x _ =>
    change (agrees x ((other <=? length tl2) && is_nil (skipn other tl2))) end.
  apply agrees_if. rewrite is_nil_skipn.
  destruct (alg + mac + other + 16 =? length r) eqn:A, (other <=? length tl2) eqn:B,
           (length tl2 <=? other) eqn:C; try reflexivity;
    try apply Nat.eqb_eq in A; try apply Nat.eqb_neq in A; try apply Nat.leb_le in B;
    try apply Nat.leb_gt in B; try apply Nat.leb_le in C; try apply Nat.leb_gt in C; lia.
Qed.

(* ---- every validator ---- *)

Theorem run_validator_agrees v r : wf_bytes r ->
  agrees (run_validator v r) (smatch (gram_of_v v) r).
Proof.
  intros Hwf. destruct v; cbn [run_validator gram_of_v].
  - apply v_name; auto.
  - apply v_in_a.
  - apply v_ch_a; auto.
  - apply v_soa; auto.
  - apply v_in_wks.
  - apply v_hinfo; auto.
  - apply v_minfo; auto.
  - apply v_mx; auto.
  - apply v_txt; auto.
  - apply v_in_aaaa.
  - apply v_in_srv; auto.
  - apply v_opt; auto.
  - apply v_tsig; auto.
  - reflexivity.
Qed.

(* ---- the dispatch tables against the RFC type numbers ---- *)

Ltac unfold_types :=
  unfold TYPE_A, TYPE_NS, TYPE_MD, TYPE_MF, TYPE_CNAME, TYPE_SOA, TYPE_MB, TYPE_MG, TYPE_MR,
         TYPE_NULL, TYPE_WKS, TYPE_PTR, TYPE_HINFO, TYPE_MINFO, TYPE_MX, TYPE_TXT, TYPE_AAAA,
         TYPE_SRV, TYPE_OPT, TYPE_TSIG, CLASS_IN, CLASS_CH, CLASS_HS.

Ltac case_class c :=
  repeat match goal with
  | |- context [(c =? ?k)%N] => destruct (N.eqb_spec c k); [subst c|]
  end; try reflexivity; try lia.

Ltac case_types c t :=
  repeat match goal with
  | |- context [(t =? ?k)%N] =>
    destruct (N.eqb_spec t k); [subst t; cbn; case_class c|]
  end; cbn; case_class c.

Theorem dispatch_validate c t :
  gram_of_v (lookup validate_arms validate_default c t) = grammar c t.
Proof.
  unfold grammar, one_of, validate_arms, validate_default. unfold_types.
  cbn [lookup]. unfold arm_matches. cbn [existsb fst snd]. case_types c t.
Qed.
