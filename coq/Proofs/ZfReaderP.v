(* Safety framework for the zone-file parser monad and facts about the Reader model:
   no operation panics or runs out of fuel, none grows the unconsumed input, and the
   loops of field_or_eol_skipping_impl consume at least one octet per iteration. *)
From QV Require Import Base.ListX Model.ZfReader Model.ZfParser Proofs.ZfStdP.

(* the model-only fuel bound stored in the reader dominates the unconsumed input *)
Definition wfr (r : rd) : Prop := length (r_rest r) + 2 <= r_fuel r.

Definition okres {A} (strict : bool) (Q : A -> Prop) (r : rd) (x : res zerr (A * rd)) : Prop :=
  match x with
  | Ok (a, r') =>
    r_fuel r' = r_fuel r /\
    (if strict then length (r_rest r') < length (r_rest r) else length (r_rest r') <= length (r_rest r)) /\
    Q a
  | Err (ZErr _ _) => True
  | Err ZOutOfFuel => False
  | Panic => False
  end.

Definition safe {A} (strict : bool) (m : M A) (Q : A -> Prop) : Prop :=
  forall r, wfr r -> okres strict Q r (m r).

(* for the fuelled loops: the fuel argument exceeds the unconsumed input *)
Definition safeN {A} (n : nat) (m : M A) (Q : A -> Prop) : Prop :=
  forall r, wfr r -> length (r_rest r) < n -> okres false Q r (m r).

Lemma okres_weaken {A} s (Q1 Q2 : A -> Prop) r x :
  okres s Q1 r x -> (forall a, Q1 a -> Q2 a) -> okres false Q2 r x.
Proof.
  destruct x as [[a r']|[p k|]|]; simpl; auto. intros (H1 & H2 & H3) HQ.
  split; [exact H1|]. split; [destruct s; lia|]. auto.
Qed.

Lemma okres_weakenQ {A} s (Q1 Q2 : A -> Prop) r x :
  okres s Q1 r x -> (forall a, Q1 a -> Q2 a) -> okres s Q2 r x.
Proof.
  destruct x as [[a r']|[p k|]|]; simpl; auto. intros (H1 & H2 & H3) HQ. auto.
Qed.

Lemma safe_weaken {A} s (m : M A) (Q1 Q2 : A -> Prop) :
  safe s m Q1 -> (forall a, Q1 a -> Q2 a) -> safe false m Q2.
Proof. intros H HQ r Hr. eapply okres_weaken; [apply H; exact Hr|exact HQ]. Qed.

Lemma safe_weakenQ {A} s (m : M A) (Q1 Q2 : A -> Prop) :
  safe s m Q1 -> (forall a, Q1 a -> Q2 a) -> safe s m Q2.
Proof. intros H HQ r Hr. eapply okres_weakenQ; [apply H; exact Hr|exact HQ]. Qed.

Lemma safe_unstrict {A} (m : M A) Q : safe true m Q -> safe false m Q.
Proof. intros H. eapply safe_weaken; [exact H|auto]. Qed.

Lemma okres_bind {A B} s1 s2 (m : M A) (f : A -> M B) (Q1 : A -> Prop) (Q2 : B -> Prop) r :
  wfr r -> okres s1 Q1 r (m r) ->
  (forall a r', Q1 a -> wfr r' -> r_fuel r' = r_fuel r -> length (r_rest r') <= length (r_rest r) ->
                okres s2 Q2 r' (f a r')) ->
  okres (s1 || s2) Q2 r (bindM m f r).
Proof.
  intros Hr Hm Hf. unfold bindM. destruct (m r) as [[a r']|[p k|]|]; simpl in *; auto.
  destruct Hm as (H1 & H2 & H3).
  assert (Hle : length (r_rest r') <= length (r_rest r)) by (destruct s1; lia).
  assert (Hr' : wfr r') by (unfold wfr in *; lia).
  specialize (Hf a r' H3 Hr' H1 Hle).
  destruct (f a r') as [[b r'']|[p k|]|]; simpl in *; auto.
  destruct Hf as (G1 & G2 & G3). split; [congruence|]. split; [|exact G3].
  destruct s1, s2; simpl; lia.
Qed.

Lemma safe_bind {A B} (m : M A) (f : A -> M B) (Q1 : A -> Prop) (Q2 : B -> Prop) :
  safe false m Q1 -> (forall a, Q1 a -> safe false (f a) Q2) -> safe false (bindM m f) Q2.
Proof.
  intros Hm Hf r Hr. apply (okres_bind false false m f Q1 Q2 r Hr (Hm r Hr)).
  intros a r' Ha Hr' _ _. apply Hf; assumption.
Qed.

Lemma safe_bind_tf {A B} (m : M A) (f : A -> M B) (Q1 : A -> Prop) (Q2 : B -> Prop) :
  safe true m Q1 -> (forall a, Q1 a -> safe false (f a) Q2) -> safe true (bindM m f) Q2.
Proof.
  intros Hm Hf r Hr. apply (okres_bind true false m f Q1 Q2 r Hr (Hm r Hr)).
  intros a r' Ha Hr' _ _. apply Hf; assumption.
Qed.

Lemma safe_bind_ft {A B} (m : M A) (f : A -> M B) (Q1 : A -> Prop) (Q2 : B -> Prop) :
  safe false m Q1 -> (forall a, Q1 a -> safe true (f a) Q2) -> safe true (bindM m f) Q2.
Proof.
  intros Hm Hf r Hr. apply (okres_bind false true m f Q1 Q2 r Hr (Hm r Hr)).
  intros a r' Ha Hr' _ _. apply Hf; assumption.
Qed.

Lemma safe_ret {A} (a : A) (Q : A -> Prop) : Q a -> safe false (ret a) Q.
Proof. intros H r Hr. simpl. auto. Qed.

Lemma safe_failM {A} s p k (Q : A -> Prop) : safe s (failM p k) Q.
Proof. intros r Hr. exact I. Qed.

Lemma safe_failHere {A} s k (Q : A -> Prop) : safe s (failHere k) Q.
Proof. intros r Hr. exact I. Qed.

Lemma safe_getpos : safe false getpos (fun _ => True).
Proof. intros r Hr. simpl. auto. Qed.

Lemma safe_lift {A} (f : rd -> A * rd) :
  (forall r, r_fuel (snd (f r)) = r_fuel r /\ length (r_rest (snd (f r))) <= length (r_rest r)) ->
  safe false (lift f) (fun _ => True).
Proof.
  intros H r Hr. unfold lift. specialize (H r). destruct (f r) as [a r']. simpl in *. tauto.
Qed.

(* `do fuel <- get_fuel; loop fuel` *)
Lemma safe_with_fuel {A} (f : nat -> M A) (Q : A -> Prop) :
  (forall n, safeN n (f n) Q) -> safe false (bindM get_fuel f) Q.
Proof.
  intros H r Hr. unfold bindM, get_fuel. apply H; [exact Hr|]. unfold wfr in Hr. lia.
Qed.

Lemma safeN_of_safe {A} n (m : M A) Q : safe false m Q -> safeN n m Q.
Proof. intros H r Hr _. apply H. exact Hr. Qed.

Lemma safe_try_ok {A} (m : M A) (Q : A -> Prop) :
  safe false m Q -> safe false (try_ok m) (fun o => match o with Some a => Q a | None => True end).
Proof.
  intros H r Hr. specialize (H r Hr). unfold try_ok.
  destruct (m r) as [[a r']|[p k|]|]; simpl in *; auto.
Qed.

(* ---- state updates ------------------------------------------------------------------ *)

Lemma adv_fuel r n : r_fuel (adv r n) = r_fuel r. Proof. reflexivity. Qed.
Lemma adv_line_fuel r n : r_fuel (adv_line r n) = r_fuel r. Proof. reflexivity. Qed.
Lemma adv_rest r n : r_rest (adv r n) = skipn n (r_rest r). Proof. reflexivity. Qed.
Lemma adv_line_rest r n : r_rest (adv_line r n) = skipn n (r_rest r). Proof. reflexivity. Qed.
Lemma adv_len r n : length (r_rest (adv r n)) = length (r_rest r) - n.
Proof. rewrite adv_rest. apply skipn_length. Qed.
Lemma adv_line_len r n : length (r_rest (adv_line r n)) = length (r_rest r) - n.
Proof. rewrite adv_line_rest. apply skipn_length. Qed.
Lemma set_paren_rest r b : r_rest (set_paren r b) = r_rest r. Proof. reflexivity. Qed.

(* ---- end of line / end of field ------------------------------------------------------ *)

Lemma get_eol_at_0 l e : get_eol_at l 0 = Some e -> e <= length l /\ (l <> [] -> 1 <= e).
Proof.
  unfold get_eol_at. destruct l as [|c t]; simpl.
  - intros [= <-]. split; [lia|congruence].
  - destruct (c =? 10)%N.
    + intros [= <-]. split; [lia|lia].
    + destruct t as [|d t']; simpl; [discriminate|].
      destruct ((c =? 13)%N && (d =? 10)%N); [|discriminate].
      intros [= <-]. split; lia.
Qed.

Lemma get_eol_at_none l i : get_eol_at l i = None -> exists c, nth_error l i = Some c.
Proof.
  unfold get_eol_at. destruct (nth_error l i) as [c|]; [eauto|discriminate].
Qed.

Lemma at_field_end_at_total l i : exists b, at_field_end_at l i = Ok b.
Proof.
  unfold at_field_end_at. destruct (get_eol_at l i) eqn:E; [eauto|].
  destruct (get_eol_at_none l i E) as [c Hc]. rewrite Hc. eauto.
Qed.

Lemma at_field_end_false l : at_field_end_at l 0 = Ok false -> exists c t, l = c :: t.
Proof.
  unfold at_field_end_at. destruct (get_eol_at l 0) eqn:E; [discriminate|].
  destruct l as [|c t]; [discriminate|]. eauto.
Qed.

(* ---- expect_field --------------------------------------------------------------------- *)

Lemma expect_field_impl_spec field cmp r :
  expect_field_impl field cmp r = Ok (false, r) \/
  (expect_field_impl field cmp r = Ok (true, adv r (length field)) /\ length field <= length (r_rest r)).
Proof.
  unfold expect_field_impl.
  destruct (length (firstn (length field) (r_rest r)) =? length field) eqn:E; [|auto].
  apply Nat.eqb_eq in E. rewrite firstn_length in E.
  destruct (cmp _ field); [|auto].
  destruct (at_field_end_at_total (r_rest r) (length field)) as [b Hb]. rewrite Hb. simpl.
  destruct b; [right|auto]. split; [reflexivity|lia].
Qed.

Lemma safe_expect_field_impl field cmp : safe false (expect_field_impl field cmp) (fun _ => True).
Proof.
  intros r Hr. destruct (expect_field_impl_spec field cmp r) as [H|[H Hl]]; rewrite H; unfold okres.
  - auto.
  - rewrite ?adv_len, ?skipn_length. split; [reflexivity|]. split; [lia|exact I].
Qed.

(* ---- read_field ------------------------------------------------------------------------ *)

Lemma scan_field_spec : forall l len,
  match scan_field l len with
  | Ok n => (len <= n)%N /\ N.to_nat (n - len) <= length l
  | Err k => k = FieldTooLong
  | Panic => False
  end.
Proof.
  induction l as [|c t IH]; intros len.
  - simpl. split; [lia|]. rewrite N.sub_diag. simpl. lia.
  - cbn [scan_field]. destruct (at_field_end_at_total (c :: t) 0) as [b Hb]. rewrite Hb.
    destruct b.
    + split; [lia|]. rewrite N.sub_diag. simpl. lia.
    + destruct (MAX_READ_FIELD_SIZE <? len + 1)%N; [reflexivity|].
      specialize (IH (len + 1)%N). destruct (scan_field t (len + 1)) as [n|k|]; auto.
      destruct IH as [I1 I2]. split; [lia|]. simpl. lia.
Qed.

Lemma safe_read_field {T E} (parse : bytes -> T + E) (k : E -> zkind) :
  safe false (read_field parse k) (fun v => exists s, parse s = inl v).
Proof.
  intros r Hr. unfold read_field.
  pose proof (scan_field_spec (r_rest r) 0) as Hs.
  destruct (scan_field (r_rest r) 0) as [n|kk|]; [|exact I|exact Hs].
  destruct (utf8_valid _); [|exact I].
  destruct (parse (firstn (N.to_nat n) (r_rest r))) eqn:Ep; [|exact I]. simpl. rewrite ?adv_len, ?skipn_length.
  split; [reflexivity|]. split; [lia|]. eauto.
Qed.

Lemma safe_read_field_strict {T E} (parse : bytes -> T + E) (k : E -> zkind) :
  (forall v, parse [] <> inl v) ->
  safe true (read_field parse k) (fun v => exists s, parse s = inl v).
Proof.
  intros Hnil r Hr. unfold read_field.
  pose proof (scan_field_spec (r_rest r) 0) as Hs.
  destruct (scan_field (r_rest r) 0) as [n|kk|]; [|exact I|exact Hs].
  destruct (utf8_valid _); [|exact I].
  destruct (parse (firstn (N.to_nat n) (r_rest r))) eqn:Ep; [|exact I]. simpl. rewrite ?adv_len, ?skipn_length.
  destruct Hs as [_ Hs]. rewrite N.sub_0_r in Hs.
  assert (N.to_nat n <> 0).
  { intros Hz. rewrite Hz in Ep. simpl in Ep. exact (Hnil _ Ep). }
  split; [reflexivity|]. split; [lia|]. eauto.
Qed.

(* ---- read_field_octet ------------------------------------------------------------------- *)

Lemma read_field_octet_spec r :
  read_field_octet r = Ok (None, r) \/
  exists c t, r_rest r = c :: t /\ read_field_octet r = Ok (Some c, adv r 1).
Proof.
  unfold read_field_octet. destruct (at_field_end_at_total (r_rest r) 0) as [b Hb]. rewrite Hb. simpl.
  destruct b; [auto|]. right. destruct (at_field_end_false _ Hb) as (c & t & Hl). rewrite Hl. eauto.
Qed.

Lemma safe_read_field_octet : safe false read_field_octet (fun _ => True).
Proof.
  intros r Hr. destruct (read_field_octet_spec r) as [H|(c & t & Hl & H)]; rewrite H; unfold okres.
  - auto.
  - rewrite ?adv_len, ?skipn_length. split; [reflexivity|]. split; [lia|exact I].
Qed.

(* a loop step driven by read_field_octet: Some means one octet was consumed *)
Lemma read_field_octet_step {B} (f : option N -> M B) (Q : B -> Prop) n r :
  wfr r -> length (r_rest r) < S n ->
  (forall r', wfr r' -> r_fuel r' = r_fuel r -> length (r_rest r') <= length (r_rest r) -> okres false Q r' (f None r')) ->
  (forall c r', wfr r' -> r_fuel r' = r_fuel r -> length (r_rest r') < n -> length (r_rest r') <= length (r_rest r) ->
                okres false Q r' (f (Some c) r')) ->
  okres false Q r (bindM read_field_octet f r).
Proof.
  intros Hr Hn HN HS. unfold bindM.
  destruct (read_field_octet_spec r) as [H|(c & t & Hl & H)]; rewrite H.
  - apply HN; auto.
  - assert (Hlen : length (r_rest (adv r 1)) = length (r_rest r) - 1) by apply adv_len.
    assert (Hpos : 1 <= length (r_rest r)) by (rewrite Hl; simpl; lia).
    specialize (HS c (adv r 1)).
    assert (W : wfr (adv r 1)) by (unfold wfr in *; rewrite adv_fuel; lia).
    specialize (HS W (adv_fuel r 1)).
    assert (G : okres false Q (adv r 1) (f (Some c) (adv r 1))) by (apply HS; lia).
    destruct (f (Some c) (adv r 1)) as [[b r'']|[p k|]|]; simpl in *; auto.
    destruct G as (G1 & G2 & G3). split; [congruence|]. split; [lia|exact G3].
Qed.

(* ---- pure state functions ----------------------------------------------------------------- *)

Lemma read_octet_le r : r_fuel (snd (read_octet r)) = r_fuel r /\
  length (r_rest (snd (read_octet r))) <= length (r_rest r).
Proof.
  unfold read_octet. destruct (r_rest r) as [|c t] eqn:E; simpl; [rewrite E; auto|].
  destruct (c =? 10)%N; simpl; rewrite E; simpl; auto.
Qed.

Lemma read_octet_some r c r' : read_octet r = (Some c, r') ->
  r_fuel r' = r_fuel r /\ length (r_rest r') < length (r_rest r).
Proof.
  unfold read_octet. destruct (r_rest r) as [|d t] eqn:E; [discriminate|].
  intros [= <- <-]. destruct (d =? 10)%N; simpl; rewrite E; simpl; auto.
Qed.

Lemma read2_le r : r_fuel (snd (read2 r)) = r_fuel r /\
  length (r_rest (snd (read2 r))) <= length (r_rest r).
Proof.
  unfold read2. destruct (r_rest r) as [|a [|b t]] eqn:E; simpl; try (rewrite E; auto). simpl. auto.
Qed.

Lemma count_ws_le l : count_ws l <= length l.
Proof. induction l as [|c t IH]; simpl; [lia|]. destruct (is_whitespace c); lia. Qed.

Lemma skip_whitespace_le r : r_fuel (snd (skip_whitespace r)) = r_fuel r /\
  length (r_rest (snd (skip_whitespace r))) <= length (r_rest r).
Proof. unfold skip_whitespace. simpl. rewrite skipn_length. split; [reflexivity|lia]. Qed.

Lemma skip_whitespace_cases r :
  (fst (skip_whitespace r) = true /\ length (r_rest (snd (skip_whitespace r))) < length (r_rest r)) \/
  (fst (skip_whitespace r) = false /\ r_rest (snd (skip_whitespace r)) = r_rest r).
Proof.
  unfold skip_whitespace. simpl. pose proof (count_ws_le (r_rest r)) as H.
  destruct (count_ws (r_rest r)) as [|n] eqn:E.
  - right. split; reflexivity.
  - left. split; [reflexivity|]. rewrite skipn_length. lia.
Qed.

Lemma count_ws_head l c t : skipn (count_ws l) l = c :: t -> is_whitespace c = false.
Proof.
  induction l as [|x l IH]; simpl; [discriminate|].
  destruct (is_whitespace x) eqn:E; simpl; [exact IH|]. intros [= <- _]. exact E.
Qed.

Lemma to_eol_spec : forall l, let '(n, e) := to_eol l in
  n + e <= length l /\ (get_eol_at l 0 = None -> 1 <= n).
Proof.
  induction l as [|c t IH].
  - simpl. split; [lia|discriminate].
  - cbn [to_eol]. destruct (get_eol_at (c :: t) 0) as [e|] eqn:E.
    + split; [|discriminate]. apply get_eol_at_0 in E. lia.
    + destruct (to_eol t) as [n e]. destruct IH as [I1 _]. split; [simpl; lia|lia].
Qed.

Lemma eol_skipping_le through r :
  r_fuel (eol_skipping_impl through r) = r_fuel r /\
  length (r_rest (eol_skipping_impl through r)) <= length (r_rest r) /\
  (get_eol_at (r_rest r) 0 = None -> length (r_rest (eol_skipping_impl through r)) < length (r_rest r)).
Proof.
  unfold eol_skipping_impl. pose proof (to_eol_spec (r_rest r)) as H.
  destruct (to_eol (r_rest r)) as [n e]. destruct H as [H1 H2].
  destruct ((0 <? e) && through).
  - rewrite adv_line_fuel, adv_fuel, adv_line_len, adv_len. split; [reflexivity|]. split; [lia|].
    intros Hn. specialize (H2 Hn). lia.
  - rewrite adv_fuel, adv_len. split; [reflexivity|]. split; [lia|].
    intros Hn. specialize (H2 Hn). lia.
Qed.

(* ---- field_or_eol_skipping_impl ------------------------------------------------------------ *)

Lemma foe_spec : forall fuel through r, length (r_rest r) < fuel ->
  match foe_loop fuel through r with
  | Ok (f, r') =>
    r_fuel r' = r_fuel r /\ length (r_rest r') <= length (r_rest r) /\
    match f with
    | Field => at_field_end_at (r_rest r') 0 = Ok false
    | Eol => through = true -> r_rest r <> [] -> length (r_rest r') < length (r_rest r)
    end
  | Err (ZErr _ _) => True
  | Err ZOutOfFuel => False
  | Panic => False
  end.
Proof.
  induction fuel as [|fuel IH]; intros through r Hlen; [lia|].
  cbn [foe_loop].
  pose proof (skip_whitespace_le r) as [Wf Wl].
  pose proof (skip_whitespace_cases r) as Wc.
  set (r1 := snd (skip_whitespace r)) in *.
  assert (Hne : r_rest r <> [] -> r_rest r1 = r_rest r \/ length (r_rest r1) < length (r_rest r)).
  { intros _. destruct Wc as [[_ W]|[_ W]]; auto. }
  destruct (get_eol_at (r_rest r1) 0) as [e|] eqn:E.
  - pose proof (get_eol_at_0 _ _ E) as [E1 E2].
    destruct (r_paren r1).
    + destruct (e =? 0) eqn:E0; [exact I|]. apply Nat.eqb_neq in E0.
      assert (L : length (r_rest (adv_line r1 e)) < fuel) by (rewrite adv_line_len; lia).
      specialize (IH through (adv_line r1 e) L).
      destruct (foe_loop fuel through (adv_line r1 e)) as [[f r']|[p k|]|]; auto.
      rewrite adv_line_fuel, adv_line_len in IH. destruct IH as (I1 & I2 & I3).
      split; [congruence|]. split; [lia|]. destruct f; [exact I3|]. intros _ _. lia.
    + destruct (through && (0 <? e)) eqn:T.
      * rewrite adv_line_fuel, adv_line_len. split; [exact Wf|]. split; [lia|].
        intros _ Hn. apply andb_true_iff in T. destruct T as [_ T]. apply Nat.ltb_lt in T. lia.
      * split; [exact Wf|]. split; [exact Wl|]. intros -> Hn. simpl in T.
        apply Nat.ltb_ge in T. destruct (Hne Hn) as [Hs|Hs]; [|exact Hs].
        rewrite Hs in E2. specialize (E2 Hn). lia.
  - destruct (get_eol_at_none _ _ E) as [c Hc].
    destruct (r_rest r1) as [|o t] eqn:Er; [discriminate|].
    assert (Hpos : 1 <= length (r_rest r1)) by (rewrite Er; simpl; lia).
    assert (Erl : length (r_rest r1) = S (length t)) by (rewrite Er; reflexivity).
    simpl length in Wl.
    pose proof (eol_skipping_le true r1) as (S1 & S2 & S3).
    pose proof (eol_skipping_le false r1) as (T1 & T2 & T3).
    rewrite Er in S3, T3. specialize (S3 E). specialize (T3 E). rewrite <- Er in S3, T3.
    destruct (o =? 59)%N eqn:Eq59.
    + destruct (r_paren r1).
      * assert (L : length (r_rest (skip_through_eol r1)) < fuel) by (unfold skip_through_eol; lia).
        specialize (IH through (skip_through_eol r1) L).
        destruct (foe_loop fuel through (skip_through_eol r1)) as [[f r']|[p k|]|]; auto.
        unfold skip_through_eol in IH. destruct IH as (I1 & I2 & I3).
        split; [congruence|]. split; [lia|]. destruct f; [exact I3|]. intros _ _. lia.
      * destruct through.
        -- unfold skip_through_eol. split; [congruence|]. split; [lia|]. intros _ _. lia.
        -- unfold skip_to_eol. split; [congruence|]. split; [lia|]. intros; discriminate.
    + destruct (o =? 40)%N eqn:Eq40.
      * destruct (r_paren r1); [exact I|].
        assert (L : length (r_rest (adv (set_paren r1 true) 1)) < fuel)
          by (rewrite adv_len, set_paren_rest; lia).
        specialize (IH through _ L).
        destruct (foe_loop fuel through (adv (set_paren r1 true) 1)) as [[f r']|[p k|]|]; auto.
        rewrite adv_fuel, adv_len, set_paren_rest in IH. destruct IH as (I1 & I2 & I3).
        split; [simpl in I1; congruence|]. split; [lia|]. destruct f; [exact I3|]. intros _ _. lia.
      * destruct (o =? 41)%N eqn:Eq41.
        -- destruct (negb (r_paren r1)); [exact I|].
           assert (L : length (r_rest (adv (set_paren r1 false) 1)) < fuel)
             by (rewrite adv_len, set_paren_rest; lia).
           specialize (IH through _ L).
           destruct (foe_loop fuel through (adv (set_paren r1 false) 1)) as [[f r']|[p k|]|]; auto.
           rewrite adv_fuel, adv_len, set_paren_rest in IH. destruct IH as (I1 & I2 & I3).
           split; [simpl in I1; congruence|]. split; [lia|]. destruct f; [exact I3|]. intros _ _. lia.
        -- split; [exact Wf|]. split; [lia|].
           unfold at_field_end_at. rewrite Er, E. cbn [nth_error]. unfold ends_field.
           assert (Hws : is_whitespace o = false).
           { apply (count_ws_head (r_rest r) o t). exact Er. }
           rewrite Hws, Eq59, Eq40, Eq41. reflexivity.
Qed.

Lemma safe_foe through : safe false (fun r => foe_loop (foe_fuel r) through r) (fun _ => True).
Proof.
  intros r Hr. unfold foe_fuel.
  assert (L : length (r_rest r) < r_fuel r) by (unfold wfr in Hr; lia).
  pose proof (foe_spec (r_fuel r) through r L) as H.
  destruct (foe_loop (r_fuel r) through r) as [[f r']|[p k|]|]; simpl; auto. tauto.
Qed.

(* after Field the reader stands on field data *)
Lemma foe_field through r : wfr r ->
  match foe_loop (foe_fuel r) through r with
  | Ok (Field, r') => at_field_end_at (r_rest r') 0 = Ok false
  | _ => True
  end.
Proof.
  intros Hr. unfold foe_fuel.
  assert (L : length (r_rest r) < r_fuel r) by (unfold wfr in Hr; lia).
  pose proof (foe_spec (r_fuel r) through r L) as H.
  destruct (foe_loop (r_fuel r) through r) as [[f r']|[p k|]|]; auto. destruct f; [tauto|exact I].
Qed.

Lemma safe_through : safe false skip_to_next_field_or_through_eol (fun _ => True).
Proof. exact (safe_foe true). Qed.
Lemma safe_to : safe false skip_to_next_field_or_to_eol (fun _ => True).
Proof. exact (safe_foe false). Qed.

Lemma safe_skip_to_next_field k : safe false (skip_to_next_field k) (fun _ => True).
Proof.
  intros r Hr. unfold skip_to_next_field. pose proof (safe_to r Hr) as H.
  destruct (skip_to_next_field_or_to_eol r) as [[f r']|[p kk|]|]; simpl in *; auto.
  destruct f; simpl; auto.
Qed.

Lemma safe_expect_eol : safe false expect_eol (fun _ => True).
Proof.
  intros r Hr. unfold expect_eol. pose proof (safe_through r Hr) as H.
  destruct (skip_to_next_field_or_through_eol r) as [[f r']|[p kk|]|]; simpl in *; auto.
  destruct f; simpl; auto.
Qed.
