(* A measure that every non-environment step strictly decreases once both shutdown
   flags are set: shutdown terminates without any fairness assumption, as long as
   spurious wake-ups / timers do not keep arriving. *)
From Coq Require Import Lia Permutation.
From QV Require Import Model.Pool Spec.PoolS Proofs.PoolLemmas Proofs.PoolInv Proofs.PoolP.

(* work a thread still has to do, not counting await_shutdown callers *)
Definition w1 (p : pc) : nat :=
  match p with
  | SIdle ops => 2 * length ops
  | SWait r | SWoken r | SSpawn r => 2 * length r + 1
  | WIdle _ | WWait _ | WWoken _ _ => 2
  | WRun _ _ => 3
  | WDrop _ | RWait | RWoken => 1
  | GIdle | QIdle => 2
  | GHold | QMid => 1
  | _ => 0
  end.

(* await_shutdown callers: a woken or fresh caller still has to look at the condition *)
Definition w2 (p : pc) : nat :=
  match p with AwIdle => 2 | AwWoken => 1 | _ => 0 end.

Definition mu (s : state) : nat * nat :=
  (2 * length (queue s) + sumf w1 (thr s), sumf w2 (thr s)).

Lemma w1_wake p : w1 (wake p) = w1 p.
Proof. destruct p; reflexivity. Qed.

Lemma sumf_w1_na g l : sumf w1 (notify_all g l) = sumf w1 l.
Proof. apply sumf_na_same. intros p _. apply w1_wake. Qed.

Lemma notify_one_none_eq g c l l' : cnt g l = 0 -> notify_one g c l = Some l' -> l' = l.
Proof.
  intros Hz H. unfold notify_one in H. destruct c as [j|].
  - destruct (nth_error l j) as [p|] eqn:E; [|discriminate].
    destruct (g p) eqn:G; [|discriminate].
    pose proof (sumf_nth_le (fun p => b2n (g p)) l j p E) as Hle. cbn beta in Hle. rewrite G in Hle.
    simpl in Hle. lia.
  - destruct (existsb g l); [discriminate|]. inversion H; reflexivity.
Qed.

Ltac left_w1 :=
  left; simpl; try match goal with Eq : queue _ = _ |- _ => rewrite Eq in * end; rewrite ?sumf_w1_na; elim_all; simpl in *; rewrite ?app_length in *; simpl in *; lia.

Theorem mu_decreases_inv s l s' : Inv s -> psd s = true -> gsd s = true ->
  env_label l = false -> step true s l = Some s' -> lex_lt (mu s') (mu s).
Proof.
  intros I Hp Hg He H. unfold lex_lt, mu.
  destruct (i_psd_w s I Hp) as [Zt Za].
  destruct l; simpl in He; try discriminate; simpl in H.
  - (* LSubmit *)
    unfold sub_enter in H. destruct (nth_error (thr s) i) as [pi|] eqn:E; [|discriminate].
    destruct pi as [[|[] r]| |r| | | | | | | | | | | | | | | | | | |]; try discriminate;
      unfold submit_section in H; rewrite Hp in H; destruct o; try discriminate;
      inversion H; subst s'; clear H; left_w1.
  - (* LSos *)
    unfold sos_enter in H. destruct (nth_error (thr s) i) as [pi|] eqn:E; [|discriminate].
    destruct pi as [[|[] r]| | | | | | | | | | | | | | | | | | | | |]; try discriminate;
      unfold submit_section in H; rewrite Hp in H; destruct o; try discriminate;
      inversion H; subst s'; clear H; left_w1.
  - (* LSpawn *)
    destruct (glock s); [discriminate|].
    destruct (nth_error (thr s) i) as [[]|] eqn:E; try discriminate.
    rewrite Hg in H. destruct o; try discriminate. inversion H; subst s'; clear H. left_w1.
  - (* LWork *)
    destruct (nth_error (thr s) i) as [[]|] eqn:E; try discriminate.
    + destruct (notify_one on_avail c (thr s)) as [l'|] eqn:En; [|discriminate].
      apply (notify_one_none_eq _ _ _ _ Za) in En; subst l'.
      unfold work_loop in H; simpl in H.
      destruct (queue s) as [|t q] eqn:Eq; [rewrite Hp in H|]; destruct o; try discriminate;
        inversion H; subst s'; clear H; left_w1.
    + unfold work_wake, work_loop, dec_avail in H.
      destruct (is_aux k && timed_out && (negb true || is_nil (queue s))).
      * destruct o; try discriminate. destruct (avail s); inversion H; subst s'; clear H; left_w1.
      * destruct (queue s) as [|t q] eqn:Eq; [rewrite Hp in H|]; destruct o; try discriminate;
          simpl in H; destruct (avail s); inversion H; subst s'; clear H; left_w1.
  - (* LTaskDone *)
    destruct (nth_error (thr s) i) as [[]|] eqn:E; try discriminate.
    inversion H; subst s'; clear H.
    destruct panicked; [|destruct (is_aux k && negb (linger s))]; left_w1.
  - (* LDrop *)
    destruct (glock s); [discriminate|]. unfold drop_enter in H.
    destruct (nth_error (thr s) i) as [pi|] eqn:E; [|discriminate].
    destruct pi as [| | | | | | | |[]| | | | | | | | | | | | |]; try discriminate;
      rewrite Hg in H; simpl in H; destruct o; try discriminate; inversion H; subst s'; clear H;
      unfold end_thread; simpl; destruct (tcount s); simpl; try rewrite Hg; simpl;
      try destruct (n =? 0); left_w1.
  - (* LSdG *)
    destruct (glock s); [discriminate|].
    destruct (nth_error (thr s) i) as [[]|] eqn:E; try discriminate.
    rewrite (i_gsd_reg s I Hg) in H. inversion H; subst s'; clear H.
    pose proof (nth_na_other on_sd _ _ _ E eq_refl) as E2. left.
    simpl. pose proof (sumf_upd w1 _ _ _ GDone E2) as U. rewrite sumf_w1_na in U. simpl in U. lia.
  - (* LSdP *)
    destruct (nth_error (thr s) i) as [[]|] eqn:E; try discriminate.
    inversion H; subst s'; clear H.
    pose proof (nth_na_other on_task _ _ _ E eq_refl) as E2.
    pose proof (nth_na_other on_avail _ _ _ E2 eq_refl) as E3.
    pose proof (nth_na_other on_sd _ _ _ E3 eq_refl) as E4. left.
    simpl. pose proof (sumf_upd w1 _ _ _ GDone E4) as U. rewrite !sumf_w1_na in U. simpl in U. lia.
  - (* LPsd1 *)
    destruct (glock s); [discriminate|].
    destruct (nth_error (thr s) i) as [[]|] eqn:E; try discriminate.
    inversion H; subst s'; clear H. left_w1.
  - (* LPsd2 *)
    destruct (nth_error (thr s) i) as [[]|] eqn:E; try discriminate.
    inversion H; subst s'; clear H.
    pose proof (nth_na_other on_task _ _ _ E eq_refl) as E2.
    pose proof (nth_na_other on_avail _ _ _ E2 eq_refl) as E3. left.
    simpl. pose proof (sumf_upd w1 _ _ _ QDone E3) as U. rewrite !sumf_w1_na in U. simpl in U. lia.
  - (* LAwait: the first component is unchanged, the second decreases *)
    destruct (glock s); [discriminate|].
    destruct (nth_error (thr s) i) as [[]|] eqn:E; try discriminate;
      destruct (gsd s && (tcount s =? 0)); destruct o; try discriminate;
      inversion H; subst s'; clear H; right; simpl;
      match goal with |- context [upd i ?q _] =>
        pose proof (sumf_upd w1 _ _ _ q E) as U1; pose proof (sumf_upd w2 _ _ _ q E) as U2 end;
      simpl in *; lia.
Qed.

Theorem mu_decreases_reachable : decreases_after_shutdown true mu.
Proof.
  intros s l s' R. apply mu_decreases_inv, inv_reachable, R.
Qed.
