(* Proofs about Model/TsigMsg.v against Spec/Tsig8945S.v. *)
From QV Require Import Base.ListX Model.TsigMsg Spec.Tsig8945S Spec.TsigRepr Spec.NameRepr
  Proofs.NameWireP Proofs.TsigEncP.

Ltac len := unfold u16, u32, u48 in *; repeat rewrite app_length; repeat rewrite be_enc_length;
            simpl length; try lia.

(* ---- the regenerated constants are the RFC's ------------------------------------------- *)

Lemma offsets_val : id_end = 2 /\ arcount_start = 10 /\ arcount_end = 12.
Proof. repeat split; reflexivity. Qed.

Lemma class_ttl_val : TSIG_VARS_CLASS_TTL = u16 255 ++ u32 0.
Proof. reflexivity. Qed.

Lemma alg_name_val a : alg_name a = canon_wire (salg_name (alg_s a)).
Proof. destruct a; reflexivity. Qed.

Lemma alg_name_wire a : alg_name a = wire_of (salg_name (alg_s a)).
Proof. destruct a; reflexivity. Qed.

Lemma output_size_val a : output_size a = salg_out (alg_s a).
Proof. destruct a; reflexivity. Qed.

Lemma type_class_val : TYPE_TSIG = 250%N /\ QCLASS_ANY = 255%N /\ XRCODE_BADTIME = 18%N
  /\ TSIG_RDATA_FIXED_LEN = 16%N /\ TSIG_MIN_MAC_SIZE = 10%N.
Proof. repeat split; reflexivity. Qed.

Lemma alg_m_s a : alg_m (alg_s a) = a.
Proof. destruct a; reflexivity. Qed.

(* ---- add_modified_message ------------------------------------------------------------------ *)

Lemma amm_spec {E} sent_id m oid : wf_smsg m ->
  @add_modified_message E (sent_prefix sent_id m) oid = Ok (comp_message m oid).
Proof.
  intros [(Hf & Hq & Ha & Hn & Har) Hb].
  unfold add_modified_message, sent_prefix, comp_message, smsg_wire.
  destruct offsets_val as (-> & -> & ->).
  set (I := u16 sent_id). set (F := u16 (m_flags m)). set (Q := u16 (m_qd m)). set (An := u16 (m_an m)).
  set (Ns := u16 (m_ns m)). set (A := u16 (m_ar m + 1)). set (B := m_body m).
  assert (LI : length I = 2) by apply be_enc_length. assert (LF : length F = 2) by apply be_enc_length.
  assert (LQ : length Q = 2) by apply be_enc_length. assert (LAn : length An = 2) by apply be_enc_length.
  assert (LNs : length Ns = 2) by apply be_enc_length. assert (LA : length A = 2) by apply be_enc_length.
  replace (I ++ F ++ Q ++ An ++ Ns ++ A ++ B) with (I ++ (F ++ Q ++ An ++ Ns) ++ A ++ B)
    by (repeat rewrite <- app_assoc; reflexivity).
  rewrite (get_range_app I (F ++ Q ++ An ++ Ns) (A ++ B) 2 10)
    by (repeat rewrite app_length; lia).
  replace (I ++ (F ++ Q ++ An ++ Ns) ++ A ++ B) with ((I ++ F ++ Q ++ An ++ Ns) ++ A ++ B)
    by (repeat rewrite <- app_assoc; reflexivity).
  rewrite (get_range_app (I ++ F ++ Q ++ An ++ Ns) A B 10 12) by (repeat rewrite app_length; lia).
  assert (HA : be_dec A = (m_ar m + 1)%N) by (apply be_dec_u16; exact Har). rewrite !HA.
  assert (Hz : (m_ar m + 1 =? 0)%N = false) by (apply N.eqb_neq; lia). rewrite Hz.
  replace ((I ++ F ++ Q ++ An ++ Ns) ++ A ++ B) with ((I ++ F ++ Q ++ An ++ Ns ++ A) ++ B)
    by (repeat rewrite <- app_assoc; reflexivity).
  rewrite (get_from_app (I ++ F ++ Q ++ An ++ Ns ++ A) B 12) by (repeat rewrite app_length; lia).
  replace (m_ar m + 1 - 1)%N with (m_ar m) by lia.
  rewrite be16_u16. unfold F, Q, An, Ns, B. repeat rewrite <- app_assoc. reflexivity.
Qed.

(* ---- the TSIG variables ---------------------------------------------------------------------- *)

Lemma variables_spec K A t :
  K = canon_wire (t_key t) -> A = canon_wire (t_alg t) -> (N.of_nat (length (t_other t)) < 65536)%N ->
  add_tsig_variables (mkVars K A (u48 (t_time t)) (t_fudge t) (t_error t) (t_other t)) = comp_variables t.
Proof.
  intros -> -> Ho. unfold add_tsig_variables, add_tsig_timers, comp_variables.
  cbn [v_key_name v_algorithm v_time_signed v_fudge v_error v_other].
  rewrite class_ttl_val. rewrite len_u16_small by exact Ho.
  repeat rewrite <- app_assoc. reflexivity.
Qed.

Lemma timers_spec K A t e o :
  add_tsig_timers (mkVars K A (u48 (t_time t)) (t_fudge t) e o) = comp_timers t.
Proof. reflexivity. Qed.

(* ---- signing ------------------------------------------------------------------------------------ *)

Lemma prior_mac_spec (pm : bytes) : (N.of_nat (length pm) <= 65535)%N ->
  be16 (len_u16 pm) ++ pm = comp_prior_mac pm.
Proof. intros H. unfold comp_prior_mac. rewrite len_u16_small by lia. reflexivity. Qed.

Lemma too_long_false (pm : bytes) : (N.of_nat (length pm) <= 65535)%N -> (65535 <? N.of_nat (length pm))%N = false.
Proof. intros H. apply N.ltb_ge. exact H. Qed.

Lemma prepared_vars_repr p t a :
  prepared_repr p t -> t_alg t = salg_name (alg_s a) ->
  prepared_vars (alg_name a) p =
  mkVars (canon_wire (t_key t)) (canon_wire (t_alg t)) (u48 (t_time t)) (t_fudge t) (t_error t) (t_other t).
Proof.
  intros (H1 & H2 & H3 & H4 & H5 & H6) Ha. unfold prepared_vars.
  rewrite H1, H2, H3, H5, H6, alg_name_val, Ha. reflexivity.
Qed.

Lemma sign_digest_spec p t d m a sent_id :
  prepared_repr p t -> t_alg t = salg_name (alg_s a) -> wf_smsg m ->
  (N.of_nat (length (t_other t)) < 65536)%N -> (N.of_nat (length (dmode_mac d)) <= 65535)%N ->
  sign_digest p (sent_prefix sent_id m) (smode_of d) a = Ok (spec_digest d m t).
Proof.
  intros Hp Ha Hm Ho Hd.
  pose proof (prepared_vars_repr p t a Hp Ha) as Hv.
  destruct Hp as (H1 & H2 & H3 & H4 & H5 & H6).
  destruct d as [|rm|pm]; cbn [smode_of sign_digest spec_digest dmode_mac] in *.
  - rewrite amm_spec by exact Hm. cbn [bind]. rewrite Hv, variables_spec by (auto). rewrite H4. reflexivity.
  - rewrite too_long_false by exact Hd. rewrite amm_spec by exact Hm. cbn [bind].
    rewrite Hv, variables_spec by auto. rewrite H4.
    rewrite app_assoc, prior_mac_spec by exact Hd. reflexivity.
  - rewrite too_long_false by exact Hd. rewrite amm_spec by exact Hm. cbn [bind].
    rewrite Hv, timers_spec. rewrite H4.
    rewrite app_assoc, prior_mac_spec by exact Hd. reflexivity.
Qed.

Section WithHmac.
Variable hmac : alg -> bytes -> bytes -> bytes.
Hypothesis hmac_len : forall a k d, length (hmac a k d) = output_size a.

Lemma output_size_small a : output_size a <= 32.
Proof. destruct a; vm_compute; lia. Qed.

Lemma sign_spec p t d m a key sent_id :
  prepared_repr p t -> t_alg t = salg_name (alg_s a) -> wf_smsg m ->
  (N.of_nat (length (t_other t)) < 65536)%N -> (N.of_nat (length (dmode_mac d)) <= 65535)%N ->
  (N.of_nat (wire_len (t_alg t) + 16 + output_size a + length (t_other t)) <= 65535)%N ->
  sign hmac p (sent_prefix sent_id m) (smode_of d) a key = Ok (spec_sign (mac_fn_of hmac) d m t (alg_s a) key).
Proof.
  intros Hp Ha Hm Ho Hd Hlen. unfold sign.
  rewrite (sign_digest_spec p t d m a sent_id Hp Ha Hm Ho Hd). cbn [bind].
  unfold spec_sign, mac_fn_of. rewrite alg_m_s.
  set (mac := hmac a key (spec_digest d m t)).
  assert (Lmac : length mac = output_size a) by apply hmac_len.
  destruct Hp as (H1 & H2 & H3 & H4 & H5 & H6).
  unfold serialize_rdata, new_tsig, required_len.
  destruct type_class_val as (_ & _ & _ & -> & _).
  assert (Hal : length (alg_name a) = wire_len (t_alg t)) by (rewrite alg_name_wire, Ha; reflexivity).
  rewrite Hal, Lmac, H6.
  assert (Hle : (N.of_nat (wire_len (t_alg t) + N.to_nat 16 + output_size a + length (t_other t)) <=? 65535)%N = true).
  { apply N.leb_le. replace (N.to_nat 16) with 16 by reflexivity. exact Hlen. }
  rewrite Hle. cbn [unwrap bind]. unfold serialize_tsig_unchecked, spec_rdata.
  cbn [t_alg t_time t_fudge t_mac t_orig_id t_error t_other].
  rewrite H2, H3, H4, H5, alg_name_wire, Ha.
  rewrite (len_u16_small mac) by (rewrite Lmac; pose proof (output_size_small a); lia).
  rewrite (len_u16_small (t_other t)) by exact Ho.
  reflexivity.
Qed.

End WithHmac.

(* ---- reading the TSIG RR -------------------------------------------------------------------------- *)

Lemma nth_error_mid {A} (pre : list A) x post : nth_error (pre ++ x :: post) (length pre) = Some x.
Proof. rewrite nth_error_app2 by lia. rewrite Nat.sub_diag. reflexivity. Qed.

Lemma decodes_wire_of : forall (ls : sname) pre rest,
  Forall (fun l => 1 <= length l <= 63) ls ->
  decodes (pre ++ wire_of ls ++ rest) 0 (length pre) ls (length pre + wire_len ls).
Proof.
  induction ls as [|l r IH]; intros pre rest H.
  - change (wire_of []) with [0%N]. change (wire_len []) with 1. cbn [app].
    apply dec_root. apply nth_error_mid.
  - inversion H as [|? ? Hl Hr]; subst.
    rewrite wire_of_cons, wire_len_cons. cbn [app].
    assert (Hb : pre ++ N.of_nat (length l) :: (l ++ wire_of r) ++ rest
                 = (pre ++ N.of_nat (length l) :: l) ++ wire_of r ++ rest).
    { repeat rewrite <- app_assoc. cbn [app]. repeat rewrite <- app_assoc. reflexivity. }
    assert (Hs : slice (pre ++ N.of_nat (length l) :: (l ++ wire_of r) ++ rest) (length pre + 1)
                       (length pre + 1 + N.to_nat (N.of_nat (length l))) = l).
    { rewrite Nat2N.id.
      replace (pre ++ N.of_nat (length l) :: (l ++ wire_of r) ++ rest)
        with ((pre ++ [N.of_nat (length l)]) ++ l ++ (wire_of r ++ rest))
        by (repeat rewrite <- app_assoc; cbn [app]; repeat rewrite <- app_assoc; reflexivity).
      pose proof (get_range_app (pre ++ [N.of_nat (length l)]) l (wire_of r ++ rest)
                                (length pre + 1) (length pre + 1 + length l)) as G.
      rewrite app_length in G. cbn [length] in G. specialize (G eq_refl eq_refl).
      apply get_range_Some in G. destruct G as (_ & _ & G). symmetry. exact G. }
    rewrite <- Hs at 3.
    apply dec_label.
    + apply nth_error_mid.
    + lia.
    + lia.
    + rewrite Nat2N.id. rewrite !app_length. cbn [length]. rewrite !app_length. lia.
    + rewrite Nat2N.id. rewrite Hb.
      replace (length pre + 1 + length l) with (length (pre ++ N.of_nat (length l) :: l))
        by (rewrite app_length; cbn [length]; lia).
      replace (length pre + (1 + length l + wire_len r))
        with (length (pre ++ N.of_nat (length l) :: l) + wire_len r)
        by (rewrite app_length; cbn [length]; lia).
      apply IH. exact Hr.
Qed.

Lemma valid_sname_lens n : valid_sname n -> Forall (fun l => 1 <= length l <= 63) n.
Proof. intros [H _]. eapply Forall_impl; [|exact H]. simpl. intros l [Hl _]. exact Hl. Qed.

Lemma parse_alg_name (n : sname) rest : valid_sname n -> wf_bytes rest ->
  parse_uncompressed_name (wire_of n ++ rest) false = Ok (name_of n, wire_len n).
Proof.
  intros Hn Hr. apply parse_uncompressed_iff.
  - apply Forall_app. split; [apply wf_wire_of; exact Hn|exact Hr].
  - exists n. split; [|split; [reflexivity|discriminate]].
    split; [|apply Hn].
    apply (decodes_wire_of n [] rest). apply valid_sname_lens. exact Hn.
Qed.

(* the octets of a well-formed TSIG record are well-formed *)
Lemma wf_spec_rdata_tail t : wf_stsig t ->
  wf_bytes (u48 (t_time t) ++ u16 (t_fudge t) ++ u16 (N.of_nat (length (t_mac t))) ++ t_mac t
            ++ u16 (t_orig_id t) ++ u16 (t_error t) ++ u16 (N.of_nat (length (t_other t))) ++ t_other t).
Proof.
  intros (_ & _ & _ & Hm & Ho & _).
  assert (W : forall a b : bytes, wf_bytes a -> wf_bytes b -> wf_bytes (a ++ b))
    by (intros a b Ha Hb; apply Forall_app; split; assumption).
  apply W; [apply be_enc_wf|]. apply W; [apply be_enc_wf|]. apply W; [apply be_enc_wf|].
  apply W; [exact Hm|]. apply W; [apply be_enc_wf|]. apply W; [apply be_enc_wf|].
  apply W; [apply be_enc_wf|]. exact Ho.
Qed.

Section Fields.
(* the accessors of ReadTsigRr on RDATA made of nine chunks *)
Variables (K A' A T F MS M O E OL X : bytes) (ms : N).
Hypothesis LA : length A' = length A.
Hypothesis LT : length T = 6.
Hypothesis LF : length F = 2.
Hypothesis LMS : length MS = 2.
Hypothesis LO : length O = 2.
Hypothesis LE : length E = 2.
Hypothesis LOL : length OL = 2.
Hypothesis Lms : N.to_nat ms = length M.
Let rd := A ++ T ++ F ++ MS ++ M ++ O ++ E ++ OL ++ X.
Let r := mkReadTsig K A' ms rd.

Lemma fld_time : r_time_signed r = Some T.
Proof.
  unfold r_time_signed, r_algo_len, r, rd. cbn [r_rdata r_algorithm]. rewrite LA.
  apply get_range_app; lia.
Qed.

Lemma fld_fudge : r_fudge r = Some (be_dec F).
Proof.
  unfold r_fudge, get_u16, r_algo_len, r, rd. cbn [r_rdata r_algorithm]. rewrite LA.
  replace (A ++ T ++ F ++ MS ++ M ++ O ++ E ++ OL ++ X) with ((A ++ T) ++ F ++ MS ++ M ++ O ++ E ++ OL ++ X)
    by (rewrite <- !app_assoc; reflexivity).
  rewrite (get_range_app (A ++ T) F) by (rewrite ?app_length; lia). reflexivity.
Qed.

Lemma fld_mac : r_mac r = Some M.
Proof.
  unfold r_mac, r_algo_len, r_mac_len, r, rd. cbn [r_rdata r_algorithm r_mac_size]. rewrite LA, Lms.
  replace (A ++ T ++ F ++ MS ++ M ++ O ++ E ++ OL ++ X) with ((A ++ T ++ F ++ MS) ++ M ++ O ++ E ++ OL ++ X)
    by (rewrite <- !app_assoc; reflexivity).
  apply get_range_app; rewrite ?app_length; lia.
Qed.

Lemma fld_oid : r_original_id r = Some (be_dec O).
Proof.
  unfold r_original_id, get_u16, r_algo_len, r_mac_len, r, rd. cbn [r_rdata r_algorithm r_mac_size]. rewrite LA, Lms.
  replace (A ++ T ++ F ++ MS ++ M ++ O ++ E ++ OL ++ X) with ((A ++ T ++ F ++ MS ++ M) ++ O ++ E ++ OL ++ X)
    by (rewrite <- !app_assoc; reflexivity).
  rewrite (get_range_app (A ++ T ++ F ++ MS ++ M) O) by (rewrite ?app_length; lia). reflexivity.
Qed.

Lemma fld_error : r_error r = Some (be_dec E).
Proof.
  unfold r_error, get_u16, r_algo_len, r_mac_len, r, rd. cbn [r_rdata r_algorithm r_mac_size]. rewrite LA, Lms.
  replace (A ++ T ++ F ++ MS ++ M ++ O ++ E ++ OL ++ X) with ((A ++ T ++ F ++ MS ++ M ++ O) ++ E ++ OL ++ X)
    by (rewrite <- !app_assoc; reflexivity).
  rewrite (get_range_app (A ++ T ++ F ++ MS ++ M ++ O) E) by (rewrite ?app_length; lia). reflexivity.
Qed.

Lemma fld_other : r_other r = Some X.
Proof.
  unfold r_other, r_algo_len, r_mac_len, r, rd. cbn [r_rdata r_algorithm r_mac_size]. rewrite LA, Lms.
  replace (A ++ T ++ F ++ MS ++ M ++ O ++ E ++ OL ++ X) with ((A ++ T ++ F ++ MS ++ M ++ O ++ E ++ OL) ++ X)
    by (rewrite <- !app_assoc; reflexivity).
  apply get_from_app. rewrite ?app_length. lia.
Qed.

Lemma fld_mac_size_at : get_u16 rd (length A + 8) = Some (be_dec MS).
Proof.
  unfold get_u16, rd.
  replace (A ++ T ++ F ++ MS ++ M ++ O ++ E ++ OL ++ X) with ((A ++ T ++ F) ++ MS ++ M ++ O ++ E ++ OL ++ X)
    by (rewrite <- !app_assoc; reflexivity).
  rewrite (get_range_app (A ++ T ++ F) MS) by (rewrite ?app_length; lia). reflexivity.
Qed.
End Fields.

(* ---- the three checks ------------------------------------------------------------------------------ *)

Lemma check_mac_size_spec a (n : nat) :
  check_mac_size a (N.of_nat n) = if mac_len_okb (alg_s a) n then Ok tt else Err VFormErr.
Proof.
  unfold check_mac_size, mac_len_okb. rewrite Nat2N.id.
  destruct type_class_val as (_ & _ & _ & _ & ->).
  destruct a; cbn [alg_s salg_out output_size];
    change (N.to_nat SHA1_OUTPUT_SIZE) with 20; change (N.to_nat SHA256_OUTPUT_SIZE) with 32;
    change (N.to_nat 10) with 10; change ((20 + 1) / 2) with 10; change ((32 + 1) / 2) with 16;
    change (Nat.max 10 10) with 10; change (Nat.max 10 16) with 16.
  - destruct (20 <? n) eqn:E1; destruct (n <? 10) eqn:E2; destruct (n <=? 20) eqn:E3;
      destruct (10 <=? n) eqn:E4; destruct (20 <=? 2 * n) eqn:E5; cbn [orb andb]; try reflexivity; exfalso;
      repeat match goal with
             | H : (_ <? _) = true |- _ => apply Nat.ltb_lt in H
             | H : (_ <? _) = false |- _ => apply Nat.ltb_ge in H
             | H : (_ <=? _) = true |- _ => apply Nat.leb_le in H
             | H : (_ <=? _) = false |- _ => apply Nat.leb_gt in H
             end; lia.
  - destruct (32 <? n) eqn:E1; destruct (n <? 16) eqn:E2; destruct (n <=? 32) eqn:E3;
      destruct (10 <=? n) eqn:E4; destruct (32 <=? 2 * n) eqn:E5; cbn [orb andb]; try reflexivity; exfalso;
      repeat match goal with
             | H : (_ <? _) = true |- _ => apply Nat.ltb_lt in H
             | H : (_ <? _) = false |- _ => apply Nat.ltb_ge in H
             | H : (_ <=? _) = true |- _ => apply Nat.leb_le in H
             | H : (_ <=? _) = false |- _ => apply Nat.leb_gt in H
             end; lia.
Qed.

Lemma mac_len_okb_spec a n : mac_len_okb a n = true <-> mac_len_ok a n.
Proof.
  unfold mac_len_okb, mac_len_ok. rewrite !andb_true_iff, !Nat.leb_le. tauto.
Qed.

(* check_time on 48-bit times and a 16-bit fudge: the u64 addition never saturates, the
   subtraction saturates exactly when the true lower bound is negative, and the outcome is the
   integer comparison of RFC 8945 5.2.3 *)
Lemma check_time_no_overflow ts fudge :
  (ts < 281474976710656)%N -> (fudge < 65536)%N -> (N.min (ts + fudge) u64_max = ts + fudge)%N.
Proof. intros H1 H2. apply N.min_l. unfold u64_max. lia. Qed.

Lemma check_time_spec t now :
  (t_time t < 281474976710656)%N -> (t_fudge t < 65536)%N -> (now < 281474976710656)%N ->
  check_time (u48 (t_time t)) (t_fudge t) (u48 now) = if time_okb t now then Ok tt else Err BadTime.
Proof.
  intros H1 H2 H3. unfold check_time, to_unix_time, time_okb.
  rewrite !be_dec_u48 by assumption. rewrite check_time_no_overflow by assumption.
  destruct (t_time t <? t_fudge t)%N eqn:E.
  - apply N.ltb_lt in E.
    assert (Ha : (0 <=? now)%N = true) by (apply N.leb_le; lia). rewrite Ha.
    assert (Hb : (Z.of_N (t_time t) - Z.of_N (t_fudge t) <=? Z.of_N now)%Z = true) by (apply Z.leb_le; lia).
    rewrite Hb. cbn [andb].
    destruct (now <=? t_time t + t_fudge t)%N eqn:E2;
      destruct (Z.of_N now <=? Z.of_N (t_time t) + Z.of_N (t_fudge t))%Z eqn:E3; try reflexivity; exfalso.
    + apply N.leb_le in E2. apply Z.leb_gt in E3. lia.
    + apply N.leb_gt in E2. apply Z.leb_le in E3. lia.
  - apply N.ltb_ge in E.
    destruct (t_time t - t_fudge t <=? now)%N eqn:E1;
      destruct (Z.of_N (t_time t) - Z.of_N (t_fudge t) <=? Z.of_N now)%Z eqn:E1';
      destruct (now <=? t_time t + t_fudge t)%N eqn:E2;
      destruct (Z.of_N now <=? Z.of_N (t_time t) + Z.of_N (t_fudge t))%Z eqn:E3; try reflexivity; exfalso;
      repeat match goal with
             | H : (_ <=? _)%N = true |- _ => apply N.leb_le in H
             | H : (_ <=? _)%N = false |- _ => apply N.leb_gt in H
             | H : (_ <=? _)%Z = true |- _ => apply Z.leb_le in H
             | H : (_ <=? _)%Z = false |- _ => apply Z.leb_gt in H
             end; lia.
Qed.

Lemma time_okb_spec t now : time_okb t now = true <-> time_ok t now.
Proof. unfold time_okb, time_ok. rewrite andb_true_iff, !Z.leb_le. tauto. Qed.

Lemma verify_truncated_left_spec full tag out :
  1 <= length tag -> length tag <= out ->
  verify_truncated_left full tag out = octets_eqb tag (firstn (length tag) full).
Proof.
  intros H1 H2. unfold verify_truncated_left.
  assert (E1 : (length tag =? 0) = false) by (apply Nat.eqb_neq; lia).
  assert (E2 : (out <? length tag) = false) by (apply Nat.ltb_ge; lia).
  rewrite E1, E2. cbn [orb]. apply bytes_octets_eqb.
Qed.

(* ---- verification ------------------------------------------------------------------------------------ *)

Definition read_of (t : stsig) : read_tsig :=
  mkReadTsig (canon_wire (t_key t)) (canon_wire (t_alg t)) (N.of_nat (length (t_mac t))) (spec_rdata t).

Lemma try_from_spec t : wf_stsig t -> read_tsig_try_from (tsig_read_rr t) = Ok (read_of t).
Proof.
  intros W. pose proof W as (Hk & Ha & (Ht & Hf & Hoid & He) & Hm & Ho & Lm & Lo & Ltot).
  unfold read_tsig_try_from, tsig_read_rr. cbn [rr_type rr_class rr_ttl rr_rdata rr_owner].
  destruct type_class_val as (-> & -> & _).
  change (negb (250 =? 250)%N) with false. change (negb (255 =? 255)%N || negb (0 =? 0)%N) with false.
  cbv iota. unfold spec_rdata at 1.
  rewrite parse_alg_name by (try exact Ha; apply wf_spec_rdata_tail; exact W).
  unfold wire_len, spec_rdata.
  rewrite (fld_mac_size_at (wire_of (t_alg t)) (wire_of (t_alg t)) (u48 (t_time t)) (u16 (t_fudge t))
             (u16 (N.of_nat (length (t_mac t)))) (t_mac t) (u16 (t_orig_id t)) (u16 (t_error t))
             (u16 (N.of_nat (length (t_other t)))) (t_other t) (N.of_nat (length (t_mac t))))
    by (try reflexivity; try apply be_enc_length; apply Nat2N.id).
  rewrite be_dec_u16 by exact Lm.
  unfold read_of, to_lowercase_name. cbn [n_wire name_of].
  rewrite !map_lower_wire_of by (apply valid_sname_len63; assumption).
  reflexivity.
Qed.

Section Verify.
Variable hmac : alg -> bytes -> bytes -> bytes.

Lemma read_fields t : wf_stsig t ->
  r_time_signed (read_of t) = Some (u48 (t_time t)) /\ r_fudge (read_of t) = Some (t_fudge t) /\
  r_mac (read_of t) = Some (t_mac t) /\ r_original_id (read_of t) = Some (t_orig_id t) /\
  r_error (read_of t) = Some (t_error t) /\ r_other (read_of t) = Some (t_other t).
Proof.
  intros (Hk & Ha & (Ht & Hf & Hoid & He) & Hm & Ho & Lm & Lo & Ltot).
  assert (LA : length (canon_wire (t_alg t)) = length (wire_of (t_alg t))) by apply wire_of_length_canon.
  unfold read_of, spec_rdata.
  repeat split.
  - apply fld_time; try apply be_enc_length; try exact LA; apply Nat2N.id.
  - rewrite fld_fudge by (try apply be_enc_length; try exact LA; apply Nat2N.id).
    rewrite be_dec_u16 by exact Hf. reflexivity.
  - apply fld_mac; try apply be_enc_length; try exact LA; apply Nat2N.id.
  - rewrite fld_oid by (try apply be_enc_length; try exact LA; apply Nat2N.id).
    rewrite be_dec_u16 by exact Hoid. reflexivity.
  - rewrite fld_error by (try apply be_enc_length; try exact LA; apply Nat2N.id).
    rewrite be_dec_u16 by exact He. reflexivity.
  - apply fld_other; try apply be_enc_length; try exact LA; apply Nat2N.id.
Qed.

Lemma read_digest_spec t d m sent_id : wf_stsig t -> wf_smsg m ->
  (N.of_nat (length (dmode_mac d)) <= 65535)%N ->
  read_digest (read_of t) (sent_prefix sent_id m) (vmode_of d) = Ok (spec_digest d m t).
Proof.
  intros W Hm Hd. destruct (read_fields t W) as (F1 & F2 & F3 & F4 & F5 & F6).
  destruct W as (Hk & Ha & (Ht & Hf & Hoid & He) & Hmac & Ho & Lm & Lo & Ltot).
  assert (Hv : @read_vars verr (read_of t) =
               Ok (mkVars (canon_wire (t_key t)) (canon_wire (t_alg t)) (u48 (t_time t)) (t_fudge t)
                          (t_error t) (t_other t))).
  { unfold read_vars. rewrite F1, F2, F5, F6. reflexivity. }
  destruct d as [|rm|pm]; cbn [vmode_of read_digest spec_digest dmode_mac] in *;
    rewrite F4; cbn [unwrap bind]; rewrite amm_spec by exact Hm; cbn [bind]; rewrite Hv; cbn [bind].
  - rewrite variables_spec by auto. reflexivity.
  - rewrite variables_spec by auto. rewrite app_assoc, prior_mac_spec by exact Hd. reflexivity.
  - rewrite timers_spec. rewrite app_assoc, prior_mac_spec by exact Hd. reflexivity.
Qed.

Lemma name_eqb_refl x : name_eqb x x = true.
Proof. unfold name_eqb. apply bytes_eqb_eq. reflexivity. Qed.

Theorem verify_spec t d m a key now sent_id :
  wf_stsig t -> wf_smsg m -> canon (t_alg t) = salg_name (alg_s a) ->
  (now < 281474976710656)%N -> (N.of_nat (length (dmode_mac d)) <= 65535)%N ->
  verify hmac (read_of t) (sent_prefix sent_id m) (vmode_of d) a key (be48 now)
  = res_of (spec_verify (mac_fn_of hmac) d m t (alg_s a) key now).
Proof.
  intros W Hm Halg Hnow Hd.
  destruct (read_fields t W) as (F1 & F2 & F3 & F4 & F5 & F6).
  pose proof (read_digest_spec t d m sent_id W Hm Hd) as HD.
  pose proof W as (Hk & Ha & (Ht & Hf & Hoid & He) & Hmac & Ho & Lm & Lo & Ltot).
  assert (Hcore : verification_core hmac (read_of t) (read_digest (read_of t) (sent_prefix sent_id m) (vmode_of d))
                    a key (be48 now) = res_of (spec_verify (mac_fn_of hmac) d m t (alg_s a) key now)).
  { unfold verification_core.
    assert (Hn : r_algorithm (read_of t) = alg_name a).
    { cbn [read_of r_algorithm]. unfold canon_wire. rewrite Halg, alg_name_wire. reflexivity. }
    rewrite Hn, name_eqb_refl. cbn [negb].
    cbn [read_of r_mac_size]. rewrite check_mac_size_spec. fold (read_of t).
    unfold spec_verify.
    destruct (mac_len_okb (alg_s a) (length (t_mac t))) eqn:Eok; cbn [negb bind]; [|reflexivity].
    rewrite HD. cbn [bind]. rewrite F3. cbn [unwrap bind].
    apply mac_len_okb_spec in Eok. destruct Eok as (Ho1 & Ho2 & Ho3).
    rewrite verify_truncated_left_spec by (rewrite ?output_size_val; lia).
    unfold mac_fn_of. rewrite alg_m_s.
    destruct (octets_eqb (t_mac t) (firstn (length (t_mac t)) (hmac a key (spec_digest d m t)))); cbn [negb];
      [|reflexivity].
    rewrite F1, F2. cbn [unwrap bind]. rewrite be48_u48, check_time_spec by assumption.
    destruct (time_okb t now); reflexivity. }
  destruct d as [|rm|pm]; cbn [vmode_of verify] in *; try exact Hcore.
  cbn [dmode_mac] in Hd. rewrite too_long_false by exact Hd. exact Hcore.
Qed.

(* accepted exactly when the MAC size is allowed, the MAC is the truncation of the MAC of the
   RFC's digest, and the time is within the fudge window *)
Lemma spec_verify_ok_iff mac_fn d m t a key now :
  spec_verify mac_fn d m t a key now = SOk <-> spec_accepts mac_fn d m t a key now.
Proof.
  unfold spec_verify, spec_accepts, mac_matches.
  destruct (mac_len_okb a (length (t_mac t))) eqn:E1; cbn [negb].
  - destruct (octets_eqb (t_mac t) (firstn (length (t_mac t)) (mac_fn a key (spec_digest d m t)))) eqn:E2; cbn [negb].
    + destruct (time_okb t now) eqn:E3; cbn [negb].
      * split; [intros _|reflexivity]. split; [apply mac_len_okb_spec; exact E1|].
        split; [apply octets_eqb_eq; exact E2|apply time_okb_spec; exact E3].
      * split; [discriminate|]. intros (_ & _ & H). apply time_okb_spec in H. congruence.
    + split; [discriminate|]. intros (_ & H & _). apply octets_eqb_eq in H. congruence.
  - split; [discriminate|]. intros (H & _). apply mac_len_okb_spec in H. congruence.
Qed.

Lemma spec_verify_errors mac_fn d m t a key now :
  (spec_verify mac_fn d m t a key now = SFormErr <-> ~ mac_len_ok a (length (t_mac t))) /\
  (spec_verify mac_fn d m t a key now = SBadSig <->
     mac_len_ok a (length (t_mac t)) /\ ~ mac_matches mac_fn d m t a key) /\
  (spec_verify mac_fn d m t a key now = SBadTime <->
     mac_len_ok a (length (t_mac t)) /\ mac_matches mac_fn d m t a key /\ ~ time_ok t now).
Proof.
  unfold spec_verify, mac_matches.
  pose proof (mac_len_okb_spec a (length (t_mac t))) as S1.
  pose proof (octets_eqb_eq (t_mac t) (firstn (length (t_mac t)) (mac_fn a key (spec_digest d m t)))) as S2.
  pose proof (time_okb_spec t now) as S3.
  destruct (mac_len_okb a (length (t_mac t))); cbn [negb].
  - assert (P1 : mac_len_ok a (length (t_mac t))) by (apply S1; reflexivity).
    destruct (octets_eqb (t_mac t) (firstn (length (t_mac t)) (mac_fn a key (spec_digest d m t)))); cbn [negb].
    + assert (P2 : t_mac t = firstn (length (t_mac t)) (mac_fn a key (spec_digest d m t))) by (apply S2; reflexivity).
      destruct (time_okb t now); cbn [negb].
      * assert (P3 : time_ok t now) by (apply S3; reflexivity).
        (split; [|split]); (split; [intros HH; try discriminate; try tauto | intros HH; try tauto; exfalso; tauto]).
      * assert (N3 : ~ time_ok t now) by (intros H; apply S3 in H; discriminate).
        (split; [|split]); (split; [intros HH; try discriminate; try tauto | intros HH; try tauto; exfalso; tauto]).
    + assert (N2 : t_mac t <> firstn (length (t_mac t)) (mac_fn a key (spec_digest d m t)))
        by (intros H; apply S2 in H; discriminate).
      (split; [|split]); (split; [intros HH; try discriminate; try tauto | intros HH; try tauto; exfalso; tauto]).
  - assert (N1 : ~ mac_len_ok a (length (t_mac t))) by (intros H; apply S1 in H; discriminate).
    (split; [|split]); (split; [intros HH; try discriminate; try tauto | intros HH; try tauto; exfalso; tauto]).
Qed.

End Verify.

Lemma res_of_inj r1 r2 : res_of r1 = res_of r2 -> r1 = r2.
Proof. destruct r1, r2; simpl; intros H; try reflexivity; discriminate. Qed.

Theorem verify_ok_iff hmac t d m a key now sent_id :
  wf_stsig t -> wf_smsg m -> canon (t_alg t) = salg_name (alg_s a) ->
  (now < 281474976710656)%N -> (N.of_nat (length (dmode_mac d)) <= 65535)%N ->
  (verify hmac (read_of t) (sent_prefix sent_id m) (vmode_of d) a key (be48 now) = Ok tt
   <-> spec_accepts (mac_fn_of hmac) d m t (alg_s a) key now).
Proof.
  intros W Hm Ha Hn Hd. rewrite (verify_spec hmac t d m a key now sent_id W Hm Ha Hn Hd).
  rewrite <- spec_verify_ok_iff. split; intros H.
  - apply (res_of_inj _ SOk). exact H.
  - rewrite H. reflexivity.
Qed.

Theorem verify_errors hmac t d m a key now sent_id :
  wf_stsig t -> wf_smsg m -> canon (t_alg t) = salg_name (alg_s a) ->
  (now < 281474976710656)%N -> (N.of_nat (length (dmode_mac d)) <= 65535)%N ->
  let v := verify hmac (read_of t) (sent_prefix sent_id m) (vmode_of d) a key (be48 now) in
  let okmac := mac_matches (mac_fn_of hmac) d m t (alg_s a) key in
  let oklen := mac_len_ok (alg_s a) (length (t_mac t)) in
  v <> Panic /\
  (v = Err VFormErr <-> ~ oklen) /\
  (v = Err BadSig <-> oklen /\ ~ okmac) /\
  (v = Err BadTime <-> oklen /\ okmac /\ ~ time_ok t now).
Proof.
  intros W Hm Ha Hn Hd. cbv zeta. rewrite (verify_spec hmac t d m a key now sent_id W Hm Ha Hn Hd).
  destruct (spec_verify_errors (mac_fn_of hmac) d m t (alg_s a) key now) as (E1 & E2 & E3).
  split; [destruct (spec_verify (mac_fn_of hmac) d m t (alg_s a) key now); discriminate|].
  rewrite <- E1, <- E2, <- E3.
  repeat split; intros H; try (rewrite H; reflexivity).
  - apply (res_of_inj _ SFormErr). exact H.
  - apply (res_of_inj _ SBadSig). exact H.
  - apply (res_of_inj _ SBadTime). exact H.
Qed.

Theorem read_spec t : wf_stsig t ->
  read_tsig_try_from (tsig_read_rr t) = Ok (read_of t) /\
  r_time_signed (read_of t) = Some (u48 (t_time t)) /\ r_fudge (read_of t) = Some (t_fudge t) /\
  r_mac (read_of t) = Some (t_mac t) /\ r_original_id (read_of t) = Some (t_orig_id t) /\
  r_error (read_of t) = Some (t_error t) /\ r_other (read_of t) = Some (t_other t).
Proof. intros W. split; [exact (try_from_spec t W)|exact (read_fields t W)]. Qed.

Theorem verify_iff_plain hmac t d m a key now sent_id :
  wf_stsig t -> wf_smsg m -> canon (t_alg t) = salg_name (alg_s a) ->
  (now < 281474976710656)%N -> (N.of_nat (length (dmode_mac d)) <= 65535)%N ->
  (verify hmac (read_of t) (sent_prefix sent_id m) (vmode_of d) a key (be48 now) = Ok tt
   <-> mac_len_ok (alg_s a) (length (t_mac t)) /\
       t_mac t = firstn (length (t_mac t)) (hmac a key (spec_digest d m t)) /\
       time_ok t now).
Proof.
  intros W Hm Ha Hn Hd.
  rewrite (verify_ok_iff hmac t d m a key now sent_id W Hm Ha Hn Hd).
  unfold spec_accepts, mac_matches, mac_fn_of. rewrite alg_m_s. tauto.
Qed.

(* ---- finish_with_mac with EDNS: the OPT RR is appended first and is covered by the MAC ------------- *)

Lemma be32_upper u : (u < 256)%N -> be32 (u * 16777216) = be_enc 1 u ++ be_enc 1 0 ++ u16 0.
Proof.
  intros H. unfold be32. cbn [be_enc u16 app].
  assert (E1 : (u * 16777216 / 16777216 = u)%N) by (apply N.div_mul; lia).
  assert (E2 : (u * 16777216 / 65536 = u * 256)%N)
    by (replace (u * 16777216)%N with (u * 256 * 65536)%N by lia; apply N.div_mul; lia).
  assert (E3 : (u * 16777216 / 256 = u * 65536)%N)
    by (replace (u * 16777216)%N with (u * 65536 * 256)%N by lia; apply N.div_mul; lia).
  rewrite E1, E2, E3.
  rewrite (N.mod_small u 256) by exact H.
  rewrite (N.mod_mul u 256) by lia.
  replace (u * 65536)%N with (u * 256 * 256)%N by lia. rewrite (N.mod_mul (u * 256) 256) by lia.
  replace (u * 16777216)%N with (u * 65536 * 256)%N by lia. rewrite (N.mod_mul (u * 65536) 256) by lia.
  reflexivity.
Qed.

Lemma opt_rr_spec e : (e_extended_rcode_upper_bits e < 256)%N ->
  opt_rr e = spec_opt_rr (e_udp_payload_size e) (e_extended_rcode_upper_bits e).
Proof.
  intros H. unfold opt_rr, spec_opt_rr. rewrite be32_upper by exact H.
  change TYPE_OPT with 41%N. repeat rewrite <- app_assoc. reflexivity.
Qed.

Lemma opt_rr_length e : length (opt_rr e) = N.to_nat OPT_RECORD_SIZE.
Proof. reflexivity. Qed.

Lemma wf_spec_opt_rr p u : wf_bytes (spec_opt_rr p u).
Proof.
  unfold spec_opt_rr, u16.
  assert (W : forall a b : bytes, wf_bytes a -> wf_bytes b -> wf_bytes (a ++ b))
    by (intros a b Ha Hb; apply Forall_app; split; assumption).
  apply W; [constructor; [unfold is_octet; lia|constructor]|].
  repeat (apply W; [apply be_enc_wf|]). apply be_enc_wf.
Qed.

Lemma sent_prefix_with_opt sid m p u : sent_prefix sid m ++ spec_opt_rr p u = sent_prefix sid (with_opt m p u).
Proof. unfold sent_prefix, smsg_wire, with_opt. cbn [m_flags m_qd m_an m_ns m_ar m_body]. repeat rewrite <- app_assoc. reflexivity. Qed.

Lemma wf_with_opt m p u : wf_smsg m -> wf_smsg (with_opt m p u).
Proof.
  intros [H Hb]. split; [exact H|]. cbn [with_opt m_body]. apply Forall_app. split; [exact Hb|apply wf_spec_opt_rr].
Qed.

Section FinishEdns.
Variable hmac : alg -> bytes -> bytes -> bytes.
Hypothesis hmac_len : forall a k d, length (hmac a k d) = output_size a.

Lemma finish_tsig_sign p msg d a key :
  finish_tsig hmac msg (tmode_of d a key) p =
  (let* (rdata, mac) := sign hmac p msg (smode_of d) a key in Ok (rdata, Some mac)).
Proof. destruct d; reflexivity. Qed.

(* With set_edns and a signing set_tsig, finish_with_mac produces header ++ sections ++ OPT RR, and the
   TSIG RDATA/MAC are the RFC 8945 ones for THAT message (the OPT RR is under the MAC). *)
Theorem finish_edns_tsig_spec p t d m a key sent_id e :
  prepared_repr p t -> t_alg t = salg_name (alg_s a) -> wf_smsg m ->
  (N.of_nat (length (t_other t)) < 65536)%N -> (N.of_nat (length (dmode_mac d)) <= 65535)%N ->
  (N.of_nat (wire_len (t_alg t) + 16 + output_size a + length (t_other t)) <= 65535)%N ->
  (e_extended_rcode_upper_bits e < 256)%N ->
  let m' := with_opt m (e_udp_payload_size e) (e_extended_rcode_upper_bits e) in
  finish_tail hmac (sent_prefix sent_id m) (Some e) (Some (tmode_of d a key, p)) =
  Ok (sent_prefix sent_id m',
      Some (fst (spec_sign (mac_fn_of hmac) d m' t (alg_s a) key),
            Some (snd (spec_sign (mac_fn_of hmac) d m' t (alg_s a) key)))).
Proof.
  intros Hp Ha Hm Ho Hd Hlen He. cbv zeta. unfold finish_tail.
  rewrite opt_rr_spec by exact He. rewrite sent_prefix_with_opt, finish_tsig_sign.
  rewrite (sign_spec hmac hmac_len p t d _ a key sent_id Hp Ha (wf_with_opt m _ _ Hm) Ho Hd Hlen).
  cbn [bind]. destruct (spec_sign (mac_fn_of hmac) d (with_opt m (e_udp_payload_size e) (e_extended_rcode_upper_bits e)) t (alg_s a) key).
  reflexivity.
Qed.

(* without EDNS: the message is signed as it is *)
Theorem finish_plain_tsig_spec p t d m a key sent_id :
  prepared_repr p t -> t_alg t = salg_name (alg_s a) -> wf_smsg m ->
  (N.of_nat (length (t_other t)) < 65536)%N -> (N.of_nat (length (dmode_mac d)) <= 65535)%N ->
  (N.of_nat (wire_len (t_alg t) + 16 + output_size a + length (t_other t)) <= 65535)%N ->
  finish_tail hmac (sent_prefix sent_id m) None (Some (tmode_of d a key, p)) =
  Ok (sent_prefix sent_id m,
      Some (fst (spec_sign (mac_fn_of hmac) d m t (alg_s a) key), Some (snd (spec_sign (mac_fn_of hmac) d m t (alg_s a) key)))).
Proof.
  intros Hp Ha Hm Ho Hd Hlen. unfold finish_tail. rewrite finish_tsig_sign.
  rewrite (sign_spec hmac hmac_len p t d m a key sent_id Hp Ha Hm Ho Hd Hlen). cbn [bind].
  destruct (spec_sign (mac_fn_of hmac) d m t (alg_s a) key). reflexivity.
Qed.

End FinishEdns.
