(* Composition, part 11: the octets of a response that carries a TSIG record (Model/ServerWT.v).
   Part A (this file): names and fields of the TSIG settings the pre-scan hands over are what the Writer
   demands of its caller (valid Names, 6-octet times, 16-bit numbers); the numbers of the Writer after
   ServerW.ser_prepare (cursor = header + question, available + OPT reservation = limit, limit as replayed). *)
From QV Require Import Base.ListX Gen.Consts Model.NameWire Model.Reader Model.RdataLite Model.Server Model.ServerW Model.ServerWT
  Model.MsgWriter Model.ZoneTree Model.Query Model.QueryW
  Spec.NameWireS Spec.NameRepr Proofs.NameWireP Proofs.ServerP Proofs.ServerTsigP
  Proofs.MsgWriterP Proofs.MsgWriterScanP Proofs.MsgWriterNameP Proofs.MsgWriterInvP Proofs.MsgWriterNameSP Proofs.MsgWriterOpP
  Proofs.MsgWriterStepP Proofs.QueryDispatchP
  Proofs.ComposeTraceP Proofs.ComposeNameP Proofs.ComposeTopP Proofs.ComposeSerP.
Local Open Scope nat_scope.

(* ---------------------------------------------------------------- names in wire form *)

(* [w] is the uncompressed wire form of a valid Name whose octets are < 256 *)
Definition wire_name_ok (w : bytes) : Prop :=
  let ls := Server.wire_labels w in w = nm_wire ls /\ good_name ls /\ Forall wf_bytes ls.

Lemma server_wire_labels_ok ls : Forall wf_label ls -> Server.wire_labels (nm_wire ls) = ls.
Proof.
  intros H. unfold Server.wire_labels. rewrite wire_labels_same, q_wire_labels_eq. apply wire_labels_ok; [exact H|].
  pose proof (lwire_len_ge ls H). rewrite nm_wire_length. lia.
Qed.

Lemma wno_intro ls : good_name ls -> Forall wf_bytes ls -> wire_name_ok (nm_wire ls).
Proof.
  intros G W. unfold wire_name_ok. cbv zeta. rewrite (server_wire_labels_ok ls (proj1 (proj1 G))). auto.
Qed.

Lemma lower_len_octet x : (x <= 63)%N -> lower x = x.
Proof.
  intros H. unfold lower. destruct ((65 <=? x)%N && (x <=? 90)%N) eqn:E; [|reflexivity].
  apply andb_true_iff in E. destruct E as [E _]. apply N.leb_le in E. lia.
Qed.

Lemma map_lower_nm_wire ls : Forall wf_label ls -> map lower (nm_wire ls) = nm_wire (nm_lower ls).
Proof.
  intros H. unfold nm_wire. rewrite map_app. cbn [map]. replace (lower 0) with 0%N by reflexivity. f_equal.
  induction H as [|l r [H1 H63] _ IH]; [reflexivity|].
  cbn [nm_lower map nm_lwire flat_map]. rewrite map_app. cbn [map]. rewrite map_length.
  rewrite lower_len_octet by lia. f_equal. f_equal. exact IH.
Qed.

Lemma good_name_lower ls : good_name ls -> good_name (nm_lower ls).
Proof. intros [A B]. split; [apply wf_name_lower; exact A|rewrite wire_lower_length; exact B]. Qed.

Lemma wno_lower w : wire_name_ok w -> wire_name_ok (lower_wire w).
Proof.
  intros (E & G & W). unfold lower_wire. rewrite E. rewrite (map_lower_nm_wire _ (proj1 (proj1 G))).
  apply wno_intro; [apply good_name_lower; exact G|apply wf_bytes_lower; exact W].
Qed.

(* labels of a decoded name are octet strings of the message *)
Lemma decodes_wf_bytes b : wf_bytes b -> forall cs i ls e, decodes b cs i ls e -> Forall wf_bytes ls.
Proof.
  intros Hwf. induction 1 as [cs i H0|cs i len rest e Hn H0 H63 Hle _ IH|cs i hi lo rest e' Hh H192 Hl Hlt _ IH]; auto.
  constructor; auto. apply wf_bytes_slice. exact Hwf.
Qed.
Lemma decodes_wf_label b : forall cs i ls e, decodes b cs i ls e -> Forall wf_label ls.
Proof.
  induction 1 as [cs i H0|cs i len rest e Hn H0 H63 Hle _ IH|cs i hi lo rest e' Hh H192 Hl Hlt _ IH]; auto.
  constructor; auto. unfold wf_label. rewrite slice_length by lia. lia.
Qed.

Lemma wno_parse_compressed b c nm l : wf_bytes b -> parse_compressed_name b c = Ok (nm, l) -> wire_name_ok (n_wire nm).
Proof.
  intros Hwf H. apply (parse_compressed_iff b c nm l Hwf) in H as (ls & (e & D & _ & Hw) & ->).
  cbn [name_of n_wire]. change (wire_of ls) with (nm_wire ls).
  pose proof (decodes_wf_label _ _ _ _ _ D) as Hl.
  apply wno_intro; [|eapply decodes_wf_bytes; eauto].
  split; [split; [exact Hl|]|].
  - pose proof (lwire_len_ge ls Hl) as Hge. assert (Hwl : length (nm_wire ls) = wire_len ls) by reflexivity.
    rewrite nm_wire_length in Hwl. lia.
  - exact Hw.
Qed.

Lemma labels_of_name_wf rd nm len : wf_bytes rd -> parse_uncompressed_name rd false = Ok (nm, len) ->
  Forall wf_bytes (labels_of_name nm) /\ n_wire nm = nm_wire (labels_of_name nm) /\ n_wire nm = firstn len rd.
Proof.
  intros Hwf H.
  assert (Hf : n_wire nm = firstn len rd).
  { unfold parse_uncompressed_name in H. destruct (unc_loop unc_fuel rd 0 []) as [[o offs]|e|]; cbn [bind] in H; try discriminate.
    cbn [andb] in H. inversion H; subst. reflexivity. }
  apply (parse_uncompressed_iff rd false nm len Hwf) in H as [ls [[D Hw] [-> _]]].
  pose proof (decodes_unc_labels _ _ _ _ _ D eq_refl) as Hl.
  assert (Hls : labels_of_name (name_of ls) = ls).
  { unfold labels_of_name, name_of. cbn [n_wire]. change (wire_of ls) with (nm_wire ls).
    pose proof (lwire_len_ge ls Hl) as Hge. rewrite wire_labels_ok; auto. rewrite nm_wire_length. lia. }
  rewrite Hls. split; [eapply decodes_wf_bytes; eauto|]. split; [reflexivity|exact Hf].
Qed.

Lemma wno_validated rd al : wf_bytes rd -> validate_uncompressed_name rd false = Ok al -> wire_name_ok (firstn al rd).
Proof.
  intros Hwf V. rewrite validate_agrees in V.
  destruct (parse_uncompressed_name rd false) as [[nm len]|e|] eqn:P; cbn [map_ok snd] in V; try discriminate.
  inversion V; subst len. destruct (parse_unc_good rd nm al Hwf P) as (G & _).
  destruct (labels_of_name_wf rd nm al Hwf P) as (W & E1 & E2). rewrite <- E2, E1. apply wno_intro; assumption.
Qed.

Lemma wno_alg a : wire_name_ok (alg_name_wire a).
Proof.
  destruct a.
  - change (alg_name_wire Server.HmacSha1) with (nm_wire [[104;109;97;99;45;115;104;97;49]%N]).
    apply wno_intro.
    + split; [split; [repeat constructor; simpl; lia|simpl; lia]|simpl; lia].
    + repeat constructor; unfold is_octet; lia.
  - change (alg_name_wire Server.HmacSha256) with (nm_wire [[104;109;97;99;45;115;104;97;50;53;54]%N]).
    apply wno_intro.
    + split; [split; [repeat constructor; simpl; lia|simpl; lia]|simpl; lia].
    + repeat constructor; unfold is_octet; lia.
Qed.

Lemma wno_lower_idem w : wire_name_ok w -> nm_lower (Server.wire_labels (lower_wire w)) = Server.wire_labels (lower_wire w).
Proof.
  intros (E & G & W). unfold lower_wire. rewrite E, (map_lower_nm_wire _ (proj1 (proj1 G))).
  rewrite server_wire_labels_ok by (apply wf_name_lower; exact (proj1 G)).
  unfold nm_lower. rewrite map_map. apply map_ext_in. intros l _. rewrite map_map. apply map_ext_in. intros x _.
  unfold lower. destruct ((65 <=? x)%N && (x <=? 90)%N) eqn:E1; [|rewrite E1; reflexivity].
  apply andb_true_iff in E1. destruct E1 as [A B]. apply N.leb_le in A, B.
  destruct ((65 <=? x + 32)%N && (x + 32 <=? 90)%N) eqn:E2; [|reflexivity].
  apply andb_true_iff in E2. destruct E2 as [_ B2]. apply N.leb_le in B2. lia.
Qed.

(* ---------------------------------------------------------------- the fields of the response's TSIG record *)

Lemma be48_ok n : length (TsigMsg.be48 n) = 6 /\ wf_bytes (TsigMsg.be48 n).
Proof.
  split; [reflexivity|]. unfold TsigMsg.be48. repeat constructor; unfold is_octet; apply N.mod_lt; discriminate.
Qed.

Lemma now_octets now : (now < 281474976710656)%N -> TsigMsg.time_signed_of_unix now = Some (TsigMsg.be48 now).
Proof. intros H. unfold TsigMsg.time_signed_of_unix. rewrite N.div_small by exact H. reflexivity. Qed.

Lemma get16_some rd a : a + 2 <= length rd -> exists v, get16 rd a = Some v.
Proof.
  intros H. unfold get16. destruct (nth_error rd a) eqn:A; [|apply nth_error_None in A; lia].
  destruct (nth_error rd (a + 1)) eqn:B; [eauto|apply nth_error_None in B; lia].
Qed.
Lemma get16_lt rd a v : wf_bytes rd -> get16 rd a = Some v -> (v < 65536)%N.
Proof.
  intros Hwf. unfold get16. destruct (nth_error rd a) as [h|] eqn:A; [|discriminate].
  destruct (nth_error rd (a + 1)) as [l|] eqn:B; [|discriminate]. intros H; inversion H; subst.
  apply nth_error_In in A, B. unfold wf_bytes in Hwf. rewrite Forall_forall in Hwf.
  pose proof (Hwf _ A). pose proof (Hwf _ B). unfold is_octet in *. lia.
Qed.

(* the layout validate_as_tsig checked *)
Lemma validated_tsig rd : RdataLite.validate_as_tsig rd = Ok tt ->
  exists al ms ol, validate_uncompressed_name rd false = Ok al /\ tsig_alg_len rd = al /\
    get16 rd (al + 8) = Some ms /\ al + N.to_nat ms + N.to_nat ol + 16 = length rd.
Proof.
  unfold RdataLite.validate_as_tsig. destruct (validate_uncompressed_name rd false) as [al|e|] eqn:V; try discriminate.
  destruct (get16 rd (al + 8)) as [ms|] eqn:G1; [|discriminate].
  destruct (get16 rd (al + N.to_nat ms + 14)) as [ol|] eqn:G2; [|discriminate].
  destruct (_ =? _) eqn:E; [|discriminate]. intros _. apply Nat.eqb_eq in E.
  exists al, ms, ol. split; [reflexivity|]. split; [apply tsig_alg_len_val; exact V|]. split; [exact G1|exact E].
Qed.

Record fields_ok (t : tsig_out) (f : tsig_fields) : Prop := mkFO {
  fo_alg : good_name (tf_alg f); fo_algb : Forall wf_bytes (tf_alg f);
  fo_key : good_name (tf_key f);
  fo_time : length (tf_time f) = 6 /\ wf_bytes (tf_time f);
  fo_stime : length (tf_stime f) = 6 /\ wf_bytes (tf_stime f);
  fo_klen : length (nm_wire (tf_key f)) = length (t_key_wire t);
  fo_alen : length (nm_wire (tf_alg f)) = length (mode_alg_wire (t_mode t));
  fo_err : tf_error f = Server.t_error t;
  fo_oid : (tf_origid f < 65536)%N }.

Lemma mode_alg_ok verify t : tsig_src verify t -> wire_name_ok (mode_alg_wire (t_mode t)).
Proof.
  intros (Wrd & Vrd & _ & M). destruct (validated_tsig _ Vrd) as (al & ms & ol & V & Eal & _).
  destruct (t_mode t) as [aw|a sec mac]; cbn [mode_alg_wire].
  - destruct M as ([-> | (a & ->)] & _); [|apply wno_alg]. rewrite Eal. apply wno_lower. apply wno_validated; assumption.
  - apply wno_alg.
Qed.

Lemma tsig_fields_total verify now t : (now < 281474976710656)%N -> tsig_src verify t ->
  exists f, tsig_fields_of now t = Some f /\ fields_ok t f.
Proof.
  intros Hnow S. pose proof (mode_alg_ok verify t S) as Halg. destruct S as (Wrd & Vrd & (b & c & nm & l & Wb & Pk & Ek) & M).
  destruct (validated_tsig _ Vrd) as (al & ms & ol & V & Eal & G1 & L).
  unfold tsig_fields_of. rewrite (now_octets now Hnow).
  unfold req_origid. rewrite Eal, G1.
  destruct (get16_some (t_request_rdata t) (al + N.to_nat ms + 10)) as [oid Go]; [lia|]. rewrite Go.
  assert (Ht : exists time, (if (Server.t_error t =? XRC_BADTIME)%N then req_time (t_request_rdata t) else Some (TsigMsg.be48 now)) = Some time /\
                 length time = 6 /\ wf_bytes time).
  { destruct (Server.t_error t =? XRC_BADTIME)%N.
    - unfold req_time. rewrite Eal. destruct (al + 6 <=? length (t_request_rdata t)) eqn:X; [|apply Nat.leb_gt in X; lia].
      eexists. split; [reflexivity|]. split; [rewrite slice_length; lia|apply wf_bytes_slice; exact Wrd].
    - eexists. split; [reflexivity|]. apply be48_ok. }
  destruct Ht as (time & -> & Ht1 & Ht2). eexists. split; [reflexivity|].
  assert (Hk : wire_name_ok (t_key_wire t)) by (rewrite Ek; apply wno_lower; exact (wno_parse_compressed b c nm l Wb Pk)).
  destruct Hk as (Ek1 & Gk & Wk). destruct Halg as (Ea1 & Ga & Wa).
  constructor; cbn [tf_alg tf_key tf_time tf_stime tf_error tf_origid]; auto.
  - apply be48_ok.
  - rewrite <- Ek1. reflexivity.
  - rewrite <- Ea1. reflexivity.
  - exact (get16_lt _ _ _ Wrd Go).
Qed.

(* ---------------------------------------------------------------- the Writer after ser_prepare *)

Lemma xrcode_he' b c lim av qd pr e raw : (raw <= 4095)%N -> 12 <= length b ->
  exists b', MsgWriter.set_extended_rcode raw (he_state b c lim av qd pr e) =
             Ok (tt, he_state b' c lim av qd pr (MsgWriter.mkEdns (e_udp e) ((raw / 16) mod 256))) /\ length b' = length b.
Proof.
  intros Hr Hb. unfold MsgWriter.set_extended_rcode. cbn [MsgWriter.w_edns he_state].
  destruct (4095 <? raw)%N eqn:E; [apply N.ltb_lt in E; lia|].
  unfold w_modify, w_write, buf_write. cbn [w_buf he_state].
  destruct (nth_error b (N.to_nat RCODE_BYTE)) as [x|] eqn:En; [|apply nth_error_None in En; change (N.to_nat RCODE_BYTE) with 3 in En; lia].
  cbn [length]. destruct (N.to_nat RCODE_BYTE + 1 <=? length b) eqn:E2; [|apply Nat.leb_gt in E2; change (N.to_nat RCODE_BYTE) with 3 in E2; lia].
  cbn [lift bind]. eexists. split; [reflexivity|]. cbn [w_buf set_buf]. rewrite !app_length, firstn_length, skipn_length. cbn [length].
  change (N.to_nat RCODE_BYTE) with 3 in *. apply Nat.leb_le in E2. lia.
Qed.

Section SerT.
Variable buf : bytes.
Hypothesis Hb : 512 <= length buf.
Variable w : resp.
Hypothesis Hq : forall q, Server.w_question w = Some q ->
  good_name (labels_of (Reader.q_name q)) /\ (Reader.q_type q < 65536)%N /\ (Reader.q_class q < 65536)%N.

Definition wcur : nat :=
  match Server.w_question w with
  | Some q => 12 + length (nm_wire (labels_of (Reader.q_name q))) + 2 + 2
  | None => 12
  end.
Definition wres : nat := match Server.w_edns w with Some _ => 11 | None => 0 end.
Definition wlim (tcp : bool) : nat :=
  match Server.w_edns w with
  | Some _ => if tcp then first_limit tcp buf else Nat.min (Server.w_limit w) (length buf)
  | None => first_limit tcp buf
  end.

Lemma ser_prepare_shape tcp : (Server.w_edns w <> None -> tcp = false -> first_limit tcp buf <= Server.w_limit w) ->
  exists w1, ser_prepare buf tcp w = Some w1 /\
    MsgWriter.w_cursor w1 = wcur /\ MsgWriter.w_tsig w1 = None /\
    w_ar w1 = (match Server.w_edns w with Some _ => 1 | None => 0 end)%N /\
    MsgWriter.w_avail w1 + wres = MsgWriter.w_limit w1 /\ MsgWriter.w_limit w1 = wlim tcp.
Proof.
  intros Hlim. pose proof (first_limit_ge tcp buf Hb) as HL. unfold ser_prepare.
  destruct (writer_new_hdr buf (if tcp then tcp_limit_w else udp_limit_w)) as (b0 & E0 & L0'); [fold (first_limit tcp buf); lia|].
  fold (first_limit tcp buf) in E0. rewrite E0.
  assert (HLb : first_limit tcp buf <= length buf) by (unfold first_limit; lia).
  unfold wlim. set (lim := first_limit tcp buf) in *. change (hdr_state b0 lim) with (hq_state b0 12 lim 0 None).
  unfold set_id. destruct (hq_write b0 12 lim 0 None (N.to_nat ID_START) (MsgWriter.be16 (Server.w_id w mod 65536))) as (b1 & E1 & L1); [simpl; lia|lia|].
  rewrite E1. cbn [bind]. unfold set_qr, w_set_flag.
  destruct (hq_modify b1 12 lim 0 None QR_BYTE (set_bit QR_MASK true)) as (b2 & E2 & L2); [simpl; lia|lia|]. rewrite E2. cbn [bind].
  unfold set_opcode.
  match goal with |- context [w_modify _ OPCODE_BYTE ?f] =>
    destruct (hq_modify b2 12 lim 0 None OPCODE_BYTE f) as (b3 & E3 & L3); [simpl; lia|lia|] end.
  rewrite E3. cbn [bind]. unfold set_rd, w_set_flag.
  destruct (hq_modify b3 12 lim 0 None RD_BYTE (set_bit RD_MASK (Server.w_rd w))) as (b4 & E4 & L4); [simpl; lia|lia|]. rewrite E4. cbn [bind].
  unfold set_aa, w_set_flag.
  destruct (hq_modify b4 12 lim 0 None AA_BYTE (set_bit AA_MASK (Server.w_aa w))) as (b5 & E5 & L5); [simpl; lia|lia|]. rewrite E5. cbn [bind].
  unfold set_tc, w_set_flag.
  destruct (hq_modify b5 12 lim 0 None TC_BYTE (set_bit TC_MASK (Server.w_tc w))) as (b6 & E6 & L6); [simpl; lia|lia|]. rewrite E6.
  assert (HQ : exists b7 qd pr,
            match Server.w_question w with
            | Some q => add_question (labels_of (Reader.q_name q)) (Reader.q_type q) (Reader.q_class q) (hq_state b6 12 lim 0 None)
            | None => Ok (tt, hq_state b6 12 lim 0 None)
            end = Ok (tt, hq_state b7 wcur lim qd pr) /\ length b7 = length b6 /\ 12 <= wcur <= 275).
  { unfold wcur. destruct (Server.w_question w) as [q|] eqn:Eq.
    - destruct (Hq q eq_refl) as ([_ Gl] & _).
      destruct (question_hq b6 lim (labels_of (Reader.q_name q)) (Reader.q_type q) (Reader.q_class q)) as (b7 & pr & E7 & L7); [lia|lia|].
      exists b7, 1%N, pr. split; [exact E7|]. split; [exact L7|lia].
    - exists b6, 0%N, None. split; [reflexivity|]. split; [reflexivity|lia]. }
  destruct HQ as (b7 & qd & pr & E7 & L7 & Hc). rewrite E7. unfold wres.
  destruct (Server.w_edns w) as [[size upper]|].
  - rewrite set_edns_hq by lia.
    assert (Hx : forall b' lim' av', 12 <= length b' ->
              exists b'', MsgWriter.set_extended_rcode (upper mod 256 * 16 + Server.w_rcode w mod 16) (he_state b' wcur lim' av' qd pr (MsgWriter.mkEdns (size mod 65536) 0)) =
                          Ok (tt, he_state b'' wcur lim' av' qd pr (MsgWriter.mkEdns (size mod 65536) (((upper mod 256 * 16 + Server.w_rcode w mod 16) / 16) mod 256)))).
    { intros b' lim' av' Hb'.
      assert (Hraw : (upper mod 256 * 16 + Server.w_rcode w mod 16 <= 4095)%N).
      { pose proof (N.mod_lt upper 256 ltac:(discriminate)). pose proof (N.mod_lt (Server.w_rcode w) 16 ltac:(discriminate)). lia. }
      destruct (xrcode_he' b' wcur lim' av' qd pr (MsgWriter.mkEdns (size mod 65536) 0) _ Hraw Hb') as (b'' & E & _).
      exists b''. exact E. }
    destruct tcp.
    + destruct (Hx b7 lim (lim - 11)) as (b8 & ->); [lia|]. eexists. split; [reflexivity|].
      cbn [he_state MsgWriter.w_cursor MsgWriter.w_tsig w_ar MsgWriter.w_avail MsgWriter.w_limit]. repeat split; lia.
    + assert (Hl : lim <= Server.w_limit w) by (apply Hlim; [discriminate|reflexivity]).
      unfold MsgWriter.set_limit. cbn [he_state MsgWriter.w_limit w_buf MsgWriter.w_avail MsgWriter.w_cursor].
      destruct (lim <=? Server.w_limit w) eqn:X1; [|apply Nat.leb_gt in X1; lia].
      destruct (Nat.min (Server.w_limit w) (length b7) <? lim) eqn:X2; [apply Nat.ltb_lt in X2; lia|].
      change (set_limit_avail (he_state b7 wcur lim (lim - 11) qd pr (MsgWriter.mkEdns (size mod 65536) 0))
                (Nat.min (Server.w_limit w) (length b7)) (lim - 11 + (Nat.min (Server.w_limit w) (length b7) - lim)))
        with (he_state b7 wcur (Nat.min (Server.w_limit w) (length b7)) (lim - 11 + (Nat.min (Server.w_limit w) (length b7) - lim)) qd pr (MsgWriter.mkEdns (size mod 65536) 0)).
      destruct (Hx b7 (Nat.min (Server.w_limit w) (length b7)) (lim - 11 + (Nat.min (Server.w_limit w) (length b7) - lim))) as (b8 & ->); [lia|].
      eexists. split; [reflexivity|].
      cbn [he_state MsgWriter.w_cursor MsgWriter.w_tsig w_ar MsgWriter.w_avail MsgWriter.w_limit].
      assert (length b7 = length buf) by lia. repeat split; lia.
  - destruct (set_rcode_hq b7 wcur lim qd pr (Server.w_rcode w mod 16)) as (b8 & -> & _); [lia|]. eexists. split; [reflexivity|].
    cbn [hq_state MsgWriter.w_cursor MsgWriter.w_tsig w_ar MsgWriter.w_avail MsgWriter.w_limit]. repeat split; lia.
Qed.

End SerT.
