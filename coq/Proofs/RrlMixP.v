(* C26 for mixed traffic: the decisions for one stream inside ANY history of requests. *)
From QV Require Import Base.Res Base.Octets Model.Rrl Spec.RrlBucketS Spec.RrlMixS Proofs.RrlP.
Local Open Scope N_scope.

Lemma apply_action_rrl_action c a : c_rrl_action (apply_action c a) = Some a.
Proof. destruct a; reflexivity. Qed.

Section WithHash.
  Variable hname : bytes -> N.
  Variable hkey : key -> N.

  (* how a request relates to stream k in a table of the given length *)
  Definition req_kind (p : params) (t : table) (k : key) (c : ctx) : rkind :=
    if subject_to_rrl c then
      match key_of hname p c with
      | Some k' => if key_eqb k' k then Mine
                   else if bucket_index hkey t k' =? bucket_index hkey t k then Evicts else Other
      | None => Other
      end
    else Other.

  Lemma bucket_index_len t t' k : t_len t' = t_len t -> bucket_index hkey t' k = bucket_index hkey t k.
  Proof. intros H. unfold bucket_index. rewrite H. reflexivity. Qed.

  Lemma req_kind_len p t t' k c : t_len t' = t_len t -> req_kind p t' k c = req_kind p t k c.
  Proof.
    intros H. unfold req_kind. destruct (subject_to_rrl c); [|reflexivity].
    destruct (key_of hname p c) as [k'|]; [|reflexivity].
    rewrite !(bucket_index_len t t' _ H). reflexivity.
  Qed.

  Definition verdict_matches (c' : ctx) (ov : option verdict) : Prop :=
    match ov with Some v => c_rrl_action c' = Some (action_of_verdict v) | None => True end.

  Lemma run_requests_mixed p k h : wf_params p ->
    Forall (fun r => subject_to_rrl (fst (fst r)) = true -> key_of hname p (fst (fst r)) <> None) h ->
    forall t, wf_table p t ->
    exists t' cs,
      run_requests hname hkey p t h = Ok (t', cs) /\ wf_table p t' /\
      Forall2 verdict_matches cs
        (bucket_run_mixed (rate_of p (k_category k)) (p_window p) (p_slip p) (abs_bucket hkey p t k)
           (map (fun r => (req_kind p t k (fst (fst r)), snd (fst r), snd r)) h)).
  Proof.
    intros W. induction h as [|[[c now] rnd] h IH]; intros HF t WT.
    - exists t, []. split; [reflexivity|]. split; [exact WT|constructor].
    - inversion HF as [|x l Hx HF']; subst. cbn [fst snd] in Hx.
      cbn [map fst snd run_requests].
      destruct (subject_to_rrl c) eqn:Hs.
      + destruct (key_of hname p c) as [k'|] eqn:Hk; [|exfalso; apply (Hx eq_refl); reflexivity].
        destruct (process_response_step hname hkey p t c k' now rnd W WT Hs Hk) as (t1 & P1 & WT1 & L1 & B1 & O1).
        destruct (IH HF' t1 WT1) as (t2 & cs & P2 & WT2 & F2).
        rewrite P1. cbn [bind]. rewrite P2. cbn [bind].
        eexists; eexists. split; [reflexivity|]. split; [exact WT2|].
        rewrite (map_ext _ (fun r => (req_kind p t k (fst (fst r)), snd (fst r), snd r))) in F2
          by (intros r; rewrite (req_kind_len p t t1 k _ L1); reflexivity).
        unfold req_kind at 1. rewrite Hs, Hk.
        destruct (key_eqb k' k) eqn:EK.
        * apply key_eqb_eq in EK. subst k'. cbn [bucket_run_mixed].
          destruct (bucket_step (rate_of p (k_category k)) (p_window p) (abs_bucket hkey p t k) now) as [b' sent] eqn:EB.
          cbn [fst snd] in *. rewrite B1 in F2. constructor; [|exact F2].
          cbn [verdict_matches]. unfold step_verdict. rewrite apply_action_rrl_action. destruct sent; reflexivity.
        * destruct (bucket_index hkey t k' =? bucket_index hkey t k) eqn:EI.
          -- (* same slot, other key: the stream's bucket is gone *)
             apply N.eqb_eq in EI. cbn [bucket_run_mixed].
             assert (A1 : abs_bucket hkey p t1 k = None).
             { unfold abs_bucket in B1 |- *. rewrite (bucket_index_len t t1 k L1).
               rewrite (bucket_index_len t t1 k' L1), EI in B1.
               destruct (key_eqb (e_key (t_get t1 (bucket_index hkey t k))) k') eqn:E1; [|discriminate].
               apply key_eqb_eq in E1. rewrite E1, EK. reflexivity. }
             rewrite A1 in F2. constructor; [exact I|exact F2].
          -- (* another slot: the stream's bucket is untouched *)
             apply N.eqb_neq in EI. cbn [bucket_run_mixed].
             assert (A1 : abs_bucket hkey p t1 k = abs_bucket hkey p t k).
             { unfold abs_bucket. rewrite (bucket_index_len t t1 k L1).
               rewrite (O1 (bucket_index hkey t k)) by (intros E; apply EI; symmetry; exact E). reflexivity. }
             rewrite A1 in F2. constructor; [exact I|exact F2].
      + (* exempt: nothing changes *)
        assert (P1 : process_response hname hkey p t c now rnd = Ok (t, c))
          by (unfold process_response, process_response_gen; rewrite Hs; reflexivity).
        destruct (IH HF' t WT) as (t2 & cs & P2 & WT2 & F2).
        rewrite P1. cbn [bind]. rewrite P2. cbn [bind].
        eexists; eexists. split; [reflexivity|]. split; [exact WT2|].
        unfold req_kind at 1. rewrite Hs. cbn [bucket_run_mixed]. constructor; [exact I|exact F2].
  Qed.
End WithHash.
