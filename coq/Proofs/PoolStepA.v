(* Preservation of [Inv]: submit, submit_or_spawn, start_oneshot. *)
From Coq Require Import Lia Permutation.
From QV Require Import Model.Pool Proofs.PoolLemmas Proofs.PoolInv.

Lemma inv_submit_section s i pi r blocked ob o c s' :
  Inv s -> nth_error (thr s) i = Some pi ->
  (exists ops, pi = SIdle ops) \/ pi = SWoken r ->
  blocked = SWait r \/ blocked = SSpawn r ->
  submit_section s i r blocked ob o c = Some s' -> Inv s'.
Proof.
  intros I E Hpi Hb H. unfold submit_section in H.
  destruct I as [Hcr Hlv Hcl Hce Hq HT HS Hgl Hpw Hgw Hrg Hgr Har].
  pose proof (cnt_counted_split (thr s)) as Hsplit.
  destruct (psd s) eqn:Epsd.
  - destruct o; try discriminate. inversion H; subst s'; clear H.
    destruct Hpi as [[ops ->]| ->]; inv_case HT HS.
  - destruct (length (queue s) <? avail s) eqn:Elt.
    + destruct o; try discriminate.
      destruct (notify_one on_task c (thr s)) as [l'|] eqn:En; [|discriminate].
      inversion H; subst s'; clear H.
      apply Nat.ltb_lt in Elt.
      assert (E' : nth_error l' i = Some pi).
      { eapply notify_one_nth; [exact En | exact E |]. destruct Hpi as [[ops ->]| ->]; reflexivity. }
      destruct (notify_one_cases _ _ _ _ En) as [[-> Hz] | (pw & Hg & Hw)].
      * destruct Hpi as [[ops ->]| ->]; inv_case HT HS.
      * destruct pw; try discriminate.
        destruct Hpi as [[ops ->]| ->]; constructor; simpl; spec_t HT HS; intros; elim_upd; elim_woken l' Hw; fin.
    + destruct Hb as [-> | ->]; destruct o, ob; try discriminate; inversion H; subst s'; clear H;
      destruct Hpi as [[ops ->]| ->]; inv_case HT HS.
Qed.

Lemma inv_spawn s i o s' : Inv s -> step true s (LSpawn i o) = Some s' -> Inv s'.
Proof.
  intros I H. simpl in H.
  destruct (glock s) eqn:Egl; [discriminate|].
  destruct (nth_error (thr s) i) as [[]|] eqn:E; try discriminate.
  open_inv I.
  destruct (gsd s) eqn:Egsd.
  - destruct o; try discriminate. inversion H; subst s'; clear H. inv_case HT HS.
  - destruct o; try discriminate; inversion H; subst s'; clear H.
    + pose proof (nth_snoc_lt _ _ _ (WRun Aux (next s)) E) as E2. inv_case HT HS.
    + inv_case HT HS.
Qed.
