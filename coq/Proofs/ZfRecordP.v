(* RDATA built by the zone-file parser passes the model of Rdata::validate; records,
   directives, lines and the iterator are total and preserve the context invariant. *)
From QV Require Import Base.ListX Model.NameWire Spec.NameWireS Spec.NameRepr Proofs.NameWireP
  Model.ZfReader Model.ZfParser Proofs.ZfStdP Proofs.ZfReaderP Proofs.ZfNameP Proofs.ZfParserP.

Local Open Scope nat_scope.

(* ---- validators accept what the constructors build ----------------------------------------- *)

Lemma skipn_exact {A} (a b : list A) : skipn (length a) (a ++ b) = b.
Proof. induction a; simpl; auto. Qed.

Lemma vname_wire ls rest : good_labels ls -> vname (wire_of ls ++ rest) false = Ok (Some (wire_len ls)).
Proof. intros H. unfold vname. rewrite validate_wire by exact H. reflexivity. Qed.

Lemma vname_all_wire ls : good_labels ls -> vname_all (wire_of ls) = Ok true.
Proof. intros H. unfold vname_all, vname. rewrite validate_wire_all by exact H. reflexivity. Qed.

Lemma ok_name nm : good_name nm -> vname_all (n_wire nm) = Ok true.
Proof. intros (ls & H & ->). apply vname_all_wire. exact H. Qed.

Lemma ok_ch_a nm a : good_name nm -> validate_as_ch_a (n_wire nm ++ be16 a) = Ok true.
Proof.
  intros (ls & H & ->). unfold validate_as_ch_a, name_of. cbn [n_wire].
  rewrite vname_wire by exact H. cbn [bind]. rewrite app_length. fold (wire_len ls). simpl length.
  rewrite Nat.eqb_refl. reflexivity.
Qed.

Lemma ok_soa m r t : good_name m -> good_name r -> length t = 20 ->
  validate_as_soa (n_wire m ++ n_wire r ++ t) = Ok true.
Proof.
  intros (lm & Hm & ->) (lr & Hr & ->) Ht. unfold validate_as_soa, name_of. cbn [n_wire].
  rewrite vname_wire by exact Hm. cbn [bind].
  assert (L : length (wire_of lm ++ wire_of lr ++ t) = wire_len lm + wire_len lr + 20).
  { rewrite !app_length. fold (wire_len lm) (wire_len lr). lia. }
  rewrite L. destruct (wire_len lm + wire_len lr + 20 <? wire_len lm) eqn:E; [apply Nat.ltb_lt in E; lia|].
  unfold wire_len at 1. rewrite skipn_exact. rewrite vname_wire by exact Hr. cbn [bind].
  replace (20 + wire_len lm + wire_len lr) with (wire_len lm + wire_len lr + 20) by lia.
  rewrite Nat.eqb_refl. reflexivity.
Qed.

Lemma vcs_ok s rest : short s ->
  validate_character_string ((N.of_nat (length s) mod 256)%N :: s ++ rest) = Some (1 + length s).
Proof.
  intros Hs. unfold short in Hs. unfold validate_character_string.
  rewrite N.mod_small by lia. rewrite Nat2N.id. cbn [length]. rewrite app_length.
  destruct (1 + length s <=? S (length s + length rest)) eqn:E; [reflexivity|apply Nat.leb_gt in E; lia].
Qed.

Lemma ok_hinfo cpu os : short cpu -> short os ->
  validate_as_hinfo ([(N.of_nat (length cpu) mod 256)%N] ++ cpu ++ [(N.of_nat (length os) mod 256)%N] ++ os) = Ok true.
Proof.
  intros Hc Ho. unfold validate_as_hinfo. cbn [app].
  rewrite (vcs_ok cpu _ Hc).
  assert (L : length ((N.of_nat (length cpu) mod 256)%N :: cpu ++ (N.of_nat (length os) mod 256)%N :: os)
              = 1 + length cpu + (1 + length os)).
  { cbn [length]. rewrite app_length. cbn [length]. lia. }
  rewrite L. destruct (1 + length cpu + (1 + length os) <? 1 + length cpu) eqn:E; [apply Nat.ltb_lt in E; lia|].
  change (skipn (1 + length cpu) ((N.of_nat (length cpu) mod 256)%N :: cpu ++ (N.of_nat (length os) mod 256)%N :: os))
    with (skipn (length cpu) (cpu ++ (N.of_nat (length os) mod 256)%N :: os)).
  rewrite skipn_exact. pose proof (vcs_ok os [] Ho) as H. rewrite app_nil_r in H. rewrite H.
  rewrite Nat.eqb_refl. reflexivity.
Qed.

Lemma ok_minfo r e : good_name r -> good_name e -> validate_as_minfo (n_wire r ++ n_wire e) = Ok true.
Proof.
  intros (lr & Hr & ->) (le & He & ->). unfold validate_as_minfo, name_of. cbn [n_wire].
  rewrite vname_wire by exact Hr. cbn [bind]. rewrite app_length. fold (wire_len lr).
  destruct (wire_len lr + length (wire_of le) <? wire_len lr) eqn:E; [apply Nat.ltb_lt in E; lia|].
  unfold wire_len. rewrite skipn_exact. apply vname_all_wire. exact He.
Qed.

Lemma ok_mx p nm : good_name nm -> validate_as_mx (be16 p ++ n_wire nm) = Ok true.
Proof. intros H. unfold validate_as_mx. simpl. apply ok_name. exact H. Qed.

Lemma ok_srv a b c nm : good_name nm -> validate_as_in_srv (be16 a ++ be16 b ++ be16 c ++ n_wire nm) = Ok true.
Proof. intros H. unfold validate_as_in_srv. simpl. apply ok_name. exact H. Qed.

Definition wf_chunk (c : bytes) : Prop := exists s, short s /\ c = (N.of_nat (length s) mod 256)%N :: s.

Lemma vtxt_chunks : forall chunks fuel, Forall wf_chunk chunks -> length chunks < fuel ->
  vtxt_loop fuel (concat chunks) = Ok true.
Proof.
  induction chunks as [|c rest IH]; intros fuel Hw Hf; (destruct fuel as [|fuel]; [simpl in Hf; lia|]).
  - reflexivity.
  - inversion Hw as [|? ? (s & Hs & ->) Hr]; subst. cbn [concat vtxt_loop app].
    rewrite (vcs_ok s (concat rest) Hs).
    change (skipn (1 + length s) ((N.of_nat (length s) mod 256)%N :: s ++ concat rest))
      with (skipn (length s) (s ++ concat rest)).
    rewrite skipn_exact. apply IH; [exact Hr|simpl in Hf; lia].
Qed.

Lemma concat_length_ge chunks : Forall wf_chunk chunks -> length chunks <= length (concat chunks).
Proof.
  induction 1 as [|c r (s & _ & ->) _ IH]; [simpl; lia|]. cbn [concat length app]. rewrite app_length. lia.
Qed.

Lemma ok_txt chunks : Forall wf_chunk chunks -> chunks <> [] -> validate_as_txt (concat chunks) = Ok true.
Proof.
  intros Hw Hne. unfold validate_as_txt.
  destruct (concat chunks) as [|c t] eqn:E.
  - destruct chunks as [|c0 r]; [congruence|]. inversion Hw as [|? ? (s & _ & ->) _]; subst. discriminate.
  - rewrite <- E. apply vtxt_chunks; [exact Hw|]. pose proof (concat_length_ge chunks Hw). rewrite E in *. simpl in *. lia.
Qed.

(* ---- WKS bitmap -------------------------------------------------------------------------------- *)

Lemma list_set_some {A} (l : list A) i x : i < length l -> exists l', list_set l i x = Some l' /\ length l' = length l.
Proof.
  revert i. induction l as [|y t IH]; intros i Hi; [simpl in Hi; lia|].
  destruct i as [|i]; simpl; [eauto|].
  destruct (IH i) as (t' & Ht & Hl); [simpl in Hi; lia|]. rewrite Ht. eexists. split; [reflexivity|]. simpl. lia.
Qed.

Lemma wks_set_ok : forall ports buf, (forall p, In p ports -> N.to_nat (p / 8) < length buf) ->
  exists buf', wks_set buf ports = Some buf' /\ length buf' = length buf.
Proof.
  induction ports as [|p t IH]; intros buf H; [simpl; eauto|]. cbn [wks_set].
  assert (Hp : N.to_nat (p / 8) < length buf) by (apply H; left; reflexivity).
  destruct (nth_error buf (N.to_nat (p / 8))) as [old|] eqn:E; [|apply nth_error_None in E; lia].
  destruct (list_set_some buf (N.to_nat (p / 8)) (N.lor old (2 ^ (p mod 8))) Hp) as (b' & Hb & Hl).
  rewrite Hb. destruct (IH b') as (b'' & Hb'' & Hl'').
  - intros q Hq. rewrite Hl. apply H. right. exact Hq.
  - exists b''. split; [exact Hb''|lia].
Qed.

Lemma list_max_ge : forall l h p, list_max l = Some h -> In p l -> (p <= h)%N.
Proof.
  induction l as [|x t IH]; intros h p Hm Hin; [contradiction|]. cbn [list_max] in Hm.
  destruct (list_max t) as [m|] eqn:E.
  - inversion Hm; subst. destruct Hin as [->|Hin]; [lia|]. specialize (IH m p eq_refl Hin). lia.
  - inversion Hm; subst. destruct Hin as [->|Hin]; [lia|]. destruct t; [contradiction|]. simpl in E. destruct (list_max t); discriminate.
Qed.

Lemma list_max_in : forall l h, list_max l = Some h -> In h l.
Proof.
  induction l as [|x t IH]; intros h Hm; [discriminate|]. cbn [list_max] in Hm.
  destruct (list_max t) as [m|] eqn:E.
  - inversion Hm; subst. destruct (N.max_spec x m) as [[_ ->]|[_ ->]]; [right; apply IH; reflexivity|left; reflexivity].
  - inversion Hm; subst. left; reflexivity.
Qed.

Lemma div8_mono p h : (p <= h)%N -> N.to_nat (p / 8) <= N.to_nat (h / 8).
Proof. intros H. apply N.div_le_mono with (c := 8%N) in H; lia. Qed.

Lemma div8_bound h : (h <= 65535)%N -> (h / 8 <= 8191)%N.
Proof. intros H. apply N.div_le_mono with (c := 8%N) in H; [|lia]. change (65535 / 8)%N with 8191%N in H. exact H. Qed.

Lemma safe_new_in_wks addr proto ports : length addr = 4 -> Forall (fun p => (p <= 65535)%N) ports ->
  safe false (new_in_wks addr proto ports) (fun d => validate_as_in_wks d = Ok true).
Proof.
  intros Ha Hp. unfold new_in_wks.
  set (len := match list_max ports with Some h => N.to_nat (h / 8) + 1 | None => 0 end).
  assert (Hlen : (N.of_nat len <= 8192)%N).
  { unfold len. destruct (list_max ports) as [h|] eqn:E; [|lia].
    apply list_max_in in E. rewrite Forall_forall in Hp. pose proof (div8_bound h (Hp h E)). lia. }
  destruct (wks_set_ok ports (repeat 0%N len)) as (bm & Hb & Hl).
  - intros p Hin. rewrite repeat_length. unfold len. destruct (list_max ports) as [h|] eqn:E.
    + pose proof (div8_mono p h (list_max_ge _ _ _ E Hin)). lia.
    + destruct ports; [contradiction|]. simpl in E. destruct (list_max ports); discriminate.
  - rewrite Hb. rewrite repeat_length in Hl.
    eapply safe_weaken; [apply safe_mk_rdata|].
    + rewrite !app_length. simpl length. lia.
    + intros d ->. unfold validate_as_in_wks. rewrite !app_length. simpl length. rewrite Ha. reflexivity.
Qed.

(* ---- per-type RDATA parsers ------------------------------------------------------------------------ *)

Definition ctx_ok (c : ctx) : Prop := origin_ok (c_origin c) /\ origin_ok (c_prev_owner c).

Ltac snext L := eapply safe_bind; [apply L|]; intros ? ?.
Ltac sskip := eapply safe_bind; [first [apply safe_skip_to_next_field | apply safe_expect_eol]|]; intros _ _.

Lemma safe_cbh k : safe false (check_backslash_hash k) (fun _ => True).
Proof. unfold check_backslash_hash. sskip. apply safe_expect_field_impl. Qed.

Lemma name_rdata_len nm : good_name nm -> (N.of_nat (length (n_wire nm)) <= 65535)%N.
Proof. intros H. apply good_name_len in H. lia. Qed.

Lemma safe_parse_name_rdata c : ctx_ok c -> safe false (parse_name_rdata c) (fun d => vname_all d = Ok true).
Proof.
  intros [Ho _]. unfold parse_name_rdata. snext safe_cbh. destruct a.
  - apply safe_with_validation. apply vname_all_total.
  - eapply safe_bind; [apply safe_parse_name; exact Ho|]. intros n Hn. sskip.
    eapply safe_weaken; [apply safe_mk_rdata; apply name_rdata_len; exact Hn|]. intros d ->. apply ok_name. exact Hn.
Qed.

Lemma safe_parse_in_a : safe false parse_in_a_rdata (fun d => validate_as_in_a d = Ok true).
Proof.
  unfold parse_in_a_rdata. snext safe_cbh. destruct a.
  - apply safe_with_validation. apply vt_in_a.
  - eapply safe_bind; [apply safe_parse_ipv4|]. intros a Ha. sskip.
    eapply safe_weaken; [apply safe_mk_rdata; rewrite Ha; lia|]. intros d ->. unfold validate_as_in_a. rewrite Ha. reflexivity.
Qed.

Lemma safe_parse_in_aaaa : safe false parse_in_aaaa_rdata (fun d => validate_as_in_aaaa d = Ok true).
Proof.
  unfold parse_in_aaaa_rdata. snext safe_cbh. destruct a.
  - apply safe_with_validation. apply vt_in_aaaa.
  - eapply safe_bind; [apply safe_parse_ipv6|]. intros a Ha. sskip.
    eapply safe_weaken; [apply safe_mk_rdata; rewrite Ha; lia|]. intros d ->. unfold validate_as_in_aaaa. rewrite Ha. reflexivity.
Qed.

Lemma chaos_loop_safe : forall fuel start a, (a <= 65535)%N -> safeN fuel (chaos_loop fuel start a) (fun _ => True).
Proof.
  induction fuel as [|fuel IH]; intros start a Ha r Hr Hn; [lia|].
  cbn [chaos_loop]. apply (read_field_octet_step _ _ fuel r Hr Hn).
  - intros r' Hr' _ _. simpl. auto.
  - intros octet r' Hr' Hf Hlt _. destruct (inr_ 48 55 octet) eqn:E8; [|exact I].
    destruct (65535 <? a * 8)%N eqn:E1; [exact I|]. apply N.ltb_ge in E1.
    unfold inr_ in E8. apply andb_true_iff in E8. destruct E8 as [L1 L2]. apply N.leb_le in L1. apply N.leb_le in L2.
    destruct (65535 <? a * 8 + (octet - 48))%N eqn:E2.
    + (* a*8 is a multiple of 8 below 65536, so adding at most 7 stays below 65536 *)
      apply N.ltb_lt in E2. exfalso.
      assert (a <= 8191)%N by (apply N.div_le_mono with (c := 8%N) in E1; [|lia]; rewrite N.div_mul in E1 by lia; change (65535 / 8)%N with 8191%N in E1; exact E1).
      lia.
    + apply N.ltb_ge in E2. apply IH; [exact E2|exact Hr'|exact Hlt].
Qed.

Lemma be16_len v : length (be16 v) = 2. Proof. reflexivity. Qed.
Lemma be32_len v : length (be32 v) = 4. Proof. reflexivity. Qed.

Lemma safe_parse_ch_a c : ctx_ok c -> safe false (parse_ch_a_rdata c) (fun d => validate_as_ch_a d = Ok true).
Proof.
  intros [Ho _]. unfold parse_ch_a_rdata. snext safe_cbh. destruct a.
  - apply safe_with_validation. apply vt_ch_a.
  - eapply safe_bind; [apply safe_parse_name; exact Ho|]. intros lan Hl. sskip.
    eapply safe_bind with (Q1 := fun _ => True).
    { unfold parse_chaosnet_address. snext safe_getpos. apply safe_with_fuel. intros n. apply chaos_loop_safe. lia. }
    intros addr _. sskip. pose proof (good_name_len lan Hl).
    eapply safe_weaken; [apply safe_mk_rdata; rewrite app_length, be16_len; lia|]. intros d ->. apply ok_ch_a. exact Hl.
Qed.

Lemma safe_parse_soa c : ctx_ok c -> safe false (parse_soa_rdata c) (fun d => validate_as_soa d = Ok true).
Proof.
  intros [Ho _]. unfold parse_soa_rdata. snext safe_cbh. destruct a.
  - apply safe_with_validation. apply vt_soa.
  - eapply safe_bind; [apply safe_parse_name; exact Ho|]. intros m Hm. sskip.
    eapply safe_bind; [apply safe_parse_name; exact Ho|]. intros rn Hrn. sskip.
    snext safe_parse_uint. sskip. snext safe_parse_uint. sskip. snext safe_parse_uint. sskip.
    snext safe_parse_uint. sskip. snext safe_parse_uint. sskip.
    pose proof (good_name_len m Hm). pose proof (good_name_len rn Hrn).
    eapply safe_weaken; [apply safe_mk_rdata; rewrite !app_length, !be32_len; lia|]. intros d ->.
    apply ok_soa; [exact Hm|exact Hrn|]. rewrite !app_length, !be32_len. reflexivity.
Qed.

Lemma In_rev_fast {A} (l : list A) x : In x (rev_fast l) <-> In x l.
Proof. unfold rev_fast. rewrite rev_append_rev, app_nil_r. symmetry. apply in_rev. Qed.

Lemma wks_loop_safe : forall fuel start count ports, Forall (fun p => (p <= 65535)%N) ports ->
  safeN fuel (wks_loop fuel start count ports) (Forall (fun p => (p <= 65535)%N)).
Proof.
  induction fuel as [|fuel IH]; intros start count ports Hp r Hr Hn; [lia|].
  cbn [wks_loop].
  apply (okres_bind false false _ _ (fun _ => True) _ r Hr (safe_through r Hr)).
  intros f r1 _ Hr1 _ Hle1. destruct f; [|simpl; auto].
  destruct (65535 <=? count)%N; [exact I|].
  (* parse_u16 consumes at least one octet: the empty string is not a number *)
  assert (S1 : safe true (parse_u16 InvalidInt) (fun v => (v <= 65535)%N)).
  { eapply safe_weakenQ; [apply safe_read_field_strict; intros v; rewrite parse_uint_nil; discriminate|].
    intros v [s Hs]. apply parse_uint_le in Hs. exact Hs. }
  pose proof (S1 r1 Hr1) as H1. unfold bindM.
  destruct (parse_u16 InvalidInt r1) as [[port r2]|[p k|]|]; simpl in H1; auto.
  destruct H1 as (F2 & L2 & Hport).
  assert (W2 : wfr r2) by (unfold wfr in *; lia).
  assert (G : okres false (Forall (fun p => (p <= 65535)%N)) r2 (wks_loop fuel start (count + 1) (port :: ports) r2)).
  { apply IH; [constructor; assumption|exact W2|lia]. }
  destruct (wks_loop fuel start (count + 1) (port :: ports) r2) as [[res r3]|[p k|]|]; simpl in *; auto.
  destruct G as (G1 & G2 & G3). split; [congruence|]. split; [lia|exact G3].
Qed.

Lemma safeN_bind {A B} n (m : M A) (f : A -> M B) (Q1 : A -> Prop) (Q2 : B -> Prop) :
  safeN n m Q1 -> (forall a, Q1 a -> safe false (f a) Q2) -> safeN n (bindM m f) Q2.
Proof.
  intros Hm Hf r Hr Hn. apply (okres_bind false false m f Q1 Q2 r Hr (Hm r Hr Hn)).
  intros a r' Ha Hr' _ _. apply Hf; assumption.
Qed.

Lemma safe_parse_in_wks : safe false parse_in_wks_rdata (fun d => validate_as_in_wks d = Ok true).
Proof.
  unfold parse_in_wks_rdata. snext safe_cbh. destruct a.
  - apply safe_with_validation. apply vt_in_wks.
  - snext safe_getpos. eapply safe_bind; [apply safe_parse_ipv4|]. intros addr Ha. sskip.
    snext safe_expect_field_impl.
    eapply safe_bind with (Q1 := fun _ => True).
    { destruct a0; [apply safe_ret; exact I|]. snext safe_expect_field_impl.
      destruct a0; [apply safe_ret; exact I|]. eapply safe_weaken; [apply safe_parse_uint|auto]. }
    intros proto _.
    apply safe_with_fuel. intros n.
    eapply safeN_bind; [apply wks_loop_safe; constructor|].
    intros ports Hp. apply safe_new_in_wks; [exact Ha|].
    rewrite Forall_forall in *. intros x Hx. apply Hp. apply In_rev_fast. exact Hx.
Qed.

Lemma safe_parse_hinfo : safe false parse_hinfo_rdata (fun d => validate_as_hinfo d = Ok true).
Proof.
  unfold parse_hinfo_rdata. snext safe_cbh. destruct a.
  - apply safe_with_validation. apply vt_hinfo.
  - eapply safe_bind; [apply safe_parse_character_string|]. intros cpu Hc. sskip.
    eapply safe_bind; [apply safe_parse_character_string|]. intros os Ho. sskip.
    unfold short in *.
    eapply safe_weaken; [apply safe_mk_rdata; rewrite !app_length; simpl length; lia|]. intros d ->. apply ok_hinfo; assumption.
Qed.

Lemma safe_parse_minfo c : ctx_ok c -> safe false (parse_minfo_rdata c) (fun d => validate_as_minfo d = Ok true).
Proof.
  intros [Ho _]. unfold parse_minfo_rdata. snext safe_cbh. destruct a.
  - apply safe_with_validation. apply vt_minfo.
  - eapply safe_bind; [apply safe_parse_name; exact Ho|]. intros m Hm. sskip.
    eapply safe_bind; [apply safe_parse_name; exact Ho|]. intros e He. sskip.
    pose proof (good_name_len m Hm). pose proof (good_name_len e He).
    eapply safe_weaken; [apply safe_mk_rdata; rewrite !app_length; lia|]. intros d ->. apply ok_minfo; assumption.
Qed.

Lemma safe_parse_mx c : ctx_ok c -> safe false (parse_mx_rdata c) (fun d => validate_as_mx d = Ok true).
Proof.
  intros [Ho _]. unfold parse_mx_rdata. snext safe_cbh. destruct a.
  - apply safe_with_validation. apply vt_mx.
  - snext safe_parse_uint. sskip.
    eapply safe_bind; [apply safe_parse_name; exact Ho|]. intros e He. sskip.
    pose proof (good_name_len e He).
    eapply safe_weaken; [apply safe_mk_rdata; rewrite !app_length, be16_len; lia|]. intros d ->. apply ok_mx; assumption.
Qed.

Lemma safe_parse_in_srv c : ctx_ok c -> safe false (parse_in_srv_rdata c) (fun d => validate_as_in_srv d = Ok true).
Proof.
  intros [Ho _]. unfold parse_in_srv_rdata. snext safe_cbh. destruct a.
  - apply safe_with_validation. apply vt_in_srv.
  - snext safe_parse_uint. sskip. snext safe_parse_uint. sskip. snext safe_parse_uint. sskip.
    eapply safe_bind; [apply safe_parse_name; exact Ho|]. intros e He. sskip.
    pose proof (good_name_len e He).
    eapply safe_weaken; [apply safe_mk_rdata; rewrite !app_length, !be16_len; lia|]. intros d ->. apply ok_srv; assumption.
Qed.

(* TXT: the chunks pushed so far are well formed and [written] is their total length *)
Definition txt_ok (written : N) (chunks : list bytes) : Prop :=
  Forall wf_chunk chunks /\ written = N.of_nat (length (concat chunks)) /\ (written <= 65535)%N.

Definition txt_res (cs : list bytes) : Prop :=
  cs <> [] /\ Forall wf_chunk cs /\ (N.of_nat (length (concat cs)) <= 65535)%N.

Lemma txt_loop_ok : forall fuel start written chunks r, txt_ok written chunks ->
  wfr r -> length (r_rest r) < fuel -> at_field_end_at (r_rest r) 0 = Ok false ->
  okres false txt_res r (txt_loop fuel start written chunks r).
Proof.
  induction fuel as [|fuel IH]; intros start written chunks r (Hw & Hwr & Hle) Hr Hn Hf; [lia|].
  cbn [txt_loop].
  pose proof (pcs_strict r Hr Hf) as H1. unfold bindM at 1.
  destruct (parse_character_string r) as [[cs r1]|[p k|]|]; simpl in H1; auto.
  destruct H1 as (F1 & L1 & Hcs). assert (W1 : wfr r1) by (unfold wfr in *; lia).
  destruct (65535 <? written + N.of_nat (length cs) + 1)%N eqn:E; [exact I|]. apply N.ltb_ge in E.
  set (chunks' := ((N.of_nat (length cs) mod 256)%N :: cs) :: chunks).
  assert (Hok' : txt_ok (written + N.of_nat (length cs) + 1) chunks').
  { split; [constructor; [exists cs; split; [exact Hcs|reflexivity]|exact Hw]|]. split; [|exact E].
    unfold chunks'. cbn [concat length app]. rewrite app_length. lia. }
  pose proof (foe_spec (r_fuel r1) true r1) as H2.
  assert (Lr1 : length (r_rest r1) < r_fuel r1) by (unfold wfr in W1; lia). specialize (H2 Lr1).
  unfold bindM, skip_to_next_field_or_through_eol, foe_fuel.
  destruct (foe_loop (r_fuel r1) true r1) as [[f r2]|[p k|]|]; auto.
  destruct H2 as (F2 & L2 & H2). destruct f.
  - assert (W2 : wfr r2) by (unfold wfr in *; lia).
    assert (G : okres false txt_res r2 (txt_loop fuel start (written + N.of_nat (length cs) + 1) chunks' r2)).
    { apply IH; [exact Hok'|exact W2|lia|exact H2]. }
    destruct (txt_loop fuel start (written + N.of_nat (length cs) + 1) chunks' r2) as [[res r3]|[p k|]|]; simpl in *; auto.
    destruct G as (G1 & G2 & G3). split; [congruence|]. split; [lia|exact G3].
  - simpl. split; [congruence|]. split; [lia|]. destruct Hok' as (A & B & C).
    split; [unfold chunks'; discriminate|]. split; [exact A|]. rewrite <- B. exact C.
Qed.

Lemma cbh_spec k r : wfr r ->
  match check_backslash_hash k r with
  | Ok (b, r') => r_fuel r' = r_fuel r /\ length (r_rest r') <= length (r_rest r) /\
                  (b = false -> at_field_end_at (r_rest r') 0 = Ok false)
  | Err (ZErr _ _) => True
  | Err ZOutOfFuel => False
  | Panic => False
  end.
Proof.
  intros Hr. unfold check_backslash_hash, bindM, skip_to_next_field, skip_to_next_field_or_to_eol.
  pose proof (safe_foe false r Hr) as H1. pose proof (foe_field false r Hr) as H2. cbn beta in H1.
  destruct (foe_loop (foe_fuel r) false r) as [[f r1]|[p kk|]|]; simpl in H1; auto.
  destruct H1 as (F1 & L1 & _). destruct f; [|exact I]. cbn [bind].
  destruct (expect_field_impl_spec [92%N; 35%N] bytes_eqb r1) as [H|[H Hl]]; unfold expect_field; rewrite H.
  - split; [exact F1|]. split; [exact L1|]. intros _. exact H2.
  - rewrite adv_fuel, adv_len. split; [exact F1|]. split; [lia|]. discriminate.
Qed.

Lemma concat_rev_length (l : list bytes) : length (concat (rev l)) = length (concat l).
Proof.
  induction l as [|a l IH]; [reflexivity|]. cbn [rev concat]. rewrite concat_app, !app_length. cbn [concat].
  rewrite app_nil_r. lia.
Qed.

Lemma rev_fast_rev {A} (l : list A) : rev_fast l = rev l.
Proof. unfold rev_fast. rewrite rev_append_rev. apply app_nil_r. Qed.

Lemma safe_parse_txt : safe false parse_txt_rdata (fun d => validate_as_txt d = Ok true).
Proof.
  intros r Hr. unfold parse_txt_rdata. pose proof (cbh_spec ExpectedCharacterStringOrBh r Hr) as H1.
  unfold bindM at 1.
  destruct (check_backslash_hash ExpectedCharacterStringOrBh r) as [[bh r1]|[p k|]|]; auto.
  destruct H1 as (F1 & L1 & H1). assert (W1 : wfr r1) by (unfold wfr in *; lia).
  assert (G : okres false (fun d => validate_as_txt d = Ok true) r1
                ((if bh then parse_unknown_rdata_with_validation validate_as_txt
                  else do start <- getpos; do fuel <- get_fuel; do chunks_rev <- txt_loop fuel start 0 [];
                       mk_rdata (concat (rev_fast chunks_rev))) r1)).
  { destruct bh.
    - apply safe_with_validation; [apply vt_txt|exact W1].
    - specialize (H1 eq_refl). unfold bindM at 1, getpos. unfold bindM at 1, get_fuel.
      apply (okres_bind false false _ _ txt_res _ r1 W1).
      + apply txt_loop_ok; [split; [constructor|split; [reflexivity|simpl; lia]]|exact W1|unfold wfr in W1; lia|exact H1].
      + intros cs r2 (Hne & Hw & Hlen) W2 _ _. rewrite rev_fast_rev.
        eapply safe_weaken; [apply safe_mk_rdata; rewrite concat_rev_length; exact Hlen| |exact W2].
        intros d ->. apply ok_txt.
        * apply Forall_rev. exact Hw.
        * intros Hnil. apply Hne. rewrite <- (rev_involutive cs), Hnil. reflexivity. }
  match goal with |- okres _ _ _ ?x => destruct x as [[d r2]|[p k|]|] end; simpl in *; auto.
  destruct G as (G1 & G2 & G3). split; [congruence|]. split; [lia|exact G3].
Qed.
