(* RDATA built by the zone-file parser passes the model of Rdata::validate; records,
   directives, lines and the iterator are total and preserve the context invariant. *)
From QV Require Import Base.ListX Model.NameWire Spec.NameWireS Spec.NameRepr Proofs.NameWireP
  Model.ZfReader Model.ZfParser Spec.ZfValidS Proofs.ZfStdP Proofs.ZfReaderP Proofs.ZfNameP Proofs.ZfParserP.

Local Open Scope nat_scope.

(* ---- validators accept what the constructors build ----------------------------------------- *)

Lemma skipn_exact {A} (a b : list A) : skipn (length a) (a ++ b) = b.
Proof. induction a; simpl; auto. Qed.

Lemma vname_wire ls rest : good_labels ls -> vname (wire_of ls ++ rest) false = Ok (Some (wire_len ls)).
Proof. intros H. unfold vname. rewrite validate_wire by exact H. reflexivity. Qed.

Lemma vname_all_wire ls : good_labels ls -> vname_all (wire_of ls) = Ok true.
Proof. intros H. unfold vname_all, vname. rewrite validate_wire_all by exact H. reflexivity. Qed.

Lemma ok_name nm : good_name nm -> vname_all (n_wire nm) = Ok true.
Proof. intros (ls & H & ->). apply vname_all_wire. exact H. Qed.

Lemma ok_ch_a nm a : good_name nm -> validate_as_ch_a (n_wire nm ++ be16 a) = Ok true.
Proof.
  intros (ls & H & ->). unfold validate_as_ch_a, name_of. cbn [n_wire].
  rewrite vname_wire by exact H. cbn [bind]. rewrite app_length. fold (wire_len ls). simpl length.
  rewrite Nat.eqb_refl. reflexivity.
Qed.

Lemma ok_soa m r t : good_name m -> good_name r -> length t = 20 ->
  validate_as_soa (n_wire m ++ n_wire r ++ t) = Ok true.
Proof.
  intros (lm & Hm & ->) (lr & Hr & ->) Ht. unfold validate_as_soa, name_of. cbn [n_wire].
  rewrite vname_wire by exact Hm. cbn [bind].
  assert (L : length (wire_of lm ++ wire_of lr ++ t) = wire_len lm + wire_len lr + 20).
  { rewrite !app_length. fold (wire_len lm) (wire_len lr). lia. }
  rewrite L. destruct (wire_len lm + wire_len lr + 20 <? wire_len lm) eqn:E; [apply Nat.ltb_lt in E; lia|].
  unfold wire_len at 1. rewrite skipn_exact. rewrite vname_wire by exact Hr. cbn [bind].
  replace (20 + wire_len lm + wire_len lr) with (wire_len lm + wire_len lr + 20) by lia.
  rewrite Nat.eqb_refl. reflexivity.
Qed.

Lemma vcs_ok s rest : short s ->
  validate_character_string ((N.of_nat (length s) mod 256)%N :: s ++ rest) = Some (1 + length s).
Proof.
  intros Hs. unfold short in Hs. unfold validate_character_string.
  rewrite N.mod_small by lia. rewrite Nat2N.id. cbn [length]. rewrite app_length.
  destruct (1 + length s <=? S (length s + length rest)) eqn:E; [reflexivity|apply Nat.leb_gt in E; lia].
Qed.

Lemma ok_hinfo cpu os : short cpu -> short os ->
  validate_as_hinfo ([(N.of_nat (length cpu) mod 256)%N] ++ cpu ++ [(N.of_nat (length os) mod 256)%N] ++ os) = Ok true.
Proof.
  intros Hc Ho. unfold validate_as_hinfo. cbn [app].
  rewrite (vcs_ok cpu _ Hc).
  assert (L : length ((N.of_nat (length cpu) mod 256)%N :: cpu ++ (N.of_nat (length os) mod 256)%N :: os)
              = 1 + length cpu + (1 + length os)).
  { cbn [length]. rewrite app_length. cbn [length]. lia. }
  rewrite L. destruct (1 + length cpu + (1 + length os) <? 1 + length cpu) eqn:E; [apply Nat.ltb_lt in E; lia|].
  change (skipn (1 + length cpu) ((N.of_nat (length cpu) mod 256)%N :: cpu ++ (N.of_nat (length os) mod 256)%N :: os))
    with (skipn (length cpu) (cpu ++ (N.of_nat (length os) mod 256)%N :: os)).
  rewrite skipn_exact. pose proof (vcs_ok os [] Ho) as H. rewrite app_nil_r in H. rewrite H.
  rewrite Nat.eqb_refl. reflexivity.
Qed.

Lemma ok_minfo r e : good_name r -> good_name e -> validate_as_minfo (n_wire r ++ n_wire e) = Ok true.
Proof.
  intros (lr & Hr & ->) (le & He & ->). unfold validate_as_minfo, name_of. cbn [n_wire].
  rewrite vname_wire by exact Hr. cbn [bind]. rewrite app_length. fold (wire_len lr).
  destruct (wire_len lr + length (wire_of le) <? wire_len lr) eqn:E; [apply Nat.ltb_lt in E; lia|].
  unfold wire_len. rewrite skipn_exact. apply vname_all_wire. exact He.
Qed.

Lemma ok_mx p nm : good_name nm -> validate_as_mx (be16 p ++ n_wire nm) = Ok true.
Proof. intros H. unfold validate_as_mx. simpl. apply ok_name. exact H. Qed.

Lemma ok_srv a b c nm : good_name nm -> validate_as_in_srv (be16 a ++ be16 b ++ be16 c ++ n_wire nm) = Ok true.
Proof. intros H. unfold validate_as_in_srv. simpl. apply ok_name. exact H. Qed.

Definition wf_chunk (c : bytes) : Prop := exists s, short s /\ c = (N.of_nat (length s) mod 256)%N :: s.

Lemma vtxt_chunks : forall chunks fuel, Forall wf_chunk chunks -> length chunks < fuel ->
  vtxt_loop fuel (concat chunks) = Ok true.
Proof.
  induction chunks as [|c rest IH]; intros fuel Hw Hf; (destruct fuel as [|fuel]; [simpl in Hf; lia|]).
  - reflexivity.
  - inversion Hw as [|? ? (s & Hs & ->) Hr]; subst. cbn [concat vtxt_loop app].
    rewrite (vcs_ok s (concat rest) Hs).
    change (skipn (1 + length s) ((N.of_nat (length s) mod 256)%N :: s ++ concat rest))
      with (skipn (length s) (s ++ concat rest)).
    rewrite skipn_exact. apply IH; [exact Hr|simpl in Hf; lia].
Qed.

Lemma concat_length_ge chunks : Forall wf_chunk chunks -> length chunks <= length (concat chunks).
Proof.
  induction 1 as [|c r (s & _ & ->) _ IH]; [simpl; lia|]. cbn [concat length app]. rewrite app_length. lia.
Qed.

Lemma ok_txt chunks : Forall wf_chunk chunks -> chunks <> [] -> validate_as_txt (concat chunks) = Ok true.
Proof.
  intros Hw Hne. unfold validate_as_txt.
  destruct (concat chunks) as [|c t] eqn:E.
  - destruct chunks as [|c0 r]; [congruence|]. inversion Hw as [|? ? (s & _ & ->) _]; subst. discriminate.
  - rewrite <- E. apply vtxt_chunks; [exact Hw|]. pose proof (concat_length_ge chunks Hw). rewrite E in *. simpl in *. lia.
Qed.

(* ---- WKS bitmap -------------------------------------------------------------------------------- *)

Lemma list_set_some {A} (l : list A) i x : i < length l -> exists l', list_set l i x = Some l' /\ length l' = length l.
Proof.
  revert i. induction l as [|y t IH]; intros i Hi; [simpl in Hi; lia|].
  destruct i as [|i]; simpl; [eauto|].
  destruct (IH i) as (t' & Ht & Hl); [simpl in Hi; lia|]. rewrite Ht. eexists. split; [reflexivity|]. simpl. lia.
Qed.

Lemma wks_set_ok : forall ports buf, (forall p, In p ports -> N.to_nat (p / 8) < length buf) ->
  exists buf', wks_set buf ports = Some buf' /\ length buf' = length buf.
Proof.
  induction ports as [|p t IH]; intros buf H; [simpl; eauto|]. cbn [wks_set].
  assert (Hp : N.to_nat (p / 8) < length buf) by (apply H; left; reflexivity).
  destruct (nth_error buf (N.to_nat (p / 8))) as [old|] eqn:E; [|apply nth_error_None in E; lia].
  destruct (list_set_some buf (N.to_nat (p / 8)) (N.lor old (2 ^ (p mod 8))) Hp) as (b' & Hb & Hl).
  rewrite Hb. destruct (IH b') as (b'' & Hb'' & Hl'').
  - intros q Hq. rewrite Hl. apply H. right. exact Hq.
  - exists b''. split; [exact Hb''|lia].
Qed.

Lemma list_max_ge : forall l h p, ZfParser.list_max l = Some h -> In p l -> (p <= h)%N.
Proof.
  induction l as [|x t IH]; intros h p Hm Hin; [contradiction|]. cbn [ZfParser.list_max] in Hm.
  destruct (ZfParser.list_max t) as [m|] eqn:E.
  - inversion Hm; subst. destruct Hin as [->|Hin]; [lia|]. specialize (IH m p eq_refl Hin). lia.
  - inversion Hm; subst. destruct Hin as [->|Hin]; [lia|]. destruct t; [contradiction|]. simpl in E. destruct (ZfParser.list_max t); discriminate.
Qed.

Lemma list_max_in : forall l h, ZfParser.list_max l = Some h -> In h l.
Proof.
  induction l as [|x t IH]; intros h Hm; [discriminate|]. cbn [ZfParser.list_max] in Hm.
  destruct (ZfParser.list_max t) as [m|] eqn:E.
  - inversion Hm; subst. destruct (N.max_spec x m) as [[_ ->]|[_ ->]]; [right; apply IH; reflexivity|left; reflexivity].
  - inversion Hm; subst. left; reflexivity.
Qed.

Lemma div8_mono p h : (p <= h)%N -> N.to_nat (p / 8) <= N.to_nat (h / 8).
Proof. intros H. apply N.div_le_mono with (c := 8%N) in H; lia. Qed.

Lemma div8_bound h : (h <= 65535)%N -> (h / 8 <= 8191)%N.
Proof. intros H. apply N.div_le_mono with (c := 8%N) in H; [|lia]. change (65535 / 8)%N with 8191%N in H. exact H. Qed.

Lemma safe_new_in_wks addr proto ports : length addr = 4 -> Forall (fun p => (p <= 65535)%N) ports ->
  safe false (new_in_wks addr proto ports) (fun d => validate_as_in_wks d = Ok true).
Proof.
  intros Ha Hp. unfold new_in_wks.
  set (len := match ZfParser.list_max ports with Some h => N.to_nat (h / 8) + 1 | None => 0 end).
  assert (Hlen : (N.of_nat len <= 8192)%N).
  { unfold len. destruct (ZfParser.list_max ports) as [h|] eqn:E; [|lia].
    apply list_max_in in E. rewrite Forall_forall in Hp. pose proof (div8_bound h (Hp h E)). lia. }
  destruct (wks_set_ok ports (repeat 0%N len)) as (bm & Hb & Hl).
  - intros p Hin. rewrite repeat_length. unfold len. destruct (ZfParser.list_max ports) as [h|] eqn:E.
    + pose proof (div8_mono p h (list_max_ge _ _ _ E Hin)). lia.
    + destruct ports; [contradiction|]. simpl in E. destruct (ZfParser.list_max ports); discriminate.
  - rewrite Hb. rewrite repeat_length in Hl.
    eapply safe_weaken; [apply safe_mk_rdata|].
    + rewrite !app_length. simpl length. lia.
    + intros d ->. unfold validate_as_in_wks. rewrite !app_length. simpl length. rewrite Ha. reflexivity.
Qed.

(* ---- per-type RDATA parsers ------------------------------------------------------------------------ *)

Definition ctx_ok (c : ctx) : Prop := origin_ok (c_origin c) /\ origin_ok (c_prev_owner c).

Ltac snext L := eapply safe_bind; [apply L|]; intros ? ?.
Ltac sskip := eapply safe_bind; [first [apply safe_skip_to_next_field | apply safe_expect_eol]|]; intros _ _.

Lemma safe_cbh k : safe false (check_backslash_hash k) (fun _ => True).
Proof. unfold check_backslash_hash. sskip. apply safe_expect_field_impl. Qed.

Lemma name_rdata_len nm : good_name nm -> (N.of_nat (length (n_wire nm)) <= 65535)%N.
Proof. intros H. apply good_name_len in H. lia. Qed.

Lemma safe_parse_name_rdata c : ctx_ok c -> safe false (parse_name_rdata c) (fun d => vname_all d = Ok true).
Proof.
  intros [Ho _]. unfold parse_name_rdata. snext safe_cbh. destruct a.
  - apply safe_with_validation. apply vname_all_total.
  - eapply safe_bind; [apply safe_parse_name; exact Ho|]. intros n Hn. sskip.
    eapply safe_weaken; [apply safe_mk_rdata; apply name_rdata_len; exact Hn|]. intros d ->. apply ok_name. exact Hn.
Qed.

Lemma safe_parse_in_a : safe false parse_in_a_rdata (fun d => validate_as_in_a d = Ok true).
Proof.
  unfold parse_in_a_rdata. snext safe_cbh. destruct a.
  - apply safe_with_validation. apply vt_in_a.
  - eapply safe_bind; [apply safe_parse_ipv4|]. intros a Ha. sskip.
    eapply safe_weaken; [apply safe_mk_rdata; rewrite Ha; lia|]. intros d ->. unfold validate_as_in_a. rewrite Ha. reflexivity.
Qed.

Lemma safe_parse_in_aaaa : safe false parse_in_aaaa_rdata (fun d => validate_as_in_aaaa d = Ok true).
Proof.
  unfold parse_in_aaaa_rdata. snext safe_cbh. destruct a.
  - apply safe_with_validation. apply vt_in_aaaa.
  - eapply safe_bind; [apply safe_parse_ipv6|]. intros a Ha. sskip.
    eapply safe_weaken; [apply safe_mk_rdata; rewrite Ha; lia|]. intros d ->. unfold validate_as_in_aaaa. rewrite Ha. reflexivity.
Qed.

Lemma chaos_loop_safe : forall fuel start a, (a <= 65535)%N -> safeN fuel (chaos_loop fuel start a) (fun _ => True).
Proof.
  induction fuel as [|fuel IH]; intros start a Ha r Hr Hn; [lia|].
  cbn [chaos_loop]. apply (read_field_octet_step _ _ fuel r Hr Hn).
  - intros r' Hr' _ _. simpl. auto.
  - intros octet r' Hr' Hf Hlt _. destruct (inr_ 48 55 octet) eqn:E8; [|exact I].
    destruct (65535 <? a * 8)%N eqn:E1; [exact I|]. apply N.ltb_ge in E1.
    unfold inr_ in E8. apply andb_true_iff in E8. destruct E8 as [L1 L2]. apply N.leb_le in L1. apply N.leb_le in L2.
    destruct (65535 <? a * 8 + (octet - 48))%N eqn:E2.
    + (* a*8 is a multiple of 8 below 65536, so adding at most 7 stays below 65536 *)
      apply N.ltb_lt in E2. exfalso.
      assert (a <= 8191)%N by (apply N.div_le_mono with (c := 8%N) in E1; [|lia]; rewrite N.div_mul in E1 by lia; change (65535 / 8)%N with 8191%N in E1; exact E1).
      lia.
    + apply N.ltb_ge in E2. apply IH; [exact E2|exact Hr'|exact Hlt].
Qed.

Lemma be16_len v : length (be16 v) = 2. Proof. reflexivity. Qed.
Lemma be32_len v : length (be32 v) = 4. Proof. reflexivity. Qed.

Lemma safe_parse_ch_a c : ctx_ok c -> safe false (parse_ch_a_rdata c) (fun d => validate_as_ch_a d = Ok true).
Proof.
  intros [Ho _]. unfold parse_ch_a_rdata. snext safe_cbh. destruct a.
  - apply safe_with_validation. apply vt_ch_a.
  - eapply safe_bind; [apply safe_parse_name; exact Ho|]. intros lan Hl. sskip.
    eapply safe_bind with (Q1 := fun _ => True).
    { unfold parse_chaosnet_address. snext safe_getpos. apply safe_with_fuel. intros n. apply chaos_loop_safe. lia. }
    intros addr _. sskip. pose proof (good_name_len lan Hl).
    eapply safe_weaken; [apply safe_mk_rdata; rewrite app_length, be16_len; lia|]. intros d ->. apply ok_ch_a. exact Hl.
Qed.

Lemma safe_parse_soa c : ctx_ok c -> safe false (parse_soa_rdata c) (fun d => validate_as_soa d = Ok true).
Proof.
  intros [Ho _]. unfold parse_soa_rdata. snext safe_cbh. destruct a.
  - apply safe_with_validation. apply vt_soa.
  - eapply safe_bind; [apply safe_parse_name; exact Ho|]. intros m Hm. sskip.
    eapply safe_bind; [apply safe_parse_name; exact Ho|]. intros rn Hrn. sskip.
    snext safe_parse_uint. sskip. snext safe_parse_uint. sskip. snext safe_parse_uint. sskip.
    snext safe_parse_uint. sskip. snext safe_parse_uint. sskip.
    pose proof (good_name_len m Hm). pose proof (good_name_len rn Hrn).
    eapply safe_weaken; [apply safe_mk_rdata; rewrite !app_length, !be32_len; lia|]. intros d ->.
    apply ok_soa; [exact Hm|exact Hrn|]. rewrite !app_length, !be32_len. reflexivity.
Qed.

Lemma In_rev_fast {A} (l : list A) x : In x (rev_fast l) <-> In x l.
Proof. unfold rev_fast. rewrite rev_append_rev, app_nil_r. symmetry. apply in_rev. Qed.

Lemma wks_loop_safe : forall fuel start count ports, Forall (fun p => (p <= 65535)%N) ports ->
  safeN fuel (wks_loop fuel start count ports) (Forall (fun p => (p <= 65535)%N)).
Proof.
  induction fuel as [|fuel IH]; intros start count ports Hp r Hr Hn; [lia|].
  cbn [wks_loop].
  apply (okres_bind false false _ _ (fun _ => True) _ r Hr (safe_through r Hr)).
  intros f r1 _ Hr1 _ Hle1. destruct f; [|simpl; auto].
  destruct (65535 <=? count)%N; [exact I|].
  (* parse_u16 consumes at least one octet: the empty string is not a number *)
  assert (S1 : safe true (parse_u16 InvalidInt) (fun v => (v <= 65535)%N)).
  { eapply safe_weakenQ; [apply safe_read_field_strict; intros v; rewrite parse_uint_nil; discriminate|].
    intros v [s Hs]. apply parse_uint_le in Hs. exact Hs. }
  pose proof (S1 r1 Hr1) as H1. unfold bindM.
  destruct (parse_u16 InvalidInt r1) as [[port r2]|[p k|]|]; simpl in H1; auto.
  destruct H1 as (F2 & L2 & Hport).
  assert (W2 : wfr r2) by (unfold wfr in *; lia).
  assert (G : okres false (Forall (fun p => (p <= 65535)%N)) r2 (wks_loop fuel start (count + 1) (port :: ports) r2)).
  { apply IH; [constructor; assumption|exact W2|lia]. }
  destruct (wks_loop fuel start (count + 1) (port :: ports) r2) as [[res r3]|[p k|]|]; simpl in *; auto.
  destruct G as (G1 & G2 & G3). split; [congruence|]. split; [lia|exact G3].
Qed.

Lemma safeN_bind {A B} n (m : M A) (f : A -> M B) (Q1 : A -> Prop) (Q2 : B -> Prop) :
  safeN n m Q1 -> (forall a, Q1 a -> safe false (f a) Q2) -> safeN n (bindM m f) Q2.
Proof.
  intros Hm Hf r Hr Hn. apply (okres_bind false false m f Q1 Q2 r Hr (Hm r Hr Hn)).
  intros a r' Ha Hr' _ _. apply Hf; assumption.
Qed.

Lemma safeN_bind_r {A B} n (m : M A) (f : A -> M B) (Q1 : A -> Prop) (Q2 : B -> Prop) :
  safe false m Q1 -> (forall a, Q1 a -> safeN n (f a) Q2) -> safeN n (bindM m f) Q2.
Proof.
  intros Hm Hf r Hr Hn. apply (okres_bind false false m f Q1 Q2 r Hr (Hm r Hr)).
  intros a r' Ha Hr' _ Hle. apply Hf; [assumption|assumption|lia].
Qed.

Lemma safe_parse_in_wks : safe false parse_in_wks_rdata (fun d => validate_as_in_wks d = Ok true).
Proof.
  unfold parse_in_wks_rdata. snext safe_cbh. destruct a.
  - apply safe_with_validation. apply vt_in_wks.
  - snext safe_getpos. eapply safe_bind; [apply safe_parse_ipv4|]. intros addr Ha. sskip.
    snext safe_expect_field_impl.
    eapply safe_bind with (Q1 := fun _ => True).
    { destruct a0; [apply safe_ret; exact I|]. snext safe_expect_field_impl.
      destruct a0; [apply safe_ret; exact I|]. eapply safe_weaken; [apply safe_parse_uint|auto]. }
    intros proto _.
    apply safe_with_fuel. intros n.
    eapply safeN_bind; [apply wks_loop_safe; constructor|].
    intros ports Hp. apply safe_new_in_wks; [exact Ha|].
    rewrite Forall_forall in *. intros x Hx. apply Hp. apply In_rev_fast. exact Hx.
Qed.

Lemma safe_parse_hinfo : safe false parse_hinfo_rdata (fun d => validate_as_hinfo d = Ok true).
Proof.
  unfold parse_hinfo_rdata. snext safe_cbh. destruct a.
  - apply safe_with_validation. apply vt_hinfo.
  - eapply safe_bind; [apply safe_parse_character_string|]. intros cpu Hc. sskip.
    eapply safe_bind; [apply safe_parse_character_string|]. intros os Ho. sskip.
    unfold short in *.
    eapply safe_weaken; [apply safe_mk_rdata; rewrite !app_length; simpl length; lia|]. intros d ->. apply ok_hinfo; assumption.
Qed.

Lemma safe_parse_minfo c : ctx_ok c -> safe false (parse_minfo_rdata c) (fun d => validate_as_minfo d = Ok true).
Proof.
  intros [Ho _]. unfold parse_minfo_rdata. snext safe_cbh. destruct a.
  - apply safe_with_validation. apply vt_minfo.
  - eapply safe_bind; [apply safe_parse_name; exact Ho|]. intros m Hm. sskip.
    eapply safe_bind; [apply safe_parse_name; exact Ho|]. intros e He. sskip.
    pose proof (good_name_len m Hm). pose proof (good_name_len e He).
    eapply safe_weaken; [apply safe_mk_rdata; rewrite !app_length; lia|]. intros d ->. apply ok_minfo; assumption.
Qed.

Lemma safe_parse_mx c : ctx_ok c -> safe false (parse_mx_rdata c) (fun d => validate_as_mx d = Ok true).
Proof.
  intros [Ho _]. unfold parse_mx_rdata. snext safe_cbh. destruct a.
  - apply safe_with_validation. apply vt_mx.
  - snext safe_parse_uint. sskip.
    eapply safe_bind; [apply safe_parse_name; exact Ho|]. intros e He. sskip.
    pose proof (good_name_len e He).
    eapply safe_weaken; [apply safe_mk_rdata; rewrite !app_length, be16_len; lia|]. intros d ->. apply ok_mx; assumption.
Qed.

Lemma safe_parse_in_srv c : ctx_ok c -> safe false (parse_in_srv_rdata c) (fun d => validate_as_in_srv d = Ok true).
Proof.
  intros [Ho _]. unfold parse_in_srv_rdata. snext safe_cbh. destruct a.
  - apply safe_with_validation. apply vt_in_srv.
  - snext safe_parse_uint. sskip. snext safe_parse_uint. sskip. snext safe_parse_uint. sskip.
    eapply safe_bind; [apply safe_parse_name; exact Ho|]. intros e He. sskip.
    pose proof (good_name_len e He).
    eapply safe_weaken; [apply safe_mk_rdata; rewrite !app_length, !be16_len; lia|]. intros d ->. apply ok_srv; assumption.
Qed.

(* TXT: the chunks pushed so far are well formed and [written] is their total length *)
Definition txt_ok (written : N) (chunks : list bytes) : Prop :=
  Forall wf_chunk chunks /\ written = N.of_nat (length (concat chunks)) /\ (written <= 65535)%N.

Definition txt_res (cs : list bytes) : Prop :=
  cs <> [] /\ Forall wf_chunk cs /\ (N.of_nat (length (concat cs)) <= 65535)%N.

Lemma txt_loop_ok : forall fuel start written chunks r, txt_ok written chunks ->
  wfr r -> length (r_rest r) < fuel -> at_field_end_at (r_rest r) 0 = Ok false ->
  okres false txt_res r (txt_loop fuel start written chunks r).
Proof.
  induction fuel as [|fuel IH]; intros start written chunks r (Hw & Hwr & Hle) Hr Hn Hf; [lia|].
  cbn [txt_loop].
  pose proof (pcs_strict r Hr Hf) as H1. unfold bindM at 1.
  destruct (parse_character_string r) as [[cs r1]|[p k|]|]; simpl in H1; auto.
  destruct H1 as (F1 & L1 & Hcs). assert (W1 : wfr r1) by (unfold wfr in *; lia).
  destruct (65535 <? written + N.of_nat (length cs) + 1)%N eqn:E; [exact I|]. apply N.ltb_ge in E.
  set (chunks' := ((N.of_nat (length cs) mod 256)%N :: cs) :: chunks).
  assert (Hok' : txt_ok (written + N.of_nat (length cs) + 1) chunks').
  { split; [constructor; [exists cs; split; [exact Hcs|reflexivity]|exact Hw]|]. split; [|exact E].
    unfold chunks'. cbn [concat length app]. rewrite app_length. lia. }
  pose proof (foe_spec (r_fuel r1) true r1) as H2.
  assert (Lr1 : length (r_rest r1) < r_fuel r1) by (unfold wfr in W1; lia). specialize (H2 Lr1).
  unfold bindM, skip_to_next_field_or_through_eol, foe_fuel.
  destruct (foe_loop (r_fuel r1) true r1) as [[f r2]|[p k|]|]; auto.
  destruct H2 as (F2 & L2 & H2). destruct f.
  - assert (W2 : wfr r2) by (unfold wfr in *; lia).
    assert (G : okres false txt_res r2 (txt_loop fuel start (written + N.of_nat (length cs) + 1) chunks' r2)).
    { apply IH; [exact Hok'|exact W2|lia|exact H2]. }
    destruct (txt_loop fuel start (written + N.of_nat (length cs) + 1) chunks' r2) as [[res r3]|[p k|]|]; simpl in *; auto.
    destruct G as (G1 & G2 & G3). split; [congruence|]. split; [lia|exact G3].
  - simpl. split; [congruence|]. split; [lia|]. destruct Hok' as (A & B & C).
    split; [unfold chunks'; discriminate|]. split; [exact A|]. rewrite <- B. exact C.
Qed.

Lemma cbh_spec k r : wfr r ->
  match check_backslash_hash k r with
  | Ok (b, r') => r_fuel r' = r_fuel r /\ length (r_rest r') <= length (r_rest r) /\
                  (b = false -> at_field_end_at (r_rest r') 0 = Ok false)
  | Err (ZErr _ _) => True
  | Err ZOutOfFuel => False
  | Panic => False
  end.
Proof.
  intros Hr. unfold check_backslash_hash, bindM, skip_to_next_field, skip_to_next_field_or_to_eol.
  pose proof (safe_foe false r Hr) as H1. pose proof (foe_field false r Hr) as H2. cbn beta in H1.
  destruct (foe_loop (foe_fuel r) false r) as [[f r1]|[p kk|]|]; simpl in H1; auto.
  destruct H1 as (F1 & L1 & _). destruct f; [|exact I]. cbn [bind].
  destruct (expect_field_impl_spec [92%N; 35%N] bytes_eqb r1) as [H|[H Hl]]; unfold expect_field; rewrite H.
  - split; [exact F1|]. split; [exact L1|]. intros _. exact H2.
  - rewrite adv_fuel, adv_len. split; [exact F1|]. split; [lia|]. discriminate.
Qed.

Lemma concat_rev_length (l : list bytes) : length (concat (rev l)) = length (concat l).
Proof.
  induction l as [|a l IH]; [reflexivity|]. cbn [rev concat]. rewrite concat_app, !app_length. cbn [concat].
  rewrite app_nil_r. lia.
Qed.

Lemma rev_fast_rev {A} (l : list A) : rev_fast l = rev l.
Proof. unfold rev_fast. rewrite rev_append_rev. apply app_nil_r. Qed.

Lemma safe_parse_txt : safe false parse_txt_rdata (fun d => validate_as_txt d = Ok true).
Proof.
  intros r Hr. unfold parse_txt_rdata. pose proof (cbh_spec ExpectedCharacterStringOrBh r Hr) as H1.
  unfold bindM at 1.
  destruct (check_backslash_hash ExpectedCharacterStringOrBh r) as [[bh r1]|[p k|]|]; auto.
  destruct H1 as (F1 & L1 & H1). assert (W1 : wfr r1) by (unfold wfr in *; lia).
  assert (G : okres false (fun d => validate_as_txt d = Ok true) r1
                ((if bh then parse_unknown_rdata_with_validation validate_as_txt
                  else do start <- getpos; do fuel <- get_fuel; do chunks_rev <- txt_loop fuel start 0 [];
                       mk_rdata (concat (rev_fast chunks_rev))) r1)).
  { destruct bh.
    - apply safe_with_validation; [apply vt_txt|exact W1].
    - specialize (H1 eq_refl). unfold bindM at 1, getpos. unfold bindM at 1, get_fuel.
      apply (okres_bind false false _ _ txt_res _ r1 W1).
      + apply txt_loop_ok; [split; [constructor|split; [reflexivity|simpl; lia]]|exact W1|unfold wfr in W1; lia|exact H1].
      + intros cs r2 (Hne & Hw & Hlen) W2 _ _. rewrite rev_fast_rev.
        eapply safe_weaken; [apply safe_mk_rdata; rewrite concat_rev_length; exact Hlen| |exact W2].
        intros d ->. apply ok_txt.
        * apply Forall_rev. exact Hw.
        * intros Hnil. apply Hne. rewrite <- (rev_involutive cs), Hnil. reflexivity. }
  match goal with |- okres _ _ _ ?x => destruct x as [[d r2]|[p k|]|] end; simpl in *; auto.
  destruct G as (G1 & G2 & G3). split; [congruence|]. split; [lia|exact G3].
Qed.

(* ---- parse_rdata: what is built passes Rdata::validate ----------------------------------------------- *)

Lemma dispatch_agree : name_rdata_types = validate_name_types.
Proof. reflexivity. Qed.

(* source ties: the regenerated tables of parse_type / parse_rdata / Rdata::validate are the ones modelled *)
Lemma refused_types_val : refused_types = [TYPE_NULL; TYPE_OPT; TYPE_TSIG].
Proof. reflexivity. Qed.
Lemma rdata_dispatch_val : rdata_dispatch =
  [(TYPE_PTR, None); (TYPE_A, Some CLASS_IN); (TYPE_A, Some CLASS_CH); (TYPE_SOA, None); (TYPE_WKS, Some CLASS_IN);
   (TYPE_HINFO, None); (TYPE_MINFO, None); (TYPE_MX, None); (TYPE_TXT, None); (TYPE_AAAA, Some CLASS_IN);
   (TYPE_SRV, Some CLASS_IN)].
Proof. reflexivity. Qed.
Lemma validate_dispatch_val : validate_dispatch =
  [(TYPE_A, Some CLASS_IN); (TYPE_A, Some CLASS_CH); (TYPE_SOA, None); (TYPE_WKS, Some CLASS_IN); (TYPE_HINFO, None);
   (TYPE_MINFO, None); (TYPE_MX, None); (TYPE_TXT, None); (TYPE_AAAA, Some CLASS_IN); (TYPE_SRV, Some CLASS_IN);
   (TYPE_OPT, None); (TYPE_TSIG, None)].
Proof. reflexivity. Qed.
Lemma limits_val : MAX_READ_FIELD_SIZE = 65536%N /\ INCLUDE_PATH_MAX = 65536%N.
Proof. split; reflexivity. Qed.

Definition type_allowed (t : N) : Prop := t <> TYPE_NULL /\ t <> TYPE_OPT /\ t <> TYPE_TSIG.

Lemma safe_parse_rdata c class t : ctx_ok c -> type_allowed t ->
  safe false (parse_rdata c class t) (fun d => rdata_validate class t d = Ok true).
Proof.
  intros Hc (Hn & Ho & Ht). unfold parse_rdata, rdata_validate. rewrite <- dispatch_agree.
  destruct (in_types t name_rdata_types); [apply safe_parse_name_rdata; exact Hc|].
  destruct ((t =? TYPE_A)%N && (class =? CLASS_IN)%N); [apply safe_parse_in_a|].
  destruct ((t =? TYPE_A)%N && (class =? CLASS_CH)%N); [apply safe_parse_ch_a; exact Hc|].
  destruct (t =? TYPE_SOA)%N; [apply safe_parse_soa; exact Hc|].
  destruct ((t =? TYPE_WKS)%N && (class =? CLASS_IN)%N); [apply safe_parse_in_wks|].
  destruct (t =? TYPE_HINFO)%N; [apply safe_parse_hinfo|].
  destruct (t =? TYPE_MINFO)%N; [apply safe_parse_minfo; exact Hc|].
  destruct (t =? TYPE_MX)%N; [apply safe_parse_mx; exact Hc|].
  destruct (t =? TYPE_TXT)%N; [apply safe_parse_txt|].
  destruct ((t =? TYPE_AAAA)%N && (class =? CLASS_IN)%N); [apply safe_parse_in_aaaa|].
  destruct ((t =? TYPE_SRV)%N && (class =? CLASS_IN)%N); [apply safe_parse_in_srv; exact Hc|].
  assert (E : ((t =? TYPE_OPT)%N || (t =? TYPE_TSIG)%N) = false).
  { apply orb_false_iff. split; apply N.eqb_neq; assumption. }
  rewrite E. snext safe_cbh. destruct a; cbn [negb]; [|apply safe_failHere].
  eapply safe_weaken; [apply safe_parse_unknown_rdata|]. intros; reflexivity.
Qed.

Lemma safe_parse_type : safe true parse_type type_allowed.
Proof.
  unfold parse_type. eapply safe_bind_ft; [apply safe_getpos|]. intros position _.
  eapply safe_bind_tf.
  - apply (safe_read_field_strict type_from_str InvalidType). intros v. rewrite type_from_str_nil. discriminate.
  - intros t _. destruct (t =? TYPE_NULL)%N eqn:E1; [apply safe_failM|].
    destruct (t =? TYPE_OPT)%N eqn:E2; [apply safe_failM|].
    destruct (t =? TYPE_TSIG)%N eqn:E3; [apply safe_failM|].
    apply safe_ret. repeat split; apply N.eqb_neq; assumption.
Qed.

Lemma safe_parse_ttl : safe false parse_ttl (fun _ => True).
Proof. unfold parse_ttl. snext safe_parse_uint. apply safe_ret. exact I. Qed.

Lemma safe_parse_class : safe false parse_class (fun _ => True).
Proof. eapply safe_weaken; [apply safe_read_field|auto]. Qed.

Lemma safe_parse_ttl_and_class c : safe false (parse_ttl_and_class c) (fun _ => True).
Proof.
  unfold parse_ttl_and_class.
  eapply safe_bind; [apply safe_try_ok; apply safe_parse_ttl|]. intros [ttl|] _.
  - sskip. eapply safe_bind; [apply safe_try_ok; apply safe_parse_class|]. intros [class|] _.
    + apply safe_ret; exact I.
    + destruct (c_prev_class c); [apply safe_ret; exact I|apply safe_failHere].
  - eapply safe_bind; [apply safe_try_ok; apply safe_parse_class|]. intros [class|] _.
    + sskip. eapply safe_bind; [apply safe_try_ok; apply safe_parse_ttl|]. intros [ttl|] _.
      * apply safe_ret; exact I.
      * destruct (default_or_previous_ttl c); [apply safe_ret; exact I|apply safe_failHere].
    + destruct (default_or_previous_ttl c); [|apply safe_failHere].
      destruct (c_prev_class c); [apply safe_ret; exact I|apply safe_failHere].
Qed.

(* ---- lines ------------------------------------------------------------------------------------------- *)

Definition line_ok (l : line) : Prop :=
  match l_content l with
  | CRecord rr => good_name (rr_owner rr) /\ type_allowed (rr_type rr) /\
                  rdata_validate (rr_class rr) (rr_type rr) (rr_rdata rr) = Ok true
  | CInclude _ o => origin_ok o
  end.

Definition line_res (x : option line * ctx) : Prop :=
  ctx_ok (snd x) /\ forall l, fst x = Some l -> line_ok l.

Lemma safe_record_fields c sol lw : ctx_ok c -> safe true (parse_record_fields c sol lw) line_res.
Proof.
  intros Hc. pose proof Hc as [Ho Hp]. unfold parse_record_fields.
  eapply safe_bind_ft with (Q1 := good_name).
  { destruct lw; [|apply safe_parse_name; exact Ho].
    destruct (c_prev_owner c) as [o|] eqn:E; [apply safe_ret; apply Hp; reflexivity|apply safe_failM]. }
  intros owner Hown. eapply safe_bind_ft; [apply safe_skip_to_next_field|]. intros _ _.
  eapply safe_bind_ft; [apply safe_parse_ttl_and_class|]. intros tc _.
  eapply safe_bind_ft; [apply safe_skip_to_next_field|]. intros _ _.
  eapply safe_bind_tf; [apply safe_parse_type|]. intros t Ht.
  eapply safe_bind; [apply safe_parse_rdata; assumption|]. intros d Hd.
  apply safe_ret. split.
  - split; cbn; [exact Ho|]. intros n [= <-]. exact Hown.
  - cbn. intros l [= <-]. unfold line_ok. cbn. auto.
Qed.

Lemma okres_trans {A} (Q : A -> Prop) r r1 x :
  r_fuel r1 = r_fuel r -> length (r_rest r1) <= length (r_rest r) -> okres true Q r1 x -> okres true Q r x.
Proof.
  intros F L. destruct x as [[a r2]|[p k|]|]; simpl; auto. intros (G1 & G2 & G3).
  split; [congruence|]. split; [lia|exact G3].
Qed.

Lemma record_or_empty_ok c r : wfr r -> r_rest r <> [] -> ctx_ok c ->
  okres true line_res r (parse_record_or_empty c r).
Proof.
  intros Hr Hne Hc. unfold parse_record_or_empty. unfold bindM at 1, getpos. unfold bindM at 1, lift.
  pose proof (skip_whitespace_le r) as [Wf Wl]. pose proof (skip_whitespace_cases r) as Wc.
  destruct (skip_whitespace r) as [lw r1]. cbn [fst snd] in *.
  assert (W1 : wfr r1) by (unfold wfr in *; lia).
  pose proof (foe_spec (r_fuel r1) true r1) as H2.
  assert (Lr1 : length (r_rest r1) < r_fuel r1) by (unfold wfr in W1; lia). specialize (H2 Lr1).
  unfold bindM, skip_to_next_field_or_through_eol, foe_fuel.
  destruct (foe_loop (r_fuel r1) true r1) as [[f r2]|[p k|]|]; auto.
  destruct H2 as (F2 & L2 & H2). destruct f.
  - apply (okres_trans line_res r r2); [congruence|lia|].
    apply safe_record_fields; [exact Hc|unfold wfr in *; lia].
  - simpl. split; [congruence|]. split.
    + destruct Wc as [[_ W]|[_ W]]; [lia|]. rewrite W in H2. specialize (H2 eq_refl Hne). exact H2.
    + split; [exact Hc|]. cbn. discriminate.
Qed.

(* ---- directives ------------------------------------------------------------------------------------------ *)

Lemma push_path_ok o p n start : safe false (push_path_octet o p n start) (fun _ => True).
Proof. unfold push_path_octet. destruct (n <? INCLUDE_PATH_MAX)%N; [apply safe_ret; exact I|apply safe_failM]. Qed.

Lemma pqip_loop_safe : forall fuel start p n, safeN fuel (pqip_loop fuel start p n) (fun _ => True).
Proof.
  induction fuel as [|fuel IH]; intros start p n r Hr Hn; [lia|].
  cbn [pqip_loop]. unfold bindM at 1, getpos.
  apply (read_octet_step _ _ fuel r Hr Hn).
  - intros r' Hr'. exact I.
  - intros octet. destruct (octet =? 92)%N.
    + apply after_escape. intros e. eapply safeN_bind_r; [apply push_path_ok|]. intros pn _. apply IH.
    + destruct (octet =? 34)%N; [apply safeN_of_safe, safe_ret; exact I|].
      eapply safeN_bind_r; [apply push_path_ok|]. intros pn _. apply IH.
Qed.

Lemma puip_loop_safe : forall fuel start p n, safeN fuel (puip_loop fuel start p n) (fun _ => True).
Proof.
  induction fuel as [|fuel IH]; intros start p n r Hr Hn; [lia|].
  cbn [puip_loop]. apply (read_field_octet_step _ _ fuel r Hr Hn).
  - intros r' Hr' _ _. simpl. auto.
  - intros octet r' Hr' Hf Hlt _.
    assert (G : safeN fuel (do eff <- (if (octet =? 92)%N then parse_escape else ret octet);
                             do pn <- push_path_octet eff p n start; puip_loop fuel start (fst pn) (snd pn)) (fun _ => True)).
    { eapply safeN_bind_r with (Q1 := fun _ => True).
      - destruct (octet =? 92)%N; [apply safe_parse_escape|apply safe_ret; exact I].
      - intros eff _. eapply safeN_bind_r; [apply push_path_ok|]. intros pn _. apply IH. }
    apply G; assumption.
Qed.

Lemma safe_parse_include_path : safe false parse_include_path (fun _ => True).
Proof.
  intros r Hr. unfold parse_include_path.
  destruct (match peek_octet r with Some c => (c =? 34)%N | None => false end).
  - revert r Hr. change (safe false (do start <- getpos; do _ <- lift read_octet; do fuel <- get_fuel; pqip_loop fuel start [] 0%N) (fun _ => True)).
    snext safe_getpos. eapply safe_bind; [apply (safe_lift read_octet read_octet_le)|]. intros _ _.
    apply safe_with_fuel. intros n. apply pqip_loop_safe.
  - revert r Hr. change (safe false (do start <- getpos; do fuel <- get_fuel; puip_loop fuel start [] 0%N) (fun _ => True)).
    snext safe_getpos. apply safe_with_fuel. intros n. apply puip_loop_safe.
Qed.

Definition ctx_res (c : ctx) : Prop := ctx_ok c.

Lemma safe_origin_directive c : ctx_ok c -> safe false (parse_origin_directive c) ctx_ok.
Proof.
  intros [Ho Hp]. unfold parse_origin_directive. sskip.
  eapply safe_bind; [apply safe_parse_name; exact Ho|]. intros n Hn. sskip.
  apply safe_ret. split; cbn; [intros m [= <-]; exact Hn|exact Hp].
Qed.

Lemma safe_ttl_directive c : ctx_ok c -> safe false (parse_ttl_directive c) ctx_ok.
Proof.
  intros [Ho Hp]. unfold parse_ttl_directive. sskip. snext safe_parse_uint. sskip.
  apply safe_ret. split; cbn; assumption.
Qed.

Lemma safe_include_directive c : ctx_ok c -> safe false (parse_include_directive c) line_ok.
Proof.
  intros [Ho Hp]. unfold parse_include_directive. snext safe_getpos. sskip.
  snext safe_parse_include_path. snext safe_through.
  eapply safe_bind with (Q1 := origin_ok).
  - destruct a1; [|apply safe_ret; exact Ho].
    eapply safe_bind; [apply safe_parse_name; exact Ho|]. intros o Hgo. sskip.
    apply safe_ret. intros m [= <-]. exact Hgo.
  - intros org Horg. apply safe_ret. unfold line_ok. cbn. exact Horg.
Qed.

(* a matched directive keyword consumes it *)
Lemma expect_then {B} field cmp (f : bool -> M B) (Q : B -> Prop) r :
  wfr r -> 1 <= length field ->
  safe false (f true) Q ->
  (okres true Q r (f false r)) ->
  okres true Q r (bindM (expect_field_impl field cmp) f r).
Proof.
  intros Hr Hlen Ht Hfalse. unfold bindM.
  destruct (expect_field_impl_spec field cmp r) as [H|[H Hl]]; rewrite H; [exact Hfalse|].
  assert (W : wfr (adv r (length field))) by (unfold wfr in *; rewrite adv_fuel, adv_len; lia).
  specialize (Ht _ W). pose proof (adv_len r (length field)) as AL. pose proof (adv_fuel r (length field)) as AF.
  destruct (f true (adv r (length field))) as [[b r2]|[p k|]|]; unfold okres in *; auto.
  destruct Ht as (G1 & G2 & G3). split; [congruence|]. split; [lia|exact G3].
Qed.

Lemma directive_ok c r : wfr r -> ctx_ok c -> okres true line_res r (parse_directive c r).
Proof.
  intros Hr Hc. unfold parse_directive, expect_field_ci.
  apply expect_then; [exact Hr|simpl; lia| |].
  { eapply safe_bind; [apply safe_origin_directive; exact Hc|]. intros c' Hc'. apply safe_ret.
    split; [exact Hc'|cbn; discriminate]. }
  apply expect_then; [exact Hr|simpl; lia| |].
  { eapply safe_bind; [apply safe_ttl_directive; exact Hc|]. intros c' Hc'. apply safe_ret.
    split; [exact Hc'|cbn; discriminate]. }
  apply expect_then; [exact Hr|simpl; lia| |exact I].
  eapply safe_bind; [apply safe_include_directive; exact Hc|]. intros l Hl. apply safe_ret.
  split; [exact Hc|cbn; intros l' [= <-]; exact Hl].
Qed.

Lemma parse_line_ok c r : wfr r -> r_rest r <> [] -> ctx_ok c -> okres true line_res r (parse_line c r).
Proof.
  intros Hr Hne Hc. unfold parse_line. destruct (peek_octet r) as [d|].
  - destruct (d =? 36)%N; [apply directive_ok|apply record_or_empty_ok]; assumption.
  - apply record_or_empty_ok; assumption.
Qed.

(* ---- the iterator ------------------------------------------------------------------------------------------ *)

Lemma lines_loop_ok : forall fuel c r, wfr r -> ctx_ok c -> length (r_rest r) < fuel ->
  match lines_loop fuel c r with
  | Ok (ol, c', r') =>
    r_fuel r' = r_fuel r /\ length (r_rest r') <= length (r_rest r) /\ ctx_ok c' /\
    (forall l, ol = Some l -> line_ok l /\ length (r_rest r') < length (r_rest r))
  | Err (ZErr _ _) => True
  | Err ZOutOfFuel => False
  | Panic => False
  end.
Proof.
  induction fuel as [|fuel IH]; intros c r Hr Hc Hn; [lia|]. cbn [lines_loop].
  unfold at_eof. destruct (r_rest r) as [|x t] eqn:E.
  - rewrite E. split; [reflexivity|]. split; [lia|]. split; [exact Hc|]. discriminate.
  - assert (Hne : r_rest r <> []) by (rewrite E; discriminate).
    assert (EL : length (r_rest r) = length (x :: t)) by (rewrite E; reflexivity).
    pose proof (parse_line_ok c r Hr Hne Hc) as H. rewrite <- E.
    destruct (parse_line c r) as [[[ol c'] r']|[p k|]|]; simpl in H; auto.
    destruct H as (F & L & Hc' & Hl). cbn [fst snd] in *. destruct ol as [l|].
    + split; [exact F|]. split; [lia|]. split; [exact Hc'|]. intros l' [= <-]. split; [apply Hl; reflexivity|exact L].
    + assert (W : wfr r') by (unfold wfr in *; lia).
      specialize (IH c' r' W Hc'). assert (L' : length (r_rest r') < fuel) by lia. specialize (IH L').
      destruct (lines_loop fuel c' r') as [[[ol c''] r'']|[p k|]|]; auto.
      destruct IH as (F2 & L2 & Hc2 & Hl2). split; [congruence|]. split; [lia|]. split; [exact Hc2|].
      intros l Hl'. destruct (Hl2 l Hl') as [A B]. split; [exact A|lia].
Qed.

Definition item := (line + (pos * zkind))%type.
Definition item_ok (it : item) : Prop := match it with inl l => line_ok l | inr _ => True end.
Definition is_line (it : item) : Prop := match it with inl _ => True | inr _ => False end.

Definition pinv (p : parser) : Prop := wfr (ps_rd p) /\ ctx_ok (ps_ctx p).
Definition measure (p : parser) : nat := if ps_error p then 0 else S (length (r_rest (ps_rd p))).

Lemma next_after_error p : ps_error p = true -> parser_next p = Ok (None, p).
Proof. intros H. unfold parser_next. rewrite H. reflexivity. Qed.

Lemma next_spec p : pinv p -> ps_error p = false ->
  exists o p', parser_next p = Ok (o, p') /\ pinv p' /\
    match o with
    | Some (inl l) => line_ok l /\ ps_error p' = false /\ measure p' < measure p
    | Some (inr _) => ps_error p' = true
    | None => ps_error p' = false
    end.
Proof.
  intros [Hr Hc] He. unfold parser_next. rewrite He.
  assert (L : length (r_rest (ps_rd p)) < r_fuel (ps_rd p)) by (unfold wfr in Hr; lia).
  pose proof (lines_loop_ok _ (ps_ctx p) (ps_rd p) Hr Hc L) as H.
  destruct (lines_loop (r_fuel (ps_rd p)) (ps_ctx p) (ps_rd p)) as [[[ol c'] r']|[ps k|]|]; try contradiction.
  - destruct H as (F & Le & Hc' & Hl). destruct ol as [l|].
    + eexists _, _. split; [reflexivity|]. split; [split; [unfold wfr in *; cbn; lia|exact Hc']|].
      destruct (Hl l eq_refl) as [A B]. split; [exact A|]. split; [reflexivity|].
      unfold measure. rewrite He. cbn. lia.
    + eexists _, _. split; [reflexivity|]. split; [split; [unfold wfr in *; cbn; lia|exact Hc']|reflexivity].
  - eexists _, _. split; [reflexivity|]. split; [split; assumption|reflexivity].
Qed.

Lemma lines_none_eof : forall fuel c r c' r', lines_loop fuel c r = Ok (None, c', r') -> r_rest r' = [].
Proof.
  induction fuel as [|fuel IH]; intros c r c' r' H; [discriminate|]. cbn [lines_loop] in H.
  unfold at_eof in H. destruct (r_rest r) as [|x t] eqn:E.
  - inversion H; subst. exact E.
  - destruct (parse_line c r) as [[[ol c1] r1]|e|]; try discriminate.
    destruct ol as [l|]; [discriminate|]. eapply IH. exact H.
Qed.

Lemma next_none_again p p' : pinv p -> ps_error p = false ->
  parser_next p = Ok (None, p') -> parser_next p' = Ok (None, p').
Proof.
  intros [Hr Hc] He H. unfold parser_next in H. rewrite He in H.
  assert (L : length (r_rest (ps_rd p)) < r_fuel (ps_rd p)) by (unfold wfr in Hr; lia).
  pose proof (lines_loop_ok _ (ps_ctx p) (ps_rd p) Hr Hc L) as HL.
  destruct (lines_loop (r_fuel (ps_rd p)) (ps_ctx p) (ps_rd p)) as [[[ol c'] r']|[ps k|]|] eqn:E; try discriminate.
  - destruct ol as [l|]; [discriminate|]. inversion H; subst. destruct HL as (F & _).
    apply lines_none_eof in E. unfold parser_next. cbn [ps_error ps_rd ps_ctx].
    assert (exists f, r_fuel r' = S f) as [f Hf] by (unfold wfr in Hr; destruct (r_fuel r'); [lia|eauto]).
    rewrite Hf. cbn [lines_loop]. unfold at_eof. rewrite E. reflexivity.
Qed.

Lemma collect_error : forall fuel p acc, ps_error p = true -> collect (S fuel) p acc = Ok (rev_fast acc, p).
Proof. intros fuel p acc H. cbn [collect]. rewrite (next_after_error p H). reflexivity. Qed.

Lemma collect_spec : forall fuel p acc, pinv p -> ps_error p = false -> measure p < fuel ->
  Forall is_line acc -> Forall item_ok acc ->
  exists items p', collect fuel p acc = Ok (items, p') /\ Forall item_ok items /\
    parser_next p' = Ok (None, p') /\
    (exists ls tl, items = ls ++ tl /\ Forall is_line ls /\ (tl = [] \/ exists e, tl = [inr e])).
Proof.
  induction fuel as [|fuel IH]; intros p acc Hp He Hm Hl Hok; [lia|].
  cbn [collect]. destruct (next_spec p Hp He) as (o & p' & Hn & Hp' & Ho). rewrite Hn. cbn [bind].
  destruct o as [[l|e]|].
  - destruct Ho as (A & B & C). apply IH; [exact Hp'|exact B|lia|constructor; [exact I|exact Hl]|constructor; [exact A|exact Hok]].
  - destruct fuel as [|fuel]; [unfold measure in Hm; rewrite He in Hm; lia|].
    rewrite (collect_error fuel p' _ Ho). eexists _, _. split; [reflexivity|].
    rewrite rev_fast_rev. cbn [rev]. split.
    + apply Forall_app. split; [apply Forall_rev; exact Hok|constructor; [exact I|constructor]].
    + split; [apply next_after_error; exact Ho|].
      exists (rev acc), [inr e]. split; [reflexivity|]. split; [apply Forall_rev; exact Hl|right; eauto].
  - eexists _, _. split; [reflexivity|]. rewrite rev_fast_rev. split; [apply Forall_rev; exact Hok|].
    split.
    + (* the iterator stays exhausted: the reader is at end of input or ... re-running gives None again *)
      exact (next_none_again p p' Hp He Hn).
    + exists (rev acc), []. rewrite app_nil_r. split; [reflexivity|]. split; [apply Forall_rev; exact Hl|left; reflexivity].
Qed.

(* ---- the theorems ------------------------------------------------------------------------------------------ *)

Lemma pinv_new input : pinv (parser_new input).
Proof.
  split; [unfold wfr; cbn; lia|]. split; intros n H; discriminate.
Qed.

Theorem parse_all_spec input :
  exists items p, parse_all input = Ok (items, p) /\ Forall item_ok items /\
    parser_next p = Ok (None, p) /\
    (exists ls tl, items = ls ++ tl /\ Forall is_line ls /\ (tl = [] \/ exists e, tl = [inr e])).
Proof.
  unfold parse_all. apply collect_spec; [apply pinv_new|reflexivity|unfold measure; cbn; lia|constructor|constructor].
Qed.

Theorem parse_all_total input : exists items p, parse_all input = Ok (items, p).
Proof. destruct (parse_all_spec input) as (items & p & H & _). eauto. Qed.

Lemma next_error_sets_flag p e p' : parser_next p = Ok (Some (inr e), p') -> ps_error p' = true.
Proof.
  unfold parser_next. destruct (ps_error p); [discriminate|].
  destruct (lines_loop _ _ _) as [[[ol c] r]|[ps k|]|]; try discriminate.
  - destruct ol; discriminate.
  - intros [= _ <-]. reflexivity.
Qed.

(* n further calls of next *)
Fixpoint next_n (n : nat) (p : parser) : list (res zerr (option item * parser)) :=
  match n with
  | O => []
  | S n' => parser_next p :: match parser_next p with Ok (_, p') => next_n n' p' | _ => [] end
  end.

Theorem stops_after_error p e p' : parser_next p = Ok (Some (inr e), p') ->
  forall n, Forall (fun x => x = Ok (None, p')) (next_n n p').
Proof.
  intros H. apply next_error_sets_flag in H. induction n as [|n IH]; [constructor|].
  cbn [next_n]. rewrite (next_after_error p' H). constructor; [reflexivity|exact IH].
Qed.

Theorem errors_only_last input items p : parse_all input = Ok (items, p) ->
  parser_next p = Ok (None, p) /\
  forall i e, nth_error items i = Some (inr e) -> S i = length items.
Proof.
  intros H. destruct (parse_all_spec input) as (items' & p' & H' & _ & Hn & ls & tl & -> & Hl & Ht).
  rewrite H in H'. inversion H'; subst. split; [exact Hn|].
  intros i e Hi. destruct (Nat.lt_ge_cases i (length ls)) as [Hlt|Hge].
  - rewrite nth_error_app1 in Hi by exact Hlt. rewrite Forall_forall in Hl.
    apply nth_error_In in Hi. apply Hl in Hi. contradiction.
  - rewrite nth_error_app2 in Hi by exact Hge. destruct Ht as [->|[e' ->]].
    + destruct (i - length ls); discriminate.
    + rewrite app_length. simpl. destruct (i - length ls) as [|k] eqn:Ek; [lia|]. destruct k; discriminate.
Qed.

Lemma type_allowed_forbidden t : type_allowed t -> ~ In t forbidden_types.
Proof.
  intros (A & B & C) Hin. unfold forbidden_types in Hin.
  change TYPE_NULL with 10%N in A. change TYPE_OPT with 41%N in B. change TYPE_TSIG with 250%N in C.
  simpl in Hin. intuition congruence.
Qed.

Theorem records_valid input items p n rr : parse_all input = Ok (items, p) ->
  In (inl (mkLine n (CRecord rr))) items ->
  good_name (rr_owner rr) /\ ~ In (rr_type rr) forbidden_types /\
  rdata_validate (rr_class rr) (rr_type rr) (rr_rdata rr) = Ok true.
Proof.
  intros H Hin. destruct (parse_all_spec input) as (items' & p' & H' & Hok & _).
  rewrite H in H'. inversion H'; subst. rewrite Forall_forall in Hok. specialize (Hok _ Hin).
  cbn in Hok. unfold line_ok in Hok. cbn in Hok. destruct Hok as (A & B & C).
  split; [exact A|]. split; [apply type_allowed_forbidden; exact B|exact C].
Qed.

Theorem includes_valid input items p n path o : parse_all input = Ok (items, p) ->
  In (inl (mkLine n (CInclude path (Some o)))) items -> good_name o.
Proof.
  intros H Hin. destruct (parse_all_spec input) as (items' & p' & H' & Hok & _).
  rewrite H in H'. inversion H'; subst. rewrite Forall_forall in Hok. specialize (Hok _ Hin).
  cbn in Hok. unfold line_ok in Hok. cbn in Hok. apply Hok. reflexivity.
Qed.

(* a good name passes the (C14) model of Name::validate_uncompressed_all and ends in the root label *)
Theorem good_name_absolute nm : good_name nm ->
  validate_uncompressed_name (n_wire nm) true = Ok (length (n_wire nm)) /\
  last (n_wire nm) 1%N = 0%N /\ length (n_wire nm) <= 255.
Proof.
  intros (ls & H & ->). unfold name_of. cbn [n_wire]. split; [apply validate_wire_all; exact H|].
  split; [unfold wire_of; apply last_last|]. destruct H as [_ H]. exact H.
Qed.
