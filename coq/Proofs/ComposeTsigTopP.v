(* Composition, part 13: the extended composed server model (Model/ServerWT.v: handle_message_wt).
   Every response whose TSIG record is UNSIGNED (BADKEY, BADSIG, FORMERR for a MAC of a forbidden size) is
   produced in octets, never a Panic; those octets respect the limit, are a well-formed response, and end with
   the TSIG record RFC 8945 prescribes.  Everything else is Model/ServerW.v's handle_message_w.
   The signing modes (BADTIME, verified) are modelled (and run), not proved: the theorems here assume a
   verifier that never accepts a MAC ([unverified]). *)
From QV Require Import Base.ListX Gen.Consts Model.NameWire Spec.NameWireS Spec.NameRepr Spec.ReaderS Model.Reader Model.RdataLite
  Model.Server Model.ServerW Model.ServerWT Proofs.ReaderP Proofs.ServerP Proofs.ServerLimitP Proofs.ServerTsigP
  Model.MsgWriter Model.ZoneTree Model.Query Model.QueryW
  Spec.MsgWriterS Spec.RdataFormatS Spec.RespS Spec.TsigRespS
  Proofs.MsgWriterNameP Proofs.RdNameP Proofs.QueryNameP Proofs.ComposeTraceP Proofs.ComposeTopP Proofs.ComposeSerP Proofs.ComposeSrvP
  Proofs.ComposeTsigP Proofs.ComposeTsigWfP.
Local Open Scope nat_scope.

(* the verifier never says "the MAC is right" (neither verified nor BADTIME) *)
Definition unverified (verify : tsig_verifier) : Prop :=
  forall rd o m a s n, verify rd o m a s n <> Server.VOk /\ verify rd o m a s n <> Server.VBadTime.

Lemma unverified_unsigned verify t : unverified verify -> tsig_src verify t -> exists aw, t_mode t = TUnsigned aw.
Proof.
  intros U (_ & _ & _ & M). destruct (t_mode t) as [aw|a sec mac]; [eauto|].
  destruct M as ((rd & o & m & a' & s & n & [E|E]) & _); destruct (U rd o m a' s n) as [U1 U2]; contradiction.
Qed.

Section TopT.
Variable hmac : TsigMsg.alg -> bytes -> bytes -> bytes.
Variable verify : tsig_verifier.
Variable cfg : config.
Variable buf : bytes.
Hypothesis Hcfg : wf_cfg cfg.
Hypothesis Hbuf : length buf = c_buflen cfg.
Hypothesis Hnow : (c_now cfg < 281474976710656)%N.

Lemma qname_len req w q : wf_bytes req -> early_or_clean cfg req w -> Server.w_question w = Some q ->
  length (nm_wire (labels_of (Reader.q_name q))) = length (n_wire (Reader.q_name q)).
Proof.
  intros Hwf (H12 & _ & _ & QE & _) Hq. unfold question_echo in QE. rewrite Hq in QE.
  destruct QE as [QE|(_ & r1 & q' & RQ & QE)]; [discriminate|]. inversion QE; subst q'.
  pose proof (read_question_facts (r0_of req) (r0_inv req Hwf H12)) as (_ & _ & _ & Fq).
  rewrite RQ in Fq. cbn [fst snd] in Fq. destruct (Fq q eq_refl) as (ls & Dq & Nm & _).
  assert (Hv : Forall RdataFormatS.valid_label ls).
  { inversion Dq as [ls' l qt qc DN _ _]; subst. destruct DN as (e & De & _). eapply RdNameP.decodes_labels_valid; eauto. }
  rewrite Nm. rewrite (QueryNameP.labels_of_name_of ls Hv). reflexivity.
Qed.

Definition edns_flag (w : resp) : bool := match Server.w_edns w with Some _ => true | None => false end.

(* the response [w'] (the pre-scan's [w], possibly with another RCODE) carries unsigned TSIG settings *)
Theorem abs_wt_unsigned req w w' t aw : wf_bytes req -> early_or_clean cfg req w ->
  Server.w_question w' = Server.w_question w -> tsig_post verify w' -> lim_ok cfg req w' ->
  Server.w_tsig w' = Some t -> t_mode t = TUnsigned aw ->
  exists len b f,
    abs_wt hmac cfg buf w' = Ok (ROctets len b) /\ len <= Server.w_limit w' /\
    wf_response (firstn len b) = true /\
    tsig_fields_of (c_now cfg) t = Some f /\
    unsigned_tsig_response (firstn len b) (edns_flag w') (tf_key f) (nm_lower (tf_alg f)) (tf_time f) TSIG_FUDGE
      (tf_origid f) (tf_error f) [].
Proof.
  intros Hwf Hec Eq (Pc & Pt) (Lb & Ll) Et Em. rewrite Et in Pt. destruct Pt as (Pfit & Psrc & _).
  pose proof (buf_512 cfg buf Hcfg Hbuf) as Hb512.
  pose proof (abs_question cfg buf Hcfg Hbuf req w w' Hwf Hec Eq) as Hq.
  destruct (tsig_fields_total verify (c_now cfg) t Hnow Psrc) as (f & Ef & Hf).
  set (tcp := is_tcp (c_transport cfg)).
  pose proof Hcfg as (H512 & H64k & Hbl).
  (* the limit the Writer ends up with is the server model's *)
  assert (HL0 : first_limit tcp buf = ServerLimitP.L0 cfg).
  { unfold first_limit, ServerLimitP.L0, tcp, is_tcp. rewrite Hbuf. destruct (c_transport cfg); reflexivity. }
  assert (HL0ge : 512 <= ServerLimitP.L0 cfg).
  { unfold ServerLimitP.L0, tcp_limit, udp_limit in *. destruct (c_transport cfg); lia. }
  assert (Hlims : (Server.w_edns w' <> None -> tcp = false -> first_limit tcp buf <= Server.w_limit w') /\
                  wlim buf w' tcp = Server.w_limit w').
  { unfold wlim. rewrite HL0. destruct Ll as [Ll|(Tr & Ed & their & _ & Ll)].
    - split; [intros _ _; lia|]. rewrite Ll. destruct (Server.w_edns w'); [|reflexivity]. destruct tcp; [reflexivity|].
      unfold ServerLimitP.L0. rewrite Hbuf. lia.
    - assert (Hn : 512 <= negotiated cfg their /\ negotiated cfg their <= c_buflen cfg).
      { unfold negotiated. rewrite Tr in Hbl. lia. }
      assert (HU : ServerLimitP.L0 cfg = 512).
      { unfold ServerLimitP.L0. rewrite Tr. unfold udp_limit. rewrite Tr in Hbl. change (N.to_nat 512) with 512. lia. }
      assert (Ht : tcp = false) by (unfold tcp, is_tcp; rewrite Tr; reflexivity).
      split; [intros _ _; lia|]. destruct (Server.w_edns w'); [|exfalso; apply Ed; reflexivity].
      rewrite Ht, Hbuf. lia. }
  destruct Hlims as [Hlim Hwl].
  (* the numbers *)
  assert (Hcur : wcur w' = Server.w_cursor w').
  { rewrite Pc. unfold wcur, qcur. destruct (Server.w_question w') as [q|] eqn:Eqq; [|reflexivity].
    assert (Hqw : Server.w_question w = Some q) by congruence. rewrite (qname_len req w q Hwf Hec Hqw). lia. }
  assert (Hres : wres w' = reserved w') by reflexivity.
  destruct Psrc as (_ & _ & _ & M). rewrite Em in M. destruct M as (_ & Mres & Mnb).
  assert (Hnb : tf_error f <> 18%N) by (rewrite (fo_err _ _ Hf); exact Mnb).
  assert (Hfit : wcur w' + (length (nm_wire (tf_key f)) + length (nm_wire (tf_alg f)) + 26) + wres w' <= wlim buf w' tcp).
  { rewrite (fo_klen _ _ Hf), (fo_alen _ _ Hf), Em, Hcur, Hres, Hwl. cbn [mode_alg_wire]. lia. }
  destruct (ser_tsig_unsigned_wf buf Hb512 w' Hq tcp t f Hf Hnb Hlim Hfit) as (w1 & w2 & len & b & E1 & E2 & EF & Hlen & Hwfr & Hts).
  exists len, b, f. split.
  - unfold abs_wt. rewrite Et. unfold ser_tsig. fold tcp. rewrite E1, Ef, Em, E2, EF. reflexivity.
  - split; [lia|]. split; [exact Hwfr|]. split; [exact Ef|exact Hts].
Qed.

End TopT.

(* ---------------------------------------------------------------- the server level *)
Section SrvT.
Variable hmac : TsigMsg.alg -> bytes -> bytes -> bytes.
Variable zones : nat -> option zone.
Variable negttl : N -> N -> N.
Variable answer : answer_fn.
Variable verify : tsig_verifier.
Variable cfg : config.
Variable buf : bytes.
Hypothesis Hcfg : wf_cfg cfg.
Hypothesis Hbuf : length buf = c_buflen cfg.
Hypothesis Hnow : (c_now cfg < 281474976710656)%N.
Hypothesis Hunv : unverified verify.

(* under [unverified] a clean request never carries TSIG settings *)
Lemma clean_no_tsig req opc w : wf_bytes req -> prescan verify cfg req = Ok (PClean opc w) -> Server.w_tsig w = None.
Proof.
  intros Hwf E. pose proof (prescan_tsig verify cfg req _ Hcfg Hwf E) as (_ & SB).
  destruct (Server.w_tsig w) as [t|] eqn:Et; [|reflexivity]. exfalso.
  destruct (SB ltac:(discriminate)) as (rd & o & m & a & s & n & [X|X]); destruct (Hunv rd o m a s n); contradiction.
Qed.

(* what the extended model does with an abstract response [w'] derived from the pre-scan's [w] *)
Lemma abs_wt_cases req w w' : wf_bytes req -> early_or_clean cfg req w -> Server.w_question w' = Server.w_question w ->
  tsig_post verify w' -> lim_ok cfg req w' ->
  match Server.w_tsig w' with
  | None => abs_wt hmac cfg buf w' = abs_w cfg buf w'
  | Some t =>
    exists len b f,
      abs_wt hmac cfg buf w' = Ok (ROctets len b) /\ len <= Server.w_limit w' /\ wf_response (firstn len b) = true /\
      tsig_fields_of (c_now cfg) t = Some f /\
      unsigned_tsig_response (firstn len b) (edns_flag w') (tf_key f) (nm_lower (tf_alg f)) (tf_time f) TSIG_FUDGE
        (tf_origid f) (tf_error f) []
  end.
Proof.
  intros Hwf Hec Eq P L. destruct (Server.w_tsig w') as [t|] eqn:Et.
  - pose proof P as (_ & Pt). rewrite Et in Pt. destruct Pt as (_ & Psrc & _).
    destruct (unverified_unsigned verify t Hunv Psrc) as (aw & Em).
    exact (abs_wt_unsigned hmac verify cfg buf Hcfg Hbuf Hnow req w w' t aw Hwf Hec Eq P L Et Em).
  - unfold abs_wt. rewrite Et. reflexivity.
Qed.

Theorem handle_message_wt_total Q req : catalog_okQ Q cfg zones -> wf_bytes req ->
  exists x, handle_message_wt hmac zones negttl answer verify cfg buf req = Ok x.
Proof.
  intros Hcat Hwf. destruct (prescan_facts verify cfg req Hcfg Hwf) as (p & Ep & Post).
  pose proof (prescan_tsig verify cfg req p Hcfg Hwf Ep) as PT. pose proof (prescan_lim verify cfg req p Ep) as PL.
  destruct (handle_message_w_total zones negttl answer verify cfg buf Hcfg Hbuf Q Hcat req Hwf) as (x0 & E0).
  unfold handle_message_wt. unfold handle_message_w in E0. rewrite Ep in *. cbn [bind] in *.
  assert (HA : forall w w', early_or_clean cfg req w -> Server.w_question w' = Server.w_question w ->
            tsig_post verify w' -> lim_ok cfg req w' -> exists x, (let* r := abs_wt hmac cfg buf w' in Ok (Some r)) = Ok x).
  { intros w w' Hec Eq P L. pose proof (abs_wt_cases req w w' Hwf Hec Eq P L) as C.
    destruct (Server.w_tsig w') as [t|].
    - destruct C as (len & b & f & -> & _). eexists; reflexivity.
    - rewrite C. destruct (abs_total cfg buf Hcfg Hbuf req w w' Hwf Hec Eq) as (x & ->). eexists; reflexivity. }
  destruct p as [|w|opc w]; [eexists; reflexivity| |].
  - apply (HA w w Post eq_refl PT PL).
  - destruct Post as [Hec _]. destruct PT as [PT _].
    destruct (opc =? OPCODE_QUERY)%N eqn:Eo.
    + unfold handle_query_wt. rewrite (clean_no_tsig req opc w Hwf Ep). exists x0. exact E0.
    + apply (HA w (Server.set_rcode w RC_NOTIMP) Hec eq_refl); [apply post_set_rcode; exact PT|apply lim_set_rcode; exact PL].
Qed.

(* C02 / C04 for the octets of the extended model *)
Theorem handle_message_wt_wf req len b : catalog_valid cfg zones -> wf_bytes req ->
  handle_message_wt hmac zones negttl answer verify cfg buf req = Ok (Some (ROctets len b)) ->
  wf_response (firstn len b) = true.
Proof.
  intros Hcat Hwf. destruct (prescan_facts verify cfg req Hcfg Hwf) as (p & Ep & Post).
  pose proof (prescan_tsig verify cfg req p Hcfg Hwf Ep) as PT. pose proof (prescan_lim verify cfg req p Ep) as PL.
  pose proof (handle_message_w_wf zones negttl answer verify cfg buf req len b Hcfg Hbuf Hcat Hwf) as W0.
  unfold handle_message_wt. unfold handle_message_w in W0. rewrite Ep in *. cbn [bind] in *.
  assert (HA : forall w w', early_or_clean cfg req w -> Server.w_question w' = Server.w_question w ->
            tsig_post verify w' -> lim_ok cfg req w' ->
            (let* r := abs_wt hmac cfg buf w' in Ok (Some r)) = Ok (Some (ROctets len b)) -> wf_response (firstn len b) = true).
  { intros w w' Hec Eq P L. pose proof (abs_wt_cases req w w' Hwf Hec Eq P L) as C.
    destruct (Server.w_tsig w') as [t|].
    - destruct C as (len' & b' & f & -> & _ & Hw & _). cbn [bind]. intros H; inversion H; subst. exact Hw.
    - rewrite C. destruct (abs_w cfg buf w') as [x|e|] eqn:Ea; cbn [bind]; try discriminate.
      intros H; inversion H; subst x. exact (abs_wf cfg buf Hcfg Hbuf req w w' len b Hwf Hec Eq Ea). }
  destruct p as [|w|opc w]; [discriminate| |].
  - apply (HA w w Post eq_refl PT PL).
  - destruct Post as [Hec _]. destruct PT as [PT _].
    destruct (opc =? OPCODE_QUERY)%N eqn:Eo.
    + unfold handle_query_wt. rewrite (clean_no_tsig req opc w Hwf Ep). exact W0.
    + apply (HA w (Server.set_rcode w RC_NOTIMP) Hec eq_refl); [apply post_set_rcode; exact PT|apply lim_set_rcode; exact PL].
Qed.

(* the TSIG-bearing responses: whenever the response of the abstract server model (Model/Server.v) carries TSIG
   settings, the extended composed model produces it in octets, within the limit, well formed, and ending with
   the RFC 8945 record for those settings *)
Theorem tsig_response_octets req wa t : wf_bytes req ->
  Server.handle_message answer verify cfg req = Ok (Some wa) -> Server.w_tsig wa = Some t ->
  exists len b f,
    handle_message_wt hmac zones negttl answer verify cfg buf req = Ok (Some (ROctets len b)) /\
    len <= Server.w_limit wa /\ lim_ok cfg req wa /\ wf_response (firstn len b) = true /\
    tsig_fields_of (c_now cfg) t = Some f /\ tf_error f = Server.t_error t /\
    unsigned_tsig_response (firstn len b) (edns_flag wa) (tf_key f) (nm_lower (tf_alg f)) (tf_time f) TSIG_FUDGE
      (tf_origid f) (tf_error f) [].
Proof.
  intros Hwf HA Et. pose proof (handle_message_limit answer verify cfg req wa HA) as PLa.
  destruct (prescan_facts verify cfg req Hcfg Hwf) as (p & Ep & Post).
  pose proof (prescan_tsig verify cfg req p Hcfg Hwf Ep) as PT. pose proof (prescan_lim verify cfg req p Ep) as PL.
  unfold Server.handle_message in HA. unfold handle_message_wt. rewrite Ep in *. cbn [bind] in *.
  destruct p as [|w|opc w]; [discriminate| |].
  - inversion HA; subst wa. pose proof (abs_wt_cases req w w Hwf Post eq_refl PT PL) as C. rewrite Et in C.
    destruct C as (len & b & f & E & Hl & Hw & Ef & Hu). exists len, b, f. rewrite E. cbn [bind].
    split; [reflexivity|]. split; [exact Hl|]. split; [exact PL|]. split; [exact Hw|]. split; [exact Ef|]. split; [|exact Hu].
    unfold tsig_fields_of in Ef. destruct (TsigMsg.time_signed_of_unix _); [|discriminate]. destruct (req_origid _); [|discriminate].
    destruct (if (Server.t_error t =? XRC_BADTIME)%N then _ else _); [|discriminate]. inversion Ef. reflexivity.
  - exfalso. pose proof (clean_no_tsig req opc w Hwf Ep) as Hn.
    destruct (opc =? OPCODE_QUERY)%N; inversion HA; subst wa.
    + unfold handle_query in Et. destruct (Server.w_question w) as [q|]; [|cbn in Et; congruence].
      destruct (existsb _ _); [cbn in Et; congruence|]. destruct (_ =? _)%N; [cbn in Et; congruence|].
      destruct (cat_lookup _ _ _ _) as [e|]; [|cbn in Et; congruence].
      destruct (e_kind e); try (cbn in Et; congruence).
      unfold apply_body in Et. destruct (b_rcode _); cbn in Et; congruence.
    + cbn in Et. congruence.
Qed.

End SrvT.
