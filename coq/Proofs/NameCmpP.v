(* Equality, hashing, ordering and subdomain tests of the model against the list-level specification. *)
From QV Require Import Base.ListX Model.NameWire Model.NameText Spec.NameWireS Spec.NameRepr Spec.NameTextS
  Proofs.NameWireP Proofs.NameLabelsP.

(* ---- lex_cmp is a total order when the element comparison is ---------------------------------- *)

Section Lex.
  Context {A : Type} (cmp : A -> A -> comparison).
  Hypothesis cmp_eq : forall x y, cmp x y = Eq <-> x = y.
  Hypothesis cmp_opp : forall x y, cmp y x = CompOpp (cmp x y).
  Hypothesis cmp_trans : forall x y z, cmp x y = Lt -> cmp y z = Lt -> cmp x z = Lt.

  Lemma lex_cmp_eq a : forall b, lex_cmp cmp a b = Eq <-> a = b.
  Proof.
    induction a as [|x a IH]; intros [|y b]; cbn; try (split; [discriminate|congruence]).
    - tauto.
    - destruct (cmp x y) eqn:E.
      + apply cmp_eq in E. subst y. rewrite IH. split; [congruence|intros H; inversion H; reflexivity].
      + split; [discriminate|]. intros H. inversion H; subst. assert (cmp y y = Eq) by (apply cmp_eq; reflexivity). congruence.
      + split; [discriminate|]. intros H. inversion H; subst. assert (cmp y y = Eq) by (apply cmp_eq; reflexivity). congruence.
  Qed.

  Lemma lex_cmp_opp a : forall b, lex_cmp cmp b a = CompOpp (lex_cmp cmp a b).
  Proof.
    induction a as [|x a IH]; intros [|y b]; cbn; try reflexivity.
    rewrite (cmp_opp x y). destruct (cmp x y); cbn; auto.
  Qed.

  Lemma lex_cmp_trans a : forall b c, lex_cmp cmp a b = Lt -> lex_cmp cmp b c = Lt -> lex_cmp cmp a c = Lt.
  Proof.
    induction a as [|x a IH]; intros [|y b] [|z c]; cbn; try discriminate; auto.
    destruct (cmp x y) eqn:E1; try discriminate; destruct (cmp y z) eqn:E2; try discriminate.
    - apply cmp_eq in E1, E2. subst. assert (H : cmp z z = Eq) by (apply cmp_eq; reflexivity). rewrite H. apply IH.
    - apply cmp_eq in E1. subst. rewrite E2. reflexivity.
    - apply cmp_eq in E2. subst. rewrite E1. reflexivity.
    - rewrite (cmp_trans _ _ _ E1 E2). reflexivity.
  Qed.
End Lex.

Lemma lex_cmp_map {A B} (f : A -> B) (cmp : B -> B -> comparison) a :
  forall b, lex_cmp cmp (map f a) (map f b) = lex_cmp (fun u v => cmp (f u) (f v)) a b.
Proof. induction a as [|x a IH]; intros [|y b]; cbn; try reflexivity. rewrite IH. reflexivity. Qed.

Lemma lex_cmp_ext {A} (c1 c2 : A -> A -> comparison) : (forall x y, c1 x y = c2 x y) ->
  forall a b, lex_cmp c1 a b = lex_cmp c2 a b.
Proof. intros H. induction a as [|x a IH]; intros [|y b]; cbn; try reflexivity. rewrite H, IH. reflexivity. Qed.

Lemma N_compare_opp x y : N.compare y x = CompOpp (N.compare x y).
Proof. apply N.compare_antisym. Qed.
Lemma N_compare_trans x y z : N.compare x y = Lt -> N.compare y z = Lt -> N.compare x z = Lt.
Proof. rewrite !N.compare_lt_iff. lia. Qed.

Definition octets_cmp := lex_cmp N.compare.
Lemma octets_cmp_eq a b : octets_cmp a b = Eq <-> a = b.
Proof. apply lex_cmp_eq. apply N.compare_eq_iff. Qed.
Lemma octets_cmp_opp a b : octets_cmp b a = CompOpp (octets_cmp a b).
Proof. apply lex_cmp_opp. apply N_compare_opp. Qed.
Lemma octets_cmp_trans a b c : octets_cmp a b = Lt -> octets_cmp b c = Lt -> octets_cmp a c = Lt.
Proof. apply lex_cmp_trans; [apply N.compare_eq_iff|apply N_compare_trans]. Qed.

Lemma rev_inj {A} (a b : list A) : rev a = rev b -> a = b.
Proof. intros H. rewrite <- (rev_involutive a), H. apply rev_involutive. Qed.

(* the canonical order is a total order on names modulo ASCII case *)
Theorem spec_cmp_eq a b : spec_cmp a b = Eq <-> lower_name a = lower_name b.
Proof.
  unfold spec_cmp. rewrite (lex_cmp_eq _ octets_cmp_eq). split; [apply rev_inj|congruence].
Qed.
Theorem spec_cmp_opp a b : spec_cmp b a = CompOpp (spec_cmp a b).
Proof. unfold spec_cmp. apply (lex_cmp_opp _ octets_cmp_opp). Qed.
Theorem spec_cmp_trans a b c : spec_cmp a b = Lt -> spec_cmp b c = Lt -> spec_cmp a c = Lt.
Proof. unfold spec_cmp. apply (lex_cmp_trans _ octets_cmp_eq octets_cmp_trans). Qed.

(* ---- the iterator pipelines are lex_cmp --------------------------------------------------------- *)

Lemma label_cmp_lex l : forall m, label_cmp l m = lex_cmp N.compare (map lower l) (map lower m).
Proof.
  unfold label_cmp. induction l as [|x l IH]; intros [|y m]; cbn; try reflexivity.
  destruct (N.compare (lower x) (lower y)); try reflexivity. apply IH.
Qed.

Lemma labels_find_cmp_lex a : forall b,
  match labels_find_cmp a b with Some c => c | None => Nat.compare (length a) (length b) end = lex_cmp label_cmp a b.
Proof.
  induction a as [|x a IH]; intros [|y b]; cbn; try reflexivity.
  destruct (label_cmp x y); try reflexivity. apply IH.
Qed.

Lemma label_cmp_nil : label_cmp [] [] = Eq.
Proof. reflexivity. Qed.

Lemma lower_name_all ls : map (map lower) (all_labels ls) = all_labels (lower_name ls).
Proof. unfold all_labels, lower_name. rewrite map_app. reflexivity. Qed.

Theorem name_cmp_spec a b : wire_len a <= 255 -> wire_len b <= 255 ->
  name_cmp (name_of a) (name_of b) = Ok (spec_cmp a b).
Proof.
  intros Ha Hb. unfold name_cmp. rewrite (labels_name_of a Ha), (labels_name_of b Hb). cbn [bind].
  f_equal. rewrite !name_len_name_of. unfold all_labels. rewrite !rev_app_distr. cbn [rev app labels_find_cmp].
  rewrite label_cmp_nil. change (Nat.compare (S (length a)) (S (length b))) with (Nat.compare (length a) (length b)).
  rewrite <- (rev_length a), <- (rev_length b), labels_find_cmp_lex.
  unfold spec_cmp, lower_name. rewrite <- !map_rev, lex_cmp_map.
  apply lex_cmp_ext. apply label_cmp_lex.
Qed.

(* ---- equality ---------------------------------------------------------------------------------------- *)

Lemma label_eq_lower x y : label_eq x y = true <-> map lower x = map lower y.
Proof. apply eq_nocase_lower. Qed.

Lemma len_zip_all_eq (la lb : list label) :
  (length la =? length lb) && zip_all label_eq la lb = true <-> map (map lower) la = map (map lower) lb.
Proof.
  rewrite andb_true_iff, Nat.eqb_eq. split.
  - intros [Hl Hz]. apply Forall2_map_eq. apply (zip_all_same_length label_eq _ label_eq_lower la lb Hl). exact Hz.
  - intros H. assert (Hl : length la = length lb).
    { pose proof (f_equal (@length _) H) as Hl. rewrite !map_length in Hl. exact Hl. }
    split; [exact Hl|]. apply (zip_all_same_length label_eq _ label_eq_lower la lb Hl). apply Forall2_map_eq. exact H.
Qed.

Theorem name_eq_spec a b : wire_len a <= 255 -> wire_len b <= 255 ->
  exists r, name_eq (name_of a) (name_of b) = Ok r /\ (r = true <-> lower_name a = lower_name b).
Proof.
  intros Ha Hb. unfold name_eq. rewrite (labels_name_of a Ha), (labels_name_of b Hb). cbn [bind].
  eexists. split; [reflexivity|]. rewrite !name_len_name_of.
  replace (S (length a)) with (length (all_labels a)) by (unfold all_labels; rewrite app_length; cbn; lia).
  replace (S (length b)) with (length (all_labels b)) by (unfold all_labels; rewrite app_length; cbn; lia).
  rewrite len_zip_all_eq, !lower_name_all. unfold all_labels. split.
  - apply app_inv_tail.
  - congruence.
Qed.

(* equality and the order agree *)
Theorem name_cmp_eq_consistent a b : wire_len a <= 255 -> wire_len b <= 255 ->
  (name_cmp (name_of a) (name_of b) = Ok Eq <-> name_eq (name_of a) (name_of b) = Ok true).
Proof.
  intros Ha Hb. rewrite (name_cmp_spec a b Ha Hb).
  destruct (name_eq_spec a b Ha Hb) as (r & Hr & Hiff). rewrite Hr. split.
  - intros H. inversion H as [H1]. apply spec_cmp_eq in H1. apply Hiff in H1. congruence.
  - intros H. inversion H; subst. f_equal. apply spec_cmp_eq. apply Hiff. reflexivity.
Qed.

(* ---- hashing ------------------------------------------------------------------------------------------- *)

Definition lower_stream (l : label) : bytes := (N.of_nat (length l) mod 256)%N :: l.

Lemma label_hash_stream_lower l : label_hash_stream l = lower_stream (map lower l).
Proof. unfold label_hash_stream, lower_stream. rewrite map_length. reflexivity. Qed.

Lemma hash_stream_lower ls : flat_map label_hash_stream ls = flat_map lower_stream (map (map lower) ls).
Proof.
  induction ls as [|l r IH]; [reflexivity|]. cbn [flat_map map]. rewrite IH, label_hash_stream_lower. reflexivity.
Qed.

Theorem name_hash_spec a : wire_len a <= 255 ->
  name_hash_stream (name_of a) = Ok (flat_map lower_stream (all_labels (lower_name a))).
Proof.
  intros Ha. unfold name_hash_stream. rewrite (labels_name_of a Ha). cbn [bind].
  rewrite hash_stream_lower, lower_name_all. reflexivity.
Qed.

(* equal names feed the same octets to the Hasher *)
Theorem name_hash_eq a b : wire_len a <= 255 -> wire_len b <= 255 -> lower_name a = lower_name b ->
  name_hash_stream (name_of a) = name_hash_stream (name_of b).
Proof. intros Ha Hb H. rewrite (name_hash_spec a Ha), (name_hash_spec b Hb), H. reflexivity. Qed.

(* ... and different names different octets: the stream determines the lower-cased labels *)
Lemma app_inv_length {A} (a b c d : list A) : length a = length c -> a ++ b = c ++ d -> a = c /\ b = d.
Proof.
  revert c. induction a as [|x a IH]; intros [|y c] Hl H; try discriminate; cbn in *; [auto|].
  injection Hl as Hl. injection H as -> H. destruct (IH c Hl H) as [-> ->]. auto.
Qed.

Lemma lower_stream_inj la : forall lb,
  Forall (fun l => length l < 256) la -> Forall (fun l => length l < 256) lb ->
  flat_map lower_stream la = flat_map lower_stream lb -> la = lb.
Proof.
  induction la as [|x la IH]; intros [|y lb] Ha Hb H; try discriminate; [reflexivity|].
  cbn [flat_map] in H. unfold lower_stream at 1 3 in H. cbn [app] in H.
  inversion Ha as [|? ? Hx Ha']; inversion Hb as [|? ? Hy Hb']; subst.
  injection H as Hlen H.
  rewrite !N.mod_small in Hlen by lia. apply Nat2N.inj in Hlen.
  destruct (app_inv_length _ _ _ _ Hlen H) as [-> H']. f_equal. apply IH; assumption.
Qed.

Lemma lower_name_lengths ls : Forall (fun l => length l <= 63) ls ->
  Forall (fun l : label => length l < 256) (all_labels (lower_name ls)).
Proof.
  intros H. unfold all_labels, lower_name. apply Forall_app. split.
  - rewrite Forall_forall in *. intros l Hl. apply in_map_iff in Hl. destruct Hl as (l0 & <- & Hin).
    rewrite map_length. specialize (H _ Hin). lia.
  - constructor; [cbn; lia|constructor].
Qed.

Theorem name_hash_inj a b : wire_len a <= 255 -> wire_len b <= 255 ->
  Forall (fun l => length l <= 63) a -> Forall (fun l => length l <= 63) b ->
  name_hash_stream (name_of a) = name_hash_stream (name_of b) -> lower_name a = lower_name b.
Proof.
  intros Ha Hb La Lb. rewrite (name_hash_spec a Ha), (name_hash_spec b Hb). intros H. inversion H as [H1].
  apply lower_stream_inj in H1; [|apply lower_name_lengths; assumption|apply lower_name_lengths; assumption].
  unfold all_labels in H1. apply app_inv_tail in H1. exact H1.
Qed.

(* ---- eq_or_subdomain_of ----------------------------------------------------------------------------------- *)

Lemma zip_all_prefix (y : list (list N)) : forall x : list (list N), length y <= length x ->
  (zip_all label_eq x y = true <-> map (map lower) (firstn (length y) x) = map (map lower) y).
Proof.
  induction y as [|b y IH]; intros [|a x] Hl; cbn in *; try lia; try tauto.
  rewrite andb_true_iff, label_eq_lower, (IH x) by lia. split.
  - intros [-> ->]. reflexivity.
  - intros H. inversion H. auto.
Qed.

Lemma suffix_firstn_rev {A} (la lb : list A) : length lb <= length la ->
  (firstn (length lb) (rev la) = rev lb <-> exists pre, la = pre ++ lb).
Proof.
  intros Hl. split.
  - intros H. exists (rev (skipn (length lb) (rev la))).
    transitivity (rev (firstn (length lb) (rev la) ++ skipn (length lb) (rev la))).
    { rewrite firstn_skipn. symmetry. apply rev_involutive. }
    rewrite rev_app_distr, H, rev_involutive. reflexivity.
  - intros [pre ->]. rewrite rev_app_distr. rewrite <- (rev_length lb).
    rewrite firstn_app, Nat.sub_diag, firstn_all. cbn. apply app_nil_r.
Qed.

Lemma sub_core (a b : list (list N)) : length b <= length a ->
  (zip_all label_eq (rev a) (rev b) = true <-> exists pre, map (map lower) a = pre ++ map (map lower) b).
Proof.
  intros Hl.
  assert (Ea : length (rev a) = length a) by apply rev_length.
  assert (Eb : length (rev b) = length b) by apply rev_length.
  assert (Hl' : length (rev b) <= length (rev a)) by lia.
  rewrite (zip_all_prefix (rev b) (rev a) Hl').
  rewrite <- firstn_map, !map_rev, Eb.
  assert (Em : length (map (map lower) b) = length b) by apply map_length.
  rewrite <- Em. apply suffix_firstn_rev. rewrite !map_length. exact Hl.
Qed.

Theorem eq_or_subdomain_spec a b : wire_len a <= 255 -> wire_len b <= 255 ->
  exists r, eq_or_subdomain_of (name_of a) (name_of b) = Ok r /\ (r = true <-> spec_subdomain a b).
Proof.
  intros Ha Hb. unfold eq_or_subdomain_of. rewrite (labels_name_of a Ha), (labels_name_of b Hb). cbn [bind].
  eexists. split; [reflexivity|]. rewrite !name_len_name_of. unfold all_labels. rewrite !rev_app_distr.
  cbn [rev app zip_all]. change (label_eq [] []) with true. cbn [andb].
  change (S (length b) <=? S (length a)) with (length b <=? length a).
  unfold spec_subdomain, lower_name. rewrite andb_true_iff, Nat.leb_le. split.
  - intros [Hl Hz]. apply (sub_core a b Hl). exact Hz.
  - intros [pre Hpre].
    assert (Hl : length b <= length a).
    { pose proof (f_equal (@length _) Hpre) as E. rewrite app_length, !map_length in E. unfold label, bytes in *. lia. }
    split; [exact Hl|]. apply (sub_core a b Hl). exists pre. exact Hpre.
Qed.

(* ---- label access, is_root, is_wildcard ---------------------------------------------------------------------- *)

Theorem label_index_spec ls i : wire_len ls <= 255 ->
  label_at (name_of ls) i = match spec_label ls i with Some l => Ok l | None => Panic end.
Proof.
  intros Hlen. unfold spec_label. fold (all_labels ls).
  destruct (nth_error (all_labels ls) i) as [l|] eqn:E.
  - destruct (nth_error_split _ _ E) as (pre & post & Heq & Hl). subst i. apply (label_at_all ls pre l post Heq Hlen).
  - apply nth_error_None in E. unfold label_at, name_of. cbn [n_offsets].
    rewrite offs_of_all.
    assert (H : nth_error (offs_all 0 (all_labels ls)) i = None) by (apply nth_error_None; rewrite offs_all_length; exact E).
    rewrite H. reflexivity.
Qed.

Theorem is_root_spec ls : is_root (name_of ls) = match ls with [] => true | _ => false end.
Proof. unfold is_root. rewrite name_len_name_of. destruct ls; reflexivity. Qed.
