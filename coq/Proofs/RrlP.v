(* Lemmas about Model/Rrl.v for C26 (token-bucket refinement) — also used by C27/C28. *)
From QV Require Import Base.Res Base.Octets Model.Rrl Spec.RrlBucketS.
Local Open Scope N_scope.

(* ---- well-formed parameters and tables ------------------------------------------- *)

Definition limit_of (p : params) (cat : category) : N := rate_of p cat * p_window p.

Definition wf_params (p : params) : Prop :=
  (forall cat, 1 <= rate_of p cat /\ limit_of p cat <= u32_max) /\ 1 <= p_window p /\ 1 <= p_size p.

Definition wf_table (p : params) (t : table) : Prop :=
  1 <= t_len t /\ forall i, e_count (t_get t i) <= limit_of p (k_category (e_key (t_get t i))).

Lemma checked_mul32_some a b : is_none (checked_mul32 a b) = false -> a * b <= u32_max.
Proof.
  unfold checked_mul32. destruct (a * b <=? u32_max) eqn:E; simpl; intros H; [|discriminate].
  apply N.leb_le. exact E.
Qed.

Lemma params_new_wf ne nx er w p : params_new ne nx er w = Ok p -> wf_params p.
Proof.
  unfold params_new.
  destruct (ne =? 0) eqn:E1; [discriminate|].
  destruct (nx =? 0) eqn:E2; [discriminate|].
  destruct (er =? 0) eqn:E3; [discriminate|].
  destruct (w =? 0) eqn:E4; [discriminate|].
  destruct (is_none (checked_mul32 ne w) || is_none (checked_mul32 nx w) || is_none (checked_mul32 er w)) eqn:E5;
    [discriminate|].
  intros H. inversion H; subst p; clear H.
  apply orb_false_iff in E5. destruct E5 as [E5 E7]. apply orb_false_iff in E5. destruct E5 as [E5 E6].
  apply checked_mul32_some in E5, E6, E7.
  apply N.eqb_neq in E1, E2, E3, E4.
  unfold wf_params, limit_of. simpl. split; [|split].
  - intros cat. destruct cat; simpl; split; try assumption; lia.
  - lia.
  - change RRL_DEFAULT_SIZE with 65537. lia.
Qed.

Lemma wf_params_set_slip p s : wf_params p -> wf_params (set_slip p s).
Proof. intros H. exact H. Qed.

Lemma wf_params_with_ipv4 p m : wf_params p -> wf_params (with_ipv4_netmask p m).
Proof. intros H. exact H. Qed.

Lemma wf_params_with_ipv6 p m : wf_params p -> wf_params (with_ipv6_netmask p m).
Proof. intros H. exact H. Qed.

Lemma set_ipv4_prefix_len_wf p l p' : wf_params p -> set_ipv4_prefix_len p l = Ok p' -> wf_params p'.
Proof.
  unfold set_ipv4_prefix_len. intros W.
  destruct (RRL_IPV4_MAX_PREFIX <? l); [discriminate|].
  destruct (l =? 0); [intros H; inversion H; exact W|].
  destruct (max_shl 32 RRL_IPV4_SHIFT_BASE l); [|discriminate].
  intros H; inversion H; exact W.
Qed.

Lemma set_ipv6_prefix_len_wf p l p' : wf_params p -> set_ipv6_prefix_len p l = Ok p' -> wf_params p'.
Proof.
  unfold set_ipv6_prefix_len. intros W.
  destruct (RRL_IPV6_MAX_PREFIX <? l); [discriminate|].
  destruct (l =? 0); [intros H; inversion H; exact W|].
  destruct (max_shl 64 RRL_IPV6_SHIFT_BASE l); [|discriminate].
  intros H; inversion H; exact W.
Qed.

Lemma set_size_wf p s p' : wf_params p -> set_size p s = Ok p' -> wf_params p'.
Proof.
  unfold set_size. intros (W1 & W2 & W3).
  destruct (s =? 0) eqn:E; [discriminate|]. intros H; inversion H; subst p'.
  apply N.eqb_neq in E. split; [exact W1|split; [exact W2|]]. simpl. lia.
Qed.

Lemma params_wf_all ne nx er w p : params_new ne nx er w = Ok p ->
  wf_params p /\
  (forall s, wf_params (set_slip p s)) /\
  (forall l p', set_ipv4_prefix_len p l = Ok p' -> wf_params p') /\
  (forall l p', set_ipv6_prefix_len p l = Ok p' -> wf_params p') /\
  (forall s p', set_size p s = Ok p' -> wf_params p').
Proof.
  intros H. pose proof (params_new_wf _ _ _ _ _ H) as W.
  split; [exact W|]. split; [intros s; exact (wf_params_set_slip p s W)|].
  split; [intros l p'; exact (set_ipv4_prefix_len_wf p l p' W)|].
  split; [intros l p'; exact (set_ipv6_prefix_len_wf p l p' W)|].
  intros s p'; exact (set_size_wf p s p' W).
Qed.

Lemma rrl_new_wf p now : wf_params p -> wf_table p (rrl_new p now).
Proof.
  intros (W1 & W2 & W3). split; simpl; [exact W3|]. intros _. apply N.le_0_l.
Qed.

Lemma rate_and_limit_wf p cat : wf_params p ->
  rate_and_limit p cat = Some (rate_of p cat, limit_of p cat).
Proof.
  intros (W1 & _). destruct (W1 cat) as [_ H2]. unfold rate_and_limit, limit_of in *.
  apply N.leb_le in H2. rewrite H2. reflexivity.
Qed.

(* ---- keys --------------------------------------------------------------------------- *)

Lemma category_eqb_eq a b : category_eqb a b = true <-> a = b.
Proof. destruct a, b; simpl; split; intros H; try reflexivity; discriminate. Qed.

Lemma key_eqb_eq a b : key_eqb a b = true <-> a = b.
Proof.
  destruct a as [d1 v1 h1 c1], b as [d2 v2 h2 c2]. unfold key_eqb. simpl. split.
  - intros H. repeat (apply andb_true_iff in H; destruct H as [H ?]).
    apply N.eqb_eq in H. apply Bool.eqb_prop in H2. apply N.eqb_eq in H1.
    apply category_eqb_eq in H0. subst. reflexivity.
  - intros H. inversion H; subst. rewrite !N.eqb_refl, Bool.eqb_reflx.
    simpl. apply category_eqb_eq. reflexivity.
Qed.

Lemma key_eqb_refl k : key_eqb k k = true.
Proof. apply key_eqb_eq. reflexivity. Qed.

Lemma key_eqb_neq a b : key_eqb a b = false <-> a <> b.
Proof.
  split.
  - intros H E. apply key_eqb_eq in E. congruence.
  - intros H. destruct (key_eqb a b) eqn:E; [|reflexivity]. apply key_eqb_eq in E. contradiction.
Qed.

(* ---- the fixed refill arithmetic is the exact product, saturated ------------------ *)

Lemma refill_fixed_exact rate secs count : 1 <= rate -> count <= u32_max ->
  exists amt, refill_amount Fixed rate secs = Some amt /\ count - amt = count - rate * secs.
Proof.
  intros Hr Hc. unfold refill_amount.
  destruct (secs <=? u32_max) eqn:E1.
  - destruct (rate * secs <=? u32_max) eqn:E2.
    + eexists; split; [reflexivity|reflexivity].
    + eexists; split; [reflexivity|]. apply N.leb_gt in E2. lia.
  - apply N.leb_gt in E1.
    assert (u32_max <= rate * u32_max) by nia.
    assert (u32_max <= rate * secs) by nia.
    destruct (rate * u32_max <=? u32_max) eqn:E2.
    + apply N.leb_le in E2. eexists; split; [reflexivity|]. lia.
    + eexists; split; [reflexivity|]. lia.
Qed.

(* ---- one critical section = one bucket step ----------------------------------------- *)

(* the bucket an entry stands for: tokens left = limit - count *)
Definition abs_entry (p : params) (e : entry) : bucket :=
  mkBucket (limit_of p (k_category (e_key e)) - e_count e) (e_last e).

Definition action_of_verdict (v : verdict) : action :=
  match v with VSend => Send | VSlip => Slip | VDrop => Drop end.

Definition step_verdict (slip rnd : N) (sent : bool) : verdict :=
  if sent then VSend else limited_verdict slip rnd.

Lemma should_slip_verdict p rnd :
  (if should_slip p rnd then Slip else Drop) = action_of_verdict (limited_verdict (p_slip p) rnd).
Proof.
  unfold should_slip, limited_verdict.
  destruct (p_slip p =? 0); [reflexivity|]. destruct (p_slip p =? 1); [reflexivity|].
  destruct (rnd =? 0); reflexivity.
Qed.

Lemma div_mod_second x : x = second * (x / second) + x mod second /\ x mod second < second.
Proof.
  split; [apply N.div_mod; discriminate|apply N.mod_lt; discriminate].
Qed.

Lemma entry_step_refines p e now rnd :
  wf_params p ->
  let cat := k_category (e_key e) in
  e_count e <= limit_of p cat ->
  exists e' act,
    entry_step_gen Fixed p e cat now rnd = Ok (e', act) /\
    e_key e' = e_key e /\
    e_count e' <= limit_of p cat /\
    let r := bucket_take (bucket_refill (rate_of p cat) (p_window p) (abs_entry p e) now) in
    abs_entry p e' = fst r /\ act = action_of_verdict (step_verdict (p_slip p) rnd (snd r)).
Proof.
  intros W cat Hc.
  pose proof W as (W1 & W2 & W3). destruct (W1 cat) as [Hr Hl].
  unfold entry_step_gen. rewrite (rate_and_limit_wf p cat W).
  set (lim := limit_of p cat) in *. set (rate := rate_of p cat) in *.
  assert (Habs : abs_entry p e = mkBucket (lim - e_count e) (e_last e)) by reflexivity.
  rewrite Habs. unfold bucket_refill. cbn [b_since b_tokens].
  change second with nanos_per_sec.
  set (since := now - e_last e).
  assert (Hlim : rate * p_window p = lim) by reflexivity. rewrite Hlim.
  destruct (div_mod_second since) as [Hdm Hmod]. change second with nanos_per_sec in *.
  set (secs := since / nanos_per_sec) in *. set (frac := since mod nanos_per_sec) in *.
  destruct (nanos_per_sec <=? since) eqn:E.
  - (* at least one whole second: refill *)
    apply N.leb_le in E.
    destruct (refill_fixed_exact rate secs (e_count e) Hr ltac:(lia)) as (amt & Ha & Hamt).
    rewrite Ha. unfold instant_checked_sub.
    assert (Hle : frac <= now) by (unfold since in *; lia).
    apply N.leb_le in Hle. rewrite Hle. apply N.leb_le in Hle. cbn [bind].
    cbn [e_count e_key e_last]. rewrite Hamt.
    set (X := rate * secs) in *.
    assert (Hlast : now - frac = e_last e + secs * nanos_per_sec) by (unfold since in *; lia).
    assert (Htok : lim - (e_count e - X) = N.min lim (lim - e_count e + X)) by lia.
    unfold bucket_take. cbn [b_tokens b_since]. rewrite <- Htok, <- Hlast.
    destruct (lim <=? e_count e - X) eqn:EL.
    + apply N.leb_le in EL.
      assert (Hz : lim - (e_count e - X) =? 0 = true) by (apply N.eqb_eq; lia).
      rewrite Hz. cbn [fst snd step_verdict].
      eexists; eexists. split; [reflexivity|]. unfold abs_entry. cbn [e_key e_count e_last]. fold cat. fold lim.
      split; [reflexivity|]. split; [lia|]. split; [reflexivity|]. apply should_slip_verdict.
    + apply N.leb_gt in EL.
      assert (Hz : lim - (e_count e - X) =? 0 = false) by (apply N.eqb_neq; lia).
      rewrite Hz. cbn [fst snd step_verdict].
      assert (Hov : e_count e - X + 1 <=? u32_max = true) by (apply N.leb_le; lia).
      rewrite Hov.
      eexists; eexists. split; [reflexivity|]. unfold abs_entry. cbn [e_key e_count e_last]. fold cat. fold lim.
      split; [reflexivity|]. split; [lia|]. split; [|reflexivity].
      f_equal. lia.
  - (* less than a second: nothing is credited *)
    apply N.leb_gt in E.
    assert (Hs0 : secs = 0) by (unfold secs; apply N.div_small; exact E).
    rewrite Hs0. rewrite N.mul_0_r, N.add_0_r, N.mul_0_l, N.add_0_r.
    assert (Htok : N.min lim (lim - e_count e) = lim - e_count e) by lia. rewrite Htok.
    cbn [bind]. unfold bucket_take. cbn [b_tokens b_since].
    destruct (lim <=? e_count e) eqn:EL.
    + apply N.leb_le in EL.
      assert (Hz : lim - e_count e =? 0 = true) by (apply N.eqb_eq; lia).
      rewrite Hz. cbn [fst snd step_verdict].
      eexists; eexists. split; [reflexivity|]. unfold abs_entry. fold cat. fold lim.
      split; [reflexivity|]. split; [lia|]. split; [reflexivity|]. apply should_slip_verdict.
    + apply N.leb_gt in EL.
      assert (Hz : lim - e_count e =? 0 = false) by (apply N.eqb_neq; lia).
      rewrite Hz. cbn [fst snd step_verdict].
      assert (Hov : e_count e + 1 <=? u32_max = true) by (apply N.leb_le; lia).
      rewrite Hov.
      eexists; eexists. split; [reflexivity|]. unfold abs_entry. cbn [e_key e_count e_last]. fold cat. fold lim.
      split; [reflexivity|]. split; [lia|]. split; [|reflexivity].
      f_equal. lia.
Qed.

(* ---- process_response on a table ---------------------------------------------------- *)

Lemma t_get_set_same t i e : t_get (t_set t i e) i = e.
Proof. unfold t_set. simpl. rewrite N.eqb_refl. reflexivity. Qed.

Lemma t_get_set_other t i j e : j <> i -> t_get (t_set t i e) j = t_get t j.
Proof. intros H. unfold t_set. simpl. apply N.eqb_neq in H. rewrite H. reflexivity. Qed.

Lemma wf_table_set p t i e : wf_table p t ->
  e_count e <= limit_of p (k_category (e_key e)) -> wf_table p (t_set t i e).
Proof.
  intros [W1 W2] He. split; [exact W1|]. intros j.
  destruct (N.eq_dec j i) as [->|Hne].
  - rewrite t_get_set_same. exact He.
  - rewrite t_get_set_other by exact Hne. apply W2.
Qed.

Section WithHash.
  Variable hname : bytes -> N.
  Variable hkey : key -> N.

  Definition bucket_index (t : table) (k : key) : N := (hkey k mod two64) mod t_len t.

  (* the token bucket the table currently holds for stream [k], if any *)
  Definition abs_bucket (p : params) (t : table) (k : key) : option bucket :=
    let e := t_get t (bucket_index t k) in
    if key_eqb (e_key e) k then Some (abs_entry p e) else None.

  Lemma process_response_step p t c k now rnd :
    wf_params p -> wf_table p t -> subject_to_rrl c = true -> key_of hname p c = Some k ->
    let r := bucket_step (rate_of p (k_category k)) (p_window p) (abs_bucket p t k) now in
    exists t',
      process_response hname hkey p t c now rnd
      = Ok (t', apply_action c (action_of_verdict (step_verdict (p_slip p) rnd (snd r)))) /\
      wf_table p t' /\ t_len t' = t_len t /\ abs_bucket p t' k = Some (fst r) /\
      (forall j, j <> bucket_index t k -> t_get t' j = t_get t j).
  Proof.
    intros W WT Hs Hk r.
    unfold process_response, process_response_gen. rewrite Hs, Hk. cbn [negb].
    destruct WT as [WT1 WT2].
    assert (Hlen : t_len t =? 0 = false) by (apply N.eqb_neq; lia). rewrite Hlen.
    fold (bucket_index t k). set (idx := bucket_index t k) in *.
    subst r. unfold abs_bucket. fold idx. cbn zeta.
    destruct (key_eqb (e_key (t_get t idx)) k) eqn:EK.
    - apply key_eqb_eq in EK.
      destruct (entry_step_refines p (t_get t idx) now rnd W (WT2 idx)) as (e' & act & H1 & H2 & H3 & H4 & H5).
      rewrite EK in *. rewrite H1. cbn [bind].
      exists (t_set t idx e'). unfold bucket_step.
      split; [rewrite H5; reflexivity|].
      split; [apply wf_table_set; [split; assumption|rewrite H2; exact H3]|].
      split; [reflexivity|]. split.
      + cbn [t_set t_len]. unfold bucket_index. cbn [t_len]. fold (bucket_index t k). fold idx.
        rewrite t_get_set_same. rewrite H2, key_eqb_refl. rewrite H4. reflexivity.
      + intros j Hj. apply t_get_set_other. exact Hj.
    - exists (t_set t idx (mkEntry k 1 now)).
      pose proof W as (W1 & W2 & W3). destruct (W1 (k_category k)) as [Hr Hl].
      assert (Hlim : 1 <= limit_of p (k_category k)) by (unfold limit_of; nia).
      unfold bucket_step, bucket_full, bucket_take. cbn [b_tokens b_since].
      fold (limit_of p (k_category k)).
      assert (Hz : limit_of p (k_category k) =? 0 = false) by (apply N.eqb_neq; lia).
      rewrite Hz. cbn [fst snd step_verdict action_of_verdict].
      split; [reflexivity|].
      split; [apply wf_table_set; [split; assumption|cbn [e_count e_key]; exact Hlim]|].
      split; [reflexivity|]. split.
      + cbn [t_set t_len]. unfold bucket_index. cbn [t_len]. fold (bucket_index t k). fold idx.
        rewrite t_get_set_same. cbn [e_key]. rewrite key_eqb_refl. reflexivity.
      + intros j Hj. apply t_get_set_other. exact Hj.
  Qed.

  (* every history of one stream: the model's decisions are the token bucket's *)
  Lemma run_history_refines p c k h : wf_params p -> subject_to_rrl c = true ->
    key_of hname p c = Some k ->
    forall t, wf_table p t ->
    exists t' cs,
      run_history hname hkey p t c h = Ok (t', cs) /\
      cs = map (fun v => apply_action c (action_of_verdict v))
               (bucket_run (rate_of p (k_category k)) (p_window p) (p_slip p) (abs_bucket p t k) h) /\
      wf_table p t'.
  Proof.
    intros W Hs Hk. induction h as [|[now rnd] h IH]; intros t WT.
    - exists t, []. split; [reflexivity|]. split; [reflexivity|exact WT].
    - destruct (process_response_step p t c k now rnd W WT Hs Hk) as (t1 & H1 & WT1 & _ & Habs & _).
      destruct (IH t1 WT1) as (t2 & cs & H2 & Hcs & WT2).
      exists t2. eexists. unfold run_history in *. cbn [run_history_gen].
      unfold process_response in H1. rewrite H1. cbn [bind]. rewrite H2. cbn [bind].
      split; [reflexivity|]. split; [|exact WT2].
      cbn [bucket_run].
      destruct (bucket_step (rate_of p (k_category k)) (p_window p) (abs_bucket p t k) now) as [b' sent] eqn:EB.
      cbn [fst snd] in *. cbn [map]. rewrite Habs in Hcs. rewrite Hcs. reflexivity.
  Qed.

  (* any request whatsoever: no panic, the table invariant is kept *)
  Lemma process_response_total p t c now rnd :
    wf_params p -> wf_table p t ->
    (subject_to_rrl c = true -> key_of hname p c <> None) ->
    exists t' c', process_response hname hkey p t c now rnd = Ok (t', c') /\ wf_table p t'.
  Proof.
    intros W WT Hq.
    destruct (subject_to_rrl c) eqn:Hs.
    - destruct (key_of hname p c) as [k|] eqn:Hk; [|exfalso; apply Hq; reflexivity].
      destruct (process_response_step p t c k now rnd W WT Hs Hk) as (t1 & H1 & WT1 & _).
      eexists; eexists; split; [exact H1|exact WT1].
    - exists t, c. unfold process_response, process_response_gen. rewrite Hs. split; [reflexivity|exact WT].
  Qed.

  Lemma run_requests_total p h : wf_params p ->
    Forall (fun r => subject_to_rrl (fst (fst r)) = true -> key_of hname p (fst (fst r)) <> None) h ->
    forall t, wf_table p t ->
    exists t' cs, run_requests hname hkey p t h = Ok (t', cs) /\ wf_table p t' /\ length cs = length h.
  Proof.
    intros W. induction h as [|[[c now] rnd] h IH]; intros HF t WT.
    - exists t, []. split; [reflexivity|split; [exact WT|reflexivity]].
    - inversion HF as [|x l Hx HF']; subst. cbn [fst] in Hx.
      destruct (process_response_total p t c now rnd W WT Hx) as (t1 & c1 & H1 & WT1).
      destruct (IH HF' t1 WT1) as (t2 & cs & H2 & WT2 & Hlen).
      exists t2, (c1 :: cs). cbn [run_requests]. rewrite H1. cbn [bind]. rewrite H2. cbn [bind].
      split; [reflexivity|split; [exact WT2|simpl; rewrite Hlen; reflexivity]].
  Qed.
End WithHash.

(* ---- what a processed context looks like (any arithmetic variant, any table) -------- *)

Lemma entry_step_gen_action a p e cat now rnd e' act :
  entry_step_gen a p e cat now rnd = Ok (e', act) ->
  act = Send \/ act = (if should_slip p rnd then Slip else Drop).
Proof.
  unfold entry_step_gen. destruct (rate_and_limit p cat) as [[rate limit]|]; [|discriminate].
  set (r1 := if nanos_per_sec <=? now - e_last e then _ else _).
  destruct r1 as [e1| |]; cbn [bind]; try discriminate.
  destruct (limit <=? e_count e1).
  - intros H; inversion H; subst. right; reflexivity.
  - destruct (e_count e1 + 1 <=? u32_max); [|discriminate].
    intros H; inversion H; subst. left; reflexivity.
Qed.

Lemma process_response_gen_inv a hname hkey p t c now rnd t' c' :
  process_response_gen hname hkey a p t c now rnd = Ok (t', c') ->
  (subject_to_rrl c = false /\ t' = t /\ c' = c) \/
  (subject_to_rrl c = true /\
   (c' = apply_action c Send \/ c' = apply_action c (if should_slip p rnd then Slip else Drop))).
Proof.
  unfold process_response_gen. destruct (subject_to_rrl c); cbn [negb].
  - destruct (key_of hname p c) as [k|]; [|discriminate].
    destruct (t_len t =? 0); [discriminate|].
    destruct (key_eqb _ k).
    + destruct (entry_step_gen a p _ (k_category k) now rnd) as [[e' act]| |] eqn:E; cbn [bind]; try discriminate.
      intros H; inversion H; subst. right. split; [reflexivity|].
      destruct (entry_step_gen_action _ _ _ _ _ _ _ _ E) as [->| ->]; [left|right]; reflexivity.
    + intros H; inversion H; subst. right. split; [reflexivity|left; reflexivity].
  - intros H; inversion H; subst. left. repeat split.
Qed.

Lemma subject_send c : subject_to_rrl c = true -> c_send_response c = true.
Proof.
  unfold subject_to_rrl. intros H. apply andb_true_iff in H. destruct H as [H _].
  apply andb_true_iff in H. destruct H as [H _]. exact H.
Qed.

Lemma slip_shape c : subject_to_rrl c = true ->
  let c' := apply_action c Slip in
  c_rrl_action c' = Some Slip /\
  exists w, final_response c' = Some w /\
    slipped_shape (w_tc w) (w_ancount w) (w_nscount w) (w_arcount w)
                  (w_edns (c_response c)) (w_tsig (c_response c)) /\
    w_edns w = w_edns (c_response c) /\ w_tsig w = w_tsig (c_response c) /\
    w_rcode w = w_rcode (c_response c).
Proof.
  intros Hs. cbn zeta. split; [reflexivity|].
  unfold final_response. cbn [apply_action c_send_response c_response]. rewrite (subject_send c Hs).
  eexists; split; [reflexivity|]. unfold slipped_shape, set_tc, clear_rrs. cbn.
  repeat split. destruct (w_edns (c_response c)), (w_tsig (c_response c)); reflexivity.
Qed.

Lemma drop_final c : final_response (apply_action c Drop) = None /\ c_rrl_action (apply_action c Drop) = Some Drop.
Proof. split; reflexivity. Qed.

Lemma send_final c : subject_to_rrl c = true ->
  final_response (apply_action c Send) = Some (c_response c) /\ c_rrl_action (apply_action c Send) = Some Send.
Proof. intros Hs. unfold final_response. cbn. rewrite (subject_send c Hs). split; reflexivity. Qed.

(* the three possible outcomes of a response that is subject to RRL *)
Definition sent_unchanged (c c' : ctx) : Prop :=
  c_rrl_action c' = Some Send /\ final_response c' = Some (c_response c).
Definition dropped (c' : ctx) : Prop :=
  c_rrl_action c' = Some Drop /\ final_response c' = None.
Definition slipped (c c' : ctx) : Prop :=
  c_rrl_action c' = Some Slip /\
  exists w, final_response c' = Some w /\
    slipped_shape (w_tc w) (w_ancount w) (w_nscount w) (w_arcount w)
                  (w_edns (c_response c)) (w_tsig (c_response c)) /\
    w_edns w = w_edns (c_response c) /\ w_tsig w = w_tsig (c_response c) /\
    w_rcode w = w_rcode (c_response c).

Lemma process_response_outcomes hname hkey p t c now rnd t' c' :
  subject_to_rrl c = true ->
  process_response hname hkey p t c now rnd = Ok (t', c') ->
  sent_unchanged c c' \/ (should_slip p rnd = true /\ slipped c c') \/ (should_slip p rnd = false /\ dropped c').
Proof.
  intros Hs H. apply process_response_gen_inv in H. destruct H as [[H _]|[_ [->| ->]]]; [congruence| |].
  - left. destruct (send_final c Hs) as [H1 H2]. split; assumption.
  - right. destruct (should_slip p rnd).
    + left. split; [reflexivity|]. apply slip_shape. exact Hs.
    + right. split; [reflexivity|]. destruct (drop_final c) as [H1 H2]. split; assumption.
Qed.

Lemma slip0_outcomes hname hkey p t c now rnd t' c' :
  p_slip p = 0 -> subject_to_rrl c = true ->
  process_response hname hkey p t c now rnd = Ok (t', c') ->
  sent_unchanged c c' \/ dropped c'.
Proof.
  intros H0 Hs H. destruct (process_response_outcomes _ _ _ _ _ _ _ _ _ Hs H) as [H1|[[H1 _]|[_ H1]]].
  - left; exact H1.
  - unfold should_slip in H1. rewrite H0 in H1. discriminate.
  - right; exact H1.
Qed.

Lemma slip1_outcomes hname hkey p t c now rnd t' c' :
  p_slip p = 1 -> subject_to_rrl c = true ->
  process_response hname hkey p t c now rnd = Ok (t', c') ->
  sent_unchanged c c' \/ slipped c c'.
Proof.
  intros H0 Hs H. destruct (process_response_outcomes _ _ _ _ _ _ _ _ _ Hs H) as [H1|[[_ H1]|[H1 _]]].
  - left; exact H1.
  - right; exact H1.
  - unfold should_slip in H1. rewrite H0 in H1. discriminate.
Qed.

Lemma slipped_only_shape hname hkey p t c now rnd t' c' :
  c_rrl_action c = None ->
  process_response hname hkey p t c now rnd = Ok (t', c') ->
  c_rrl_action c' = Some Slip -> slipped c c'.
Proof.
  intros Hn H Ha. pose proof H as H'. apply process_response_gen_inv in H'.
  destruct H' as [(_ & _ & ->)|[Hs _]]; [congruence|].
  destruct (process_response_outcomes _ _ _ _ _ _ _ _ _ Hs H) as [[H1 _]|[[_ H1]|[_ [H1 _]]]]; [congruence|exact H1|congruence].
Qed.

(* ---- the pre-fix arithmetic, kept as a regression witness ------------------------------ *)

Definition witness_params : params :=
  mkParams 4 4 4 1 1 RRL_DEFAULT_IPV4_NETMASK RRL_DEFAULT_IPV6_NETMASK 1.
Definition witness_entry : entry := mkEntry (mkKey 0 false 0 NxDomain) 4 0.
Definition witness_gap_overflow : N := 1073741824 * nanos_per_sec.   (* 2^30 s = 34 years; 4 * secs = 2^32 *)
Definition witness_gap_truncate : N := two32 * nanos_per_sec.         (* 136 years; secs as u32 = 0 *)

Lemma witness_wf : wf_params witness_params /\
  e_count witness_entry <= limit_of witness_params (k_category (e_key witness_entry)).
Proof.
  split; [|vm_compute; discriminate].
  split; [|split; vm_compute; discriminate].
  intros cat; destruct cat; split; vm_compute; discriminate.
Qed.

Lemma old_arithmetic_refuted :
  (* the bucket refills and sends after either idle period ... *)
  snd (bucket_take (bucket_refill 4 1 (abs_entry witness_params witness_entry) witness_gap_overflow)) = true /\
  snd (bucket_take (bucket_refill 4 1 (abs_entry witness_params witness_entry) witness_gap_truncate)) = true /\
  (* ... the pre-fix code panics (overflow checks on) *)
  entry_step_gen OldChecked witness_params witness_entry NxDomain witness_gap_overflow 0 = Panic /\
  (* ... or slips the response because the product wrapped to 0 (overflow checks off) *)
  (exists e', entry_step_gen OldWrapping witness_params witness_entry NxDomain witness_gap_overflow 0 = Ok (e', Slip)) /\
  (* ... or, with 2^32 s elapsed, credits nothing because `secs as u32` is 0 (either build) *)
  (exists e', entry_step_gen OldChecked witness_params witness_entry NxDomain witness_gap_truncate 0 = Ok (e', Slip)) /\
  (* the repaired code sends in both situations *)
  (exists e', entry_step_gen Fixed witness_params witness_entry NxDomain witness_gap_overflow 0 = Ok (e', Send)) /\
  (exists e', entry_step_gen Fixed witness_params witness_entry NxDomain witness_gap_truncate 0 = Ok (e', Send)).
Proof.
  split; [vm_compute; reflexivity|]. split; [vm_compute; reflexivity|].
  split; [vm_compute; reflexivity|].
  split; [eexists; vm_compute; reflexivity|].
  split; [eexists; vm_compute; reflexivity|].
  split; eexists; vm_compute; reflexivity.
Qed.
