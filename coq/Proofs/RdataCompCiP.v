(* C18 meets C19: components written with names that decode to the SAME labels MODULO ASCII
   CASE (what a case-insensitive compressing writer produces when it points at an earlier
   name spelled in another case) read back as an RDATA that Rdata::equals the original. *)
From QV Require Import Base.ListX Model.NameWire Spec.NameWireS Spec.NameRepr Proofs.NameWireP
  Proofs.NameWireSP Model.RdataM Spec.RdataFormatS Spec.RdataCompS Spec.RdataEqS Proofs.RdNameP
  Proofs.RdataFormatSP Proofs.RdataVP Proofs.RdataRP Proofs.RdataWP Proofs.RdNameEqP Proofs.RdataEqSP
  Proofs.RdataEqP Proofs.RdataEqFullP Proofs.RdataCompP Proofs.RdataCompRP.
Local Open Scope nat_scope.

Inductive laid_out_ci (msg : bytes) (e : nat) : nat -> list component -> Prop :=
| loc_nil : laid_out_ci msg e e []
| loc_name pos cb nm ls0 ls l rest :
    n_wire nm = wire_of ls0 -> labels_ci_eqb ls0 ls = true ->
    decodes_name (firstn e msg) pos ls l ->
    laid_out_ci msg e (pos + l) rest ->
    laid_out_ci msg e pos (CName cb nm :: rest)
| loc_other pos b rest :
    pos + length b <= e -> slice msg pos (pos + length b) = b ->
    laid_out_ci msg e (pos + length b) rest ->
    laid_out_ci msg e pos (COther b :: rest).

Lemma laid_out_is_ci msg e pos comps : laid_out msg e pos comps -> laid_out_ci msg e pos comps.
Proof.
  induction 1 as [|pos cb nm ls l rest Hw D LO IH|pos b rest Hle Hsl LO IH].
  - constructor.
  - eapply loc_name; eauto. apply labels_ci_refl.
  - apply loc_other; auto.
Qed.

Lemma wire_of_nonnil ls : wire_of ls <> [].
Proof. unfold wire_of. destruct (lwire ls); discriminate. Qed.

Lemma wire_of_inj : forall a b, wire_of a = wire_of b -> a = b.
Proof.
  induction a as [|l a IH]; intros [|l' b] H.
  - reflexivity.
  - exfalso. rewrite wire_of_cons in H. change (wire_of []) with [0%N] in H.
    inversion H as [[H0 H1]]. destruct l'; [|discriminate]. simpl in H1.
    symmetry in H1. exact (wire_of_nonnil b H1).
  - exfalso. rewrite wire_of_cons in H. change (wire_of []) with [0%N] in H.
    inversion H as [[H0 H1]]. destruct l; [|discriminate]. simpl in H1. exact (wire_of_nonnil a H1).
  - rewrite !wire_of_cons in H. inversion H as [[H0 H1]]. apply Nat2N.inj in H0.
    assert (E : l = l').
    { rewrite <- (firstn_app_exact l (wire_of a) (length l) eq_refl).
      rewrite <- (firstn_app_exact l' (wire_of b) (length l) H0). rewrite H1. reflexivity. }
    subst l'. apply app_inv_head in H1. f_equal. apply IH. exact H1.
Qed.

Lemma sdn_of_wire ls rest : valid_name ls ->
  spec_decode_name (wire_of ls ++ rest) 0 = Some (ls, wire_len ls).
Proof.
  intros [Hv Hw]. apply spec_decode_name_iff. exists (wire_len ls). split; [|split; [lia|exact Hw]].
  exact (decodes_of_wire ls Hv [] rest 0).
Qed.

Lemma laid_out_ci_cmatches cb msg e : forall g types r comps pos,
  simple g = true -> map ck_of types = layout_of cb g -> smatch g r = true -> wf_bytes r ->
  comp_collect types r = Ok comps -> laid_out_ci msg e pos comps ->
  exists r', cmatches msg e pos g r' /\ ci_fields g r r' = true.
Proof.
  induction g as [|f g IH]; intros types r comps pos Sg L M Hwf C LO.
  - cbn [layout_of] in L. destruct types; [|discriminate].
    rewrite smatch_nil in M. destruct r; [|discriminate].
    rewrite comp_collect_nil in C. inversion C; subst comps. inversion LO; subst.
    exists []. split; [constructor|reflexivity].
  - cbn [layout_of] in L. destruct (existsb is_FName (f :: g)) eqn:X.
    2: { destruct types; [|discriminate]. rewrite comp_collect_nil in C. inversion C; subst comps.
      exists r. split; [|apply ci_fields_refl; exact M].
      destruct r as [|x r'].
      - inversion LO; subst. apply nameless_cmatches; auto. apply slice_nil.
      - inversion LO as [| |pos' b rest Hle Hsl LO' E1 E2]; subst. inversion LO'; subst.
        apply nameless_cmatches; auto. }
    pose proof (simple_tail _ _ Sg) as Sg'.
    destruct f; try discriminate.
    + (* a name, read back in possibly another case *)
      destruct types as [|ty types']; [discriminate|]. cbn [map] in L. inversion L as [[Hty Hrest]].
      assert (S : comp_collect (ty :: types') r = name_step cb types' r).
      { destruct ty, cb; try discriminate; reflexivity. }
      rewrite S in C. unfold name_step in C.
      pose proof (uname_ok r Hwf) as U. pose proof (uname_decode0 r Hwf) as U0.
      destruct (uname r) as [[nm len]|e0|]; cbn [bind] in C; try discriminate.
      destruct U as (ls' & Hv & -> & Hn & Hr & Hl & Sn).
      destruct U0 as (ls2 & D0 & N2 & _).
      assert (ls2 = ls') by (apply wire_of_inj; inversion N2; reflexivity). subst ls2.
      rewrite slice_from_ok in C by exact Hl. cbn [bind] in C.
      destruct (comp_collect types' (skipn len r)) as [tl|e0|] eqn:C'; cbn [bind] in C; try discriminate.
      inversion C; subst comps.
      inversion LO as [|pos' cb' nm' ls0 ls l rest Hw Lci D LO' E1 E2|]; subst.
      cbn [name_of n_wire] in Hw. apply wire_of_inj in Hw. subst ls0.
      rewrite smatch_name, Sn in M.
      destruct (IH types' (skipn (wire_len ls') r) tl (pos + l) Sg' Hrest M (wf_skipn _ r Hwf) C' LO')
        as (r'' & CM & CI).
      exists (wire_of ls ++ r''). split; [apply cm_name with (l := l); assumption|].
      rewrite ci_fields_name, D0.
      rewrite (sdn_of_wire ls r'' (decodes_name_valid _ _ _ _ D)), Lci.
      rewrite skipn_app_exact by reflexivity. exact CI.
    + (* fixed octets *)
      rewrite smatch_bytes in M. apply andb_true_iff in M. destruct M as [K M]. apply Nat.leb_le in K.
      assert (Step : forall types' tl, map ck_of types' = layout_of cb g ->
                comp_collect types' (skipn n r) = Ok tl ->
                slice msg pos (pos + n) = firstn n r -> pos + n <= e ->
                laid_out_ci msg e (pos + n) tl ->
                exists r', cmatches msg e pos (FBytes n :: g) r' /\ ci_fields (FBytes n :: g) r r' = true).
      { intros types' tl Ht Ct Hsl Hle LO'.
        destruct (IH types' (skipn n r) tl (pos + n) Sg' Ht M (wf_skipn n r Hwf) Ct LO') as (r'' & CM & CI).
        exists (slice msg pos (pos + n) ++ r''). split; [apply cm_bytes; assumption|].
        rewrite ci_fields_bytes, Hsl.
        assert (Lf : length (firstn n r) = n) by (apply firstn_length_le; exact K).
        rewrite firstn_app_exact, skipn_app_exact by (symmetry; exact Lf).
        rewrite octets_eqb_refl. exact CI. }
      destruct (layout_of cb g) as [|[cb'|m] r0] eqn:Lg.
      * destruct types as [|ty types']; [discriminate|]. cbn [map] in L. inversion L as [[Hty Hrest]].
        change (KFixed n) with (ck_of (FixedLen n)) in Hty. apply ck_of_inj in Hty. subst ty.
        rewrite comp_collect_fixed in C. replace (length r <? n) with false in C by (symmetry; apply Nat.ltb_ge; lia).
        destruct (comp_collect types' (skipn n r)) as [tl|e0|] eqn:C'; cbn [bind] in C; try discriminate.
        inversion C; subst comps.
        inversion LO as [| |pos' b rest Hle Hsl LO' E1 E2]; subst. rewrite firstn_length_le in * by exact K.
        apply (Step types' tl); auto.
      * destruct types as [|ty types']; [discriminate|]. cbn [map] in L. inversion L as [[Hty Hrest]].
        change (KFixed n) with (ck_of (FixedLen n)) in Hty. apply ck_of_inj in Hty. subst ty.
        rewrite comp_collect_fixed in C. replace (length r <? n) with false in C by (symmetry; apply Nat.ltb_ge; lia).
        destruct (comp_collect types' (skipn n r)) as [tl|e0|] eqn:C'; cbn [bind] in C; try discriminate.
        inversion C; subst comps.
        inversion LO as [| |pos' b rest Hle Hsl LO' E1 E2]; subst. rewrite firstn_length_le in * by exact K.
        apply (Step types' tl); auto.
      * destruct types as [|ty types']; [discriminate|]. cbn [map] in L. inversion L as [[Hty Hrest]].
        change (KFixed (n + m)) with (ck_of (FixedLen (n + m))) in Hty. apply ck_of_inj in Hty. subst ty.
        rewrite comp_collect_fixed in C.
        destruct (length r <? n + m) eqn:B; [discriminate|]. apply Nat.ltb_ge in B.
        destruct (comp_collect types' (skipn (n + m) r)) as [tl|e0|] eqn:C'; cbn [bind] in C; try discriminate.
        inversion C; subst comps.
        inversion LO as [| |pos' b rest Hle Hsl LO' E1 E2]; subst. rewrite firstn_length_le in * by exact B.
        assert (H1 : slice msg pos (pos + n) = firstn n r).
        { transitivity (firstn n (firstn (n + m) r)).
          - rewrite <- Hsl, firstn_slice by lia. reflexivity.
          - rewrite firstn_firstn. f_equal. lia. }
        assert (H2 : slice msg (pos + n) (pos + n + m) = firstn m (skipn n r)).
        { transitivity (skipn n (firstn (n + m) r)).
          - rewrite <- Hsl, skipn_slice. f_equal. lia.
          - rewrite skipn_firstn_comm. f_equal. lia. }
        assert (Lm : length (firstn m (skipn n r)) = m) by (rewrite firstn_length_le; [reflexivity|rewrite skipn_length; lia]).
        apply (Step (FixedLen m :: types') (COther (firstn m (skipn n r)) :: tl)); auto.
        -- rewrite comp_collect_fixed, skipn_length.
           replace (length r - n <? m) with false by (symmetry; apply Nat.ltb_ge; lia).
           rewrite skipn_plus, C'. reflexivity.
        -- lia.
        -- apply loc_other; rewrite Lm.
           ++ lia.
           ++ exact H2.
           ++ replace (pos + n + m) with (pos + (n + m)) by lia. exact LO'.
Qed.

Theorem decompressed_ci_b c t : decompressed c t = decompressed c t && ci_type c t.
Proof.
  unfold decompressed, ci_type, grammar, one_of. cbn [existsb]. case_types c t.
Qed.

Theorem decompressed_ci c t : decompressed c t = true -> ci_type c t = true.
Proof. rewrite decompressed_ci_b. intros H. apply andb_true_iff in H. apply H. Qed.

Theorem components_read_back_ci c t msg cur e r comps :
  wf_bytes msg -> wf_bytes r -> cur <= e -> e <= length msg -> (N.of_nat (e - cur) < 65536)%N ->
  matches (grammar c t) r ->
  components c t r = Ok comps -> laid_out_ci msg e cur comps ->
  exists r', read c t msg cur (N.of_nat (e - cur)) = Ok r' /\
             spec_equals c t r r' = true /\ equals c t r r' = Ok true.
Proof.
  intros Hm Hr Hce He Hlen M C LO.
  assert (G : exists r', read c t msg cur (N.of_nat (e - cur)) = Ok r' /\ spec_equals c t r r' = true).
  { pose proof M as M0. apply (smatch_iff _ _ Hr) in M. unfold components in C.
    pose proof (dispatch_components c t) as D. unfold spec_layout in D.
    destruct (decompressed c t) eqn:Dc.
    - pose proof Dc as Dc'. rewrite decompressed_simple in Dc'. apply andb_true_iff in Dc'.
      destruct (laid_out_ci_cmatches (compressible_type t) msg e (grammar c t)
                  (lookup components_arms components_default c t) r comps cur
                  (proj2 Dc') D M Hr C LO) as (r' & CM & CI).
      exists r'. split.
      + apply (read_iff _ _ _ _ _ _ Hm Hlen). unfold read_spec. cbv zeta. rewrite Nat2N.id.
        replace (cur + (e - cur)) with e by lia. split; [exact He|]. rewrite Dc. exact CM.
      + unfold spec_equals, spec_valid. rewrite (decompressed_ci c t Dc), M. cbn [andb].
        assert (M' : smatch (grammar c t) r' = true).
        { assert (W' : wf_bytes r') by exact (cmatches_wf msg e Hm _ _ _ CM).
          apply (smatch_iff _ _ W'). exact (cmatches_matches msg e He _ _ _ CM). }
        rewrite M'. exact CI.
    - exists r. split; [|apply spec_equals_refl].
      apply (components_read_back c t msg cur e r comps Hm Hr Hce He Hlen M0).
      + unfold components. exact C.
      + destruct (lookup components_arms components_default c t); [|discriminate].
        rewrite comp_collect_nil in C. inversion C; subst comps.
        destruct r as [|x r0].
        * inversion LO; subst. constructor.
        * inversion LO as [| |pos' b rest Hle Hsl LO' E1 E2]; subst. inversion LO'; subst.
          apply lo_other; [exact Hle|exact Hsl|constructor]. }
  destruct G as (r' & R & E). exists r'. split; [exact R|]. split; [exact E|].
  rewrite (equals_char c t r r' Hr); [rewrite E; reflexivity|].
  apply (read_valid c t msg cur _ r' Hm Hlen R).
Qed.
