(* Preservation of [Inv]: pool_worker_loop sections and task completion. *)
From Coq Require Import Lia Permutation.
From QV Require Import Model.Pool Proofs.PoolLemmas Proofs.PoolInv.

Lemma inv_work_top s i k dl o c s' :
  Inv s -> nth_error (thr s) i = Some (WIdle k) ->
  step true s (LWork i dl o c) = Some s' -> Inv s'.
Proof.
  intros I E H. simpl in H. rewrite E in H.
  destruct (notify_one on_avail c (thr s)) as [l'|] eqn:En; [|discriminate].
  open_inv I.
  assert (E' : nth_error l' i = Some (WIdle k)) by (eapply notify_one_nth; [exact En | exact E | reflexivity]).
  unfold work_loop in H; simpl in H.
  destruct (notify_one_cases _ _ _ _ En) as [[-> Hz] | (pw & Hg & Hw)].
  - destruct (queue s) as [|t q] eqn:Eq; rewrite ?Eq in *.
    + destruct (psd s) eqn:Epsd.
      * destruct o; try discriminate; inversion H; subst s'; clear H. inv_case HT HS.
      * destruct (is_aux k && dl) eqn:Edl; destruct o; try discriminate; inversion H; subst s'; clear H;
          inv_case HT HS.
    + destruct o; try discriminate; inversion H; subst s'; clear H. inv_case HT HS.
  - destruct pw; try discriminate.
    destruct (queue s) as [|t q] eqn:Eq; rewrite ?Eq in *.
    + destruct (psd s) eqn:Epsd.
      * destruct o; try discriminate; inversion H; subst s'; clear H.
        constructor; simpl; spec_t HT HS; intros; elim_all; elim_woken l' Hw; fin.
      * destruct (is_aux k && dl) eqn:Edl; destruct o; try discriminate; inversion H; subst s'; clear H;
          constructor; simpl; spec_t HT HS; intros; elim_all; elim_woken l' Hw; fin.
    + destruct o; try discriminate; inversion H; subst s'; clear H.
      constructor; simpl; spec_t HT HS; intros; elim_all; elim_woken l' Hw; fin.
Qed.
