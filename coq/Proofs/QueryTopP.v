(* C05 closing statements over whole add histories, and corollaries read off the specification. *)
From QV Require Import Base.ListX Gen.ZoneConsts Gen.QueryConsts Model.ZoneTree Spec.ZoneLookupS
  Proofs.ZoneBaseP Proofs.ZoneInvP Proofs.ZoneTopP Model.Query Spec.ResolveS Spec.ResolveRepr
  Proofs.QueryNameP Proofs.QueryWfP Proofs.QueryP.
Local Open Scope nat_scope.

Lemma accepted_In apex cls recs r : In r (accepted apex cls recs) -> In r recs.
Proof.
  unfold accepted.
  assert (G : forall rs acc r,
            In r (fold_left (fun acc r => if acceptable apex cls acc r then acc ++ [r] else acc) rs acc) ->
            In r acc \/ In r rs).
  { induction rs as [|x rs IH]; intros acc r0 H; simpl in H; auto.
    apply IH in H. destruct H as [H|H]; [|right; right; exact H].
    destruct (acceptable apex cls acc x); auto.
    apply in_app_or in H. destruct H as [H|[H|[]]]; auto. subst. right. left. reflexivity. }
  intros H. apply G in H. destruct H as [[]|H]. exact H.
Qed.

Definition records_wf (recs : list record) : Prop := Forall (fun r => wf_bytes (r_rdata r)) recs.

Lemma accepted_wf apex cls recs : records_wf recs -> records_wf (accepted apex cls recs).
Proof.
  unfold records_wf. rewrite !Forall_forall. intros H r Hr. apply H. eapply accepted_In; eauto.
Qed.

Section Final.
Variable req : N -> N -> bytes -> bytes -> bool.
Hypothesis req_trans : forall cls ty a b c,
  req cls ty a b = true -> req cls ty b c = true -> req cls ty a c = true.

Theorem build_answer_refines apex cls wide recs z qname qtype tcp :
  zone_build req (zone_new apex cls wide) recs = Some z ->
  records_wf recs -> in_zone apex qname = true ->
  exists r, answer_rec z qname qtype tcp = Some r /\
            norm_rec r = resolve req apex cls (accepted apex cls recs) qname qtype.
Proof.
  intros Hb Hwf Z. apply answer_refines; auto.
  - eapply build_inv; eauto.
  - apply accepted_wf. exact Hwf.
Qed.

End Final.

(* ---- properties of the specification (hence, by refinement, of the code) *)
Section SpecFacts.
Variable req : N -> N -> bytes -> bytes -> bool.
Variable apex : name.
Variable cls : N.
Variable R : list record.

Definition is_cname (r : srr) : bool := (s_type r =? 5)%N.
Definition n_cnames (l : list srr) : nat := length (filter is_cname l).

Lemma n_cnames_app a b : n_cnames (a ++ b) = n_cnames a + n_cnames b.
Proof. unfold n_cnames. rewrite filter_app, app_length. reflexivity. Qed.

Lemma n_cnames_rrs owner ty s : (ty =? 5)%N = false -> n_cnames (rrs cls owner ty s) = 0.
Proof.
  intros H. unfold n_cnames, rrs. induction (snd s) as [|x l IH]; simpl; auto.
  unfold is_cname at 1. cbn [s_type]. rewrite H. exact IH.
Qed.

(* chain bound: following a CNAME found for a type other than CNAME adds at most [links] aliases *)
Lemma chase_bound qt : (qt =? 5)%N = false -> forall links visited owner cn an,
  n_cnames (s_an (chase req apex cls R links visited owner cn an qt)) <= n_cnames an + links.
Proof.
  intros Hq. induction links as [|links IH]; intros visited owner cn an; cbn [chase]; [cbn; lia|].
  destruct (snd cn) as [|rd rest]; [cbn; lia|].
  destruct (name_of_wire rd) as [target|]; [|cbn; lia].
  destruct (existsb (name_eqb (lc target)) visited); [cbn; lia|].
  assert (E : n_cnames (an ++ [mk_srr (lc owner) 5 cls (fst cn) rd]) = n_cnames an + 1).
  { rewrite n_cnames_app. reflexivity. }
  destruct (spec_lookup req apex cls R target qt false false) as [[s sos|cn' sos|c ns|sos| |]|].
  - unfold positive. destruct (additional req apex cls R qt s); cbn [s_an]; [|cbn; lia].
    rewrite n_cnames_app, E, n_cnames_rrs by exact Hq. lia.
  - specialize (IH (visited ++ [lc target]) target cn' (an ++ [mk_srr (lc owner) 5 cls (fst cn) rd])).
    rewrite E in IH. lia.
  - unfold referral. destruct (all_some _); cbn [s_an]; [rewrite E; lia|cbn; lia].
  - unfold negative. destruct (negative_soa req apex cls R); cbn [s_an]; [rewrite E; lia|cbn; lia].
  - unfold negative. destruct (negative_soa req apex cls R); cbn [s_an]; [rewrite E; lia|cbn; lia].
  - cbn [s_an]. rewrite E. lia.
  - cbn. lia.
Qed.

Lemma resolve_chain_bound qn qt : (qt =? 5)%N = false -> (qt =? 255)%N = false ->
  n_cnames (s_an (resolve req apex cls R qn qt)) <= 8.
Proof.
  intros H5 H255. unfold resolve. rewrite H255.
  destruct (spec_lookup req apex cls R qn qt false false) as [[s sos|cn sos|c ns|sos| |]|]; try (cbn; lia).
  - unfold positive. destruct (additional req apex cls R qt s); cbn [s_an app]; [|cbn; lia].
    rewrite n_cnames_rrs by exact H5. lia.
  - pose proof (chase_bound qt H5 8 [lc qn] qn cn []) as H. cbn in H. exact H.
  - unfold referral. destruct (all_some _); cbn; lia.
  - unfold negative. destruct (negative_soa req apex cls R); cbn; lia.
  - unfold negative. destruct (negative_soa req apex cls R); cbn; lia.
Qed.

(* a CNAME whose target was already looked up (the query name or an earlier alias) is a loop *)
Lemma chase_loop links visited owner cn an qt rd rest target :
  snd cn = rd :: rest -> name_of_wire rd = Some target -> In (lc target) visited ->
  chase req apex cls R links visited owner cn an qt = servfail.
Proof.
  intros Hcn Hn Hin. destruct links; [reflexivity|]. cbn [chase]. rewrite Hcn, Hn.
  assert (E : existsb (name_eqb (lc target)) visited = true).
  { apply existsb_exists. exists (lc target). split; auto. apply name_eqb_refl. }
  rewrite E. reflexivity.
Qed.

(* the negative-caching SOA: TTL is the smaller of the SOA RRset's TTL and its MINIMUM field *)
Lemma negative_soa_ttl soa : negative_soa req apex cls R = Some soa ->
  exists ttl rd rest sos m,
    spec_lookup req apex cls R apex 6 false false = Some (LFound (ttl, rd :: rest) sos) /\
    soa_minimum rd = Some m /\
    s_ttl soa = N.min ttl (ttl_value m) /\ s_rdata soa = rd /\ s_type soa = 6%N /\ s_owner soa = lc apex.
Proof.
  unfold negative_soa.
  destruct (spec_lookup req apex cls R apex 6 false false) as [[[ttl [|rd rest]] sos|? ?|? ?|?| |]|]; try discriminate.
  destruct (soa_minimum rd) as [m|] eqn:Em; [|discriminate]. intros H. inversion H; subst. cbn.
  exists ttl, rd, rest, sos, m. repeat split; auto.
Qed.

(* mandatory glue: in a referral every address the zone holds for a name server inside the
   delegated zone is in the additional section *)
Lemma referral_glue aa an c ns targets t x :
  all_some (map (fun rd => rdata_name rd 0) (snd ns)) = Some targets ->
  In t targets -> is_suffixb (lc c) (lc t) = true ->
  In x (addrs_of req apex cls R t true) ->
  In x (s_ar (referral req apex cls R aa an c ns)).
Proof.
  intros Ht Hin Hs Hx. unfold referral. rewrite Ht. cbn [s_ar].
  apply in_flat_map. exists t. split; [|exact Hx].
  apply in_or_app. left. apply filter_In. auto.
Qed.

End SpecFacts.
