(* Proofs about Model/TsigSrv.v against Spec/TsigSrvS.v (on top of the C11 lemmas). *)
From QV Require Import Base.ListX Model.TsigMsg Model.TsigSrv Spec.Tsig8945S Spec.TsigRepr Spec.TsigSrvS Spec.TsigSrvRepr
  Proofs.TsigEncP Proofs.TsigMsgP.

Lemma srv_consts : tsig_fudge = 300%N /\ XRCODE_NOERROR = 0%N /\ XRCODE_FORMERR = 1%N /\ XRCODE_NOTAUTH = 9%N
  /\ XRCODE_BADVERSBADSIG = 16%N /\ XRCODE_BADKEY = 17%N /\ XRCODE_BADTIME = 18%N.
Proof. repeat split; reflexivity. Qed.

Lemma alg_eqb_s a b : alg_eqb a b = salg_eqb (alg_s a) (alg_s b).
Proof. destruct a, b; reflexivity. Qed.

(* PreparedTsigRr::new_from_read on the request's TSIG RR *)
Lemma new_from_read_spec {E} t now fudge err : wf_stsig t ->
  @new_from_read E (read_of t) (be48 now) fudge err =
  Ok (mkPrepared (canon_wire (t_key t))
                 (if (err =? 18)%N then u48 (t_time t) else u48 now) fudge (t_orig_id t) err (u48 now)).
Proof.
  intros W. destruct (read_fields t W) as (F1 & _ & _ & F4 & _).
  unfold new_from_read. destruct type_class_val as (_ & _ & -> & _).
  rewrite be48_u48.
  destruct (err =? 18)%N; rewrite ?F1, F4; reflexivity.
Qed.

(* the prepared record of a response represents resp_tsig *)
Lemma prepared_resp_repr t r now :
  (sr_error r = 18%N -> sr_time r = t_time t /\ sr_other r = u48 now) ->
  (sr_error r <> 18%N -> sr_time r = now /\ sr_other r = []) ->
  prepared_repr (mkPrepared (canon_wire (t_key t))
                            (if (sr_error r =? 18)%N then u48 (t_time t) else u48 now) 300 (t_orig_id t)
                            (sr_error r) (u48 now))
                (resp_tsig t r).
Proof.
  intros H18 Hn. unfold prepared_repr, resp_tsig, p_other.
  cbn [p_key_name p_time_signed p_fudge p_original_id p_error p_server_time
       t_key t_time t_fudge t_orig_id t_error t_other].
  destruct type_class_val as (_ & _ & -> & _).
  assert (Hc : canon_wire (canon (t_key t)) = canon_wire (t_key t)).
  { unfold canon_wire, canon. rewrite map_map. f_equal. apply map_ext. intros l. apply map_lower_idem. }
  rewrite Hc.
  destruct (sr_error r =? 18)%N eqn:E.
  - apply N.eqb_eq in E. destruct (H18 E) as [-> ->]. repeat split; reflexivity.
  - apply N.eqb_neq in E. destruct (Hn E) as [-> ->]. repeat split; reflexivity.
Qed.

Lemma canon_idem n : canon (canon n) = canon n.
Proof. unfold canon. rewrite map_map. apply map_ext. intros l. apply map_lower_idem. Qed.

Lemma wire_len_canon n : wire_len (canon n) = wire_len n.
Proof. unfold wire_len at 1. change (wire_of (canon n)) with (canon_wire n). apply wire_of_length_canon. Qed.

(* PreparedTsigRr::unsigned *)
Lemma unsigned_spec p tr :
  prepared_repr p tr -> t_mac tr = [] -> (N.of_nat (length (t_other tr)) < 65536)%N ->
  (N.of_nat (wire_len (t_alg tr) + 16 + length (t_other tr)) <= 65535)%N ->
  unsigned p (wire_of (t_alg tr)) = Ok (spec_rdata tr).
Proof.
  intros (H1 & H2 & H3 & H4 & H5 & H6) Hm Ho Hlen.
  unfold unsigned, serialize_rdata, new_tsig, required_len.
  destruct type_class_val as (_ & _ & _ & -> & _). rewrite H6.
  assert (Hle : (N.of_nat (length (wire_of (t_alg tr)) + N.to_nat 16 + length (@nil N) + length (t_other tr)) <=? 65535)%N = true).
  { apply N.leb_le. replace (N.to_nat 16) with 16 by reflexivity. cbn [length]. unfold wire_len in Hlen. lia. }
  rewrite Hle. cbn [unwrap]. unfold serialize_tsig_unchecked, spec_rdata.
  rewrite H2, H3, H4, H5, Hm. rewrite (len_u16_small (t_other tr)) by exact Ho. reflexivity.
Qed.

Section Srv.
Variable hmac : alg -> bytes -> bytes -> bytes.
Hypothesis hmac_len : forall a k d, length (hmac a k d) = output_size a.

Lemma bad_key_spec t now : wf_stsig t ->
  bad_key (read_of t) (be48 now) = Ok (decision_of t (mkSresp 9 false 17 false now []) None [] now).
Proof.
  intros W. unfold bad_key. destruct srv_consts as (-> & _ & _ & -> & _ & -> & _).
  rewrite (new_from_read_spec t now 300 17 W). reflexivity.
Qed.

Theorem handle_tsig_spec keys t m now sent_id :
  wf_stsig t -> wf_smsg m -> (now < 281474976710656)%N ->
  let r := read_of t in
  let a := alg_from_name (r_algorithm r) in
  let k := find_key keys (r_key_name r) in
  (forall a', a = Some a' -> canon (t_alg t) = salg_name (alg_s a')) ->
  let sr := spec_server (mac_fn_of hmac) (option_map alg_s a)
                        (option_map (fun k => (alg_s (k_alg k), k_secret k)) k) m t now in
  handle_tsig hmac keys r (sent_prefix sent_id m) (be48 now) =
  Ok (decision_of t sr
        (match a, k with Some a', Some k' => if alg_eqb (k_alg k') a' then Some a' else a | _, _ => a end)
        (match k with Some k' => k_secret k' | None => [] end) now)
  \/ (* the BADKEY answers name the algorithm as the request did *)
  (sr = mkSresp 9 false 17 false now [] /\
   handle_tsig hmac keys r (sent_prefix sent_id m) (be48 now) = Ok (decision_of t sr None [] now)).
Proof.
  intros W Hm Hnow r a k Halg sr. subst sr. unfold handle_tsig. fold r. fold a. fold k.
  destruct a as [a'|] eqn:Ea; cbn [option_map spec_server].
  2: { right. split; [reflexivity|]. apply bad_key_spec. exact W. }
  destruct k as [k'|] eqn:Ek; cbn [option_map spec_server].
  2: { right. split; [reflexivity|]. apply bad_key_spec. exact W. }
  rewrite alg_eqb_s. destruct (salg_eqb (alg_s (k_alg k')) (alg_s a')) eqn:Eq; cbn [negb].
  2: { right. split; [reflexivity|]. apply bad_key_spec. exact W. }
  left.
  pose proof (verify_spec hmac t DRequest m a' (k_secret k') now sent_id W Hm (Halg a' eq_refl) Hnow) as V.
  cbn [vmode_of dmode_mac length] in V. specialize (V ltac:(cbn; lia)).
  unfold r. rewrite V.
  destruct (read_fields t W) as (_ & _ & F3 & _).
  destruct srv_consts as (-> & -> & -> & -> & -> & _ & ->).
  destruct (spec_verify (mac_fn_of hmac) DRequest m t (alg_s a') (k_secret k') now); cbn [res_of];
    rewrite ?F3; cbn [unwrap bind]; rewrite new_from_read_spec by exact W; reflexivity.
Qed.

End Srv.

(* ---- the TSIG RR of the response ------------------------------------------------------------------ *)

Definition sresp_wf (t : stsig) (r : sresp) (now : N) : Prop :=
  (sr_error r < 65536)%N /\
  (sr_error r = 18%N -> sr_time r = t_time t /\ sr_other r = u48 now) /\
  (sr_error r <> 18%N -> sr_time r = now /\ sr_other r = []).

Lemma spec_server_wf mac_fn alg key m t now : sresp_wf t (spec_server mac_fn alg key m t now) now.
Proof.
  unfold spec_server, sresp_wf.
  destruct alg as [a|]; [destruct key as [[ka secret]|]; [destruct (salg_eqb ka a);
    [destruct (spec_verify mac_fn DRequest m t a secret now)|]|]|];
    cbn [sr_error sr_time sr_other]; (split; [lia|split; intros H; try discriminate; try lia; auto]).
Qed.

Section Resp.
Variable hmac : alg -> bytes -> bytes -> bytes.
Hypothesis hmac_len : forall a k d, length (hmac a k d) = output_size a.

Lemma other_small t r now : sresp_wf t r now -> (N.of_nat (length (sr_other r)) < 65536)%N /\ length (sr_other r) <= 6.
Proof.
  intros (_ & H18 & Hn). destruct (N.eq_dec (sr_error r) 18) as [E|E].
  - destruct (H18 E) as [_ ->]. rewrite (be_enc_length 6). split; [vm_compute; reflexivity|lia].
  - destruct (Hn E) as [_ ->]. split; [vm_compute; reflexivity|simpl; lia].
Qed.

Theorem response_tsig_spec t r (a : option alg) secret now resp rid :
  wf_stsig t -> wf_smsg resp -> sresp_wf t r now ->
  (forall a', a = Some a' -> canon (t_alg t) = salg_name (alg_s a')) ->
  (a = None -> sr_signed r = false) ->
  response_tsig hmac (decision_of t r a secret now) (sent_prefix rid resp) =
  Ok (spec_rdata (with_mac (resp_tsig t r)
                           (match a with Some a' => resp_mac (mac_fn_of hmac) t r (alg_s a') secret resp | None => [] end)),
      match a with
      | Some a' => if sr_signed r then Some (resp_mac (mac_fn_of hmac) t r (alg_s a') secret resp) else None
      | None => None
      end).
Proof.
  intros W Hresp Hr Halg Hnone.
  pose proof (other_small t r now Hr) as [Ho Ho6].
  destruct Hr as (He & H18 & Hn).
  pose proof (prepared_resp_repr t r now H18 Hn) as Hp.
  pose proof W as (Hk & Ha & _ & _ & _ & Lm & _).
  assert (Hwl : wire_len (canon (t_alg t)) <= 255) by (rewrite wire_len_canon; apply Ha).
  unfold response_tsig, decision_of. cbn [d_mode d_rr].
  assert (Huns : forall algw, algw = wire_of (canon (t_alg t)) ->
            finish_tsig hmac (sent_prefix rid resp) (TmUnsigned algw)
              (mkPrepared (canon_wire (t_key t)) (if (sr_error r =? 18)%N then u48 (t_time t) else u48 now) 300
                          (t_orig_id t) (sr_error r) (u48 now))
            = Ok (spec_rdata (with_mac (resp_tsig t r) []), None)).
  { intros algw ->. cbn [finish_tsig].
    change (wire_of (canon (t_alg t))) with (wire_of (t_alg (resp_tsig t r))).
    rewrite (unsigned_spec _ (resp_tsig t r) Hp eq_refl); [reflexivity| |].
    - cbn [resp_tsig t_other]. exact Ho.
    - cbn [resp_tsig t_other t_alg]. lia. }
  destruct a as [a'|].
  - specialize (Halg a' eq_refl). unfold resp_mac.
    destruct (sr_signed r) eqn:Es.
    + cbn [finish_tsig].
      pose proof (sign_spec hmac hmac_len _ (resp_tsig t r) (DResponse (t_mac t)) resp a' secret rid Hp) as S.
      cbn [resp_tsig t_alg t_other dmode_mac smode_of] in S.
      rewrite S; try assumption; try lia.
      * cbn [bind]. unfold spec_sign, with_mac. cbn [resp_tsig t_key t_alg t_time t_fudge t_orig_id t_error t_other].
        reflexivity.
      * pose proof (output_size_small a'). lia.
    + apply Huns. rewrite alg_name_wire, Halg. reflexivity.
  - apply Huns. reflexivity.
Qed.

End Resp.

(* ---- the case table of C10 ---------------------------------------------------------------------------- *)

Lemma alg_known t a : canon (t_alg t) = salg_name (alg_s a) -> alg_from_name (canon_wire (t_alg t)) = Some a.
Proof. intros H. unfold canon_wire. rewrite H. destruct a; reflexivity. Qed.

Section Cases.
Variable hmac : alg -> bytes -> bytes -> bytes.
Variables (keys : list key_entry) (t : stsig) (m : smsg) (now sent_id : N).
Hypothesis W : wf_stsig t.
Hypothesis Hm : wf_smsg m.
Hypothesis Hnow : (now < 281474976710656)%N.

Let run := handle_tsig hmac keys (read_of t) (sent_prefix sent_id m) (be48 now).

Lemma case_unknown_alg :
  alg_from_name (canon_wire (t_alg t)) = None ->
  run = Ok (decision_of t (mkSresp 9 false 17 false now []) None [] now).
Proof.
  intros Hn. destruct (handle_tsig_spec hmac keys t m now sent_id W Hm Hnow) as [H|[_ H]].
  - cbn [read_of r_algorithm]. rewrite Hn. discriminate.
  - cbn [read_of r_algorithm r_key_name] in H. rewrite Hn in H. cbn [option_map spec_server] in H. exact H.
  - cbn [read_of r_algorithm r_key_name] in H. rewrite Hn in H. cbn [option_map spec_server] in H. exact H.
Qed.

Lemma case_unknown_key a :
  canon (t_alg t) = salg_name (alg_s a) ->
  (find_key keys (canon_wire (t_key t)) = None \/
   exists k, find_key keys (canon_wire (t_key t)) = Some k /\ k_alg k <> a) ->
  run = Ok (decision_of t (mkSresp 9 false 17 false now []) None [] now).
Proof.
  intros Ha Hk. pose proof (alg_known t a Ha) as Hal.
  unfold run, handle_tsig. cbn [read_of r_algorithm r_key_name]. rewrite Hal.
  destruct Hk as [Hk|(k & Hk & Hne)]; rewrite Hk.
  - apply bad_key_spec. exact W.
  - assert (E : alg_eqb (k_alg k) a = false) by (destruct (k_alg k), a; try reflexivity; congruence).
    rewrite E. cbn [negb]. apply bad_key_spec. exact W.
Qed.

Lemma case_key_found a k (sv : sresult) :
  canon (t_alg t) = salg_name (alg_s a) ->
  find_key keys (canon_wire (t_key t)) = Some k -> k_alg k = a ->
  spec_verify (mac_fn_of hmac) DRequest m t (alg_s a) (k_secret k) now = sv ->
  run = Ok (decision_of t
              (match sv with
               | SOk => mkSresp 0 true 0 true now []
               | SFormErr => mkSresp 1 false 16 false now []
               | SBadSig => mkSresp 9 false 16 false now []
               | SBadTime => mkSresp 9 false 18 true (t_time t) (u48 now)
               end) (Some a) (k_secret k) now).
Proof.
  intros Ha Hk Hka Hsv. pose proof (alg_known t a Ha) as Hal.
  destruct (handle_tsig_spec hmac keys t m now sent_id W Hm Hnow) as [H|[Hbad H]].
  - cbn [read_of r_algorithm]. rewrite Hal. intros a' E. inversion E; subst. exact Ha.
  - cbn [read_of r_algorithm r_key_name] in H. rewrite Hal, Hk in H. cbn [option_map spec_server] in H.
    rewrite Hka in H. assert (E1 : salg_eqb (alg_s a) (alg_s a) = true) by (destruct a; reflexivity).
    assert (E2 : alg_eqb a a = true) by (destruct a; reflexivity).
    rewrite E1, E2, Hsv in H. unfold run. rewrite H. destruct sv; reflexivity.
  - cbn [read_of r_algorithm r_key_name] in Hbad. rewrite Hal, Hk in Hbad. cbn [option_map spec_server] in Hbad.
    rewrite Hka in Hbad. assert (E1 : salg_eqb (alg_s a) (alg_s a) = true) by (destruct a; reflexivity).
    rewrite E1 in Hbad.
    destruct (spec_verify (mac_fn_of hmac) DRequest m t (alg_s a) (k_secret k) now); discriminate.
Qed.

End Cases.

(* ---- the statements of Props/C10.v --------------------------------------------------------------------- *)

Section Table.
Variable hmac : alg -> bytes -> bytes -> bytes.
Hypothesis hmac_len : forall a k d, length (hmac a k d) = output_size a.

(* the outcome of the TSIG step together with the TSIG RR of whatever response is then written *)
Definition tsig_outcome (keys : list key_entry) (t : stsig) (m : smsg) (now sent_id : N)
           (sr : sresp) (a : option alg) (secret : bytes) : Prop :=
  exists d, handle_tsig hmac keys (read_of t) (sent_prefix sent_id m) (be48 now) = Ok d /\
    d_rcode d = sr_rcode sr /\ d_authenticated d = sr_process sr /\
    forall resp rid, wf_smsg resp ->
      let mac := match a with Some a' => resp_mac (mac_fn_of hmac) t sr (alg_s a') secret resp | None => [] end in
      response_tsig hmac d (sent_prefix rid resp) =
      Ok (spec_rdata (with_mac (resp_tsig t sr) mac),
          match a with Some _ => if sr_signed sr then Some mac else None | None => None end).

Lemma outcome_of keys t m now sent_id sr a secret :
  wf_stsig t -> sresp_wf t sr now ->
  (forall a', a = Some a' -> canon (t_alg t) = salg_name (alg_s a')) -> (a = None -> sr_signed sr = false) ->
  handle_tsig hmac keys (read_of t) (sent_prefix sent_id m) (be48 now) = Ok (decision_of t sr a secret now) ->
  tsig_outcome keys t m now sent_id sr a secret.
Proof.
  intros W Hr Ha Hn H. exists (decision_of t sr a secret now). split; [exact H|].
  split; [reflexivity|]. split; [reflexivity|].
  intros resp rid Hresp. cbv zeta.
  rewrite (response_tsig_spec hmac hmac_len t sr a secret now resp rid W Hresp Hr Ha Hn).
  destruct a; reflexivity.
Qed.

Lemma wf_lit t now e : (e < 65536)%N -> e <> 18%N -> sresp_wf t (mkSresp 9 false e false now []) now.
Proof. intros H1 H2. unfold sresp_wf. cbn. repeat split; try assumption; try contradiction; intros; contradiction. Qed.

Theorem c10_accept_l keys t m now sent_id a k :
  wf_stsig t -> wf_smsg m -> (now < 281474976710656)%N ->
  canon (t_alg t) = salg_name (alg_s a) -> find_key keys (canon_wire (t_key t)) = Some k -> k_alg k = a ->
  spec_accepts (mac_fn_of hmac) DRequest m t (alg_s a) (k_secret k) now ->
  tsig_outcome keys t m now sent_id (mkSresp 0 true 0 true now []) (Some a) (k_secret k).
Proof.
  intros W Hm Hnow Ha Hk Hka Hacc. apply spec_verify_ok_iff in Hacc.
  apply outcome_of; try assumption.
  - unfold sresp_wf. cbn. repeat split; try lia; intros; try discriminate; auto.
  - intros a' E. inversion E; subst. exact Ha.
  - discriminate.
  - exact (case_key_found hmac keys t m now sent_id W Hm Hnow a k SOk Ha Hk Hka Hacc).
Qed.

Theorem c10_badsig_l keys t m now sent_id a k :
  wf_stsig t -> wf_smsg m -> (now < 281474976710656)%N ->
  canon (t_alg t) = salg_name (alg_s a) -> find_key keys (canon_wire (t_key t)) = Some k -> k_alg k = a ->
  mac_len_ok (alg_s a) (length (t_mac t)) -> ~ mac_matches (mac_fn_of hmac) DRequest m t (alg_s a) (k_secret k) ->
  tsig_outcome keys t m now sent_id (mkSresp 9 false 16 false now []) (Some a) (k_secret k).
Proof.
  intros W Hm Hnow Ha Hk Hka Hl Hmac.
  assert (Hsv : spec_verify (mac_fn_of hmac) DRequest m t (alg_s a) (k_secret k) now = SBadSig)
    by (apply spec_verify_errors; split; assumption).
  apply outcome_of; try assumption.
  - apply wf_lit; [lia|discriminate].
  - intros a' E. inversion E; subst. exact Ha.
  - discriminate.
  - exact (case_key_found hmac keys t m now sent_id W Hm Hnow a k SBadSig Ha Hk Hka Hsv).
Qed.

Theorem c10_mac_len_l keys t m now sent_id a k :
  wf_stsig t -> wf_smsg m -> (now < 281474976710656)%N ->
  canon (t_alg t) = salg_name (alg_s a) -> find_key keys (canon_wire (t_key t)) = Some k -> k_alg k = a ->
  ~ mac_len_ok (alg_s a) (length (t_mac t)) ->
  tsig_outcome keys t m now sent_id (mkSresp 1 false 16 false now []) (Some a) (k_secret k).
Proof.
  intros W Hm Hnow Ha Hk Hka Hl.
  assert (Hsv : spec_verify (mac_fn_of hmac) DRequest m t (alg_s a) (k_secret k) now = SFormErr)
    by (apply spec_verify_errors; assumption).
  apply outcome_of; try assumption.
  - unfold sresp_wf. cbn. repeat split; try lia; intros; try discriminate; auto.
  - intros a' E. inversion E; subst. exact Ha.
  - discriminate.
  - exact (case_key_found hmac keys t m now sent_id W Hm Hnow a k SFormErr Ha Hk Hka Hsv).
Qed.

Theorem c10_badtime_l keys t m now sent_id a k :
  wf_stsig t -> wf_smsg m -> (now < 281474976710656)%N ->
  canon (t_alg t) = salg_name (alg_s a) -> find_key keys (canon_wire (t_key t)) = Some k -> k_alg k = a ->
  mac_len_ok (alg_s a) (length (t_mac t)) -> mac_matches (mac_fn_of hmac) DRequest m t (alg_s a) (k_secret k) ->
  ~ time_ok t now ->
  tsig_outcome keys t m now sent_id (mkSresp 9 false 18 true (t_time t) (u48 now)) (Some a) (k_secret k).
Proof.
  intros W Hm Hnow Ha Hk Hka Hl Hmac Ht.
  assert (Hsv : spec_verify (mac_fn_of hmac) DRequest m t (alg_s a) (k_secret k) now = SBadTime)
    by (apply spec_verify_errors; split; [exact Hl|split; [exact Hmac|exact Ht]]).
  apply outcome_of; try assumption.
  - unfold sresp_wf. cbn. repeat split; try lia; intros; try contradiction; auto.
  - intros a' E. inversion E; subst. exact Ha.
  - discriminate.
  - exact (case_key_found hmac keys t m now sent_id W Hm Hnow a k SBadTime Ha Hk Hka Hsv).
Qed.

Theorem c10_badkey_l keys t m now sent_id :
  wf_stsig t -> wf_smsg m -> (now < 281474976710656)%N ->
  (alg_from_name (canon_wire (t_alg t)) = None \/
   exists a, canon (t_alg t) = salg_name (alg_s a) /\
     (find_key keys (canon_wire (t_key t)) = None \/
      exists k, find_key keys (canon_wire (t_key t)) = Some k /\ k_alg k <> a)) ->
  tsig_outcome keys t m now sent_id (mkSresp 9 false 17 false now []) None [].
Proof.
  intros W Hm Hnow H.
  apply outcome_of; try assumption.
  - apply wf_lit; [lia|discriminate].
  - discriminate.
  - reflexivity.
  - destruct H as [H|(a & Ha & Hk)].
    + exact (case_unknown_alg hmac keys t m now sent_id W Hm Hnow H).
    + exact (case_unknown_key hmac keys t m now sent_id W a Ha Hk).
Qed.

(* the signed responses verify: a client that checks the response per RFC 8945 5.3 with the request MAC
   accepts the MAC the server produced *)
Lemma response_mac_matches t sr a secret resp :
  sr_signed sr = true ->
  mac_matches (mac_fn_of hmac) (DResponse (t_mac t)) resp
    (with_mac (resp_tsig t sr) (resp_mac (mac_fn_of hmac) t sr (alg_s a) secret resp)) (alg_s a) secret.
Proof.
  intros Hs. unfold mac_matches, resp_mac. rewrite Hs. cbn [with_mac t_mac].
  rewrite firstn_all. reflexivity.
Qed.

End Table.
