(* Variant of Proofs/QueryInvP.v (same proofs) in which the interface's set_rcode only has to preserve the
   invariant for RCODEs that fit in 4 bits — what the Rust type Rcode guarantees and all the answering logic
   ever passes (NXDOMAIN, SERVFAIL).  Needed for invariants about the RCODE's octet (RA and Z bits).
   Lifting an invariant of the Writer through the whole answering logic of Model/Query.v: if every
   operation of the Writer interface preserves P — in the state it returns on success AND in the
   state it leaves behind on failure — then so do answer and answer_any, whatever the zone and the
   question.  (Generic in the interface; instantiated for the octet-level Writer in QueryWP.v.) *)
From QV Require Import Base.ListX Gen.ZoneConsts Gen.QueryConsts Model.ZoneTree Model.Query.

Section Lift.
Context {W : Type}.
Variable wi : wiface W.
Variable negttl : N -> N -> N.
Variable z : zone.
Variable P : W -> Prop.

Definition RP (r : res (wierr * W) W) : Prop :=
  match r with Ok w' => P w' | Err (_, w') => P w' | Panic => True end.
Definition QP {A} (q : res (perr * W) (A * W)) : Prop :=
  match q with Ok (_, w') => P w' | Err (_, w') => P w' | Panic => True end.

Hypothesis Hrr : forall s h o ty c ttl rd w, P w -> RP (wi_add_rr wi s h o ty c ttl rd w).
Hypothesis Hrrset : forall s h o ty c ttl rds b w, P w ->
  match wi_add_rrset wi s h o ty c ttl rds b w with Ok (_, w') => P w' | Err (_, w') => P w' | Panic => True end.
Hypothesis Haa : forall b w w', P w -> wi_set_aa wi b w = Some w' -> P w'.
Hypothesis Hrc : forall c w w', (c < 16)%N -> P w -> wi_set_rcode wi c w = Some w' -> P w'.

Ltac op_rrset :=
  match goal with
  | Hw : P ?w |- context [wi_add_rrset wi ?s ?h ?o ?ty ?c ?ttl ?rds ?b ?w] =>
    let H := fresh "Hop" in
    pose proof (Hrrset s h o ty c ttl rds b w Hw) as H;
    destruct (wi_add_rrset wi s h o ty c ttl rds b w) as [[? ?]|[? ?]|]
  end.
Ltac op_rr :=
  match goal with
  | Hw : P ?w |- context [wi_add_rr wi ?s ?h ?o ?ty ?c ?ttl ?rd ?w] =>
    let H := fresh "Hop" in
    pose proof (Hrr s h o ty c ttl rd w Hw) as H;
    destruct (wi_add_rr wi s h o ty c ttl rd w) as [?|[? ?]|]
  end.

Lemma addrs_P owner h sbc w : P w -> RP (add_additional_addresses wi z owner h sbc w).
Proof.
  intros Hw. unfold add_additional_addresses.
  destruct (zl (zone_lookup_addrs z owner false sbc)) as [[a aaaa sos|c ns| |]|]; cbn [RP]; auto.
  destruct a as [[ta ra]|].
  - op_rrset; cbn [RP] in *; auto.
    destruct (z_class z =? CLASS_IN)%N; cbn [RP]; auto.
    destruct aaaa as [[tb rb]|]; cbn [RP]; auto.
    op_rrset; cbn [RP] in *; auto.
  - destruct (z_class z =? CLASS_IN)%N; cbn [RP]; auto.
    destruct aaaa as [[tb rb]|]; cbn [RP]; auto.
    op_rrset; cbn [RP] in *; auto.
Qed.

Lemma allow_P r : RP r -> QP (allow_truncation r).
Proof. destruct r as [w'|[[|] w']|]; cbn; auto. Qed.
Lemma lift_add_P r : RP r -> QP (lift_add r).
Proof. destruct r as [w'|[e w']|]; cbn; auto. Qed.

Lemma additional_loop_P start : forall rds v idx w, P w -> QP (additional_loop wi z start rds v idx w).
Proof.
  induction rds as [|rd rds IH]; intros v idx w Hw; cbn [additional_loop QP]; auto.
  destruct (read_name_from_rdata rd start) as [n|e|]; cbn [QP fail]; auto.
  pose proof (allow_P _ (addrs_P n (hint_from_vec v idx) false w Hw)) as H.
  destruct (allow_truncation (add_additional_addresses wi z n (hint_from_vec v idx) false w)) as [[u w1]|[e w1]|]; cbn [QP] in *; auto.
Qed.

Lemma additional_P ty s v w : P w -> QP (do_additional_section_processing wi z ty s v w).
Proof.
  intros Hw. unfold do_additional_section_processing.
  destruct (negb _); cbn [QP]; auto.
  destruct (lookup_offset ADDITIONAL_TABLE ty); cbn [QP]; auto. apply additional_loop_P; auto.
Qed.

Lemma negsoa_P w : P w -> QP (add_negative_caching_soa wi negttl z w).
Proof.
  intros Hw. unfold add_negative_caching_soa.
  destruct (zone_soa z) as [[ttl [|rd rest]]|]; cbn [QP fail]; auto.
  destruct (read_soa_minimum rd) as [m|e|]; cbn [QP fail]; auto.
  apply lift_add_P. apply Hrr; auto.
Qed.

Lemma glue_loop_P : forall l v w, P w -> QP (glue_loop wi z l v w).
Proof.
  induction l as [|[idx n] l IH]; intros v w Hw; cbn [glue_loop QP]; auto.
  pose proof (lift_add_P _ (addrs_P n (hint_from_vec (Some v) idx) true w Hw)) as H.
  destruct (lift_add (add_additional_addresses wi z n (hint_from_vec (Some v) idx) true w)) as [[u w1]|[e w1]|]; cbn [QP] in *; auto.
Qed.
Lemma optional_loop_P : forall l v w, P w -> QP (optional_loop wi z l v w).
Proof.
  induction l as [|[idx n] l IH]; intros v w Hw; cbn [optional_loop QP]; auto.
  pose proof (allow_P _ (addrs_P n (hint_from_vec (Some v) idx) true w Hw)) as H.
  destruct (allow_truncation (add_additional_addresses wi z n (hint_from_vec (Some v) idx) true w)) as [[u w1]|[e w1]|]; cbn [QP] in *; auto.
Qed.

Lemma referral_P child ns w : P w -> QP (do_referral wi z child ns w).
Proof.
  intros Hw. unfold do_referral. op_rrset; cbn [lift_addv QP] in *; auto.
  destruct (referral_names child (snd ns) 0) as [[g a]|e|]; cbn [QP fail]; auto.
  pose proof (glue_loop_P g h w0 Hop) as H.
  destruct (glue_loop wi z g h w0) as [[u w1]|[e w1]|]; cbn [QP] in *; auto.
  apply optional_loop_P; auto.
Qed.

Lemma found_P h owner ty rs w : P w -> QP (add_found wi z h owner ty rs w).
Proof.
  intros Hw. unfold add_found. op_rrset; cbn [lift_addv QP] in *; auto. apply additional_P; auto.
Qed.

Lemma set_rcode_then {A} c w (k : W -> res (perr * W) (A * W)) : (c < 16)%N -> P w -> (forall w1, P w1 -> QP (k w1)) ->
  QP (match lift_set (wi_set_rcode wi c w) with Ok (_, w1) => k w1 | Err e => Err e | Panic => Panic end).
Proof.
  intros Hc Hw Hk. destruct (wi_set_rcode wi c w) as [w1|] eqn:E; cbn [lift_set QP]; auto.
  apply Hk. exact (Hrc c w w1 Hc Hw E).
Qed.

Lemma cname_P qname ty : forall fuel cn os w, P w -> QP (follow_cname_1 wi negttl z fuel qname ty cn os w).
Proof.
  induction fuel as [|fuel IH]; intros cn os w Hw; cbn [follow_cname_1 QP]; auto.
  destruct (snd cn) as [|rd rest]; cbn [QP fail]; auto.
  destruct (name_from_all rd) as [[[cname wire]|]|e|]; cbn [QP fail]; auto.
  destruct (_ || _); cbn [QP fail]; auto.
  assert (Hstep : forall h owner,
    QP (match wire with
        | [] => Panic
        | _ :: _ =>
          match lift_add (wi_add_rr wi SAn h owner TYPE_CNAME (z_class z) (fst cn) wire w) with
          | Ok (_, w1) => follow_cname_2_body wi negttl z (follow_cname_1 wi negttl z fuel qname ty) qname cname ty os w1
          | Err e => Err e
          | Panic => Panic
          end
        end)).
  { intros h owner. destruct wire as [|b0 wire']; cbn [QP]; auto.
    pose proof (lift_add_P _ (Hrr SAn h owner TYPE_CNAME (z_class z) (fst cn) (b0 :: wire') w Hw)) as H.
    destruct (lift_add _) as [[u w1]|[e w1]|]; cbn [QP] in *; auto.
    unfold follow_cname_2_body.
    destruct (zl (zone_lookup z cname ty false false)) as [[s sos|next sos|c ns|sos| |]|]; cbn [QP]; auto.
    - apply found_P; auto.
    - destruct (length os <? PREVIOUS_OWNERS_CAP); cbn [QP fail]; auto.
    - apply referral_P; auto.
    - apply negsoa_P; auto.
    - destruct (wi_set_rcode wi RCODE_NXDOMAIN w1) as [w2|] eqn:E; cbn [lift_set QP]; auto.
      apply negsoa_P. eapply (Hrc RCODE_NXDOMAIN); [reflexivity|eauto|eauto]. }
  destruct (last_opt os); apply Hstep.
Qed.

Lemma set_aa_then_P k w : P w -> (forall w1, P w1 -> QP (k w1)) -> QP (set_aa_then wi k w).
Proof.
  intros Hw Hk. unfold set_aa_then. destruct (wi_set_aa wi true w) as [w1|] eqn:E; cbn [lift_set QP]; auto.
  apply Hk. eapply Haa; eauto.
Qed.

Lemma nxdomain_P w : P w -> QP (nxdomain wi negttl z w).
Proof.
  intros Hw. unfold nxdomain. destruct (wi_set_rcode wi RCODE_NXDOMAIN w) as [w1|] eqn:E; cbn [lift_set QP]; auto.
  apply set_aa_then_P; [eapply (Hrc RCODE_NXDOMAIN); [reflexivity|eauto|eauto]|]. intros w2 H2. apply negsoa_P; auto.
Qed.

Theorem answer_P qname ty w : P w -> QP (answer wi negttl z qname ty w).
Proof.
  intros Hw. unfold answer.
  destruct (zl (zone_lookup z qname ty true false)) as [[s sos|cn sos|c ns|sos| |]|]; cbn [QP]; auto.
  - apply set_aa_then_P; auto. intros w1 H1. apply found_P; auto.
  - unfold do_cname. destruct (wi_set_aa wi true w) as [w1|] eqn:E; cbn [lift_set QP]; auto.
    apply cname_P. eapply Haa; eauto.
  - apply referral_P; auto.
  - apply set_aa_then_P; auto. intros w1 H1. apply negsoa_P; auto.
  - apply nxdomain_P; auto.
Qed.

Lemma any_loop_P qname : forall rrsets n w, P w -> QP (any_loop wi z qname rrsets n w).
Proof.
  induction rrsets as [|r rrsets IH]; intros n w Hw; cbn [any_loop QP]; auto.
  op_rrset; cbn [lift_addv QP] in *; auto.
Qed.

Theorem answer_any_P qname w : P w -> QP (answer_any wi negttl z qname w).
Proof.
  intros Hw. unfold answer_any.
  destruct (zl (zone_lookup_all z qname true false)) as [[rrsets sos|c ns| |]|]; cbn [QP]; auto.
  - apply set_aa_then_P; auto. intros w1 H1.
    pose proof (any_loop_P qname rrsets 0 w1 H1) as H.
    destruct (any_loop wi z qname rrsets 0 w1) as [[n w2]|[e w2]|]; cbn [QP] in *; auto.
    destruct (n =? 0); cbn [QP]; auto. apply negsoa_P; auto.
  - apply referral_P; auto.
  - apply nxdomain_P; auto.
Qed.

End Lift.
