(* The characterisation spec_equals (Spec/RdataEqS.v) is an equivalence relation,
   for every class and type. *)
From QV Require Import Base.ListX Spec.NameWireS Proofs.NameWireP Proofs.NameWireSP
  Model.RdataM Spec.RdataFormatS Spec.RdataEqS Proofs.RdNameP Proofs.RdataFormatSP Proofs.RdataVP
  Proofs.RdNameEqP.
Local Open Scope nat_scope.

Lemma label_ci_refl a : label_ci_eqb a a = true.
Proof. induction a as [|x a IH]; simpl; auto. rewrite N.eqb_refl. exact IH. Qed.

Lemma label_ci_sym a b : label_ci_eqb a b = label_ci_eqb b a.
Proof.
  revert b; induction a as [|x a IH]; intros [|y b]; simpl; auto.
  rewrite (N.eqb_sym (lower x)), IH. reflexivity.
Qed.

Lemma label_ci_trans a b c : label_ci_eqb a b = true -> label_ci_eqb b c = true -> label_ci_eqb a c = true.
Proof.
  revert b c; induction a as [|x a IH]; intros [|y b] [|z c]; simpl; auto; try discriminate.
  intros H1 H2. apply andb_true_iff in H1. apply andb_true_iff in H2.
  destruct H1 as [A1 B1]. destruct H2 as [A2 B2]. apply N.eqb_eq in A1. apply N.eqb_eq in A2.
  rewrite A1, A2, N.eqb_refl. simpl. eapply IH; eauto.
Qed.

Lemma labels_ci_refl a : labels_ci_eqb a a = true.
Proof. induction a as [|x a IH]; simpl; auto. rewrite label_ci_refl. exact IH. Qed.

Lemma labels_ci_sym a b : labels_ci_eqb a b = labels_ci_eqb b a.
Proof.
  revert b; induction a as [|x a IH]; intros [|y b]; simpl; auto.
  rewrite label_ci_sym, IH. reflexivity.
Qed.

Lemma labels_ci_trans a b c :
  labels_ci_eqb a b = true -> labels_ci_eqb b c = true -> labels_ci_eqb a c = true.
Proof.
  revert b c; induction a as [|x a IH]; intros [|y b] [|z c]; simpl; auto; try discriminate.
  intros H1 H2. apply andb_true_iff in H1. apply andb_true_iff in H2.
  destruct H1 as [A1 B1]. destruct H2 as [A2 B2].
  rewrite (label_ci_trans _ _ _ A1 A2). simpl. eapply IH; eauto.
Qed.

Lemma octets_eqb_sym a b : octets_eqb a b = octets_eqb b a.
Proof.
  revert b; induction a as [|x a IH]; intros [|y b]; simpl; auto.
  rewrite (N.eqb_sym x), IH. reflexivity.
Qed.

Lemma octets_eqb_trans a b c : octets_eqb a b = true -> octets_eqb b c = true -> octets_eqb a c = true.
Proof. rewrite !octets_eqb_eq. congruence. Qed.

(* ---- ci_fields ---- *)

Lemma ci_fields_refl g : forall a, smatch g a = true -> ci_fields g a a = true.
Proof.
  induction g as [|f g IH]; intros a M; [apply octets_eqb_refl|].
  destruct f; cbn [ci_fields]; try apply octets_eqb_refl.
  - cbn [smatch] in M. unfold sname in M.
    destruct (spec_decode_name a 0) as [[ls l]|]; [|discriminate].
    rewrite labels_ci_refl. cbn [andb]. apply IH. exact M.
  - cbn [smatch] in M. apply andb_true_iff in M. destruct M as [_ M].
    rewrite octets_eqb_refl. cbn [andb]. apply IH. exact M.
Qed.

Lemma ci_fields_sym g : forall a b, ci_fields g a b = ci_fields g b a.
Proof.
  induction g as [|f g IH]; intros a b; [apply octets_eqb_sym|].
  destruct f; cbn [ci_fields]; try apply octets_eqb_sym.
  - destruct (spec_decode_name a 0) as [[la na]|], (spec_decode_name b 0) as [[lb nb]|]; auto.
    rewrite labels_ci_sym, IH. reflexivity.
  - rewrite octets_eqb_sym, IH. reflexivity.
Qed.

Lemma ci_fields_trans g : forall a b c,
  ci_fields g a b = true -> ci_fields g b c = true -> ci_fields g a c = true.
Proof.
  induction g as [|f g IH]; intros a b c; [apply octets_eqb_trans|].
  destruct f; cbn [ci_fields]; try apply octets_eqb_trans.
  - destruct (spec_decode_name a 0) as [[la na]|]; [|discriminate].
    destruct (spec_decode_name b 0) as [[lb nb]|]; [|discriminate].
    destruct (spec_decode_name c 0) as [[lc nc]|]; [|intros _ H; exact H].
    intros H1 H2. apply andb_true_iff in H1. apply andb_true_iff in H2.
    destruct H1 as [A1 B1]. destruct H2 as [A2 B2].
    rewrite (labels_ci_trans _ _ _ A1 A2). cbn [andb]. eapply IH; eauto.
  - intros H1 H2. apply andb_true_iff in H1. apply andb_true_iff in H2.
    destruct H1 as [A1 B1]. destruct H2 as [A2 B2].
    rewrite (octets_eqb_trans _ _ _ A1 A2). cbn [andb]. eapply IH; eauto.
Qed.

(* ---- spec_equals is an equivalence, for every class and type ---- *)

Theorem spec_equals_refl c t a : spec_equals c t a a = true.
Proof.
  unfold spec_equals. destruct (ci_type c t); cbn [andb]; [|apply octets_eqb_refl].
  destruct (spec_valid c t a) eqn:V; cbn [andb]; [|apply octets_eqb_refl].
  apply ci_fields_refl. exact V.
Qed.

Theorem spec_equals_sym c t a b : spec_equals c t a b = spec_equals c t b a.
Proof.
  unfold spec_equals. rewrite ci_fields_sym, octets_eqb_sym.
  destruct (ci_type c t), (spec_valid c t a), (spec_valid c t b); reflexivity.
Qed.

Theorem spec_equals_trans c t a b d :
  spec_equals c t a b = true -> spec_equals c t b d = true -> spec_equals c t a d = true.
Proof.
  unfold spec_equals. destruct (ci_type c t); cbn [andb]; [|apply octets_eqb_trans].
  destruct (spec_valid c t a) eqn:Va, (spec_valid c t b) eqn:Vb; cbn [andb].
  - destruct (spec_valid c t d) eqn:Vd; cbn [andb].
    + apply ci_fields_trans.
    + intros _ H. apply octets_eqb_eq in H. subst. congruence.
  - intros H. apply octets_eqb_eq in H. subst. congruence.
  - intros H. apply octets_eqb_eq in H. subst. congruence.
  - intros H. apply octets_eqb_eq in H. subst. try rewrite Va. try rewrite Vb. cbn [andb]. auto.
Qed.
